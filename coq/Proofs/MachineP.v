(* Theorems about the channel state machine model (C01, C02, C09). *)
From Coq Require Import Arith PeanoNat ZifyN ZifyNat ZifyBool.
From V Require Import Model.Machine Proofs.ChannelP.
Open Scope N_scope.

Ltac break_match :=
  repeat match goal with
         | |- context [match ?x with _ => _ end] => destruct x eqn:?
         end.

(* ---------- C09: an operation that fails changes nothing ---------- *)
Lemma step_fail_noop m o : snd (step m o) = ERR \/ snd (step m o) = PANIC -> fst (step m o) = m.
Proof.
  destruct o; unfold step, enable_staged, simple_transition; break_match; cbn [fst snd];
    intros [H|H]; try discriminate H; try reflexivity.
Qed.

(* ---------- well-formedness: what every reachable machine satisfies ---------- *)
Definition n_of (m : mach) : nat := length (mp_parts (ps m)).

Definition slot_ok (m : mach) (s : state) (i : nat) (g : option sigtok) : Prop :=
  match g with
  | None => True
  | Some sg => exists a, nth_error (mp_parts (ps m)) i = Some a /\ verify_state a s sg = Some true
  end.
Definition slots_ok (m : mach) (t : tx) : Prop :=
  length (tx_sigs t) = n_of m /\
  forall i g, nth_error (tx_sigs t) i = Some g -> slot_ok m (tx_st t) i g.
Definition fully_signed (m : mach) (t : tx) : Prop :=
  slots_ok m t /\ all_some (tx_sigs t) = true.
Definition unsigned (t : tx) : Prop := forall i g, nth_error (tx_sigs t) i = Some g -> g = None.

Record Inv (m : mach) : Prop := mkInv {
  inv_staging : forall t, staging m = Some t -> slots_ok m t;
  inv_current : forall t, current m = Some t -> fully_signed m t \/ unsigned t;
  inv_signing : signing_phase (ph m) = true -> staging m <> None }.

Lemma nth_error_repeat {A} (x : A) n i y : nth_error (repeat x n) i = Some y -> y = x.
Proof.
  revert i; induction n as [|n IH]; intros [|i] H; cbn in H; try discriminate.
  - injection H as <-. reflexivity.
  - eapply IH; exact H.
Qed.

Lemma new_tx_slots m s : slots_ok m (new_tx m s).
Proof.
  unfold slots_ok, new_tx. cbn [tx_sigs tx_st]. split.
  - rewrite repeat_length. unfold nparts, n_of. apply len_to_nat.
  - intros i g H. apply nth_error_repeat in H. subst g. exact I.
Qed.
Lemma new_tx_unsigned m s : unsigned (new_tx m s).
Proof. intros i g H. unfold new_tx in H. cbn [tx_sigs] in H. eapply nth_error_repeat; exact H. Qed.

Lemma set_nth_length {A} i (x : A) l : length (set_nth i x l) = length l.
Proof. revert i; induction l as [|y l IH]; intros [|i]; cbn; auto. Qed.
Lemma nth_error_set_nth {A} i j (x : A) l y :
  nth_error (set_nth i x l) j = Some y ->
  (j = i /\ y = x) \/ nth_error l j = Some y.
Proof.
  revert i j; induction l as [|z l IH]; intros [|i] [|j] H; cbn in *; try discriminate; auto.
  - injection H as <-. auto.
  - apply IH in H as [[-> ->]|H]; auto.
Qed.

Lemma slots_ok_ps m m' t : ps m' = ps m -> slots_ok m t -> slots_ok m' t.
Proof. unfold slots_ok, slot_ok, n_of. intros ->. auto. Qed.
Lemma fully_signed_ps m m' t : ps m' = ps m -> fully_signed m t -> fully_signed m' t.
Proof. unfold fully_signed. intros E [H1 H2]. split; [eapply slots_ok_ps; eauto|exact H2]. Qed.

Lemma slots_ok_set m t i sg a :
  slots_ok m t -> nth_error (mp_parts (ps m)) i = Some a ->
  verify_state a (tx_st t) sg = Some true ->
  slots_ok m (mkTx (tx_st t) (set_nth i (Some sg) (tx_sigs t))).
Proof.
  intros [L H] Ha Hv. split; cbn [tx_sigs tx_st].
  - rewrite set_nth_length. exact L.
  - intros j g Hj. apply nth_error_set_nth in Hj as [[-> ->]|Hj].
    + exists a. auto.
    + apply H; exact Hj.
Qed.

Lemma own_sig_verifies k s sg : sign_state k s = Some sg -> verify_state k s sg = Some true.
Proof.
  unfold sign_state, verify_state. destruct (state_encodable s); [|discriminate].
  intro H. injection H as <-. rewrite tok_verify_sign. reflexivity.
Qed.

Lemma signing_phase_cases p : signing_phase p = true -> p = InitSigning \/ p = Signing \/ p = Progressing.
Proof. destruct p; vm_compute; intro H; try discriminate; auto. Qed.

Lemma Inv_set_phase m p : Inv m -> (signing_phase p = true -> staging m <> None) -> Inv (set_phase m p).
Proof. intros [Hs Hc Hp] H. split; cbn [set_phase ph staging current]; auto. Qed.

Lemma Inv_set_staging m p s : Inv m -> Inv (set_staging m p s).
Proof.
  intros [Hs Hc Hp]. split; cbn [set_staging ph staging current].
  - intros t E. injection E as <-. apply (slots_ok_ps m); [reflexivity|apply new_tx_slots].
  - intros t E. destruct (Hc t E) as [F|U]; [left; apply (fully_signed_ps m); [reflexivity|exact F]|right; exact U].
  - intros _ C. discriminate C.
Qed.

Lemma Inv_add_tx m p t : Inv m -> fully_signed m t \/ unsigned t -> signing_phase p = false -> Inv (add_tx m p t).
Proof.
  intros [Hs Hc Hp] H Hn. split; cbn [add_tx ph staging current].
  - intros t' E. discriminate E.
  - intros t' E. injection E as <-. destruct H as [F|U]; [left; apply (fully_signed_ps m); [reflexivity|exact F]|right; exact U].
  - intro C. rewrite Hn in C. discriminate C.
Qed.

Lemma Inv_upd_staging m t' : Inv m -> slots_ok m t' ->
  Inv (mkMach (ph m) (me m) (ps m) (Some t') (current m)).
Proof.
  intros [Hs Hc Hp] H. split; cbn [ph staging current].
  - intros t E. injection E as <-. apply (slots_ok_ps m); [reflexivity|exact H].
  - intros t E. destruct (Hc t E) as [F|U]; [left; apply (fully_signed_ps m); [reflexivity|exact F]|right; exact U].
  - intros _ C. discriminate C.
Qed.

Lemma expect_phase m f t : expect m f t = true -> ph m = f.
Proof.
  unfold expect, phase_eqb. intro H. apply andb_true_iff in H as [H _]. apply N.eqb_eq in H.
  destruct (ph m), f; cbn in H; try discriminate H; reflexivity.
Qed.

Lemma Inv_enable m f t : Inv m -> signing_phase t = false -> Inv (fst (enable_staged m f t)).
Proof.
  intros I Hn. unfold enable_staged. break_match; cbn [fst]; try exact I.
  apply Inv_add_tx; [exact I| |exact Hn].
  left. split.
  - apply (inv_staging m I). assumption.
  - match goal with H : negb (all_some _) = false |- _ => apply negb_false_iff in H; exact H end.
Qed.

Lemma Inv_step m o : Inv m -> Inv (fst (step m o)).
Proof.
  intro I. destruct o; cbn [step].
  - (* Init *) break_match; cbn [fst]; try exact I. apply Inv_set_staging; exact I.
  - (* Update *) break_match; cbn [fst]; try exact I. apply Inv_set_staging; exact I.
  - (* ForceUpdate *) cbn [fst]. apply Inv_set_staging; exact I.
  - (* CheckUpdate *) break_match; cbn [fst]; exact I.
  - (* Sig *) break_match; cbn [fst]; try exact I.
    apply Inv_upd_staging; [exact I|].
    eapply slots_ok_set; [apply (inv_staging m I); eassumption|eassumption|].
    apply own_sig_verifies. assumption.
  - (* AddSig *) break_match; cbn [fst]; try exact I.
    apply Inv_upd_staging; [exact I|].
    eapply slots_ok_set; [apply (inv_staging m I); eassumption|eassumption|assumption].
  - apply Inv_enable; [exact I|reflexivity].
  - apply Inv_enable; [exact I|reflexivity].
  - apply Inv_enable; [exact I|reflexivity].
  - (* Discard *) break_match; cbn [fst]; try exact I.
    destruct I as [Hs Hc Hp]. split; cbn [ph staging current].
    + intros t E; discriminate E.
    + intros t E. destruct (Hc t E) as [F|U]; [left; apply (fully_signed_ps m); [reflexivity|exact F]|right; exact U].
    + intro C. vm_compute in C. discriminate C.
  - (* SetFunded *) unfold simple_transition. break_match; cbn [fst]; try exact I.
    apply Inv_set_phase; [exact I|]. intro C; vm_compute in C; discriminate C.
  - break_match; cbn [fst]; try exact I.
    apply Inv_set_phase; [exact I|]. intro C; vm_compute in C; discriminate C.
  - break_match; cbn [fst]; try exact I.
    apply Inv_set_phase; [exact I|]. intro C; vm_compute in C; discriminate C.
  - (* SetProgressing *) break_match; cbn [fst]; try exact I. apply Inv_set_staging; exact I.
  - (* SetProgressed *) cbn [fst]. apply Inv_add_tx; [exact I|right; apply new_tx_unsigned|reflexivity].
  - break_match; cbn [fst]; try exact I.
    apply Inv_set_phase; [exact I|]. intro C; vm_compute in C; discriminate C.
  - unfold simple_transition. break_match; cbn [fst]; try exact I.
    apply Inv_set_phase; [exact I|]. intro C; vm_compute in C; discriminate C.
Qed.

Lemma Inv_new p idx : Inv (new_machine p idx).
Proof.
  split; cbn [new_machine staging current ph]; try (intros t E; discriminate E).
  intro C. vm_compute in C. discriminate C.
Qed.

Lemma Inv_run m ops : Inv m -> Inv (run m ops).
Proof.
  revert m; induction ops as [|o ops IH]; intros m I; cbn [run fold_left]; [exact I|].
  apply IH. apply Inv_step. exact I.
Qed.

(* C01: in every reachable machine the current transaction is signed by every participant over
   exactly the current state, or it is an unsigned state adopted from a progression event *)
Lemma C01_reachable p idx ops t :
  current (run (new_machine p idx) ops) = Some t ->
  fully_signed (run (new_machine p idx) ops) t \/ unsigned t.
Proof. intro H. exact (inv_current _ (Inv_run _ ops (Inv_new p idx)) t H). Qed.

(* the current transaction changes only by promoting a fully signed staged transaction, or by
   SetProgressed *)
Lemma C01_promotion m o : Inv m -> current (fst (step m o)) <> current m ->
  (exists s, o = OSetProgressed s) \/
  (exists t, current (fst (step m o)) = Some t /\ fully_signed m t /\ staging m = Some t).
Proof.
  intros I. destruct o; cbn [step]; unfold enable_staged, simple_transition; break_match;
    cbn [fst current set_phase set_staging add_tx]; intro C; try (elim C; reflexivity).
  all: try (left; eexists; reflexivity).
  all: right; eexists; split; [reflexivity|]; split; [|reflexivity]; split;
    [apply (inv_staging m I); assumption|
     match goal with H : negb (all_some _) = false |- _ => apply negb_false_iff in H; exact H end].
Qed.

(* what fully signed means, spelled out: one verified signature per participant *)
Lemma fully_signed_spec m t : fully_signed m t ->
  length (tx_sigs t) = length (mp_parts (ps m)) /\
  forall i a, nth_error (mp_parts (ps m)) i = Some a ->
    exists sg, nth_error (tx_sigs t) i = Some (Some sg) /\ verify_state a (tx_st t) sg = Some true.
Proof.
  intros [[L H] A]. split; [exact L|]. intros i a Ha.
  assert (Hi : (i < length (tx_sigs t))%nat).
  { rewrite L. apply nth_error_Some. rewrite Ha. discriminate. }
  destruct (nth_error (tx_sigs t) i) as [g|] eqn:E; [|apply nth_error_None in E; lia].
  unfold all_some in A. rewrite forallb_forall in A.
  pose proof (A g (nth_error_In _ _ E)) as Ag. destruct g as [sg|]; [|discriminate Ag].
  exists sg. split; [reflexivity|].
  destruct (H i (Some sg) E) as (a' & Ha' & Hv). rewrite Ha in Ha'. injection Ha' as <-. exact Hv.
Qed.

(* under the ideal scheme a verified slot holds that participant's signature over exactly that state *)
Lemma verify_state_binds a s sg : verify_state a s sg = Some true -> sg = SigOf a (enc_state s).
Proof.
  unfold verify_state. destruct (state_encodable s); [|discriminate].
  intro H. injection H as H. destruct sg as [k msg|n]; cbn in H; [|discriminate].
  apply andb_true_iff in H as [H1 H2]. apply N.eqb_eq in H1. apply bytes_eqb_eq in H2. congruence.
Qed.

(* ---------- C09: the documented phase protocol ---------- *)
From V Require Import Model.MachineSpec.

(* T4 obligations: the tables generated from the compiled package are the documented ones *)
Lemma generated_table_matches_doc :
  forallb (fun f => forallb (fun t => Bool.eqb (valid_transition_tbl f t) (doc_transition f t)) all_phases)
          all_phases = true.
Proof. vm_compute. reflexivity. Qed.
Lemma generated_signing_phases_match_doc :
  forallb (fun p => Bool.eqb (signing_phase p) (phase_in p signing_phases_doc)) all_phases = true.
Proof. vm_compute. reflexivity. Qed.

Lemma all_phases_complete p : In p all_phases.
Proof. destruct p; cbn; auto 13. Qed.

Lemma tbl_doc f t : valid_transition_tbl f t = doc_transition f t.
Proof.
  pose proof generated_table_matches_doc as H. rewrite forallb_forall in H.
  specialize (H f (all_phases_complete f)). rewrite forallb_forall in H.
  specialize (H t (all_phases_complete t)). apply Bool.eqb_prop in H. exact H.
Qed.
Lemma signing_doc p : signing_phase p = phase_in p signing_phases_doc.
Proof.
  pose proof generated_signing_phases_match_doc as H. rewrite forallb_forall in H.
  specialize (H p (all_phases_complete p)). apply Bool.eqb_prop in H. exact H.
Qed.

Lemma signing_doc_m m : signing_phase (ph m) = in_phases m signing_phases_doc.
Proof. apply signing_doc. Qed.

Lemma expect_doc m f t : doc_transition f t = true -> expect m f t = in_phases m [f].
Proof.
  intro H. unfold expect, in_phases, phase_in. cbn [existsb]. rewrite orb_false_r.
  destruct (phase_eqb (ph m) f) eqn:E; [|reflexivity].
  unfold phase_eqb in E. apply N.eqb_eq in E.
  assert (ph m = f) as -> by (destruct (ph m), f; cbn in E; try discriminate E; reflexivity).
  rewrite tbl_doc, H. reflexivity.
Qed.

Lemma after_init_spec m : (phase_num (ph m) <? phase_num Funding) = negb (in_phases m after_init).
Proof. unfold in_phases. destruct (ph m); vm_compute; reflexivity. Qed.

Lemma is_success_out r : is_success r = true -> r = OK \/ exists g, r = OKSig g.
Proof. destruct r; cbn; intro H; try discriminate; eauto. Qed.

(* success exactly when the documented precondition holds (whenever Go does not panic) *)
Ltac dphase m l := unfold in_phases; destruct (phase_in (ph m) l); cbn [negb andb snd fst is_success]; try reflexivity.

Lemma enable_success_iff m f t fin :
  doc_transition f t = true -> phase_eqb t Final = fin ->
  snd (enable_staged m f t) <> PANIC ->
  is_success (snd (enable_staged m f t)) = in_phases m [f] && staged_ready m fin.
Proof.
  intros D F. unfold enable_staged, staged_ready. rewrite (expect_doc m f t D), F.
  dphase m [f]. destruct (staging m) as [stx|]; cbn [snd]; [|intro NP; elim NP; reflexivity].
  intros _. destruct (Bool.eqb fin (st_final (tx_st stx))); cbn [negb andb snd is_success]; [|reflexivity].
  destruct (all_some (tx_sigs stx)); reflexivity.
Qed.

Lemma exec_mock_no_sig o g : exec_mock o <> OKSig g.
Proof. unfold exec_mock. break_match; discriminate. Qed.
Lemma pay_row_no_sig actor j from to g : pay_row actor j from to <> OKSig g.
Proof.
  revert j to; induction from as [|f from IH]; intros j to; cbn [pay_row]; [discriminate|].
  destruct to as [|t to]; [discriminate|]. destruct (if j =? actor then _ else _); [apply IH|discriminate].
Qed.
Lemma pay_rows_no_sig actor from to g : pay_rows actor from to <> OKSig g.
Proof.
  revert to; induction from as [|f from IH]; intros to; cbn [pay_rows]; [discriminate|].
  destruct to as [|t to]; [discriminate|].
  destruct (pay_row actor 0 f t) eqn:E; try discriminate; [apply IH|].
  exfalso. eapply pay_row_no_sig; exact E.
Qed.
Lemma vt_no_sig m s a g : valid_transition m s a <> OKSig g.
Proof.
  unfold valid_transition, app_valid_transition. break_match; try discriminate;
    first [apply exec_mock_no_sig | apply pay_rows_no_sig].
Qed.

Lemma avi_no_sig m d g : app_valid_init m d <> OKSig g.
Proof. unfold app_valid_init. break_match; try discriminate; apply exec_mock_no_sig. Qed.

Lemma step_success_iff_pre m o :
  snd (step m o) <> PANIC -> is_success (snd (step m o)) = pre o m.
Proof.
  destruct o; cbn [step pre].
  - rewrite (expect_doc m InitActing InitSigning) by reflexivity. dphase m [InitActing]. intros _.
    destruct (new_state m a d); [|reflexivity]. destruct (app_valid_init m d); reflexivity.
  - rewrite (expect_doc m Acting Signing) by reflexivity. dphase m [Acting]. intros _.
    destruct (valid_transition m s actor); reflexivity.
  - reflexivity.
  - unfold sig_valid_for. destruct (valid_transition m s actor) eqn:VT; cbn [snd is_success andb]; try reflexivity;
      [|exfalso; eapply vt_no_sig; exact VT].
    destruct (nth_error (mp_parts (ps m)) (N.to_nat i)) as [a|]; cbn [snd]; [|intro NP; elim NP; reflexivity].
    intros _. destruct (verify_state a s sg) as [[|]|]; reflexivity.
  - rewrite signing_doc_m. unfold own_slot_signable. dphase m signing_phases_doc.
    destruct (staging m) as [stx|]; cbn [snd]; [|intro NP; elim NP; reflexivity].
    destruct (nth_error (tx_sigs stx) (N.to_nat (me m))) as [[g|]|]; cbn [snd is_success];
      [reflexivity| |intro NP; elim NP; reflexivity].
    destruct (nth_error (mp_parts (ps m)) (N.to_nat (me m))) as [k|]; cbn [snd]; [|intro NP; elim NP; reflexivity].
    intros _. unfold sign_state. destruct (state_encodable (tx_st stx)); reflexivity.
  - rewrite signing_doc_m. unfold slot_empty, staged_state, sig_valid_for. dphase m signing_phases_doc.
    destruct (staging m) as [stx|]; cbn [snd option_map]; [|intro NP; elim NP; reflexivity].
    destruct (nth_error (tx_sigs stx) (N.to_nat i)) as [[g|]|]; cbn [snd is_success andb];
      [reflexivity| |intro NP; elim NP; reflexivity].
    destruct (nth_error (mp_parts (ps m)) (N.to_nat i)) as [a|]; cbn [snd]; [|intro NP; elim NP; reflexivity].
    intros _. destruct (verify_state a (tx_st stx) sg) as [[|]|]; reflexivity.
  - apply enable_success_iff; reflexivity.
  - apply enable_success_iff; reflexivity.
  - apply enable_success_iff; reflexivity.
  - rewrite (expect_doc m Signing Acting) by reflexivity. dphase m [Signing].
  - unfold simple_transition. rewrite (expect_doc m Funding Acting) by reflexivity. dphase m [Funding].
  - rewrite after_init_spec. dphase m after_init.
  - rewrite after_init_spec. dphase m after_init.
  - dphase m [Registered; Progressing; Progressed].
  - reflexivity.
  - dphase m [Final; Registered; Progressed; Withdrawing].
  - unfold simple_transition. rewrite (expect_doc m Withdrawing Withdrawn) by reflexivity. dphase m [Withdrawing].
Qed.

(* ... and then the machine is in the documented phase *)
Lemma step_post_phase m o : is_success (snd (step m o)) = true -> ph (fst (step m o)) = post o m.
Proof.
  destruct o; cbn [step post]; unfold enable_staged, simple_transition; break_match;
    cbn [snd fst is_success ph set_phase set_staging add_tx]; intro H; try discriminate H; try reflexivity;
    exfalso; first [eapply vt_no_sig; eassumption | eapply avi_no_sig; eassumption].
Qed.

(* own signatures only in signing phases and only over the currently staged state *)
Lemma step_own_sig m o sg : Inv m -> snd (step m o) = OKSig sg ->
  o = OSig /\ in_phases m signing_phases_doc = true /\
  exists t k, staging m = Some t /\ nth_error (mp_parts (ps m)) (N.to_nat (me m)) = Some k
              /\ verify_state k (tx_st t) sg = Some true.
Proof.
  intros I. destruct o; cbn [step]; unfold enable_staged, simple_transition; break_match;
    cbn [snd]; intro H; try discriminate H;
    try (exfalso; first [eapply vt_no_sig; eassumption | eapply avi_no_sig; eassumption]).
  all: injection H as ->; split; [reflexivity|]; rewrite <- signing_doc_m; split;
    [match goal with H : negb (signing_phase _) = false |- _ => apply negb_false_iff in H; exact H end|].
  - (* an already stored own signature: verified when it was stored *)
    match goal with H : staging m = Some ?t |- _ => pose proof (inv_staging m I t H) as [_ Hs] end.
    match goal with H : nth_error (tx_sigs _) _ = Some (Some _) |- _ => destruct (Hs _ _ H) as (a & Ha & Hv) end.
    exists t, a. auto.
  - eexists; eexists; split; [reflexivity|]; split; [reflexivity|]. apply own_sig_verifies. assumption.
Qed.

(* concrete run used by the non-vacuity examples *)
Definition exP0 : mparams := mkMP (repeat Byte.x07 32) [1; 2] None None.
Definition exA0 : alloc := mkAlloc [0] [5] [[60; 40]%Z] [].
Definition exS00 : state := mkState (repeat Byte.x07 32) 0 exA0 None [] false.
Definition exOps0 : list op := [OInit exA0 []; OSig; OAddSig 1 (SigOf 2 (enc_state exS00))].

(* ---------- no operation in the documented domain panics on a reachable machine ---------- *)
Record Inv2 (m : mach) : Prop := mkInv2 {
  i2_me : (N.to_nat (me m) < n_of m)%nat;
  i2_cur : phase_num Funding <= phase_num (ph m) -> current m <> None }.

(* the documented domain: signature indices below the participant count; the unchecked forced update
   and CheckUpdate only on machines that already have a current state; apps that do not panic by design *)
Definition op_ok (m : mach) (o : op) : Prop :=
  match o with
  | OForceUpdate _ _ => current m <> None
  | OCheckUpdate s a _ i =>
      current m <> None /\ (N.to_nat i < n_of m)%nat
      /\ forall c, current m = Some c -> app_valid_transition m (tx_st c) s a <> PANIC
  | OAddSig i _ => (N.to_nat i < n_of m)%nat
  | OInit _ d => app_valid_init m d <> PANIC
  | OUpdate s a => forall c, current m = Some c -> app_valid_transition m (tx_st c) s a <> PANIC
  | _ => True
  end.

Lemma nth_error_some_lt {A} (l : list A) i : (i < length l)%nat -> exists x, nth_error l i = Some x.
Proof.
  intro H. destruct (nth_error l i) eqn:E; [eauto|]. apply nth_error_None in E. lia.
Qed.

Lemma vt_no_panic m s a : current m <> None ->
  (forall c, current m = Some c -> app_valid_transition m (tx_st c) s a <> PANIC) ->
  valid_transition m s a <> PANIC.
Proof.
  intros Hc Ha. unfold valid_transition. destruct (nparts m <=? a); [discriminate|].
  destruct (current m) as [c|]; [|elim Hc; reflexivity].
  destruct (generic_valid m (tx_st c) s); [apply Ha; reflexivity|discriminate].
Qed.

Lemma enable_no_panic m f t : Inv m -> signing_phase f = true -> snd (enable_staged m f t) <> PANIC.
Proof.
  intros I Sf. unfold enable_staged. destruct (negb (expect m f t)) eqn:E; [discriminate|].
  apply negb_false_iff in E. apply expect_phase in E.
  destruct (staging m) as [stx|] eqn:Es.
  - break_match; discriminate.
  - exfalso. apply (inv_signing m I); [rewrite E; exact Sf|exact Es].
Qed.

Lemma step_no_panic m o : Inv m -> Inv2 m -> op_ok m o -> snd (step m o) <> PANIC.
Proof.
  intros I [Hme Hcur] Hop. destruct o; cbn [step op_ok] in *.
  - destruct (negb (expect m InitActing InitSigning)); [discriminate|].
    destruct (new_state m a d); [|discriminate].
    destruct (app_valid_init m d) eqn:E; cbn [snd]; try discriminate. elim Hop. reflexivity.
  - destruct (negb (expect m Acting Signing)) eqn:E; [discriminate|].
    apply negb_false_iff in E. apply expect_phase in E.
    assert (Hc : current m <> None) by (apply Hcur; rewrite E; cbn; lia).
    pose proof (vt_no_panic m s actor Hc Hop) as NP.
    destruct (valid_transition m s actor); cbn [snd]; try discriminate. exact NP.
  - discriminate.
  - destruct Hop as (Hc & Hi & Ha). pose proof (vt_no_panic m s actor Hc Ha) as NP.
    destruct (valid_transition m s actor); cbn [snd]; try discriminate; try exact NP.
    destruct (nth_error_some_lt (mp_parts (ps m)) (N.to_nat i) Hi) as [a Ea]. rewrite Ea.
    destruct (verify_state a s sg) as [[|]|]; discriminate.
  - destruct (negb (signing_phase (ph m))) eqn:E; [discriminate|]. apply negb_false_iff in E.
    destruct (staging m) as [stx|] eqn:Es; [|exfalso; apply (inv_signing m I E Es)].
    destruct (inv_staging m I stx Es) as [L _].
    destruct (nth_error_some_lt (tx_sigs stx) (N.to_nat (me m))) as [g Eg]; [rewrite L; exact Hme|].
    rewrite Eg. destruct g; [discriminate|].
    destruct (nth_error_some_lt (mp_parts (ps m)) (N.to_nat (me m)) Hme) as [k Ek]. rewrite Ek.
    destruct (sign_state k (tx_st stx)); discriminate.
  - destruct (negb (signing_phase (ph m))) eqn:E; [discriminate|]. apply negb_false_iff in E.
    destruct (staging m) as [stx|] eqn:Es; [|exfalso; apply (inv_signing m I E Es)].
    destruct (inv_staging m I stx Es) as [L _].
    destruct (nth_error_some_lt (tx_sigs stx) (N.to_nat i)) as [g Eg]; [rewrite L; exact Hop|].
    rewrite Eg. destruct g; [discriminate|].
    destruct (nth_error_some_lt (mp_parts (ps m)) (N.to_nat i) Hop) as [a Ea]. rewrite Ea.
    destruct (verify_state a (tx_st stx) sg) as [[|]|]; discriminate.
  - apply enable_no_panic; [exact I|reflexivity].
  - apply enable_no_panic; [exact I|reflexivity].
  - apply enable_no_panic; [exact I|reflexivity].
  - break_match; discriminate.
  - unfold simple_transition. break_match; discriminate.
  - break_match; discriminate.
  - break_match; discriminate.
  - break_match; discriminate.
  - discriminate.
  - break_match; discriminate.
  - unfold simple_transition. break_match; discriminate.
Qed.

Lemma Inv2_step m o : Inv2 m -> op_ok m o -> Inv2 (fst (step m o)).
Proof.
  intros [Hme Hcur] Hop.
  assert (K : forall p stg, (phase_num Funding <= phase_num p -> phase_num Funding <= phase_num (ph m)) ->
              Inv2 (mkMach p (me m) (ps m) stg (current m))).
  { intros p stg Hp. split; cbn [me ps ph current n_of]; [exact Hme|]. intro H. apply Hcur. apply Hp. exact H. }
  assert (K2 : forall p stg t, Inv2 (mkMach p (me m) (ps m) stg (Some t))).
  { intros p stg t. split; cbn [me ps ph current n_of]; [exact Hme|]. intros _. discriminate. }
  destruct o; cbn [step op_ok] in *; unfold enable_staged, simple_transition, set_phase, set_staging, add_tx;
    break_match; cbn [fst]; try (split; assumption); try apply K2.
  all: try (apply K; cbn; lia).
  all: repeat match goal with
              | H : negb (expect _ _ _) = false |- _ => apply negb_false_iff in H; apply expect_phase in H
              | H : expect _ _ _ = true |- _ => apply expect_phase in H
              end.
  all: try (apply K; intros _;
            match goal with H : ph _ = _ |- _ => rewrite H; cbn; lia end).
  all: try (split; cbn [me ps ph current n_of]; [exact Hme|]; intros _; first [exact Hop | apply Hcur]).
  all: try match goal with H : (phase_num (ph _) <? phase_num Funding) = false |- _ => apply N.ltb_ge in H; exact H end.
  all: try (match goal with H : phase_in (ph ?mm) _ = true |- _ => destruct (ph mm); try (vm_compute in H; discriminate H); cbn; lia end).
Qed.

(* runs in which every operation is in the documented domain at the moment it is applied *)
Fixpoint run_ok (m : mach) (ops : list op) : Prop :=
  match ops with
  | [] => True
  | o :: r => op_ok m o /\ run_ok (fst (step m o)) r
  end.

Lemma Inv2_new p idx : (N.to_nat idx < length (mp_parts p))%nat -> Inv2 (new_machine p idx).
Proof.
  intro H. split; cbn [new_machine me ps ph current n_of]; [exact H|]. cbn. intro C. lia.
Qed.

Lemma no_panic_reachable m ops o : Inv m -> Inv2 m -> run_ok m (ops ++ [o]) ->
  snd (step (run m ops) o) <> PANIC.
Proof.
  revert m; induction ops as [|x ops IH]; intros m I I2 R; cbn [run fold_left app run_ok] in *.
  - destruct R as [Ho _]. apply step_no_panic; assumption.
  - destruct R as [Hx R]. apply IH; [apply Inv_step; exact I|apply Inv2_step; assumption|exact R].
Qed.

(* ---------- the payment rule does not panic on two valid allocations of equal dimensions ---------- *)
Lemma pay_row_no_panic actor j from to : (length from <= length to)%nat -> pay_row actor j from to <> PANIC.
Proof.
  revert j to; induction from as [|f from IH]; intros j to L; cbn [pay_row]; [discriminate|].
  destruct to as [|t to]; [cbn in L; lia|]. cbn [length] in L.
  destruct (if j =? actor then _ else _); [apply IH; lia|discriminate].
Qed.
Lemma pay_rows_no_panic actor n from to :
  Forall (fun r => length r = n) from -> Forall (fun r => length r = n) to ->
  (length from <= length to)%nat -> pay_rows actor from to <> PANIC.
Proof.
  revert to; induction from as [|f from IH]; intros to Hf Ht L; cbn [pay_rows]; [discriminate|].
  destruct to as [|t to]; [cbn in L; lia|]. cbn [length] in L.
  inversion Hf as [|? ? Hf1 Hf2]; subst. inversion Ht as [|? ? Ht1 Ht2]; subst.
  destruct (pay_row actor 0 f t) eqn:E; try discriminate.
  - apply IH; [exact Hf2|exact Ht2|lia].
  - exfalso. apply (pay_row_no_panic actor 0 f t); [lia|exact E].
Qed.
Lemma alloc_valid_rect a : alloc_valid a = true ->
  Forall (fun r => length r = N.to_nat (num_parts (al_bals a))) (al_bals a)
  /\ length (al_bals a) = length (al_assets a).
Proof.
  unfold alloc_valid. intro H. split_and.
  match goal with H : (len (al_bals a) =? len (al_assets a)) = true |- _ => apply N.eqb_eq in H; rename H into Hd end.
  split; [|unfold len in Hd; lia].
  apply Forall_forall. intros r Hr.
  match goal with H : forallb _ (al_bals a) = true |- _ => rewrite forallb_forall in H; specialize (H r Hr) end.
  split_and. match goal with H : (len r =? _) = true |- _ => apply N.eqb_eq in H; unfold len in H end. lia.
Qed.
Lemma pay_rows_valid_no_panic actor a b : alloc_valid a = true -> alloc_valid b = true ->
  num_parts (al_bals a) = num_parts (al_bals b) -> al_assets a = al_assets b ->
  pay_rows actor (al_bals a) (al_bals b) <> PANIC.
Proof.
  intros Va Vb Hn Ha. destruct (alloc_valid_rect a Va) as [Ra La], (alloc_valid_rect b Vb) as [Rb Lb].
  apply (pay_rows_no_panic actor (N.to_nat (num_parts (al_bals a)))); [exact Ra|rewrite Hn; exact Rb|].
  rewrite La, Lb, Ha. lia.
Qed.
