(* C02: only valid successor states can be staged; funds are conserved; no rollback. *)
From Coq Require Import Arith PeanoNat ZifyN ZifyNat ZifyBool.
From V Require Import Model.Machine Model.MachineSpec Proofs.ChannelP Proofs.MachineP.
Open Scope N_scope.

(* ---- what alloc_sum computes: per asset, participant balances plus locked amounts ---- *)
Definition asset_total (a : alloc) (i : nat) : Z :=
  (zsum (nth i (al_bals a) []) + zsum (map (fun l => nth i (sa_bals l) 0%Z) (al_locked a)))%Z.

Lemma add_vec_length a b : length b = length a -> length (add_vec a b) = length a.
Proof. revert b; induction a as [|x a IH]; intros [|y b] H; cbn in *; try discriminate; auto. Qed.
Lemma add_vec_nth a b i : length b = length a ->
  nth i (add_vec a b) 0%Z = (nth i a 0 + nth i b 0)%Z.
Proof.
  revert b i; induction a as [|x a IH]; intros [|y b] i H; cbn in *; try discriminate.
  - destruct i; reflexivity.
  - destruct i; [reflexivity|]. apply IH. lia.
Qed.

Lemma fold_add_vec_spec (ls : list suballoc) (acc : list Z) :
  Forall (fun l => length (sa_bals l) = length acc) ls ->
  length (fold_left (fun t l => add_vec t (sa_bals l)) ls acc) = length acc /\
  forall i, nth i (fold_left (fun t l => add_vec t (sa_bals l)) ls acc) 0%Z =
            (nth i acc 0 + zsum (map (fun l => nth i (sa_bals l) 0%Z) ls))%Z.
Proof.
  revert acc; induction ls as [|l ls IH]; intros acc H; cbn [fold_left map zsum fold_right].
  - split; [reflexivity|]. intro i. lia.
  - inversion H as [|? ? Hl Hls]; subst.
    assert (H' : Forall (fun l0 => length (sa_bals l0) = length (add_vec acc (sa_bals l))) ls).
    { rewrite add_vec_length by exact Hl. exact Hls. }
    destruct (IH _ H') as [L N]. split.
    + rewrite L. apply add_vec_length. exact Hl.
    + intro i. rewrite N, add_vec_nth by exact Hl. unfold zsum. lia.
Qed.

Lemma alloc_valid_locked_dims a : alloc_valid a = true ->
  Forall (fun l => length (sa_bals l) = length (map zsum (al_bals a))) (al_locked a)
  /\ length (al_bals a) = length (al_assets a).
Proof.
  unfold alloc_valid. intro H. split_and.
  match goal with H : (len (al_bals a) =? len (al_assets a)) = true |- _ => apply N.eqb_eq in H; rename H into Hd end.
  assert (D : length (al_bals a) = length (al_assets a)) by (unfold len in Hd; lia).
  split; [|exact D].
  apply Forall_forall. intros l Hl.
  match goal with H : forallb _ (al_locked a) = true |- _ => rewrite forallb_forall in H; specialize (H l Hl) end.
  split_and. match goal with H : (len (sa_bals l) =? _) = true |- _ => apply N.eqb_eq in H; unfold len in H end.
  rewrite map_length. lia.
Qed.

Lemma alloc_sum_spec a : alloc_valid a = true ->
  length (alloc_sum a) = length (al_assets a) /\
  forall i, (i < length (al_assets a))%nat -> nth i (alloc_sum a) 0%Z = asset_total a i.
Proof.
  intro V. destruct (alloc_valid_locked_dims a V) as [F D].
  destruct (fold_add_vec_spec (al_locked a) (map zsum (al_bals a)) F) as [L N].
  unfold alloc_sum. split.
  - rewrite L, map_length. exact D.
  - intros i Hi. rewrite N. unfold asset_total. f_equal.
    rewrite <- D in Hi.
    rewrite (nth_indep _ 0%Z (zsum [])) by (rewrite map_length; exact Hi).
    rewrite (map_nth zsum). reflexivity.
Qed.

Lemma list_eq_nth (a b : list Z) : length a = length b ->
  (forall i, (i < length a)%nat -> nth i a 0%Z = nth i b 0%Z) -> a = b.
Proof.
  revert b; induction a as [|x a IH]; intros [|y b] L H; cbn in L; try discriminate; [reflexivity|].
  f_equal.
  - apply (H 0%nat). cbn. lia.
  - apply IH; [lia|]. intros i Hi. apply (H (S i)). cbn. lia.
Qed.

(* equal sum vectors <-> per asset, the total of balances plus locked funds is unchanged *)
Lemma sums_equal_iff a b : alloc_valid a = true -> alloc_valid b = true ->
  length (al_assets a) = length (al_assets b) ->
  (alloc_sum a = alloc_sum b <->
   forall i, (i < length (al_assets a))%nat -> asset_total a i = asset_total b i).
Proof.
  intros Va Vb E. destruct (alloc_sum_spec a Va) as [La Na], (alloc_sum_spec b Vb) as [Lb Nb]. split.
  - intros S i Hi. rewrite <- Na by exact Hi. rewrite <- Nb by (rewrite <- E; exact Hi). rewrite S. reflexivity.
  - intro H. apply list_eq_nth; [lia|]. intros i Hi. rewrite La in Hi.
    rewrite Na, Nb by (try rewrite <- E; exact Hi). apply H. exact Hi.
Qed.

(* ---- the property's conjunction, declaratively ---- *)
Record GoodSuccessor (m : mach) (cur to : state) (actor : N) : Prop := mkGS {
  gs_id : st_id to = mp_id (ps m);
  gs_app : st_app to = mp_app (ps m);
  gs_not_final : st_final cur = false;
  gs_version : st_ver to = wrap64 (st_ver cur + 1);
  gs_assets : al_assets (st_alloc to) = al_assets (st_alloc cur);
  gs_wellformed : alloc_valid (st_alloc to) = true;
  gs_parts : num_parts (al_bals (st_alloc to)) = nparts m;
  gs_conserved : forall i, (i < length (al_assets (st_alloc cur)))%nat ->
                 asset_total (st_alloc to) i = asset_total (st_alloc cur) i;
  gs_actor : actor < nparts m;
  gs_app_rule : app_valid_transition m cur to actor = OK }.

Lemma generic_valid_iff m cur to : alloc_valid (st_alloc cur) = true ->
  (generic_valid m cur to = true <->
   st_id to = mp_id (ps m) /\ st_app to = mp_app (ps m) /\ st_final cur = false
   /\ st_ver to = wrap64 (st_ver cur + 1) /\ al_assets (st_alloc to) = al_assets (st_alloc cur)
   /\ alloc_valid (st_alloc to) = true /\ num_parts (al_bals (st_alloc to)) = nparts m
   /\ forall i, (i < length (al_assets (st_alloc cur)))%nat ->
        asset_total (st_alloc to) i = asset_total (st_alloc cur) i).
Proof.
  intro Vc. unfold generic_valid.
  rewrite !andb_true_iff, bytes_eqb_eq, app_should_equal_eq, negb_true_iff, !N.eqb_eq,
    nlist_eqb_eq, zlist_eqb_eq.
  split.
  - intros [[[[[[[H1 H2] H3] H4] H5] H6] H7] H8]. repeat split; auto.
    intros i Hi. symmetry.
    apply (proj1 (sums_equal_iff _ _ Vc H5 (f_equal (@length N) H7)) H8 i Hi).
  - intros (H1 & H2 & H3 & H4 & H5 & H6 & H7 & H8). repeat split; auto.
    apply (sums_equal_iff _ _ Vc H6 (f_equal (@length N) (eq_sym H5))).
    intros i Hi. symmetry. apply H8. exact Hi.
Qed.

Lemma update_accepts_iff m s actor c :
  current m = Some c -> alloc_valid (st_alloc (tx_st c)) = true ->
  (snd (step m (OUpdate s actor)) = OK <->
   in_phases m [Acting] = true /\ GoodSuccessor m (tx_st c) s actor).
Proof.
  intros Hc Vc. cbn [step]. rewrite (expect_doc m Acting Signing) by reflexivity.
  unfold in_phases. destruct (phase_in (ph m) [Acting]); cbn [negb snd];
    [|split; [discriminate|intros [C _]; discriminate C]].
  unfold valid_transition. rewrite Hc.
  destruct (N.leb_spec (nparts m) actor) as [Ha|Ha]; cbn [snd].
  { split; [discriminate|]. intros [_ G]. pose proof (gs_actor _ _ _ _ G). lia. }
  destruct (generic_valid m (tx_st c) s) eqn:G.
  - apply (generic_valid_iff m (tx_st c) s Vc) in G.
    destruct G as (H1 & H2 & H3 & H4 & H5 & H6 & H7 & H8).
    destruct (app_valid_transition m (tx_st c) s actor) eqn:A; cbn [snd];
      (split; [intro X; first [discriminate X | split; [reflexivity|constructor; assumption]]
              |intros [_ GS]; pose proof (gs_app_rule _ _ _ _ GS) as R; rewrite A in R;
               first [discriminate R | reflexivity]]).
  - cbn [snd]. split; [discriminate|]. intros [_ GS]. exfalso.
    assert (generic_valid m (tx_st c) s = true) as X; [|rewrite X in G; discriminate G].
    apply (generic_valid_iff m (tx_st c) s Vc). destruct GS. repeat split; assumption.
Qed.

(* a refused candidate is never staged and never signed: the machine is unchanged *)
Lemma update_refused_unchanged m s actor :
  snd (step m (OUpdate s actor)) <> OK -> fst (step m (OUpdate s actor)) = m.
Proof.
  intro H. cbn [step] in *. break_match; cbn [fst snd] in *; try reflexivity. elim H; reflexivity.
Qed.

(* an accepted initial state: version 0, the channel's id and app, well-formed allocation with one
   balance per participant *)
Lemma init_accepts m a d : snd (step m (OInit a d)) = OK ->
  exists s, staging (fst (step m (OInit a d))) = Some (new_tx m s)
    /\ st_ver s = 0 /\ st_id s = mp_id (ps m) /\ st_app s = mp_app (ps m) /\ st_alloc s = a
    /\ alloc_valid a = true /\ Forall (fun r => len r = nparts m) (al_bals a).
Proof.
  cbn [step]. break_match; cbn [fst snd]; intro H; try discriminate H.
  match goal with H : new_state m a d = Some ?s |- _ => exists s; unfold new_state in H; rename H into NS end.
  destruct (forallb (fun r => len r =? nparts m) (al_bals a) && alloc_valid a) eqn:E; [|discriminate NS].
  injection NS as <-. apply andb_true_iff in E as [E1 E2].
  cbn [set_staging staging st_ver st_id st_app st_alloc]. repeat split; auto.
  apply Forall_forall. intros r Hr. rewrite forallb_forall in E1. apply N.eqb_eq. apply E1. exact Hr.
Qed.

(* ---- histories on the regular update path: funds conserved, versions consecutive, nothing after final ---- *)
Definition regular (o : op) : Prop :=
  match o with OForceUpdate _ _ | OSetProgressing _ | OSetProgressed _ => False | _ => True end.

Definition succ_core (c t : state) : Prop :=
  st_final c = false /\ st_ver t = wrap64 (st_ver c + 1)
  /\ al_assets (st_alloc t) = al_assets (st_alloc c)
  /\ alloc_sum (st_alloc t) = alloc_sum (st_alloc c) /\ alloc_valid (st_alloc t) = true.

Record K (m : mach) : Prop := mkK {
  k_cur_valid : forall c, current m = Some c -> alloc_valid (st_alloc (tx_st c)) = true;
  k_staged : ph m = Signing -> forall t, staging m = Some t ->
             alloc_valid (st_alloc (tx_st t)) = true /\
             forall c, current m = Some c -> succ_core (tx_st c) (tx_st t);
  k_init : ph m = InitSigning -> forall t, staging m = Some t ->
           alloc_valid (st_alloc (tx_st t)) = true /\ st_ver (tx_st t) = 0;
  k_noinit : ph m = InitActing \/ ph m = InitSigning -> current m = None }.

Lemma generic_valid_core m c s : generic_valid m c s = true -> succ_core c s.
Proof.
  unfold generic_valid, succ_core. rewrite !andb_true_iff, negb_true_iff, !N.eqb_eq, nlist_eqb_eq, zlist_eqb_eq.
  intros [[[[[[[H1 H2] H3] H4] H5] H6] H7] H8]. repeat split; auto.
Qed.

Lemma K_new p idx : K (new_machine p idx).
Proof. split; cbn [new_machine current staging ph]; intros; try discriminate; reflexivity. Qed.

Lemma K_ext m m' : ph m' = ph m -> current m' = current m ->
  option_map tx_st (staging m') = option_map tx_st (staging m) -> K m -> K m'.
Proof.
  intros Ep Ec Es [Kv Ks Ki Kn].
  assert (X : forall t, staging m' = Some t -> exists t0, staging m = Some t0 /\ tx_st t0 = tx_st t).
  { intros t Ht. rewrite Ht in Es. cbn in Es. destruct (staging m) as [t0|]; cbn in Es; [|discriminate Es].
    injection Es as E. eauto. }
  split.
  - intros c H. rewrite Ec in H. auto.
  - intros Hp t Ht. rewrite Ep in Hp. destruct (X t Ht) as (t0 & H0 & E). rewrite <- E.
    destruct (Ks Hp t0 H0) as [V S]. split; [exact V|]. intros c Hc. rewrite Ec in Hc. auto.
  - intros Hp t Ht. rewrite Ep in Hp. destruct (X t Ht) as (t0 & H0 & E). rewrite <- E. auto.
  - intro Hp. rewrite Ep in Hp. rewrite Ec. auto.
Qed.

Lemma K_other_phase m p stg : K m -> p <> Signing -> p <> InitSigning -> p <> InitActing ->
  K (mkMach p (me m) (ps m) stg (current m)).
Proof.
  intros [Kv Ks Ki Kn] N1 N2 N3. split; cbn [ph current staging]; [exact Kv| | |]; intro C;
    try contradiction. destruct C; contradiction.
Qed.

Lemma K_promote m p t : K m -> ph m = Signing \/ ph m = InitSigning -> staging m = Some t ->
  p <> Signing -> p <> InitSigning -> p <> InitActing -> K (add_tx m p t).
Proof.
  intros [Kv Ks Ki Kn] Hp Ht N1 N2 N3. split; cbn [add_tx ph current staging]; try (intro C; contradiction);
    [|intros [C|C]; contradiction].
  intros c Hc. injection Hc as <-.
  destruct Hp as [Hp|Hp]; [destruct (Ks Hp t Ht) as [V _]|destruct (Ki Hp t Ht) as [V _]]; exact V.
Qed.

Lemma vt_ok_core m s actor c : current m = Some c -> valid_transition m s actor = OK -> succ_core (tx_st c) s.
Proof.
  intros Hc VT. unfold valid_transition in VT. rewrite Hc in VT.
  destruct (nparts m <=? actor); [discriminate VT|].
  destruct (generic_valid m (tx_st c) s) eqn:G; [|discriminate VT].
  apply (generic_valid_core m). exact G.
Qed.
Lemma vt_ok_valid m s actor : valid_transition m s actor = OK -> alloc_valid (st_alloc s) = true.
Proof.
  intro VT. unfold valid_transition in VT.
  destruct (nparts m <=? actor); [discriminate VT|].
  destruct (current m) as [c|].
  - destruct (generic_valid m (tx_st c) s) eqn:G; [|discriminate VT].
    apply generic_valid_core in G. destruct G as (_ & _ & _ & _ & V). exact V.
  - destruct (bytes_eqb (st_id s) (mp_id (ps m)) && app_should_equal (mp_app (ps m)) (st_app s)); discriminate VT.
Qed.

Lemma K_enable m f t : K m -> f = Signing \/ f = InitSigning -> t <> Signing -> t <> InitSigning ->
  t <> InitActing -> K (fst (enable_staged m f t)).
Proof.
  intros Km Hf N1 N2 N3. unfold enable_staged. break_match; cbn [fst]; try exact Km.
  apply K_promote; try assumption.
  match goal with H : negb (expect m f t) = false |- _ => apply negb_false_iff in H; apply expect_phase in H; rewrite H end.
  exact Hf.
Qed.

Lemma K_step m o : K m -> regular o -> K (fst (step m o)).
Proof.
  intros Km R. destruct o; cbn [regular] in R; try contradiction; cbn [step].
  - (* Init *) break_match; cbn [fst]; try exact Km.
    match goal with H : new_state m a d = Some _ |- _ => unfold new_state in H; rename H into NS end.
    destruct (forallb (fun r => len r =? nparts m) (al_bals a) && alloc_valid a) eqn:E; [|discriminate NS].
    injection NS as <-. apply andb_true_iff in E as [_ E].
    match goal with H : negb (expect m InitActing InitSigning) = false |- _ =>
      apply negb_false_iff in H; apply expect_phase in H; rename H into Hph end.
    destruct Km as [Kv Ks Ki Kn]. split; cbn [set_staging ph current staging]; [exact Kv|discriminate| |].
    + intros _ t Ht. injection Ht as <-. cbn [new_tx tx_st st_alloc st_ver]. auto.
    + intros _. apply Kn. left. exact Hph.
  - (* Update *) break_match; cbn [fst]; try exact Km.
    destruct Km as [Kv Ks Ki Kn]. split; cbn [set_staging ph current staging]; [exact Kv| |discriminate|].
    + intros _ t Ht. injection Ht as <-. cbn [new_tx tx_st]. split.
      * eapply vt_ok_valid; eassumption.
      * intros c Hc. eapply vt_ok_core; eassumption.
    + intros [C|C]; discriminate C.
  - break_match; cbn [fst]; exact Km.
  - (* Sig *) break_match; cbn [fst]; try exact Km.
    eapply K_ext; [| | |exact Km]; cbn [ph current staging option_map tx_st]; try reflexivity.
    match goal with H : staging m = Some _ |- _ => rewrite H end. reflexivity.
  - (* AddSig *) break_match; cbn [fst]; try exact Km.
    eapply K_ext; [| | |exact Km]; cbn [ph current staging option_map tx_st]; try reflexivity.
    match goal with H : staging m = Some _ |- _ => rewrite H end. reflexivity.
  - apply K_enable; [exact Km|auto|discriminate|discriminate|discriminate].
  - apply K_enable; [exact Km|auto|discriminate|discriminate|discriminate].
  - apply K_enable; [exact Km|auto|discriminate|discriminate|discriminate].
  - break_match; cbn [fst]; try exact Km. apply K_other_phase; [exact Km|discriminate|discriminate|discriminate].
  - unfold simple_transition, set_phase. break_match; cbn [fst]; try exact Km.
    apply K_other_phase; [exact Km|discriminate|discriminate|discriminate].
  - unfold set_phase. break_match; cbn [fst]; try exact Km. apply K_other_phase; [exact Km|discriminate|discriminate|discriminate].
  - unfold set_phase. break_match; cbn [fst]; try exact Km. apply K_other_phase; [exact Km|discriminate|discriminate|discriminate].
  - unfold set_phase. break_match; cbn [fst]; try exact Km. apply K_other_phase; [exact Km|discriminate|discriminate|discriminate].
  - unfold simple_transition, set_phase. break_match; cbn [fst]; try exact Km.
    apply K_other_phase; [exact Km|discriminate|discriminate|discriminate].
Qed.

Lemma K_run m ops : K m -> Forall regular ops -> K (run m ops).
Proof.
  revert m; induction ops as [|o ops IH]; intros m Km R; cbn [run fold_left]; [exact Km|].
  inversion R as [|? ? Ro Rs]; subst. apply IH; [apply K_step; assumption|exact Rs].
Qed.

(* one regular step: the current state stays, or is replaced by a state with exactly the next
   version, the same assets and the same per-asset totals, and the old one was not final *)
Lemma regular_step_conserves m o c c' : K m -> regular o ->
  current m = Some c -> current (fst (step m o)) = Some c' ->
  c' = c \/ (ph m = Signing /\ succ_core (tx_st c) (tx_st c')).
Proof.
  intros Km R Hc. destruct o; cbn [regular] in R; try contradiction; cbn [step];
    unfold enable_staged, simple_transition; break_match;
    cbn [fst current set_phase set_staging add_tx]; intro H; rewrite ?Hc in H;
    try (injection H as <-; left; reflexivity).
  all: injection H as <-; right.
  all: match goal with H : negb (expect _ _ _) = false |- _ =>
         apply negb_false_iff in H; apply expect_phase in H; rename H into Hph end.
  - (* EnableInit with a current state: not on a regular path, but then phase InitSigning *)
    exfalso. rewrite (k_noinit m Km (or_intror Hph)) in Hc. discriminate Hc.
  - split; [exact Hph|].
    match goal with H : staging m = Some ?t |- _ => destruct (k_staged m Km Hph t H) as [_ S] end. apply S. exact Hc.
  - split; [exact Hph|].
    match goal with H : staging m = Some ?t |- _ => destruct (k_staged m Km Hph t H) as [_ S] end. apply S. exact Hc.
Qed.

Lemma current_persists m o c : current m = Some c -> exists c', current (fst (step m o)) = Some c'.
Proof.
  intro Hc. destruct o; cbn [step]; unfold enable_staged, simple_transition; break_match;
    cbn [fst current set_phase set_staging add_tx]; rewrite ?Hc; eauto.
Qed.

Lemma conserve_run m ops c : K m -> Forall regular ops -> current m = Some c ->
  exists c', current (run m ops) = Some c'
    /\ alloc_sum (st_alloc (tx_st c')) = alloc_sum (st_alloc (tx_st c))
    /\ al_assets (st_alloc (tx_st c')) = al_assets (st_alloc (tx_st c))
    /\ (st_final (tx_st c) = true -> c' = c).
Proof.
  revert m c; induction ops as [|o ops IH]; intros m c Km R Hc; cbn [run fold_left].
  - exists c. auto.
  - inversion R as [|? ? Ro Rs]; subst.
    destruct (current_persists m o c Hc) as [c1 H1].
    destruct (IH (fst (step m o)) c1 (K_step m o Km Ro) Rs H1) as (c' & Hc' & S & A & F).
    exists c'. split; [exact Hc'|].
    destruct (regular_step_conserves m o c c1 Km Ro Hc H1) as [->|[_ (NF & _ & A1 & S1 & _)]].
    + auto.
    + split; [congruence|]. split; [congruence|]. intro Fin. rewrite Fin in NF. discriminate NF.
Qed.
