(* apps/payment.ValidTransition, declaratively: money flows only from the actor to the others. *)
From Coq Require Import Lia ZifyN ZifyNat ZifyBool.
From V Require Import Model.Machine.
Open Scope N_scope.

Definition flows_from (actor : N) (j : N) (f t : Z) : Prop :=
  if j =? actor then (t <= f)%Z else (f <= t)%Z.

Lemma pay_row_spec actor j0 from to : length from = length to ->
  (pay_row actor j0 from to = OK <->
   forall k f t, nth_error from k = Some f -> nth_error to k = Some t ->
     flows_from actor (j0 + N.of_nat k) f t).
Proof.
  revert j0 to. induction from as [|f0 from IH]; intros j0 to L; destruct to as [|t0 to]; try discriminate L.
  - cbn [pay_row]. split; [intros _ k f t H; destruct k; discriminate H|reflexivity].
  - cbn [pay_row]. injection L as L. specialize (IH (j0 + 1) to L).
    destruct (if j0 =? actor then (t0 <=? f0)%Z else (f0 <=? t0)%Z) eqn:C.
    + rewrite IH. split.
      * intros H k f t Hf Ht. destruct k as [|k].
        -- cbn in Hf, Ht. injection Hf as <-. injection Ht as <-. unfold flows_from.
           replace (j0 + N.of_nat 0) with j0 by lia. destruct (j0 =? actor); lia.
        -- cbn in Hf, Ht. replace (j0 + N.of_nat (S k)) with (j0 + 1 + N.of_nat k) by lia. exact (H k f t Hf Ht).
      * intros H k f t Hf Ht. replace (j0 + 1 + N.of_nat k) with (j0 + N.of_nat (S k)) by lia.
        exact (H (S k) f t Hf Ht).
    + split; [discriminate|]. intro H. exfalso.
      specialize (H O f0 t0 eq_refl eq_refl). unfold flows_from in H.
      replace (j0 + N.of_nat 0) with j0 in H by lia. destruct (j0 =? actor); lia.
Qed.

Lemma pay_row_ok_or_err actor j0 from to : length from = length to ->
  pay_row actor j0 from to = OK \/ pay_row actor j0 from to = ERR.
Proof.
  revert j0 to. induction from as [|f0 from IH]; intros j0 to L; destruct to as [|t0 to]; try discriminate L.
  - left; reflexivity.
  - cbn [pay_row]. injection L as L. destruct (if j0 =? actor then _ else _); [apply IH; exact L|right; reflexivity].
Qed.

Lemma pay_rows_spec actor from to : Forall2 (fun f t => length f = length t) from to ->
  (pay_rows actor from to = OK <->
   forall i fr tr j f t, nth_error from i = Some fr -> nth_error to i = Some tr ->
     nth_error fr j = Some f -> nth_error tr j = Some t -> flows_from actor (N.of_nat j) f t).
Proof.
  induction 1 as [|fr0 tr0 from to L0 _ IH].
  - cbn [pay_rows]. split; [intros _ i fr tr j f t H; destruct i; discriminate H|reflexivity].
  - cbn [pay_rows]. pose proof (pay_row_spec actor 0 fr0 tr0 L0) as S0.
    destruct (pay_row_ok_or_err actor 0 fr0 tr0 L0) as [E|E]; rewrite E.
    + rewrite IH. split.
      * intros H i fr tr j f t Hfr Htr Hf Ht. destruct i as [|i].
        -- cbn in Hfr, Htr. injection Hfr as <-. injection Htr as <-.
           apply (proj1 S0 E j f t Hf Ht).
        -- cbn in Hfr, Htr. exact (H i fr tr j f t Hfr Htr Hf Ht).
      * intros H i fr tr j f t Hfr Htr Hf Ht. exact (H (S i) fr tr j f t Hfr Htr Hf Ht).
    + split; [discriminate|]. intro H. exfalso.
      assert (O : pay_row actor 0 fr0 tr0 = OK).
      { apply S0. intros k f t Hf Ht. exact (H O fr0 tr0 k f t eq_refl eq_refl Hf Ht). }
      rewrite E in O. discriminate O.
Qed.

(* on the accepted updates of a payment channel *)
From V Require Import Proofs.MachineP Proofs.C02P.
Lemma forall2_same_len (n : nat) (a b : list (list Z)) :
  length a = length b -> Forall (fun r => length r = n) a -> Forall (fun r => length r = n) b ->
  Forall2 (fun f t => length f = length t) a b.
Proof.
  revert b. induction a as [|x a IH]; intros [|y b] L Fa Fb; try discriminate L; constructor.
  - inversion Fa; inversion Fb; subst. congruence.
  - injection L as L. inversion Fa; inversion Fb; subst. apply IH; assumption.
Qed.
Theorem payment_only_actor_pays m cur to actor :
  mp_kind (ps m) = Some KPay -> alloc_valid (st_alloc cur) = true ->
  num_parts (al_bals (st_alloc cur)) = nparts m -> GoodSuccessor m cur to actor ->
  forall i fr tr j f t, nth_error (al_bals (st_alloc cur)) i = Some fr ->
    nth_error (al_bals (st_alloc to)) i = Some tr -> nth_error fr j = Some f -> nth_error tr j = Some t ->
    flows_from actor (N.of_nat j) f t.
Proof.
  intros K Vc Nc GS. pose proof (gs_app_rule _ _ _ _ GS) as R. unfold app_valid_transition in R. rewrite K in R.
  destruct (negb (is_nodata (st_data to))); [discriminate R|].
  destruct (alloc_valid_rect _ Vc) as [Rc Lc]. destruct (alloc_valid_rect _ (gs_wellformed _ _ _ _ GS)) as [Rt Lt].
  apply (pay_rows_spec actor); [|exact R].
  apply (forall2_same_len (N.to_nat (nparts m))).
  - rewrite Lc, Lt, (gs_assets _ _ _ _ GS). reflexivity.
  - rewrite <- Nc. exact Rc.
  - rewrite <- (gs_parts _ _ _ _ GS). exact Rt.
Qed.
