(* Consecutive envelopes on one stream under arbitrary chunking (C16, native serializer). *)
From Coq Require Import Arith PeanoNat ZifyN ZifyNat ZifyBool.
From V Require Import Model.Msgs Proofs.WireP Proofs.ChannelP Proofs.CodecP Proofs.SafeP Proofs.ProtoP.
Open Scope N_scope.

Fixpoint dec_chunks_all {A} (d : prog A) (fuel : nat) (cs : list bytes) : option (list A) :=
  match fuel with
  | O => None
  | S f => match cs with
           | [] => Some []
           | _ => match run_chunked d cs with
                  | Ok (a, r) => option_map (cons a) (dec_chunks_all d f r)
                  | _ => None
                  end
           end
  end.

Lemma dec_chunks_all_S {A} (d : prog A) f cs :
  dec_chunks_all d (S f) cs = match cs with
                              | [] => Some []
                              | _ => match run_chunked d cs with
                                     | Ok (a, r) => option_map (cons a) (dec_chunks_all d f r)
                                     | _ => None
                                     end
                              end.
Proof. reflexivity. Qed.

Lemma concat_nonempty_nil (cs : list bytes) : Forall nonempty cs -> concat cs = [] -> cs = [].
Proof.
  intros H E. destruct cs as [|c cs]; [reflexivity|]. inversion H as [|? ? Hc _]; subst.
  cbn [concat] in E. apply app_eq_nil in E as [E _]. elim Hc. exact E.
Qed.

Lemma native_stream_any_chunking rs es : forallb (envelope_wf rs) es = true ->
  forall cs, Forall nonempty cs -> concat cs = cat enc_envelope es ->
  dec_chunks_all (dec_envelope rs) (S (length es)) cs = Some es.
Proof.
  induction es as [|e es IH]; intros W cs Hne Hc.
  - cbn [cat map concat] in Hc. rewrite (concat_nonempty_nil cs Hne Hc). reflexivity.
  - cbn [forallb] in W. apply andb_true_iff in W as [We Wes].
    unfold cat in Hc. cbn [map concat] in Hc. fold (cat enc_envelope es) in Hc.
    cbn [length]. rewrite dec_chunks_all_S.
    destruct cs as [|c cs'].
    { exfalso. cbn [concat] in Hc. symmetry in Hc. apply app_eq_nil in Hc as [Hc _].
      exact (enc_envelope_nonempty e Hc). }
    pose proof (chunk_invariant (dec_envelope rs) (fo_dec_envelope rs) (c :: cs') Hne) as CI.
    rewrite Hc, (dec_envelope_rt rs e _ We) in CI.
    destruct (run_chunked (dec_envelope rs) (c :: cs')) as [[e' r]| |] eqn:R;
      cbn [flatten_res res_map] in CI; try discriminate CI.
    injection CI as -> Hr.
    pose proof (run_chunked_nonempty _ (fo_dec_envelope rs) (c :: cs') e r Hne R) as Hr'.
    rewrite (IH Wes r Hr' Hr). reflexivity.
Qed.

(* the native encoders are injective on well-formed values: signatures and IDs computed over
   encodings identify the value *)
Lemma enc_envelope_inj rs a b : envelope_wf rs a = true -> envelope_wf rs b = true ->
  enc_envelope a = enc_envelope b -> a = b.
Proof.
  apply (rt_injective (dec_envelope rs) enc_envelope (fun e => envelope_wf rs e = true)).
  intros; apply dec_envelope_rt; assumption.
Qed.
Lemma enc_params_inj rs a b : params_wf rs a = true -> params_wf rs b = true ->
  enc_params a = enc_params b -> a = b.
Proof.
  apply (rt_injective (dec_params rs) enc_params (fun e => params_wf rs e = true)).
  intros; apply dec_params_rt; assumption.
Qed.
Lemma enc_tx_inj rs a b : tx_wf rs a = true -> tx_wf rs b = true -> enc_tx a = enc_tx b -> a = b.
Proof.
  apply (rt_injective (dec_tx rs) enc_tx (fun e => tx_wf rs e = true)).
  intros; apply dec_tx_rt; assumption.
Qed.
