(* Proofs about the strict reference ledger (Model/Ledger.v): conservation, exact funding, payout,
   refutation, and the structural lemmas Proofs/SettleP.v needs. *)
From Coq Require Import Arith PeanoNat ZifyN ZifyNat ZifyBool Lia.
From V Require Import Model.Ledger Proofs.ChannelP Proofs.MachineP Proofs.C02P.
Open Scope N_scope.

(* ---------- small facts ---------- *)
Lemma bytes_eqb_refl b : bytes_eqb b b = true.
Proof. apply bytes_eqb_eq. reflexivity. Qed.
Lemma bytes_eqb_false a b : bytes_eqb a b = false <-> a <> b.
Proof.
  split.
  - intros H E. apply bytes_eqb_eq in E. congruence.
  - intro H. destruct (bytes_eqb a b) eqn:E; [apply bytes_eqb_eq in E; contradiction|reflexivity].
Qed.
Lemma key_eqb_eq a b : key_eqb a b = true <-> a = b.
Proof.
  unfold key_eqb. destruct a as [x y], b as [x' y']; cbn [fst snd].
  rewrite andb_true_iff, !N.eqb_eq. split; [intros [-> ->]; reflexivity|intro H; injection H; auto].
Qed.
Lemma key_eqb_refl a : key_eqb a a = true.
Proof. apply key_eqb_eq. reflexivity. Qed.

Ltac splits := repeat match goal with |- _ /\ _ => split end.
Ltac guards :=
  repeat match goal with
         | H : rbind (guard ?b ?e) _ = ROk _ |- _ =>
             let E := fresh "G" in
             assert (E : b = true) by (destruct b; [reflexivity|cbn [guard rbind] in H; discriminate H]);
             rewrite E in H; cbn [guard rbind] in H
         end.

(* ---------- accounts ---------- *)
Lemma sum_for_app a p q : sum_for a (p ++ q) = (sum_for a p + sum_for a q)%Z.
Proof. induction p as [|[x z] p IH]; cbn [app sum_for]; [lia|rewrite IH; lia]. Qed.

Lemma acc_total_add a l k d :
  acc_total a (acc_add l k d) = (acc_total a l + (if N.eqb (snd k) a then d else 0))%Z.
Proof.
  unfold acc_total. induction l as [|[k' v] l IH]; cbn [acc_add map sum_for fst snd].
  - destruct (snd k =? a); lia.
  - destruct (key_eqb k k') eqn:E; cbn [map sum_for fst snd].
    + apply key_eqb_eq in E. subst k'. destruct (snd k =? a); lia.
    + rewrite IH. lia.
Qed.
Lemma acc_get_add l k d k' :
  acc_get (acc_add l k d) k' = (acc_get l k' + (if key_eqb k' k then d else 0))%Z.
Proof.
  induction l as [|[k0 v] l IH]; cbn [acc_add acc_get].
  - destruct (key_eqb k' k); lia.
  - destruct (key_eqb k k0) eqn:E; cbn [acc_get].
    + apply key_eqb_eq in E. subst k0. destruct (key_eqb k' k); lia.
    + destruct (key_eqb k' k0) eqn:E2.
      * destruct (key_eqb k' k) eqn:E3; [|lia].
        apply key_eqb_eq in E2, E3. subst. rewrite key_eqb_refl in E. discriminate.
      * exact IH.
Qed.

Lemma debit_all_total l from ps l' a :
  debit_all l from ps = Some l' -> acc_total a l' = (acc_total a l - sum_for a ps)%Z.
Proof.
  revert l; induction ps as [|[x m] ps IH]; intros l H; cbn [debit_all sum_for] in *.
  - injection H as <-. lia.
  - destruct (m <=? acc_get l (from, x))%Z; [|discriminate].
    rewrite (IH _ H), acc_total_add. cbn [snd]. destruct (x =? a); lia.
Qed.
Lemma debit_all_get l from ps l' k :
  debit_all l from ps = Some l' ->
  acc_get l' k = (acc_get l k - (if N.eqb (fst k) from then sum_for (snd k) ps else 0))%Z.
Proof.
  revert l; induction ps as [|[x m] ps IH]; intros l H; cbn [debit_all sum_for] in *.
  - injection H as <-. destruct (fst k =? from); lia.
  - destruct (m <=? acc_get l (from, x))%Z; [|discriminate].
    rewrite (IH _ H), acc_get_add. unfold key_eqb; cbn [fst snd].
    destruct (fst k =? from), (x =? snd k) eqn:E.
    + apply N.eqb_eq in E. subst x. rewrite N.eqb_refl. cbn [andb]. lia.
    + rewrite N.eqb_sym, E. cbn [andb]. lia.
    + cbn [andb]. lia.
    + cbn [andb]. lia.
Qed.
Lemma credit_all_total l to ps a :
  acc_total a (credit_all l to ps) = (acc_total a l + sum_for a ps)%Z.
Proof.
  revert l; induction ps as [|[x m] ps IH]; intro l; cbn [credit_all sum_for]; [lia|].
  rewrite IH, acc_total_add. cbn [snd]. destruct (x =? a); lia.
Qed.
Lemma credit_all_get l to ps k :
  acc_get (credit_all l to ps) k = (acc_get l k + (if N.eqb (fst k) to then sum_for (snd k) ps else 0))%Z.
Proof.
  revert l; induction ps as [|[x m] ps IH]; intro l; cbn [credit_all sum_for].
  - destruct (fst k =? to); lia.
  - rewrite IH, acc_get_add. unfold key_eqb; cbn [fst snd].
    destruct (fst k =? to), (x =? snd k) eqn:E.
    + apply N.eqb_eq in E. subst x. rewrite N.eqb_refl. cbn [andb]. lia.
    + rewrite N.eqb_sym, E. cbn [andb]. lia.
    + cbn [andb]. lia.
    + cbn [andb]. lia.
Qed.

(* ---------- association lists ---------- *)
Lemma bfind_bput_same {A} (m : bmap A) k v : bfind (bput m k v) k = Some v.
Proof.
  induction m as [|[k' v'] m IH]; cbn [bput bfind].
  - rewrite bytes_eqb_refl. reflexivity.
  - destruct (bytes_eqb k k') eqn:E; cbn [bfind]; rewrite E; [reflexivity|exact IH].
Qed.
Lemma bfind_bput_other {A} (m : bmap A) k v k' : k' <> k -> bfind (bput m k v) k' = bfind m k'.
Proof.
  intro N. induction m as [|[k0 v0] m IH]; cbn [bput bfind].
  - apply bytes_eqb_false in N. rewrite N. reflexivity.
  - destruct (bytes_eqb k k0) eqn:E; cbn [bfind].
    + apply bytes_eqb_eq in E. subst k0. apply bytes_eqb_false in N. rewrite N. reflexivity.
    + destruct (bytes_eqb k' k0); [reflexivity|exact IH].
Qed.
Lemma bfind_bput {A} (m : bmap A) k v k' :
  bfind (bput m k v) k' = if bytes_eqb k' k then Some v else bfind m k'.
Proof.
  destruct (bytes_eqb k' k) eqn:E.
  - apply bytes_eqb_eq in E. subst. apply bfind_bput_same.
  - apply bfind_bput_other. apply bytes_eqb_false. exact E.
Qed.

Lemma funds_total_bput a F id f :
  funds_total a (bput F id f) =
  (funds_total a F + hold_total a f - match bfind F id with Some g => hold_total a g | None => 0 end)%Z.
Proof.
  unfold funds_total. induction F as [|[k g] F IH]; cbn [bput bfind map zsum fold_right snd].
  - lia.
  - destruct (bytes_eqb id k) eqn:E; cbn [map zsum fold_right snd]; [lia|].
    unfold zsum in IH. rewrite IH. lia.
Qed.

(* ---------- holdings ---------- *)
Lemma zsum_set_nth i x (r : list Z) : (i < length r)%nat ->
  zsum (set_nth i x r) = (zsum r - nth i r 0 + x)%Z.
Proof.
  revert i; induction r as [|y r IH]; intros [|i] H; cbn [set_nth zsum fold_right nth length] in *; try lia.
  specialize (IH i ltac:(lia)). unfold zsum in IH. rewrite IH. lia.
Qed.
Lemma zsum_set_nth_zero i (r : list Z) : zsum (set_nth i 0%Z r) = (zsum r - nth i r 0)%Z.
Proof.
  revert i; induction r as [|y r IH]; intros [|i]; cbn [set_nth zsum fold_right nth]; try lia.
  specialize (IH i). unfold zsum in IH. rewrite IH. lia.
Qed.

Lemma sum_for_add_col a assets hold i amts :
  length hold = length assets -> length amts = length assets ->
  forallb (fun r => (i <? length r)%nat) hold = true ->
  sum_for a (combine assets (map zsum (add_col hold i amts))) =
  (sum_for a (combine assets (map zsum hold)) + sum_for a (combine assets amts))%Z.
Proof.
  revert hold amts; induction assets as [|x assets IH]; intros [|r hold] [|m amts] L1 L2 F;
    cbn [length] in *; try discriminate; cbn [combine sum_for add_col map]; [lia|].
  cbn [forallb] in F. apply andb_true_iff in F as [F1 F2].
  rewrite (IH hold amts) by (try lia; exact F2).
  rewrite zsum_set_nth by (apply Nat.ltb_lt; exact F1). destruct (x =? a); lia.
Qed.
Lemma sum_for_zero_col a assets hold i :
  sum_for a (combine assets (map zsum (zero_col hold i))) =
  (sum_for a (combine assets (map zsum hold)) - sum_for a (combine assets (col hold i)))%Z.
Proof.
  unfold zero_col, col.
  revert hold; induction assets as [|x assets IH]; intros [|r hold]; cbn [combine sum_for map]; try lia.
  rewrite IH, zsum_set_nth_zero. destruct (x =? a); lia.
Qed.
Lemma hold_total_new a assets np : hold_total a (new_fund assets np) = 0%Z.
Proof.
  unfold hold_total, new_fund; cbn [f_assets f_hold].
  assert (Z : zsum (repeat 0%Z np) = 0%Z) by (induction np; cbn [repeat zsum fold_right] in *; [reflexivity|unfold zsum in IHnp; rewrite IHnp; reflexivity]).
  generalize (repeat 0%Z np) Z. intros r Hr.
  induction assets as [|x assets IH]; cbn [length repeat map combine sum_for]; [reflexivity|].
  rewrite IH, Hr. destruct (x =? a); reflexivity.
Qed.

(* ---------- what each operation does to accounts and holdings ---------- *)
Lemma set_outcome_total a F id out : funds_total a (set_outcome F id out) = funds_total a F.
Proof.
  unfold set_outcome. destruct (bfind F id) as [f|] eqn:Ef; [|reflexivity].
  destruct (f_settled f); [reflexivity|].
  rewrite funds_total_bput, Ef.
  assert (H : hold_total a (mkFund (f_assets f)
                (if fund_dims_ok f && outcome_fits f out then out else f_hold f) (f_dep f) true (f_wd f))
              = hold_total a f).
  { unfold hold_total; cbn [f_assets f_hold].
    destruct (fund_dims_ok f && outcome_fits f out) eqn:E; [|reflexivity].
    apply andb_true_iff in E as [_ E]. unfold outcome_fits in E.
    apply andb_true_iff in E as [_ E]. apply zlist_eqb_eq in E. rewrite E. reflexivity. }
  rewrite H. lia.
Qed.

Theorem step_conserves a L o : ledger_total a (fst (step L o)) = ledger_total a L.
Proof.
  unfold step. destruct (step_res L o) as [[L' evs]|e] eqn:E; cbn [fst]; [|reflexivity].
  unfold ledger_total. destruct o; cbn [step_res] in E.
  - (* deposit *)
    guards.
    destruct (debit_all (l_acc L) from (combine assets amts)) as [acc'|] eqn:D; [|discriminate].
    injection E as <- _. cbn [with_acc_funds l_acc l_funds].
    rewrite (debit_all_total _ _ _ _ a D), funds_total_bput.
    split_and.
    match goal with H : (_ <? _)%nat = true |- _ => apply Nat.ltb_lt in H; rename H into Hi end.
    repeat match goal with H : (_ =? _)%nat = true |- _ => apply Nat.eqb_eq in H end.
    set (f := match bfind (l_funds L) (lp_id p) with Some f => f | None => new_fund assets (length (lp_parts p)) end) in *.
    unfold hold_total at 1; cbn [f_assets f_hold].
    match goal with H : nlist_eqb (f_assets f) assets = true |- _ => apply nlist_eqb_eq in H; rename H into Ha end.
    match goal with H : fund_dims_ok f = true |- _ => unfold fund_dims_ok in H; rename H into Hd end.
    split_and. repeat match goal with H : (_ =? _)%nat = true |- _ => apply Nat.eqb_eq in H end.
    rewrite Ha. rewrite sum_for_add_col.
    + assert (Hf : match bfind (l_funds L) (lp_id p) with Some g => hold_total a g | None => 0%Z end
                   = sum_for a (combine assets (map zsum (f_hold f)))).
      { subst f. destruct (bfind (l_funds L) (lp_id p)) as [g|] eqn:Eg.
        - unfold hold_total. rewrite Ha. reflexivity.
        - change (sum_for a (combine assets (map zsum (f_hold (new_fund assets (length (lp_parts p)))))))
            with (hold_total a (new_fund assets (length (lp_parts p)))).
          rewrite hold_total_new. reflexivity. }
      rewrite Hf. lia.
    + congruence.
    + congruence.
    + match goal with H : forallb _ (f_hold f) = true |- _ => rename H into Hr end.
      apply forallb_forall. intros r Hin. rewrite forallb_forall in Hr. specialize (Hr r Hin).
      apply Nat.eqb_eq in Hr. apply Nat.ltb_lt. lia.
  - (* register *)
    guards. destruct (register_rec _ _ _ _ _ _) as [[[D evs'] o']|e']; cbn [rbind] in E; [|discriminate].
    injection E as <- _. reflexivity.
  - (* progress *)
    destruct (bfind (l_disp L) (lp_id p)) as [d|]; [|discriminate].
    guards. destruct (lp_app p); [|discriminate]. guards. injection E as <- _. reflexivity.
  - (* conclude *)
    guards. destruct (conclude_rec _ _ _ _ _) as [[[D evs'] out]|e']; cbn [rbind] in E; [|discriminate].
    injection E as <- _. cbn [l_acc l_funds].
    destruct (is_concluded (l_disp L) (lp_id p)); [reflexivity|]. rewrite set_outcome_total. reflexivity.
  - (* conclude final *)
    guards. destruct (bfind (l_disp L) (lp_id p)) as [d|].
    + destruct (dphase_eqb (d_phase d) DConcluded).
      * guards. injection E as <- _. reflexivity.
      * guards. injection E as <- _. cbn [l_acc l_funds]. rewrite set_outcome_total. reflexivity.
    + guards. injection E as <- _. cbn [l_acc l_funds]. rewrite set_outcome_total. reflexivity.
  - (* withdraw *)
    destruct (bfind (l_funds L) (lp_id p)) as [f|] eqn:Ef; [|discriminate].
    guards. injection E as <- _. cbn [with_acc_funds l_acc l_funds].
    rewrite credit_all_total, funds_total_bput, Ef.
    unfold hold_total; cbn [f_assets f_hold]. rewrite sum_for_zero_col. lia.
  - (* tick *)
    injection E as <- _. reflexivity.
Qed.

(* L_conservation: for every operation sequence, per asset, accounts + holdings are constant *)
Theorem L_conservation_run a ops : forall L, ledger_total a (run L ops) = ledger_total a L.
Proof.
  induction ops as [|o ops IH]; intro L; cbn [run fold_left]; [reflexivity|].
  change (ledger_total a (run (fst (step L o)) ops) = ledger_total a L).
  rewrite IH. apply step_conserves.
Qed.

(* a refused operation changes nothing *)
Lemma step_err_unchanged L o e : snd (step L o) = LErr e -> fst (step L o) = L.
Proof. unfold step. destruct (step_res L o) as [[L' evs]|e']; cbn [fst snd]; [discriminate|reflexivity]. Qed.

(* ---------- results as a sum type: folds ---------- *)
Lemma fold_rerr {A B} (f : rres A -> B -> rres A) (l : list B) e :
  (forall b, f (RErr e) b = RErr e) -> fold_left f l (RErr e) = RErr e.
Proof. intro H. induction l as [|b l IH]; cbn [fold_left]; [reflexivity|rewrite H; exact IH]. Qed.

(* ---------- L_funding_exact ---------- *)
Lemma nth_set_nth {A} i j (x d : A) l : (i < length l)%nat ->
  nth j (set_nth i x l) d = if (j =? i)%nat then x else nth j l d.
Proof.
  revert i j; induction l as [|y l IH]; intros [|i] [|j] H; cbn [set_nth nth length Nat.eqb] in *; try lia; try reflexivity.
  apply IH. lia.
Qed.
Lemma nth_add_col hold i amts a j :
  length amts = length hold -> forallb (fun r => (i <? length r)%nat) hold = true -> (a < length hold)%nat ->
  nth j (nth a (add_col hold i amts) []) 0%Z =
  (nth j (nth a hold []) 0 + (if (j =? i)%nat then nth a amts 0 else 0))%Z.
Proof.
  revert amts a; induction hold as [|r hold IH]; intros [|m amts] [|a] L F Ha; cbn [length] in *; try lia;
    cbn [add_col nth]; cbn [forallb] in F; apply andb_true_iff in F as [F1 F2].
  - rewrite nth_set_nth by (apply Nat.ltb_lt; exact F1).
    destruct (j =? i)%nat eqn:E; [apply Nat.eqb_eq in E; subst; lia|lia].
  - apply IH; [lia|exact F2|lia].
Qed.

Lemma add_col_length hold i amts : length amts = length hold -> length (add_col hold i amts) = length hold.
Proof.
  revert amts; induction hold as [|r h IH]; intros [|m am] Len; cbn [add_col length] in *; try lia.
  rewrite IH; [reflexivity|lia].
Qed.

(* A successful deposit takes from the depositing account, per asset, exactly the submitted amounts
   (the caller's column of the funding agreement) and adds exactly them to the participant's holdings;
   no other account, no dispute and no other channel changes; a participant deposits once. *)
Theorem L_funding_exact L p assets idx from amts L' evs :
  step_res L (LDeposit p assets idx from amts) = ROk (L', evs) ->
  let f0 := match bfind (l_funds L) (lp_id p) with Some f => f | None => new_fund assets (length (lp_parts p)) end in
  let i := N.to_nat idx in
  (forall k, acc_get (l_acc L') k =
             (acc_get (l_acc L) k - (if N.eqb (fst k) from then sum_for (snd k) (combine assets amts) else 0))%Z)
  /\ nth i (f_dep f0) true = false
  /\ (exists f', bfind (l_funds L') (lp_id p) = Some f'
        /\ f_assets f' = assets /\ f_dep f' = set_nth i true (f_dep f0) /\ f_settled f' = false
        /\ f_wd f' = f_wd f0 /\ length (f_hold f') = length assets
        /\ forall a j, (a < length assets)%nat ->
             nth j (nth a (f_hold f') []) 0%Z =
             (nth j (nth a (f_hold f0) []) 0 + (if (j =? i)%nat then nth a amts 0 else 0))%Z)
  /\ (forall c, c <> lp_id p -> bfind (l_funds L') c = bfind (l_funds L) c)
  /\ l_disp L' = l_disp L /\ l_clock L' = l_clock L /\ evs = [].
Proof.
  intros E f0 i. cbn [step_res] in E. guards.
  destruct (debit_all (l_acc L) from (combine assets amts)) as [acc'|] eqn:D; [|discriminate].
  injection E as <- <-. cbn [with_acc_funds l_acc l_funds l_disp l_clock].
  fold f0 in G1, G2, G3. fold i in G0, G3. split_and.
  repeat match goal with H : (_ =? _)%nat = true |- _ => apply Nat.eqb_eq in H end.
  match goal with H : nlist_eqb (f_assets f0) assets = true |- _ => apply nlist_eqb_eq in H; rename H into Ha end.
  match goal with H : fund_dims_ok f0 = true |- _ => unfold fund_dims_ok in H; rename H into Hd end.
  split_and. repeat match goal with H : (_ =? _)%nat = true |- _ => apply Nat.eqb_eq in H end.
  match goal with H : forallb _ (f_hold f0) = true |- _ => rename H into Hr end.
  assert (Hrows : forallb (fun r => (i <? length r)%nat) (f_hold f0) = true).
  { apply forallb_forall. intros r Hin. rewrite forallb_forall in Hr. specialize (Hr r Hin).
    apply Nat.eqb_eq in Hr. apply Nat.ltb_lt.
    match goal with H : (i <? _)%nat = true |- _ => apply Nat.ltb_lt in H end. lia. }
  fold f0. fold i.
  repeat split.
  - intro k. apply (debit_all_get _ _ _ _ k D).
  - apply negb_true_iff in G3. exact G3.
  - eexists. split; [apply bfind_bput_same|]. cbn [f_assets f_dep f_settled f_wd f_hold].
    repeat split; try assumption; try reflexivity.
    + rewrite add_col_length by congruence. congruence.
    + intros a j Hlt. apply nth_add_col; [congruence|exact Hrows|congruence].
  - intros c Hc. apply bfind_bput_other. exact Hc.
Qed.

(* ---------- register: one channel ---------- *)
Lemma register_single_cases now D p t D' evs :
  register_single now D p t = ROk (D', evs) ->
  let s := tx_st t in
  state_ok p s = true /\
  ((D' = D /\ evs = [] /\ exists d, bfind D (st_id s) = Some d /\ d_state d = s)
   \/ (tx_signed p t = true /\
       exists to, D' = bput D (st_id s) (mkDisp p s to DDispute)
         /\ evs = [EvRegistered (st_id s) (st_ver s) to]
         /\ ((bfind D (st_id s) = None /\ to = new_timeout now p s)
             \/ exists d, bfind D (st_id s) = Some d /\ d_state d <> s /\ st_ver (d_state d) < st_ver s
                  /\ d_phase d = DDispute /\ now < d_timeout d
                  /\ to = (if st_final s then now else d_timeout d)))).
Proof.
  intros E s. unfold register_single in E. fold s in E. guards. split; [exact G|].
  destruct (bfind D (st_id s)) as [d|] eqn:Ed.
  - destruct (state_equal (d_state d) s) eqn:Eq.
    + injection E as <- <-. left. repeat split. exists d. split; [reflexivity|]. apply state_equal_eq. exact Eq.
    + guards. injection E as <- <-. right. split; [exact G3|]. eexists. split; [reflexivity|]. split; [reflexivity|].
      right. exists d. repeat split; try reflexivity.
      * intro X. rewrite X in Eq. assert (state_equal s s = true) by (apply state_equal_eq; reflexivity). congruence.
      * apply N.ltb_lt. exact G0.
      * unfold dphase_eqb in G1. apply N.eqb_eq in G1. destruct (d_phase d); cbn in G1; try discriminate; reflexivity.
      * apply N.ltb_lt. exact G2.
  - guards. injection E as <- <-. right. split; [exact G0|]. eexists. split; [reflexivity|]. split; [reflexivity|].
    left. split; reflexivity.
Qed.

(* L_refute: against a registered, different state only a higher version, in the open dispute phase and
   before the timeout, with all signatures, is accepted; it replaces the registered state and keeps the
   timeout. Nothing lower (or equal but different) is ever accepted. *)
Theorem L_refute now D p t d :
  bfind D (st_id (tx_st t)) = Some d -> d_state d <> tx_st t ->
  let s := tx_st t in
  (forall D' evs, register_single now D p t = ROk (D', evs) ->
     st_ver (d_state d) < st_ver s /\ d_phase d = DDispute /\ now < d_timeout d /\ tx_signed p t = true
     /\ bfind D' (st_id s) = Some (mkDisp p s (if st_final s then now else d_timeout d) DDispute))
  /\ (state_ok p s = true -> st_ver (d_state d) < st_ver s -> d_phase d = DDispute -> now < d_timeout d ->
      tx_signed p t = true -> exists D' evs, register_single now D p t = ROk (D', evs))
  /\ (st_ver s <= st_ver (d_state d) -> exists e, register_single now D p t = RErr e).
Proof.
  intros Ed Hne s. repeat split.
  - destruct (register_single_cases _ _ _ _ _ _ H) as [_ [[_ [_ [d0 [E0 E1]]]]|[_ [to [_ [_ [[E0 _]|[d0 [E0 [_ [Hv _]]]]]]]]]]];
      cbv zeta in E0; rewrite Ed in E0; try discriminate; injection E0 as <-; [contradiction|exact Hv].
  - destruct (register_single_cases _ _ _ _ _ _ H) as [_ [[_ [_ [d0 [E0 E1]]]]|[_ [to [_ [_ [[E0 _]|[d0 [E0 [_ [_ [Hp _]]]]]]]]]]]];
      cbv zeta in E0; rewrite Ed in E0; try discriminate; injection E0 as <-; [contradiction|exact Hp].
  - destruct (register_single_cases _ _ _ _ _ _ H) as [_ [[_ [_ [d0 [E0 E1]]]]|[_ [to [_ [_ [[E0 _]|[d0 [E0 [_ [_ [_ [Hn _]]]]]]]]]]]]];
      cbv zeta in E0; rewrite Ed in E0; try discriminate; injection E0 as <-; [contradiction|exact Hn].
  - destruct (register_single_cases _ _ _ _ _ _ H) as [_ [[_ [_ [d0 [E0 E1]]]]|[Hs _]]]; [|exact Hs].
    cbv zeta in E0. rewrite Ed in E0. injection E0 as <-. contradiction.
  - destruct (register_single_cases _ _ _ _ _ _ H) as [_ [[_ [_ [d0 [E0 E1]]]]|[_ [to [-> [_ [[E0 _]|[d0 [E0 [_ [_ [_ [_ ->]]]]]]]]]]]]];
      cbv zeta in E0; rewrite Ed in E0; try discriminate; injection E0 as <-; [contradiction|].
    apply bfind_bput_same.
  - intros Hok Hv Hp Hn Hs. unfold register_single. subst s. rewrite Hok. cbn [guard rbind]. rewrite Ed.
    destruct (state_equal (d_state d) (tx_st t)) eqn:Eq; [apply state_equal_eq in Eq; contradiction|].
    apply N.ltb_lt in Hv, Hn. rewrite Hv, Hp, Hn, Hs. cbn [guard rbind dphase_eqb dphase_num N.eqb]. eauto.
  - intro Hle. unfold register_single. subst s. destruct (state_ok p (tx_st t)); cbn [guard rbind]; [|eauto]. rewrite Ed.
    destruct (state_equal (d_state d) (tx_st t)) eqn:Eq; [apply state_equal_eq in Eq; contradiction|].
    assert (Hv : (st_ver (d_state d) <? st_ver (tx_st t)) = false) by (apply N.ltb_ge; exact Hle).
    rewrite Hv. cbn [guard rbind]. eauto.
Qed.

(* ---------- outcome accumulation ---------- *)
Lemma fold_left_inv {S B} (P : S -> Prop) (f : S -> B -> S) l s :
  P s -> (forall s b, In b l -> P s -> P (f s b)) -> P (fold_left f l s).
Proof.
  revert s; induction l as [|b l IH]; intros s Hs Hf; cbn [fold_left]; [exact Hs|].
  apply IH; [apply Hf; [left; reflexivity|exact Hs]|]. intros s' b' Hin. apply Hf. right. exact Hin.
Qed.

Lemma zsum_nil : zsum [] = 0%Z.
Proof. reflexivity. Qed.
Lemma zsum_cons x l : zsum (x :: l) = (x + zsum l)%Z.
Proof. reflexivity. Qed.

Lemma add_row_at_sum im : forall sub j row,
  (forall k, (k < length sub)%nat -> (N.to_nat (imap_at im (j + k)) < length row)%nat) ->
  zsum (add_row_at im j row sub) = (zsum row + zsum sub)%Z
  /\ length (add_row_at im j row sub) = length row.
Proof.
  induction sub as [|x sub IH]; intros j row H; cbn [add_row_at]; rewrite ?zsum_cons, ?zsum_nil.
  - split; [lia|reflexivity].
  - assert (H0 : (N.to_nat (imap_at im j) < length row)%nat).
    { specialize (H 0%nat ltac:(cbn [length]; lia)). rewrite Nat.add_0_r in H. exact H. }
    destruct (IH (S j) (set_nth (N.to_nat (imap_at im j)) (nth (N.to_nat (imap_at im j)) row 0 + x)%Z row)) as [I1 I2].
    { intros k Hk. rewrite set_nth_length. specialize (H (S k) ltac:(cbn [length]; lia)).
      replace (j + S k)%nat with (S j + k)%nat in H by lia. exact H. }
    rewrite I1, I2, set_nth_length, zsum_set_nth by exact H0. split; [lia|reflexivity].
Qed.

Lemma imap_ok_bound im cols np k : imap_ok im cols np = true -> (k < cols)%nat ->
  (N.to_nat (imap_at im k) < np)%nat.
Proof.
  unfold imap_ok, imap_at. destruct im as [|x im].
  - intros H Hk. apply Nat.leb_le in H. lia.
  - intros H Hk. apply andb_true_iff in H as [H1 H2]. apply Nat.eqb_eq in H1.
    rewrite forallb_forall in H2. assert (Hin : In (nth k (x :: im) 0) (x :: im)) by (apply nth_In; lia).
    specialize (H2 _ Hin). apply N.ltb_lt in H2. lia.
Qed.

Lemma add_outcome_sums im : forall out so cs np,
  length so = length out -> imap_ok im cs np = true ->
  Forall (fun r => length r = cs) so -> Forall (fun r => length r = np) out ->
  map zsum (add_outcome im out so) = add_vec (map zsum out) (map zsum so)
  /\ length (add_outcome im out so) = length out
  /\ Forall (fun r => length r = np) (add_outcome im out so).
Proof.
  induction out as [|r out IH]; intros [|s so] cs np L Him Fs Fo; cbn [length] in *; try lia;
    cbn [add_outcome map add_vec length].
  - repeat split. constructor.
  - inversion Fs as [|? ? Hs Fs']; inversion Fo as [|? ? Hr Fo']; subst.
    destruct (add_row_at_sum im s 0%nat r) as [A1 A2].
    { intros k Hk. cbn [Nat.add]. apply (imap_ok_bound im (length s) (length r)); [exact Him|exact Hk]. }
    destruct (IH so (length s) (length r) ltac:(lia) Him Fs' Fo') as [B1 [B2 B3]].
    rewrite A1, B1, B2. repeat split. constructor; [rewrite A2; reflexivity|exact B3].
Qed.

Lemma merge_sub_ok parent l sub so out out' :
  merge_sub parent l sub so out = ROk out' ->
  al_assets (st_alloc sub) = al_assets (st_alloc parent)
  /\ sa_bals l = map zsum so
  /\ out' = add_outcome (sa_imap l) out so
  /\ length so = length out /\ imap_ok (sa_imap l) (cols_of so) (cols_of out) = true
  /\ Forall (fun r => length r = cols_of so) so /\ Forall (fun r => length r = cols_of out) out.
Proof.
  unfold merge_sub. intro H. guards. injection H as <-. split_and.
  apply nlist_eqb_eq in G. apply zlist_eqb_eq in G0. apply Nat.eqb_eq in H.
  repeat split; try assumption.
  - apply Forall_forall. intros r Hr.
    match goal with X : forallb _ so = true |- _ => rewrite forallb_forall in X; apply Nat.eqb_eq; apply X; exact Hr end.
  - apply Forall_forall. intros r Hr.
    match goal with X : forallb _ out = true |- _ => rewrite forallb_forall in X; apply Nat.eqb_eq; apply X; exact Hr end.
Qed.

Definition obody (f : nat) (s : state) (m : list state) :=
  fun (acc : rres (list (list Z))) (l : suballoc) =>
    do out <- acc ;
    match find_st m (sa_id l) with
    | None => RErr ESubMissing
    | Some sub => do so <- outcome_rec f sub m ; merge_sub s l sub so out
    end.
Lemma outcome_rec_unfold f s m :
  outcome_rec (S f) s m = fold_left (obody f s m) (al_locked (st_alloc s)) (ROk (al_bals (st_alloc s))).
Proof. reflexivity. Qed.

Lemma obody_err f s m e l : obody f s m (RErr e) l = RErr e.
Proof. reflexivity. Qed.

(* the accumulated outcome has, per asset, the total of the allocation: balances plus locked amounts *)
Lemma ofold_sums f s m : forall ls oa out,
  fold_left (obody f s m) ls (ROk oa) = ROk out ->
  map zsum out = fold_left (fun t l => add_vec t (sa_bals l)) ls (map zsum oa)
  /\ length out = length oa.
Proof.
  induction ls as [|l ls IH]; intros oa out H; cbn [fold_left] in *.
  - injection H as <-. split; reflexivity.
  - destruct (obody f s m (ROk oa) l) as [o1|e] eqn:E1.
    + destruct (IH _ _ H) as [I1 I2]. unfold obody in E1. cbn [rbind] in E1.
      destruct (find_st m (sa_id l)) as [sub|]; [|discriminate].
      destruct (outcome_rec f sub m) as [so|e]; cbn [rbind] in E1; [|discriminate].
      destruct (merge_sub_ok _ _ _ _ _ _ E1) as [_ [Hb [-> [HL [Him [Fs Fo]]]]]].
      destruct (add_outcome_sums (sa_imap l) oa so _ _ HL Him Fs Fo) as [A1 [A2 _]].
      rewrite I1, I2, A1, A2, Hb. split; reflexivity.
    + rewrite fold_rerr in H by (intro; reflexivity). discriminate.
Qed.

Theorem outcome_rec_sums fuel s m out :
  outcome_rec fuel s m = ROk out -> map zsum out = alloc_sum (st_alloc s).
Proof.
  destruct fuel as [|f]; [discriminate|]. rewrite outcome_rec_unfold. intro H.
  destruct (ofold_sums _ _ _ _ _ _ H) as [I _]. exact I.
Qed.

(* ---------- conclude ---------- *)
Definition upto (now : N) (D D' : disputes) : Prop :=
  forall id, match bfind D' id with
             | None => bfind D id = None
             | Some d' => exists d, bfind D id = Some d /\ d_params d' = d_params d /\ d_state d' = d_state d
                            /\ d_timeout d' = d_timeout d
                            /\ (d_phase d' = d_phase d \/ (d_phase d' = DConcluded /\ d_timeout d <= now))
             end.
Definition concludable (now : N) (D : disputes) (s : state) : Prop :=
  exists d, bfind D (st_id s) = Some d /\ d_state d = s /\ (d_phase d = DConcluded \/ d_timeout d <= now).
Definition concluded_in (D : disputes) (s : state) : Prop :=
  exists d, bfind D (st_id s) = Some d /\ d_state d = s /\ d_phase d = DConcluded.

Lemma upto_refl now D : upto now D D.
Proof. intro id. destruct (bfind D id) as [d|]; [|reflexivity]. exists d. repeat split. left. reflexivity. Qed.
Lemma upto_trans now A B C : upto now A B -> upto now B C -> upto now A C.
Proof.
  intros H1 H2 id. specialize (H1 id). specialize (H2 id).
  destruct (bfind C id) as [c|].
  - destruct H2 as [b [Eb [P1 [S1 [T1 Ph1]]]]]. rewrite Eb in H1.
    destruct H1 as [a [Ea [P2 [S2 [T2 Ph2]]]]]. exists a. repeat split; try congruence.
    destruct Ph1 as [Ph1|[Ph1 Le1]].
    + destruct Ph2 as [Ph2|[Ph2 Le2]]; [left; congruence|right; split; [congruence|exact Le2]].
    + right. split; [exact Ph1|]. rewrite <- T2. exact Le1.
  - rewrite H2 in H1. exact H1.
Qed.
Lemma concludable_back now D Dx s : upto now D Dx -> concludable now Dx s -> concludable now D s.
Proof.
  intros U [dx [Ex [Sx Px]]]. specialize (U (st_id s)). rewrite Ex in U.
  destruct U as [d [Ed [_ [S1 [T1 Ph]]]]]. exists d. split; [exact Ed|]. split; [congruence|].
  destruct Px as [Px|Px].
  - destruct Ph as [Ph|[_ Le]]; [left; congruence|right; exact Le].
  - right. rewrite <- T1. exact Px.
Qed.
Lemma concluded_fwd now D D' s : upto now D D' -> concluded_in D s -> concluded_in D' s.
Proof.
  intros U [d [Ed [Sd Pd]]]. specialize (U (st_id s)).
  destruct (bfind D' (st_id s)) as [d'|] eqn:E'.
  - destruct U as [d0 [E0 [_ [S1 [_ Ph]]]]]. rewrite Ed in E0. injection E0 as <-.
    exists d'. split; [exact E'|]. split; [congruence|]. destruct Ph as [Ph|[Ph _]]; congruence.
  - congruence.
Qed.

Lemma conclude_single_spec now D s D' evs :
  conclude_single now D s = ROk (D', evs) ->
  upto now D D' /\ concludable now D s /\ concluded_in D' s.
Proof.
  unfold conclude_single. destruct (bfind D (st_id s)) as [d|] eqn:Ed; [|discriminate].
  intro H. guards. apply state_equal_eq in G.
  destruct (dphase_eqb (d_phase d) DConcluded) eqn:Ec.
  - injection H as <- <-. assert (Pc : d_phase d = DConcluded).
    { unfold dphase_eqb in Ec. apply N.eqb_eq in Ec. destruct (d_phase d); cbn in Ec; try discriminate; reflexivity. }
    split; [apply upto_refl|]. split; exists d; repeat split; auto.
  - guards. injection H as <- <-.
    assert (Le : d_timeout d <= now).
    { apply N.leb_le in G0. destruct (dphase_eqb (d_phase d) DDispute && has_app (d_params d)); lia. }
    split; [|split].
    + intro id. rewrite bfind_bput. destruct (bytes_eqb id (st_id s)) eqn:Ei.
      * apply bytes_eqb_eq in Ei. subst id. exists d. cbn [d_params d_state d_timeout d_phase]. repeat split; auto.
      * destruct (bfind D id) as [d0|]; [|reflexivity]. exists d0. repeat split. left. reflexivity.
    + exists d. repeat split; auto.
    + eexists. split; [apply bfind_bput_same|]. cbn [d_state d_phase]. split; [exact G|reflexivity].
Qed.

Definition cbody (f : nat) (now : N) (s : state) (m : list state) :=
  fun (acc : rres (disputes * list levent * list (list Z))) (l : suballoc) =>
    do (Da, eva, out) <- acc ;
    match find_st m (sa_id l) with
    | None => RErr ESubMissing
    | Some sub =>
        do (Db, evb, so) <- conclude_rec f now Da sub m ;
        do out' <- merge_sub s l sub so out ;
        ROk (Db, eva ++ evb, out')
    end.
Lemma conclude_rec_unfold f now D s m :
  conclude_rec (S f) now D s m =
  (do (D1, ev1) <- conclude_single now D s ;
   fold_left (cbody f now s m) (al_locked (st_alloc s)) (ROk (D1, ev1, al_bals (st_alloc s)))).
Proof. reflexivity. Qed.

Definition sub_concluded (now : N) (m : list state) (D D' : disputes) (l : suballoc) : Prop :=
  exists sub, find_st m (sa_id l) = Some sub /\ concludable now D sub /\ concluded_in D' sub.

Lemma conclude_rec_spec now m : forall fuel D s D' evs out,
  conclude_rec fuel now D s m = ROk (D', evs, out) ->
  upto now D D' /\ concludable now D s /\ concluded_in D' s
  /\ Forall (sub_concluded now m D D') (al_locked (st_alloc s))
  /\ outcome_rec fuel s m = ROk out.
Proof.
  induction fuel as [|f IH]; intros D s D' evs out H; [discriminate|].
  rewrite conclude_rec_unfold in H. rewrite outcome_rec_unfold.
  destruct (conclude_single now D s) as [[D1 ev1]|e] eqn:E1; cbn [rbind] in H; [|discriminate].
  destruct (conclude_single_spec _ _ _ _ _ E1) as [U1 [C1 K1]].
  assert (F : forall ls Da eva oa,
             fold_left (cbody f now s m) ls (ROk (Da, eva, oa)) = ROk (D', evs, out) ->
             upto now Da D' /\ Forall (sub_concluded now m Da D') ls
             /\ fold_left (obody f s m) ls (ROk oa) = ROk out).
  { induction ls as [|l ls IHl]; intros Da eva oa Hf; cbn [fold_left] in *.
    - injection Hf as <- _ <-. split; [apply upto_refl|]. split; [constructor|reflexivity].
    - destruct (cbody f now s m (ROk (Da, eva, oa)) l) as [[[Db evb] ob]|e] eqn:Eb.
      + unfold cbody in Eb. cbn [rbind] in Eb.
        destruct (find_st m (sa_id l)) as [sub|] eqn:Ef; [|discriminate].
        destruct (conclude_rec f now Da sub m) as [[[Dc evc] so]|e] eqn:Ec; cbn [rbind] in Eb; [|discriminate].
        destruct (merge_sub s l sub so oa) as [o'|e] eqn:Em; cbn [rbind] in Eb; [|discriminate].
        injection Eb as <- <- <-.
        destruct (IH _ _ _ _ _ Ec) as [U2 [C2 [K2 [_ O2]]]].
        destruct (IHl _ _ _ Hf) as [U3 [F3 O3]].
        split; [exact (upto_trans _ _ _ _ U2 U3)|]. split.
        * constructor.
          -- exists sub. split; [exact Ef|]. split; [exact C2|]. exact (concluded_fwd _ _ _ _ U3 K2).
          -- eapply Forall_impl; [|exact F3]. intros l' [sub' [Ef' [C' K']]].
             exists sub'. split; [exact Ef'|]. split; [exact (concludable_back _ _ _ _ U2 C')|exact K'].
        * unfold obody at 2. cbn [rbind]. rewrite Ef, O2. cbn [rbind]. rewrite Em. exact O3.
      + rewrite fold_rerr in Hf by (intro; reflexivity). discriminate. }
  destruct (F _ _ _ _ H) as [U2 [F2 O2]].
  split; [exact (upto_trans _ _ _ _ U1 U2)|]. split; [exact C1|]. split; [exact (concluded_fwd _ _ _ _ U2 K1)|].
  split; [|exact O2].
  eapply Forall_impl; [|exact F2]. intros l' [sub' [Ef' [C' K']]].
  exists sub'. split; [exact Ef'|]. split; [exact (concludable_back _ _ _ _ U1 C')|exact K'].
Qed.

(* ---------- register: the whole tree ---------- *)
Definition rbody (f : nat) (now : N) (t : tx) (m : list (lparams * tx)) :=
  fun (acc : rres (disputes * list levent * list (list Z))) (l : suballoc) =>
    do (Da, eva, out) <- acc ;
    match find_tx m (sa_id l) with
    | None => RErr ESubMissing
    | Some (pl, tl) =>
        check negb (lp_ledger pl) else EParams ;
        do (Db, evb, so) <- register_rec f now Da pl tl m ;
        do out' <- merge_sub (tx_st t) l (tx_st tl) so out ;
        ROk (Db, eva ++ evb, out')
    end.
Lemma register_rec_unfold f now D p t m :
  register_rec (S f) now D p t m =
  (do (D1, ev1) <- register_single now D p t ;
   fold_left (rbody f now t m) (al_locked (st_alloc (tx_st t))) (ROk (D1, ev1, al_bals (st_alloc (tx_st t))))).
Proof. reflexivity. Qed.

(* whatever is preserved by registering one presented channel is preserved by registering the tree *)
Lemma register_rec_preserves now (m : list (lparams * tx)) (Q : disputes -> Prop) (A : lparams -> tx -> Prop) :
  (forall D p t D' evs, A p t -> Q D -> register_single now D p t = ROk (D', evs) -> Q D') ->
  (forall e, In e m -> A (fst e) (snd e)) ->
  forall fuel D p t D' evs out, A p t -> Q D -> register_rec fuel now D p t m = ROk (D', evs, out) -> Q D'.
Proof.
  intros Hs Hm. induction fuel as [|f IH]; intros D p t D' evs out Ha Hq H; [discriminate|].
  rewrite register_rec_unfold in H.
  destruct (register_single now D p t) as [[D1 ev1]|e] eqn:E1; cbn [rbind] in H; [|discriminate].
  pose proof (Hs _ _ _ _ _ Ha Hq E1) as Q1.
  set (P := fun acc : rres (disputes * list levent * list (list Z)) =>
              match acc with ROk (Da, _, _) => Q Da | RErr _ => True end).
  assert (HP : P (fold_left (rbody f now t m) (al_locked (st_alloc (tx_st t)))
                    (ROk (D1, ev1, al_bals (st_alloc (tx_st t)))))).
  { apply fold_left_inv; [exact Q1|].
    intros [[[Da eva] oa]|e] l _ Hacc; [|exact I]. cbn [P] in Hacc. unfold rbody. cbn [rbind].
    destruct (find_tx m (sa_id l)) as [[pl tl]|] eqn:Ef; [|exact I].
    destruct (negb (lp_ledger pl)); cbn [guard rbind]; [|exact I].
    destruct (register_rec f now Da pl tl m) as [[[Db evb] so]|e] eqn:Er; cbn [rbind]; [|exact I].
    destruct (merge_sub (tx_st t) l (tx_st tl) so oa); cbn [rbind P]; [|exact I].
    apply (IH _ _ _ _ _ _ (Hm _ (proj1 (find_some _ _ Ef))) Hacc Er). }
  rewrite H in HP. exact HP.
Qed.

(* ---------- L_payout ---------- *)
Lemma set_outcome_other F id out c : c <> id -> bfind (set_outcome F id out) c = bfind F c.
Proof.
  intro N. unfold set_outcome. destruct (bfind F id) as [f|]; [|reflexivity].
  destruct (f_settled f); [reflexivity|]. apply bfind_bput_other. exact N.
Qed.
Lemma set_outcome_settled F id out f : bfind F id = Some f -> f_settled f = true -> set_outcome F id out = F.
Proof. intros E S. unfold set_outcome. rewrite E, S. reflexivity. Qed.
Lemma set_outcome_exact F id out f :
  bfind F id = Some f -> f_settled f = false -> fund_dims_ok f = true -> outcome_fits f out = true ->
  bfind (set_outcome F id out) id = Some (mkFund (f_assets f) out (f_dep f) true (f_wd f)).
Proof.
  intros E S Dm Fit. unfold set_outcome. rewrite E, S, Dm, Fit. cbn [andb]. apply bfind_bput_same.
Qed.
Lemma set_outcome_none F id out : bfind F id = None -> set_outcome F id out = F.
Proof. intro E. unfold set_outcome. rewrite E. reflexivity. Qed.

(* what a successful Conclude is *)
Lemma conclude_step L p s subs L' evs :
  step_res L (LConclude p s subs) = ROk (L', evs) ->
  lp_ledger p = true /\ st_id s = lp_id p /\
  exists D out, conclude_rec (S (length subs)) (l_clock L) (l_disp L) s subs = ROk (D, evs, out)
    /\ l_disp L' = D /\ l_acc L' = l_acc L /\ l_clock L' = l_clock L
    /\ l_funds L' = (if is_concluded (l_disp L) (lp_id p) then l_funds L
                     else set_outcome (l_funds L) (lp_id p) out).
Proof.
  cbn [step_res]. intro H. guards. split_and.
  match goal with X : bytes_eqb _ _ = true |- _ => apply bytes_eqb_eq in X end.
  destruct (conclude_rec _ _ _ _ _) as [[[D evs'] out]|e]; cbn [rbind] in H; [|discriminate].
  injection H as <- <-. repeat split; try assumption. exists D, out. repeat split.
Qed.

(* (a) the first conclusion of an exactly funded channel on (s, subs) turns its holdings into the recursive
   outcome of (s, subs) *)
Theorem L_payout_conclude L p s subs L' evs f :
  step_res L (LConclude p s subs) = ROk (L', evs) ->
  is_concluded (l_disp L) (lp_id p) = false ->
  bfind (l_funds L) (lp_id p) = Some f -> f_settled f = false -> fund_dims_ok f = true ->
  exists out, outcome_rec (S (length subs)) s subs = ROk out
    /\ (outcome_fits f out = true ->
        bfind (l_funds L') (lp_id p) = Some (mkFund (f_assets f) out (f_dep f) true (f_wd f))).
Proof.
  intros H Nc Ef Sf Dm. destruct (conclude_step _ _ _ _ _ _ H) as [_ [_ [D [out [Hc [_ [_ [_ HF]]]]]]]].
  destruct (conclude_rec_spec _ _ _ _ _ _ _ _ Hc) as [_ [_ [_ [_ Ho]]]].
  exists out. split; [exact Ho|]. intro Fit. rewrite HF, Nc. apply set_outcome_exact; assumption.
Qed.

(* (b) a successful withdrawal pays the participant's column of the holdings, per asset, to the account named
   in the authorisation, empties the column and marks the participant; it needs the authorising signer to be
   the participant, a concluded channel, and no earlier withdrawal of that participant *)
Theorem L_payout_withdraw L p idx signer to L' evs :
  step_res L (LWithdraw p idx signer to) = ROk (L', evs) ->
  let i := N.to_nat idx in
  exists f, bfind (l_funds L) (lp_id p) = Some f /\ f_settled f = true
    /\ nth i (lp_parts p) 0 = signer /\ (i < length (lp_parts p))%nat /\ nth i (f_wd f) true = false
    /\ (forall k, acc_get (l_acc L') k =
          (acc_get (l_acc L) k
           + (if N.eqb (fst k) to then sum_for (snd k) (combine (f_assets f) (col (f_hold f) i)) else 0))%Z)
    /\ bfind (l_funds L') (lp_id p)
       = Some (mkFund (f_assets f) (zero_col (f_hold f) i) (f_dep f) true (set_nth i true (f_wd f)))
    /\ (forall c, c <> lp_id p -> bfind (l_funds L') c = bfind (l_funds L) c)
    /\ l_disp L' = l_disp L /\ l_clock L' = l_clock L /\ evs = [].
Proof.
  cbn [step_res]. intro H. set (i := N.to_nat idx) in *.
  destruct (bfind (l_funds L) (lp_id p)) as [f|] eqn:Ef; [|discriminate].
  guards. injection H as <- <-. split_and.
  exists f. split; [reflexivity|]. split; [exact G|].
  split; [apply N.eqb_eq; exact G1|]. split; [apply Nat.ltb_lt; assumption|].
  split; [apply negb_true_iff in G2; exact G2|].
  cbn [with_acc_funds l_acc l_funds l_disp l_clock]. fold i. repeat split.
  - intro k. apply credit_all_get.
  - apply bfind_bput_same.
  - intros c Hc. apply bfind_bput_other. exact Hc.
Qed.

(* (c),(d) once the outcome is set, the record of a channel changes only by successful withdrawals *)
Theorem L_settled_step L o id f :
  bfind (l_funds L) id = Some f -> f_settled f = true ->
  bfind (l_funds (fst (step L o))) id = Some f
  \/ exists p idx signer to evs, o = LWithdraw p idx signer to /\ lp_id p = id
       /\ step_res L o = ROk (fst (step L o), evs).
Proof.
  intros Ef Sf. unfold step. destruct (step_res L o) as [[L' evs]|e] eqn:E; cbn [fst]; [|left; exact Ef].
  destruct o.
  - (* deposit *)
    left. destruct (L_funding_exact _ _ _ _ _ _ _ _ E) as [_ [_ [[f' [Ef' [_ [_ [Sf' _]]]]] [Ho _]]]].
    destruct (bytes_eqb id (lp_id p)) eqn:Ei.
    + apply bytes_eqb_eq in Ei. subst id. exfalso.
      cbn [step_res] in E. guards. rewrite Ef in G2. rewrite Sf in G2. discriminate.
    + rewrite Ho; [exact Ef|]. apply bytes_eqb_false. exact Ei.
  - left. cbn [step_res] in E. guards.
    destruct (register_rec _ _ _ _ _ _) as [[[D evs'] o']|e']; cbn [rbind] in E; [|discriminate].
    injection E as <- _. exact Ef.
  - left. cbn [step_res] in E. destruct (bfind (l_disp L) (lp_id p)) as [d|]; [|discriminate].
    guards. destruct (lp_app p); [|discriminate]. guards. injection E as <- _. exact Ef.
  - left. destruct (conclude_step _ _ _ _ _ _ E) as [_ [_ [D [out [_ [_ [_ [_ HF]]]]]]]]. rewrite HF.
    destruct (is_concluded (l_disp L) (lp_id p)); [exact Ef|].
    destruct (bytes_eqb id (lp_id p)) eqn:Ei.
    + apply bytes_eqb_eq in Ei. subst id. rewrite (set_outcome_settled _ _ _ _ Ef Sf). exact Ef.
    + rewrite set_outcome_other; [exact Ef|]. apply bytes_eqb_false. exact Ei.
  - left. cbn [step_res] in E. guards.
    assert (X : forall out, bfind (set_outcome (l_funds L) (lp_id p) out) id = Some f).
    { intro out. destruct (bytes_eqb id (lp_id p)) eqn:Ei.
      - apply bytes_eqb_eq in Ei. subst id. rewrite (set_outcome_settled _ _ _ _ Ef Sf). exact Ef.
      - rewrite set_outcome_other; [exact Ef|]. apply bytes_eqb_false. exact Ei. }
    destruct (bfind (l_disp L) (lp_id p)) as [d|].
    + destruct (dphase_eqb (d_phase d) DConcluded).
      * guards. injection E as <- _. exact Ef.
      * guards. injection E as <- _. cbn [l_funds]. apply X.
    + guards. injection E as <- _. cbn [l_funds]. apply X.
  - destruct (bytes_eqb id (lp_id p)) eqn:Ei.
    + apply bytes_eqb_eq in Ei. right. exists p, idx, signer, to, evs. repeat split; auto.
    + left. destruct (L_payout_withdraw _ _ _ _ _ _ _ E) as [f0 [_ [_ [_ [_ [_ [_ [_ [Ho _]]]]]]]]].
      rewrite Ho; [exact Ef|]. apply bytes_eqb_false. exact Ei.
  - left. cbn [step_res] in E. injection E as <- _. exact Ef.
Qed.

(* a participant withdraws once: the mark is never cleared, and a marked participant is refused *)
Theorem L_withdraw_once L p idx signer to f :
  bfind (l_funds L) (lp_id p) = Some f -> nth (N.to_nat idx) (f_wd f) true = true ->
  exists e, step_res L (LWithdraw p idx signer to) = RErr e.
Proof.
  intros Ef W. cbn [step_res]. rewrite Ef.
  destruct (f_settled f); cbn [guard rbind]; [|eauto].
  destruct ((N.to_nat idx <? length (lp_parts p))%nat && (length (f_wd f) =? length (lp_parts p))%nat); cbn [guard rbind]; [|eauto].
  destruct (nth (N.to_nat idx) (lp_parts p) 0 =? signer); cbn [guard rbind]; [|eauto].
  rewrite W. cbn [negb guard rbind]. eauto.
Qed.
Lemma nth_set_nth_true i j l : nth j l true = true -> nth j (set_nth i true l) true = true.
Proof.
  revert i j; induction l as [|y l IH]; intros [|i] [|j] H; cbn [set_nth nth] in *; auto.
Qed.
Theorem L_withdrawn_stays L o id f i :
  bfind (l_funds L) id = Some f -> f_settled f = true -> nth i (f_wd f) true = true ->
  exists f', bfind (l_funds (fst (step L o))) id = Some f' /\ f_settled f' = true /\ nth i (f_wd f') true = true.
Proof.
  intros Ef Sf W. destruct (L_settled_step L o id f Ef Sf) as [H|[p [idx [signer [to [evs [-> [Hid H]]]]]]]].
  - exists f. auto.
  - destruct (L_payout_withdraw _ _ _ _ _ _ _ H) as [f0 [E0 [_ [_ [_ [_ [_ [E1 _]]]]]]]].
    subst id. rewrite Ef in E0. injection E0 as <-. eexists. split; [exact E1|].
    cbn [f_settled f_wd]. split; [reflexivity|]. apply nth_set_nth_true. exact W.
Qed.

(* ---------- how each operation changes the dispute table, the clock ---------- *)
Lemma register_step L p t m :
  fst (step L (LRegister p t m)) = L
  \/ exists D evs out, register_rec (S (length m)) (l_clock L) (l_disp L) p t m = ROk (D, evs, out)
       /\ lp_ledger p = true /\ fst (step L (LRegister p t m)) = with_disp L D.
Proof.
  unfold step. cbn [step_res]. destruct (lp_ledger p); cbn [guard rbind]; [|left; reflexivity].
  destruct (register_rec _ _ _ _ _ _) as [[[D evs] out]|e]; cbn [rbind fst]; [|left; reflexivity].
  right. exists D, evs, out. auto.
Qed.
Lemma conclude_step' L p s m :
  fst (step L (LConclude p s m)) = L
  \/ exists evs, step_res L (LConclude p s m) = ROk (fst (step L (LConclude p s m)), evs).
Proof.
  unfold step. destruct (step_res L (LConclude p s m)) as [[L' evs]|e]; cbn [fst]; [right; eauto|left; reflexivity].
Qed.
Lemma concludefinal_step L p t :
  fst (step L (LConcludeFinal p t)) = L
  \/ (let s := tx_st t in
      lp_ledger p = true /\ state_ok p s = true /\ st_final s = true /\ al_locked (st_alloc s) = []
      /\ tx_signed p t = true
      /\ (match bfind (l_disp L) (lp_id p) with Some d => d_phase d <> DConcluded | None => True end)
      /\ fst (step L (LConcludeFinal p t))
         = mkL (l_clock L) (l_acc L) (set_outcome (l_funds L) (lp_id p) (al_bals (st_alloc s)))
               (bput (l_disp L) (lp_id p) (mkDisp p s (l_clock L) DConcluded))).
Proof.
  unfold step. destruct (step_res L (LConcludeFinal p t)) as [[L' evs]|e] eqn:E; cbn [fst]; [|left; reflexivity].
  cbn [step_res] in E. guards. split_and.
  match goal with X : (_ =? _)%nat = true |- _ => apply Nat.eqb_eq in X; apply length_zero_iff_nil in X end.
  destruct (bfind (l_disp L) (lp_id p)) as [d|] eqn:Ed.
  - destruct (dphase_eqb (d_phase d) DConcluded) eqn:Ec.
    + guards. injection E as <- _. left. reflexivity.
    + guards. injection E as <- _. right. cbv zeta. splits; auto.
      intro X. rewrite X in Ec. discriminate.
  - guards. injection E as <- _. right. cbv zeta. splits; auto.
Qed.
Lemma deposit_disp L p a i f m : l_disp (fst (step L (LDeposit p a i f m))) = l_disp L
  /\ l_clock (fst (step L (LDeposit p a i f m))) = l_clock L.
Proof.
  unfold step. destruct (step_res L (LDeposit p a i f m)) as [[L' evs]|e] eqn:E; cbn [fst]; [|split; reflexivity].
  destruct (L_funding_exact _ _ _ _ _ _ _ _ E) as (_ & _ & _ & _ & H1 & H2 & _). auto.
Qed.
Lemma withdraw_disp L p i s t : l_disp (fst (step L (LWithdraw p i s t))) = l_disp L
  /\ l_clock (fst (step L (LWithdraw p i s t))) = l_clock L.
Proof.
  unfold step. destruct (step_res L (LWithdraw p i s t)) as [[L' evs]|e] eqn:E; cbn [fst]; [|split; reflexivity].
  destruct (L_payout_withdraw _ _ _ _ _ _ _ E) as (f & _ & _ & _ & _ & _ & _ & _ & _ & H1 & H2 & _). auto.
Qed.
Lemma tick_step L n : fst (step L (LTick n)) = mkL (l_clock L + n) (l_acc L) (l_funds L) (l_disp L).
Proof. reflexivity. Qed.
Lemma register_clock L p t m : l_clock (fst (step L (LRegister p t m))) = l_clock L
  /\ l_funds (fst (step L (LRegister p t m))) = l_funds L /\ l_acc (fst (step L (LRegister p t m))) = l_acc L.
Proof.
  destruct (register_step L p t m) as [->|(D & evs & out & _ & _ & ->)]; repeat split.
Qed.

(* ---------- concluded entries are final; a concluded ledger channel has its whole tree concluded ---------- *)
Definition tree_concluded (D : disputes) (root : bytes) : Prop :=
  forall d, bfind D root = Some d -> d_phase d = DConcluded ->
    forall l, In l (al_locked (st_alloc (d_state d))) ->
      exists dl, bfind D (sa_id l) = Some dl /\ d_phase dl = DConcluded.

Lemma register_single_keeps_concluded now D p t D' evs id d :
  register_single now D p t = ROk (D', evs) -> bfind D id = Some d -> d_phase d = DConcluded ->
  bfind D' id = Some d.
Proof.
  intros Hs Hf Hc.
  destruct (register_single_cases _ _ _ _ _ _ Hs) as [_ [(-> & _)|(_ & to & -> & _ & Hto)]]; [exact Hf|].
  rewrite bfind_bput. destruct (bytes_eqb id (st_id (tx_st t))) eqn:Ei; [|exact Hf].
  apply bytes_eqb_eq in Ei. subst id. exfalso.
  destruct Hto as [(Hn & _)|(d0 & E0 & _ & _ & Hp & _)]; [congruence|].
  rewrite Hf in E0. injection E0 as <-. congruence.
Qed.

Lemma register_single_new_phase now D p t D' evs id d' :
  register_single now D p t = ROk (D', evs) -> bfind D' id = Some d' -> d_phase d' = DConcluded ->
  bfind D id = Some d'.
Proof.
  intros Hs Hf Hc.
  destruct (register_single_cases _ _ _ _ _ _ Hs) as [_ [(-> & _)|(_ & to & -> & _ & Hto)]]; [exact Hf|].
  rewrite bfind_bput in Hf. destruct (bytes_eqb id (st_id (tx_st t))); [|exact Hf].
  injection Hf as <-. discriminate.
Qed.

Lemma tree_concluded_register now m root fuel D p t D' evs out :
  tree_concluded D root -> register_rec fuel now D p t m = ROk (D', evs, out) -> tree_concluded D' root.
Proof.
  intros Ht Hr.
  apply (register_rec_preserves now m (fun D => tree_concluded D root) (fun _ _ => True))
    with (fuel := fuel) (D := D) (p := p) (t := t) (evs := evs) (out := out); auto.
  clear. intros D p t D' evs _ Ht Hs d' Hf Hc l Hl.
  pose proof (register_single_new_phase _ _ _ _ _ _ _ _ Hs Hf Hc) as Hf0.
  destruct (Ht _ Hf0 Hc _ Hl) as (dl & Hdl & Hcl). exists dl. split; [|exact Hcl].
  eapply register_single_keeps_concluded; eauto.
Qed.

Lemma find_st_id m id s : find_st m id = Some s -> st_id s = id.
Proof. unfold find_st. intro H. apply find_some in H as [_ H]. apply bytes_eqb_eq in H. exact H. Qed.

Lemma tree_concluded_step L o root :
  tree_concluded (l_disp L) root ->
  (forall p s m, o = LConclude p s m -> lp_id p = root) ->
  (forall p t, o = LConcludeFinal p t -> lp_id p = root) ->
  (forall p a b c d, o <> LProgress p a b c d) ->
  tree_concluded (l_disp (fst (step L o))) root.
Proof.
  intros Ht Hc1 Hc2 Np. destruct o.
  - destruct (deposit_disp L p assets idx from amts) as [-> _]. exact Ht.
  - destruct (register_step L p t subs) as [->|(D & evs & out & Hr & _ & ->)]; [exact Ht|].
    cbn [with_disp l_disp]. eapply tree_concluded_register; eauto.
  - exfalso. eapply Np. reflexivity.
  - destruct (conclude_step' L p s subs) as [->|[evs E]]; [exact Ht|].
    destruct (conclude_step _ _ _ _ _ _ E) as (_ & Hid & D & out & Hc & -> & _).
    destruct (conclude_rec_spec _ _ _ _ _ _ _ _ Hc) as (U & _ & K & F & _).
    specialize (Hc1 _ _ _ eq_refl). rewrite Hc1 in Hid.
    intros d' Hf Hp l Hl. pose proof (U root) as Ur. rewrite Hf in Ur. destruct Ur as (d & Ed & _ & S1 & _ & Ph).
    destruct K as (dk & Ek & Sk & _). rewrite Hid, Hf in Ek. injection Ek as <-.
    (* the root entry is concluded on s: every locked sub-channel was concluded in this call or before *)
    rewrite Sk in Hl. rewrite Forall_forall in F. destruct (F _ Hl) as (sub & Hfs & _ & (dl & Edl & _ & Pdl)).
    rewrite (find_st_id _ _ _ Hfs) in Edl. eauto.
  - destruct (concludefinal_step L p t) as [->|H]; [exact Ht|]. cbv zeta in H.
    destruct H as (_ & _ & _ & Hl0 & _ & Hnc & ->). cbn [l_disp]. specialize (Hc2 _ _ eq_refl). rewrite Hc2 in *.
    intros d' Hf Hp l Hl. rewrite bfind_bput, bytes_eqb_refl in Hf. injection Hf as <-.
    cbn [d_state] in Hl. rewrite Hl0 in Hl. destruct Hl.
  - destruct (withdraw_disp L p idx signer to) as [-> _]. exact Ht.
  - exact Ht.
Qed.

(* a concluded entry is never changed again *)
Lemma concluded_stays L o id d :
  bfind (l_disp L) id = Some d -> d_phase d = DConcluded -> (forall p a b c e, o <> LProgress p a b c e) ->
  exists d', bfind (l_disp (fst (step L o))) id = Some d' /\ d_state d' = d_state d /\ d_phase d' = DConcluded.
Proof.
  intros Hf Hc Np. destruct o.
  - destruct (deposit_disp L p assets idx from amts) as [-> _]. eauto.
  - destruct (register_step L p t subs) as [->|(D & evs & out & Hr & _ & ->)]; [eauto|].
    cbn [with_disp l_disp]. exists d. split; [|auto].
    apply (register_rec_preserves (l_clock L) subs (fun D => bfind D id = Some d) (fun _ _ => True))
      with (fuel := S (length subs)) (D := l_disp L) (p := p) (t := t) (evs := evs) (out := out); auto.
    intros D0 p0 t0 D' evs0 _ H0 Hs. eapply register_single_keeps_concluded; eauto.
  - exfalso. eapply Np. reflexivity.
  - destruct (conclude_step' L p s subs) as [->|[evs E]]; [eauto|].
    destruct (conclude_step _ _ _ _ _ _ E) as (_ & _ & D & out & Hcr & -> & _).
    destruct (conclude_rec_spec _ _ _ _ _ _ _ _ Hcr) as (U & _).
    specialize (U id). destruct (bfind D id) as [d'|] eqn:E'; [|congruence].
    destruct U as (d0 & E0 & _ & S1 & _ & Ph). rewrite Hf in E0. injection E0 as <-.
    exists d'. split; [reflexivity|]. split; [exact S1|]. destruct Ph as [Ph|[Ph _]]; congruence.
  - destruct (concludefinal_step L p t) as [->|H]; [eauto|]. cbv zeta in H.
    destruct H as (_ & _ & _ & _ & _ & Hnc & ->). cbn [l_disp]. rewrite bfind_bput.
    destruct (bytes_eqb id (lp_id p)) eqn:Ei; [|eauto].
    apply bytes_eqb_eq in Ei. subst id. rewrite Hf in Hnc. contradiction.
  - destruct (withdraw_disp L p idx signer to) as [-> _]. eauto.
  - eauto.
Qed.

(* ---------- the outcome depends only on the sub-channel states that are found ---------- *)
Lemma outcome_rec_flat f s m : al_locked (st_alloc s) = [] -> outcome_rec (S f) s m = ROk (al_bals (st_alloc s)).
Proof. intro H. rewrite outcome_rec_unfold, H. reflexivity. Qed.

Lemma fold_left_ext_in {S B} (f g : S -> B -> S) l s :
  (forall s b, In b l -> f s b = g s b) -> fold_left f l s = fold_left g l s.
Proof.
  revert s; induction l as [|b l IH]; intros s H; cbn [fold_left]; [reflexivity|].
  rewrite H by (left; reflexivity). apply IH. intros s' b' Hin. apply H. right. exact Hin.
Qed.

Lemma outcome_congr f f' s m m' :
  (forall l, In l (al_locked (st_alloc s)) ->
     find_st m (sa_id l) = find_st m' (sa_id l)
     /\ forall sub, find_st m (sa_id l) = Some sub -> al_locked (st_alloc sub) = []) ->
  outcome_rec (S (S f)) s m = outcome_rec (S (S f')) s m'.
Proof.
  intro H. rewrite !outcome_rec_unfold. apply fold_left_ext_in. intros acc l Hl.
  destruct (H l Hl) as [E Fl]. unfold obody. destruct acc as [out|e]; cbn [rbind]; [|reflexivity].
  rewrite <- E. destruct (find_st m (sa_id l)) as [sub|] eqn:Ef; [|reflexivity].
  rewrite !(outcome_rec_flat _ _ _ (Fl _ eq_refl)). reflexivity.
Qed.
Lemma outcome_nolock f f' s m m' : al_locked (st_alloc s) = [] -> outcome_rec (S f) s m = outcome_rec (S f') s m'.
Proof. intro H. rewrite !(outcome_rec_flat _ _ _ H). reflexivity. Qed.

(* the outcome over a lookup function, one level of sub-channels *)
Definition flat_outcome (s : state) (g : bytes -> option state) : rres (list (list Z)) :=
  fold_left (fun acc l =>
    do out <- acc ;
    match g (sa_id l) with
    | None => RErr ESubMissing
    | Some sub => merge_sub s l sub (al_bals (st_alloc sub)) out
    end) (al_locked (st_alloc s)) (ROk (al_bals (st_alloc s))).

Lemma outcome_rec_is_flat f s m :
  (forall l sub, In l (al_locked (st_alloc s)) -> find_st m (sa_id l) = Some sub -> al_locked (st_alloc sub) = []) ->
  outcome_rec (S (S f)) s m = flat_outcome s (find_st m).
Proof.
  intro H. rewrite outcome_rec_unfold. unfold flat_outcome. apply fold_left_ext_in. intros acc l Hl.
  unfold obody. destruct acc as [out|e]; cbn [rbind]; [|reflexivity].
  destruct (find_st m (sa_id l)) as [sub|] eqn:Ef; [|reflexivity].
  rewrite (outcome_rec_flat _ _ _ (H _ _ Hl Ef)). reflexivity.
Qed.
Lemma outcome_rec_nolock_flat f s m g : al_locked (st_alloc s) = [] -> outcome_rec (S f) s m = flat_outcome s g.
Proof. intro H. rewrite (outcome_rec_flat _ _ _ H). unfold flat_outcome. rewrite H. reflexivity. Qed.
Lemma flat_outcome_ext s g g' :
  (forall l, In l (al_locked (st_alloc s)) -> g (sa_id l) = g' (sa_id l)) -> flat_outcome s g = flat_outcome s g'.
Proof.
  intro H. unfold flat_outcome. apply fold_left_ext_in. intros acc l Hl. rewrite (H l Hl). reflexivity.
Qed.

Definition reg_state (D : disputes) (id : bytes) : option state := option_map d_state (bfind D id).
Definition ledger_outcome (D : disputes) (root : bytes) : rres (list (list Z)) :=
  match bfind D root with
  | Some d => flat_outcome (d_state d) (reg_state D)
  | None => RErr ENotRegistered
  end.

Lemma conclude_outcome_ledger now D s m D' evs out :
  conclude_rec (S (length m)) now D s m = ROk (D', evs, out) ->
  (forall l dl, In l (al_locked (st_alloc s)) -> bfind D' (sa_id l) = Some dl -> al_locked (st_alloc (d_state dl)) = []) ->
  ledger_outcome D' (st_id s) = ROk out.
Proof.
  intros Hc Flat. destruct (conclude_rec_spec _ _ _ _ _ _ _ _ Hc) as (_ & _ & (d & Ed & Sd & _) & F & Ho).
  unfold ledger_outcome. rewrite Ed, Sd. rewrite <- Ho. symmetry.
  rewrite Forall_forall in F.
  assert (Agree : forall l, In l (al_locked (st_alloc s)) -> find_st m (sa_id l) = reg_state D' (sa_id l)).
  { intros l Hl. destruct (F _ Hl) as (sub & Hfs & _ & (dl & Edl & Sdl & _)).
    rewrite (find_st_id _ _ _ Hfs) in Edl. unfold reg_state. rewrite Edl, Hfs. cbn [option_map]. congruence. }
  destruct (al_locked (st_alloc s)) as [|l0 ls] eqn:El.
  - apply outcome_rec_nolock_flat. exact El.
  - destruct m as [|x m'].
    + exfalso. destruct (F l0 (or_introl eq_refl)) as (sub & Hfs & _). discriminate Hfs.
    + cbn [length]. rewrite outcome_rec_is_flat.
      * apply flat_outcome_ext. rewrite El. exact Agree.
      * rewrite El. intros l sub Hl Hfs. rewrite (Agree l Hl) in Hfs. unfold reg_state in Hfs.
        destruct (bfind D' (sa_id l)) as [dl|] eqn:Edl; [|discriminate]. cbn [option_map] in Hfs. injection Hfs as <-.
        eapply Flat; eauto.
Qed.

Lemma ledger_outcome_stable L o root d :
  bfind (l_disp L) root = Some d -> d_phase d = DConcluded -> tree_concluded (l_disp L) root ->
  (forall p a b c e, o <> LProgress p a b c e) ->
  ledger_outcome (l_disp (fst (step L o))) root = ledger_outcome (l_disp L) root.
Proof.
  intros Hd Hc Ht Np. unfold ledger_outcome. rewrite Hd.
  destruct (concluded_stays L o root d Hd Hc Np) as (d' & Hd' & Sd & _). rewrite Hd', Sd.
  apply flat_outcome_ext. intros l Hl. destruct (Ht _ Hd Hc _ Hl) as (dl & Hdl & Hcl).
  destruct (concluded_stays L o (sa_id l) dl Hdl Hcl Np) as (dl' & Hdl' & Sdl & _).
  unfold reg_state. rewrite Hdl, Hdl'. cbn [option_map]. congruence.
Qed.

(* ---------- columns of the holdings ---------- *)
Lemma nth_set_nth_any {A} i j (x d : A) l :
  nth j (set_nth i x l) d = if (j =? i)%nat then (if (i <? length l)%nat then x else d) else nth j l d.
Proof.
  revert i j; induction l as [|y l IH]; intros i j.
  - destruct i, j; cbn; try reflexivity. destruct (j =? i)%nat; reflexivity.
  - destruct i as [|i], j as [|j]; cbn [set_nth nth length]; try reflexivity.
    rewrite IH. change (S j =? S i)%nat with (j =? i)%nat. change (S i <? S (length l))%nat with (i <? length l)%nat.
    reflexivity.
Qed.
Lemma col_zero_col hold i j :
  col (zero_col hold i) j = if (j =? i)%nat then map (fun _ => 0%Z) hold else col hold j.
Proof.
  unfold col, zero_col. rewrite map_map. destruct (j =? i)%nat eqn:E.
  - apply map_ext. intro r. rewrite nth_set_nth_any, E. destruct (i <? length r)%nat; reflexivity.
  - apply map_ext. intro r. rewrite nth_set_nth_any, E. reflexivity.
Qed.
Lemma col_add_col hold i amts j :
  length amts = length hold -> forallb (fun r => (i <? length r)%nat) hold = true ->
  col (add_col hold i amts) j = if (j =? i)%nat then add_vec (col hold j) amts else col hold j.
Proof.
  unfold col. revert amts; induction hold as [|r hold IH]; intros [|m amts] L F; cbn [length] in *; try lia.
  - destruct (j =? i)%nat; reflexivity.
  - cbn [forallb] in F. apply andb_true_iff in F as [F1 F2]. cbn [add_col map]. rewrite IH by (try lia; exact F2).
    rewrite nth_set_nth by (apply Nat.ltb_lt; exact F1).
    destruct (j =? i)%nat eqn:E; cbn [add_vec]; [|reflexivity]. apply Nat.eqb_eq in E. subst. reflexivity.
Qed.
Lemma add_vec_zeros (A : list (list Z)) (v : list Z) : length v = length A -> add_vec (map (fun _ => 0%Z) A) v = v.
Proof.
  revert v; induction A as [|a A IH]; intros [|x v] L; cbn [length] in *; try lia; cbn [map add_vec]; [reflexivity|].
  rewrite IH by lia. reflexivity.
Qed.
Lemma col_length (h : list (list Z)) i : length (col h i) = length h.
Proof. unfold col. apply map_length. Qed.

(* rows of an outcome have the width of the balances *)
Lemma ofold_rows f s m c : forall ls oa out,
  fold_left (obody f s m) ls (ROk oa) = ROk out -> Forall (fun r => length r = c) oa -> Forall (fun r => length r = c) out.
Proof.
  induction ls as [|l ls IH]; intros oa out H Fo; cbn [fold_left] in *.
  - injection H as <-. exact Fo.
  - destruct (obody f s m (ROk oa) l) as [o1|e] eqn:E1.
    + apply (IH _ _ H). unfold obody in E1. cbn [rbind] in E1.
      destruct (find_st m (sa_id l)) as [sub|]; [|discriminate].
      destruct (outcome_rec f sub m) as [so|e]; cbn [rbind] in E1; [|discriminate].
      destruct (merge_sub_ok _ _ _ _ _ _ E1) as [_ [_ [-> [HL [Him [Fs Fo']]]]]].
      destruct (add_outcome_sums (sa_imap l) oa so _ _ HL Him Fs Fo') as [_ [_ A3]].
      destruct oa as [|r0 oa']; [destruct so; [constructor|discriminate]|].
      inversion Fo as [|? ? Hr0 _]; subst. cbn [cols_of] in A3. exact A3.
    + rewrite fold_rerr in H by (intro; reflexivity). discriminate.
Qed.
Lemma outcome_rec_dims fuel s m out c :
  outcome_rec fuel s m = ROk out -> Forall (fun r => length r = c) (al_bals (st_alloc s)) ->
  Forall (fun r => length r = c) out /\ length out = length (al_bals (st_alloc s)).
Proof.
  destruct fuel as [|f]; [discriminate|]. rewrite outcome_rec_unfold. intros H Fo. split.
  - eapply ofold_rows; eauto.
  - destruct (ofold_sums _ _ _ _ _ _ H) as [_ I]. exact I.
Qed.

Lemma deposit_step L p assets idx from amts L' evs :
  step_res L (LDeposit p assets idx from amts) = ROk (L', evs) ->
  let f0 := match bfind (l_funds L) (lp_id p) with Some f => f | None => new_fund assets (length (lp_parts p)) end in
  let i := N.to_nat idx in
  exists acc', debit_all (l_acc L) from (combine assets amts) = Some acc'
    /\ L' = with_acc_funds L acc' (bput (l_funds L) (lp_id p)
               (mkFund (f_assets f0) (add_col (f_hold f0) i amts) (set_nth i true (f_dep f0)) false (f_wd f0)))
    /\ f_assets f0 = assets /\ fund_dims_ok f0 = true /\ length (f_dep f0) = length (lp_parts p)
    /\ f_settled f0 = false /\ nth i (f_dep f0) true = false /\ (i < length (lp_parts p))%nat
    /\ length amts = length assets.
Proof.
  intros E f0 i. cbn [step_res] in E. guards.
  destruct (debit_all (l_acc L) from (combine assets amts)) as [acc'|] eqn:D; [|discriminate].
  injection E as <- _. fold f0 in G1, G2, G3. fold i in G0, G3. split_and.
  repeat match goal with H : (_ =? _)%nat = true |- _ => apply Nat.eqb_eq in H end.
  match goal with H : nlist_eqb (f_assets f0) assets = true |- _ => apply nlist_eqb_eq in H end.
  match goal with H : (i <? _)%nat = true |- _ => apply Nat.ltb_lt in H end.
  apply negb_true_iff in G2, G3.
  exists acc'. splits; auto.
Qed.
