From V Require Import Model.Channel Model.Sig Proofs.ChannelP.

Section SigBinds.
  Variable S : sigscheme.
  Variable rs : resolver.
  Definition sign_state (k : skey S) (s : state) : ssig S := ssign S k (enc_state s).
  Definition verify_state (p : saddr S) (s : state) (g : ssig S) : bool := sverify S p (enc_state s) g.

  Lemma sig_binds_state (i j : skey S) (s s' : state) :
    state_wf_rs rs s = true -> state_wf_rs rs s' = true ->
    (verify_state (spub S j) s' (sign_state i s) = true <->
     spub S j = spub S i /\ state_equal s' s = true).
  Proof.
    intros Hs Hs'. unfold verify_state, sign_state. split.
    - intro H. apply (sunforgeable S) in H as [Hp He]. split; [exact Hp|].
      apply (state_equal_iff_enc rs); assumption.
    - intros [Hp He]. apply (state_equal_iff_enc rs) in He; try assumption.
      rewrite Hp, He. apply (sverify_sign S).
  Qed.
End SigBinds.

(* non-vacuity: a concrete well-formed state with locked funds and an index map *)
Definition ex_rs : resolver := fun _ => None.
Definition ex_state : state :=
  mkState (repeat Byte.x01 32) 7
    (mkAlloc [0;0] [5;9] [[10;20];[0;3]]%Z [mkSA (repeat Byte.x02 32) [1;2]%Z [0;1]])
    None [] false.
Example ex_state_wf : state_wf_rs ex_rs ex_state = true.
Proof. vm_compute. reflexivity. Qed.
Example ex_state_differs :
  state_equal ex_state (mkState (repeat Byte.x01 32) 7
    (mkAlloc [0;0] [5;9] [[10;20];[0;3]]%Z [mkSA (repeat Byte.x02 32) [1;2]%Z [1;0]]) None [] false) = false.
Proof. vm_compute. reflexivity. Qed.
