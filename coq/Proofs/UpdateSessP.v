(* C06: what one protocol run (from taking the machine mutex to releasing it) does to its party:
   facts about single steps that need no invariant, then the success / rejection theorems. *)
From Coq Require Import Arith PeanoNat ZifyN ZifyNat ZifyBool Lia.
From V Require Import Model.Update Proofs.ChannelP Proofs.MachineP Proofs.UpdateLocalP Proofs.UpdateP.
Open Scope N_scope.

Ltac step_inv H :=
  unfold lstep in H; cbn [label_party] in H;
  repeat match type of H with
         | context [match ctl ?x with _ => _ end] => destruct (ctl x) eqn:?; try discriminate H
         | context [match stage_out ?m ?p ?s with _ => _ end] => destruct (stage_out m p s) as [? ?] eqn:?
         | context [match remove_first ?f ?l with _ => _ end] =>
             destruct (remove_first f l) as [[? ?]|] eqn:?; try discriminate H
         | context [match snd (step ?m ?o) with _ => _ end] => destruct (snd (step m o)) eqn:?
         | context [match step ?m ?o with _ => _ end] => destruct (step m o) as [? ?] eqn:?
         | context [match ?o with OK => _ | OKSig _ => _ | ERR => _ | PANIC => _ end] => destruct o; try discriminate H
         | context [match ?m with MReq _ _ _ _ => _ | MAcc _ _ _ => _ | MRej _ _ => _ end] =>
             destruct m; try discriminate H
         | context [if ?b then _ else _] => destruct b
         end;
  try (injection H as <-).

Ltac simp_getp :=
  repeat first [ rewrite getp_finish | rewrite getp_with_net | rewrite getp_upd_same | rewrite getp_updf_same
               | rewrite getp_upd_other | rewrite getp_updf_other ].

Lemma done_upd s p m c : done (upd s p m c) = done s.
Proof. destruct p; reflexivity. Qed.
Lemma done_updf s p m c : done (upd_full s p m c) = done s.
Proof. destruct p; reflexivity. Qed.
Lemma done_with_net s n : done (with_net s n) = done s.
Proof. reflexivity. Qed.
Lemma done_finish s p st r : done (finish s p st r) = (p, st, r) :: done s.
Proof. reflexivity. Qed.

(* a step of one party leaves the other party's record alone *)
Lemma lstep_other s l s' :
  lstep s l = Some s' -> getp s' (other (label_party l)) = getp s (other (label_party l)).
Proof.
  intro H. destruct l; cbn [label_party]; step_inv H; simp_getp; reflexivity.
Qed.

Lemma fst_step_cur m o m' x :
  step m o = (m', x) ->
  (forall s, o <> OSetProgressed s) -> o <> OEnableInit -> o <> OEnableUpdate -> o <> OEnableFinal ->
  current m' = current m.
Proof.
  intros S H1 H2 H3 H4. replace m' with (fst (step m o)) by (rewrite S; reflexivity).
  apply step_current_unchanged; assumption.
Qed.
Lemma stage_out_cur m p st m' x : stage_out m p st = (m', x) -> current m' = current m.
Proof.
  unfold stage_out. destruct (two_party_ok m st (pidx p) (pidx p)); intro H;
    try (injection H as <- _; reflexivity).
  eapply fst_step_cur; [exact H| | | |]; intros; discriminate.
Qed.
Lemma step_fail_mach m o m' x : step m o = (m', x) -> x = ERR \/ x = PANIC -> m' = m.
Proof.
  intros S H. replace m' with (fst (step m o)) by (rewrite S; reflexivity).
  apply step_fail_noop. rewrite S. exact H.
Qed.

(* ---------- a proposer run ---------- *)
Definition in_prop (c : pc) (st : state) : Prop :=
  match c with
  | PStaged s | PSigned s _ | PWait s | PAcc s _ | PAdded s | PFail s _ => s = st
  | _ => False
  end.

Ltac cur_same :=
  cbn [mc];
  first [ reflexivity
        | eapply fst_step_cur; [eassumption| | | |]; intros; discriminate
        | eapply stage_out_cur; eassumption
        | match goal with S : step ?m ?o = (?m', _) |- current ?m' = current ?m =>
            rewrite (step_fail_mach m o m' _ S) by auto; reflexivity end ].

Lemma prop_session_step s l s' p st :
  lstep s l = Some s' -> (forall st', l <> LStage p st') ->
  in_prop (ctl (getp s' p)) st ->
  in_prop (ctl (getp s p)) st /\ current (mc (getp s' p)) = current (mc (getp s p)).
Proof.
  intros H NS. destruct (pid_cases (label_party l) p) as [E|E].
  - (* the step belongs to p *)
    destruct l; cbn [label_party] in E; subst p0; step_inv H; simp_getp;
      repeat match goal with o : out |- _ => destruct o end;
      try match goal with |- context [on_out (two_party_ok ?a ?b ?c ?d) _ _] => destruct (two_party_ok a b c d) end; cbn [ctl on_out in_prop];
      try (intros []); try (intros ->);
      try (elim (NS _ eq_refl));
      (split; [reflexivity|cur_same]).
  - (* a step of the peer *)
    pose proof (lstep_other s l s' H) as O. rewrite <- E in O. rewrite O. auto.
Qed.

Fixpoint no_stage (p : pid) (ls : list label) : Prop :=
  match ls with
  | [] => True
  | LStage q _ :: r => q <> p /\ no_stage p r
  | _ :: r => no_stage p r
  end.

Lemma prop_session_run ls : forall s s' p st,
  lrun s ls = Some s' -> no_stage p ls -> in_prop (ctl (getp s' p)) st ->
  in_prop (ctl (getp s p)) st /\ current (mc (getp s' p)) = current (mc (getp s p)).
Proof.
  induction ls as [|l ls IH]; intros s s' p st R NS I; cbn in R.
  - injection R as <-. auto.
  - destruct (lstep s l) as [s1|] eqn:E; [|discriminate R].
    assert (NS' : no_stage p ls /\ forall st', l <> LStage p st').
    { destruct l; cbn in NS; try (split; [exact NS|intros; discriminate]).
      destruct NS as [Q NS]. split; [exact NS|]. intros st' X. injection X as -> _. elim Q; reflexivity. }
    destruct NS' as [NS1 NS2].
    destruct (IH s1 s' p st R NS1 I) as [I1 C1].
    destruct (prop_session_step s l s1 p st E NS2 I1) as [I0 C0].
    split; [exact I0|congruence].
Qed.

(* ---------- a responder run up to its decision ---------- *)
Definition in_respq (c : pc) (st : state) : Prop :=
  match c with RGot s _ _ | RChecked s _ _ | RReject s => s = st | _ => False end.

Lemma resp_session_step s l s' q st :
  lstep s l = Some s' -> l <> LDeliver q ->
  in_respq (ctl (getp s' q)) st ->
  in_respq (ctl (getp s q)) st /\ mc (getp s' q) = mc (getp s q).
Proof.
  intros H NS. destruct (pid_cases (label_party l) q) as [E|E].
  - destruct l; cbn [label_party] in E; subst p; step_inv H; simp_getp;
      repeat match goal with o : out |- _ => destruct o end;
      try match goal with |- context [on_out (two_party_ok ?a ?b ?c ?d) _ _] => destruct (two_party_ok a b c d) end; cbn [ctl on_out in_respq mc];
      try (intros []); try (intros ->);
      try (elim NS; reflexivity);
      (split; reflexivity).
  - pose proof (lstep_other s l s' H) as O. rewrite <- E in O. rewrite O. auto.
Qed.

Fixpoint no_deliver (q : pid) (ls : list label) : Prop :=
  match ls with
  | [] => True
  | LDeliver p :: r => p <> q /\ no_deliver q r
  | _ :: r => no_deliver q r
  end.

Lemma resp_session_run ls : forall s s' q st,
  lrun s ls = Some s' -> no_deliver q ls -> in_respq (ctl (getp s' q)) st ->
  in_respq (ctl (getp s q)) st /\ mc (getp s' q) = mc (getp s q).
Proof.
  induction ls as [|l ls IH]; intros s s' q st R NS I; cbn in R.
  - injection R as <-. auto.
  - destruct (lstep s l) as [s1|] eqn:E; [|discriminate R].
    assert (NS' : no_deliver q ls /\ l <> LDeliver q).
    { destruct l; cbn in NS; try (split; [exact NS|discriminate]).
      destruct NS as [Q NS]. split; [exact NS|]. intro X. injection X as ->. elim Q; reflexivity. }
    destruct NS' as [NS1 NS2].
    destruct (IH s1 s' q st R NS1 I) as [I1 C1].
    destruct (resp_session_step s l s1 q st E NS2 I1) as [I0 C0].
    split; [exact I0|congruence].
Qed.

Section Channel.
  Variable P : mparams.
  Variables k0 k1 : N.
  Hypothesis HP : mp_parts P = [k0; k1].

  Notation sigof := (sigof k0 k1).
  Notation sig_ok := (sig_ok k0 k1).
  Notation mkm := (mkm P).
  Notation fs2 := (fs2 k0 k1).
  Notation GI := (GI P k0 k1).
  Notation LIc := (LIc P k0 k1).
  Notation reachable := (reachable P).
  Notation good_init := (good_init k0 k1).

  (* the transaction a party holds after enabling st *)
  Definition holds (s : sys) (p : pid) (st : state) : Prop :=
    exists c, current (mc (getp s p)) = Some c /\ tx_st c = st /\ fully_signed (mc (getp s p)) c.

  Lemma holds_of_LI s p st :
    GI s -> cur_state s p = Some st -> holds s p st.
  Proof.
    intros G Cs. destruct (gi_li _ _ _ s G p) as (c & F & _ & _ & L).
    pose proof (LIc_current P k0 k1 p _ c L) as Cur. unfold cur_state in Cs. rewrite Cur in Cs. injection Cs as Cs.
    exists c. split; [exact Cur|]. split; [exact Cs|].
    destruct (LIc_shape P k0 k1 p _ c L) as (f & stg & ->). apply (fs2_fully_signed P k0 k1 HP). exact F.
  Qed.

  (* ---------- success ---------- *)
  Theorem success_GI s p st s' :
    GI s -> ctl (getp s p) = PAdded st -> lstep s (LPEnable p) = Some s' ->
    done s' = (p, st, RSuccess) :: done s /\ ctl (getp s' p) = Idle /\ holds s' p st /\
    (holds s' (other p) st \/
     (ctl (getp s' (other p)) = RSent st /\
      exists s'', lstep s' (LREnable (other p)) = Some s'' /\ ctl (getp s'' (other p)) = Idle
                  /\ holds s'' (other p) st /\ getp s'' p = getp s' p)).
  Proof.
    intros G C H. pose proof (GI_step P k0 k1 HP s _ s' G H) as G'.
    destruct (gi_li _ _ _ s G p) as (c & F & V & Hin & L). unfold UpdateP.LIc in L. rewrite C in L.
    destruct L as (g & M & SU & E & SO & Hst).
    pose proof (gi_dir _ _ _ s G p) as D. unfold Dir in D. rewrite C in D. destruct D as [_ CM].
    unfold lstep in H. cbn [label_party] in H. rewrite C, M in H. rewrite (op_enable P) in H. injection H as <-.
    split; [rewrite done_finish, done_upd; reflexivity|]. rewrite !getp_finish, getp_upd_same, getp_upd_other. cbn [ctl].
    split; [reflexivity|]. split.
    - apply (holds_of_LI _ p st G'). unfold cur_state. rewrite getp_finish, getp_upd_same. reflexivity.
    - destruct CM as [_ [CQ|[_ CQ]]].
      + right. split; [exact CQ|].
        set (s1 := finish _ _ _ _) in *.
        assert (CQ1 : ctl (getp s1 (other p)) = RSent st)
          by (unfold s1; rewrite getp_finish, getp_upd_other; exact CQ).
        destruct (gi_li _ _ _ s1 G' (other p)) as (cq & Fq & Vq & Hinq & Lq). unfold UpdateP.LIc in Lq.
        rewrite CQ1 in Lq. destruct Lq as (gq & Mq & SUq & SOq & Hstq).
        destruct (lstep s1 (LREnable (other p))) as [s2|] eqn:H2.
        * exists s2. split; [reflexivity|].
          pose proof (GI_step P k0 k1 HP s1 _ s2 G' H2) as G2.
          pose proof (lstep_other s1 _ s2 H2) as O. cbn [label_party] in O. rewrite other_other in O.
          unfold lstep in H2. cbn [label_party] in H2. rewrite CQ1, Mq in H2. rewrite (op_enable P) in H2.
          injection H2 as <-. rewrite getp_upd_same. cbn [ctl on_out].
          split; [reflexivity|]. split; [|rewrite O; unfold s1; rewrite getp_finish, getp_upd_same; reflexivity].
          apply (holds_of_LI _ (other p) st G2). unfold cur_state. rewrite getp_upd_same. reflexivity.
        * exfalso. unfold lstep in H2. cbn [label_party] in H2. rewrite CQ1 in H2.
          destruct (step _ _); discriminate H2.
      + left. apply (holds_of_LI _ (other p) st G').
        unfold cur_state. rewrite getp_finish, getp_upd_other. exact CQ.
  Qed.

  (* Channel.Update returns nil only through this step *)
  Lemma success_only_enable s l s' p st :
    GI s -> lstep s l = Some s' -> done s' = (p, st, RSuccess) :: done s ->
    l = LPEnable p /\ ctl (getp s p) = PAdded st.
  Proof.
    intros G H D.
    assert (NE : forall (A : Type) (x : A) (l0 : list A), l0 <> x :: l0).
    { intros A x l0 X. apply (f_equal (@length _)) in X. cbn in X. lia. }
    destruct l; step_inv H;
      rewrite ?done_finish, ?done_with_net, ?done_upd, ?done_updf in D;
      try (elim (NE _ _ _ D));
      try (injection D as <- <-; split; [reflexivity|assumption]);
      try (injection D as _ _ X; discriminate X).
    exfalso. injection D as -> -> ->.
    destruct (gi_li _ _ _ s G p) as (c & _ & _ & _ & L). unfold UpdateP.LIc in L.
    match goal with C : ctl (getp s p) = PFail _ _ |- _ => rewrite C in L end.
    destruct L as [L _]. elim L; reflexivity.
  Qed.

  (* ---------- rejection ---------- *)
  Theorem reject_proposer_GI s0 p st s1 ls s2 s3 :
    GI s0 -> lstep s0 (LStage p st) = Some s1 -> lrun s1 ls = Some s2 -> no_stage p ls ->
    ctl (getp s2 p) = PFail st RRejected -> lstep s2 (LDiscard p) = Some s3 ->
    done s3 = (p, st, RRejected) :: done s2 /\
    current (mc (getp s3 p)) = current (mc (getp s0 p)) /\
    ctl (getp s3 p) = Idle /\ ph (mc (getp s3 p)) = Acting /\ staging (mc (getp s3 p)) = None.
  Proof.
    intros G0 H0 R NS C2 H3.
    pose proof (GI_step P k0 k1 HP s0 _ s1 G0 H0) as G1.
    pose proof (GI_run P k0 k1 HP s1 ls s2 G1 R) as G2.
    destruct (prop_session_run ls s1 s2 p st R NS) as [_ C12]; [rewrite C2; reflexivity|].
    assert (C01 : current (mc (getp s1 p)) = current (mc (getp s0 p))).
    { step_inv H0. simp_getp. cbn [mc]. eapply stage_out_cur. eassumption. }
    destruct (gi_li _ _ _ s2 G2 p) as (c & _ & _ & _ & L). unfold UpdateP.LIc in L. rewrite C2 in L.
    destruct L as (_ & o1 & M & _).
    unfold lstep in H3. cbn [label_party] in H3. rewrite C2, M in H3. rewrite op_discard in H3.
    injection H3 as <-. rewrite done_finish, done_upd, getp_finish, getp_upd_same. cbn [mc ctl fst mkm ph staging current].
    split; [reflexivity|]. split; [|auto].
    rewrite <- C01, <- C12, M. reflexivity.
  Qed.

  Lemma reject_acting s q st :
    GI s -> ctl (getp s q) = RReject st ->
    ph (mc (getp s q)) = Acting /\ staging (mc (getp s q)) = None.
  Proof.
    intros G C.
    destruct (resp_handling P k0 k1 s q G) as (st0 & CY & DY & HY); [rewrite C; reflexivity|].
    destruct (gi_li _ _ _ s G q) as (c & _ & _ & _ & L). unfold UpdateP.LIc in L. rewrite C in L.
    destruct (gi_li _ _ _ s G (other q)) as (cY & _ & _ & _ & LY). unfold UpdateP.LIc in LY. rewrite CY in LY.
    destruct LY as (MY & [VTY _] & _).
    pose proof (sync_sym s q (gi_sync _ _ _ s G)) as Sy. unfold eff in Sy. rewrite C, CY, DY in Sy.
    cbn [has_acc existsb] in Sy. unfold cur_state in Sy. rewrite MY in Sy. cbn [UpdateLocalP.mkm current option_map] in Sy.
    pose proof (vtc_ok_succ P cY st0 _ VTY) as [FinY _].
    destruct L as [[M Fin]|[M Fin]]; rewrite M in Sy |- *; cbn [UpdateLocalP.mkm current option_map ph staging] in Sy |- *.
    - auto.
    - exfalso. injection Sy as Sy. rewrite Sy in Fin. congruence.
  Qed.

  Theorem reject_responder_GI s0 q st s1 ls s2 s3 :
    GI s0 -> lstep s0 (LDeliver q) = Some s1 -> lrun s1 ls = Some s2 -> no_deliver q ls ->
    ctl (getp s2 q) = RReject st -> lstep s2 (LRSendRej q) = Some s3 ->
    mc (getp s3 q) = mc (getp s0 q) /\ ctl (getp s3 q) = Idle /\
    ph (mc (getp s3 q)) = Acting /\ staging (mc (getp s3 q)) = None.
  Proof.
    intros G0 H0 R NS C2 H3.
    pose proof (GI_step P k0 k1 HP s0 _ s1 G0 H0) as G1.
    pose proof (GI_run P k0 k1 HP s1 ls s2 G1 R) as G2.
    destruct (resp_session_run ls s1 s2 q st R NS) as [_ C12]; [rewrite C2; reflexivity|].
    assert (C01 : mc (getp s1 q) = mc (getp s0 q)).
    { step_inv H0. simp_getp. reflexivity. }
    destruct (reject_acting s2 q st G2 C2) as [PH SG].
    unfold lstep in H3. cbn [label_party] in H3. rewrite C2 in H3. injection H3 as <-.
    rewrite getp_with_net, getp_upd_same. cbn [mc ctl].
    split; [congruence|]. auto.
  Qed.
End Channel.

(* ---------- several channels: every component of a multi-channel run is a run of the one-channel LTS ---------- *)
Lemma lrun_app s ls s1 l s2 : lrun s ls = Some s1 -> lstep s1 l = Some s2 -> lrun s (ls ++ [l]) = Some s2.
Proof.
  revert s; induction ls as [|x ls IH]; intros s R H; cbn in R |- *.
  - injection R as ->. rewrite H. reflexivity.
  - destruct (lstep s x) as [s'|]; [|discriminate R]. apply IH; assumption.
Qed.
Lemma mstep_components ms i l ms' :
  mstep ms i l = Some ms' ->
  Forall2 (fun s s' => s' = s \/ lstep s l = Some s') ms ms'.
Proof.
  revert i ms'; induction ms as [|s r IH]; intros i ms' H; cbn in H; [discriminate|].
  destruct i as [|i].
  - destruct (lstep s l) as [s'|] eqn:E; [|discriminate H]. injection H as <-.
    constructor; [right; exact E|]. clear. induction r; constructor; auto.
  - destruct (mstep r i l) as [r'|] eqn:E; [|discriminate H]. injection H as <-.
    constructor; [left; reflexivity|]. apply (IH i r' E).
Qed.
Theorem mrun_components ls : forall ms ms',
  mrun ms ls = Some ms' -> Forall2 (fun s s' => exists ls', lrun s ls' = Some s') ms ms'.
Proof.
  induction ls as [|[i l] ls IH]; intros ms ms' H; cbn in H.
  - injection H as <-. induction ms; constructor; auto. exists []. reflexivity.
  - destruct (mstep ms i l) as [ms1|] eqn:E; [|discriminate H].
    pose proof (mstep_components ms i l ms1 E) as F1. pose proof (IH ms1 ms' H) as F2. clear E H IH.
    revert ms' F2. induction F1 as [|s s1 r r1 H1 F1 IHF]; intros ms' F2; inversion F2; subst; constructor.
    + match goal with H : exists _, lrun s1 _ = Some _ |- _ => destruct H as (ls' & R) end.
      destruct H1 as [->|H1]; [exists ls'; exact R|]. exists (l :: ls'). cbn. rewrite H1. exact R.
    + apply IHF. assumption.
Qed.
