(* C06: what one protocol run (from taking the machine mutex to releasing it) does to its party:
   facts about single steps that need no invariant, then the success / rejection theorems. *)
From Coq Require Import Arith PeanoNat ZifyN ZifyNat ZifyBool Lia.
From V Require Import Model.Update Proofs.ChannelP Proofs.MachineP Proofs.UpdateLocalP Proofs.UpdateP.
Open Scope N_scope.

Ltac step_inv H :=
  unfold lstep in H; cbn [label_party] in H;
  repeat match type of H with
         | context [match ctl ?x with _ => _ end] => destruct (ctl x) eqn:?; try discriminate H
         | context [match stage_out ?m ?p ?s with _ => _ end] => destruct (stage_out m p s) as [? ?] eqn:?
         | context [match remove_first ?f ?l with _ => _ end] =>
             destruct (remove_first f l) as [[? ?]|] eqn:?; try discriminate H
         | context [match snd (step ?m ?o) with _ => _ end] => destruct (snd (step m o)) eqn:?
         | context [match step ?m ?o with _ => _ end] => destruct (step m o) as [? ?] eqn:?
         | context [match ?o with OK => _ | OKSig _ => _ | ERR => _ | PANIC => _ end] => destruct o; try discriminate H
         | context [match ?m with MReq _ _ _ _ => _ | MAcc _ _ _ => _ | MRej _ _ => _ end] =>
             destruct m; try discriminate H
         | context [if ?b then _ else _] => destruct b
         end;
  try (injection H as <-).

Ltac simp_getp :=
  repeat first [ rewrite getp_finish | rewrite getp_with_net | rewrite getp_upd_same | rewrite getp_updf_same
               | rewrite getp_upd_other | rewrite getp_updf_other ].

(* a step of one party leaves the other party's record alone *)
Lemma lstep_other s l s' :
  lstep s l = Some s' -> getp s' (other (label_party l)) = getp s (other (label_party l)).
Proof.
  intro H. destruct l; cbn [label_party]; step_inv H; simp_getp; reflexivity.
Qed.

Lemma fst_step_cur m o m' x :
  step m o = (m', x) ->
  (forall s, o <> OSetProgressed s) -> o <> OEnableInit -> o <> OEnableUpdate -> o <> OEnableFinal ->
  current m' = current m.
Proof.
  intros S H1 H2 H3 H4. replace m' with (fst (step m o)) by (rewrite S; reflexivity).
  apply step_current_unchanged; assumption.
Qed.
Lemma stage_out_cur m p st m' x : stage_out m p st = (m', x) -> current m' = current m.
Proof.
  unfold stage_out. destruct (two_party_ok m st (pidx p) (pidx p)); intro H;
    try (injection H as <- _; reflexivity).
  eapply fst_step_cur; [exact H| | | |]; intros; discriminate.
Qed.
Lemma step_fail_mach m o m' x : step m o = (m', x) -> x = ERR \/ x = PANIC -> m' = m.
Proof.
  intros S H. replace m' with (fst (step m o)) by (rewrite S; reflexivity).
  apply step_fail_noop. rewrite S. exact H.
Qed.

(* ---------- a proposer run ---------- *)
Definition in_prop (c : pc) (st : state) : Prop :=
  match c with
  | PStaged s | PSigned s _ | PWait s | PAcc s _ | PAdded s | PFail s _ => s = st
  | _ => False
  end.

Ltac cur_same :=
  cbn [mc];
  first [ reflexivity
        | eapply fst_step_cur; [eassumption| | | |]; intros; discriminate
        | eapply stage_out_cur; eassumption
        | match goal with S : step ?m ?o = (?m', _) |- current ?m' = current ?m =>
            rewrite (step_fail_mach m o m' _ S) by auto; reflexivity end ].

Lemma prop_session_step s l s' p st :
  lstep s l = Some s' -> (forall st', l <> LStage p st') ->
  in_prop (ctl (getp s' p)) st ->
  in_prop (ctl (getp s p)) st /\ current (mc (getp s' p)) = current (mc (getp s p)).
Proof.
  intros H NS. destruct (pid_cases (label_party l) p) as [E|E].
  - (* the step belongs to p *)
    destruct l; cbn [label_party] in E; subst p0; step_inv H; simp_getp;
      repeat match goal with o : out |- _ => destruct o end;
      try match goal with |- context [on_out (two_party_ok ?a ?b ?c ?d) _ _] => destruct (two_party_ok a b c d) end; cbn [ctl on_out in_prop];
      try (intros []); try (intros ->);
      try (elim (NS _ eq_refl));
      match goal with
      | C : ctl (getp s p) = _ |- _ => rewrite C; cbn [in_prop]; split; [reflexivity|cur_same]
      end.
  - (* a step of the peer *)
    pose proof (lstep_other s l s' H) as O. rewrite <- E in O. rewrite O. auto.
Qed.

Fixpoint no_stage (p : pid) (ls : list label) : Prop :=
  match ls with
  | [] => True
  | LStage q _ :: r => q <> p /\ no_stage p r
  | _ :: r => no_stage p r
  end.

Lemma prop_session_run ls : forall s s' p st,
  lrun s ls = Some s' -> no_stage p ls -> in_prop (ctl (getp s' p)) st ->
  in_prop (ctl (getp s p)) st /\ current (mc (getp s' p)) = current (mc (getp s p)).
Proof.
  induction ls as [|l ls IH]; intros s s' p st R NS I; cbn in R.
  - injection R as <-. auto.
  - destruct (lstep s l) as [s1|] eqn:E; [|discriminate R].
    assert (NS' : no_stage p ls /\ forall st', l <> LStage p st').
    { destruct l; cbn in NS; try (split; [exact NS|intros; discriminate]).
      destruct NS as [Q NS]. split; [exact NS|]. intros st' X. injection X as -> _. elim Q; reflexivity. }
    destruct NS' as [NS1 NS2].
    destruct (IH s1 s' p st R NS1 I) as [I1 C1].
    destruct (prop_session_step s l s1 p st E NS2 I1) as [I0 C0].
    split; [exact I0|congruence].
Qed.

(* ---------- a responder run up to its decision ---------- *)
Definition in_respq (c : pc) (st : state) : Prop :=
  match c with RGot s _ _ | RChecked s _ _ | RReject s => s = st | _ => False end.

Lemma resp_session_step s l s' q st :
  lstep s l = Some s' -> l <> LDeliver q ->
  in_respq (ctl (getp s' q)) st ->
  in_respq (ctl (getp s q)) st /\ mc (getp s' q) = mc (getp s q).
Proof.
  intros H NS. destruct (pid_cases (label_party l) q) as [E|E].
  - destruct l; cbn [label_party] in E; subst p; step_inv H; simp_getp;
      repeat match goal with o : out |- _ => destruct o end;
      try match goal with |- context [on_out (two_party_ok ?a ?b ?c ?d) _ _] => destruct (two_party_ok a b c d) end; cbn [ctl on_out in_respq mc];
      try (intros []); try (intros ->);
      try (elim NS; reflexivity);
      match goal with
      | C : ctl (getp s q) = _ |- _ => rewrite C; cbn [in_respq]; split; reflexivity
      end.
  - pose proof (lstep_other s l s' H) as O. rewrite <- E in O. rewrite O. auto.
Qed.

Fixpoint no_deliver (q : pid) (ls : list label) : Prop :=
  match ls with
  | [] => True
  | LDeliver p :: r => p <> q /\ no_deliver q r
  | _ :: r => no_deliver q r
  end.

Lemma resp_session_run ls : forall s s' q st,
  lrun s ls = Some s' -> no_deliver q ls -> in_respq (ctl (getp s' q)) st ->
  in_respq (ctl (getp s q)) st /\ mc (getp s' q) = mc (getp s q).
Proof.
  induction ls as [|l ls IH]; intros s s' q st R NS I; cbn in R.
  - injection R as <-. auto.
  - destruct (lstep s l) as [s1|] eqn:E; [|discriminate R].
    assert (NS' : no_deliver q ls /\ l <> LDeliver q).
    { destruct l; cbn in NS; try (split; [exact NS|discriminate]).
      destruct NS as [Q NS]. split; [exact NS|]. intro X. injection X as ->. elim Q; reflexivity. }
    destruct NS' as [NS1 NS2].
    destruct (IH s1 s' q st R NS1 I) as [I1 C1].
    destruct (resp_session_step s l s1 q st E NS2 I1) as [I0 C0].
    split; [exact I0|congruence].
Qed.
