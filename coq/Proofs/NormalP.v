(* Whatever a native decoder accepts is a well-formed value, for EVERY input byte string (not only
   for encoder output); with the round-trip theorems this gives normalisation: the canonical
   re-encoding of a decoded value decodes to the same value.  The decoders accept non-canonical
   bytes (leading zero bytes of a big integer, any non-zero byte as `true`), so the bytes
   themselves are not reproduced in general - a witness is proved below. *)
From Coq Require Import Arith Lia ZifyN ZifyNat ZifyBool.
From V Require Import Model.Channel Model.Msgs Proofs.WireP Proofs.ChannelP Proofs.SafeP Proofs.CodecP.
Open Scope N_scope.

Definition ensures {A} (P : A -> Prop) (p : prog A) : Prop :=
  forall bs v r, run_flat p bs = Ok (v, r) -> P v.

Lemma ens_ret {A} (P : A -> Prop) a : P a -> ensures P (Ret a).
Proof. intros H bs v r E. cbn in E. injection E as <- _. exact H. Qed.
Lemma ens_fail {A} (P : A -> Prop) : ensures P Fail.
Proof. intros bs v r E. discriminate E. Qed.
Lemma ens_alloc {A} (P : A -> Prop) n k : ensures P k -> ensures P (Alloc n k).
Proof. intros H bs v r E. exact (H bs v r E). Qed.
Lemma ens_weaken {A} (P Q : A -> Prop) p : (forall a, P a -> Q a) -> ensures P p -> ensures Q p.
Proof. intros W H bs v r E. apply W. exact (H bs v r E). Qed.
Lemma ens_bind {A B} (P : A -> Prop) (Q : B -> Prop) p (f : A -> prog B) :
  ensures P p -> (forall a, P a -> ensures Q (f a)) -> ensures Q (bind p f).
Proof.
  intros Hp Hf bs v r E. apply bind_ok in E as (a & r1 & Ea & Ef).
  exact (Hf a (Hp _ _ _ Ea) _ _ _ Ef).
Qed.
Lemma ens_if {A} (P : A -> Prop) (c : bool) p q :
  (c = true -> ensures P p) -> (c = false -> ensures P q) -> ensures P (if c then p else q).
Proof. destruct c; intros H1 H2; [apply H1|apply H2]; reflexivity. Qed.

(* ---- primitives ---- *)
Lemma read_full_ok {A} n (k : bytes -> prog A) bs v r :
  run_flat (Read true n k) bs = Ok (v, r) ->
  exists a rest, length a = n /\ run_flat (k a) rest = Ok (v, r).
Proof.
  cbn [run_flat]. destruct (Nat.leb_spec n (length bs)) as [L|L]; [|discriminate].
  intro E. exists (firstn n bs), (skipn n bs). split; [apply List.firstn_length_le; exact L|exact E].
Qed.
Lemma ens_uint k : ensures (fun n => n < 256 ^ N.of_nat k) (dec_uint k).
Proof.
  intros bs v r E. unfold dec_uint in E. apply read_full_ok in E as (a & rest & La & E).
  cbn in E. injection E as <- _. rewrite <- La. apply dec_le_bound.
Qed.
Lemma ens_u16 : ensures (fun n => n < 65536) dec_u16.
Proof. exact (ens_uint 2). Qed.
Lemma ens_u32 : ensures (fun n => n < 4294967296) dec_u32.
Proof. exact (ens_uint 4). Qed.
Lemma ens_u64 : ensures (fun n => n < 18446744073709551616) dec_u64.
Proof. exact (ens_uint 8). Qed.
Lemma ens_fixed n : ensures (fun b => length b = n) (dec_fixed n).
Proof.
  intros bs v r E. unfold dec_fixed in E. apply read_full_ok in E as (a & rest & La & E).
  cbn in E. injection E as <- _. exact La.
Qed.
Lemma ens_any {A} (p : prog A) : ensures (fun _ => True) p.
Proof. intros bs v r _. exact I. Qed.

Lemma dec_be_bound bs : dec_be bs < 256 ^ N.of_nat (length bs).
Proof. unfold dec_be. rewrite <- rev_length. apply dec_le_bound. Qed.
Lemma nbytes_le n k : n < 256 ^ N.of_nat k -> (nbytes n <= k)%nat.
Proof.
  intro H. unfold nbytes. destruct (N.eqb_spec n 0) as [->|Hn]; [lia|].
  rewrite pow256 in H.
  assert (L : N.log2 n < 8 * N.of_nat k) by (apply N.log2_lt_pow2; lia).
  assert (D : N.log2 n / 8 < N.of_nat k).
  { apply N.div_lt_upper_bound; [discriminate|]. exact L. }
  remember (N.log2 n / 8) as q eqn:Hq. clear Hq L H. lia.
Qed.
Lemma ens_bigint : ensures (fun z => bigint_encodable z = true) dec_bigint.
Proof.
  intros bs v r E. unfold dec_bigint in E. cbn [run_flat] in E. destruct bs as [|b bs']; [discriminate|].
  cbv zeta in E. destruct (N.ltb_spec MaxBigIntLength (dec_le (firstn 1 (b :: bs')))) as [L|L]; [discriminate|].
  apply read_full_ok in E as (a & rest & La & E). cbn in E. injection E as <- _.
  unfold bigint_encodable. rewrite N2Z.id.
  pose proof (nbytes_le (dec_be a) (length a) (dec_be_bound a)) as Nb.
  apply andb_true_intro; split; [lia|]. apply N.leb_le. lia.
Qed.
Lemma ens_marsh : ensures (fun b => N.of_nat (length b) < 65536) dec_marsh.
Proof.
  unfold dec_marsh. eapply ens_bind; [exact ens_u16|]. intros l Hl. cbn beta in *. apply ens_alloc.
  intros bs v r E. apply read_full_ok in E as (a & rest & La & E). cbn in E. injection E as <- _. lia.
Qed.
Lemma ens_dec_n {A} (P : A -> Prop) n (d : prog A) :
  ensures P d -> ensures (fun l => length l = n /\ Forall P l) (dec_n n d).
Proof.
  intro H. induction n as [|n IH]; cbn [dec_n].
  - apply ens_ret. split; [reflexivity|constructor].
  - eapply ens_bind; [exact H|]. intros x Px. cbn beta in *. eapply ens_bind; [exact IH|]. intros xs [Lx Fx]. cbn beta in *.
    apply ens_ret. split; [cbn; lia|constructor; assumption].
Qed.

(* ---- sub-allocations, balances, allocations, states ---- *)
Lemma forall_forallb {A} (f : A -> bool) l : Forall (fun x => f x = true) l -> forallb f l = true.
Proof. intro H. apply forallb_forall. apply Forall_forall. exact H. Qed.

Lemma dec_suballoc_wf : ensures (fun s => suballoc_wf s = true) dec_suballoc.
Proof.
  unfold dec_suballoc. eapply ens_bind; [exact (ens_fixed 32)|]. intros id Hid. cbn beta in *.
  eapply ens_bind; [exact ens_u16|]. intros n Hn. cbn beta in *.
  apply ens_if; intro Cn; [apply ens_fail|]. apply ens_alloc.
  eapply ens_bind; [exact (ens_dec_n _ (N.to_nat n) _ ens_bigint)|]. intros bals [Lb Fb]. cbn beta in *.
  eapply ens_bind; [exact ens_u16|]. intros l Hl. cbn beta in *. apply ens_alloc.
  eapply ens_bind; [exact (ens_dec_n _ (N.to_nat l) _ ens_u16)|]. intros im [Li Fi]. cbn beta in *.
  cbv zeta. apply ens_if; intro V; [|apply ens_fail]. apply ens_ret.
  unfold suballoc_wf, bigints_ok, len. cbn [sa_id sa_bals sa_imap].
  apply N.ltb_ge in Cn.
  rewrite Hid, Lb, Li. rewrite !N2Nat.id.
  repeat (apply andb_true_intro; split); try reflexivity; try (apply N.leb_le; lia); try (apply N.ltb_lt; lia).
  - apply forall_forallb. exact Fb.
  - apply forall_forallb. eapply Forall_impl; [|exact Fi]. intros x Hx. apply N.ltb_lt. exact Hx.
Qed.

Lemma dec_balances_wf : ensures (fun b => balances_wf b = true) dec_balances.
Proof.
  unfold dec_balances. eapply ens_bind; [exact ens_u16|]. intros na Hna. cbn beta in *.
  eapply ens_bind; [exact ens_u16|]. intros np Hnp. cbn beta in *.
  apply ens_if; intro Ca; [apply ens_fail|]. apply ens_if; intro Cp; [apply ens_fail|].
  apply ens_alloc. apply N.ltb_ge in Ca, Cp.
  eapply ens_weaken; [|exact (ens_dec_n _ (N.to_nat na) _ (ens_dec_n _ (N.to_nat np) _ ens_bigint))].
  intros b [Lb Fb]. unfold balances_wf, len. rewrite Lb, N2Nat.id.
  assert (Np : b = [] \/ num_parts b = np).
  { destruct b as [|r0 b']; [left; reflexivity|right]. inversion Fb as [|? ? [Lr _] _]; subst.
    cbn [num_parts]. unfold len. rewrite Lr. apply N2Nat.id. }
  repeat (apply andb_true_intro; split); try (apply N.leb_le; lia).
  - destruct Np as [Np|Np]; rewrite Np; [reflexivity|apply N.leb_le; lia].
  - apply forall_forallb. destruct Np as [Np|Np]; [rewrite Np; constructor|].
    eapply Forall_impl; [|exact Fb]. intros r [Lr Fr]. cbn beta.
    apply andb_true_intro; split.
    + apply N.eqb_eq. rewrite Np. unfold len. rewrite Lr. apply N2Nat.id.
    + unfold bigints_ok. apply forall_forallb. exact Fr.
Qed.

Lemma dec_asset_bound : ensures (fun a => a < 18446744073709551616) dec_asset.
Proof.
  unfold dec_asset. eapply ens_bind; [exact (ens_any _)|]. intros bs _. cbn beta in *.
  apply ens_if; intro L; [|apply ens_fail]. apply ens_ret.
  apply Nat.eqb_eq in L. pose proof (dec_be_bound bs) as B. rewrite L in B. exact B.
Qed.

Lemma dec_alloc_wf : ensures (fun a => alloc_wf a = true) dec_alloc.
Proof.
  unfold dec_alloc. eapply ens_bind; [exact ens_u16|]. intros na Hna. cbn beta in *.
  eapply ens_bind; [exact ens_u16|]. intros np Hnp. cbn beta in *. eapply ens_bind; [exact ens_u16|]. intros nl Hnl. cbn beta in *.
  apply ens_if; intro C; [apply ens_fail|]. apply ens_alloc.
  eapply ens_bind.
  { apply (ens_dec_n (fun p : N * N => known_backend (fst p) = true /\ snd p < 18446744073709551616) (N.to_nat na)).
    eapply ens_bind; [exact (ens_any _)|]. intros b _. cbn beta in *. apply ens_if; intro Kb; [|apply ens_fail].
    eapply ens_bind; [exact dec_asset_bound|]. intros a Ha. cbn beta in *. apply ens_ret. split; assumption. }
  intros pairs [Lp Fp]. cbn beta in *. eapply ens_bind; [exact dec_balances_wf|]. intros bals Wb. cbn beta in *. apply ens_alloc.
  eapply ens_bind; [exact (ens_dec_n _ (N.to_nat nl) _ dec_suballoc_wf)|]. intros locked [Ll Fl]. cbn beta in *.
  cbv zeta. apply ens_if; intro V; [|apply ens_fail]. apply ens_ret.
  unfold alloc_wf. cbn [al_backends al_assets al_bals al_locked]. rewrite V, Wb.
  repeat (apply andb_true_intro; split); try reflexivity.
  - unfold len. rewrite !map_length. apply N.eqb_refl.
  - apply forall_forallb. apply Forall_map. eapply Forall_impl; [|exact Fp]. intros p [K _]. exact K.
  - apply forall_forallb. apply Forall_map. eapply Forall_impl; [|exact Fp]. intros p [_ K]. apply N.ltb_lt. exact K.
  - apply forall_forallb. exact Fl.
Qed.

Lemma dec_optapp_wf rs : ensures (fun o => match o with None => True
    | Some (d, k) => length d = addr_len /\ rs d = Some k end) (dec_optapp rs).
Proof.
  unfold dec_optapp. eapply ens_bind; [exact (ens_any _)|]. intros has _. cbn beta in *.
  apply ens_if; intro Hh; [apply ens_ret; exact I|].
  eapply ens_bind; [exact (ens_any _)|]. intros d _. cbn beta in *.
  apply ens_if; intro L; [apply ens_fail|].
  destruct (rs d) as [k|] eqn:R; [|apply ens_fail]. apply ens_ret.
  apply negb_false_iff, Nat.eqb_eq in L. split; assumption.
Qed.

Lemma dec_state_wf rs : ensures (fun s => state_wf_rs rs s = true) (dec_state rs).
Proof.
  unfold dec_state. eapply ens_bind; [exact (ens_fixed 32)|]. intros id Hid. cbn beta in *.
  eapply ens_bind; [exact ens_u64|]. intros v Hv. cbn beta in *.
  eapply ens_bind; [exact dec_alloc_wf|]. intros a Wa. cbn beta in *.
  eapply ens_bind; [exact (ens_any _)|]. intros f _. cbn beta in *.
  eapply ens_bind; [exact (dec_optapp_wf rs)|]. intros app Happ. cbn beta in *.
  eapply ens_bind.
  { instantiate (1 := fun d => match option_map snd app with
        | Some KMock => length d = 8%nat | _ => d = [] end).
    unfold dec_data. eapply ens_bind; [exact (ens_any _)|]. intros bs _. cbn beta in *.
    destruct (option_map snd app) as [[|]|]; try (apply ens_ret; reflexivity).
    apply ens_if; intro L; [apply ens_ret; apply Nat.eqb_eq; exact L|apply ens_fail]. }
  intros d Hd. cbn beta in *. apply ens_ret.
  unfold state_wf_rs, state_wf, data_ok, len. cbn [st_id st_ver st_alloc st_app st_data]. rewrite Hid, Wa.
  assert (Vb : (v <? 18446744073709551616) = true) by (apply N.ltb_lt; exact Hv). rewrite Vb.
  destruct app as [[def k]|]; cbn [option_map fst snd] in *.
  - destruct Happ as [Ld Rk]. rewrite Ld, Rk, Nat.eqb_refl.
    destruct k; [subst d|rewrite Hd]; reflexivity.
  - subst d. reflexivity.
Qed.

(* ---- signatures, transactions ---- *)
Lemma dec_sig_slots_wf bits :
  ensures (fun sg => length sg = length bits /\ sigs_wf sg = true) (dec_sig_slots bits).
Proof.
  induction bits as [|b bits IH]; cbn [dec_sig_slots].
  - apply ens_ret. split; reflexivity.
  - destruct b.
    + eapply ens_bind; [exact (ens_fixed sig_len)|]. intros sg Hs. cbn beta in *.
      eapply ens_bind; [exact IH|]. intros rest [Lr Wr]. apply ens_ret. split; [cbn; lia|].
      cbn [sigs_wf forallb]. fold (sigs_wf rest). rewrite Hs, Nat.eqb_refl, Wr. reflexivity.
    + eapply ens_bind; [exact IH|]. intros rest [Lr Wr]. apply ens_ret. split; [cbn; lia|].
      cbn [sigs_wf forallb]. fold (sigs_wf rest). exact Wr.
Qed.
Lemma bits_of_byte_length b : length (bits_of_byte b) = 8%nat.
Proof. reflexivity. Qed.
Lemma flat_bits_length mask : length (flat_map bits_of_byte mask) = (8 * length mask)%nat.
Proof. induction mask as [|b m IH]; [reflexivity|]. cbn [flat_map]. rewrite app_length, IH, bits_of_byte_length. cbn [length]. lia. Qed.
Lemma mask_len_enough n : (n <= 8 * mask_len n)%nat.
Proof.
  unfold mask_len. pose proof (Nat.div_mod (n + 7) 8 ltac:(discriminate)) as D.
  pose proof (Nat.mod_upper_bound (n + 7) 8 ltac:(discriminate)) as U. lia.
Qed.
Lemma dec_sigs_wf n : ensures (fun sg => length sg = n /\ sigs_wf sg = true) (dec_sigs n).
Proof.
  unfold dec_sigs. eapply ens_bind; [exact (ens_fixed (mask_len n))|]. intros mask Hm. cbn beta in *.
  eapply ens_weaken; [|exact (dec_sig_slots_wf _)]. intros sg [L W]. split; [|exact W].
  rewrite L. apply List.firstn_length_le. rewrite flat_bits_length, Hm. apply mask_len_enough.
Qed.

Lemma dec_tx_wf rs : ensures (fun t => tx_wf rs t = true) (dec_tx rs).
Proof.
  unfold dec_tx. eapply ens_bind; [exact (ens_any _)|]. intros b _.
  apply ens_if; intro B0; [apply ens_ret; reflexivity|].
  apply ens_if; intro B1; [|apply ens_fail].
  eapply ens_bind; [exact (dec_state_wf rs)|]. intros s Ws. cbn beta in *.
  eapply ens_bind; [exact (dec_sigs_wf _)|]. intros sg [Lsg Wsg]. apply ens_ret.
  unfold tx_wf. rewrite Ws, Wsg. unfold len. rewrite Lsg, N2Nat.id, N.eqb_refl. reflexivity.
Qed.

(* ---- wallet address maps as the parameters carry them, parameters ---- *)
Definition wentry_ok (e : Z * bytes) : Prop := fst e = 0%Z /\ length (snd e) = addr_len.
Definition wamap_shape (m : amap) : Prop := m = [] \/ exists a, m = [(0%Z, a)] /\ length a = addr_len.
Lemma amap_insert_shape e m : wentry_ok e -> wamap_shape m -> wamap_shape (amap_insert (fst e) (snd e) m).
Proof.
  intros [K L] [->|(a & -> & La)]; right.
  - exists (snd e). rewrite K. split; [reflexivity|exact L].
  - exists (snd e). rewrite K. cbn. split; [reflexivity|exact L].
Qed.
Lemma amap_of_list_shape es : Forall wentry_ok es -> wamap_shape (amap_of_list es).
Proof.
  unfold amap_of_list. assert (G : forall acc, wamap_shape acc -> Forall wentry_ok es ->
    wamap_shape (fold_left (fun m e => amap_insert (fst e) (snd e) m) es acc)).
  { induction es as [|e es IH]; intros acc Ha F; cbn [fold_left]; [exact Ha|].
    inversion F as [|? ? He Fe]; subst. apply IH; [apply amap_insert_shape; assumption|exact Fe]. }
  intro F. apply G; [left; reflexivity|exact F].
Qed.
Lemma ens_dec_many {A} (P : A -> Prop) l (d : prog A) : ensures P d -> ensures (Forall P) (dec_many l d).
Proof.
  intro H. unfold dec_many. eapply ens_bind; [exact (ens_dec_n P _ d H)|]. intros xs [_ F].
  apply ens_if; intro C; [apply ens_fail|apply ens_ret; exact F].
Qed.
Lemma dec_waddr_entry_ok : ensures wentry_ok dec_waddr_entry.
Proof.
  unfold dec_waddr_entry. eapply ens_bind; [exact (ens_any _)|]. intros idx _.
  apply ens_if; intro K; [apply ens_fail|].
  eapply ens_bind; [exact (ens_any _)|]. intros bs _. apply ens_if; intro L; [|apply ens_fail].
  apply ens_ret. split; cbn [fst snd].
  - apply negb_false_iff in K. unfold known_backend_z in K. apply Z.eqb_eq in K. exact K.
  - apply Nat.eqb_eq. exact L.
Qed.
Lemma dec_wamap_shape : ensures wamap_shape dec_wamap.
Proof.
  unfold dec_wamap. eapply ens_bind; [exact (ens_any _)|]. intros l _.
  apply ens_if; intro C; [apply ens_fail|].
  eapply ens_bind; [exact (ens_dec_many _ _ _ dec_waddr_entry_ok)|]. intros es F.
  apply ens_ret. apply amap_of_list_shape. exact F.
Qed.
Lemma dec_wamaps_shape : ensures (Forall wamap_shape) dec_wamaps.
Proof.
  unfold dec_wamaps. eapply ens_bind; [exact (ens_any _)|]. intros l _.
  apply ens_if; intro C; [apply ens_fail|]. exact (ens_dec_many _ _ _ dec_wamap_shape).
Qed.

Lemma dec_params_wf rs : ensures (fun p => params_wf rs p = true) (dec_params rs).
Proof.
  unfold dec_params. eapply ens_bind; [exact ens_u64|]. intros cd Hcd. cbn beta in *.
  eapply ens_bind; [exact dec_wamaps_shape|]. intros parts Fp. cbn beta in *.
  eapply ens_bind; [exact (dec_optapp_wf rs)|]. intros app Happ. cbn beta in *.
  eapply ens_bind; [exact (ens_any _)|]. intros nonce _.
  eapply ens_bind; [exact (ens_any _)|]. intros ledger _.
  eapply ens_bind; [exact (ens_any _)|]. intros virt _.
  eapply ens_bind; [exact (ens_fixed 256)|]. intros aux Haux. cbn beta in *.
  cbv zeta. apply ens_if; intro V; [|apply ens_fail]. apply ens_ret.
  unfold params_wf. rewrite V. cbn [p_cd p_parts p_app p_aux].
  assert (Cb : (cd <? 18446744073709551616) = true) by (apply N.ltb_lt; exact Hcd). rewrite Cb, Haux.
  assert (Wm : forallb wamap_wf parts = true).
  { unfold new_params_ok in V. cbn [p_parts] in V. apply andb_true_iff in V as [_ V].
    rewrite forallb_forall in V. apply forallb_forall. intros m Hm.
    specialize (V m Hm). apply andb_true_iff in V as [Ne _].
    rewrite Forall_forall in Fp. destruct (Fp m Hm) as [->|(a & -> & La)]; [discriminate Ne|].
    cbn. rewrite La. reflexivity. }
  rewrite Wm. destruct app as [[def k]|]; cbn [option_map fst]; [|reflexivity].
  destruct Happ as [Ld Rk]. rewrite Ld, Rk. reflexivity.
Qed.

(* ---- messages without bare address maps (everything but the two proposals and accepts that carry
   a participant map outside parameters: types 4, 5, 8, 9) ---- *)
Lemma dec_update_wf rs : ensures (fun u => let '(s, a, sg) := u in update_wf rs s a sg = true) (dec_update rs).
Proof.
  unfold dec_update. eapply ens_bind; [exact (dec_state_wf rs)|]. intros s Ws. cbn beta in *.
  eapply ens_bind; [exact ens_u16|]. intros a Ha. cbn beta in *.
  eapply ens_bind; [exact (ens_fixed sig_len)|]. intros sg Hs. cbn beta in *. apply ens_ret.
  unfold update_wf. rewrite Ws, Hs. assert (Ab : (a <? 65536) = true) by (apply N.ltb_lt; exact Ha).
  rewrite Ab. reflexivity.
Qed.
Lemma ens_string : ensures (fun b => str_ok b = true) dec_string.
Proof.
  unfold dec_string. eapply ens_bind; [exact ens_u16|]. intros l Hl. cbn beta in *. apply ens_alloc.
  intros bs v r E. apply read_full_ok in E as (a & rest & La & E). cbn in E. injection E as <- _.
  unfold str_ok, len. apply N.ltb_lt. lia.
Qed.
Lemma dec_imap_ok : ensures (fun l => imap_ok l = true) dec_imap.
Proof.
  unfold dec_imap. eapply ens_bind; [exact ens_u16|]. intros l Hl. cbn beta in *. apply ens_alloc.
  eapply ens_weaken; [|exact (ens_dec_n _ (N.to_nat l) _ ens_u16)]. intros im [Li Fi].
  unfold imap_ok, len. rewrite Li, N2Nat.id. apply andb_true_intro; split; [apply N.ltb_lt; exact Hl|].
  apply forall_forallb. eapply Forall_impl; [|exact Fi]. intros x Hx. apply N.ltb_lt. exact Hx.
Qed.
Lemma dec_baseprop_wf rs : ensures (fun b => baseprop_wf rs b = true) (dec_baseprop rs).
Proof.
  unfold dec_baseprop. eapply ens_bind; [exact (ens_fixed 32)|]. intros id Hid. cbn beta in *.
  eapply ens_bind; [exact ens_u64|]. intros cd Hcd. cbn beta in *.
  eapply ens_bind; [exact (ens_fixed 32)|]. intros nonce Hn. cbn beta in *.
  eapply ens_bind; [exact (dec_optapp_wf rs)|]. intros app Happ. cbn beta in *.
  eapply ens_bind.
  { instantiate (1 := fun d => match option_map snd app with
        | Some KMock => length d = 8%nat | _ => d = [] end).
    unfold dec_data. eapply ens_bind; [exact (ens_any _)|]. intros bs _.
    destruct (option_map snd app) as [[|]|]; try (apply ens_ret; reflexivity).
    apply ens_if; intro L; [apply ens_ret; apply Nat.eqb_eq; exact L|apply ens_fail]. }
  intros d Hd. cbn beta in *.
  eapply ens_bind; [exact dec_alloc_wf|]. intros bals Wb. cbn beta in *.
  eapply ens_bind; [exact dec_balances_wf|]. intros fa Wf. cbn beta in *.
  eapply ens_bind; [exact (ens_fixed 256)|]. intros aux Haux. cbn beta in *. apply ens_ret.
  unfold baseprop_wf, id32, u64_ok, str_ok, data_ok, len.
  cbn [bp_id bp_cd bp_nonce bp_app bp_data bp_bals bp_fa bp_aux]. rewrite Hid, Hn, Wb, Wf, Haux.
  assert (Cb : (cd <? 18446744073709551616) = true) by (apply N.ltb_lt; exact Hcd). rewrite Cb.
  destruct app as [[def k]|]; cbn [option_map fst snd] in *.
  - destruct Happ as [Ld Rk]. rewrite Ld, Rk, Nat.eqb_refl. destruct k; [subst d|rewrite Hd]; reflexivity.
  - subst d. reflexivity.
Qed.

Definition no_bare_map (t : N) : Prop := t <> 4 /\ t <> 5 /\ t <> 8 /\ t <> 9.
Lemma dec_msg_body_wf rs t : no_bare_map t ->
  ensures (fun m => msg_wf rs m = true /\ msg_type m = t) (dec_msg_body rs t).
Proof.
  intros (N4 & N5 & N8 & N9). unfold dec_msg_body.
  destruct (N.eqb_spec t 0) as [->|_].
  { eapply ens_bind; [exact ens_u64|]. intros x Hx. apply ens_ret. split; [apply N.ltb_lt; exact Hx|reflexivity]. }
  destruct (N.eqb_spec t 1) as [->|_].
  { eapply ens_bind; [exact ens_u64|]. intros x Hx. apply ens_ret. split; [apply N.ltb_lt; exact Hx|reflexivity]. }
  destruct (N.eqb_spec t 2) as [->|_].
  { eapply ens_bind; [exact ens_string|]. intros x Hx. apply ens_ret. split; [exact Hx|reflexivity]. }
  destruct (N.eqb_spec t 3) as [->|_].
  { eapply ens_bind; [exact (ens_any _)|]. intros l _. apply ens_alloc.
    destruct (N.ltb_spec auth_cap l) as [C|C].
    - intros bs v r E. apply read_full_ok in E as (a & rest & _ & E). discriminate E.
    - intros bs v r E. apply read_full_ok in E as (a & rest & La & E). cbn in E. injection E as <- _.
      split; [|reflexivity]. cbn [msg_wf]. unfold len. apply N.leb_le. lia. }
  destruct (N.eqb_spec t 4) as [->|_]; [congruence|].
  destruct (N.eqb_spec t 5) as [->|_]; [congruence|].
  destruct (N.eqb_spec t 6) as [->|_].
  { eapply ens_bind; [exact (dec_baseprop_wf rs)|]. intros b Wb. cbn beta in *.
    eapply ens_bind; [exact (ens_fixed 32)|]. intros parent Hp. cbn beta in *. apply ens_ret.
    split; [|reflexivity]. cbn [msg_wf]. unfold id32. rewrite Wb, Hp. reflexivity. }
  destruct (N.eqb_spec t 7) as [->|_].
  { eapply ens_bind; [exact (ens_fixed 32)|]. intros pid Hp. cbn beta in *.
    eapply ens_bind; [exact (ens_fixed 32)|]. intros nonce Hn. cbn beta in *. apply ens_ret.
    split; [|reflexivity]. cbn [msg_wf]. unfold id32. rewrite Hp, Hn. reflexivity. }
  destruct (N.eqb_spec t 8) as [->|_]; [congruence|].
  destruct (N.eqb_spec t 9) as [->|_]; [congruence|].
  destruct (N.eqb_spec t 10) as [->|_].
  { eapply ens_bind; [exact (ens_fixed 32)|]. intros pid Hp. cbn beta in *.
    eapply ens_bind; [exact ens_string|]. intros x Hx. cbn beta in *. apply ens_ret.
    split; [|reflexivity]. cbn [msg_wf]. unfold id32. rewrite Hp, Hx. reflexivity. }
  destruct (N.eqb_spec t 11) as [->|_].
  { eapply ens_bind; [exact (dec_update_wf rs)|]. intros [[s a] sg] Wu. apply ens_ret.
    split; [exact Wu|reflexivity]. }
  destruct (N.eqb_spec t 12) as [->|_].
  { eapply ens_bind; [exact (dec_update_wf rs)|]. intros [[s a] sg] Wu. cbn beta in *.
    eapply ens_bind; [exact (dec_params_wf rs)|]. intros ip Wp. cbn beta in *.
    eapply ens_bind; [exact (dec_state_wf rs)|]. intros ist Wi. cbn beta in *.
    eapply ens_bind; [exact dec_imap_ok|]. intros im Wim. cbn beta in *.
    eapply ens_bind; [exact (dec_sigs_wf _)|]. intros isg [Ls Ws]. apply ens_ret.
    split; [|reflexivity]. cbn [msg_wf]. rewrite Wu, Wp, Wi, Wim, Ws. unfold len. rewrite Ls, N2Nat.id, N.eqb_refl. reflexivity. }
  destruct (N.eqb_spec t 13) as [->|_].
  { eapply ens_bind; [exact (dec_update_wf rs)|]. intros [[s a] sg] Wu. cbn beta in *.
    eapply ens_bind; [exact (dec_params_wf rs)|]. intros fp Wp. cbn beta in *.
    eapply ens_bind; [exact (dec_state_wf rs)|]. intros fs Wi. cbn beta in *.
    eapply ens_bind; [exact (dec_sigs_wf _)|]. intros fsg [Ls Ws]. apply ens_ret.
    split; [|reflexivity]. cbn [msg_wf]. rewrite Wu, Wp, Wi, Ws. unfold len. rewrite Ls, N2Nat.id, N.eqb_refl. reflexivity. }
  destruct (N.eqb_spec t 14) as [->|_].
  { eapply ens_bind; [exact (ens_fixed 32)|]. intros id Hid. cbn beta in *.
    eapply ens_bind; [exact ens_u64|]. intros v Hv. cbn beta in *.
    eapply ens_bind; [exact (ens_fixed sig_len)|]. intros sg Hs. cbn beta in *. apply ens_ret.
    split; [|reflexivity]. cbn [msg_wf]. unfold id32, u64_ok. rewrite Hid, Hs.
    assert (Vb : (v <? 18446744073709551616) = true) by (apply N.ltb_lt; exact Hv). rewrite Vb. reflexivity. }
  destruct (N.eqb_spec t 15) as [->|_].
  { eapply ens_bind; [exact (ens_fixed 32)|]. intros id Hid. cbn beta in *.
    eapply ens_bind; [exact ens_u64|]. intros v Hv. cbn beta in *.
    eapply ens_bind; [exact ens_string|]. intros x Hx. cbn beta in *. apply ens_ret.
    split; [|reflexivity]. cbn [msg_wf]. unfold id32, u64_ok. rewrite Hid, Hx.
    assert (Vb : (v <? 18446744073709551616) = true) by (apply N.ltb_lt; exact Hv). rewrite Vb. reflexivity. }
  destruct (N.eqb_spec t 16) as [->|_].
  { eapply ens_bind; [exact (ens_uint 1)|]. intros ph Hph. cbn beta in *.
    eapply ens_bind; [exact (dec_tx_wf rs)|]. intros tx Wt. cbn beta in *. apply ens_ret.
    split; [|reflexivity]. cbn [msg_wf]. rewrite Wt.
    assert (Pb : (ph <? 256) = true) by (apply N.ltb_lt; exact Hph). rewrite Pb. reflexivity. }
  apply ens_fail.
Qed.

(* ---- normalisation ---- *)
Theorem dec_state_normal rs bs s r : run_flat (dec_state rs) bs = Ok (s, r) ->
  state_wf_rs rs s = true /\ run_flat (dec_state rs) (enc_state s ++ r) = Ok (s, r).
Proof. intro E. pose proof (dec_state_wf rs _ _ _ E) as W. split; [exact W|apply dec_state_rt; exact W]. Qed.
Theorem dec_alloc_normal bs a r : run_flat dec_alloc bs = Ok (a, r) ->
  alloc_wf a = true /\ run_flat dec_alloc (enc_alloc a ++ r) = Ok (a, r).
Proof. intro E. pose proof (dec_alloc_wf _ _ _ E) as W. split; [exact W|apply dec_alloc_rt; exact W]. Qed.
Theorem dec_balances_normal bs b r : run_flat dec_balances bs = Ok (b, r) ->
  balances_wf b = true /\ run_flat dec_balances (enc_balances b ++ r) = Ok (b, r).
Proof. intro E. pose proof (dec_balances_wf _ _ _ E) as W. split; [exact W|apply dec_balances_rt; exact W]. Qed.
Theorem dec_suballoc_normal bs s r : run_flat dec_suballoc bs = Ok (s, r) ->
  suballoc_wf s = true /\ run_flat dec_suballoc (enc_suballoc s ++ r) = Ok (s, r).
Proof. intro E. pose proof (dec_suballoc_wf _ _ _ E) as W. split; [exact W|apply dec_suballoc_rt; exact W]. Qed.

Theorem dec_tx_normal rs bs t r : run_flat (dec_tx rs) bs = Ok (t, r) ->
  tx_wf rs t = true /\ run_flat (dec_tx rs) (enc_tx t ++ r) = Ok (t, r).
Proof. intro E. pose proof (dec_tx_wf rs _ _ _ E) as W. split; [exact W|apply dec_tx_rt; exact W]. Qed.
Theorem dec_params_normal rs bs p r : run_flat (dec_params rs) bs = Ok (p, r) ->
  params_wf rs p = true /\ run_flat (dec_params rs) (enc_params p ++ r) = Ok (p, r).
Proof. intro E. pose proof (dec_params_wf rs _ _ _ E) as W. split; [exact W|apply dec_params_rt; exact W]. Qed.
Theorem dec_msg_body_normal rs t bs m r : no_bare_map t -> run_flat (dec_msg_body rs t) bs = Ok (m, r) ->
  msg_wf rs m = true /\ run_flat (dec_msg_body rs t) (enc_msg_body m ++ r) = Ok (m, r).
Proof.
  intros Nb E. destruct (dec_msg_body_wf rs t Nb _ _ _ E) as [W T]. split; [exact W|].
  rewrite <- T. apply dec_msg_body_rt. exact W.
Qed.

(* two accepted byte strings that decode to the same state have the same canonical encoding: what is
   signed (the re-encoding) does not depend on which of them was received *)
Corollary accepted_same_state_same_signed_bytes rs bs1 bs2 s r1 r2 :
  run_flat (dec_state rs) bs1 = Ok (s, r1) -> run_flat (dec_state rs) bs2 = Ok (s, r2) ->
  exists canon, canon = enc_state s /\ run_flat (dec_state rs) (canon ++ []) = Ok (s, []).
Proof.
  intros E1 _. exists (enc_state s). split; [reflexivity|].
  apply dec_state_rt. exact (dec_state_wf rs _ _ _ E1).
Qed.

(* the bytes themselves are not reproduced in general: a big integer with a leading zero byte is
   accepted and re-encoded without it *)
Definition noncanonical_balances : bytes :=
  enc_u16 1 ++ enc_u16 1 ++ [Byte.x02; Byte.x00; Byte.x05].
Lemma noncanonical_accepted :
  exists b, run_flat dec_balances noncanonical_balances = Ok (b, []) /\ enc_balances b <> noncanonical_balances.
Proof. exists [[5%Z]]. split; [vm_compute; reflexivity|vm_compute; discriminate]. Qed.

(* what well-formedness says about the amounts of an allocation *)
Lemma alloc_wf_amounts a : alloc_wf a = true ->
  forall row z, In row (al_bals a) -> In z row -> (0 <= z)%Z /\ bigint_encodable z = true.
Proof.
  unfold alloc_wf. intros H row z Hr Hz.
  apply andb_true_iff in H as [H _]. apply andb_true_iff in H as [_ Wb].
  unfold balances_wf in Wb. apply andb_true_iff in Wb as [_ W].
  rewrite forallb_forall in W. specialize (W row Hr). apply andb_true_iff in W as [_ W].
  unfold bigints_ok in W. rewrite forallb_forall in W. specialize (W z Hz).
  split; [|exact W]. unfold bigint_encodable in W. apply andb_true_iff in W as [W _].
  apply Z.leb_le in W. exact W.
Qed.
