(* Round trips (C14), from which stability and stream decoding follow, for address maps, sparse
   signatures, transactions, parameters, all message types and the native envelope. *)
From Coq Require Import Arith PeanoNat ZifyN ZifyNat ZifyBool.
From V Require Import Model.Msgs Proofs.WireP Proofs.ChannelP.
Open Scope N_scope.

(* ---- counted repetition with an int32/uint32 count ---- *)
Lemma dec_many_rt {A} (d : prog A) (e : A -> bytes) (P : A -> Prop) :
  (forall a rest, P a -> run_flat d (e a ++ rest) = Ok (a, rest)) ->
  forall l rest, Forall P l -> len l <= many_cap ->
  run_flat (dec_many (len l) d) (cat e l ++ rest) = Ok (l, rest).
Proof.
  intros Hd l rest Hl Hc. unfold dec_many. rewrite run_flat_bind.
  rewrite N.min_l by exact Hc. rewrite len_to_nat.
  unfold cat. rewrite (dec_n_rt d e P Hd l rest Hl).
  destruct (N.ltb_spec many_cap (len l)); [lia|reflexivity].
Qed.

(* ---- address maps (single backend) ---- *)
Lemma i32_of_nat_rt n rest : (Z.of_nat n < 2147483648)%Z ->
  run_flat dec_i32 (enc_i32 (Z.of_nat n) ++ rest) = Ok (Z.of_nat n, rest).
Proof. intro H. apply dec_i32_rt. lia. Qed.

Lemma dec_wamap_rt m rest : wamap_wf m = true ->
  run_flat dec_wamap (enc_amap m ++ rest) = Ok (m, rest).
Proof.
  unfold wamap_wf. destruct m as [|[k a] [|? ?]]; try discriminate. intro H. split_and.
  match goal with H : (k =? 0)%Z = true |- _ => apply Z.eqb_eq in H; subst k end.
  match goal with H : (length a =? addr_len)%nat = true |- _ => rename H into Ha end.
  unfold dec_wamap, enc_amap. cbn [length cat map concat fst snd]. rewrite <- !app_assoc.
  rewrite run_flat_bind, (i32_of_nat_rt 1) by lia. cbn [Z.ltb Z.of_nat Z.compare Pos.of_succ_nat].
  change (Z.to_N 1) with 1. unfold dec_many. change (N.to_nat (N.min 1 many_cap)) with 1%nat.
  cbn [dec_n]. rewrite !run_flat_bind. unfold dec_waddr_entry. rewrite run_flat_bind.
  rewrite dec_i32_rt by lia. cbn [known_backend_z Z.eqb negb].
  assert (La : N.of_nat (length a) < 65536).
  { apply Nat.eqb_eq in Ha. rewrite Ha. cbn. lia. }
  cbn [app]. rewrite run_flat_bind, dec_marsh_rt by exact La. rewrite Ha. cbn [run_flat bind].
  reflexivity.
Qed.

Lemma dec_ramap_rt m rest : ramap_wf m = true ->
  run_flat dec_ramap (enc_amap m ++ rest) = Ok (m, rest).
Proof.
  unfold ramap_wf. destruct m as [|[k a] [|? ?]]; try discriminate. intro H. split_and.
  repeat match goal with
         | H : (_ <=? _)%Z = true |- _ => apply Z.leb_le in H
         | H : (_ <? _)%Z = true |- _ => apply Z.ltb_lt in H
         end.
  match goal with H : (length a =? wire_addr_len)%nat = true |- _ => apply Nat.eqb_eq in H; rename H into Ha end.
  unfold dec_ramap, enc_amap. cbn [length cat map concat fst snd]. rewrite <- !app_assoc.
  rewrite run_flat_bind, (i32_of_nat_rt 1) by lia. cbn [Z.ltb Z.of_nat Z.compare Pos.of_succ_nat].
  change (Z.to_N 1) with 1. unfold dec_many. change (N.to_nat (N.min 1 many_cap)) with 1%nat.
  cbn [dec_n]. rewrite !run_flat_bind. unfold dec_raddr_entry. rewrite run_flat_bind.
  rewrite dec_i32_rt by lia.
  assert (La : N.of_nat (length a) < 65536) by (rewrite Ha; cbn; lia).
  cbn [app]. rewrite run_flat_bind, dec_marsh_rt by exact La. cbn [run_flat bind].
  assert (P : pad_to wire_addr_len a = a).
  { unfold pad_to. rewrite firstn_app. rewrite Ha, Nat.sub_diag, firstn_O, app_nil_r.
    rewrite <- Ha. apply firstn_all. }
  rewrite P. reflexivity.
Qed.

Lemma dec_wamaps_rt l rest : forallb wamap_wf l = true -> len l <= many_cap ->
  run_flat dec_wamaps (enc_wamaps l ++ rest) = Ok (l, rest).
Proof.
  intros Hl Hc. unfold dec_wamaps, enc_wamaps. rewrite <- app_assoc.
  unfold many_cap, len in *.
  rewrite run_flat_bind, i32_of_nat_rt by lia.
  destruct (Z.ltb_spec (Z.of_nat (length l)) 0); [lia|].
  replace (Z.to_N (Z.of_nat (length l))) with (len l) by (unfold len; lia).
  apply (dec_many_rt dec_wamap enc_amap (fun m => wamap_wf m = true)).
  - intros a r Ha. apply dec_wamap_rt. exact Ha.
  - apply forallb_Forall. exact Hl.
  - unfold many_cap, len. lia.
Qed.

Lemma dec_ramaps_rt l rest : ramaps_wf l = true ->
  run_flat dec_ramaps (enc_ramaps l ++ rest) = Ok (l, rest).
Proof.
  unfold ramaps_wf. intro H. split_and.
  repeat match goal with
         | H : (_ <? _) = true |- _ => apply N.ltb_lt in H
         | H : (_ <=? _) = true |- _ => apply N.leb_le in H
         end.
  unfold dec_ramaps, enc_ramaps. rewrite <- app_assoc. unfold len in *.
  rewrite run_flat_bind, i32_of_nat_rt by lia.
  destruct (Z.ltb_spec (Z.of_nat (length l)) 0); [lia|].
  replace (Z.to_N (Z.of_nat (length l))) with (len l) by (unfold len; lia).
  apply (dec_many_rt dec_ramap enc_amap (fun m => ramap_wf m = true)).
  - intros a r Ha. apply dec_ramap_rt. exact Ha.
  - apply forallb_Forall. assumption.
  - unfold len. assumption.
Qed.

(* ---- sparse signatures ---- *)
Lemma bits_of_byte_of_bits c : (length c <= 8)%nat ->
  bits_of_byte (byte_of_bits c) = c ++ repeat false (8 - length c).
Proof.
  intro H.
  destruct c as [|b0 [|b1 [|b2 [|b3 [|b4 [|b5 [|b6 [|b7 [|b8 c]]]]]]]]]; cbn [length] in H; try lia;
    repeat match goal with b : bool |- _ => destruct b end; vm_compute; reflexivity.
Qed.

Lemma firstn_length_le {A} n (l : list A) : (length (firstn n l) <= n)%nat.
Proof. rewrite firstn_length. lia. Qed.

Lemma chunks8_flat fuel l : (length l <= fuel)%nat ->
  firstn (length l) (flat_map bits_of_byte (map byte_of_bits (chunks8 fuel l))) = l.
Proof.
  revert l; induction fuel as [|f IH]; intros l H.
  - destruct l; [reflexivity|cbn in H; lia].
  - cbn [chunks8]. destruct l as [|b l']; [reflexivity|].
    set (l := b :: l') in *. cbn [map flat_map].
    rewrite bits_of_byte_of_bits by apply firstn_length_le.
    destruct (Nat.le_gt_cases (length l) 8) as [S|L].
    + rewrite (firstn_all2 l) by exact S. rewrite (skipn_all2 l) by exact S.
      assert (E : chunks8 f [] = []) by (destruct f; reflexivity). rewrite E. cbn [map flat_map].
      rewrite app_nil_r, firstn_app, Nat.sub_diag, firstn_O, app_nil_r. apply firstn_all.
    + assert (L8 : length (firstn 8 l) = 8%nat) by (rewrite firstn_length; lia).
      rewrite L8. cbn [Nat.sub repeat]. rewrite app_nil_r.
      rewrite firstn_app, L8.
      rewrite (firstn_all2 (firstn 8 l)) by lia.
      assert (Ls : length (skipn 8 l) = (length l - 8)%nat) by apply skipn_length.
      rewrite <- Ls. rewrite IH by (rewrite Ls; lia).
      apply firstn_skipn.
Qed.

Lemma chunks8_length fuel l : (length l <= fuel)%nat -> length (chunks8 fuel l) = mask_len (length l).
Proof.
  revert l; induction fuel as [|f IH]; intros l H.
  - destruct l; [reflexivity|cbn in H; lia].
  - cbn [chunks8]. destruct l as [|b l']; [reflexivity|].
    set (l := b :: l') in *. cbn [length].
    rewrite IH by (rewrite skipn_length; subst l; cbn [length] in *; lia).
    rewrite skipn_length. unfold mask_len.
    assert (Hpos : (0 < length l)%nat) by (subst l; cbn [length]; lia).
    revert Hpos. generalize (length l). intros n Hpos.
    zify; Z.div_mod_to_equations; lia.
Qed.

Lemma dec_sig_slots_rt l rest : sigs_wf l = true ->
  run_flat (dec_sig_slots (mask_bits l))
    (cat (fun o => match o with Some s => s | None => [] end) l ++ rest) = Ok (l, rest).
Proof.
  induction l as [|o l IH]; intro H; cbn [mask_bits map dec_sig_slots cat concat]; [reflexivity|].
  cbn [sigs_wf forallb] in H. apply andb_true_iff in H as [Ho Hl].
  fold (mask_bits l). fold (cat (fun o => match o with Some s => s | None => [] end) l).
  destruct o as [s|].
  - apply Nat.eqb_eq in Ho. rewrite <- app_assoc.
    rewrite run_flat_bind, dec_fixed_rt by exact Ho. rewrite run_flat_bind, IH by exact Hl. reflexivity.
  - cbn [app]. rewrite run_flat_bind, IH by exact Hl. reflexivity.
Qed.

Lemma dec_sigs_rt l rest : sigs_wf l = true ->
  run_flat (dec_sigs (length l)) (enc_sigs l ++ rest) = Ok (l, rest).
Proof.
  intro H. unfold dec_sigs, enc_sigs, enc_mask. rewrite <- app_assoc.
  assert (Lb : length (mask_bits l) = length l) by (unfold mask_bits; apply map_length).
  rewrite run_flat_bind, dec_fixed_rt.
  2:{ rewrite map_length, chunks8_length by lia. rewrite Lb. reflexivity. }
  rewrite <- Lb at 1. rewrite chunks8_flat by lia. apply dec_sig_slots_rt. exact H.
Qed.

(* ---- transaction ---- *)
Lemma dec_tx_rt rs t rest : tx_wf rs t = true -> run_flat (dec_tx rs) (enc_tx t ++ rest) = Ok (t, rest).
Proof.
  unfold tx_wf, dec_tx, enc_tx. destruct t as [[s sg]|]; intro H.
  - split_and. rewrite <- !app_assoc. rewrite run_flat_bind, dec_u8_rt by lia. cbn [N.eqb Pos.eqb].
    rewrite run_flat_bind, dec_state_rt by assumption.
    match goal with H : (len sg =? _) = true |- _ => apply N.eqb_eq in H; rewrite <- H end.
    rewrite len_to_nat. rewrite run_flat_bind, dec_sigs_rt by assumption. reflexivity.
  - rewrite run_flat_bind, dec_u8_rt by lia. reflexivity.
Qed.

(* ---- optional app ---- *)
Lemma dec_optapp_rt rs app rest :
  match app with None => true
  | Some d => (length d =? addr_len)%nat && match rs d with Some _ => true | None => false end end = true ->
  run_flat (dec_optapp rs) (enc_optapp app ++ rest) =
  Ok (match app with None => None | Some d => match rs d with Some k => Some (d, k) | None => None end end, rest).
Proof.
  intro H. unfold dec_optapp, enc_optapp. destruct app as [d|].
  - split_and. rewrite <- app_assoc. rewrite run_flat_bind, dec_bool_rt. cbn [negb].
    match goal with H : (length d =? addr_len)%nat = true |- _ => rename H into Hd end.
    assert (Ld : N.of_nat (length d) < 65536) by (apply Nat.eqb_eq in Hd; rewrite Hd; cbn; lia).
    rewrite run_flat_bind, dec_marsh_rt by exact Ld. rewrite Hd. cbn [negb].
    destruct (rs d); [reflexivity|discriminate].
  - rewrite run_flat_bind, dec_bool_rt. reflexivity.
Qed.

(* ---- parameters ---- *)
Lemma nonce_ok_encodable z : nonce_ok z = true -> bigint_encodable z = true.
Proof.
  unfold nonce_ok, bigint_encodable, MaxNonceLen, MaxBigIntLength, Generated.MaxNonceLen, Generated.MaxBigIntLength.
  intro H. split_and. apply andb_true_iff. split; [assumption|].
  match goal with H : (_ <=? 32) = true |- _ => apply N.leb_le in H end. apply N.leb_le. lia.
Qed.

Lemma dec_params_rt rs p rest : params_wf rs p = true ->
  run_flat (dec_params rs) (enc_params p ++ rest) = Ok (p, rest).
Proof.
  unfold params_wf. intro H. split_and.
  match goal with H : new_params_ok p = true |- _ => rename H into Hn end.
  match goal with H : (p_cd p <? _) = true |- _ => apply N.ltb_lt in H; rename H into Hcd end.
  match goal with H : (length (p_aux p) =? 256)%nat = true |- _ => apply Nat.eqb_eq in H; rename H into Haux end.
  match goal with H : forallb wamap_wf _ = true |- _ => rename H into Hparts end.
  match goal with H : match p_app p with _ => _ end = true |- _ => rename H into Happ end.
  pose proof Hn as Hn'. unfold new_params_ok in Hn'. split_and.
  match goal with H : nonce_ok _ = true |- _ => apply nonce_ok_encodable in H; rename H into Hnonce end.
  match goal with H : (len (p_parts p) <=? MaxNumParts) = true |- _ => apply N.leb_le in H; rename H into Hlen end.
  unfold dec_params, enc_params. rewrite <- !app_assoc.
  rewrite run_flat_bind, dec_u64_rt by exact Hcd.
  rewrite run_flat_bind, dec_wamaps_rt;
    [|exact Hparts|unfold many_cap, MaxNumParts, Generated.MaxNumParts in *; lia].
  rewrite run_flat_bind, dec_optapp_rt by exact Happ.
  rewrite run_flat_bind, dec_bigint_rt by exact Hnonce.
  rewrite run_flat_bind, dec_bool_rt. rewrite run_flat_bind, dec_bool_rt.
  rewrite run_flat_bind, dec_fixed_rt by exact Haux.
  destruct p as [cd parts app nonce ledger virt aux];
    cbn [p_cd p_parts p_app p_nonce p_ledger p_virtual p_aux] in *.
  destruct app as [d|]; cbn [option_map fst].
  - split_and. destruct (rs d); [|discriminate]. cbn [option_map fst]. rewrite Hn. reflexivity.
  - rewrite Hn. reflexivity.
Qed.

(* ---- message parts ---- *)
Lemma dec_ids_rt l rest : len l < 65536 -> forallb id32 l = true ->
  run_flat dec_ids (enc_ids l ++ rest) = Ok (l, rest).
Proof.
  intros Hl Hi. unfold dec_ids, enc_ids. rewrite <- app_assoc, run_flat_bind, dec_u16_rt by exact Hl.
  cbn [run_flat]. rewrite len_to_nat. unfold cat.
  apply (dec_n_rt (dec_fixed 32) (fun x => x) (fun x => id32 x = true)).
  - intros a r Ha. apply dec_fixed_rt. apply Nat.eqb_eq. exact Ha.
  - apply forallb_Forall. exact Hi.
Qed.

Lemma dec_imap_rt l rest : imap_ok l = true -> run_flat dec_imap (enc_imap l ++ rest) = Ok (l, rest).
Proof.
  unfold imap_ok. intro H. split_and.
  match goal with H : (len l <? 65536) = true |- _ => apply N.ltb_lt in H; rename H into Hl end.
  unfold dec_imap, enc_imap. rewrite <- app_assoc, run_flat_bind, dec_u16_rt by exact Hl.
  cbn [run_flat]. rewrite len_to_nat. apply dec_u16_list_rt. apply forallb_Forall. assumption.
Qed.

Lemma dec_imaps_rt l rest : len l < 65536 -> forallb imap_ok l = true ->
  run_flat dec_imaps (enc_imaps l ++ rest) = Ok (l, rest).
Proof.
  intros Hl Hi. unfold dec_imaps, enc_imaps. rewrite <- app_assoc, run_flat_bind, dec_u16_rt by exact Hl.
  cbn [run_flat]. rewrite len_to_nat. unfold cat.
  apply (dec_n_rt dec_imap enc_imap (fun x => imap_ok x = true)).
  - intros a r Ha. apply dec_imap_rt. exact Ha.
  - apply forallb_Forall. exact Hi.
Qed.

Definition app_kind (rs : resolver) (app : option bytes) : option appkind :=
  match app with None => None | Some d => rs d end.

Lemma dec_data_rt rs app d rest : data_ok rs app d = true -> len d < 65536 ->
  run_flat (dec_data (app_kind rs app)) (enc_marsh d ++ rest) = Ok (d, rest).
Proof.
  intros Hok Hd. unfold dec_data, app_kind. rewrite run_flat_bind, dec_marsh_rt by exact Hd.
  unfold data_ok in Hok. destruct app as [def|].
  - split_and. destruct (rs def) as [[|]|]; try discriminate.
    + destruct d; [reflexivity|discriminate].
    + match goal with H : (length d =? 8)%nat = true |- _ => rewrite H end. reflexivity.
  - destruct d; [reflexivity|discriminate].
Qed.

Lemma data_ok_app (rs : resolver) (app : option bytes) d : data_ok rs app d = true ->
  match app with None => true
  | Some def => (length def =? addr_len)%nat && match rs def with Some _ => true | None => false end end = true.
Proof.
  unfold data_ok. destruct app as [def|]; [|reflexivity]. intro H. split_and.
  apply andb_true_iff. split; [assumption|]. destruct (rs def); [reflexivity|discriminate].
Qed.

Lemma optapp_kind (rs : resolver) (app : option bytes) :
  option_map snd match app with
                 | Some d => match rs d with Some k => Some (d, k) | None => None end
                 | None => None end
  = app_kind rs app.
Proof. unfold app_kind. destruct app as [d|]; [|reflexivity]. destruct (rs d); reflexivity. Qed.
Lemma optapp_def (rs : resolver) (app : option bytes) :
  match app with None => true
  | Some d => (length d =? addr_len)%nat && match rs d with Some _ => true | None => false end end = true ->
  option_map fst match app with
                 | Some d => match rs d with Some k => Some (d, k) | None => None end
                 | None => None end = app.
Proof.
  destruct app as [d|]; [|reflexivity]. intro H. split_and. destruct (rs d); [reflexivity|discriminate].
Qed.

Lemma dec_baseprop_rt rs b rest : baseprop_wf rs b = true ->
  run_flat (dec_baseprop rs) (enc_baseprop b ++ rest) = Ok (b, rest).
Proof.
  unfold baseprop_wf, id32, u64_ok, str_ok. intro H. split_and.
  repeat match goal with
         | H : (length _ =? _)%nat = true |- _ => apply Nat.eqb_eq in H
         | H : (_ <? _) = true |- _ => apply N.ltb_lt in H
         end.
  match goal with H : data_ok _ _ _ = true |- _ => rename H into Hok end.
  unfold dec_baseprop, enc_baseprop. rewrite <- !app_assoc.
  rewrite run_flat_bind, dec_fixed_rt by assumption.
  rewrite run_flat_bind, dec_u64_rt by assumption.
  rewrite run_flat_bind, dec_fixed_rt by assumption.
  rewrite run_flat_bind, dec_optapp_rt by (apply (data_ok_app rs _ _ Hok)).
  rewrite optapp_kind.
  rewrite run_flat_bind, dec_data_rt by assumption.
  rewrite run_flat_bind, dec_alloc_rt by assumption.
  rewrite run_flat_bind, dec_balances_rt by assumption.
  rewrite run_flat_bind, dec_fixed_rt by assumption.
  rewrite optapp_def by (apply (data_ok_app rs _ _ Hok)).
  destruct b; reflexivity.
Qed.

Lemma dec_update_rt rs s a sg rest : update_wf rs s a sg = true ->
  run_flat (dec_update rs) (enc_update s a sg ++ rest) = Ok ((s, a, sg), rest).
Proof.
  unfold update_wf. intro H. split_and.
  match goal with H : (a <? 65536) = true |- _ => apply N.ltb_lt in H end.
  match goal with H : (length sg =? sig_len)%nat = true |- _ => apply Nat.eqb_eq in H end.
  unfold dec_update, enc_update. rewrite <- !app_assoc.
  rewrite run_flat_bind, dec_state_rt by assumption.
  rewrite run_flat_bind, dec_u16_rt by assumption.
  rewrite run_flat_bind, dec_fixed_rt by assumption. reflexivity.
Qed.

Ltac prep :=
  repeat match goal with
         | H : (length _ =? _)%nat = true |- _ => apply Nat.eqb_eq in H
         | H : (_ <? _) = true |- _ => apply N.ltb_lt in H
         | H : (_ <=? _) = true |- _ => apply N.leb_le in H
         | H : (_ =? _) = true |- _ => apply N.eqb_eq in H
         end.

(* ---- every message type ---- *)
Lemma dec_msg_body_rt rs m rest : msg_wf rs m = true ->
  run_flat (dec_msg_body rs (msg_type m)) (enc_msg_body m ++ rest) = Ok (m, rest).
Proof.
  destruct m; cbn [msg_wf msg_type enc_msg_body]; unfold dec_msg_body; cbn [N.eqb Pos.eqb];
    unfold id32, u64_ok, str_ok; intro H; split_and; rewrite <- ?app_assoc.
  - prep. rewrite run_flat_bind, dec_u64_rt by assumption. reflexivity.
  - prep. rewrite run_flat_bind, dec_u64_rt by assumption. reflexivity.
  - prep. rewrite run_flat_bind, dec_string_rt by assumption. reflexivity.
  - prep. unfold auth_cap in *.
    rewrite run_flat_bind, dec_u32be_rt by lia. cbn [run_flat].
    destruct (N.ltb_spec 1048576 (len sg)); [lia|].
    rewrite len_to_nat. rewrite read_full_exact by reflexivity. reflexivity.
  - rewrite run_flat_bind, dec_baseprop_rt by assumption.
    rewrite run_flat_bind, dec_wamap_rt by assumption.
    rewrite run_flat_bind, dec_ramaps_rt by assumption. prep.
    destruct (N.ltb_spec (len peers) 2); [lia|]. destruct (N.ltb_spec MaxNumParts (len peers)); [lia|].
    reflexivity.
  - prep. rewrite run_flat_bind, dec_fixed_rt by assumption.
    rewrite run_flat_bind, dec_fixed_rt by assumption.
    rewrite run_flat_bind, dec_wamap_rt by assumption. reflexivity.
  - prep. rewrite run_flat_bind, dec_baseprop_rt by assumption.
    rewrite run_flat_bind, dec_fixed_rt by assumption. reflexivity.
  - prep. rewrite run_flat_bind, dec_fixed_rt by assumption.
    rewrite run_flat_bind, dec_fixed_rt by assumption. reflexivity.
  - rewrite run_flat_bind, dec_baseprop_rt by assumption.
    rewrite run_flat_bind, dec_wamap_rt by assumption.
    rewrite run_flat_bind, dec_ramaps_rt by assumption. prep.
    rewrite run_flat_bind, dec_ids_rt by assumption.
    rewrite run_flat_bind, dec_imaps_rt by assumption. reflexivity.
  - prep. rewrite run_flat_bind, dec_fixed_rt by assumption.
    rewrite run_flat_bind, dec_fixed_rt by assumption.
    rewrite run_flat_bind, dec_wamap_rt by assumption. reflexivity.
  - prep. rewrite run_flat_bind, dec_fixed_rt by assumption.
    rewrite run_flat_bind, dec_string_rt by assumption. reflexivity.
  - rewrite run_flat_bind, dec_update_rt by assumption. reflexivity.
  - rewrite run_flat_bind, dec_update_rt by assumption.
    rewrite run_flat_bind, dec_params_rt by assumption.
    rewrite run_flat_bind, dec_state_rt by assumption.
    rewrite run_flat_bind, dec_imap_rt by assumption.
    match goal with H : (len isigs =? _) = true |- _ => apply N.eqb_eq in H; rewrite <- H end.
    rewrite len_to_nat. rewrite run_flat_bind, dec_sigs_rt by assumption. reflexivity.
  - rewrite run_flat_bind, dec_update_rt by assumption.
    rewrite run_flat_bind, dec_params_rt by assumption.
    rewrite run_flat_bind, dec_state_rt by assumption.
    match goal with H : (len fsigs =? _) = true |- _ => apply N.eqb_eq in H; rewrite <- H end.
    rewrite len_to_nat. rewrite run_flat_bind, dec_sigs_rt by assumption. reflexivity.
  - prep. rewrite run_flat_bind, dec_fixed_rt by assumption.
    rewrite run_flat_bind, dec_u64_rt by assumption.
    rewrite run_flat_bind, dec_fixed_rt by assumption. reflexivity.
  - prep. rewrite run_flat_bind, dec_fixed_rt by assumption.
    rewrite run_flat_bind, dec_u64_rt by assumption.
    rewrite run_flat_bind, dec_string_rt by assumption. reflexivity.
  - prep. rewrite run_flat_bind, dec_u8_rt by assumption.
    rewrite run_flat_bind, dec_tx_rt by assumption. reflexivity.
Qed.

Lemma msg_type_lt m : msg_type m < 256.
Proof. destruct m; cbn; lia. Qed.

Lemma dec_msg_rt rs m rest : msg_wf rs m = true ->
  run_flat (dec_msg rs) (enc_msg m ++ rest) = Ok (m, rest).
Proof.
  intro H. unfold dec_msg, enc_msg. rewrite <- app_assoc.
  rewrite run_flat_bind, dec_u8_rt by apply msg_type_lt. apply dec_msg_body_rt. exact H.
Qed.

Lemma dec_envelope_rt rs e rest : envelope_wf rs e = true ->
  run_flat (dec_envelope rs) (enc_envelope e ++ rest) = Ok (e, rest).
Proof.
  unfold envelope_wf. intro H. split_and. unfold dec_envelope, enc_envelope. rewrite <- !app_assoc.
  rewrite run_flat_bind, dec_ramap_rt by assumption.
  rewrite run_flat_bind, dec_ramap_rt by assumption.
  rewrite run_flat_bind, dec_msg_rt by assumption. destruct e; reflexivity.
Qed.

(* ---- consecutive envelopes on one stream decode one after the other ---- *)
Fixpoint dec_all {A} (d : prog A) (fuel : nat) (bs : bytes) : option (list A) :=
  match fuel with
  | O => None
  | S f => match bs with
           | [] => Some []
           | _ => match run_flat d bs with
                  | Ok (a, r) => option_map (cons a) (dec_all d f r)
                  | _ => None
                  end
           end
  end.

Lemma dec_all_S {A} (d : prog A) f bs :
  dec_all d (S f) bs = match bs with
                       | [] => Some []
                       | _ => match run_flat d bs with
                              | Ok (a, r) => option_map (cons a) (dec_all d f r)
                              | _ => None
                              end
                       end.
Proof. reflexivity. Qed.

Lemma enc_envelope_nonempty e : enc_envelope e <> [].
Proof.
  unfold enc_envelope, enc_amap, enc_i32, enc_le. intro H.
  apply (f_equal (@length byte)) in H. rewrite !app_length in H. cbn in H. lia.
Qed.

Lemma stream_rt rs es : forallb (envelope_wf rs) es = true ->
  dec_all (dec_envelope rs) (S (length es)) (cat enc_envelope es) = Some es.
Proof.
  induction es as [|e es IH]; intro H; [reflexivity|].
  cbn [forallb] in H. apply andb_true_iff in H as [He Hes].
  cbn [length]. unfold cat. cbn [map concat]. fold (cat enc_envelope es).
  rewrite dec_all_S. destruct (enc_envelope e ++ cat enc_envelope es) eqn:E.
  - exfalso. apply app_eq_nil in E as [E _]. exact (enc_envelope_nonempty e E).
  - rewrite <- E. rewrite dec_envelope_rt by exact He. rewrite IH by exact Hes. reflexivity.
Qed.

(* ---- stability: encoding a decoded encoding reproduces the bytes ---- *)
Lemma stable_from_rt {A} (d : prog A) (e : A -> bytes) (wf : A -> Prop) :
  (forall a rest, wf a -> run_flat d (e a ++ rest) = Ok (a, rest)) ->
  forall a, wf a -> match run_flat d (e a) with Ok (a', r) => e a' = e a /\ r = [] | _ => False end.
Proof.
  intros Hrt a Ha. pose proof (Hrt a [] Ha) as R. rewrite app_nil_r in R. rewrite R. auto.
Qed.
