(* Theorems about the receiving side of the client (C07, C12). *)
From Coq Require Import Arith PeanoNat ZifyN ZifyNat ZifyBool.
From V Require Import Model.Machine Model.MachineSpec Model.Handlers Proofs.ChannelP Proofs.MachineP Proofs.C02P.
Open Scope N_scope.

(* ---------- lists of lists of balances ---------- *)
Definition bal_at (b : list (list Z)) (a p : nat) : Z := nth p (nth a b []) 0%Z.

Lemma all2_length {A B} (f : A -> B -> bool) a b : all2 f a b = true -> length a = length b.
Proof. revert b; induction a as [|x a IH]; intros [|y b] H; cbn in *; try discriminate; auto.
  apply andb_true_iff in H as [_ H]. f_equal. auto. Qed.
Lemma all2_nth {A B} (f : A -> B -> bool) a b i da db :
  all2 f a b = true -> (i < length a)%nat -> f (nth i a da) (nth i b db) = true.
Proof. revert b i; induction a as [|x a IH]; intros [|y b] i H Hi; cbn in *; try discriminate; try lia.
  apply andb_true_iff in H as [H1 H2]. destruct i; [exact H1|]. apply IH; [exact H2|lia]. Qed.
Lemma all2_refl {A} (f : A -> A -> bool) a : (forall x, f x x = true) -> all2 f a a = true.
Proof. intro H. induction a; cbn; [reflexivity|]. rewrite H, IHa. reflexivity. Qed.
Lemma all2_intro {A B} (f : A -> B -> bool) a b da db : length a = length b ->
  (forall i, (i < length a)%nat -> f (nth i a da) (nth i b db) = true) -> all2 f a b = true.
Proof. revert b; induction a as [|x a IH]; intros [|y b] L H; cbn in *; try discriminate; [reflexivity|].
  apply andb_true_iff. split; [apply (H 0%nat); lia|]. apply IH; [lia|]. intros i Hi. apply (H (S i)). lia. Qed.

Lemma same_dims_refl a : same_dims a a = true.
Proof. apply all2_refl. intro. apply Nat.eqb_refl. Qed.
Lemma same_dims_rows a b i : same_dims a b = true -> length (nth i a []) = length (nth i b []).
Proof. intro H. destruct (Nat.lt_ge_cases i (length a)) as [Hi|Hi].
  - apply Nat.eqb_eq. apply (all2_nth _ a b i [] [] H Hi).
  - pose proof (all2_length _ _ _ H) as L. rewrite !nth_overflow by lia. reflexivity. Qed.
Lemma same_dims_sym a b : same_dims a b = true -> same_dims b a = true.
Proof. intro H. pose proof (all2_length _ _ _ H) as L. apply (all2_intro _ b a [] []); [lia|].
  intros i Hi. apply Nat.eqb_eq. symmetry. apply same_dims_rows. exact H. Qed.
Lemma same_dims_trans a b c : same_dims a b = true -> same_dims b c = true -> same_dims a c = true.
Proof. intros H1 H2. pose proof (all2_length _ _ _ H1). pose proof (all2_length _ _ _ H2).
  apply (all2_intro _ a c [] []); [lia|]. intros i Hi. apply Nat.eqb_eq.
  rewrite (same_dims_rows a b i H1). apply same_dims_rows. exact H2. Qed.

Lemma map2_length {A B C} (f : A -> B -> C) a b : length a = length b -> length (map2 f a b) = length a.
Proof. revert b; induction a as [|x a IH]; intros [|y b] H; cbn in *; try discriminate; auto. Qed.
Lemma map2_nth {A B C} (f : A -> B -> C) a b i da db dc : length a = length b -> (i < length a)%nat ->
  nth i (map2 f a b) dc = f (nth i a da) (nth i b db).
Proof. revert b i; induction a as [|x a IH]; intros [|y b] i H Hi; cbn in *; try discriminate; try lia.
  destruct i; [reflexivity|]. apply IH; lia. Qed.

(* the entries of b `op` a under equal dimensions *)
Lemma operate_at (op : Z -> Z -> Z) b a r : op 0%Z 0%Z = 0%Z -> bals_operate op b a = Some r ->
  same_dims b a = true /\ same_dims b r = true /\
  forall i j, bal_at r i j = op (bal_at b i j) (bal_at a i j).
Proof.
  intros H0 H. unfold bals_operate in H. destruct (same_dims b a) eqn:D; [|discriminate]. injection H as <-.
  pose proof (all2_length _ _ _ D) as L. split; [reflexivity|].
  assert (R : forall i, (i < length b)%nat ->
            nth i (map2 (map2 op) b a) [] = map2 op (nth i b []) (nth i a [])).
  { intros i Hi. apply map2_nth; assumption. }
  split.
  - apply (all2_intro _ _ _ [] []); [rewrite map2_length; auto|]. intros i Hi. rewrite R by exact Hi.
    apply Nat.eqb_eq. rewrite map2_length; [reflexivity|]. apply same_dims_rows. exact D.
  - intros i j. unfold bal_at. destruct (Nat.lt_ge_cases i (length b)) as [Hi|Hi].
    + rewrite R by exact Hi. pose proof (same_dims_rows b a i D) as Lr.
      destruct (Nat.lt_ge_cases j (length (nth i b []))) as [Hj|Hj].
      * apply map2_nth; assumption.
      * rewrite !nth_overflow; [symmetry; exact H0| lia | lia | rewrite map2_length; lia].
    + rewrite (nth_overflow (map2 _ _ _)) by (rewrite map2_length; lia).
      rewrite (nth_overflow b), (nth_overflow a) by lia. destruct j; cbn; symmetry; exact H0.
Qed.

(* ---------- the property's words ---------- *)
Definition locked_of (s : state) : list suballoc := al_locked (st_alloc s).
Definition bals_of (s : state) : list (list Z) := al_bals (st_alloc s).
(* every participant's balance of every asset drops (rises) by exactly its entry in d *)
Definition debited (cur new d : list (list Z)) : Prop :=
  same_dims cur d = true /\ same_dims cur new = true /\
  forall a p, bal_at new a p = (bal_at cur a p - bal_at d a p)%Z.
Definition credited (cur new d : list (list Z)) : Prop :=
  same_dims cur d = true /\ same_dims cur new = true /\
  forall a p, bal_at new a p = (bal_at cur a p + bal_at d a p)%Z.
(* the locked list is the old one plus exactly this sub-allocation *)
Definition funded (cur new : state) (id : bytes) (sums : list Z) (imap : list N) (d : list (list Z)) : Prop :=
  locked_of new = locked_of cur ++ [mkSA id sums imap] /\ debited (bals_of cur) (bals_of new) d.
(* the locked list is the old one minus exactly the (first) sub-allocation of that channel *)
Definition settled (cur new : state) (id : bytes) (d : list (list Z)) : Prop :=
  (exists pre x post, locked_of cur = pre ++ x :: post /\ sa_id x = id
      /\ (forall y, In y pre -> sa_id y <> id) /\ locked_of new = pre ++ post)
  /\ credited (bals_of cur) (bals_of new) d.

Lemma sub_debited cur d new x : bals_sub cur d = Some x -> balances_equal x new = true -> debited cur new d.
Proof.
  intros H E. apply balances_equal_eq in E. subst x.
  destruct (operate_at Z.sub cur d new eq_refl H) as (A & B & C). repeat split; assumption.
Qed.
Lemma add_credited cur d new x : bals_add cur d = Some x -> balances_equal x new = true -> credited cur new d.
Proof.
  intros H E. apply balances_equal_eq in E. subst x.
  destruct (operate_at Z.add cur d new eq_refl H) as (A & B & C). repeat split; assumption.
Qed.

Lemma find_sa_spec id l x : find_sa id l = Some x ->
  exists pre post, l = pre ++ x :: post /\ sa_id x = id /\ forall y, In y pre -> sa_id y <> id.
Proof.
  unfold find_sa. induction l as [|y l IH]; cbn [find]; [discriminate|].
  destruct (bytes_eqb (sa_id y) id) eqn:E.
  - intro H. injection H as <-. exists [], l. apply bytes_eqb_eq in E. repeat split; auto. intros ? [].
  - intro H. destruct (IH H) as (pre & post & -> & I & N). exists (y :: pre), post. repeat split; auto.
    intros z [<-|Hz]; [|auto]. intro C. rewrite C in E.
    assert (bytes_eqb id id = true) as X by (apply bytes_eqb_eq; reflexivity). rewrite X in E. discriminate.
Qed.
Lemma find_sa_none id l : find_sa id l = None -> forall y, In y l -> sa_id y <> id.
Proof.
  unfold find_sa. intros H y Hy C. pose proof (find_none _ _ H y Hy) as X. cbn in X.
  rewrite C in X. assert (bytes_eqb id id = true) as T by (apply bytes_eqb_eq; reflexivity). rewrite T in X. discriminate.
Qed.

(* removing the sub-allocation found under an id removes exactly that (first) entry *)
Lemma remove_found id l x r : find_sa id l = Some x -> remove_sa x l = Some r ->
  exists pre post, l = pre ++ x :: post /\ sa_id x = id /\ (forall y, In y pre -> sa_id y <> id) /\ r = pre ++ post.
Proof.
  intro F. destruct (find_sa_spec id l x F) as (pre & post & -> & I & N). intro R.
  exists pre, post. repeat split; auto. clear F.
  revert r R. induction pre as [|y pre IH]; intros r R; cbn [app remove_sa] in R.
  - assert (suballoc_equal x x = true) as E by (apply suballoc_equal_eq; reflexivity). rewrite E in R.
    injection R as <-. reflexivity.
  - destruct (suballoc_equal x y) eqn:E.
    + apply suballoc_equal_eq in E. subst y. exfalso. apply (N x); [left; reflexivity|exact I].
    + destruct (remove_sa x (pre ++ x :: post)) as [r'|] eqn:R'; [|discriminate]. injection R as <-.
      cbn [app]. f_equal. apply IH; [|reflexivity]. intros z Hz. apply N. right. exact Hz.
Qed.

(* ---------- CheckUpdate ---------- *)
Lemma check_ok_inv m s a g i : snd (step m (OCheckUpdate s a g i)) = OK ->
  valid_transition m s a = OK /\ sig_valid_for m i s g = true.
Proof.
  cbn [step]. unfold sig_valid_for. destruct (valid_transition m s a) eqn:VT; cbn [snd]; try discriminate.
  destruct (nth_error (mp_parts (ps m)) (N.to_nat i)) as [ad|]; cbn [snd]; [|discriminate].
  destruct (verify_state ad s g) as [[|]|]; cbn [snd]; try discriminate. auto.
Qed.

Lemma vt_ok_good m s actor c : current m = Some c -> alloc_valid (st_alloc (tx_st c)) = true ->
  valid_transition m s actor = OK -> GoodSuccessor m (tx_st c) s actor.
Proof.
  intros Hc Vc VT. unfold valid_transition in VT. rewrite Hc in VT.
  destruct (N.leb_spec (nparts m) actor) as [Ha|Ha]; [discriminate VT|].
  destruct (generic_valid m (tx_st c) s) eqn:G; [|discriminate VT].
  apply (generic_valid_iff m (tx_st c) s Vc) in G.
  destruct G as (H1 & H2 & H3 & H4 & H5 & H6 & H7 & H8). constructor; assumption.
Qed.
