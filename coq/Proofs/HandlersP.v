(* Theorems about the receiving side of the client (C07, C12). *)
From Coq Require Import Arith PeanoNat ZifyN ZifyNat ZifyBool.
From V Require Import Model.Machine Model.MachineSpec Model.Handlers Proofs.ChannelP Proofs.MachineP Proofs.C02P.
Open Scope N_scope.

(* ---------- lists of lists of balances ---------- *)
Definition bal_at (b : list (list Z)) (a p : nat) : Z := nth p (nth a b []) 0%Z.

Lemma all2_length {A B} (f : A -> B -> bool) a b : all2 f a b = true -> length a = length b.
Proof. revert b; induction a as [|x a IH]; intros [|y b] H; cbn in *; try discriminate; auto.
  apply andb_true_iff in H as [_ H]. f_equal. auto. Qed.
Lemma all2_nth {A B} (f : A -> B -> bool) a b i da db :
  all2 f a b = true -> (i < length a)%nat -> f (nth i a da) (nth i b db) = true.
Proof. revert b i; induction a as [|x a IH]; intros [|y b] i H Hi; cbn in *; try discriminate; try lia.
  apply andb_true_iff in H as [H1 H2]. destruct i; [exact H1|]. apply IH; [exact H2|lia]. Qed.
Lemma all2_refl {A} (f : A -> A -> bool) a : (forall x, f x x = true) -> all2 f a a = true.
Proof. intro H. induction a; cbn; [reflexivity|]. rewrite H, IHa. reflexivity. Qed.
Lemma all2_intro {A B} (f : A -> B -> bool) a b da db : length a = length b ->
  (forall i, (i < length a)%nat -> f (nth i a da) (nth i b db) = true) -> all2 f a b = true.
Proof. revert b; induction a as [|x a IH]; intros [|y b] L H; cbn in *; try discriminate; [reflexivity|].
  apply andb_true_iff. split; [apply (H 0%nat); lia|]. apply IH; [lia|]. intros i Hi. apply (H (S i)). lia. Qed.

Lemma same_dims_refl a : same_dims a a = true.
Proof. apply all2_refl. intro. apply Nat.eqb_refl. Qed.
Lemma same_dims_rows a b i : same_dims a b = true -> length (nth i a []) = length (nth i b []).
Proof. intro H. destruct (Nat.lt_ge_cases i (length a)) as [Hi|Hi].
  - apply Nat.eqb_eq. apply (all2_nth _ a b i [] [] H Hi).
  - pose proof (all2_length _ _ _ H) as L. rewrite !nth_overflow by lia. reflexivity. Qed.
Lemma same_dims_sym a b : same_dims a b = true -> same_dims b a = true.
Proof. intro H. pose proof (all2_length _ _ _ H) as L. apply (all2_intro _ b a [] []); [lia|].
  intros i Hi. apply Nat.eqb_eq. symmetry. apply same_dims_rows. exact H. Qed.
Lemma same_dims_trans a b c : same_dims a b = true -> same_dims b c = true -> same_dims a c = true.
Proof. intros H1 H2. pose proof (all2_length _ _ _ H1). pose proof (all2_length _ _ _ H2).
  apply (all2_intro _ a c [] []); [lia|]. intros i Hi. apply Nat.eqb_eq.
  rewrite (same_dims_rows a b i H1). apply same_dims_rows. exact H2. Qed.

Lemma map2_length {A B C} (f : A -> B -> C) a b : length a = length b -> length (map2 f a b) = length a.
Proof. revert b; induction a as [|x a IH]; intros [|y b] H; cbn in *; try discriminate; auto. Qed.
Lemma map2_nth {A B C} (f : A -> B -> C) a b i da db dc : length a = length b -> (i < length a)%nat ->
  nth i (map2 f a b) dc = f (nth i a da) (nth i b db).
Proof. revert b i; induction a as [|x a IH]; intros [|y b] i H Hi; cbn in *; try discriminate; try lia.
  destruct i; [reflexivity|]. apply IH; lia. Qed.

(* the entries of b `op` a under equal dimensions *)
Lemma operate_at (op : Z -> Z -> Z) b a r : op 0%Z 0%Z = 0%Z -> bals_operate op b a = Some r ->
  same_dims b a = true /\ same_dims b r = true /\
  forall i j, bal_at r i j = op (bal_at b i j) (bal_at a i j).
Proof.
  intros H0 H. unfold bals_operate in H. destruct (same_dims b a) eqn:D; [|discriminate]. injection H as <-.
  pose proof (all2_length _ _ _ D) as L. split; [reflexivity|].
  assert (R : forall i, (i < length b)%nat ->
            nth i (map2 (map2 op) b a) [] = map2 op (nth i b []) (nth i a [])).
  { intros i Hi. apply map2_nth; assumption. }
  split.
  - apply (all2_intro _ _ _ [] []); [rewrite map2_length; auto|]. intros i Hi. rewrite R by exact Hi.
    apply Nat.eqb_eq. rewrite map2_length; [reflexivity|]. apply same_dims_rows. exact D.
  - intros i j. unfold bal_at. destruct (Nat.lt_ge_cases i (length b)) as [Hi|Hi].
    + rewrite R by exact Hi. pose proof (same_dims_rows b a i D) as Lr.
      destruct (Nat.lt_ge_cases j (length (nth i b []))) as [Hj|Hj].
      * apply map2_nth; assumption.
      * rewrite !nth_overflow; [symmetry; exact H0| lia | lia | rewrite map2_length; lia].
    + rewrite (nth_overflow (map2 _ _ _)) by (rewrite map2_length; lia).
      rewrite (nth_overflow b), (nth_overflow a) by lia. destruct j; cbn; symmetry; exact H0.
Qed.

(* ---------- the property's words ---------- *)
Definition locked_of (s : state) : list suballoc := al_locked (st_alloc s).
Definition bals_of (s : state) : list (list Z) := al_bals (st_alloc s).
(* every participant's balance of every asset drops (rises) by exactly its entry in d *)
Definition debited (cur new d : list (list Z)) : Prop :=
  same_dims cur d = true /\ same_dims cur new = true /\
  forall a p, bal_at new a p = (bal_at cur a p - bal_at d a p)%Z.
Definition credited (cur new d : list (list Z)) : Prop :=
  same_dims cur d = true /\ same_dims cur new = true /\
  forall a p, bal_at new a p = (bal_at cur a p + bal_at d a p)%Z.
(* the locked list is the old one plus exactly this sub-allocation *)
Definition funded (cur new : state) (id : bytes) (sums : list Z) (imap : list N) (d : list (list Z)) : Prop :=
  locked_of new = locked_of cur ++ [mkSA id sums imap] /\ debited (bals_of cur) (bals_of new) d.
(* the locked list is the old one minus exactly the (first) sub-allocation of that channel *)
Definition settled (cur new : state) (id : bytes) (d : list (list Z)) : Prop :=
  (exists pre x post, locked_of cur = pre ++ x :: post /\ sa_id x = id
      /\ (forall y, In y pre -> sa_id y <> id) /\ locked_of new = pre ++ post)
  /\ credited (bals_of cur) (bals_of new) d.

Lemma sub_debited cur d new x : bals_sub cur d = Some x -> balances_equal x new = true -> debited cur new d.
Proof.
  intros H E. apply balances_equal_eq in E. subst x.
  destruct (operate_at Z.sub cur d new eq_refl H) as (A & B & C). repeat split; assumption.
Qed.
Lemma add_credited cur d new x : bals_add cur d = Some x -> balances_equal x new = true -> credited cur new d.
Proof.
  intros H E. apply balances_equal_eq in E. subst x.
  destruct (operate_at Z.add cur d new eq_refl H) as (A & B & C). repeat split; assumption.
Qed.

Lemma find_sa_spec id l x : find_sa id l = Some x ->
  exists pre post, l = pre ++ x :: post /\ sa_id x = id /\ forall y, In y pre -> sa_id y <> id.
Proof.
  unfold find_sa. induction l as [|y l IH]; cbn [find]; [discriminate|].
  destruct (bytes_eqb (sa_id y) id) eqn:E.
  - intro H. injection H as <-. exists [], l. apply bytes_eqb_eq in E. repeat split; auto; intros ? [].
  - intro H. destruct (IH H) as (pre & post & -> & I & N). exists (y :: pre), post. repeat split; auto.
    intros z [<-|Hz]; [|auto]. intro C. rewrite C in E.
    assert (bytes_eqb id id = true) as X by (apply bytes_eqb_eq; reflexivity). rewrite X in E. discriminate.
Qed.
Lemma find_sa_none id l : find_sa id l = None -> forall y, In y l -> sa_id y <> id.
Proof.
  unfold find_sa. intros H y Hy C. pose proof (find_none _ _ H y Hy) as X. cbn in X.
  rewrite C in X. assert (bytes_eqb id id = true) as T by (apply bytes_eqb_eq; reflexivity). rewrite T in X. discriminate.
Qed.

(* removing the sub-allocation found under an id removes exactly that (first) entry *)
Lemma remove_found id l x r : find_sa id l = Some x -> remove_sa x l = Some r ->
  exists pre post, l = pre ++ x :: post /\ sa_id x = id /\ (forall y, In y pre -> sa_id y <> id) /\ r = pre ++ post.
Proof.
  intro F. destruct (find_sa_spec id l x F) as (pre & post & -> & I & N). intro R.
  exists pre, post. repeat split; auto. clear F.
  revert r R. induction pre as [|y pre IH]; intros r R; cbn [app remove_sa] in R.
  - assert (suballoc_equal x x = true) as E by (apply suballoc_equal_eq; reflexivity). rewrite E in R.
    injection R as <-. reflexivity.
  - destruct (suballoc_equal x y) eqn:E.
    + apply suballoc_equal_eq in E. subst y. exfalso. apply (N x); [left; reflexivity|exact I].
    + destruct (remove_sa x (pre ++ x :: post)) as [r'|] eqn:R'; [|discriminate]. injection R as <-.
      cbn [app]. f_equal. apply IH; [|reflexivity]. intros z Hz. apply N. right. exact Hz.
Qed.

(* ---------- CheckUpdate ---------- *)
Lemma check_ok_inv m s a g i : snd (step m (OCheckUpdate s a g i)) = OK ->
  valid_transition m s a = OK /\ sig_valid_for m i s g = true.
Proof.
  cbn [step]. unfold sig_valid_for. destruct (valid_transition m s a) eqn:VT; cbn [snd]; try discriminate.
  destruct (nth_error (mp_parts (ps m)) (N.to_nat i)) as [ad|]; cbn [snd]; [|discriminate].
  destruct (verify_state ad s g) as [[|]|]; cbn [snd]; try discriminate. auto.
Qed.

Lemma vt_ok_good m s actor c : current m = Some c -> alloc_valid (st_alloc (tx_st c)) = true ->
  valid_transition m s actor = OK -> GoodSuccessor m (tx_st c) s actor.
Proof.
  intros Hc Vc VT. unfold valid_transition in VT. rewrite Hc in VT.
  destruct (N.leb_spec (nparts m) actor) as [Ha|Ha]; [discriminate VT|].
  destruct (generic_valid m (tx_st c) s) eqn:G; [|discriminate VT].
  apply (generic_valid_iff m (tx_st c) s Vc) in G.
  destruct G as (H1 & H2 & H3 & H4 & H5 & H6 & H7 & H8). constructor; assumption.
Qed.

(* walk down a chain of early returns *)
Ltac chain H :=
  repeat match type of H with
         | (if ?b then _ else _) = _ => let E := fresh "E" in destruct b eqn:E; try discriminate H
         | (match ?x with _ => _ end) = _ => let E := fresh "E" in destruct x eqn:E; try discriminate H
         end.
Ltac boolify :=
  repeat match goal with
         | H : negb _ = false |- _ => apply negb_false_iff in H
         | H : negb _ = true |- _ => apply negb_true_iff in H
         | H : _ && _ = true |- _ => apply andb_true_iff in H; destruct H
         | H : true && _ = false |- _ => cbn [andb] in H
         end.

(* ---------- what the repaired filters and validators accept ---------- *)
Lemma fund_filter_safe cur new ic : fund_filter repaired cur new ic = true ->
  funded cur new (ic_id ic) (bals_sum (ic_bals ic)) [] (ic_bals ic)
  /\ find_sa (ic_id ic) (locked_of cur) = None.
Proof.
  unfold fund_filter, funded, locked_of, bals_of. cbn [repaired fix_fund_exact fix_locked_rest].
  destruct (find_sa (ic_id ic) (al_locked (st_alloc cur))); [discriminate|].
  destruct (find_sa (ic_id ic) (al_locked (st_alloc new))); [|discriminate].
  intro H. boolify.
  destruct (bals_sub (al_bals (st_alloc cur)) (ic_bals ic)) as [d|] eqn:S; [|discriminate].
  split; [|reflexivity]. split.
  - symmetry. apply suballocs_equal_eq. assumption.
  - eapply sub_debited; eassumption.
Qed.

Lemma settle_filter_safe cur new ic : settle_filter repaired cur new ic = Some true ->
  settled cur new (ic_id ic) (ic_bals ic).
Proof.
  unfold settle_filter, settled, locked_of, bals_of. cbn [repaired fix_locked_rest].
  destruct (bals_add (al_bals (st_alloc cur)) (ic_bals ic)) as [s|] eqn:A; [|discriminate].
  destruct (find_sa (ic_id ic) (al_locked (st_alloc cur))) as [x|] eqn:F; [|discriminate].
  destruct (find_sa (ic_id ic) (al_locked (st_alloc new))); [discriminate|].
  intro H. injection H as H. boolify.
  destruct (remove_sa x (al_locked (st_alloc cur))) as [rest|] eqn:R; [|discriminate].
  split.
  - destruct (remove_found _ _ _ _ F R) as (pre & post & L & I & N & ->).
    exists pre, x, post. repeat split; auto. symmetry. apply suballocs_equal_eq. assumption.
  - eapply add_credited; eassumption.
Qed.

Lemma validate_vfund_safe cur u init imap : validate_vfund repaired cur u init imap = VOk ->
  exists virt, transform_balances (bals_of (ss_state init)) (nat_np cur) imap = Some virt /\
    funded cur (u_st u) (vp_id (ss_params init)) (alloc_sum (st_alloc (ss_state init))) imap virt
    /\ find_sa (vp_id (ss_params init)) (locked_of cur) = None.
Proof.
  unfold validate_vfund, funded, locked_of, bals_of. cbn [repaired fix_vc_dims fix_fund_exact fix_locked_rest andb].
  intro H. chain H. boolify.
  match goal with H : suballoc_equal ?s _ = true |- _ => apply suballoc_equal_eq in H; subst s end.
  cbn [sa_imap] in *.
  eexists. split; [eassumption|]. split; [|reflexivity]. split.
  - symmetry. apply suballocs_equal_eq. assumption.
  - match goal with H : match bals_sub ?a ?b with _ => _ end = true |- _ =>
      destruct (bals_sub a b) eqn:S; [|discriminate H]; eapply sub_debited; eassumption end.
Qed.

Lemma validate_vsettle_safe cur u fin : validate_vsettle repaired cur u fin = VOk ->
  exists sa virt, find_sa (vp_id (ss_params fin)) (locked_of cur) = Some sa
    /\ sa_bals sa = alloc_sum (st_alloc (ss_state fin))
    /\ transform_balances (bals_of (ss_state fin)) (nat_np cur) (sa_imap sa) = Some virt
    /\ settled cur (u_st u) (vp_id (ss_params fin)) virt.
Proof.
  unfold validate_vsettle, settled, locked_of, bals_of. cbn [repaired fix_vc_dims fix_locked_rest andb].
  intro H. chain H. boolify.
  match goal with H : find_sa _ (al_locked (st_alloc cur)) = Some ?s |- _ => exists s; rename H into F end.
  eexists. split; [reflexivity|]. split; [apply zlist_eqb_eq; assumption|]. split; [eassumption|].
  split.
  - match goal with H : match remove_sa ?a ?b with _ => _ end = true |- _ =>
      destruct (remove_sa a b) as [rest|] eqn:R; [|discriminate H];
      destruct (remove_found _ _ _ _ F R) as (pre & post & L & I & N & ->);
      exists pre, a, post; repeat split; auto; symmetry; apply suballocs_equal_eq; assumption end.
  - eapply add_credited; eassumption.
Qed.

(* ---------- acceptUpdate ---------- *)
Lemma peer_idx_neq m : peer_idx m <> me m.
Proof.
  unfold peer_idx. intro H.
  assert (X : N.lxor (me m) (N.lxor (me m) 1) = N.lxor (me m) (me m)) by (f_equal; exact H).
  rewrite <- N.lxor_assoc, N.lxor_nilpotent, N.lxor_0_l in X. discriminate X.
Qed.

Lemma update_ok_shape m s a m1 : step m (OUpdate s a) = (m1, OK) ->
  m1 = set_staging m Signing s /\ ph m = Acting /\ valid_transition m s a = OK.
Proof.
  cbn [step]. destruct (expect m Acting Signing) eqn:E; cbn [negb]; [|intro H; discriminate H].
  destruct (valid_transition m s a) eqn:VT; intro H; inversion H. subst.
  repeat split. eapply expect_phase; exact E.
Qed.

Lemma nth_error_set_nth_other {A} i j (x : A) l : i <> j -> nth_error (set_nth i x l) j = nth_error l j.
Proof. revert i j; induction l as [|y l IH]; intros [|i] [|j] H; cbn; try reflexivity; try congruence.
  apply IH. congruence. Qed.
Lemma nth_error_repeat_some {A} (x : A) n i y : nth_error (repeat x n) i = Some y -> y = x.
Proof. apply nth_error_repeat. Qed.

(* when acceptUpdate signs, it signs exactly the proposed state with the client's own key, the
   machine was in phase Acting and the update passed machine.Update *)
Lemma accept_signed_inv m u p m' sg : accept_update m u p = (m', AccSigned sg) -> p <> me m ->
  ph m = Acting /\ valid_transition m (u_st u) (u_actor u) = OK /\
  exists k, nth_error (mp_parts (ps m)) (N.to_nat (me m)) = Some k /\ sign_state k (u_st u) = Some sg.
Proof.
  intros H Hne. unfold accept_update in H.
  destruct (step m (OUpdate (u_st u) (u_actor u))) as [m1 o1] eqn:S1.
  destruct o1; try (inversion H; fail).
  apply update_ok_shape in S1 as (-> & Hph & VT). split; [exact Hph|]. split; [exact VT|].
  destruct (step (set_staging m Signing (u_st u)) (OAddSig p (u_sig u))) as [m2 o2] eqn:S2.
  destruct o2; try (inversion H; fail).
  cbn [step set_staging ph staging ps me current new_tx tx_sigs tx_st] in S2.
  destruct (signing_phase Signing); cbn [negb] in S2; [|inversion S2].
  destruct (nth_error (repeat None (N.to_nat (nparts m))) (N.to_nat p)) as [[g|]|] eqn:Np; try (inversion S2; fail).
  destruct (nth_error (mp_parts (ps m)) (N.to_nat p)) as [ad|]; [|inversion S2].
  destruct (verify_state ad (u_st u) (u_sig u)) as [[|]|]; inversion S2. clear S2. subst.
  match type of H with context [step ?mm OSig] => destruct (step mm OSig) as [m3 o3] eqn:S3 end.
  destruct o3; try (inversion H; fail).
  cbn [step ph staging me ps tx_sigs tx_st current] in S3.
  destruct (signing_phase Signing); cbn [negb] in S3; [|inversion S3].
  rewrite nth_error_set_nth_other in S3 by (intro C; apply Hne; lia).
  destruct (nth_error (repeat None (N.to_nat (nparts m))) (N.to_nat (me m))) as [[g|]|] eqn:Nm; try (inversion S3; fail).
  { apply nth_error_repeat_some in Nm. discriminate Nm. }
  destruct (nth_error (mp_parts (ps m)) (N.to_nat (me m))) as [k|]; [|inversion S3].
  destruct (sign_state k (u_st u)) as [g|] eqn:SS; inversion S3. subst. clear S3.
  exists k. split; [reflexivity|].
  cbn [staging] in H.
  match type of H with context [step ?mm ?oo] => destruct (step mm oo) as [m4 o4] end.
  destruct o4; inversion H; subst; exact SS.
Qed.

(* ---------- which requests can end in a countersignature ---------- *)
Definition accepting (d : decision) : Prop := d = AskUser \/ d = AutoAccept.
Definition never_accepts (k : mach -> rstate -> result) : Prop := forall m s, ~ accepting (r_dec (k m s)).

Lemma err_logged_never : never_accepts err_logged.
Proof. intros m s [H|H]; discriminate H. Qed.
Lemma reject_last_never v : never_accepts (fun m s => reject_last v m s).
Proof. intros m s. unfold reject_last. destruct (respond v SentRej true s); [destruct (rs_called s)|];
  intros [H|H]; discriminate H. Qed.

Lemma auto_accept_inv v m u p s pa k : never_accepts k ->
  accepting (r_dec (auto_accept v m u p s pa k)) ->
  r_dec (auto_accept v m u p s pa k) = AutoAccept /\ r_path (auto_accept v m u p s pa k) = Some pa
  /\ exists m' sg, accept_update m u p = (m', AccSigned sg).
Proof.
  intros Hk. unfold auto_accept. destruct (rs_called s).
  - destruct (respond v SentAcc false s); [intro A; elim (Hk _ _ A)|intros [A|A]; discriminate A].
  - destruct (accept_update m u p) as [m' [sg| |]] eqn:AU.
    + destruct (respond v SentAcc true s); [|intros [A|A]; discriminate A].
      intros _. cbn [r_dec r_path]. repeat split; eauto.
    + destruct (respond v SentAcc false s); [intro A; elim (Hk _ _ A)|intros [A|A]; discriminate A].
    + intros [A|A]; discriminate A.
Qed.

Lemma reject_then_rep m s k : ~ accepting (r_dec (reject_then repaired m s k)).
Proof. unfold reject_then. cbn [repaired fix_vc_return]. destruct (respond _ _ _ _); intros [H|H]; discriminate H. Qed.

Lemma first_fund_hit v cur new l ic : first_fund v cur new l = FHit ic -> In ic l /\ fund_filter v cur new ic = true.
Proof. induction l as [|x l IH]; cbn [first_fund]; [discriminate|].
  destruct (fund_filter v cur new x) eqn:F.
  - intro H. injection H as <-. split; [left; reflexivity|exact F].
  - intro H. destruct (IH H). split; [right|]; assumption. Qed.
Lemma first_settle_hit v cur new l ic : first_settle v cur new l = FHit ic -> In ic l /\ settle_filter v cur new ic = Some true.
Proof. induction l as [|x l IH]; cbn [first_settle]; [discriminate|].
  destruct (settle_filter v cur new x) as [[|]|] eqn:F; try discriminate.
  - intro H. injection H as <-. split; [left; reflexivity|exact F].
  - intro H. destruct (IH H). split; [right|]; assumption. Qed.

Definition req_case (c : chanctx) (cur : state) (r : req) (res : result) : Prop :=
  let pidx := peer_idx (cx_mach c) in
  match r with
  | RUpdate u =>
      (r_dec res = AskUser /\ valid_two_party cur u pidx = true)
      \/ (r_dec res = AutoAccept /\ exists ic, In ic (cx_fund c) /\ fund_filter repaired cur (u_st u) ic = true)
      \/ (r_dec res = AutoAccept /\ exists ic, In ic (cx_settle c) /\ settle_filter repaired cur (u_st u) ic = Some true)
  | RVFund u init imap => r_dec res = AutoAccept /\ validate_vfund repaired cur u init imap = VOk
  | RVSettle u fin => r_dec res = AutoAccept /\ validate_vsettle repaired cur u fin = VOk
  end.

Lemma hur_accepting c r :
  accepting (r_dec (handle_update_req repaired c r)) ->
  let m := cx_mach c in let u := req_upd r in
  snd (step m (OCheckUpdate (u_st u) (u_actor u) (u_sig u) (peer_idx m))) = OK /\
  exists ct, current m = Some ct /\ req_case c (tx_st ct) r (handle_update_req repaired c r)
  /\ (r_dec (handle_update_req repaired c r) = AutoAccept ->
      exists m' sg, accept_update m u (peer_idx m) = (m', AccSigned sg)).
Proof.
  unfold handle_update_req. cbn zeta.
  destruct (cx_stuck c); [intros [H|H]; discriminate H|].
  destruct (snd (step (cx_mach c) (OCheckUpdate (u_st (req_upd r)) (u_actor (req_upd r)) (u_sig (req_upd r)) (peer_idx (cx_mach c))))) eqn:CU;
    try (intros [H|H]; discriminate H).
  destruct (current (cx_mach c)) as [ct|] eqn:Hc; [|intros [H|H]; discriminate H].
  intro A. split; [reflexivity|]. exists ct. split; [reflexivity|].
  destruct r as [u|u init imap|u fin]; cbn [req_upd req_case] in *.
  - destruct (first_fund repaired (tx_st ct) (u_st u) (cx_fund c)) as [|ic|] eqn:FF.
    + destruct (first_settle repaired (tx_st ct) (u_st u) (cx_settle c)) as [|ic|] eqn:FS.
      * destruct (valid_two_party (tx_st ct) u (peer_idx (cx_mach c))) eqn:V2; [|destruct A as [A|A]; discriminate A].
        split; [left; auto|]. intro C; discriminate C.
      * unfold intercept in *. destruct (ic_awaited ic); [|destruct A as [A|A]; discriminate A].
        destruct (auto_accept_inv _ _ _ _ _ _ _ err_logged_never A) as (D & _ & X).
        apply first_settle_hit in FS. split; [right; right; split; [exact D|exists ic; exact FS]|intros _; exact X].
      * destruct A as [A|A]; discriminate A.
    + unfold intercept in *. destruct (ic_awaited ic); [|destruct A as [A|A]; discriminate A].
      destruct (auto_accept_inv _ _ _ _ _ _ _ err_logged_never A) as (D & _ & X).
      apply first_fund_hit in FF. split; [right; left; split; [exact D|exists ic; exact FF]|intros _; exact X].
    + destruct A as [A|A]; discriminate A.
  - unfold handle_vfund in *.
    destruct (validate_vfund repaired (tx_st ct) u init imap) eqn:VV.
    + destruct (cx_vmatch c).
      * destruct (auto_accept_inv _ _ _ _ _ _ _ err_logged_never A) as (D & _ & X). auto.
      * elim (reject_then_rep _ _ _ A).
    + elim (reject_then_rep _ _ _ A).
    + destruct A as [A|A]; discriminate A.
  - unfold handle_vsettle in *.
    destruct (validate_vsettle repaired (tx_st ct) u fin) eqn:VV.
    + destruct (cx_vmatch c).
      * destruct (auto_accept_inv _ _ _ _ _ _ _ (reject_last_never repaired) A) as (D & _ & X). auto.
      * elim (reject_last_never repaired _ _ A).
    + elim (reject_then_rep _ _ _ A).
    + destruct A as [A|A]; discriminate A.
Qed.

(* ---------- C07 ---------- *)
Definition cur_valid (c : chanctx) : Prop :=
  forall ct, current (cx_mach c) = Some ct -> alloc_valid (st_alloc (tx_st ct)) = true.

(* the change of locked funds and balances that the property allows for a request of each kind *)
Definition safe_change (c : chanctx) (cur : state) (r : req) (d : decision) : Prop :=
  let new := u_st (req_upd r) in
  match r with
  | RUpdate u =>
      match d with
      | AskUser => u_actor u = peer_idx (cx_mach c) /\ locked_of new = locked_of cur
      | _ => (exists ic, In ic (cx_fund c) /\ find_sa (ic_id ic) (locked_of cur) = None
                         /\ funded cur new (ic_id ic) (bals_sum (ic_bals ic)) [] (ic_bals ic))
             \/ (exists ic, In ic (cx_settle c) /\ settled cur new (ic_id ic) (ic_bals ic))
      end
  | RVFund _ init imap =>
      exists virt, transform_balances (bals_of (ss_state init)) (nat_np cur) imap = Some virt
        /\ find_sa (vp_id (ss_params init)) (locked_of cur) = None
        /\ funded cur new (vp_id (ss_params init)) (alloc_sum (st_alloc (ss_state init))) imap virt
  | RVSettle _ fin =>
      exists sa virt, find_sa (vp_id (ss_params fin)) (locked_of cur) = Some sa
        /\ transform_balances (bals_of (ss_state fin)) (nat_np cur) (sa_imap sa) = Some virt
        /\ settled cur new (vp_id (ss_params fin)) virt
  end.

Lemma C07_countersign_safe c r sg : cur_valid c -> countersigns repaired c r = Some sg ->
  let m := cx_mach c in let u := req_upd r in
  exists ct own, current m = Some ct
    /\ sig_valid_for m (peer_idx m) (u_st u) (u_sig u) = true          (* the peer signed exactly this state *)
    /\ GoodSuccessor m (tx_st ct) (u_st u) (u_actor u)                 (* valid successor of the current state *)
    /\ nth_error (mp_parts (ps m)) (N.to_nat (me m)) = Some own
    /\ sg = SigOf own (enc_state (u_st u))                             (* what is countersigned is that state *)
    /\ safe_change c (tx_st ct) r (r_dec (handle_update_req repaired c r)).
Proof.
  intros CV H. cbn zeta. unfold countersigns in H.
  assert (A : accepting (r_dec (handle_update_req repaired c r))).
  { destruct (r_dec (handle_update_req repaired c r)); try discriminate H; [left|right]; reflexivity. }
  destruct (hur_accepting c r A) as (CU & ct & Hc & RC & AA).
  apply check_ok_inv in CU as [VT SV].
  assert (S : exists m', accept_update (cx_mach c) (req_upd r) (peer_idx (cx_mach c)) = (m', AccSigned sg)).
  { destruct (r_dec (handle_update_req repaired c r)); try discriminate H.
    - unfold user_answer in H.
      destruct (accept_update (cx_mach c) (req_upd r) (peer_idx (cx_mach c))) as [m' [g| |]]; cbn [snd] in H; try discriminate H.
      injection H as ->. eauto.
    - destruct (accept_update (cx_mach c) (req_upd r) (peer_idx (cx_mach c))) as [m' [g| |]]; try discriminate H.
      injection H as ->. eauto. }
  destruct S as [m' S].
  destruct (accept_signed_inv _ _ _ _ _ S (peer_idx_neq _)) as (_ & _ & k & Hk & SS).
  exists ct, k. split; [exact Hc|]. split; [exact SV|].
  split; [apply vt_ok_good; [exact Hc|apply CV; exact Hc|exact VT]|].
  split; [exact Hk|]. split.
  { unfold sign_state in SS. destruct (state_encodable (u_st (req_upd r))); [|discriminate SS]. injection SS as <-. reflexivity. }
  unfold safe_change. destruct r as [u|u init imap|u fin]; cbn [req_upd req_case] in *.
  - destruct RC as [[D V2]|[[D (ic & I & F)]|[D (ic & I & F)]]]; rewrite D.
    + unfold valid_two_party in V2. apply andb_true_iff in V2 as [V1 V2].
      apply N.eqb_eq in V1. apply suballocs_equal_eq in V2. unfold locked_of. auto.
    + left. exists ic. destruct (fund_filter_safe _ _ _ F). auto.
    + right. exists ic. split; [exact I|]. apply settle_filter_safe. exact F.
  - destruct RC as [_ V]. destruct (validate_vfund_safe _ _ _ _ V) as (virt & T & F & N). exists virt. auto.
  - destruct RC as [_ V]. destruct (validate_vsettle_safe _ _ _ V) as (sa & virt & F & _ & T & S'). exists sa, virt. auto.
Qed.

(* ---------- C12: honest contexts, decodable requests ---------- *)
(* what a channel registered with an honest client looks like while no handler is stuck *)
Record honest_ctx (c : chanctx) : Prop := mkHonest {
  h_two : length (mp_parts (ps (cx_mach c))) = 2%nat;        (* two-party channels only *)
  h_me : me (cx_mach c) < 2;
  h_app : mp_kind (ps (cx_mach c)) <> Some KMock;             (* NoApp or the payment app *)
  h_cur : exists ct, current (cx_mach c) = Some ct            (* registered channels have a current state *)
          /\ alloc_valid (st_alloc (tx_st ct)) = true
          /\ num_parts (al_bals (st_alloc (tx_st ct))) = nparts (cx_mach c);
  h_settle : forall ic ct, In ic (cx_settle c) -> current (cx_mach c) = Some ct ->
             same_dims (al_bals (st_alloc (tx_st ct))) (ic_bals ic) = true;
  h_await : forall ic, In ic (cx_fund c ++ cx_settle c) -> ic_awaited ic = true;
  h_free : cx_stuck c = false }.

(* what the decoders guarantee (Allocation.Decode validates; the data of a state of the payment app
   is decoded as NoData) *)
Definition upd_decodable (P : mparams) (u : upd) : Prop :=
  alloc_valid (st_alloc (u_st u)) = true /\
  (mp_kind P = Some KPay -> st_app (u_st u) = mp_app P -> st_data (u_st u) = []).
Definition req_decodable (P : mparams) (r : req) : Prop :=
  upd_decodable P (req_upd r) /\
  match r with
  | RUpdate _ => True
  | RVFund _ s _ | RVSettle _ s => alloc_valid (st_alloc (ss_state s)) = true
  end.

Definition fine (d : decision) : Prop := d = Drop \/ d = AskUser \/ d = AutoAccept \/ d = Reject.
Definition res_fine (r : result) : Prop := fine (r_dec r) /\ r_unlocked r = true /\ (length (r_sent r) <= 1)%nat.

Lemma signing_Signing : signing_phase Signing = true.
Proof. vm_compute. reflexivity. Qed.
Lemma nth_error_repeat_lt {A} (x : A) n i : (i < n)%nat -> nth_error (repeat x n) i = Some x.
Proof. revert i; induction n as [|n IH]; intros [|i] H; cbn; try lia; [reflexivity|]. apply IH. lia. Qed.
Lemma nth_error_lt_some {A} (l : list A) i : (i < length l)%nat -> exists x, nth_error l i = Some x.
Proof. intro H. destruct (nth_error l i) eqn:E; [eauto|]. apply nth_error_None in E. lia. Qed.

Lemma peer_idx_lt m : me m < 2 -> peer_idx m < 2.
Proof. unfold peer_idx. intro H. assert (me m = 0 \/ me m = 1) as [->| ->] by lia; cbn; lia. Qed.

Lemma honest_nparts c : honest_ctx c -> nparts (cx_mach c) = 2.
Proof. intros [H _ _ _ _ _ _]. unfold nparts, len. rewrite H. reflexivity. Qed.

(* valid_transition does not panic on a decodable update in an honest context *)
Lemma vt_no_panic c u : honest_ctx c -> upd_decodable (ps (cx_mach c)) u ->
  valid_transition (cx_mach c) (u_st u) (u_actor u) <> PANIC.
Proof.
  intros Hh [_ Hd]. destruct (h_cur c Hh) as (ct & Hc & Vc & Nc). unfold valid_transition. rewrite Hc.
  destruct (nparts (cx_mach c) <=? u_actor u); [discriminate|].
  destruct (generic_valid (cx_mach c) (tx_st ct) (u_st u)) eqn:G; [|discriminate].
  unfold app_valid_transition. pose proof (h_app c Hh) as Hk.
  destruct (mp_kind (ps (cx_mach c))) as [[|]|] eqn:K; [|elim Hk; reflexivity|discriminate].
  unfold generic_valid in G. rewrite !andb_true_iff in G. destruct G as [[[[[[[_ G2] _] _] G5] G6] G7] _].
  apply app_should_equal_eq in G2. rewrite (Hd eq_refl (eq_sym G2)). cbn [is_nodata negb].
  apply N.eqb_eq in G6. apply nlist_eqb_eq in G7.
  apply pay_rows_valid_no_panic; [exact Vc|exact G5|rewrite Nc, G6; reflexivity|exact G7].
Qed.

Lemma check_no_panic c u : honest_ctx c -> upd_decodable (ps (cx_mach c)) u ->
  snd (step (cx_mach c) (OCheckUpdate (u_st u) (u_actor u) (u_sig u) (peer_idx (cx_mach c)))) <> PANIC.
Proof.
  intros Hh Hd. cbn [step]. pose proof (vt_no_panic c u Hh Hd) as NP.
  destruct (valid_transition (cx_mach c) (u_st u) (u_actor u)); cbn [snd]; try discriminate; [|elim NP; reflexivity].
  destruct (nth_error_lt_some (mp_parts (ps (cx_mach c))) (N.to_nat (peer_idx (cx_mach c)))) as [a Ha].
  { rewrite (h_two c Hh). pose proof (peer_idx_lt _ (h_me c Hh)). lia. }
  rewrite Ha. destruct (verify_state a (u_st u) (u_sig u)) as [[|]|]; discriminate.
Qed.

(* acceptUpdate, step by step, in an honest context *)
Lemma accept_update_eq c u : honest_ctx c ->
  let m := cx_mach c in let p := peer_idx m in
  exists ad k, nth_error (mp_parts (ps m)) (N.to_nat p) = Some ad /\ nth_error (mp_parts (ps m)) (N.to_nat (me m)) = Some k /\
  accept_update m u p =
    if expect m Acting Signing then
      match valid_transition m (u_st u) (u_actor u) with
      | OK =>
          let m1 := set_staging m Signing (u_st u) in
          match verify_state ad (u_st u) (u_sig u) with
          | Some true =>
              let sigs2 := set_nth (N.to_nat p) (Some (u_sig u)) (repeat None (N.to_nat (nparts m))) in
              let m2 := mkMach Signing (me m) (ps m) (Some (mkTx (u_st u) sigs2)) (current m) in
              match sign_state k (u_st u) with
              | Some sg =>
                  let t3 := mkTx (u_st u) (set_nth (N.to_nat (me m)) (Some sg) sigs2) in
                  let m3 := mkMach Signing (me m) (ps m) (Some t3) (current m) in
                  match step m3 (if st_final (u_st u) then OEnableFinal else OEnableUpdate) with
                  | (m4, OK) => (m4, AccSigned sg)
                  | (_, PANIC) => (m3, AccPanic)
                  | (_, _) => (fst (step m3 ODiscard), AccSigned sg)
                  end
              | None => (fst (step m2 ODiscard), AccErr)
              end
          | _ => (fst (step m1 ODiscard), AccErr)
          end
      | PANIC => (m, AccPanic)
      | _ => (m, AccErr)
      end
    else (m, AccErr).
Proof.
  intro Hh. cbn zeta. pose proof (honest_nparts c Hh) as Hn. pose proof (h_me c Hh) as Hme.
  pose proof (peer_idx_lt _ Hme) as Hp. pose proof (peer_idx_neq (cx_mach c)) as Hne.
  destruct (nth_error_lt_some (mp_parts (ps (cx_mach c))) (N.to_nat (peer_idx (cx_mach c)))) as [ad Ha];
    [rewrite (h_two c Hh); lia|].
  destruct (nth_error_lt_some (mp_parts (ps (cx_mach c))) (N.to_nat (me (cx_mach c)))) as [k Hk];
    [rewrite (h_two c Hh); lia|].
  exists ad, k. split; [exact Ha|]. split; [exact Hk|].
  unfold accept_update. cbn [step].
  destruct (expect (cx_mach c) Acting Signing); cbn [negb]; [|reflexivity].
  destruct (valid_transition (cx_mach c) (u_st u) (u_actor u)); try reflexivity.
  cbn [step set_staging ph staging ps me current new_tx tx_sigs tx_st]. rewrite signing_Signing. cbn [negb].
  rewrite nth_error_repeat_lt by lia. rewrite Ha.
  destruct (verify_state ad (u_st u) (u_sig u)) as [[|]|]; try reflexivity.
  cbn [step ph staging ps me current tx_sigs tx_st]. rewrite signing_Signing. cbn [negb].
  rewrite nth_error_set_nth_other by (intro C; apply Hne; lia).
  rewrite nth_error_repeat_lt by lia. rewrite Hk.
  destruct (sign_state k (u_st u)); reflexivity.
Qed.

Lemma enable_no_panic m f t stx : staging m = Some stx -> snd (enable_staged m f t) <> PANIC.
Proof. intro H. unfold enable_staged. rewrite H. break_match; cbn [snd]; discriminate. Qed.

Lemma accept_no_panic c u : honest_ctx c -> upd_decodable (ps (cx_mach c)) u ->
  snd (accept_update (cx_mach c) u (peer_idx (cx_mach c))) <> AccPanic.
Proof.
  intros Hh Hd. destruct (accept_update_eq c u Hh) as (ad & k & _ & _ & E). cbn zeta in E. rewrite E. clear E.
  pose proof (vt_no_panic c u Hh Hd) as NP.
  destruct (expect (cx_mach c) Acting Signing); [|discriminate].
  destruct (valid_transition (cx_mach c) (u_st u) (u_actor u)); try discriminate; [|elim NP; reflexivity].
  destruct (verify_state ad (u_st u) (u_sig u)) as [[|]|]; try discriminate.
  destruct (sign_state k (u_st u)) as [sg|]; [|discriminate].
  match goal with |- context [step ?mm ?oo] =>
    assert (X : snd (step mm oo) <> PANIC) by (destruct (st_final (u_st u)); cbn [step]; eapply enable_no_panic; reflexivity);
    destruct (step mm oo) as [m4 o4] end.
  cbn [snd] in X. destruct o4; try discriminate. elim X; reflexivity.
Qed.

(* the responder in the repaired code: a call never blocks; at most one message leaves *)
Definition rs_ok (s : rstate) : Prop := (rs_called s = false -> rs_sent s = []) /\ (length (rs_sent s) <= 1)%nat.
Lemma rs0_ok : rs_ok rs0. Proof. split; cbn; auto. Qed.
Lemma respond_repaired k send s : rs_ok s ->
  exists s', respond repaired k send s = Some s' /\ rs_ok s' /\ rs_called s' = true.
Proof.
  intros [H1 H2]. unfold respond. cbn [repaired fix_resp_nonblock].
  destruct (rs_called s) eqn:C.
  - destruct (rs_slot s <? 1)%nat; eexists; (split; [reflexivity|]); cbn [rs_called rs_sent];
      (split; [split; [intro X; rewrite C in X; discriminate X|exact H2]|exact C]).
  - rewrite (H1 eq_refl). cbn [rs_slot rs_called rs_sent app].
    destruct (rs_slot s <? 1)%nat; eexists; (split; [reflexivity|]); cbn [rs_called rs_sent];
      (split; [split; [discriminate|destruct send; cbn; lia]|reflexivity]).
Qed.

Lemma reject_last_fine m s : rs_ok s -> res_fine (reject_last repaired m s).
Proof.
  intro H. unfold reject_last. destruct (respond_repaired SentRej true s H) as (s' & -> & [_ L] & _).
  split; [|split; [reflexivity|exact L]]. cbn [r_dec]. unfold fine. destruct (rs_called s); auto.
Qed.
Lemma reject_then_fine m s k : rs_ok s -> res_fine (reject_then repaired m s k).
Proof.
  intro H. unfold reject_then. destruct (respond_repaired SentRej true s H) as (s' & -> & [_ L] & _).
  cbn [repaired fix_vc_return]. split; [|split; [reflexivity|exact L]]. unfold fine. cbn. auto.
Qed.
Lemma err_logged_fine m s : rs_ok s -> res_fine (err_logged m s).
Proof. intros [_ L]. split; [|split; [reflexivity|exact L]]. unfold fine. cbn. auto. Qed.

Lemma auto_accept_fine c u s pa k : honest_ctx c -> upd_decodable (ps (cx_mach c)) u -> rs_ok s ->
  (forall m' s', rs_ok s' -> res_fine (k m' s')) ->
  res_fine (auto_accept repaired (cx_mach c) u (peer_idx (cx_mach c)) s pa k).
Proof.
  intros Hh Hd Hs Hk. unfold auto_accept. destruct (rs_called s).
  - destruct (respond_repaired SentAcc false s Hs) as (s' & -> & Hs' & _). apply Hk. exact Hs'.
  - pose proof (accept_no_panic c u Hh Hd) as NP.
    destruct (accept_update (cx_mach c) u (peer_idx (cx_mach c))) as [m' [sg| |]]; cbn [snd] in NP.
    + destruct (respond_repaired SentAcc true s Hs) as (s' & -> & [_ L] & _).
      split; [|split; [reflexivity|exact L]]. unfold fine. cbn. auto.
    + destruct (respond_repaired SentAcc false s Hs) as (s' & -> & Hs' & _). apply Hk. exact Hs'.
    + elim NP; reflexivity.
Qed.

(* ---------- the repaired validators do not index out of range ---------- *)
Lemma alloc_valid_rows a : alloc_valid a = true ->
  Forall (fun r => length r = N.to_nat (num_parts (al_bals a))) (al_bals a)
  /\ length (al_bals a) = length (al_assets a).
Proof.
  unfold alloc_valid. intro H. split_and. split.
  - apply Forall_forall. intros r Hr.
    match goal with H : forallb _ (al_bals a) = true |- _ => rewrite forallb_forall in H; specialize (H r Hr) end.
    split_and. match goal with H : (len r =? _) = true |- _ => apply N.eqb_eq in H; unfold len in H end. lia.
  - match goal with H : (len (al_bals a) =? len (al_assets a)) = true |- _ => apply N.eqb_eq in H; unfold len in H end. lia.
Qed.

Lemma check_sigs_no_panic parts st i sigs : (i + length sigs <= length parts)%nat ->
  check_sigs parts st i sigs <> VPanic.
Proof.
  revert i; induction sigs as [|sg sigs IH]; intros i H; cbn [check_sigs length] in *; [discriminate|].
  destruct (nth_error_lt_some parts i) as [a Ha]; [lia|]. rewrite Ha.
  destruct sg as [g|]; [|discriminate]. destruct (verify_state a st g) as [[|]|]; try discriminate.
  apply IH. lia.
Qed.

Lemma fill_row_some row acc np p imap : (p + length imap <= length row)%nat ->
  forallb (fun q => (N.to_nat q <? np)%nat) imap = true ->
  exists r, fill_row row acc np p imap = Some r /\ length r = length acc.
Proof.
  revert acc p; induction imap as [|q imap IH]; intros acc p H F; cbn [fill_row length forallb] in *.
  - eauto.
  - apply andb_true_iff in F as [F1 F2]. destruct (nth_error_lt_some row p) as [x Hx]; [lia|]. rewrite Hx, F1.
    destruct (IH (set_nth (N.to_nat q) x acc) (S p)) as (r & -> & L); [lia|exact F2|].
    exists r. split; [reflexivity|]. rewrite L. apply set_nth_length.
Qed.

Lemma transform_some b np imap :
  Forall (fun row => (length imap <= length row)%nat) b ->
  forallb (fun q => (N.to_nat q <? np)%nat) imap = true ->
  exists virt, transform_balances b np imap = Some virt /\ length virt = length b
               /\ Forall (fun r => length r = np) virt.
Proof.
  intros Hb F. unfold transform_balances. induction Hb as [|row b Hr Hb IH]; cbn [map opt_all].
  - exists []. auto.
  - destruct (fill_row_some row (repeat 0%Z np) np 0 imap) as (r & -> & L); [lia|exact F|].
    destruct IH as (virt & -> & Lv & Fv). exists (r :: virt). split; [reflexivity|]. split; [cbn; lia|].
    constructor; [rewrite L; apply repeat_length|exact Fv].
Qed.

Lemma same_dims_of_rows a b n : length a = length b ->
  Forall (fun r => length r = n) a -> Forall (fun r => length r = n) b -> same_dims a b = true.
Proof.
  intros L Fa Fb. apply (all2_intro _ a b [] []); [exact L|]. intros i Hi. apply Nat.eqb_eq.
  rewrite Forall_forall in Fa, Fb. rewrite (Fa (nth i a [])) by (apply nth_In; exact Hi).
  rewrite (Fb (nth i b [])) by (apply nth_In; lia). reflexivity.
Qed.

Lemma validate_vfund_no_panic cur u init imap :
  alloc_valid (st_alloc (ss_state init)) = true ->
  validate_vfund repaired cur u init imap <> VPanic.
Proof.
  intro Vi. unfold validate_vfund. cbn [repaired fix_vc_dims fix_fund_exact fix_locked_rest andb].
  destruct (negb (bytes_eqb _ _)); [discriminate|]. destruct (negb (vp_virtual _)); [discriminate|].
  destruct (negb (length _ =? 0)%nat); [discriminate|].
  destruct (negb _) eqn:D1; [discriminate|]. boolify.
  match goal with H : (length (ss_sigs init) =? _)%nat = true |- _ => apply Nat.eqb_eq in H; rename H into L1 end.
  match goal with H : (nat_np (ss_state init) =? _)%nat = true |- _ => apply Nat.eqb_eq in H; rename H into L2 end.
  pose proof (check_sigs_no_panic (vp_parts (ss_params init)) (ss_state init) 0 (ss_sigs init)) as CS.
  destruct (check_sigs _ _ _ _); [|discriminate|elim CS; [lia|reflexivity]].
  destruct (negb (length _ =? length imap)%nat) eqn:D2; [discriminate|]. boolify. apply Nat.eqb_eq in D2.
  destruct (negb (forallb _ imap)) eqn:D3; [discriminate|]. boolify.
  destruct (find_sa _ (al_locked (st_alloc cur))); [discriminate|].
  destruct (find_sa _ (al_locked (st_alloc (u_st u)))) as [sa|]; [|discriminate].
  destruct (negb (suballoc_equal _ _)) eqn:D4; [discriminate|]. boolify. apply suballoc_equal_eq in D4. subst sa. cbn [sa_imap].
  destruct (negb (nlist_eqb _ _)); [discriminate|]. destruct (negb (nlist_eqb _ _)); [discriminate|].
  destruct (alloc_valid_rows _ Vi) as [Rows _].
  destruct (transform_some (al_bals (st_alloc (ss_state init))) (nat_np cur) imap) as (virt & -> & _ & _).
  - eapply Forall_impl; [|exact Rows]. cbn beta. intros r Hr. rewrite Hr. unfold nat_np in L2. lia.
  - exact D3.
  - break_match; discriminate.
Qed.

Lemma validate_vsettle_no_panic cur u fin :
  alloc_valid (st_alloc cur) = true -> alloc_valid (st_alloc (ss_state fin)) = true ->
  validate_vsettle repaired cur u fin <> VPanic.
Proof.
  intros Vc Vf. unfold validate_vsettle. cbn [repaired fix_vc_dims fix_locked_rest andb].
  destruct (negb (bytes_eqb _ _)); [discriminate|].
  destruct (negb _) eqn:D1; [discriminate|]. boolify.
  match goal with H : (length (ss_sigs fin) =? _)%nat = true |- _ => apply Nat.eqb_eq in H; rename H into L1 end.
  pose proof (check_sigs_no_panic (vp_parts (ss_params fin)) (ss_state fin) 0 (ss_sigs fin)) as CS.
  destruct (check_sigs _ _ _ _); [|discriminate|elim CS; [lia|reflexivity]].
  destruct (negb (nlist_eqb _ _)) eqn:D2; [discriminate|]. boolify. apply nlist_eqb_eq in D2.
  destruct (find_sa _ (al_locked (st_alloc cur))) as [sa|]; [|discriminate].
  destruct (negb (zlist_eqb _ _)); [discriminate|].
  destruct (find_sa _ (al_locked (st_alloc (u_st u)))); [discriminate|].
  destruct (negb _) eqn:D3; [discriminate|]. boolify.
  match goal with H : (length (sa_imap sa) =? _)%nat = true |- _ => apply Nat.eqb_eq in H; rename H into L3 end.
  destruct (alloc_valid_rows _ Vf) as [RowsF LF]. destruct (alloc_valid_rows _ Vc) as [RowsC LC].
  destruct (transform_some (al_bals (st_alloc (ss_state fin))) (nat_np cur) (sa_imap sa)) as (virt & -> & Lv & Fv).
  - eapply Forall_impl; [|exact RowsF]. cbn beta. intros r Hr. rewrite Hr. unfold nat_np in L3. lia.
  - assumption.
  - unfold bals_add, bals_operate.
    rewrite (same_dims_of_rows (al_bals (st_alloc cur)) virt (nat_np cur)); [break_match; discriminate| |exact RowsC|exact Fv].
    rewrite Lv, LF, LC, D2. reflexivity.
Qed.

Lemma first_settle_no_panic v cur new l : (forall ic, In ic l -> same_dims (al_bals (st_alloc cur)) (ic_bals ic) = true) ->
  first_settle v cur new l <> FPanic.
Proof.
  induction l as [|x l IH]; intro H; cbn [first_settle]; [discriminate|].
  unfold settle_filter, bals_add, bals_operate. rewrite (H x (or_introl eq_refl)).
  break_match; try discriminate; apply IH; intros ic Hic; apply H; right; exact Hic.
Qed.

(* C12 for the update handlers: in an honest context every decodable request ends in Drop, AskUser,
   AutoAccept or Reject, the handler has returned with the machine mutex released and at most one
   response has been sent *)
Lemma C12_update_fine c r : honest_ctx c -> req_decodable (ps (cx_mach c)) r ->
  res_fine (handle_update_req repaired c r).
Proof.
  intros Hh [Hd Hs]. unfold handle_update_req. cbn zeta. rewrite (h_free c Hh).
  pose proof (check_no_panic c (req_upd r) Hh Hd) as NP.
  destruct (snd (step (cx_mach c) _)) eqn:CU; [| |split; [unfold fine; cbn; auto|split; [reflexivity|cbn; lia]]..|elim NP; reflexivity].
  2:{ split; [unfold fine; cbn; auto|split; [reflexivity|cbn; lia]]. }
  destruct (h_cur c Hh) as (ct & Hc & Vc & Np). rewrite Hc.
  destruct r as [u|u init imap|u fin]; cbn [req_upd] in *.
  - pose proof (first_settle_no_panic repaired (tx_st ct) (u_st u) (cx_settle c)) as FS.
    destruct (first_fund repaired (tx_st ct) (u_st u) (cx_fund c)) as [|ic|] eqn:FF.
    + destruct (first_settle repaired (tx_st ct) (u_st u) (cx_settle c)) as [|ic|] eqn:FS'.
      * destruct (valid_two_party _ _ _); (split; [unfold fine; cbn; auto|split; [reflexivity|cbn; lia]]).
      * unfold intercept. apply first_settle_hit in FS' as [I _].
        rewrite (h_await c Hh ic) by (apply in_or_app; right; exact I).
        apply auto_accept_fine; auto using rs0_ok, err_logged_fine.
      * elim FS; [|reflexivity]. intros ic Hic. eapply (h_settle c Hh); eassumption.
    + unfold intercept. apply first_fund_hit in FF as [I _].
      rewrite (h_await c Hh ic) by (apply in_or_app; left; exact I).
      apply auto_accept_fine; auto using rs0_ok, err_logged_fine.
    + (* first_fund never panics *)
      exfalso. clear -FF. induction (cx_fund c) as [|x l IH]; cbn [first_fund] in FF; [discriminate|].
      destruct (fund_filter _ _ _ x); [discriminate|auto].
  - unfold handle_vfund. pose proof (validate_vfund_no_panic (tx_st ct) u init imap Hs) as VP.
    destruct (validate_vfund repaired (tx_st ct) u init imap); [|apply reject_then_fine, rs0_ok|elim VP; reflexivity].
    destruct (cx_vmatch c); [|apply reject_then_fine, rs0_ok].
    apply auto_accept_fine; auto using rs0_ok, err_logged_fine.
  - unfold handle_vsettle. pose proof (validate_vsettle_no_panic (tx_st ct) u fin Vc Hs) as VP.
    destruct (validate_vsettle repaired (tx_st ct) u fin); [|apply reject_then_fine, rs0_ok|elim VP; reflexivity].
    destruct (cx_vmatch c); [|apply reject_last_fine, rs0_ok].
    apply auto_accept_fine; auto using rs0_ok. intros. apply reject_last_fine. assumption.
Qed.

(* ---------- the context after a handled request is honest again: sequences of requests ---------- *)
Lemma discard_frame m : let m' := fst (step m ODiscard) in ps m' = ps m /\ me m' = me m /\ current m' = current m.
Proof. cbn [step]. destruct (expect m Signing Acting); cbn [fst ps me current]; auto. Qed.
Lemma enable_frame m f t : let m' := fst (enable_staged m f t) in
  ps m' = ps m /\ me m' = me m /\ (current m' = current m \/ exists stx, staging m = Some stx /\ current m' = Some stx).
Proof. unfold enable_staged. break_match; cbn [fst add_tx ps me current]; eauto 6. Qed.

Lemma accept_update_post c u : honest_ctx c ->
  let m := cx_mach c in let m' := fst (accept_update m u (peer_idx m)) in
  ps m' = ps m /\ me m' = me m /\
  (current m' = current m \/
   exists t, current m' = Some t /\ tx_st t = u_st u /\ valid_transition m (u_st u) (u_actor u) = OK).
Proof.
  intro Hh. cbn zeta. destruct (accept_update_eq c u Hh) as (ad & k & _ & _ & E). cbn zeta in E. rewrite E. clear E.
  destruct (expect (cx_mach c) Acting Signing); [|cbn [fst]; auto].
  destruct (valid_transition (cx_mach c) (u_st u) (u_actor u)) eqn:VT; try (cbn [fst]; auto; fail).
  destruct (verify_state ad (u_st u) (u_sig u)) as [[|]|].
  2,3: cbn [fst]; match goal with |- context [step ?mm ODiscard] => destruct (discard_frame mm) as (A & B & C) end;
       rewrite A, B, C; cbn [set_staging ps me current]; auto.
  destruct (sign_state k (u_st u)) as [sg|].
  2: cbn [fst]; match goal with |- context [step ?mm ODiscard] => destruct (discard_frame mm) as (A & B & C) end;
     rewrite A, B, C; cbn [ps me current]; auto.
  match goal with |- context [step ?mm (if ?b then OEnableFinal else OEnableUpdate)] =>
    set (m3 := mm);
    assert (X : let m4 := fst (step m3 (if b then OEnableFinal else OEnableUpdate)) in
                ps m4 = ps m3 /\ me m4 = me m3 /\ (current m4 = current m3 \/ exists stx, staging m3 = Some stx /\ current m4 = Some stx))
      by (destruct b; cbn [step]; apply enable_frame);
    destruct (step m3 (if b then OEnableFinal else OEnableUpdate)) as [m4 o4] end.
  cbn zeta in X. cbn [fst] in X. destruct X as (A & B & C).
  destruct o4; cbn [fst].
  - rewrite A, B. subst m3. cbn [ps me current staging] in *. split; [reflexivity|]. split; [reflexivity|].
    destruct C as [C|(stx & S & C)]; [left; exact C|right]. injection S as <-. eexists. split; [exact C|]. auto.
  - destruct (discard_frame m3) as (A' & B' & C'). rewrite A', B', C'. subst m3. cbn [ps me current]. auto.
  - destruct (discard_frame m3) as (A' & B' & C'). rewrite A', B', C'. subst m3. cbn [ps me current]. auto.
  - subst m3. cbn [ps me current]. auto.
Qed.

Lemma auto_accept_mach v m u p s pa k : rs_called s = false -> (forall m' s', r_mach (k m' s') = m') ->
  r_mach (auto_accept v m u p s pa k) = fst (accept_update m u p).
Proof.
  intros Hs Hk. unfold auto_accept. rewrite Hs.
  destruct (accept_update m u p) as [m' [sg| |]]; cbn [fst].
  - destruct (respond v SentAcc true s); reflexivity.
  - destruct (respond v SentAcc false s); [apply Hk|reflexivity].
  - reflexivity.
Qed.
Lemma reject_last_mach v m s : r_mach (reject_last v m s) = m.
Proof. unfold reject_last. destruct (respond v SentRej true s); reflexivity. Qed.

Lemma hur_mach c r : let m := cx_mach c in
  r_mach (handle_update_req repaired c r) = m \/
  r_mach (handle_update_req repaired c r) = fst (accept_update m (req_upd r) (peer_idx m)).
Proof.
  cbn zeta. unfold handle_update_req. cbn zeta.
  destruct (cx_stuck c); [left; reflexivity|].
  destruct (snd (step (cx_mach c) _)); try (left; reflexivity).
  destruct (current (cx_mach c)) as [ct|]; [|left; reflexivity].
  assert (RT : forall s k, r_mach (reject_then repaired (cx_mach c) s k) = cx_mach c).
  { intros s k. unfold reject_then. cbn [repaired fix_vc_return]. destruct (respond _ _ _ _); reflexivity. }
  destruct r as [u|u init imap|u fin]; cbn [req_upd].
  - destruct (first_fund _ _ _ _) as [|ic|]; [|unfold intercept; destruct (ic_awaited ic); [right; apply auto_accept_mach; auto|left; reflexivity]|left; reflexivity].
    destruct (first_settle _ _ _ _) as [|ic|]; [|unfold intercept; destruct (ic_awaited ic); [right; apply auto_accept_mach; auto|left; reflexivity]|left; reflexivity].
    destruct (valid_two_party _ _ _); left; reflexivity.
  - unfold handle_vfund. destruct (validate_vfund _ _ _ _ _); [|left; apply RT|left; reflexivity].
    destruct (cx_vmatch c); [right; apply auto_accept_mach; auto|left; apply RT].
  - unfold handle_vsettle. destruct (validate_vsettle _ _ _ _); [|left; apply RT|left; reflexivity].
    destruct (cx_vmatch c); [right; apply auto_accept_mach; auto; intros; apply reject_last_mach|left; apply reject_last_mach].
Qed.

Lemma generic_valid_dims m cur new : alloc_valid (st_alloc cur) = true ->
  num_parts (al_bals (st_alloc cur)) = nparts m -> generic_valid m cur new = true ->
  alloc_valid (st_alloc new) = true /\ num_parts (al_bals (st_alloc new)) = nparts m
  /\ same_dims (al_bals (st_alloc cur)) (al_bals (st_alloc new)) = true.
Proof.
  intros Vc Nc G. apply (generic_valid_iff m cur new Vc) in G.
  destruct G as (_ & _ & _ & _ & A & V & N & _). split; [exact V|]. split; [exact N|].
  destruct (alloc_valid_rows _ Vc) as [Rc Lc]. destruct (alloc_valid_rows _ V) as [Rn Ln].
  apply (same_dims_of_rows _ _ (N.to_nat (nparts m))); [rewrite Lc, Ln, A; reflexivity| |].
  - rewrite <- Nc. exact Rc.
  - rewrite <- N. exact Rn.
Qed.

Lemma honest_after c m' fund' settle' : honest_ctx c ->
  ps m' = ps (cx_mach c) -> me m' = me (cx_mach c) ->
  (current m' = current (cx_mach c) \/
   exists t s a, current m' = Some t /\ tx_st t = s /\ valid_transition (cx_mach c) s a = OK) ->
  (forall ic, In ic fund' -> In ic (cx_fund c)) -> (forall ic, In ic settle' -> In ic (cx_settle c)) ->
  honest_ctx (mkCtx m' fund' settle' (cx_vmatch c) (cx_busy c) (cx_stuck c)).
Proof.
  intros Hh Hps Hme Hcur Hf Hs. destruct (h_cur c Hh) as (ct & Hc & Vc & Np).
  assert (X : exists ct', current m' = Some ct' /\ alloc_valid (st_alloc (tx_st ct')) = true
               /\ num_parts (al_bals (st_alloc (tx_st ct'))) = nparts (cx_mach c)
               /\ same_dims (al_bals (st_alloc (tx_st ct))) (al_bals (st_alloc (tx_st ct'))) = true).
  { destruct Hcur as [E|(t & s & a & E & <- & VT)].
    - exists ct. rewrite E. repeat split; auto. apply same_dims_refl.
    - exists t. split; [exact E|]. unfold valid_transition in VT. rewrite Hc in VT.
      destruct (nparts (cx_mach c) <=? a); [discriminate|].
      destruct (generic_valid (cx_mach c) (tx_st ct) (tx_st t)) eqn:G; [|discriminate].
      apply generic_valid_dims; assumption. }
  destruct X as (ct' & Hc' & Vc' & Np' & SD).
  constructor; cbn [cx_mach cx_fund cx_settle cx_stuck].
  - rewrite Hps. exact (h_two c Hh).
  - rewrite Hme. exact (h_me c Hh).
  - rewrite Hps. exact (h_app c Hh).
  - exists ct'. unfold nparts in *. rewrite Hps. auto.
  - intros ic ct0 Hic Hct0. rewrite Hc' in Hct0. injection Hct0 as <-.
    eapply same_dims_trans; [apply same_dims_sym; exact SD|]. eapply (h_settle c Hh); [apply Hs; exact Hic|exact Hc].
  - intros ic Hic. apply (h_await c Hh). apply in_app_or in Hic as [H|H]; apply in_or_app; [left; auto|right; auto].
  - exact (h_free c Hh).
Qed.

Lemma remove_ic_sub id l ic : In ic (remove_ic id l) -> In ic l.
Proof. unfold remove_ic. intro H. apply filter_In in H. tauto. Qed.

Lemma honest_post c r a : honest_ctx c -> req_decodable (ps (cx_mach c)) r -> honest_ctx (post_ctx repaired c r a).
Proof.
  intros Hh Hd. pose proof (C12_update_fine c r Hh Hd) as [F _].
  destruct (accept_update_post c (req_upd r) Hh) as (P1 & P2 & P3). cbn zeta in *.
  assert (P3' : current (fst (accept_update (cx_mach c) (req_upd r) (peer_idx (cx_mach c)))) = current (cx_mach c) \/
     exists t s a0, current (fst (accept_update (cx_mach c) (req_upd r) (peer_idx (cx_mach c)))) = Some t /\ tx_st t = s
                    /\ valid_transition (cx_mach c) s a0 = OK).
  { destruct P3 as [E|(t & E & T & VT)]; [left; exact E|right; eauto 6]. }
  unfold post_ctx.
  assert (M : forall fund' settle', (forall ic, In ic fund' -> In ic (cx_fund c)) -> (forall ic, In ic settle' -> In ic (cx_settle c)) ->
              honest_ctx (mkCtx (r_mach (handle_update_req repaired c r)) fund' settle' (cx_vmatch c) (cx_busy c) (cx_stuck c))).
  { intros f s Hf Hs. destruct (hur_mach c r) as [E|E]; rewrite E.
    - apply honest_after; auto.
    - apply honest_after; auto. }
  destruct (r_dec (handle_update_req repaired c r)) eqn:D;
    try (destruct F as [F|[F|[F|F]]]; discriminate F).
  - (* Drop *) destruct (r_path _) as [[|ic|ic| |]|]; unfold set_mach; apply M; eauto using remove_ic_sub.
  - (* AskUser *) unfold set_mach, user_answer. destruct a; cbn [fst].
    + destruct (accept_update (cx_mach c) (req_upd r) (peer_idx (cx_mach c))) as [m' [sg| |]] eqn:AU; cbn [fst] in *;
        apply honest_after; auto.
    + apply honest_after; auto.
  - destruct (r_path _) as [[|ic|ic| |]|]; unfold set_mach; apply M; eauto using remove_ic_sub.
  - destruct (r_path _) as [[|ic|ic| |]|]; unfold set_mach; apply M; eauto using remove_ic_sub.
Qed.

Lemma post_ctx_ps c r a : honest_ctx c -> ps (cx_mach (post_ctx repaired c r a)) = ps (cx_mach c).
Proof.
  intro Hh. destruct (accept_update_post c (req_upd r) Hh) as (P1 & _). cbn zeta in P1.
  assert (M : ps (r_mach (handle_update_req repaired c r)) = ps (cx_mach c))
    by (destruct (hur_mach c r) as [E|E]; rewrite E; auto).
  unfold post_ctx. destruct (r_dec (handle_update_req repaired c r)); try exact M;
    try (destruct (r_path _) as [[|ic|ic| |]|]; exact M).
  unfold set_mach, user_answer. cbn [cx_mach]. destruct a; [|reflexivity].
  destruct (accept_update (cx_mach c) (req_upd r) (peer_idx (cx_mach c))) as [m' [sg| |]]; exact P1.
Qed.

(* every sequence of decodable requests, with arbitrary answers of the user: no panic, no blocked
   handler, the machine mutex is free after each request *)
Lemma C12_sequences c ins : honest_ctx c ->
  (forall r a, In (r, a) ins -> req_decodable (ps (cx_mach c)) r) ->
  Forall res_fine (run_decs repaired c ins) /\ honest_ctx (run_ctx repaired c ins).
Proof.
  revert c; induction ins as [|[r a] ins IH]; intros c Hh Hd; cbn [run_decs run_ctx]; [split; [constructor|exact Hh]|].
  assert (D : req_decodable (ps (cx_mach c)) r) by (apply (Hd r a); left; reflexivity).
  destruct (IH (post_ctx repaired c r a)) as [F H].
  - apply honest_post; assumption.
  - intros r' a' Hin. rewrite post_ctx_ps by exact Hh. apply (Hd r' a'). right. exact Hin.
  - split; [constructor; [apply C12_update_fine; assumption|exact F]|exact H].
Qed.

(* ---------- the client: lookup by channel id; sync ---------- *)
Lemma lookup_in cl id c : lookup cl id = Some c -> In c cl.
Proof. unfold lookup. intro H. apply find_some in H. tauto. Qed.

Lemma C12_client_update_fine cl r : Forall honest_ctx cl ->
  (forall c, In c cl -> req_decodable (ps (cx_mach c)) r) ->
  res_fine (handle_update repaired cl r).
Proof.
  intros Hh Hd. unfold handle_update. destruct (lookup cl _) as [c|] eqn:L.
  - apply lookup_in in L. rewrite Forall_forall in Hh. apply C12_update_fine; auto.
  - split; [left; reflexivity|split; [reflexivity|cbn; lia]].
Qed.

(* handleSyncMsg (repaired): any sync message, from anybody, in any context *)
Lemma C12_sync_fine cl reach s :
  let res := handle_sync repaired cl reach s in
  (r_dec res = Drop \/ r_dec res = Reply) /\ r_unlocked res = true.
Proof.
  cbn zeta. unfold handle_sync. cbn [repaired fix_sync_nil fix_sync_unlock].
  destruct (sy_tx s) as [[st sg]|]; [|auto].
  destruct (lookup cl (st_id st)) as [c|]; [|auto].
  destruct (cx_busy c || cx_stuck c); [auto|]. destruct (negb reach); [auto|].
  destruct (phase_eqb _ _); auto.
Qed.
(* the machine a sync reply leaves behind keeps the context honest *)
Lemma sync_post_honest c : honest_ctx c -> honest_ctx (set_mach c (fst (step (cx_mach c) ODiscard))).
Proof.
  intro Hh. destruct (discard_frame (cx_mach c)) as (A & B & C). unfold set_mach. apply honest_after; auto.
Qed.

(* ---------- witnesses: what the code did before the repairs ---------- *)
Definition wid : bytes := repeat Byte.x07 32.
Definition wX : bytes := repeat Byte.x21 32.
Definition wY : bytes := repeat Byte.x22 32.
Definition wZ : bytes := repeat Byte.x23 32.
Definition wP : mparams := mkMP wid [1; 2] None None.
Definition wst (v : N) (b : list (list Z)) (l : list suballoc) : state :=
  mkState wid v (mkAlloc [0] [5] b l) None [] false.
Definition wfull (s : state) : tx := mkTx s [Some (SigOf 1 (enc_state s)); Some (SigOf 2 (enc_state s))].
(* the honest client is participant 0 (address 1), the peer participant 1 (address 2) *)
Definition wmach (p : phase) (s : state) : mach := mkMach p 0 wP None (Some (wfull s)).
Definition wupd (s : state) (actor : N) : upd := mkUpd s actor (SigOf 2 (enc_state s)).
Definition wS0 : state := wst 0 [[60; 40]%Z] [].
Definition wc0 : chanctx := mkCtx (wmach Acting wS0) [] [] false false false.

Lemma honest_wc p s f st vm : alloc_valid (st_alloc s) = true -> num_parts (al_bals (st_alloc s)) = 2 ->
  (forall ic, In ic st -> same_dims (al_bals (st_alloc s)) (ic_bals ic) = true) ->
  (forall ic, In ic (f ++ st) -> ic_awaited ic = true) ->
  honest_ctx (mkCtx (wmach p s) f st vm false false).
Proof.
  intros V N S A. constructor; cbn [cx_mach cx_fund cx_settle cx_stuck wmach ps me wP mp_parts mp_kind current].
  - reflexivity.
  - lia.
  - discriminate.
  - exists (wfull s). auto.
  - intros ic ct Hic E. injection E as <-. apply S. exact Hic.
  - exact A.
  - reflexivity.
Qed.
Lemma dec_w s a : alloc_valid (st_alloc s) = true -> upd_decodable wP (wupd s a).
Proof. intro V. split; [exact V|]. intro K. discriminate K. Qed.

(* a virtual channel between addresses 7 and 8 *)
Definition wV : bytes := repeat Byte.x31 32.
Definition wvst (b : list (list Z)) (fin : bool) : state := mkState wV 3 (mkAlloc [0] [5] b []) None [] fin.
Definition wsigned (parts : list N) (virt : bool) (s : state) (signers : list N) : signed :=
  mkSigned (mkVP wV parts virt) s (map (fun k => Some (SigOf k (enc_state s))) signers).

(* row 15: a funding proposal that fails validation is rejected, the handler goes on, answers a second
   time after the watcher's timeout and blocks for ever with the machine mutex held *)
Definition w15 : req := RVFund (wupd (wst 1 [[60; 40]%Z] []) 1) (wsigned [7; 8] false (wvst [[4; 6]%Z] false) [7; 8]) [0; 1].
Lemma C12_vc_return_refuted : exists c r, honest_ctx c /\ req_decodable (ps (cx_mach c)) r /\
  let res := handle_update_req original c r in r_dec res = Block /\ r_unlocked res = false /\ r_sent res = [SentRej].
Proof.
  exists wc0, w15. split; [apply honest_wc; try reflexivity; intros ic []|].
  split; [split; [apply dec_w; reflexivity|reflexivity]|]. vm_compute. auto.
Qed.
(* ... and with `return` after the rejection: one rejection, handler returned *)
Example vc_return_repaired : let res := handle_update_req repaired wc0 w15 in
  r_dec res = Reject /\ r_unlocked res = true /\ r_sent res = [SentRej].
Proof. vm_compute. auto. Qed.

(* row 16: two signatures for a channel with one participant: Params.Parts[1] *)
Definition w16 : req := RVFund (wupd (wst 1 [[60; 40]%Z] []) 1) (wsigned [7] true (wvst [[4; 6]%Z] false) [7; 8]) [0].
Lemma C12_vc_dims_refuted : exists c r, honest_ctx c /\ req_decodable (ps (cx_mach c)) r /\
  r_dec (handle_update_req original c r) = Panic.
Proof.
  exists wc0, w16. split; [apply honest_wc; try reflexivity; intros ic []|].
  split; [split; [apply dec_w; reflexivity|reflexivity]|]. vm_compute. reflexivity.
Qed.
(* an index map entry beyond the parent's participants: transformBalances *)
Definition w16b : req :=
  RVFund (wupd (wst 1 [[50; 40]%Z] [mkSA wV [10%Z] [0; 5]]) 1) (wsigned [7; 8] true (wvst [[4; 6]%Z] false) [7; 8]) [0; 5].
Lemma C12_transform_refuted : exists c r, honest_ctx c /\ req_decodable (ps (cx_mach c)) r /\
  r_dec (handle_update_req original c r) = Panic.
Proof.
  exists wc0, w16b. split; [apply honest_wc; try reflexivity; intros ic []|].
  split; [split; [apply dec_w; reflexivity|reflexivity]|]. vm_compute. reflexivity.
Qed.
Example vc_dims_repaired : r_dec (handle_update_req repaired wc0 w16) = Reject
                           /\ r_dec (handle_update_req repaired wc0 w16b) = Reject.
Proof. vm_compute. auto. Qed.

(* the responder's one-slot signal: a valid, matched settlement proposal for a channel that is not in
   phase Acting - Accept fails after signalling, the handler rejects after the timeout and blocks *)
Definition no_nonblock : variant := mkVar true true true true false true true.
Definition wS17 : state := wst 4 [[50; 40]%Z] [mkSA wV [10%Z] [0; 1]].
Definition wc17 : chanctx := mkCtx (wmach Registered wS17) [] [] true false false.
Definition w17 : req := RVSettle (wupd (wst 5 [[54; 46]%Z] []) 1) (wsigned [7; 8] true (wvst [[4; 6]%Z] true) [7; 8]).
Lemma C12_resp_nonblock_refuted : exists c r, honest_ctx c /\ req_decodable (ps (cx_mach c)) r /\
  r_dec (handle_update_req no_nonblock c r) = Block.
Proof.
  exists wc17, w17. split; [apply honest_wc; try reflexivity; intros ic []|].
  split; [split; [apply dec_w; reflexivity|reflexivity]|]. vm_compute. reflexivity.
Qed.
Example resp_nonblock_repaired : let res := handle_update_req repaired wc17 w17 in
  r_dec res = Drop /\ r_unlocked res = true.
Proof. vm_compute. auto. Qed.

(* row 14: a sync message without a transaction; a sync message while a local operation holds the
   machine mutex for longer than the reply timeout *)
Lemma C12_sync_nil_refuted : exists s, r_dec (handle_sync original [] true s) = Panic.
Proof. exists (mkSync 0 None). reflexivity. Qed.
Definition wc_busy : chanctx := mkCtx (wmach Signing wS0) [] [] false true false.
Lemma C12_sync_unlock_refuted : exists cl s, r_dec (handle_sync (mkVar true false true true true true true) cl true s) = Panic.
Proof. exists [wc_busy], (mkSync 3 (Some (wS0, []))). vm_compute. reflexivity. Qed.
Example sync_repaired : r_dec (handle_sync repaired [] true (mkSync 0 None)) = Drop
  /\ r_dec (handle_sync repaired [wc_busy] true (mkSync 3 (Some (wS0, [])))) = Drop
  /\ r_dec (handle_sync repaired [wc0] true (mkSync 3 (Some (wS0, [])))) = Reply.
Proof. vm_compute. auto. Qed.

(* known finding: an interceptor that nobody awaits (the routine that registered it gave up) keeps
   the handler, and with it the machine mutex, for ever - also in the repaired code *)
Definition wicX (aw : bool) : icept := mkIc wX [[5; 5]%Z] aw.
Definition wfundX : req := RUpdate (wupd (wst 1 [[55; 35]%Z] [mkSA wX [10%Z] []]) 1).
Lemma C12_unawaited_interceptor_blocks : exists c r,
  req_decodable (ps (cx_mach c)) r /\ r_dec (handle_update_req repaired c r) = Block.
Proof.
  exists (mkCtx (wmach Acting wS0) [wicX false] [] false false false), wfundX.
  split; [split; [apply dec_w; reflexivity|exact I]|]. vm_compute. reflexivity.
Qed.

(* ---------- C07 witnesses ---------- *)
(* row 17a: the sub-channel is to be funded with 5 from each side; the update takes all 10 from the
   honest client (participant 0) - the per-asset totals are all the original filter looks at *)
Definition wc_fund : chanctx := mkCtx (wmach Acting wS0) [wicX true] [] false false false.
Definition w17a : req := RUpdate (wupd (wst 1 [[50; 40]%Z] [mkSA wX [10%Z] []]) 1).
Lemma C07_fund_wrong_party_refuted : exists c r sg ct,
  honest_ctx c /\ req_decodable (ps (cx_mach c)) r /\ current (cx_mach c) = Some ct /\
  countersigns original c r = Some sg /\
  ~ safe_change c (tx_st ct) r (r_dec (handle_update_req original c r)).
Proof.
  exists wc_fund, w17a, (SigOf 1 (enc_state (u_st (req_upd w17a)))), (wfull wS0).
  split. { apply honest_wc; try reflexivity; [intros ic []|]. intros ic [<-|[]]. reflexivity. }
  split; [split; [apply dec_w; reflexivity|exact I]|]. split; [reflexivity|]. split; [vm_compute; reflexivity|].
  assert (D : r_dec (handle_update_req original wc_fund w17a) = AutoAccept) by (vm_compute; reflexivity).
  rewrite D. unfold safe_change. cbn [w17a req_upd cx_fund cx_settle wc_fund].
  intros [(ic & [<-|[]] & _ & _ & (_ & _ & P))|(ic & [] & _)].
  specialize (P 0%nat 0%nat). vm_compute in P. discriminate P.
Qed.
Example fund_wrong_party_repaired : r_dec (handle_update_req repaired wc_fund w17a) = Drop
  /\ countersigns repaired wc_fund w17a = None.
Proof. vm_compute. auto. Qed.
(* the honest funding update is still accepted automatically, and countersigned *)
Example fund_honest_repaired : r_dec (handle_update_req repaired wc_fund wfundX) = AutoAccept
  /\ countersigns repaired wc_fund wfundX = Some (SigOf 1 (enc_state (u_st (req_upd wfundX)))).
Proof. vm_compute. auto. Qed.

(* row 17b: the settlement of sub-channel X also re-labels the funds locked for channel Y *)
Definition wS17b : state := wst 2 [[60; 40]%Z] [mkSA wX [10%Z] []; mkSA wY [7%Z] []].
Definition wc_settle : chanctx := mkCtx (wmach Acting wS17b) [] [mkIc wX [[4; 6]%Z] true] false false false.
Definition w17b : req := RUpdate (wupd (wst 3 [[64; 46]%Z] [mkSA wZ [7%Z] []]) 1).
Lemma C07_other_suballoc_refuted : exists c r sg ct,
  honest_ctx c /\ req_decodable (ps (cx_mach c)) r /\ current (cx_mach c) = Some ct /\
  countersigns original c r = Some sg /\
  ~ safe_change c (tx_st ct) r (r_dec (handle_update_req original c r)).
Proof.
  exists wc_settle, w17b, (SigOf 1 (enc_state (u_st (req_upd w17b)))), (wfull wS17b).
  split. { apply honest_wc; try reflexivity; intros ic [<-|[]]; reflexivity. }
  split; [split; [apply dec_w; reflexivity|exact I]|]. split; [reflexivity|]. split; [vm_compute; reflexivity|].
  assert (D : r_dec (handle_update_req original wc_settle w17b) = AutoAccept) by (vm_compute; reflexivity).
  rewrite D. unfold safe_change. cbn [w17b req_upd cx_fund cx_settle wc_settle].
  intros [(ic & [] & _)|(ic & [<-|[]] & (pre & x & post & L & Ix & _ & Ln) & _)].
  unfold locked_of in L, Ln. cbn in L, Ln.
  destruct pre as [|a [|b pre]]; cbn in L, Ln.
  - injection L as <- <-. discriminate Ln.
  - injection L as <- <- <-. cbn in Ix. discriminate Ix.
  - apply (f_equal (@length suballoc)) in L. cbn in L. rewrite app_length in L. cbn in L. lia.
Qed.
Example other_suballoc_repaired : r_dec (handle_update_req repaired wc_settle w17b) = Drop.
Proof. vm_compute. reflexivity. Qed.
Definition wsettleX : req := RUpdate (wupd (wst 3 [[64; 46]%Z] [mkSA wY [7%Z] []]) 1).
Example settle_honest_repaired : r_dec (handle_update_req repaired wc_settle wsettleX) = AutoAccept
  /\ countersigns repaired wc_settle wsettleX = Some (SigOf 1 (enc_state (u_st (req_upd wsettleX)))).
Proof. vm_compute. auto. Qed.

(* virtual channel funding: "sufficient funds" was all the original validation asked of the balances *)
Definition wvf (b : list (list Z)) : req :=
  RVFund (wupd (wst 1 b [mkSA wV [10%Z] [0; 1]]) 1) (wsigned [7; 8] true (wvst [[4; 6]%Z] false) [7; 8]) [0; 1].
Definition wc_vm : chanctx := mkCtx (wmach Acting wS0) [] [] true false false.
Lemma C07_vfund_wrong_party_refuted : exists c r sg ct,
  honest_ctx c /\ req_decodable (ps (cx_mach c)) r /\ current (cx_mach c) = Some ct /\
  countersigns original c r = Some sg /\
  ~ safe_change c (tx_st ct) r (r_dec (handle_update_req original c r)).
Proof.
  exists wc_vm, (wvf [[50; 40]%Z]), (SigOf 1 (enc_state (u_st (req_upd (wvf [[50; 40]%Z]))))), (wfull wS0).
  split. { apply honest_wc; try reflexivity; intros ic []. }
  split; [split; [apply dec_w; reflexivity|reflexivity]|]. split; [reflexivity|]. split; [vm_compute; reflexivity|].
  unfold safe_change. cbn [wvf req_upd].
  intros (virt & T & _ & _ & (_ & _ & P)). vm_compute in T. injection T as <-.
  specialize (P 0%nat 0%nat). vm_compute in P. discriminate P.
Qed.
Example vfund_repaired : r_dec (handle_update_req repaired wc_vm (wvf [[50; 40]%Z])) = Reject
  /\ r_dec (handle_update_req repaired wc_vm (wvf [[56; 34]%Z])) = AutoAccept
  /\ countersigns repaired wc_vm (wvf [[56; 34]%Z]) = Some (SigOf 1 (enc_state (u_st (req_upd (wvf [[56; 34]%Z]))))).
Proof. vm_compute. auto. Qed.

(* an ordinary update: the user is asked, and when he accepts the state is countersigned *)
Definition wpay : req := RUpdate (wupd (wst 1 [[70; 30]%Z] []) 1).
Example ordinary_update : r_dec (handle_update_req repaired wc0 wpay) = AskUser
  /\ countersigns repaired wc0 wpay = Some (SigOf 1 (enc_state (u_st (req_upd wpay))))
  /\ honest_ctx wc0 /\ cur_valid wc0 /\ req_decodable (ps (cx_mach wc0)) wpay.
Proof.
  split; [vm_compute; reflexivity|]. split; [vm_compute; reflexivity|].
  split; [apply honest_wc; try reflexivity; intros ic []|].
  split; [intros ct H; injection H as <-; reflexivity|]. split; [apply dec_w; reflexivity|exact I].
Qed.
(* wrong actor, signature over another state, edited sub-allocation: dropped *)
Example ordinary_bad : r_dec (handle_update_req repaired wc0 (RUpdate (wupd (wst 1 [[70; 30]%Z] []) 0))) = Drop
  /\ r_dec (handle_update_req repaired wc0 (RUpdate (mkUpd (wst 1 [[70; 30]%Z] []) 1 (SigOf 2 (enc_state wS0))))) = Drop
  /\ r_dec (handle_update_req repaired wc0 (RUpdate (wupd (wst 1 [[60; 30]%Z] [mkSA wX [10%Z] []]) 1))) = Drop.
Proof. vm_compute. auto. Qed.

(* ---------- the parent lock of the proposal handlers ---------- *)
Definition cnt (x : bytes) (l : list bytes) : nat := length (filter (bytes_eqb x) l).
Definition holds (known : list bytes) (p : pmsg) : list bytes :=
  match pm_parent p with Some par => if id_in par known then [par] else [] | None => [] end.
Definition held (known : list bytes) (infl : list pmsg) : list bytes := flat_map (holds known) infl.

Lemma bytes_eqb_refl x : bytes_eqb x x = true.
Proof. apply bytes_eqb_eq. reflexivity. Qed.
Lemma bytes_eqb_sym x y : bytes_eqb x y = bytes_eqb y x.
Proof. destruct (bytes_eqb x y) eqn:E, (bytes_eqb y x) eqn:F; try reflexivity.
  - apply bytes_eqb_eq in E. subst. rewrite bytes_eqb_refl in F. discriminate.
  - apply bytes_eqb_eq in F. subst. rewrite bytes_eqb_refl in E. discriminate. Qed.

Lemma cnt_nil x : cnt x [] = 0%nat. Proof. reflexivity. Qed.
Lemma cnt_one x y : cnt x [y] = if bytes_eqb x y then 1%nat else 0%nat.
Proof. unfold cnt. cbn [filter]. destruct (bytes_eqb x y); reflexivity. Qed.
Lemma cnt_app x a b : cnt x (a ++ b) = (cnt x a + cnt x b)%nat.
Proof. unfold cnt. rewrite filter_app, app_length. reflexivity. Qed.
Lemma id_in_cnt x l : id_in x l = false -> cnt x l = 0%nat.
Proof. unfold id_in, cnt. induction l as [|y l IH]; cbn [existsb filter]; [reflexivity|].
  destruct (bytes_eqb x y); cbn [orb]; [discriminate|exact IH]. Qed.
Lemma cnt_pos_in x l : (0 < cnt x l)%nat -> id_in x l = true.
Proof. intro H. destruct (id_in x l) eqn:E; [reflexivity|]. rewrite (id_in_cnt _ _ E) in H. lia. Qed.

(* removing one x: its count drops by one, all other counts stay *)
Lemma remove1_cnt x l : (0 < cnt x l)%nat ->
  exists r, remove1 x l = Some r /\ forall y, cnt y l = (cnt y r + (if bytes_eqb y x then 1 else 0))%nat.
Proof.
  induction l as [|z l IH]; cbn [remove1]; [unfold cnt; cbn; lia|].
  intro H. destruct (bytes_eqb x z) eqn:E.
  - exists l. split; [reflexivity|]. apply bytes_eqb_eq in E. subst z. intro y. unfold cnt. cbn [filter].
    destruct (bytes_eqb y x); cbn [length]; lia.
  - assert (H' : (0 < cnt x l)%nat) by (unfold cnt in *; cbn [filter] in H; rewrite E in H; exact H).
    destruct (IH H') as (r & -> & C). exists (z :: r). split; [reflexivity|]. intro y.
    unfold cnt in *. cbn [filter]. specialize (C y). destruct (bytes_eqb y z); cbn [length]; lia.
Qed.

Lemma pmsg_eqb_holds known p q : pmsg_eqb p q = true -> holds known p = holds known q.
Proof.
  unfold pmsg_eqb, holds. intro H. apply andb_true_iff in H as [_ H].
  destruct (pm_parent p) as [x|], (pm_parent q) as [y|]; try discriminate; [|reflexivity].
  apply bytes_eqb_eq in H. subst. reflexivity.
Qed.
Lemma remove_pm_held known p infl i : remove_pm p infl = Some i ->
  forall y, cnt y (held known infl) = (cnt y (held known i) + cnt y (holds known p))%nat.
Proof.
  revert i; induction infl as [|q infl IH]; cbn [remove_pm]; [discriminate|]. intros i H y.
  unfold held in *. cbn [flat_map]. rewrite cnt_app. destruct (pmsg_eqb p q) eqn:E.
  - injection H as <-. rewrite (pmsg_eqb_holds known p q E). lia.
  - destruct (remove_pm p infl) as [i'|]; [|discriminate]. injection H as <-. cbn [flat_map]. rewrite cnt_app.
    rewrite (IH i' eq_refl y). lia.
Qed.

(* the locks held are exactly the parents of the proposals in flight; no unlock of an unlocked mutex *)
Lemma prun_inv known locked infl evs infl' :
  (forall y, cnt y locked = cnt y (held known infl)) ->
  in_flight infl evs = Some infl' ->
  prun known locked evs <> PPanic /\
  forall l, prun known locked evs = PLocks l -> forall y, cnt y l = cnt y (held known infl').
Proof.
  revert locked infl; induction evs as [|e evs IH]; intros locked infl Inv F; cbn [prun in_flight] in *.
  - injection F as <-. split; [discriminate|]. intros l H. injection H as <-. exact Inv.
  - destruct e as [p|p]; cbn [pstep].
    + destruct (pm_parent p) as [par|] eqn:Pp.
      * destruct (id_in par known) eqn:K.
        -- destruct (id_in par locked) eqn:L; [split; [discriminate|intros l H; discriminate H]|].
           apply (IH (par :: locked) (p :: infl)); [|exact F].
           intro y. unfold held. cbn [flat_map]. rewrite cnt_app. unfold holds at 1. rewrite Pp, K.
           fold (held known infl). rewrite <- Inv. unfold cnt. cbn [filter].
           destruct (bytes_eqb y par); cbn [length app]; lia.
        -- apply (IH locked (p :: infl)); [|exact F].
           intro y. unfold held. cbn [flat_map]. rewrite cnt_app. unfold holds at 1. rewrite Pp, K. exact (Inv y).
      * apply (IH locked (p :: infl)); [|exact F].
        intro y. unfold held. cbn [flat_map]. rewrite cnt_app. unfold holds at 1. rewrite Pp. exact (Inv y).
    + destruct (remove_pm p infl) as [i|] eqn:R; [|discriminate].
      pose proof (remove_pm_held known p infl i R) as C.
      destruct (pm_parent p) as [par|] eqn:Pp.
      * destruct (id_in par known) eqn:K.
        -- assert (HP : holds known p = [par]) by (unfold holds; rewrite Pp, K; reflexivity).
           rewrite HP in C.
           assert (P : (0 < cnt par locked)%nat).
           { rewrite Inv, C, cnt_one, bytes_eqb_refl. lia. }
           destruct (remove1_cnt par locked P) as (r & -> & Cr).
           apply (IH r i); [|exact F]. intro y. specialize (Cr y). specialize (C y). rewrite Inv in Cr.
           rewrite cnt_one in C. destruct (bytes_eqb y par); lia.
        -- assert (HP : holds known p = []) by (unfold holds; rewrite Pp, K; reflexivity).
           rewrite HP in C. apply (IH locked i); [|exact F]. intro y. rewrite Inv, C, cnt_nil. lia.
      * assert (HP : holds known p = []) by (unfold holds; rewrite Pp; reflexivity).
        rewrite HP in C. apply (IH locked i); [|exact F]. intro y. rewrite Inv, C, cnt_nil. lia.
Qed.

(* when every proposal handler has returned no channel is locked - whatever the proposal ids, the
   parents and the order of arrivals and answers; and no Unlock hits an unlocked mutex on the way *)
Lemma proposal_locks_released known evs :
  in_flight [] evs = Some [] ->
  prun known [] evs <> PPanic /\ forall l, prun known [] evs = PLocks l -> l = [].
Proof.
  intro F. destruct (prun_inv known [] [] evs [] (fun y => eq_refl) F) as [NP H]. split; [exact NP|].
  intros l E. specialize (H l E). destruct l as [|x l]; [reflexivity|].
  specialize (H x). unfold held, cnt in H. cbn [flat_map filter] in H. rewrite bytes_eqb_refl in H. discriminate H.
Qed.

(* interceptors carry the identity and the balances of their sub-channel only: an update is judged
   against the parent state at arrival. If it is exactly the funding for some other state `old` of
   the parent, the filter accepts it only if `old` and the current state agree on locked funds and
   balances. *)
Lemma funding_judged_against_current cur old new ic :
  fund_filter repaired cur new ic = true ->
  funded old new (ic_id ic) (bals_sum (ic_bals ic)) [] (ic_bals ic) ->
  locked_of old = locked_of cur /\ forall a p, bal_at (bals_of old) a p = bal_at (bals_of cur) a p.
Proof.
  intros F [Lo (_ & _ & Bo)]. destruct (fund_filter_safe _ _ _ F) as [[Lc (_ & _ & Bc)] _]. split.
  - rewrite Lc in Lo. apply app_inv_tail in Lo. auto.
  - intros a p. specialize (Bo a p). specialize (Bc a p). lia.
Qed.
Lemma settlement_judged_against_current cur old new ic :
  settle_filter repaired cur new ic = Some true -> settled old new (ic_id ic) (ic_bals ic) ->
  forall a p, bal_at (bals_of old) a p = bal_at (bals_of cur) a p.
Proof.
  intros F [_ (_ & _ & Bo)]. destruct (settle_filter_safe _ _ _ F) as [_ (_ & _ & Bc)].
  intros a p. specialize (Bo a p). specialize (Bc a p). lia.
Qed.
