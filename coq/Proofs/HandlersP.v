(* Theorems about the receiving side of the client (C07, C12). *)
From Coq Require Import Arith PeanoNat ZifyN ZifyNat ZifyBool.
From V Require Import Model.Machine Model.MachineSpec Model.Handlers Proofs.ChannelP Proofs.MachineP Proofs.C02P.
Open Scope N_scope.

(* ---------- lists of lists of balances ---------- *)
Definition bal_at (b : list (list Z)) (a p : nat) : Z := nth p (nth a b []) 0%Z.

Lemma all2_length {A B} (f : A -> B -> bool) a b : all2 f a b = true -> length a = length b.
Proof. revert b; induction a as [|x a IH]; intros [|y b] H; cbn in *; try discriminate; auto.
  apply andb_true_iff in H as [_ H]. f_equal. auto. Qed.
Lemma all2_nth {A B} (f : A -> B -> bool) a b i da db :
  all2 f a b = true -> (i < length a)%nat -> f (nth i a da) (nth i b db) = true.
Proof. revert b i; induction a as [|x a IH]; intros [|y b] i H Hi; cbn in *; try discriminate; try lia.
  apply andb_true_iff in H as [H1 H2]. destruct i; [exact H1|]. apply IH; [exact H2|lia]. Qed.
Lemma all2_refl {A} (f : A -> A -> bool) a : (forall x, f x x = true) -> all2 f a a = true.
Proof. intro H. induction a; cbn; [reflexivity|]. rewrite H, IHa. reflexivity. Qed.
Lemma all2_intro {A B} (f : A -> B -> bool) a b da db : length a = length b ->
  (forall i, (i < length a)%nat -> f (nth i a da) (nth i b db) = true) -> all2 f a b = true.
Proof. revert b; induction a as [|x a IH]; intros [|y b] L H; cbn in *; try discriminate; [reflexivity|].
  apply andb_true_iff. split; [apply (H 0%nat); lia|]. apply IH; [lia|]. intros i Hi. apply (H (S i)). lia. Qed.

Lemma same_dims_refl a : same_dims a a = true.
Proof. apply all2_refl. intro. apply Nat.eqb_refl. Qed.
Lemma same_dims_rows a b i : same_dims a b = true -> length (nth i a []) = length (nth i b []).
Proof. intro H. destruct (Nat.lt_ge_cases i (length a)) as [Hi|Hi].
  - apply Nat.eqb_eq. apply (all2_nth _ a b i [] [] H Hi).
  - pose proof (all2_length _ _ _ H) as L. rewrite !nth_overflow by lia. reflexivity. Qed.
Lemma same_dims_sym a b : same_dims a b = true -> same_dims b a = true.
Proof. intro H. pose proof (all2_length _ _ _ H) as L. apply (all2_intro _ b a [] []); [lia|].
  intros i Hi. apply Nat.eqb_eq. symmetry. apply same_dims_rows. exact H. Qed.
Lemma same_dims_trans a b c : same_dims a b = true -> same_dims b c = true -> same_dims a c = true.
Proof. intros H1 H2. pose proof (all2_length _ _ _ H1). pose proof (all2_length _ _ _ H2).
  apply (all2_intro _ a c [] []); [lia|]. intros i Hi. apply Nat.eqb_eq.
  rewrite (same_dims_rows a b i H1). apply same_dims_rows. exact H2. Qed.

Lemma map2_length {A B C} (f : A -> B -> C) a b : length a = length b -> length (map2 f a b) = length a.
Proof. revert b; induction a as [|x a IH]; intros [|y b] H; cbn in *; try discriminate; auto. Qed.
Lemma map2_nth {A B C} (f : A -> B -> C) a b i da db dc : length a = length b -> (i < length a)%nat ->
  nth i (map2 f a b) dc = f (nth i a da) (nth i b db).
Proof. revert b i; induction a as [|x a IH]; intros [|y b] i H Hi; cbn in *; try discriminate; try lia.
  destruct i; [reflexivity|]. apply IH; lia. Qed.

(* the entries of b `op` a under equal dimensions *)
Lemma operate_at (op : Z -> Z -> Z) b a r : op 0%Z 0%Z = 0%Z -> bals_operate op b a = Some r ->
  same_dims b a = true /\ same_dims b r = true /\
  forall i j, bal_at r i j = op (bal_at b i j) (bal_at a i j).
Proof.
  intros H0 H. unfold bals_operate in H. destruct (same_dims b a) eqn:D; [|discriminate]. injection H as <-.
  pose proof (all2_length _ _ _ D) as L. split; [reflexivity|].
  assert (R : forall i, (i < length b)%nat ->
            nth i (map2 (map2 op) b a) [] = map2 op (nth i b []) (nth i a [])).
  { intros i Hi. apply map2_nth; assumption. }
  split.
  - apply (all2_intro _ _ _ [] []); [rewrite map2_length; auto|]. intros i Hi. rewrite R by exact Hi.
    apply Nat.eqb_eq. rewrite map2_length; [reflexivity|]. apply same_dims_rows. exact D.
  - intros i j. unfold bal_at. destruct (Nat.lt_ge_cases i (length b)) as [Hi|Hi].
    + rewrite R by exact Hi. pose proof (same_dims_rows b a i D) as Lr.
      destruct (Nat.lt_ge_cases j (length (nth i b []))) as [Hj|Hj].
      * apply map2_nth; assumption.
      * rewrite !nth_overflow; [symmetry; exact H0| lia | lia | rewrite map2_length; lia].
    + rewrite (nth_overflow (map2 _ _ _)) by (rewrite map2_length; lia).
      rewrite (nth_overflow b), (nth_overflow a) by lia. destruct j; cbn; symmetry; exact H0.
Qed.
