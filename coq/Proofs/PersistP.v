(* Theorems about the persistence model (C10, C11): the store is the image of the live channels
   after every operation and at every write boundary; the restorer reads that image back. *)
From Coq Require Import Arith PeanoNat ZifyN ZifyNat ZifyBool.
From V Require Import Model.Persist Proofs.ChannelP Proofs.MachineP.
Open Scope N_scope.

(* ====================================================================== *)
(* A. total orders                                                         *)
(* ====================================================================== *)
Record ord_laws {K} (cmp : K -> K -> comparison) : Prop := mkOrd {
  ol_eq : forall a b, cmp a b = Eq <-> a = b;
  ol_anti : forall a b, cmp b a = CompOpp (cmp a b);
  ol_trans : forall a b c, cmp a b = Lt -> cmp b c = Lt -> cmp a c = Lt }.

Lemma N_ord : ord_laws N.compare.
Proof.
  split.
  - apply N.compare_eq_iff.
  - intros a b. apply N.compare_antisym.
  - intros a b c H1 H2. apply N.compare_lt_iff in H1. apply N.compare_lt_iff in H2.
    apply N.compare_lt_iff. eapply N.lt_trans; eauto.
Qed.

Definition lex {A B} (ca : A -> A -> comparison) (cb : B -> B -> comparison) (x y : A * B) : comparison :=
  match ca (fst x) (fst y) with Eq => cb (snd x) (snd y) | c => c end.

Lemma lex_ord {A B} (ca : A -> A -> comparison) (cb : B -> B -> comparison) :
  ord_laws ca -> ord_laws cb -> ord_laws (lex ca cb).
Proof.
  intros [ea aa ta] [eb ab tb]. split.
  - intros [a1 b1] [a2 b2]. unfold lex. cbn [fst snd]. split.
    + destruct (ca a1 a2) eqn:E; try discriminate. intro H. apply ea in E. apply eb in H. congruence.
    + intro H. injection H as -> ->. rewrite (proj2 (ea a2 a2) eq_refl). apply eb. reflexivity.
  - intros [a1 b1] [a2 b2]. unfold lex. cbn [fst snd]. rewrite (aa a1 a2).
    destruct (ca a1 a2); cbn [CompOpp]; auto.
  - intros [a1 b1] [a2 b2] [a3 b3]. unfold lex. cbn [fst snd]. intros H1 H2.
    destruct (ca a1 a2) eqn:E1; try discriminate.
    + apply ea in E1. subst a2. destruct (ca a1 a3) eqn:E3; try discriminate; auto. eapply tb; eauto.
    + destruct (ca a2 a3) eqn:E2; try discriminate.
      * apply ea in E2. subst a3. rewrite E1. reflexivity.
      * rewrite (ta _ _ _ E1 E2). reflexivity.
Qed.

Lemma ord_transfer {A B} (f : A -> B) (cb : B -> B -> comparison) :
  ord_laws cb -> (forall x y, f x = f y -> x = y) -> ord_laws (fun x y => cb (f x) (f y)).
Proof.
  intros [e a t] inj. split.
  - intros x y. split; [intro H; apply inj, e, H | intros ->; apply e; reflexivity].
  - intros x y. apply a.
  - intros x y z. apply t.
Qed.

Lemma ord_ext {K} (c1 c2 : K -> K -> comparison) :
  (forall a b, c1 a b = c2 a b) -> ord_laws c2 -> ord_laws c1.
Proof.
  intros E [e a t]. split; intros; rewrite ?E in *.
  - apply e.
  - apply a.
  - eapply t; eauto.
Qed.

Lemma to_N_inj a b : Byte.to_N a = Byte.to_N b -> a = b.
Proof.
  intro H. assert (E : Byte.of_N (Byte.to_N a) = Byte.of_N (Byte.to_N b)) by (rewrite H; reflexivity).
  rewrite !Byte.of_to_N in E. congruence.
Qed.

Lemma bytes_ord : ord_laws bytes_cmp.
Proof.
  split.
  - intros a; induction a as [|x a IH]; intros [|y b]; cbn [bytes_cmp]; split; intro H;
      try reflexivity; try discriminate.
    + destruct (N.compare (Byte.to_N x) (Byte.to_N y)) eqn:E; try discriminate.
      apply N.compare_eq_iff, to_N_inj in E. apply IH in H. congruence.
    + injection H as -> ->. rewrite N.compare_refl. apply IH. reflexivity.
  - intros a; induction a as [|x a IH]; intros [|y b]; cbn [bytes_cmp CompOpp]; try reflexivity.
    rewrite (N.compare_antisym (Byte.to_N x) (Byte.to_N y)).
    destruct (N.compare (Byte.to_N x) (Byte.to_N y)); cbn [CompOpp]; auto.
  - intros a; induction a as [|x a IH]; intros [|y b] [|z c]; cbn [bytes_cmp]; intros H1 H2;
      try reflexivity; try discriminate.
    destruct (N.compare (Byte.to_N x) (Byte.to_N y)) eqn:E1; try discriminate.
    + apply N.compare_eq_iff in E1. rewrite E1.
      destruct (N.compare (Byte.to_N y) (Byte.to_N z)); try discriminate; auto. eapply IH; eauto.
    + destruct (N.compare (Byte.to_N y) (Byte.to_N z)) eqn:E2; try discriminate.
      * apply N.compare_eq_iff in E2. rewrite <- E2, E1. reflexivity.
      * apply N.compare_lt_iff in E1. apply N.compare_lt_iff in E2.
        assert (E3 : N.compare (Byte.to_N x) (Byte.to_N z) = Lt)
          by (apply N.compare_lt_iff; eapply N.lt_trans; eauto).
        rewrite E3. reflexivity.
Qed.

(* keys: lexicographic order of a uniform code *)
Definition fcode (f : field) : N * (N * N) :=
  match f with FSig w i => (6, (w, i)) | _ => (field_rank f, (0, 0)) end.
Definition fcmp3 := lex N.compare (lex N.compare N.compare).
Lemma fcmp3_ord : ord_laws fcmp3.
Proof. apply lex_ord; [apply N_ord|apply lex_ord; apply N_ord]. Qed.
Lemma field_cmp_code f g : field_cmp f g = fcmp3 (fcode f) (fcode g).
Proof. destruct f, g; reflexivity. Qed.
Lemma fcode_inj f g : fcode f = fcode g -> f = g.
Proof. destruct f, g; cbn; intro H; try discriminate H; try reflexivity. injection H as -> ->. reflexivity. Qed.
Lemma field_ord : ord_laws field_cmp.
Proof.
  eapply ord_ext; [apply field_cmp_code|].
  apply (ord_transfer fcode fcmp3 fcmp3_ord fcode_inj).
Qed.

Definition kcode (k : key) : N * (bytes * ((N * (N * N)) * bytes)) :=
  match k with
  | KChan id f => (0, (id, (fcode f, [])))
  | KPeer p id => (1, (p, ((0, (0, 0)), id)))
  end.
Definition kcmp4 := lex N.compare (lex bytes_cmp (lex fcmp3 bytes_cmp)).
Lemma kcmp4_ord : ord_laws kcmp4.
Proof.
  apply lex_ord; [apply N_ord|]. apply lex_ord; [apply bytes_ord|].
  apply lex_ord; [apply fcmp3_ord|apply bytes_ord].
Qed.
Lemma key_cmp_code a b : key_cmp a b = kcmp4 (kcode a) (kcode b).
Proof.
  destruct a as [i f|p i], b as [j g|q j]; unfold kcmp4, lex; cbn [kcode fst snd key_cmp N.compare]; try reflexivity.
  - rewrite field_cmp_code. destruct (bytes_cmp i j); try reflexivity.
    unfold fcmp3, lex. destruct (N.compare (fst (fcode f)) (fst (fcode g))); try reflexivity.
    destruct (N.compare (fst (snd (fcode f))) (fst (snd (fcode g)))); try reflexivity.
    destruct (N.compare (snd (snd (fcode f))) (snd (snd (fcode g)))); reflexivity.
Qed.
Lemma kcode_inj a b : kcode a = kcode b -> a = b.
Proof.
  destruct a, b; cbn; intro H; try discriminate H.
  - injection H as -> E. apply fcode_inj in E. congruence.
  - injection H as -> ->. reflexivity.
Qed.
Lemma key_ord : ord_laws key_cmp.
Proof.
  eapply ord_ext; [apply key_cmp_code|]. apply (ord_transfer kcode kcmp4 kcmp4_ord kcode_inj).
Qed.

(* ====================================================================== *)
(* B. sorted association lists                                             *)
(* ====================================================================== *)
Section SMapP.
  Context {K V : Type} (cmp : K -> K -> comparison) (O : ord_laws cmp).

  Lemma cmp_refl k : cmp k k = Eq.
  Proof. apply (ol_eq cmp O). reflexivity. Qed.
  Lemma cmp_gt_lt a b : cmp a b = Gt -> cmp b a = Lt.
  Proof. intro H. rewrite (ol_anti cmp O a b), H. reflexivity. Qed.
  Lemma cmp_lt_neq a b : cmp a b = Lt -> a <> b.
  Proof. intros H ->. rewrite cmp_refl in H. discriminate. Qed.

  Definition lb (k : K) (s : list (K * V)) : Prop := Forall (fun e => cmp k (fst e) = Lt) s.
  Fixpoint sorted (s : list (K * V)) : Prop :=
    match s with [] => True | e :: r => lb (fst e) r /\ sorted r end.

  Lemma lb_trans a b s : cmp a b = Lt -> lb b s -> lb a s.
  Proof.
    intros H L. unfold lb in *. rewrite Forall_forall in *. intros e He.
    eapply (ol_trans cmp O); [exact H|apply L; exact He].
  Qed.
  Lemma lb_notfound k s : lb k s -> sfind cmp k s = None.
  Proof.
    induction s as [|[k' v'] r IH]; intro L; cbn [sfind]; [reflexivity|].
    inversion L as [|? ? H1 H2]; subst. cbn [fst] in H1. rewrite H1. apply IH; exact H2.
  Qed.

  Lemma sfind_put k v k' (s : list (K * V)) :
    sfind cmp k' (sput cmp k v s) = match cmp k' k with Eq => Some v | _ => sfind cmp k' s end.
  Proof.
    induction s as [|[k0 v0] r IH]; cbn [sput sfind].
    - destruct (cmp k' k); reflexivity.
    - destruct (cmp k k0) eqn:E; cbn [sfind].
      + apply (ol_eq cmp O) in E. subst k0. destruct (cmp k' k); reflexivity.
      + destruct (cmp k' k); reflexivity.
      + rewrite IH. destruct (cmp k' k) eqn:E'; try reflexivity.
        apply (ol_eq cmp O) in E'. subst k'. rewrite E. reflexivity.
  Qed.

  Lemma lb_put a k v (s : list (K * V)) : cmp a k = Lt -> lb a s -> lb a (sput cmp k v s).
  Proof.
    intros H. induction s as [|[k0 v0] r IH]; intro L; cbn [sput].
    - constructor; [exact H|constructor].
    - inversion L as [|? ? H1 H2]; subst. destruct (cmp k k0).
      + constructor; [exact H|exact H2].
      + constructor; [exact H|exact L].
      + constructor; [exact H1|apply IH; exact H2].
  Qed.
  Lemma sorted_put k v (s : list (K * V)) : sorted s -> sorted (sput cmp k v s).
  Proof.
    induction s as [|[k0 v0] r IH]; intro S; cbn [sput].
    - cbn. split; [constructor|exact I].
    - destruct S as [L S]. cbn [fst] in L. destruct (cmp k k0) eqn:E.
      + apply (ol_eq cmp O) in E. subst k0. cbn. split; assumption.
      + cbn [sorted fst]. split; [|cbn; split; assumption].
        constructor; [exact E|]. eapply lb_trans; eauto.
      + cbn [sorted fst]. split; [|apply IH; exact S].
        apply lb_put; [apply cmp_gt_lt; exact E|exact L].
  Qed.

  Lemma lb_del a k (s : list (K * V)) : lb a s -> lb a (sdel cmp k s).
  Proof.
    induction s as [|[k0 v0] r IH]; intro L; cbn [sdel]; [constructor|].
    inversion L as [|? ? H1 H2]; subst. destruct (cmp k k0).
    - exact H2.
    - exact L.
    - constructor; [exact H1|apply IH; exact H2].
  Qed.
  Lemma sorted_del k (s : list (K * V)) : sorted s -> sorted (sdel cmp k s).
  Proof.
    induction s as [|[k0 v0] r IH]; intro S; cbn [sdel]; [exact I|].
    destruct S as [L S]. destruct (cmp k k0); [exact S|split; assumption|].
    cbn [sorted fst]. split; [apply lb_del; exact L|apply IH; exact S].
  Qed.
  Lemma sfind_del k k' (s : list (K * V)) : sorted s ->
    sfind cmp k' (sdel cmp k s) = match cmp k' k with Eq => None | _ => sfind cmp k' s end.
  Proof.
    induction s as [|[k0 v0] r IH]; intro S; cbn [sdel sfind].
    - destruct (cmp k' k); reflexivity.
    - destruct S as [L S]. cbn [fst] in L. destruct (cmp k k0) eqn:E; cbn [sfind].
      + apply (ol_eq cmp O) in E. subst k0. destruct (cmp k' k) eqn:E'; try reflexivity.
        apply (ol_eq cmp O) in E'. subst k'. apply lb_notfound; exact L.
      + destruct (cmp k' k) eqn:E'; try reflexivity.
        apply (ol_eq cmp O) in E'. subst k'. rewrite E. apply lb_notfound.
        eapply lb_trans; eauto.
      + rewrite (IH S). destruct (cmp k' k) eqn:E'; try reflexivity.
        apply (ol_eq cmp O) in E'. subst k'. rewrite E. reflexivity.
  Qed.

  (* canonical form: sorted lists with the same lookups are equal *)
  Lemma sorted_ext (s1 s2 : list (K * V)) : sorted s1 -> sorted s2 ->
    (forall k, sfind cmp k s1 = sfind cmp k s2) -> s1 = s2.
  Proof.
    revert s2. induction s1 as [|[k1 v1] r1 IH]; intros [|[k2 v2] r2] S1 S2 H.
    - reflexivity.
    - specialize (H k2). cbn [sfind] in H. rewrite cmp_refl in H. discriminate.
    - specialize (H k1). cbn [sfind] in H. rewrite cmp_refl in H. discriminate.
    - destruct S1 as [L1 S1], S2 as [L2 S2]. cbn [fst] in L1, L2.
      destruct (cmp k1 k2) eqn:E.
      + apply (ol_eq cmp O) in E. subst k2.
        pose proof (H k1) as H1. cbn [sfind] in H1. rewrite cmp_refl in H1. injection H1 as <-.
        f_equal. apply IH; auto. intro k. specialize (H k). cbn [sfind] in H.
        destruct (cmp k k1) eqn:E'; auto.
        apply (ol_eq cmp O) in E'. subst k. rewrite !lb_notfound; auto.
      + exfalso. specialize (H k1). cbn [sfind] in H. rewrite cmp_refl, E in H.
        rewrite lb_notfound in H; [discriminate|]. eapply lb_trans; eauto.
      + exfalso. specialize (H k2). cbn [sfind] in H. rewrite cmp_refl in H.
        rewrite (cmp_gt_lt _ _ E) in H. rewrite lb_notfound in H; [discriminate|].
        eapply lb_trans; [apply cmp_gt_lt; exact E|exact L1].
  Qed.

  Lemma sfind_in k v (s : list (K * V)) : sorted s -> (In (k, v) s <-> sfind cmp k s = Some v).
  Proof.
    induction s as [|[k0 v0] r IH]; intro S; cbn [sfind In].
    - split; [intros []|discriminate].
    - destruct S as [L S]. cbn [fst] in L. split.
      + intros [E|Hin].
        * injection E as -> ->. rewrite cmp_refl. reflexivity.
        * assert (Hlt : cmp k0 k = Lt).
          { unfold lb in L. rewrite Forall_forall in L. apply (L (k, v)). exact Hin. }
          rewrite (ol_anti cmp O k0 k), Hlt. cbn [CompOpp]. apply IH; assumption.
      + destruct (cmp k k0) eqn:E.
        * intro H. injection H as ->. apply (ol_eq cmp O) in E. subst. left. reflexivity.
        * intro H. right. apply IH; assumption.
        * intro H. right. apply IH; assumption.
  Qed.

  (* filters on the key *)
  Variable P : K -> bool.
  Lemma lb_filter a (s : list (K * V)) : lb a s -> lb a (filter (fun e => P (fst e)) s).
  Proof.
    unfold lb. rewrite !Forall_forall. intros H e He. apply filter_In in He. apply H, He.
  Qed.
  Lemma sorted_filter (s : list (K * V)) : sorted s -> sorted (filter (fun e => P (fst e)) s).
  Proof.
    induction s as [|[k0 v0] r IH]; intro S; cbn [filter]; [exact I|].
    destruct S as [L S]. cbn [fst] in *. destruct (P k0); [|apply IH; exact S].
    cbn [sorted fst]. split; [apply lb_filter; exact L|apply IH; exact S].
  Qed.
  Lemma sfind_filter k (s : list (K * V)) :
    sfind cmp k (filter (fun e => P (fst e)) s) = if P k then sfind cmp k s else None.
  Proof.
    induction s as [|[k0 v0] r IH]; cbn [filter sfind fst].
    - destruct (P k); reflexivity.
    - destruct (P k0) eqn:E0; cbn [sfind]; rewrite IH.
      + destruct (cmp k k0) eqn:E; try reflexivity.
        apply (ol_eq cmp O) in E. subst k0. rewrite E0. reflexivity.
      + destruct (cmp k k0) eqn:E; try reflexivity.
        apply (ol_eq cmp O) in E. subst k0. rewrite E0. reflexivity.
  Qed.

  Lemma sorted_app (s1 s2 : list (K * V)) : sorted s1 -> sorted s2 ->
    (forall e1 e2, In e1 s1 -> In e2 s2 -> cmp (fst e1) (fst e2) = Lt) -> sorted (s1 ++ s2).
  Proof.
    induction s1 as [|e r IH]; intros S1 S2 H; cbn [app]; [exact S2|].
    destruct S1 as [L S1]. cbn [sorted]. split.
    - unfold lb in *. apply Forall_app. split; [exact L|].
      rewrite Forall_forall. intros e2 H2. apply H; [left; reflexivity|exact H2].
    - apply IH; auto. intros e1 e2 H1 H2. apply H; [right; exact H1|exact H2].
  Qed.
  Lemma sfind_app k (s1 s2 : list (K * V)) :
    sfind cmp k (s1 ++ s2) = match sfind cmp k s1 with Some v => Some v | None => sfind cmp k s2 end.
  Proof.
    induction s1 as [|[k0 v0] r IH]; cbn [app sfind]; [reflexivity|].
    destruct (cmp k k0); auto.
  Qed.
  Lemma sfind_some_in k v (s : list (K * V)) : sfind cmp k s = Some v -> In (k, v) s.
  Proof.
    induction s as [|[k0 v0] r IH]; cbn [sfind]; [discriminate|].
    destruct (cmp k k0) eqn:E; intro H.
    - injection H as ->. apply (ol_eq cmp O) in E. subst. left. reflexivity.
    - right. apply IH, H.
    - right. apply IH, H.
  Qed.
End SMapP.
