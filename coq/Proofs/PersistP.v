(* Theorems about the persistence model (C10, C11): the store is the image of the live channels
   after every operation and at every write boundary; the restorer reads that image back. *)
From Coq Require Import Arith PeanoNat ZifyN ZifyNat ZifyBool.
From V Require Import Model.Persist Proofs.ChannelP Proofs.MachineP.
Open Scope N_scope.

(* ====================================================================== *)
(* A. total orders                                                         *)
(* ====================================================================== *)
Record ord_laws {K} (cmp : K -> K -> comparison) : Prop := mkOrd {
  ol_eq : forall a b, cmp a b = Eq <-> a = b;
  ol_anti : forall a b, cmp b a = CompOpp (cmp a b);
  ol_trans : forall a b c, cmp a b = Lt -> cmp b c = Lt -> cmp a c = Lt }.

Lemma N_ord : ord_laws N.compare.
Proof.
  split.
  - apply N.compare_eq_iff.
  - intros a b. apply N.compare_antisym.
  - intros a b c H1 H2. apply N.compare_lt_iff in H1. apply N.compare_lt_iff in H2.
    apply N.compare_lt_iff. eapply N.lt_trans; eauto.
Qed.

Definition lex {A B} (ca : A -> A -> comparison) (cb : B -> B -> comparison) (x y : A * B) : comparison :=
  match ca (fst x) (fst y) with Eq => cb (snd x) (snd y) | c => c end.

Lemma lex_ord {A B} (ca : A -> A -> comparison) (cb : B -> B -> comparison) :
  ord_laws ca -> ord_laws cb -> ord_laws (lex ca cb).
Proof.
  intros [ea aa ta] [eb ab tb]. split.
  - intros [a1 b1] [a2 b2]. unfold lex. cbn [fst snd]. split.
    + destruct (ca a1 a2) eqn:E; try discriminate. intro H. apply ea in E. apply eb in H. congruence.
    + intro H. injection H as -> ->. rewrite (proj2 (ea a2 a2) eq_refl). apply eb. reflexivity.
  - intros [a1 b1] [a2 b2]. unfold lex. cbn [fst snd]. rewrite (aa a1 a2).
    destruct (ca a1 a2); cbn [CompOpp]; auto.
  - intros [a1 b1] [a2 b2] [a3 b3]. unfold lex. cbn [fst snd]. intros H1 H2.
    destruct (ca a1 a2) eqn:E1; try discriminate.
    + apply ea in E1. subst a2. destruct (ca a1 a3) eqn:E3; try discriminate; auto. eapply tb; eauto.
    + destruct (ca a2 a3) eqn:E2; try discriminate.
      * apply ea in E2. subst a3. rewrite E1. reflexivity.
      * rewrite (ta _ _ _ E1 E2). reflexivity.
Qed.

Lemma ord_transfer {A B} (f : A -> B) (cb : B -> B -> comparison) :
  ord_laws cb -> (forall x y, f x = f y -> x = y) -> ord_laws (fun x y => cb (f x) (f y)).
Proof.
  intros [e a t] inj. split.
  - intros x y. split; [intro H; apply inj, e, H | intros ->; apply e; reflexivity].
  - intros x y. apply a.
  - intros x y z. apply t.
Qed.

Lemma ord_ext {K} (c1 c2 : K -> K -> comparison) :
  (forall a b, c1 a b = c2 a b) -> ord_laws c2 -> ord_laws c1.
Proof.
  intros E [e a t]. split; intros; rewrite ?E in *.
  - apply e.
  - apply a.
  - eapply t; eauto.
Qed.

Lemma to_N_inj a b : Byte.to_N a = Byte.to_N b -> a = b.
Proof.
  intro H. assert (E : Byte.of_N (Byte.to_N a) = Byte.of_N (Byte.to_N b)) by (rewrite H; reflexivity).
  rewrite !Byte.of_to_N in E. congruence.
Qed.

Lemma bytes_ord : ord_laws bytes_cmp.
Proof.
  split.
  - intros a; induction a as [|x a IH]; intros [|y b]; cbn [bytes_cmp]; split; intro H;
      try reflexivity; try discriminate.
    + destruct (N.compare (Byte.to_N x) (Byte.to_N y)) eqn:E; try discriminate.
      apply N.compare_eq_iff, to_N_inj in E. apply IH in H. congruence.
    + injection H as -> ->. rewrite N.compare_refl. apply IH. reflexivity.
  - intros a; induction a as [|x a IH]; intros [|y b]; cbn [bytes_cmp CompOpp]; try reflexivity.
    rewrite (N.compare_antisym (Byte.to_N x) (Byte.to_N y)).
    destruct (N.compare (Byte.to_N x) (Byte.to_N y)); cbn [CompOpp]; auto.
  - intros a; induction a as [|x a IH]; intros [|y b] [|z c]; cbn [bytes_cmp]; intros H1 H2;
      try reflexivity; try discriminate.
    destruct (N.compare (Byte.to_N x) (Byte.to_N y)) eqn:E1; try discriminate.
    + apply N.compare_eq_iff in E1. rewrite E1.
      destruct (N.compare (Byte.to_N y) (Byte.to_N z)); try discriminate; auto. eapply IH; eauto.
    + destruct (N.compare (Byte.to_N y) (Byte.to_N z)) eqn:E2; try discriminate.
      * apply N.compare_eq_iff in E2. rewrite <- E2, E1. reflexivity.
      * apply N.compare_lt_iff in E1. apply N.compare_lt_iff in E2.
        assert (E3 : N.compare (Byte.to_N x) (Byte.to_N z) = Lt)
          by (apply N.compare_lt_iff; eapply N.lt_trans; eauto).
        rewrite E3. reflexivity.
Qed.

(* keys: lexicographic order of a uniform code *)
Definition fcode (f : field) : N * (N * N) :=
  match f with FSig w i => (6, (w, i)) | _ => (field_rank f, (0, 0)) end.
Definition fcmp3 := lex N.compare (lex N.compare N.compare).
Lemma fcmp3_ord : ord_laws fcmp3.
Proof. apply lex_ord; [apply N_ord|apply lex_ord; apply N_ord]. Qed.
Lemma field_cmp_code f g : field_cmp f g = fcmp3 (fcode f) (fcode g).
Proof. destruct f, g; reflexivity. Qed.
Lemma fcode_inj f g : fcode f = fcode g -> f = g.
Proof. destruct f, g; cbn; intro H; try discriminate H; try reflexivity. injection H as -> ->. reflexivity. Qed.
Lemma field_ord : ord_laws field_cmp.
Proof.
  eapply ord_ext; [apply field_cmp_code|].
  apply (ord_transfer fcode fcmp3 fcmp3_ord fcode_inj).
Qed.

Definition kcode (k : key) : N * (bytes * ((N * (N * N)) * bytes)) :=
  match k with
  | KChan id f => (0, (id, (fcode f, [])))
  | KPeer p id => (1, (p, ((0, (0, 0)), id)))
  end.
Definition kcmp4 := lex N.compare (lex bytes_cmp (lex fcmp3 bytes_cmp)).
Lemma kcmp4_ord : ord_laws kcmp4.
Proof.
  apply lex_ord; [apply N_ord|]. apply lex_ord; [apply bytes_ord|].
  apply lex_ord; [apply fcmp3_ord|apply bytes_ord].
Qed.
Lemma key_cmp_code a b : key_cmp a b = kcmp4 (kcode a) (kcode b).
Proof.
  destruct a as [i f|p i], b as [j g|q j]; unfold kcmp4, lex; cbn [kcode fst snd key_cmp N.compare]; try reflexivity.
  - rewrite field_cmp_code. destruct (bytes_cmp i j); try reflexivity.
    unfold fcmp3, lex. destruct (N.compare (fst (fcode f)) (fst (fcode g))); try reflexivity.
    destruct (N.compare (fst (snd (fcode f))) (fst (snd (fcode g)))); try reflexivity.
    destruct (N.compare (snd (snd (fcode f))) (snd (snd (fcode g)))); reflexivity.
Qed.
Lemma kcode_inj a b : kcode a = kcode b -> a = b.
Proof.
  destruct a, b; cbn; intro H; try discriminate H.
  - injection H as -> E. apply fcode_inj in E. congruence.
  - injection H as -> ->. reflexivity.
Qed.
Lemma key_ord : ord_laws key_cmp.
Proof.
  eapply ord_ext; [apply key_cmp_code|]. apply (ord_transfer kcode kcmp4 kcmp4_ord kcode_inj).
Qed.

(* ====================================================================== *)
(* B. sorted association lists                                             *)
(* ====================================================================== *)
Section SMapP.
  Context {K V : Type} (cmp : K -> K -> comparison) (O : ord_laws cmp).

  Lemma cmp_refl k : cmp k k = Eq.
  Proof. apply (ol_eq cmp O). reflexivity. Qed.
  Lemma cmp_gt_lt a b : cmp a b = Gt -> cmp b a = Lt.
  Proof. intro H. rewrite (ol_anti cmp O a b), H. reflexivity. Qed.
  Lemma cmp_lt_neq a b : cmp a b = Lt -> a <> b.
  Proof. intros H ->. rewrite cmp_refl in H. discriminate. Qed.

  Definition lb (k : K) (s : list (K * V)) : Prop := Forall (fun e => cmp k (fst e) = Lt) s.
  Fixpoint sorted (s : list (K * V)) : Prop :=
    match s with [] => True | e :: r => lb (fst e) r /\ sorted r end.

  Lemma lb_trans a b s : cmp a b = Lt -> lb b s -> lb a s.
  Proof.
    intros H L. unfold lb in *. rewrite Forall_forall in *. intros e He.
    eapply (ol_trans cmp O); [exact H|apply L; exact He].
  Qed.
  Lemma lb_notfound k s : lb k s -> sfind cmp k s = None.
  Proof.
    induction s as [|[k' v'] r IH]; intro L; cbn [sfind]; [reflexivity|].
    inversion L as [|? ? H1 H2]; subst. cbn [fst] in H1. rewrite H1. apply IH; exact H2.
  Qed.

  Lemma sfind_put k v k' (s : list (K * V)) :
    sfind cmp k' (sput cmp k v s) = match cmp k' k with Eq => Some v | _ => sfind cmp k' s end.
  Proof.
    induction s as [|[k0 v0] r IH]; cbn [sput sfind].
    - destruct (cmp k' k); reflexivity.
    - destruct (cmp k k0) eqn:E; cbn [sfind].
      + apply (ol_eq cmp O) in E. subst k0. destruct (cmp k' k); reflexivity.
      + destruct (cmp k' k); reflexivity.
      + rewrite IH. destruct (cmp k' k) eqn:E'; try reflexivity.
        apply (ol_eq cmp O) in E'. subst k'. rewrite E. reflexivity.
  Qed.

  Lemma lb_put a k v (s : list (K * V)) : cmp a k = Lt -> lb a s -> lb a (sput cmp k v s).
  Proof.
    intros H. induction s as [|[k0 v0] r IH]; intro L; cbn [sput].
    - constructor; [exact H|constructor].
    - inversion L as [|? ? H1 H2]; subst. destruct (cmp k k0).
      + constructor; [exact H|exact H2].
      + constructor; [exact H|exact L].
      + constructor; [exact H1|apply IH; exact H2].
  Qed.
  Lemma sorted_put k v (s : list (K * V)) : sorted s -> sorted (sput cmp k v s).
  Proof.
    induction s as [|[k0 v0] r IH]; intro S; cbn [sput].
    - cbn. split; [constructor|exact I].
    - destruct S as [L S]. cbn [fst] in L. destruct (cmp k k0) eqn:E.
      + apply (ol_eq cmp O) in E. subst k0. cbn. split; assumption.
      + cbn [sorted fst]. split; [|cbn; split; assumption].
        constructor; [exact E|]. eapply lb_trans; eauto.
      + cbn [sorted fst]. split; [|apply IH; exact S].
        apply lb_put; [apply cmp_gt_lt; exact E|exact L].
  Qed.

  Lemma lb_del a k (s : list (K * V)) : lb a s -> lb a (sdel cmp k s).
  Proof.
    induction s as [|[k0 v0] r IH]; intro L; cbn [sdel]; [constructor|].
    inversion L as [|? ? H1 H2]; subst. destruct (cmp k k0).
    - exact H2.
    - exact L.
    - constructor; [exact H1|apply IH; exact H2].
  Qed.
  Lemma sorted_del k (s : list (K * V)) : sorted s -> sorted (sdel cmp k s).
  Proof.
    induction s as [|[k0 v0] r IH]; intro S; cbn [sdel]; [exact I|].
    destruct S as [L S]. destruct (cmp k k0); [exact S|split; assumption|].
    cbn [sorted fst]. split; [apply lb_del; exact L|apply IH; exact S].
  Qed.
  Lemma sfind_del k k' (s : list (K * V)) : sorted s ->
    sfind cmp k' (sdel cmp k s) = match cmp k' k with Eq => None | _ => sfind cmp k' s end.
  Proof.
    induction s as [|[k0 v0] r IH]; intro S; cbn [sdel sfind].
    - destruct (cmp k' k); reflexivity.
    - destruct S as [L S]. cbn [fst] in L. destruct (cmp k k0) eqn:E; cbn [sfind].
      + apply (ol_eq cmp O) in E. subst k0. destruct (cmp k' k) eqn:E'; try reflexivity.
        apply (ol_eq cmp O) in E'. subst k'. apply lb_notfound; exact L.
      + destruct (cmp k' k) eqn:E'; try reflexivity.
        apply (ol_eq cmp O) in E'. subst k'. rewrite E. apply lb_notfound.
        eapply lb_trans; eauto.
      + rewrite (IH S). destruct (cmp k' k) eqn:E'; try reflexivity.
        apply (ol_eq cmp O) in E'. subst k'. rewrite E. reflexivity.
  Qed.

  (* canonical form: sorted lists with the same lookups are equal *)
  Lemma sorted_ext (s1 s2 : list (K * V)) : sorted s1 -> sorted s2 ->
    (forall k, sfind cmp k s1 = sfind cmp k s2) -> s1 = s2.
  Proof.
    revert s2. induction s1 as [|[k1 v1] r1 IH]; intros [|[k2 v2] r2] S1 S2 H.
    - reflexivity.
    - specialize (H k2). cbn [sfind] in H. rewrite cmp_refl in H. discriminate.
    - specialize (H k1). cbn [sfind] in H. rewrite cmp_refl in H. discriminate.
    - destruct S1 as [L1 S1], S2 as [L2 S2]. cbn [fst] in L1, L2.
      destruct (cmp k1 k2) eqn:E.
      + apply (ol_eq cmp O) in E. subst k2.
        pose proof (H k1) as H1. cbn [sfind] in H1. rewrite cmp_refl in H1. injection H1 as <-.
        f_equal. apply IH; auto. intro k. specialize (H k). cbn [sfind] in H.
        destruct (cmp k k1) eqn:E'; auto.
        apply (ol_eq cmp O) in E'. subst k. rewrite !lb_notfound; auto.
      + exfalso. specialize (H k1). cbn [sfind] in H. rewrite cmp_refl, E in H.
        rewrite lb_notfound in H; [discriminate|]. eapply lb_trans; eauto.
      + exfalso. specialize (H k2). cbn [sfind] in H. rewrite cmp_refl in H.
        rewrite (cmp_gt_lt _ _ E) in H. rewrite lb_notfound in H; [discriminate|].
        eapply lb_trans; [apply cmp_gt_lt; exact E|exact L1].
  Qed.

  Lemma sfind_in k v (s : list (K * V)) : sorted s -> (In (k, v) s <-> sfind cmp k s = Some v).
  Proof.
    induction s as [|[k0 v0] r IH]; intro S; cbn [sfind In].
    - split; [intros []|discriminate].
    - destruct S as [L S]. cbn [fst] in L. split.
      + intros [E|Hin].
        * injection E as -> ->. rewrite cmp_refl. reflexivity.
        * assert (Hlt : cmp k0 k = Lt).
          { unfold lb in L. rewrite Forall_forall in L. apply (L (k, v)). exact Hin. }
          rewrite (ol_anti cmp O k0 k), Hlt. cbn [CompOpp]. apply IH; assumption.
      + destruct (cmp k k0) eqn:E.
        * intro H. injection H as ->. apply (ol_eq cmp O) in E. subst. left. reflexivity.
        * intro H. right. apply IH; assumption.
        * intro H. right. apply IH; assumption.
  Qed.

  (* filters on the key *)
  Variable P : K -> bool.
  Lemma lb_filter a (s : list (K * V)) : lb a s -> lb a (filter (fun e => P (fst e)) s).
  Proof.
    unfold lb. rewrite !Forall_forall. intros H e He. apply filter_In in He. apply H, He.
  Qed.
  Lemma sorted_filter (s : list (K * V)) : sorted s -> sorted (filter (fun e => P (fst e)) s).
  Proof.
    induction s as [|[k0 v0] r IH]; intro S; cbn [filter]; [exact I|].
    destruct S as [L S]. cbn [fst] in *. destruct (P k0); [|apply IH; exact S].
    cbn [sorted fst]. split; [apply lb_filter; exact L|apply IH; exact S].
  Qed.
  Lemma sfind_filter k (s : list (K * V)) :
    sfind cmp k (filter (fun e => P (fst e)) s) = if P k then sfind cmp k s else None.
  Proof.
    induction s as [|[k0 v0] r IH]; cbn [filter sfind fst].
    - destruct (P k); reflexivity.
    - destruct (P k0) eqn:E0; cbn [sfind]; rewrite IH.
      + destruct (cmp k k0) eqn:E; try reflexivity.
        apply (ol_eq cmp O) in E. subst k0. rewrite E0. reflexivity.
      + destruct (cmp k k0) eqn:E; try reflexivity.
        apply (ol_eq cmp O) in E. subst k0. rewrite E0. reflexivity.
  Qed.

  Lemma sorted_app (s1 s2 : list (K * V)) : sorted s1 -> sorted s2 ->
    (forall e1 e2, In e1 s1 -> In e2 s2 -> cmp (fst e1) (fst e2) = Lt) -> sorted (s1 ++ s2).
  Proof.
    induction s1 as [|e r IH]; intros S1 S2 H; cbn [app]; [exact S2|].
    destruct S1 as [L S1]. cbn [sorted]. split.
    - unfold lb in *. apply Forall_app. split; [exact L|].
      rewrite Forall_forall. intros e2 H2. apply H; [left; reflexivity|exact H2].
    - apply IH; auto. intros e1 e2 H1 H2. apply H; [right; exact H1|exact H2].
  Qed.
  Lemma sfind_app k (s1 s2 : list (K * V)) :
    sfind cmp k (s1 ++ s2) = match sfind cmp k s1 with Some v => Some v | None => sfind cmp k s2 end.
  Proof.
    induction s1 as [|[k0 v0] r IH]; cbn [app sfind]; [reflexivity|].
    destruct (cmp k k0); auto.
  Qed.
  Lemma sfind_some_in k v (s : list (K * V)) : sfind cmp k s = Some v -> In (k, v) s.
  Proof.
    induction s as [|[k0 v0] r IH]; cbn [sfind]; [discriminate|].
    destruct (cmp k k0) eqn:E; intro H.
    - injection H as ->. apply (ol_eq cmp O) in E. subst. left. reflexivity.
    - right. apply IH, H.
    - right. apply IH, H.
  Qed.
End SMapP.

(* ====================================================================== *)
(* C. the image of the live channels                                       *)
(* ====================================================================== *)
Notation kfind := (sfind key_cmp).
Notation ksorted := (sorted key_cmp).
Notation klb := (lb key_cmp).
Notation wsorted := (sorted bytes_cmp).

Lemma kc_refl k : key_cmp k k = Eq.
Proof. apply (cmp_refl key_cmp key_ord). Qed.
Lemma bc_refl b : bytes_cmp b b = Eq.
Proof. apply (cmp_refl bytes_cmp bytes_ord). Qed.
Lemma kc_same id f g : key_cmp (KChan id f) (KChan id g) = field_cmp f g.
Proof. cbn [key_cmp]. rewrite bc_refl. reflexivity. Qed.
Lemma kc_eq a b : key_cmp a b = Eq <-> a = b.
Proof. apply (ol_eq key_cmp key_ord). Qed.
Lemma bytes_eqb_cmp a b : bytes_eqb a b = true <-> bytes_cmp a b = Eq.
Proof. rewrite bytes_eqb_eq. symmetry. apply (ol_eq bytes_cmp bytes_ord). Qed.
Lemma bytes_eqb_refl a : bytes_eqb a a = true.
Proof. apply bytes_eqb_eq. reflexivity. Qed.
Lemma bytes_eqb_neq a b : a <> b -> bytes_eqb a b = false.
Proof. intro H. destruct (bytes_eqb a b) eqn:E; [apply bytes_eqb_eq in E; contradiction|reflexivity]. Qed.
Lemma bytes_dec (a b : bytes) : {a = b} + {a <> b}.
Proof. destruct (bytes_eqb a b) eqn:E; [left; apply bytes_eqb_eq, E|right; intro H; apply bytes_eqb_eq in H; congruence]. Qed.

Lemma sfind_cons_eq k v (r : store) : kfind k ((k, v) :: r) = Some v.
Proof. cbn [sfind]. rewrite kc_refl. reflexivity. Qed.
Lemma sfind_cons_neq k k0 v0 (r : store) : k <> k0 -> kfind k ((k0, v0) :: r) = kfind k r.
Proof.
  intro H. cbn [sfind]. destruct (key_cmp k k0) eqn:E; try reflexivity.
  apply kc_eq in E. contradiction.
Qed.
Lemma sfind_none k (l : store) : (forall e, In e l -> fst e <> k) -> kfind k l = None.
Proof.
  induction l as [|[k0 v0] r IH]; intro H; [reflexivity|].
  rewrite sfind_cons_neq.
  - apply IH. intros e He. apply H. right. exact He.
  - intro E. apply (H (k0, v0)); [left; reflexivity|symmetry; exact E].
Qed.

Lemma ksfind_app k (s1 s2 : store) :
  kfind k (s1 ++ s2) = match kfind k s1 with Some v => Some v | None => kfind k s2 end.
Proof. apply (sfind_app key_cmp). Qed.

Definition stg_value (m : mach) : value :=
  match staging m with Some t => VState (tx_st t) | None => VEmpty end.
(* what the store holds for a live channel, field by field *)
Definition field_spec (c : chan) (f : field) : option value :=
  let m := c_m c in
  match f with
  | FCurrent => Some (VTx (current m))
  | FIndex => Some (VIdx (me m))
  | FParams => Some (VParams (ps m))
  | FParent => Some (VParent (c_parent c))
  | FPeers => Some (VPeers (c_peers c))
  | FPhase => Some (VPhase (ph m))
  | FSig w i => if (w =? sig_width (N.of_nat (nsigs m))) && (i <? N.of_nat (nsigs m))
                then Some (sig_value m i) else None
  | FStaging => Some (stg_value m)
  end.

Definition sig_entries (id : bytes) (m : mach) (a k : nat) : list entry :=
  map (fun i => (KChan id (sig_field (nsigs m) i), sig_value m (N.of_nat i))) (seq a k).

Lemma sfind_sig_entries id m w i a k :
  kfind (KChan id (FSig w i)) (sig_entries id m a k) =
  if (w =? sig_width (N.of_nat (nsigs m))) && (N.of_nat a <=? i) && (i <? N.of_nat (a + k))
  then Some (sig_value m i) else None.
Proof.
  revert a. induction k as [|k IH]; intro a; unfold sig_entries in *; cbn [seq map].
  - cbn [sfind]. destruct (w =? _); cbn [andb]; [|reflexivity].
    destruct (N.of_nat a <=? i) eqn:E1; cbn [andb]; [|reflexivity].
    destruct (i <? N.of_nat (a + 0)) eqn:E2; [|reflexivity]. lia.
  - unfold sig_field at 1.
    destruct (N.eq_dec w (sig_width (N.of_nat (nsigs m)))) as [Ew|Ew];
      [destruct (N.eq_dec i (N.of_nat a)) as [Ei|Ei]|].
    + subst w i. rewrite sfind_cons_eq. rewrite N.eqb_refl. cbn [andb].
      replace (N.of_nat a <=? N.of_nat a) with true by lia.
      replace (N.of_nat a <? N.of_nat (a + S k)) with true by lia. reflexivity.
    + rewrite sfind_cons_neq by congruence. rewrite IH. subst w. rewrite N.eqb_refl. cbn [andb].
      replace (N.of_nat (S a) <=? i) with (N.of_nat a <=? i) by lia.
      replace (a + S k)%nat with (S a + k)%nat by lia. reflexivity.
    + rewrite sfind_cons_neq by congruence. rewrite IH.
      replace (w =? sig_width (N.of_nat (nsigs m))) with false by lia. reflexivity.
Qed.

Lemma chan_kvs_eq id c :
  chan_kvs id c =
  [ (KChan id FCurrent, VTx (current (c_m c))); (KChan id FIndex, VIdx (me (c_m c)));
    (KChan id FParams, VParams (ps (c_m c))); (KChan id FParent, VParent (c_parent c));
    (KChan id FPeers, VPeers (c_peers c)); (KChan id FPhase, VPhase (ph (c_m c))) ]
  ++ sig_entries id (c_m c) 0 (nsigs (c_m c)) ++ [ (KChan id FStaging, stg_value (c_m c)) ].
Proof. reflexivity. Qed.

Lemma sig_entries_keys id m a k e : In e (sig_entries id m a k) -> exists w i, fst e = KChan id (FSig w i).
Proof.
  unfold sig_entries. intro H. apply in_map_iff in H as [j [<- _]]. cbn [fst]. unfold sig_field. eauto.
Qed.

Lemma sfind_chan_kvs id c f : kfind (KChan id f) (chan_kvs id c) = field_spec c f.
Proof.
  rewrite chan_kvs_eq. cbn [app].
  assert (Hsig : forall g, (forall w i, g <> FSig w i) ->
            kfind (KChan id g) (sig_entries id (c_m c) 0 (nsigs (c_m c))) = None).
  { intros g Hg. apply sfind_none. intros e He. apply sig_entries_keys in He as [w [i E]].
    rewrite E. intro X. injection X as X. apply (Hg w i). symmetry. exact X. }
  destruct f; cbn [field_spec];
    try (rewrite ?sfind_cons_neq by discriminate; rewrite ?sfind_cons_eq; try reflexivity).
  - (* FSig *) rewrite ksfind_app, sfind_sig_entries.
    replace (N.of_nat 0 <=? i) with true by lia. rewrite andb_true_r. cbn [plus].
    destruct ((w =? _) && (i <? _)); [reflexivity|].
    rewrite sfind_cons_neq by discriminate. reflexivity.
  - (* FStaging *) rewrite ksfind_app, Hsig by (intros; discriminate).
    rewrite sfind_cons_eq. reflexivity.
Qed.

Lemma sfind_chan_kvs_other id c k : (forall f, k <> KChan id f) -> kfind k (chan_kvs id c) = None.
Proof.
  intro H. apply sfind_none. intros e He. rewrite chan_kvs_eq in He.
  assert (exists f, fst e = KChan id f) as [f E].
  { apply in_app_or in He as [He|He].
    - cbn [In] in He. repeat (destruct He as [<-|He]; [cbn [fst]; eauto|]). destruct He.
    - apply in_app_or in He as [He|He].
      + apply sig_entries_keys in He as [w [i E]]. eauto.
      + destruct He as [<-|[]]. cbn [fst]. eauto. }
  rewrite E. intro X. apply (H f). symmetry. exact X.
Qed.

(* sortedness of a channel's block *)
Lemma lb_sig_entries id m a k j : (j < a)%nat -> klb (KChan id (sig_field (nsigs m) j)) (sig_entries id m a k).
Proof.
  intro H. unfold lb, sig_entries. rewrite Forall_forall. intros e He.
  apply in_map_iff in He as [i [<- Hi]]. apply in_seq in Hi. cbn [fst]. rewrite kc_same.
  unfold sig_field. cbn [field_cmp]. rewrite N.compare_refl. apply N.compare_lt_iff. lia.
Qed.
Lemma sorted_sig_entries id m a k : ksorted (sig_entries id m a k).
Proof.
  revert a. induction k as [|k IH]; intro a; [exact I|].
  unfold sig_entries. cbn [seq map sorted fst]. split; [apply lb_sig_entries; lia|apply IH].
Qed.
Lemma lb_low_rest id c f : field_rank f < 6 ->
  klb (KChan id f) (sig_entries id (c_m c) 0 (nsigs (c_m c)) ++ [(KChan id FStaging, stg_value (c_m c))]).
Proof.
  intro H. unfold lb. apply Forall_app. split.
  - rewrite Forall_forall. intros e He. apply sig_entries_keys in He as [w [i E]]. rewrite E, kc_same.
    destruct f; cbn [field_rank] in H; try lia; reflexivity.
  - constructor; [|constructor]. cbn [fst]. rewrite kc_same.
    destruct f; cbn [field_rank] in H; try lia; reflexivity.
Qed.
Lemma sorted_chan_kvs id c : ksorted (chan_kvs id c).
Proof.
  rewrite chan_kvs_eq. cbn [app sorted fst].
  assert (R : ksorted (sig_entries id (c_m c) 0 (nsigs (c_m c)) ++ [(KChan id FStaging, stg_value (c_m c))])).
  { apply (sorted_app key_cmp); [apply sorted_sig_entries|cbn; split; [constructor|exact I]|].
    intros e1 e2 H1 [<-|[]]. apply sig_entries_keys in H1 as [w [i E]]. rewrite E. cbn [fst].
    rewrite kc_same. reflexivity. }
  repeat split; try exact R;
    try (unfold lb; repeat (apply Forall_cons; [cbn [fst]; rewrite kc_same; reflexivity|]);
         apply lb_low_rest; cbn [field_rank]; lia).
Qed.

(* world lookups *)
Lemma wfind_put id c id' (W : world) :
  wfind id' (sput bytes_cmp id c W) = if bytes_eqb id' id then Some c else wfind id' W.
Proof.
  unfold wfind. rewrite (sfind_put bytes_cmp bytes_ord).
  destruct (bytes_cmp id' id) eqn:E.
  - apply bytes_eqb_cmp in E. rewrite E. reflexivity.
  - rewrite bytes_eqb_neq; [reflexivity|]. intros ->. rewrite bc_refl in E. discriminate.
  - rewrite bytes_eqb_neq; [reflexivity|]. intros ->. rewrite bc_refl in E. discriminate.
Qed.
Lemma wfind_del id id' (W : world) : wsorted W ->
  wfind id' (sdel bytes_cmp id W) = if bytes_eqb id' id then None else wfind id' W.
Proof.
  intro S. unfold wfind. rewrite (sfind_del bytes_cmp bytes_ord) by exact S.
  destruct (bytes_cmp id' id) eqn:E.
  - apply bytes_eqb_cmp in E. rewrite E. reflexivity.
  - rewrite bytes_eqb_neq; [reflexivity|]. intros ->. rewrite bc_refl in E. discriminate.
  - rewrite bytes_eqb_neq; [reflexivity|]. intros ->. rewrite bc_refl in E. discriminate.
Qed.

Definition stg_enc (m : mach) : Prop := forall t, staging m = Some t -> state_encodable (tx_st t) = true.
Definition wf_chan (id : bytes) (c : chan) : Prop := chan_id (c_m c) = id /\ Inv (c_m c) /\ stg_enc (c_m c).
Definition wfW (W : world) : Prop := wsorted W /\ forall id c, wfind id W = Some c -> wf_chan id c.

Definition spec_chan (W : world) (id : bytes) (f : field) : option value :=
  match wfind id W with Some c => field_spec c f | None => None end.
Definition spec_peer (W : world) (p id : bytes) : option value :=
  match wfind id W with Some c => if bytes_mem p (c_peers c) then Some VEmpty else None | None => None end.
(* the store as a function of the live channels: "store = image (snapshots)" *)
Definition RepC (W : world) (s : store) : Prop :=
  ksorted s /\ forall id f, kfind (KChan id f) s = spec_chan W id f.
Definition RepP (W : world) (s : store) : Prop :=
  forall p id, kfind (KPeer p id) s = spec_peer W p id.
Definition Rep (W : world) (s : store) : Prop := RepC W s /\ RepP W s.

Lemma Rep_unique W s s' : Rep W s -> Rep W s' -> s = s'.
Proof.
  intros [[S1 C1] P1] [[S2 C2] P2]. apply (sorted_ext key_cmp key_ord); auto.
  intros [id f|p id]; [rewrite C1, C2|rewrite P1, P2]; reflexivity.
Qed.

(* ====================================================================== *)
(* D. the restorer reads the image back                                    *)
(* ====================================================================== *)
Definition cp_key (id : bytes) (k : key) : bool :=
  match k with KChan id' _ => bytes_eqb id id' | KPeer _ _ => false end.
Definition pp_key (p : bytes) (k : key) : bool :=
  match k with KPeer q _ => bytes_eqb p q | KChan _ _ => false end.
Definition is_chan_key (k : key) : bool := match k with KChan _ _ => true | _ => false end.

Lemma ksfind_filter (P : key -> bool) k (s : store) :
  kfind k (filter (fun e => P (fst e)) s) = if P k then kfind k s else None.
Proof. apply (sfind_filter key_cmp key_ord). Qed.
Lemma ksorted_filter (P : key -> bool) (s : store) : ksorted s -> ksorted (filter (fun e => P (fst e)) s).
Proof. apply (sorted_filter key_cmp). Qed.

Lemma filter_chan_some W s id c : RepC W s -> wfind id W = Some c ->
  filter (chan_prefix id) s = chan_kvs id c.
Proof.
  intros [S C] Hc. change (chan_prefix id) with (fun e : entry => cp_key id (fst e)).
  apply (sorted_ext key_cmp key_ord); [apply ksorted_filter; exact S|apply sorted_chan_kvs|].
  intro k. rewrite ksfind_filter. destruct k as [id' f|p id']; cbn [cp_key].
  - destruct (bytes_eqb id id') eqn:E.
    + apply bytes_eqb_eq in E. subst id'. rewrite C. unfold spec_chan. rewrite Hc.
      symmetry. apply sfind_chan_kvs.
    + symmetry. apply sfind_chan_kvs_other. intros f' X. injection X as X _. subst id'.
      rewrite bytes_eqb_refl in E. discriminate.
  - symmetry. apply sfind_chan_kvs_other. intros f' X. discriminate X.
Qed.
Lemma filter_chan_none W s id : RepC W s -> wfind id W = None -> filter (chan_prefix id) s = [].
Proof.
  intros [S C] Hc. change (chan_prefix id) with (fun e : entry => cp_key id (fst e)).
  apply (sorted_ext key_cmp key_ord); [apply ksorted_filter; exact S|exact I|].
  intro k. rewrite ksfind_filter. cbn [sfind]. destruct k as [id' f|p id']; cbn [cp_key]; [|reflexivity].
  destruct (bytes_eqb id id') eqn:E; [|reflexivity].
  apply bytes_eqb_eq in E. subst id'. rewrite C. unfold spec_chan. rewrite Hc. reflexivity.
Qed.

Lemma dn_val ae aem k key v r more e : v <> VEmpty -> accepts k v = true ->
  dn ae aem k (mkIt (((key, v) :: r) :: more) e) = (DVal v, mkIt (r :: more) false).
Proof.
  intros Hv Ha. unfold dn. cbn [decode_next it_its it_err].
  destruct v; try contradiction; rewrite Ha; reflexivity.
Qed.

Definition sig_opt (v : value) : option sigtok := match v with VSig g => Some g | _ => None end.
Lemma sig_value_cases m i : sig_value m i = VEmpty \/ exists g, sig_value m i = VSig g.
Proof.
  unfold sig_value. destruct (staging m) as [t|]; [|left; reflexivity].
  destruct (nth_error (tx_sigs t) (N.to_nat i)) as [[g|]|]; eauto.
Qed.

Lemma read_sigs_entries id m a k rest more :
  read_sigs k (mkIt ((sig_entries id m a k ++ rest) :: more) false) =
  Some (map (fun i => sig_opt (sig_value m (N.of_nat i))) (seq a k), mkIt (rest :: more) false).
Proof.
  revert a. induction k as [|k IH]; intro a; [reflexivity|].
  unfold sig_entries in *. cbn [seq map app read_sigs].
  destruct (sig_value_cases m (N.of_nat a)) as [E|[g E]]; rewrite E.
  - unfold dn. cbn [decode_next it_its it_err]. rewrite IH. reflexivity.
  - rewrite dn_val by (discriminate || reflexivity). rewrite IH. reflexivity.
Qed.

Lemma map_nth_error_flat {A} (l : list (option A)) :
  map (fun i => match nth_error l i with Some x => x | None => None end) (seq 0 (length l)) = l.
Proof.
  induction l as [|x l IH]; [reflexivity|].
  cbn [length seq map nth_error]. f_equal. rewrite <- seq_shift, map_map. exact IH.
Qed.
Lemma map_const_repeat {A B} (b : B) (l : list A) : map (fun _ => b) l = repeat b (length l).
Proof. induction l; cbn; congruence. Qed.

Lemma sigs_roundtrip m : length (staged_sigs m) = nsigs m ->
  map (fun i => sig_opt (sig_value m (N.of_nat i))) (seq 0 (nsigs m)) = staged_sigs m.
Proof.
  unfold staged_sigs, sig_value. destruct (staging m) as [t|]; intro L.
  - rewrite <- L. rewrite <- (map_nth_error_flat (tx_sigs t)) at 2.
    apply map_ext. intro i. rewrite Nat2N.id.
    destruct (nth_error (tx_sigs t) i) as [[g|]|]; reflexivity.
  - cbn [sig_opt]. rewrite map_const_repeat, seq_length. reflexivity.
Qed.

Definition sigs_len (c : chan) : Prop := length (staged_sigs (c_m c)) = nsigs (c_m c).

Lemma next_chan id c rest more e : sigs_len c ->
  next (mkIt ((chan_kvs id c ++ rest) :: more) e) = (NSome (snap_of c), mkIt (rest :: more) false).
Proof.
  intro L. rewrite chan_kvs_eq. rewrite <- !app_assoc. cbn [app]. unfold next. cbn [it_its].
  rewrite dn_val by (discriminate || reflexivity). cbn [dbind].
  rewrite dn_val by (discriminate || reflexivity). cbn [dbind].
  rewrite dn_val by (discriminate || reflexivity). cbn [dbind].
  rewrite dn_val by (discriminate || reflexivity). cbn [dbind].
  rewrite dn_val by (discriminate || reflexivity). cbn [dbind].
  rewrite dn_val by (discriminate || reflexivity). cbn [dbind].
  change (length (mp_parts (ps (c_m c)))) with (nsigs (c_m c)).
  rewrite read_sigs_entries. rewrite (sigs_roundtrip _ L).
  unfold snap_of, stg_value. destruct (staging (c_m c)) as [t|] eqn:Est.
  - rewrite dn_val by (discriminate || reflexivity). cbn [option_map]. reflexivity.
  - unfold dn. cbn [decode_next it_its it_err option_map]. reflexivity.
Qed.

Lemma next_skip_empty b more e : next (mkIt ([] :: b :: more) e) = next (mkIt (b :: more) e).
Proof. reflexivity. Qed.
Lemma next_end e : next (mkIt [[]] e) = (NNone, mkIt [] e).
Proof. reflexivity. Qed.
Lemma next_nil e : next (mkIt [] e) = (NNone, mkIt [] e).
Proof. reflexivity. Qed.

Lemma Inv_sigs_len id c : wf_chan id c -> sigs_len c.
Proof.
  intros [_ [I _]]. unfold sigs_len, staged_sigs, nsigs.
  destruct (staging (c_m c)) as [t|] eqn:E.
  - destruct (inv_staging _ I t E) as [L _]. exact L.
  - apply repeat_length.
Qed.

(* RestoreChannel returns the snapshot of the live channel, or "not found" *)
Lemma restore_chan_view W s id : RepC W s -> wfW W -> restore_chan s id = view W id.
Proof.
  intros R [_ Hwf]. unfold restore_chan, view. destruct (wfind id W) as [c|] eqn:E.
  - rewrite (filter_chan_some W s id c R E). rewrite <- (app_nil_r (chan_kvs id c)).
    rewrite next_chan by (eapply Inv_sigs_len, Hwf, E). reflexivity.
  - rewrite (filter_chan_none W s id R E). reflexivity.
Qed.

(* ---------- RestoreAll ---------- *)
Definition kvs_of (ic : bytes * chan) : list entry := chan_kvs (fst ic) (snd ic).
Definition blocks (W : world) : store := concat (map kvs_of W).

Lemma chan_kvs_keys id c e : In e (chan_kvs id c) -> exists f, fst e = KChan id f.
Proof.
  intro He. rewrite chan_kvs_eq in He. apply in_app_or in He as [He|He].
  - cbn [In] in He. repeat (destruct He as [<-|He]; [cbn [fst]; eauto|]). destruct He.
  - apply in_app_or in He as [He|He].
    + apply sig_entries_keys in He as [w [i E]]. eauto.
    + destruct He as [<-|[]]. cbn [fst]. eauto.
Qed.
Lemma blocks_keys W e : In e (blocks W) -> exists id c f, In (id, c) W /\ fst e = KChan id f.
Proof.
  unfold blocks. intro H. apply in_concat in H as [l [Hl He]]. apply in_map_iff in Hl as [[id c] [<- Hic]].
  apply chan_kvs_keys in He as [f E]. eauto.
Qed.
Lemma wfind_cons id id0 c0 (W : world) :
  wfind id ((id0, c0) :: W) = if bytes_eqb id id0 then Some c0 else wfind id W.
Proof.
  unfold wfind. cbn [sfind]. destruct (bytes_cmp id id0) eqn:E.
  - apply bytes_eqb_cmp in E. rewrite E. reflexivity.
  - rewrite bytes_eqb_neq; [reflexivity|]. intros ->. rewrite bc_refl in E. discriminate.
  - rewrite bytes_eqb_neq; [reflexivity|]. intros ->. rewrite bc_refl in E. discriminate.
Qed.
Lemma wlb_notfound id (W : world) : lb bytes_cmp id W -> wfind id W = None.
Proof. apply (lb_notfound bytes_cmp). Qed.

Lemma sorted_blocks W : wsorted W -> ksorted (blocks W).
Proof.
  induction W as [|[id0 c0] W IH]; intro S; [exact I|].
  destruct S as [L S]. cbn [fst] in L. unfold blocks. cbn [map concat].
  apply (sorted_app key_cmp); [apply sorted_chan_kvs|apply IH, S|].
  intros e1 e2 H1 H2. apply chan_kvs_keys in H1 as [f1 E1]. cbn [fst snd] in E1.
  apply blocks_keys in H2 as [id [c [f2 [Hin E2]]]]. rewrite E1, E2. cbn [key_cmp].
  unfold lb in L. rewrite Forall_forall in L. pose proof (L _ Hin) as Hl. cbn [fst] in Hl.
  rewrite Hl. reflexivity.
Qed.
Lemma sfind_blocks W k : wsorted W ->
  kfind k (blocks W) = match k with KChan id f => spec_chan W id f | KPeer _ _ => None end.
Proof.
  induction W as [|[id0 c0] W IH]; intro S.
  - destruct k; reflexivity.
  - destruct S as [L S]. cbn [fst] in L. unfold blocks. cbn [map concat]. fold (blocks W).
    rewrite ksfind_app, (IH S). unfold kvs_of. cbn [fst snd]. destruct k as [id f|p id].
    + unfold spec_chan. rewrite wfind_cons. destruct (bytes_eqb id id0) eqn:E.
      * apply bytes_eqb_eq in E. subst id0. rewrite sfind_chan_kvs.
        destruct (field_spec c0 f); [reflexivity|]. rewrite (wlb_notfound _ _ L). reflexivity.
      * rewrite sfind_chan_kvs_other; [reflexivity|].
        intros f' X. injection X as X _. subst id0. rewrite bytes_eqb_refl in E. discriminate.
    + rewrite sfind_chan_kvs_other by (intros; discriminate). reflexivity.
Qed.

Lemma filter_all W s : RepC W s -> wsorted W -> filter is_chan_entry s = blocks W.
Proof.
  intros [S C] SW. change is_chan_entry with (fun e : entry => is_chan_key (fst e)).
  apply (sorted_ext key_cmp key_ord); [apply ksorted_filter; exact S|apply sorted_blocks; exact SW|].
  intro k. rewrite ksfind_filter, sfind_blocks by exact SW.
  destruct k; cbn [is_chan_key]; [apply C|reflexivity].
Qed.

Definition all_sigs_len (L : list (bytes * chan)) : Prop := forall ic, In ic L -> sigs_len (snd ic).

Lemma drain_blocks W fuel : all_sigs_len W -> (length W < fuel)%nat ->
  drain fuel (mkIt [blocks W] false) = (map (fun ic => snap_of (snd ic)) W, EOk).
Proof.
  revert fuel. induction W as [|[id0 c0] W IH]; intros [|fuel] HL Hf; try (cbn [length] in Hf; lia).
  - reflexivity.
  - cbn [drain]. unfold blocks. cbn [map concat]. fold (blocks W). unfold kvs_of at 1. cbn [fst snd].
    rewrite next_chan by (apply (HL (id0, c0)); left; reflexivity).
    rewrite IH; [reflexivity| |cbn [length] in Hf; lia].
    intros ic Hic. apply HL. right. exact Hic.
Qed.

Lemma filter_length_le' {A} (f : A -> bool) l : (length (filter f l) <= length l)%nat.
Proof. induction l as [|x l IH]; cbn [filter length]; [lia|]. destruct (f x); cbn [length]; lia. Qed.
Lemma chan_kvs_nonempty id c : (1 <= length (chan_kvs id c))%nat.
Proof. rewrite chan_kvs_eq. cbn [app length]. lia. Qed.
Lemma blocks_length W : (length W <= length (blocks W))%nat.
Proof.
  induction W as [|[id c] W IH]; [cbn; lia|]. unfold blocks. cbn [map concat length]. fold (blocks W).
  rewrite app_length. pose proof (chan_kvs_nonempty id c). unfold kvs_of. cbn [fst snd]. lia.
Qed.
Lemma world_le_store W s : RepC W s -> wsorted W -> (length W <= length s)%nat.
Proof.
  intros R SW. pose proof (filter_all W s R SW) as E. pose proof (filter_length_le' is_chan_entry s).
  pose proof (blocks_length W). rewrite E in *. lia.
Qed.
Lemma wfW_sigs_len W : wfW W -> all_sigs_len W.
Proof.
  intros [SW H] [id c] Hin. cbn [snd]. eapply (Inv_sigs_len id). apply H.
  unfold wfind. apply (sfind_in bytes_cmp bytes_ord); assumption.
Qed.

Lemma restore_all_spec W s : RepC W s -> wfW W ->
  restore_all s = (map (fun ic => snap_of (snd ic)) W, EOk).
Proof.
  intros R HW. unfold restore_all. rewrite (filter_all W s R (proj1 HW)).
  apply drain_blocks; [apply wfW_sigs_len; exact HW|].
  pose proof (world_le_store W s R (proj1 HW)). lia.
Qed.

(* ---------- RestorePeer ---------- *)
Definition lists_peer (p : bytes) (ic : bytes * chan) : bool := bytes_mem p (c_peers (snd ic)).
Definition sel (p : bytes) (W : world) : world := filter (lists_peer p) W.
Definition peer_entry (p : bytes) (ic : bytes * chan) : entry := (KPeer p (fst ic), VEmpty).

Lemma sorted_peer_list p W : wsorted W -> ksorted (map (peer_entry p) (sel p W)).
Proof.
  induction W as [|[id0 c0] W IH]; intro S; [exact I|].
  destruct S as [L S]. cbn [fst] in L. unfold sel. cbn [filter]. fold (sel p W).
  destruct (lists_peer p (id0, c0)); [|apply IH, S].
  cbn [map sorted]. split; [|apply IH, S].
  unfold lb. rewrite Forall_forall. intros e He. apply in_map_iff in He as [[id c] [<- Hin]].
  unfold sel in Hin. apply filter_In in Hin as [Hin _]. cbn [peer_entry fst key_cmp]. rewrite bc_refl.
  unfold lb in L. rewrite Forall_forall in L. apply (L _ Hin).
Qed.
Lemma sfind_peer_list p W q id : wsorted W ->
  kfind (KPeer q id) (map (peer_entry p) (sel p W)) = if bytes_eqb p q then spec_peer W p id else None.
Proof.
  intro S. destruct (bytes_eqb p q) eqn:Epq.
  - apply bytes_eqb_eq in Epq. subst q. induction W as [|[id0 c0] W IH]; [reflexivity|].
    destruct S as [L S]. cbn [fst] in L. unfold sel. cbn [filter]. fold (sel p W).
    unfold spec_peer. rewrite wfind_cons. unfold lists_peer at 1. cbn [snd].
    destruct (bytes_eqb id id0) eqn:E.
    + apply bytes_eqb_eq in E. subst id0. destruct (bytes_mem p (c_peers c0)).
      * cbn [map peer_entry fst]. apply sfind_cons_eq.
      * rewrite (IH S). unfold spec_peer. rewrite (wlb_notfound _ _ L). reflexivity.
    + destruct (bytes_mem p (c_peers c0)); [|apply IH, S].
      cbn [map]. unfold peer_entry at 1. cbn [fst]. rewrite sfind_cons_neq; [apply IH, S|].
      intro X. injection X as X. subst id0. rewrite bytes_eqb_refl in E. discriminate.
  - apply sfind_none. intros e He. apply in_map_iff in He as [ic [<- _]]. cbn [peer_entry fst].
    intro X. injection X as X _. subst q. rewrite bytes_eqb_refl in Epq. discriminate.
Qed.
Lemma filter_peer W s p : RepP W s -> ksorted s -> wsorted W ->
  filter (peer_prefix p) s = map (peer_entry p) (sel p W).
Proof.
  intros RP S SW. change (peer_prefix p) with (fun e : entry => pp_key p (fst e)).
  apply (sorted_ext key_cmp key_ord); [apply ksorted_filter; exact S|apply sorted_peer_list; exact SW|].
  intro k. rewrite ksfind_filter. destruct k as [id f|q id]; cbn [pp_key].
  - symmetry. apply sfind_none. intros e He. apply in_map_iff in He as [ic [<- _]]. discriminate.
  - rewrite sfind_peer_list by exact SW. destruct (bytes_eqb p q) eqn:E; [|reflexivity].
    apply bytes_eqb_eq in E. subst q. apply RP.
Qed.
Lemma peer_ids_of_list p (L : world) :
  fold_right (fun (e : entry) acc => match fst e with KPeer _ id => id :: acc | _ => acc end) []
             (map (peer_entry p) L) = map fst L.
Proof. induction L as [|ic L IH]; cbn [map fold_right peer_entry fst]; congruence. Qed.

Lemma drain_skip fuel (L : list (list entry)) :
  drain fuel (mkIt ([] :: L) false) = drain fuel (mkIt L false).
Proof.
  destruct fuel as [|fuel]; [reflexivity|]. destruct L as [|b L]; cbn [drain].
  - rewrite next_end, next_nil. reflexivity.
  - rewrite next_skip_empty. reflexivity.
Qed.
Lemma drain_list (L : world) fuel : all_sigs_len L -> (length L < fuel)%nat ->
  drain fuel (mkIt (map kvs_of L) false) = (map (fun ic => snap_of (snd ic)) L, EOk).
Proof.
  revert fuel. induction L as [|[id0 c0] L IH]; intros [|fuel] HL Hf; try (cbn [length] in Hf; lia).
  - reflexivity.
  - cbn [drain map]. unfold kvs_of at 1. cbn [fst snd]. rewrite <- (app_nil_r (chan_kvs id0 c0)).
    rewrite next_chan by (apply (HL (id0, c0)); left; reflexivity).
    rewrite drain_skip, IH; [reflexivity| |cbn [length] in Hf; lia].
    intros ic Hic. apply HL. right. exact Hic.
Qed.

Lemma restore_peer_spec W s p : Rep W s -> wfW W ->
  restore_peer s p = (map (fun ic => snap_of (snd ic)) (sel p W), EOk).
Proof.
  intros [RC RP] HW. pose proof (proj1 HW) as SW. unfold restore_peer, peer_chan_ids.
  rewrite (filter_peer W s p RP (proj1 RC) SW), peer_ids_of_list, map_map.
  assert (E : map (fun ic : bytes * chan => filter (chan_prefix (fst ic)) s) (sel p W) = map kvs_of (sel p W)).
  { apply map_ext_in. intros [id c] Hin. cbn [fst]. unfold sel in Hin. apply filter_In in Hin as [Hin _].
    apply (filter_chan_some W s id c RC). unfold wfind. apply (sfind_in bytes_cmp bytes_ord); assumption. }
  rewrite E. apply drain_list.
  - intros ic Hic. apply (wfW_sigs_len W HW). unfold sel in Hic. apply filter_In in Hic. apply Hic.
  - pose proof (world_le_store W s RC SW). pose proof (filter_length_le' (lists_peer p) W). unfold sel. lia.
Qed.

(* ---------- ActivePeers ---------- *)
Lemma bytes_mem_In x l : bytes_mem x l = true <-> In x l.
Proof.
  induction l as [|y l IH]; cbn [bytes_mem In]; [split; [discriminate|intros []]|].
  rewrite orb_true_iff, IH, bytes_eqb_eq. split; intros [H|H]; auto.
Qed.
Lemma dedup_In x l : In x (dedup l) <-> In x l.
Proof.
  induction l as [|y l IH]; cbn [dedup In]; [reflexivity|].
  destruct (bytes_mem y (dedup l)) eqn:E.
  - rewrite IH. split; [auto|]. intros [<-|H]; [|exact H]. apply IH, bytes_mem_In, E.
  - cbn [In]. rewrite IH. reflexivity.
Qed.
Lemma dedup_NoDup l : NoDup (dedup l).
Proof.
  induction l as [|y l IH]; cbn [dedup]; [constructor|].
  destruct (bytes_mem y (dedup l)) eqn:E; [exact IH|]. constructor; [|exact IH].
  intro H. apply bytes_mem_In in H. congruence.
Qed.
Lemma peers_of_In p (s : store) :
  In p (fold_right (fun (e : entry) acc => match fst e with KPeer q _ => q :: acc | _ => acc end) [] s)
  <-> exists id v, In (KPeer p id, v) s.
Proof.
  induction s as [|[k v] s IH]; cbn [fold_right fst In].
  - split; [intros []|intros [? [? []]]].
  - destruct k as [id f|q id].
    + rewrite IH. split; intros [i [w H]]; exists i, w; [right; exact H|].
      destruct H as [H|H]; [discriminate H|exact H].
    + cbn [In]. rewrite IH. split.
      * intros [<-|[i [w H]]]; [exists id, v; left; reflexivity|exists i, w; right; exact H].
      * intros [i [w [H|H]]]; [injection H as -> _ _; left; reflexivity|right; eauto].
Qed.

Lemma active_peers_spec W s p : Rep W s ->
  (In p (active_peers s) <-> exists id c, wfind id W = Some c /\ In p (c_peers c)).
Proof.
  intros [[S _] RP]. unfold active_peers. rewrite dedup_In, peers_of_In. split.
  - intros [id [v H]]. apply (sfind_in key_cmp key_ord _ _ _ S) in H. rewrite RP in H.
    unfold spec_peer in H. destruct (wfind id W) as [c|] eqn:E; [|discriminate].
    destruct (bytes_mem p (c_peers c)) eqn:M; [|discriminate]. apply bytes_mem_In in M. eauto.
  - intros [id [c [E M]]]. exists id, VEmpty. apply (sfind_in key_cmp key_ord _ _ _ S). rewrite RP.
    unfold spec_peer. rewrite E. apply bytes_mem_In in M. rewrite M. reflexivity.
Qed.
Lemma active_peers_nodup s : NoDup (active_peers s).
Proof. apply dedup_NoDup. Qed.

(* ====================================================================== *)
(* E. writes                                                               *)
(* ====================================================================== *)
Definition wr_key (w : wr) : key := match w with WPut k _ => k | WDel k => k end.
Definition wr_res (w : wr) : option value := match w with WPut _ v => Some v | WDel _ => None end.
(* the effect of one atomic write on the lookup of key k *)
Definition eff (k : key) (a : atomic) (init : option value) : option value :=
  fold_left (fun acc w => match key_cmp k (wr_key w) with Eq => wr_res w | _ => acc end) a init.

Lemma eff_cons k w a init :
  eff k (w :: a) init = eff k a (match key_cmp k (wr_key w) with Eq => wr_res w | _ => init end).
Proof. reflexivity. Qed.
Lemma sorted_apply_wr s w : ksorted s -> ksorted (apply_wr s w).
Proof. destruct w; cbn [apply_wr]; [apply (sorted_put key_cmp key_ord)|apply (sorted_del key_cmp)]. Qed.
Lemma sorted_apply_atomic a s : ksorted s -> ksorted (apply_atomic s a).
Proof.
  revert s. induction a as [|w a IH]; intros s S; [exact S|].
  unfold apply_atomic. cbn [fold_left]. apply IH, sorted_apply_wr, S.
Qed.
Lemma sorted_apply_atomics l s : ksorted s -> ksorted (apply_atomics s l).
Proof.
  revert s. induction l as [|a l IH]; intros s S; [exact S|].
  unfold apply_atomics. cbn [fold_left]. apply IH, sorted_apply_atomic, S.
Qed.
Lemma find_apply_wr k s w : ksorted s ->
  kfind k (apply_wr s w) = match key_cmp k (wr_key w) with Eq => wr_res w | _ => kfind k s end.
Proof.
  intro S. destruct w; cbn [apply_wr wr_key wr_res].
  - apply (sfind_put key_cmp key_ord).
  - apply (sfind_del key_cmp key_ord). exact S.
Qed.
Lemma find_apply_atomic k a s : ksorted s -> kfind k (apply_atomic s a) = eff k a (kfind k s).
Proof.
  revert s. induction a as [|w a IH]; intros s S; [reflexivity|].
  rewrite eff_cons. change (apply_atomic s (w :: a)) with (apply_atomic (apply_wr s w) a).
  rewrite IH by (apply sorted_apply_wr; exact S). rewrite find_apply_wr by exact S. reflexivity.
Qed.

(* field equality is decidable *)
Lemma field_dec (f g : field) : {f = g} + {f <> g}.
Proof. decide equality; apply N.eq_dec. Qed.
Lemma key_dec (x y : key) : {x = y} + {x <> y}.
Proof. decide equality; try apply bytes_dec; apply field_dec. Qed.
Lemma eff_notin k a init : (forall w, In w a -> wr_key w <> k) -> eff k a init = init.
Proof.
  revert init. induction a as [|w a IH]; intros init H; [reflexivity|].
  rewrite eff_cons.
  rewrite IH by (intros w' Hw; apply H; right; exact Hw).
  destruct (key_cmp k (wr_key w)) eqn:E; try reflexivity.
  apply kc_eq in E. exfalso. apply (H w); [left; reflexivity|symmetry; exact E].
Qed.
Lemma eff_in k a init r : (exists w, In w a /\ wr_key w = k) ->
  (forall w, In w a -> wr_key w = k -> wr_res w = r) -> eff k a init = r.
Proof.
  revert init. induction a as [|w a IH]; intros init [w0 [Hin Hk]] Hr; [destruct Hin|].
  rewrite eff_cons.
  assert (Hr' : forall w', In w' a -> wr_key w' = k -> wr_res w' = r) by (intros; apply Hr; [right|]; assumption).
  destruct (in_dec key_dec k (map wr_key a)) as [Hm|Hm].
  - apply in_map_iff in Hm as [w1 [E1 H1]]. apply IH; eauto.
  - rewrite eff_notin.
    + destruct Hin as [<-|Hin].
      * rewrite Hk, kc_refl. apply Hr; [left; reflexivity|exact Hk].
      * exfalso. apply Hm. apply in_map_iff. eauto.
    + intros w' Hw' E. apply Hm. apply in_map_iff. eauto.
Qed.
Lemma eff_app k a b init : eff k (a ++ b) init = eff k b (eff k a init).
Proof. unfold eff. apply fold_left_app. Qed.


Lemma In_sig_fields n w i : In (FSig w i) (sig_fields n) <-> w = sig_width (N.of_nat n) /\ i < N.of_nat n.
Proof.
  unfold sig_fields, sig_field. rewrite in_map_iff. split.
  - intros [j [E Hj]]. apply in_seq in Hj. injection E as <- <-. split; [reflexivity|lia].
  - intros [-> H]. exists (N.to_nat i). rewrite N2Nat.id. split; [reflexivity|]. apply in_seq. lia.
Qed.
Lemma In_sig_fields_inv n f : In f (sig_fields n) -> exists w i, f = FSig w i.
Proof. unfold sig_fields, sig_field. rewrite in_map_iff. intros [j [<- _]]. eauto. Qed.

(* dbPutSource into a batch *)
Lemma put_fields_shape m fs a : put_fields m fs = Some a ->
  (forall w, In w a -> exists f v, In f fs /\ src_field m f = Some v /\ w = WPut (KChan (chan_id m) f) v) /\
  (forall f, In f fs -> exists v, src_field m f = Some v /\ In (WPut (KChan (chan_id m) f) v) a).
Proof.
  revert a. induction fs as [|f fs IH]; intros a H; cbn [put_fields] in H.
  - injection H as <-. split; [intros w []|intros f []].
  - destruct (src_field m f) as [v|] eqn:Ef; [|discriminate].
    destruct (put_fields m fs) as [a'|] eqn:Ea; [|discriminate]. injection H as <-.
    destruct (IH a' eq_refl) as [H1 H2]. split.
    + intros w [<-|Hw]; [exists f, v; repeat split; auto; left; reflexivity|].
      destruct (H1 w Hw) as [f' [v' [Hin [E ->]]]]. exists f', v'. repeat split; auto. right. exact Hin.
    + intros f' [<-|Hin]; [exists v; split; [exact Ef|left; reflexivity]|].
      destruct (H2 f' Hin) as [v' [E Hw]]. exists v'. split; [exact E|right; exact Hw].
Qed.
Lemma put_fields_ok m fs : (forall f, In f fs -> src_field m f <> None) -> exists a, put_fields m fs = Some a.
Proof.
  induction fs as [|f fs IH]; intro H; cbn [put_fields]; [eauto|].
  destruct (src_field m f) as [v|] eqn:Ef; [|exfalso; apply (H f); [left; reflexivity|exact Ef]].
  destruct IH as [a Ea]; [intros g Hg; apply H; right; exact Hg|]. rewrite Ea. eauto.
Qed.
Lemma eff_put_fields m fs a id' f init : put_fields m fs = Some a ->
  eff (KChan id' f) a init = if bytes_eqb id' (chan_id m) then (if in_dec field_dec f fs then src_field m f else init) else init.
Proof.
  intro H. destruct (put_fields_shape m fs a H) as [H1 H2].
  destruct (bytes_eqb id' (chan_id m)) eqn:E.
  - apply bytes_eqb_eq in E. subst id'. destruct (in_dec field_dec f fs) as [Hin|Hnin].
    + destruct (H2 f Hin) as [v [Ev Hw]]. rewrite Ev. apply eff_in; [exists (WPut (KChan (chan_id m) f) v); auto|].
      intros w Hw' Hk. destruct (H1 w Hw') as [f' [v' [_ [Ev' ->]]]]. cbn [wr_key] in Hk. injection Hk as ->.
      cbn [wr_res]. congruence.
    + apply eff_notin. intros w Hw Hk. destruct (H1 w Hw) as [f' [v' [Hin' [_ ->]]]]. cbn [wr_key] in Hk.
      injection Hk as ->. contradiction.
  - apply eff_notin. intros w Hw Hk. destruct (H1 w Hw) as [f' [v' [_ [_ ->]]]]. cbn [wr_key] in Hk.
    injection Hk as Hk _. rewrite <- Hk, bytes_eqb_refl in E. discriminate.
Qed.
Lemma eff_put_fields_peer m fs a p id init : put_fields m fs = Some a -> eff (KPeer p id) a init = init.
Proof.
  intro H. destruct (put_fields_shape m fs a H) as [H1 _]. apply eff_notin.
  intros w Hw Hk. destruct (H1 w Hw) as [f' [v' [_ [_ ->]]]]. discriminate Hk.
Qed.

(* ====================================================================== *)
(* F. what a machine step changes                                          *)
(* ====================================================================== *)
Definition okout (x : out) : bool := match x with OK | OKSig _ => true | _ => false end.
(* the states handed to the machine can be encoded (the persister would fail otherwise) *)
Definition op_ok (o : op) : bool :=
  match o with
  | OInit a _ => forallb bigints_ok (al_bals a) && forallb (fun l => bigints_ok (sa_bals l)) (al_locked a)
  | OUpdate s _ | OForceUpdate s _ | OSetProgressing s | OSetProgressed s => state_encodable s
  | _ => true
  end.

Ltac step_cases o :=
  destruct o; unfold step, enable_staged, simple_transition, set_staging, add_tx, set_phase, new_tx;
  break_match; cbn [fst snd ph me ps staging current].

Lemma step_me_ps m o : me (fst (step m o)) = me m /\ ps (fst (step m o)) = ps m.
Proof. step_cases o; auto. Qed.

Lemma step_staged_frame m o : call_of m o = PStaged -> current (fst (step m o)) = current m.
Proof. intro H. destruct o; try discriminate H; clear H;
  unfold step, set_staging; break_match; cbn [fst current]; reflexivity. Qed.

Lemma step_phase_frame m o : call_of m o = PPhaseChanged ->
  staging (fst (step m o)) = staging m /\ current (fst (step m o)) = current m.
Proof. intro H. destruct o; try discriminate H; clear H;
  unfold step, simple_transition, set_phase; break_match; cbn [fst current staging]; auto. Qed.

Lemma step_none_frame m o : call_of m o = PNone -> fst (step m o) = m.
Proof. intro H. destruct o; try discriminate H; clear H. unfold step; break_match; reflexivity. Qed.

Lemma nth_error_set_nth_neq {A} i j (x : A) l : i <> j -> nth_error (set_nth i x l) j = nth_error l j.
Proof.
  revert i j. induction l as [|y l IH]; intros [|i] [|j] H; cbn [set_nth nth_error]; try reflexivity.
  - contradiction.
  - apply IH. congruence.
Qed.

(* Sig / AddSig: only the addressed slot of the staged transaction changes *)
Lemma step_sig_frame m o i0 : call_of m o = PSigAdded i0 -> okout (snd (step m o)) = true ->
  ph (fst (step m o)) = ph m /\ current (fst (step m o)) = current m /\
  exists t t', staging m = Some t /\ staging (fst (step m o)) = Some t' /\ tx_st t' = tx_st t /\
    (N.to_nat i0 < length (tx_sigs t))%nat /\
    forall j, j <> N.to_nat i0 -> nth_error (tx_sigs t') j = nth_error (tx_sigs t) j.
Proof.
  intros H Hok. destruct o; try discriminate H; cbn [call_of] in H; injection H as <-;
    unfold step in *; break_match; cbn [fst snd okout ph current staging] in *; try discriminate Hok;
    (split; [reflexivity|split; [reflexivity|]]).
  all: eexists _, _; (split; [first [reflexivity|eassumption]|]); (split; [first [eassumption|reflexivity]|]);
    (split; [reflexivity|]); cbn [tx_st tx_sigs]; (split; [apply nth_error_Some; congruence|]);
    intros j Hj; first [reflexivity|apply nth_error_set_nth_neq; congruence].
Qed.

Lemma new_state_enc m a d s : new_state m a d = Some s -> op_ok (OInit a d) = true -> state_encodable s = true.
Proof.
  unfold new_state. destruct (_ && alloc_valid a) eqn:E; [|discriminate]. intro H. injection H as <-.
  apply andb_true_iff in E as [_ E]. cbn [op_ok]. intro H. apply andb_true_iff in H as [H1 H2].
  unfold state_encodable. cbn [st_alloc]. rewrite E, H1, H2. reflexivity.
Qed.

Lemma stg_enc_step m o : stg_enc m -> op_ok o = true -> stg_enc (fst (step m o)).
Proof.
  intros He Hok. unfold stg_enc in *.
  destruct o; unfold step, enable_staged, simple_transition, set_staging, add_tx, set_phase, new_tx;
    break_match; cbn [fst staging]; try exact He; intros tt Htt; try discriminate Htt.
  all: try (injection Htt as <-; cbn [tx_st]).
  all: try exact Hok.
  all: try (eapply new_state_enc; eassumption).
  all: try (eapply He; congruence).
Qed.

(* Enabled / SetProgressed: the new current transaction is encodable *)
Lemma step_enabled_enc m o : stg_enc m -> op_ok o = true -> call_of m o = PEnabled ->
  okout (snd (step m o)) = true ->
  forall t, current (fst (step m o)) = Some t -> state_encodable (tx_st t) = true.
Proof.
  intros He Hok H Hx. unfold stg_enc in He.
  destruct o; try discriminate H; clear H;
    unfold step, enable_staged, add_tx, new_tx in *; break_match; cbn [fst snd current okout] in *;
    try discriminate Hx; intros tt Htt; injection Htt as <-; cbn [tx_st]; try exact Hok; eapply He; eauto.
Qed.

(* ====================================================================== *)
(* G. every persister call keeps "store = image of the live channels"      *)
(* ====================================================================== *)
Definition call_fields (m' : mach) (c : pcall) : list field :=
  match c with
  | PStaged => [FStaging; FPhase] ++ sig_fields (nsigs m')
  | PSigAdded i => [FSig (sig_width (N.of_nat (nsigs m'))) i]
  | PEnabled => [FStaging; FCurrent; FPhase] ++ sig_fields (nsigs m')
  | PPhaseChanged => [FPhase]
  | _ => []
  end.
Definition single_call (c : pcall) : bool :=
  match c with PStaged | PSigAdded _ | PEnabled | PPhaseChanged => true | _ => false end.
Lemma persist_single s m' c : single_call c = true ->
  persist s m' c = option_map (fun a => [a]) (put_fields m' (call_fields m' c)).
Proof. destruct c; try discriminate; reflexivity. Qed.

(* the written fields carry the new snapshot, the others are not changed by the operation *)
Definition frame (m m' : mach) (P : list bytes) (Q : option bytes) (fs : list field) : Prop :=
  (forall f, In f fs -> src_field m' f = field_spec (mkChan m' P Q) f /\ src_field m' f <> None) /\
  (forall f, ~ In f fs -> field_spec (mkChan m' P Q) f = field_spec (mkChan m P Q) f).

Lemma src_staging m : stg_enc m -> src_field m FStaging = Some (stg_value m).
Proof.
  intro H. unfold src_field, stg_value. destruct (staging m) as [t|] eqn:E; [|reflexivity].
  rewrite (H t E). reflexivity.
Qed.
Lemma src_current m : (forall t, current m = Some t -> state_encodable (tx_st t) = true) ->
  src_field m FCurrent = Some (VTx (current m)).
Proof.
  intro H. unfold src_field. destruct (current m) as [t|] eqn:E; [|reflexivity].
  rewrite (H t eq_refl). reflexivity.
Qed.
Lemma src_sig m P Q f : In f (sig_fields (nsigs m)) ->
  src_field m f = field_spec (mkChan m P Q) f /\ src_field m f <> None.
Proof.
  intro H. destruct (In_sig_fields_inv _ _ H) as [w [i ->]]. apply In_sig_fields in H as [-> Hi].
  cbn [src_field field_spec c_m]. rewrite N.eqb_refl. replace (i <? N.of_nat (nsigs m)) with true by lia.
  cbn [andb]. split; [reflexivity|discriminate].
Qed.
Lemma spec_sig_out m m' P Q w i : ps m' = ps m -> ~ In (FSig w i) (sig_fields (nsigs m')) ->
  field_spec (mkChan m' P Q) (FSig w i) = field_spec (mkChan m P Q) (FSig w i).
Proof.
  intros Hps H. assert (En : nsigs m' = nsigs m) by (unfold nsigs; rewrite Hps; reflexivity).
  cbn [field_spec c_m]. rewrite En in *.
  destruct ((w =? sig_width (N.of_nat (nsigs m))) && (i <? N.of_nat (nsigs m))) eqn:E; [|reflexivity].
  exfalso. apply H. apply In_sig_fields. apply andb_true_iff in E as [E1 E2]. split; lia.
Qed.

Lemma frame_staged m m' P Q : me m' = me m -> ps m' = ps m -> current m' = current m -> stg_enc m' ->
  frame m m' P Q (call_fields m' PStaged).
Proof.
  intros Hme Hps Hcur He. cbn [call_fields]. split.
  - intros f [<-|[<-|H]].
    + rewrite (src_staging m' He). split; [reflexivity|discriminate].
    + split; [reflexivity|discriminate].
    + apply (src_sig m' P Q), H.
  - intros f H. cbn [app In] in H.
    destruct f; try (apply (spec_sig_out m m' P Q); [exact Hps|intro X; apply H; auto]);
      cbn [field_spec c_m c_peers c_parent]; try congruence; try (exfalso; apply H; auto; fail).
Qed.
Lemma frame_enabled m m' P Q : me m' = me m -> ps m' = ps m -> stg_enc m' ->
  (forall t, current m' = Some t -> state_encodable (tx_st t) = true) ->
  frame m m' P Q (call_fields m' PEnabled).
Proof.
  intros Hme Hps He Hc. cbn [call_fields]. split.
  - intros f [<-|[<-|[<-|H]]].
    + rewrite (src_staging m' He). split; [reflexivity|discriminate].
    + rewrite (src_current m' Hc). split; [reflexivity|discriminate].
    + split; [reflexivity|discriminate].
    + apply (src_sig m' P Q), H.
  - intros f H. cbn [app In] in H.
    destruct f; try (apply (spec_sig_out m m' P Q); [exact Hps|intro X; apply H; auto]);
      cbn [field_spec c_m c_peers c_parent]; try congruence; try (exfalso; apply H; auto; fail).
Qed.
Lemma frame_phase m m' P Q : me m' = me m -> ps m' = ps m -> staging m' = staging m ->
  current m' = current m -> frame m m' P Q (call_fields m' PPhaseChanged).
Proof.
  intros Hme Hps Hs Hc. cbn [call_fields]. split.
  - intros f [<-|[]]. split; [reflexivity|discriminate].
  - intros f H. cbn [In] in H.
    destruct f; cbn [field_spec c_m c_peers c_parent]; unfold stg_value, sig_value, nsigs; try congruence.
    + exfalso. apply H. auto.
    + rewrite Hps, Hs. reflexivity.
    + rewrite Hs. reflexivity.
Qed.
Lemma frame_sig m m' P Q i0 t t' : me m' = me m -> ps m' = ps m -> ph m' = ph m -> current m' = current m ->
  staging m = Some t -> staging m' = Some t' -> tx_st t' = tx_st t ->
  (N.to_nat i0 < length (tx_sigs t))%nat -> length (tx_sigs t) = nsigs m ->
  (forall j, j <> N.to_nat i0 -> nth_error (tx_sigs t') j = nth_error (tx_sigs t) j) ->
  frame m m' P Q (call_fields m' (PSigAdded i0)).
Proof.
  intros Hme Hps Hph Hc Hs Hs' Hst Hlt Hlen Hnth.
  assert (En : nsigs m' = nsigs m) by (unfold nsigs; rewrite Hps; reflexivity).
  cbn [call_fields]. split.
  - intros f [<-|[]]. cbn [src_field field_spec c_m]. rewrite N.eqb_refl, En.
    replace (i0 <? N.of_nat (nsigs m)) with true by lia. cbn [andb]. split; [reflexivity|discriminate].
  - intros f H. cbn [In] in H.
    destruct f; cbn [field_spec c_m c_peers c_parent]; unfold stg_value; try congruence.
    + (* FSig *) rewrite En.
      destruct ((w =? sig_width (N.of_nat (nsigs m))) && (i <? N.of_nat (nsigs m))) eqn:E; [|reflexivity].
      apply andb_true_iff in E as [E1 E2]. f_equal. unfold sig_value. rewrite Hs, Hs'.
      rewrite Hnth; [reflexivity|]. intro X. apply H. left. f_equal; [rewrite En; lia|lia].
    + (* FStaging *) rewrite Hs, Hs', Hst. reflexivity.
Qed.

Lemma chan_eta c : mkChan (c_m c) (c_peers c) (c_parent c) = c.
Proof. destruct c; reflexivity. Qed.

Lemma spec_chan_put W id c' id' f :
  spec_chan (sput bytes_cmp id c' W) id' f = if bytes_eqb id' id then field_spec c' f else spec_chan W id' f.
Proof. unfold spec_chan. rewrite wfind_put. destruct (bytes_eqb id' id); reflexivity. Qed.
Lemma spec_peer_put W id c' p id' :
  spec_peer (sput bytes_cmp id c' W) p id' =
  if bytes_eqb id' id then (if bytes_mem p (c_peers c') then Some VEmpty else None) else spec_peer W p id'.
Proof. unfold spec_peer. rewrite wfind_put. destruct (bytes_eqb id' id); reflexivity. Qed.

Lemma rep_single W s id c m' fs a : Rep W s -> wfind id W = Some c -> chan_id m' = id ->
  put_fields m' fs = Some a -> frame (c_m c) m' (c_peers c) (c_parent c) fs ->
  Rep (sput bytes_cmp id (mkChan m' (c_peers c) (c_parent c)) W) (apply_atomic s a).
Proof.
  intros [[S C] RP] Hc Hid Hput [F3 F2]. split; [split|].
  - apply sorted_apply_atomic, S.
  - intros id' f. rewrite find_apply_atomic by exact S. rewrite C, spec_chan_put.
    rewrite (eff_put_fields m' fs a id' f _ Hput), Hid.
    destruct (bytes_eqb id' id) eqn:E; [|reflexivity]. apply bytes_eqb_eq in E. subst id'.
    destruct (in_dec field_dec f fs) as [Hin|Hnin].
    + apply F3, Hin.
    + unfold spec_chan. rewrite Hc. rewrite (F2 f Hnin), chan_eta. reflexivity.
  - intros p id'. rewrite find_apply_atomic by exact S. rewrite RP, spec_peer_put.
    rewrite (eff_put_fields_peer m' fs a p id' _ Hput). cbn [c_peers].
    destruct (bytes_eqb id' id) eqn:E; [|reflexivity]. apply bytes_eqb_eq in E. subst id'.
    unfold spec_peer. rewrite Hc. reflexivity.
Qed.

Lemma put_fields_frame_ok m m' P Q fs : frame m m' P Q fs -> exists a, put_fields m' fs = Some a.
Proof. intros [F3 _]. apply put_fields_ok. intros f Hf. apply F3, Hf. Qed.

(* a machine step with its persister call, for the four calls that write one batch / one put *)
Lemma step_frame m o P Q : Inv m -> stg_enc m -> op_ok o = true -> okout (snd (step m o)) = true ->
  single_call (call_of m o) = true ->
  frame m (fst (step m o)) P Q (call_fields (fst (step m o)) (call_of m o)).
Proof.
  intros I He Hop Hok Hs. destruct (step_me_ps m o) as [Hme Hps].
  pose proof (stg_enc_step m o He Hop) as He'.
  destruct (call_of m o) eqn:Ec; try discriminate Hs.
  - apply frame_staged; auto. apply step_staged_frame, Ec.
  - destruct (step_sig_frame m o i Ec Hok) as [Hph [Hc [t [t' [Hst [Hst' [Hs1 [Hlt Hnth]]]]]]]].
    eapply frame_sig; eauto. destruct (inv_staging m I t Hst) as [L _]. exact L.
  - apply frame_enabled; auto. apply step_enabled_enc; auto.
  - destruct (step_phase_frame m o Ec) as [H1 H2]. apply frame_phase; auto.
Qed.

(* ====================================================================== *)
(* H. histories and crash points                                           *)
(* ====================================================================== *)
Definition good (W : world) (s : store) : Prop := wfW W /\ Rep W s.
Definition wop_ok (o : wop) : bool :=
  match o with WCreate _ _ _ _ => true | WOp _ o => op_ok o | WRestart => true end.

Lemma wfW_put W id c : wfW W -> wf_chan id c -> wfW (sput bytes_cmp id c W).
Proof.
  intros [S H] Hc. split; [apply (sorted_put bytes_cmp bytes_ord), S|].
  intros id' c'. rewrite wfind_put. destruct (bytes_eqb id' id) eqn:E.
  - intro X. injection X as <-. apply bytes_eqb_eq in E. subst id'. exact Hc.
  - apply H.
Qed.
Lemma wfW_del W id : wfW W -> wfW (sdel bytes_cmp id W).
Proof.
  intros [S H]. split; [apply (sorted_del bytes_cmp), S|].
  intros id' c'. rewrite wfind_del by exact S. destruct (bytes_eqb id' id); [discriminate|apply H].
Qed.

Lemma good_noop W s id c : good W s -> wfind id W = Some c -> good (sput bytes_cmp id c W) s.
Proof.
  intros [HW [[S C] RP]] Hc. split; [apply wfW_put; [exact HW|apply (proj2 HW), Hc]|].
  split; [split; [exact S|]|].
  - intros id' f. rewrite C, spec_chan_put. destruct (bytes_eqb id' id) eqn:E; [|reflexivity].
    apply bytes_eqb_eq in E. subst id'. unfold spec_chan. rewrite Hc. reflexivity.
  - intros p id'. rewrite RP, spec_peer_put. destruct (bytes_eqb id' id) eqn:E; [|reflexivity].
    apply bytes_eqb_eq in E. subst id'. unfold spec_peer. rewrite Hc. reflexivity.
Qed.

(* ---- creation ---- *)
Lemma stg_enc_new p idx : stg_enc (new_machine p idx).
Proof. intros t H. discriminate H. Qed.
Lemma wf_chan_new p idx peers parent : wf_chan (mp_id p) (mkChan (new_machine p idx) peers parent).
Proof. split; [reflexivity|split; [apply Inv_new|apply stg_enc_new]]. Qed.

Definition create_fields (m : mach) : list field :=
  [FCurrent; FIndex; FParams; FPhase; FStaging] ++ sig_fields (nsigs m).
Lemma create_src m P Q f : staging m = None -> current m = None -> In f (create_fields m) ->
  src_field m f = field_spec (mkChan m P Q) f /\ src_field m f <> None.
Proof.
  intros Hs Hc [<-|[<-|[<-|[<-|[<-|H]]]]]; cbn [src_field field_spec c_m];
    unfold stg_value; rewrite ?Hs, ?Hc; try (split; [reflexivity|discriminate]).
  apply (src_sig m P Q), H.
Qed.
Lemma create_other m P Q f : ~ In f (create_fields m) -> f <> FParent -> f <> FPeers ->
  field_spec (mkChan m P Q) f = None.
Proof.
  intros H H1 H2. unfold create_fields in H. cbn [app In] in H.
  destruct f; try contradiction; try (exfalso; apply H; auto 10; fail).
  cbn [field_spec c_m].
  destruct ((w =? sig_width (N.of_nat (nsigs m))) && (i <? N.of_nat (nsigs m))) eqn:E; [|reflexivity].
  exfalso. apply H. do 5 right. apply In_sig_fields. apply andb_true_iff in E as [E1 E2]. split; lia.
Qed.

Lemma eff_peer_puts q id' (peers : list bytes) id init :
  eff (KPeer q id') (map (fun p => WPut (KPeer p id) VEmpty) peers) init =
  if bytes_eqb id' id && bytes_mem q peers then Some VEmpty else init.
Proof.
  destruct (bytes_eqb id' id && bytes_mem q peers) eqn:E.
  - apply andb_true_iff in E as [E1 E2]. apply bytes_eqb_eq in E1. apply bytes_mem_In in E2. subst id'.
    apply eff_in.
    + exists (WPut (KPeer q id) VEmpty). split; [apply in_map_iff; eauto|reflexivity].
    + intros w Hw _. apply in_map_iff in Hw as [p [<- _]]. reflexivity.
  - apply eff_notin. intros w Hw Hk. apply in_map_iff in Hw as [p [<- Hp]]. cbn [wr_key] in Hk.
    injection Hk as -> ->. rewrite bytes_eqb_refl in E. cbn [andb] in E.
    apply bytes_mem_In in Hp. congruence.
Qed.
Lemma eff_peer_dels q id' (peers : list bytes) id init :
  eff (KPeer q id') (map (fun p => WDel (KPeer p id)) peers) init =
  if bytes_eqb id' id && bytes_mem q peers then None else init.
Proof.
  destruct (bytes_eqb id' id && bytes_mem q peers) eqn:E.
  - apply andb_true_iff in E as [E1 E2]. apply bytes_eqb_eq in E1. apply bytes_mem_In in E2. subst id'.
    apply eff_in.
    + exists (WDel (KPeer q id)). split; [apply in_map_iff; eauto|reflexivity].
    + intros w Hw _. apply in_map_iff in Hw as [p [<- _]]. reflexivity.
  - apply eff_notin. intros w Hw Hk. apply in_map_iff in Hw as [p [<- Hp]]. cbn [wr_key] in Hk.
    injection Hk as -> ->. rewrite bytes_eqb_refl in E. cbn [andb] in E.
    apply bytes_mem_In in Hp. congruence.
Qed.
Lemma eff_chan_on_peer_writes id' f (l : list bytes) (mk : bytes -> wr) init :
  (forall p, exists q i, wr_key (mk p) = KPeer q i) -> eff (KChan id' f) (map mk l) init = init.
Proof.
  intro H. apply eff_notin. intros w Hw Hk. apply in_map_iff in Hw as [p [<- _]].
  destruct (H p) as [q [i E]]. congruence.
Qed.

Lemma create_step W s p idx peers parent a1 :
  good W s -> wfind (mp_id p) W = None ->
  put_fields (new_machine p idx) (create_fields (new_machine p idx)) = Some a1 ->
  let id := mp_id p in
  let c0 := mkChan (new_machine p idx) peers parent in
  let W' := sput bytes_cmp id c0 W in
  let b1 := a1 ++ [WPut (KChan id FParent) (VParent parent); WPut (KChan id FPeers) (VPeers peers)] in
  let b2 := map (fun q => WPut (KPeer q id) VEmpty) peers in
  RepC W' (apply_atomic s b1) /\ good W' (apply_atomic (apply_atomic s b1) b2).
Proof.
  intros [HW [[S C] RP]] Hnone Hput id c0 W' b1 b2.
  set (m0 := new_machine p idx) in *. change (wfind id W = None) in Hnone.
  assert (S1 : ksorted (apply_atomic s b1)) by (apply sorted_apply_atomic, S).
  assert (C1 : forall id' f, kfind (KChan id' f) (apply_atomic s b1) = spec_chan W' id' f).
  { intros id' f. rewrite find_apply_atomic by exact S. unfold b1. rewrite eff_app, C.
    unfold W'. rewrite spec_chan_put. rewrite (eff_put_fields m0 _ a1 id' f _ Hput).
    change (chan_id m0) with id.
    destruct (bytes_eqb id' id) eqn:E.
    - apply bytes_eqb_eq in E. subst id'. unfold spec_chan at 1. rewrite Hnone.
      rewrite !eff_cons. cbn [eff fold_left wr_key wr_res]. rewrite !kc_same. unfold c0.
      destruct (in_dec field_dec f (create_fields m0)) as [Hin|Hnin].
      + destruct (create_src m0 peers parent f eq_refl eq_refl Hin) as [E1 E2].
        assert (f <> FParent /\ f <> FPeers) as [N1 N2].
        { unfold create_fields in Hin. cbn [app In] in Hin. split; intros ->;
            repeat (destruct Hin as [Hin|Hin]; [discriminate Hin|]);
            apply In_sig_fields_inv in Hin as [w [i X]]; discriminate X. }
        destruct (field_cmp f FParent) eqn:X1; [apply (ol_eq field_cmp field_ord) in X1; contradiction| |];
          (destruct (field_cmp f FPeers) eqn:X2; [apply (ol_eq field_cmp field_ord) in X2; contradiction| |]);
          exact E1.
      + destruct (field_dec f FParent) as [->|N1]; [reflexivity|].
        destruct (field_dec f FPeers) as [->|N2]; [reflexivity|].
        rewrite (create_other m0 peers parent f Hnin N1 N2).
        destruct (field_cmp f FParent) eqn:X1; [apply (ol_eq field_cmp field_ord) in X1; contradiction| |];
          (destruct (field_cmp f FPeers) eqn:X2; [apply (ol_eq field_cmp field_ord) in X2; contradiction| |]);
          reflexivity.
    - apply eff_notin. intros w [<-|[<-|[]]] Hk; cbn [wr_key] in Hk; injection Hk as Hk _;
        rewrite Hk, bytes_eqb_refl in E; discriminate. }
  assert (P1 : forall q id', kfind (KPeer q id') (apply_atomic s b1) = spec_peer W q id').
  { intros q id'. rewrite find_apply_atomic by exact S. unfold b1. rewrite eff_app, RP.
    rewrite (eff_put_fields_peer m0 _ a1 q id' _ Hput). apply eff_notin.
    intros w [<-|[<-|[]]] Hk; discriminate Hk. }
  split; [split; assumption|]. split.
  - apply wfW_put; [exact HW|apply wf_chan_new].
  - split; [split; [apply sorted_apply_atomic, S1|]|].
    + intros id' f. rewrite find_apply_atomic by exact S1. rewrite C1.
      apply eff_chan_on_peer_writes. intro q. cbn [wr_key]. eauto.
    + intros q id'. rewrite find_apply_atomic by exact S1. rewrite P1. unfold b2.
      rewrite eff_peer_puts. unfold W'. rewrite spec_peer_put. cbn [c_peers c0].
      destruct (bytes_eqb id' id) eqn:E; cbn [andb]; [|reflexivity].
      apply bytes_eqb_eq in E. subst id'. unfold spec_peer. rewrite Hnone.
      destruct (bytes_mem q peers); reflexivity.
Qed.

(* ---- removal ---- *)
Definition remove_fields (n : nat) : list field :=
  [FCurrent; FIndex; FParams; FParent; FPeers; FPhase; FStaging] ++ sig_fields n.
Lemma remove_other c f : ~ In f (remove_fields (nsigs (c_m c))) -> field_spec c f = None.
Proof.
  intro H. unfold remove_fields in H. cbn [app In] in H.
  destruct f; try (exfalso; apply H; auto 10; fail).
  cbn [field_spec].
  destruct ((w =? sig_width (N.of_nat (nsigs (c_m c)))) && (i <? N.of_nat (nsigs (c_m c)))) eqn:E; [|reflexivity].
  exfalso. apply H. do 7 right. apply In_sig_fields. apply andb_true_iff in E as [E1 E2]. split; lia.
Qed.
Lemma eff_chan_dels id' f id (fs : list field) init :
  eff (KChan id' f) (map (fun g => WDel (KChan id g)) fs) init =
  if bytes_eqb id' id then (if in_dec field_dec f fs then None else init) else init.
Proof.
  destruct (bytes_eqb id' id) eqn:E.
  - apply bytes_eqb_eq in E. subst id'. destruct (in_dec field_dec f fs) as [Hin|Hnin].
    + apply eff_in.
      * exists (WDel (KChan id f)). split; [apply in_map_iff; eauto|reflexivity].
      * intros w Hw _. apply in_map_iff in Hw as [g [<- _]]. reflexivity.
    + apply eff_notin. intros w Hw Hk. apply in_map_iff in Hw as [g [<- Hg]]. cbn [wr_key] in Hk.
      injection Hk as ->. contradiction.
  - apply eff_notin. intros w Hw Hk. apply in_map_iff in Hw as [g [<- Hg]]. cbn [wr_key] in Hk.
    injection Hk as Hk _. rewrite Hk, bytes_eqb_refl in E. discriminate.
Qed.
Lemma spec_chan_del W id id' f : wsorted W ->
  spec_chan (sdel bytes_cmp id W) id' f = if bytes_eqb id' id then None else spec_chan W id' f.
Proof. intro S. unfold spec_chan. rewrite wfind_del by exact S. destruct (bytes_eqb id' id); reflexivity. Qed.
Lemma spec_peer_del W id p id' : wsorted W ->
  spec_peer (sdel bytes_cmp id W) p id' = if bytes_eqb id' id then None else spec_peer W p id'.
Proof. intro S. unfold spec_peer. rewrite wfind_del by exact S. destruct (bytes_eqb id' id); reflexivity. Qed.

Lemma remove_step W s id c :
  good W s -> wfind id W = Some c ->
  let W' := sdel bytes_cmp id W in
  let d1 := map (fun f => WDel (KChan id f)) (remove_fields (nsigs (c_m c))) in
  let d2 := map (fun q => WDel (KPeer q id)) (c_peers c) in
  RepC W' (apply_atomic s d1) /\ good W' (apply_atomic (apply_atomic s d1) d2).
Proof.
  intros [HW [[S C] RP]] Hc W' d1 d2. pose proof (proj1 HW) as SW.
  assert (S1 : ksorted (apply_atomic s d1)) by (apply sorted_apply_atomic, S).
  assert (C1 : forall id' f, kfind (KChan id' f) (apply_atomic s d1) = spec_chan W' id' f).
  { intros id' f. rewrite find_apply_atomic by exact S. unfold d1, W'.
    rewrite eff_chan_dels, C, spec_chan_del by exact SW.
    destruct (bytes_eqb id' id) eqn:E; [|reflexivity]. apply bytes_eqb_eq in E. subst id'.
    destruct (in_dec field_dec f (remove_fields (nsigs (c_m c)))) as [Hin|Hnin]; [reflexivity|].
    unfold spec_chan. rewrite Hc. apply remove_other, Hnin. }
  assert (P1 : forall q id', kfind (KPeer q id') (apply_atomic s d1) = spec_peer W q id').
  { intros q id'. rewrite find_apply_atomic by exact S. rewrite RP. apply eff_notin.
    intros w Hw Hk. apply in_map_iff in Hw as [g [<- _]]. discriminate Hk. }
  split; [split; assumption|]. split; [apply wfW_del, HW|].
  split; [split; [apply sorted_apply_atomic, S1|]|].
  - intros id' f. rewrite find_apply_atomic by exact S1. rewrite C1.
    apply eff_chan_on_peer_writes. intro q. cbn [wr_key]. eauto.
  - intros q id'. rewrite find_apply_atomic by exact S1. rewrite P1. unfold d2, W'.
    rewrite eff_peer_dels, spec_peer_del by exact SW.
    destruct (bytes_eqb id' id) eqn:E; cbn [andb]; [|reflexivity].
    apply bytes_eqb_eq in E. subst id'. unfold spec_peer. rewrite Hc.
    destruct (bytes_mem q (c_peers c)); reflexivity.
Qed.

(* ChannelRemoved finds the parameters and the peers in the store *)
Lemma chan_removed_ok W s id c : Rep W s -> wfind id W = Some c ->
  chan_removed s id =
  Some [ map (fun f => WDel (KChan id f)) (remove_fields (nsigs (c_m c)));
         map (fun q => WDel (KPeer q id)) (c_peers c) ].
Proof.
  intros [[S C] _] Hc. unfold chan_removed. rewrite !C. unfold spec_chan. rewrite Hc.
  cbn [field_spec]. reflexivity.
Qed.

(* ---- one step of a history, with all its crash points ---- *)
Definition stores_after (s : store) (ws : list atomic) (k : nat) : store := apply_atomics s (firstn k ws).

Lemma single_not_withdrawn m o x : single_call (call_of m o) = true -> is_withdrawn_ok o x = false.
Proof. destruct o; cbn; try reflexivity; discriminate. Qed.
Lemma none_not_withdrawn m o x : call_of m o = PNone -> is_withdrawn_ok o x = false.
Proof. destruct o; cbn; try reflexivity; discriminate. Qed.
Lemma removed_is_withdrawn m o : call_of m o = PRemoved -> o = OSetWithdrawn.
Proof. destruct o; cbn; try discriminate; reflexivity. Qed.
Lemma fail_not_withdrawn o x : okout x = false -> is_withdrawn_ok o x = false.
Proof. destruct o, x; cbn; try reflexivity; discriminate. Qed.
Lemma call_cases c : single_call c = true \/ c = PRemoved \/ c = PNone.
Proof. destruct c; cbn; auto. Qed.

(* ---- restart: the live channels are rebuilt from the store alone ---- *)
Lemma chan_of_snap c : chan_of_rchan (snap_of c) = c.
Proof.
  destruct c as [m P Q]. destruct m as [p i pr st cu]. unfold chan_of_rchan, mach_of_rchan, snap_of.
  cbn [rc_phase rc_idx rc_params rc_stg rc_sigs rc_cur rc_peers rc_parent c_m c_peers c_parent
       ph me ps staging current]. unfold staged_sigs. cbn [staging].
  destruct st as [[st0 sg]|]; reflexivity.
Qed.
Lemma sput_lb_cons id c (W : world) : lb bytes_cmp id W -> sput bytes_cmp id c W = (id, c) :: W.
Proof.
  destruct W as [|[id0 c0] W]; intro L; [reflexivity|].
  inversion L as [|? ? H _]; subst. cbn [fst] in H. cbn [sput]. rewrite H. reflexivity.
Qed.
Lemma rebuild_snap W : wfW W -> rebuild (map (fun ic => snap_of (snd ic)) W) = W.
Proof.
  intros [S H]. induction W as [|[id c] W IH]; [reflexivity|].
  destruct S as [L S]. cbn [fst] in L. cbn [map rebuild fold_right snd]. fold (rebuild (map (fun ic => snap_of (snd ic)) W)).
  rewrite IH.
  - rewrite chan_of_snap. cbn [snap_of rc_params].
    assert (E : mp_id (ps (c_m c)) = id).
    { apply (H id c). unfold wfind. cbn [sfind]. rewrite bc_refl. reflexivity. }
    rewrite E. apply sput_lb_cons, L.
  - exact S.
  - intros id' c' Hf. apply H. rewrite wfind_cons. destruct (bytes_eqb id' id) eqn:E; [|exact Hf].
    apply bytes_eqb_eq in E. subst id'. rewrite (wlb_notfound _ _ L) in Hf. discriminate Hf.
Qed.
Lemma restart_step W s : good W s -> wstep W s WRestart = (W, OK, []).
Proof.
  intros [HW [RC RP]]. cbn [wstep]. rewrite (restore_all_spec W s RC HW), (rebuild_snap W HW). reflexivity.
Qed.

Theorem wstep_crash W s o W' x ws :
  good W s -> wop_ok o = true -> wstep W s o = (W', x, ws) ->
  good W' (apply_atomics s ws) /\
  forall k, (k <= length ws)%nat -> RepC W (stores_after s ws k) \/ RepC W' (stores_after s ws k).
Proof.
  intros G Hok Hstep. pose proof G as [HW [RC RP]]. destruct o as [p idx peers parent|id o|].
  3:{ (* restart: nothing is written and the rebuilt registry is the old one *)
    rewrite (restart_step W s G) in Hstep. injection Hstep as <- <- <-.
    split; [exact G|]. intros [|k] Hk; [left; exact RC|cbn in Hk; lia]. }
  all: cbn [wstep] in Hstep.
  - (* creation *)
    destruct (wfind (mp_id p) W) as [c|] eqn:Hf.
    + injection Hstep as <- <- <-. split; [exact G|]. intros [|k] Hk; [left; exact RC|cbn in Hk; lia].
    + destruct (put_fields_ok (new_machine p idx) (create_fields (new_machine p idx))) as [a1 Ha1].
      { intros f Hin. apply (proj2 (create_src (new_machine p idx) peers parent f eq_refl eq_refl Hin)). }
      unfold chan_created in Hstep. fold (create_fields (new_machine p idx)) in Hstep. rewrite Ha1 in Hstep.
      injection Hstep as <- <- <-.
      destruct (create_step W s p idx peers parent a1 G Hf Ha1) as [R1 G2].
      split; [exact G2|]. intros [|[|[|k]]] Hk; try (cbn [length] in Hk; lia).
      * left. exact RC.
      * right. exact R1.
      * right. exact (proj1 (proj2 G2)).
  - (* an operation on a live channel *)
    cbn [wop_ok] in Hok.
    destruct (wfind id W) as [c|] eqn:Hf.
    2:{ injection Hstep as <- <- <-. split; [exact G|]. intros [|k] Hk; [left; exact RC|cbn in Hk; lia]. }
    pose proof (proj2 HW id c Hf) as [Hid [Inv0 Henc]].
    unfold wrap_step in Hstep. destruct (step (c_m c) o) as [m' x0] eqn:Est.
    assert (Em : m' = fst (step (c_m c) o)) by (rewrite Est; reflexivity).
    assert (Ex : x0 = snd (step (c_m c) o)) by (rewrite Est; reflexivity).
    assert (Hnoop : forall xx, is_withdrawn_ok o xx = false -> m' = c_m c ->
              (if is_withdrawn_ok o xx then (sdel bytes_cmp id W, xx, @nil atomic)
               else (sput bytes_cmp id (mkChan m' (c_peers c) (c_parent c)) W, xx, [])) = (W', x, ws) ->
              good W' (apply_atomics s ws) /\
              forall k, (k <= length ws)%nat -> RepC W (stores_after s ws k) \/ RepC W' (stores_after s ws k)).
    { intros xx Hw -> H. rewrite Hw, chan_eta in H. injection H as <- <- <-.
      split; [apply good_noop; assumption|]. intros [|k] Hk; [left; exact RC|cbn in Hk; lia]. }
    destruct (okout x0) eqn:Hx.
    2:{ (* the machine refused: nothing is written *)
      assert (m' = c_m c).
      { rewrite Em. apply step_fail_noop. rewrite <- Ex. destruct x0; try discriminate Hx; auto. }
      destruct x0; try discriminate Hx; [apply (Hnoop ERR)|apply (Hnoop PANIC)];
        first [apply fail_not_withdrawn; reflexivity|assumption|exact Hstep]. }
    assert (Hstep' : (let '(m1, x1, ws1) :=
                        match persist s m' (call_of (c_m c) o) with
                        | Some ws0 => (m', x0, ws0) | None => (m', ERR, []) end in
                      if is_withdrawn_ok o x1 then (sdel bytes_cmp id W, x1, ws1)
                      else (sput bytes_cmp id (mkChan m1 (c_peers c) (c_parent c)) W, x1, ws1)) = (W', x, ws))
      by (destruct x0; try discriminate Hx; exact Hstep).
    clear Hstep.
    destruct (call_cases (call_of (c_m c) o)) as [Hs|[Hr|Hn]].
    + (* one batch / one put *)
      pose proof (step_frame (c_m c) o (c_peers c) (c_parent c) Inv0 Henc Hok) as F.
      rewrite <- Ex, <- Em in F. specialize (F Hx Hs).
      destruct (put_fields_frame_ok _ _ _ _ _ F) as [a Ha].
      rewrite (persist_single s m' _ Hs), Ha in Hstep'. cbn [option_map] in Hstep'.
      rewrite (single_not_withdrawn _ _ x0 Hs) in Hstep'. injection Hstep' as <- <- <-.
      assert (Hid' : chan_id m' = id).
      { unfold chan_id. rewrite Em, (proj2 (step_me_ps (c_m c) o)). exact Hid. }
      pose proof (rep_single W s id c m' _ a (conj RC RP) Hf Hid' Ha F) as R'.
      assert (HW' : wfW (sput bytes_cmp id (mkChan m' (c_peers c) (c_parent c)) W)).
      { apply wfW_put; [exact HW|]. split; [exact Hid'|]. cbn [c_m]. rewrite Em. split.
        - apply Inv_step, Inv0.
        - apply stg_enc_step; assumption. }
      split; [split; [exact HW'|exact R']|].
      intros [|[|k]] Hk; try (cbn [length] in Hk; lia); [left; exact RC|right; exact (proj1 R')].
    + (* SetWithdrawn: the channel is removed *)
      pose proof (removed_is_withdrawn _ _ Hr) as ->. rewrite Hr in Hstep'. cbn [persist] in Hstep'.
      assert (Hid' : chan_id m' = id).
      { unfold chan_id. rewrite Em, (proj2 (step_me_ps (c_m c) OSetWithdrawn)). exact Hid. }
      rewrite Hid', (chan_removed_ok W s id c (conj RC RP) Hf) in Hstep'.
      assert (x0 = OK).
      { rewrite Ex in *. unfold step, simple_transition in *. destruct (expect (c_m c) Withdrawing Withdrawn); cbn [snd] in *; [reflexivity|discriminate Hx]. }
      rewrite H in Hstep'. cbn [is_withdrawn_ok] in Hstep'. injection Hstep' as <- <- <-.
      destruct (remove_step W s id c G Hf) as [R1 G2].
      split; [exact G2|]. intros [|[|[|k]]] Hk; try (cbn [length] in Hk; lia).
      * left. exact RC.
      * right. exact R1.
      * right. exact (proj1 (proj2 G2)).
    + (* CheckUpdate: not persisted *)
      rewrite Hn in Hstep'. cbn [persist] in Hstep'.
      eapply Hnoop; [apply (none_not_withdrawn _ _ _ Hn)| |exact Hstep'].
      rewrite Em. apply step_none_frame, Hn.
Qed.

(* ====================================================================== *)
(* I. the properties                                                       *)
(* ====================================================================== *)
Lemma good_empty : good [] [].
Proof.
  split; [split; [exact I|intros id c H; discriminate H]|].
  split; [split; [exact I|intros; reflexivity]|intros p id; reflexivity].
Qed.
Lemma good_wnext Ws o : good (fst Ws) (snd Ws) -> wop_ok o = true ->
  good (fst (wnext Ws o)) (snd (wnext Ws o)).
Proof.
  intros G Hok. unfold wnext. destruct (wstep (fst Ws) (snd Ws) o) as [[W' x] ws] eqn:E.
  cbn [fst snd]. apply (wstep_crash _ _ _ _ _ _ G Hok E).
Qed.
Lemma good_fold h Ws : good (fst Ws) (snd Ws) -> forallb wop_ok h = true ->
  good (fst (fold_left wnext h Ws)) (snd (fold_left wnext h Ws)).
Proof.
  revert Ws. induction h as [|o h IH]; intros Ws G H; [exact G|].
  cbn [forallb] in H. apply andb_true_iff in H as [H1 H2]. cbn [fold_left].
  apply IH; [apply good_wnext; assumption|exact H2].
Qed.
(* every history of well-formed operations keeps the store equal to the image of the live channels *)
Lemma good_run h : forallb wop_ok h = true -> good (fst (wrun h)) (snd (wrun h)).
Proof. intro H. unfold wrun. apply good_fold; [exact good_empty|exact H]. Qed.

Lemma stores_after_all s ws : stores_after s ws (length ws) = apply_atomics s ws.
Proof. unfold stores_after. rewrite firstn_all. reflexivity. Qed.

(* C10: restoring at any crash point of the next operation *)
Lemma crash_restore W s o W' x ws : good W s -> wop_ok o = true -> wstep W s o = (W', x, ws) ->
  forall k, (k <= length ws)%nat -> forall id,
    (restore_chan (stores_after s ws k) id = view W id \/
     restore_chan (stores_after s ws k) id = view W' id) /\
    (k = length ws -> restore_chan (stores_after s ws k) id = view W' id).
Proof.
  intros G Hok E k Hk id. destruct (wstep_crash _ _ _ _ _ _ G Hok E) as [[HW' R'] Hc]. split.
  - destruct (Hc k Hk) as [R|R]; [left|right]; apply restore_chan_view; auto. apply G.
  - intros ->. rewrite stores_after_all. apply restore_chan_view; [apply R'|exact HW'].
Qed.

(* no signature of an earlier staged state: every signature of a snapshot verifies for its staged state *)
Definition sigs_fresh (rc : rchan) : Prop :=
  forall i g, nth_error (rc_sigs rc) i = Some (Some g) ->
    exists st a, rc_stg rc = Some st /\ nth_error (mp_parts (rc_params rc)) i = Some a /\
                 verify_state a st g = Some true.
Lemma snap_fresh id c : wf_chan id c -> sigs_fresh (snap_of c).
Proof.
  intros [_ [Iv _]] i g H. unfold snap_of in *. cbn [rc_sigs rc_stg rc_params] in *.
  unfold staged_sigs in H. destruct (staging (c_m c)) as [t|] eqn:E.
  - destruct (inv_staging _ Iv t E) as [_ Hs]. specialize (Hs i (Some g) H). cbn [slot_ok] in Hs.
    destruct Hs as [a [Ha Hv]]. exists (tx_st t), a. cbn [option_map]. auto.
  - apply nth_error_repeat in H. discriminate H.
Qed.
Lemma view_fresh W id rc : wfW W -> view W id = ROk rc -> sigs_fresh rc.
Proof.
  intros [_ H] E. unfold view in E. destruct (wfind id W) as [c|] eqn:Ec; [|discriminate].
  injection E as <-. eapply snap_fresh, H, Ec.
Qed.
Lemma crash_no_stale W s o W' x ws : good W s -> wop_ok o = true -> wstep W s o = (W', x, ws) ->
  forall k, (k <= length ws)%nat -> forall id rc,
    restore_chan (stores_after s ws k) id = ROk rc -> sigs_fresh rc.
Proof.
  intros G Hok E k Hk id rc Hr.
  destruct (wstep_crash _ _ _ _ _ _ G Hok E) as [[HW' _] _].
  destruct (proj1 (crash_restore _ _ _ _ _ _ G Hok E k Hk id)) as [H|H]; rewrite H in Hr.
  - eapply view_fresh; [apply G|exact Hr].
  - eapply view_fresh; [exact HW'|exact Hr].
Qed.

(* C11: the key set *)
Lemma in_keys_find k (s : store) : ksorted s -> (In k (map fst s) <-> exists v, kfind k s = Some v).
Proof.
  intro S. rewrite in_map_iff. split.
  - intros [[k' v] [<- H]]. exists v. apply (sfind_in key_cmp key_ord); assumption.
  - intros [v H]. exists (k, v). split; [reflexivity|]. apply (sfind_in key_cmp key_ord); assumption.
Qed.
Definition chan_keys (id : bytes) (c : chan) : list key :=
  map fst (chan_kvs id c) ++ map fst (peer_kvs id c).
Lemma in_chan_keys id c k : In k (chan_keys id c) <->
  match k with
  | KChan id' f => id' = id /\ field_spec c f <> None
  | KPeer p id' => id' = id /\ In p (c_peers c)
  end.
Proof.
  unfold chan_keys. rewrite in_app_iff. split.
  - intros [H|H].
    + apply in_map_iff in H as [[k' v] [<- H]]. cbn [fst]. pose proof (chan_kvs_keys _ _ _ H) as [f E].
      cbn [fst] in E. subst k'. split; [reflexivity|].
      apply (sfind_in key_cmp key_ord _ _ _ (sorted_chan_kvs id c)) in H. rewrite sfind_chan_kvs in H. congruence.
    + unfold peer_kvs in H. rewrite map_map in H. cbn [fst] in H. apply in_map_iff in H as [p [<- Hp]]. auto.
  - destruct k as [id' f|p id'].
    + intros [-> H]. left. destruct (field_spec c f) as [v|] eqn:E; [|contradiction].
      apply in_map_iff. exists (KChan id f, v). split; [reflexivity|].
      apply (sfind_in key_cmp key_ord _ _ _ (sorted_chan_kvs id c)). rewrite sfind_chan_kvs. exact E.
    + intros [-> H]. right. unfold peer_kvs. rewrite map_map. cbn [fst]. apply in_map_iff. eauto.
Qed.
Lemma keys_exact W s : Rep W s -> forall k,
  In k (map fst s) <-> exists id c, wfind id W = Some c /\ In k (chan_keys id c).
Proof.
  intros [[S C] RP] k. rewrite (in_keys_find k s S). split.
  - intros [v H]. destruct k as [id f|p id].
    + rewrite C in H. unfold spec_chan in H. destruct (wfind id W) as [c|] eqn:E; [|discriminate].
      exists id, c. split; [exact E|]. apply in_chan_keys. split; [reflexivity|congruence].
    + rewrite RP in H. unfold spec_peer in H. destruct (wfind id W) as [c|] eqn:E; [|discriminate].
      destruct (bytes_mem p (c_peers c)) eqn:M; [|discriminate].
      exists id, c. split; [exact E|]. apply in_chan_keys. split; [reflexivity|apply bytes_mem_In, M].
  - intros [id [c [E H]]]. apply in_chan_keys in H. destruct k as [id' f|p id']; destruct H as [-> H].
    + rewrite C. unfold spec_chan. rewrite E. destruct (field_spec c f) as [v|]; [eauto|contradiction].
    + rewrite RP. unfold spec_peer. rewrite E. apply bytes_mem_In in H. rewrite H. eauto.
Qed.
Lemma sorted_nodup_keys (s : store) : ksorted s -> NoDup (map fst s).
Proof.
  induction s as [|[k v] s IH]; intro S; [constructor|]. destruct S as [L S]. cbn [map fst]. constructor.
  - intro H. apply in_map_iff in H as [[k' v'] [E H]]. cbn [fst] in E. subst k'.
    unfold lb in L. rewrite Forall_forall in L. specialize (L _ H). cbn [fst] in L. rewrite kc_refl in L. discriminate.
  - apply IH, S.
Qed.

(* C11: what a step changes in the registry *)
(* the channel an operation addresses (a restart addresses none) *)
Definition wop_id (o : wop) : option bytes :=
  match o with WCreate p _ _ _ => Some (mp_id p) | WOp id _ => Some id | WRestart => None end.
Lemma wstep_other W s o W' x ws b : good W s -> wstep W s o = (W', x, ws) -> wop_id o <> Some b ->
  wfind b W' = wfind b W.
Proof.
  intros G E Hb0. pose proof (proj1 (proj1 G)) as S. destruct o as [p idx peers parent|id o|].
  3:{ rewrite (restart_step W s G) in E. injection E as <- _ _. reflexivity. }
  - assert (Hb : b <> mp_id p) by (intros ->; apply Hb0; reflexivity). cbn [wstep] in E.
    destruct (wfind (mp_id p) W); [injection E as <- _ _; reflexivity|].
    destruct (chan_created _ _ _); injection E as <- _ _; [|reflexivity].
    rewrite wfind_put, bytes_eqb_neq by exact Hb. reflexivity.
  - assert (Hb : b <> id) by (intros ->; apply Hb0; reflexivity). cbn [wstep] in E.
    destruct (wfind id W) as [c|]; [|injection E as <- _ _; reflexivity].
    destruct (wrap_step s (c_m c) o) as [[m' x0] ws0]. destruct (is_withdrawn_ok o x0); injection E as <- _ _.
    + rewrite wfind_del, bytes_eqb_neq by assumption. reflexivity.
    + rewrite wfind_put, bytes_eqb_neq by exact Hb. reflexivity.
Qed.
Lemma withdrawn_removed W s id W' ws : wsorted W ->
  wstep W s (WOp id OSetWithdrawn) = (W', OK, ws) -> wfind id W' = None.
Proof.
  intros S E. cbn [wstep] in E. destruct (wfind id W) as [c|]; [|discriminate E].
  destruct (wrap_step s (c_m c) OSetWithdrawn) as [[m' x0] ws0].
  destruct x0; cbn [is_withdrawn_ok] in E; try discriminate E. injection E as <- _.
  rewrite wfind_del, bytes_eqb_refl by exact S. reflexivity.
Qed.

(* ---------- the statements of Props/C10.v and Props/C11.v ---------- *)
Lemma C10_crash_restore_l : forall h o,
  forallb wop_ok h = true -> wop_ok o = true ->
  let W := fst (wrun h) in let s := snd (wrun h) in
  forall W' x ws, wstep W s o = (W', x, ws) ->
  forall k, (k <= length ws)%nat -> forall id,
    (restore_chan (apply_atomics s (firstn k ws)) id = view W id \/
     restore_chan (apply_atomics s (firstn k ws)) id = view W' id) /\
    (k = length ws -> restore_chan (apply_atomics s (firstn k ws)) id = view W' id).
Proof.
  intros h o Hh Ho W s W' x ws E k Hk id.
  exact (crash_restore W s o W' x ws (good_run h Hh) Ho E k Hk id).
Qed.
Lemma C10_no_stale_l : forall h o,
  forallb wop_ok h = true -> wop_ok o = true ->
  let W := fst (wrun h) in let s := snd (wrun h) in
  forall W' x ws, wstep W s o = (W', x, ws) ->
  forall k, (k <= length ws)%nat -> forall id rc,
    restore_chan (apply_atomics s (firstn k ws)) id = ROk rc -> sigs_fresh rc.
Proof.
  intros h o Hh Ho W s W' x ws E k Hk id rc.
  exact (crash_no_stale W s o W' x ws (good_run h Hh) Ho E k Hk id rc).
Qed.
Lemma C10_restart_l : forall h, forallb wop_ok h = true ->
  wstep (fst (wrun h)) (snd (wrun h)) WRestart = (fst (wrun h), OK, []).
Proof. intros h Hh. apply restart_step, good_run, Hh. Qed.
Lemma C10_invariant_l : forall h, forallb wop_ok h = true ->
  Rep (fst (wrun h)) (snd (wrun h)) /\ wfW (fst (wrun h)).
Proof. intros h Hh. destruct (good_run h Hh) as [A B]. split; assumption. Qed.

Definition key_chan (k : key) : bytes := match k with KChan id _ => id | KPeer _ id => id end.

Lemma C11_keys_exact_l : forall h, forallb wop_ok h = true ->
  let W := fst (wrun h) in let s := snd (wrun h) in
  NoDup (map fst s) /\
  forall k, In k (map fst s) <-> exists id c, wfind id W = Some c /\ In k (chan_keys id c).
Proof.
  intros h Hh W s. destruct (good_run h Hh) as [HW R]. split.
  - apply sorted_nodup_keys, R.
  - apply keys_exact, R.
Qed.
Lemma C11_restore_all_l : forall h, forallb wop_ok h = true ->
  let W := fst (wrun h) in let s := snd (wrun h) in
  wsorted W /\ restore_all s = (map (fun ic => snap_of (snd ic)) W, EOk).
Proof.
  intros h Hh W s. destruct (good_run h Hh) as [HW R]. split; [apply HW|].
  apply restore_all_spec; [apply R|exact HW].
Qed.
Lemma C11_restore_peer_l : forall h, forallb wop_ok h = true ->
  let W := fst (wrun h) in let s := snd (wrun h) in
  forall p, restore_peer s p =
            (map (fun ic => snap_of (snd ic)) (filter (fun ic => bytes_mem p (c_peers (snd ic))) W), EOk).
Proof. intros h Hh W s p. destruct (good_run h Hh) as [HW R]. apply (restore_peer_spec W s p R HW). Qed.
Lemma C11_active_peers_l : forall h, forallb wop_ok h = true ->
  let W := fst (wrun h) in let s := snd (wrun h) in
  NoDup (active_peers s) /\
  forall p, In p (active_peers s) <-> exists id c, wfind id W = Some c /\ In p (c_peers c).
Proof.
  intros h Hh W s. destruct (good_run h Hh) as [HW R]. split; [apply active_peers_nodup|].
  intro p. apply active_peers_spec, R.
Qed.
Lemma C11_restore_chan_l : forall h, forallb wop_ok h = true ->
  forall id, restore_chan (snd (wrun h)) id = view (fst (wrun h)) id.
Proof. intros h Hh id. destruct (good_run h Hh) as [HW R]. apply restore_chan_view; [apply R|exact HW]. Qed.
Lemma C11_restore_removed_fails_l : forall h id, forallb wop_ok h = true ->
  let W := fst (wrun h) in let s := snd (wrun h) in
  forall W' ws, wstep W s (WOp id OSetWithdrawn) = (W', OK, ws) ->
  restore_chan (apply_atomics s ws) id = RNotFound /\
  forall k, In k (map fst (apply_atomics s ws)) -> key_chan k <> id.
Proof.
  intros h id Hh W s W' ws E. pose proof (good_run h Hh) as G.
  destruct (wstep_crash W s (WOp id OSetWithdrawn) W' OK ws G eq_refl E) as [[HW' R'] _].
  pose proof (withdrawn_removed W s id W' ws (proj1 (proj1 G)) E) as Hn. split.
  - rewrite (restore_chan_view W' _ id (proj1 R') HW'). unfold view. rewrite Hn. reflexivity.
  - intros k Hk. apply (keys_exact W' _ R') in Hk as [id' [c [Ec Hin]]].
    apply in_chan_keys in Hin. intro X.
    assert (id' = id) by (destruct k; cbn [key_chan] in X; destruct Hin as [-> _]; exact X).
    subst id'. congruence.
Qed.
Lemma C11_frame_l : forall h o, forallb wop_ok h = true -> wop_ok o = true ->
  let W := fst (wrun h) in let s := snd (wrun h) in
  forall W' x ws, wstep W s o = (W', x, ws) ->
  forall b, wop_id o <> Some b -> forall k, (k <= length ws)%nat ->
    restore_chan (apply_atomics s (firstn k ws)) b = restore_chan s b.
Proof.
  intros h o Hh Ho W s W' x ws E b Hb k Hk. pose proof (good_run h Hh) as G.
  rewrite (restore_chan_view W s b (proj1 (proj2 G)) (proj1 G)).
  assert (Ev : view W' b = view W b).
  { unfold view. rewrite (wstep_other W s o W' x ws b G E Hb). reflexivity. }
  destruct (proj1 (crash_restore W s o W' x ws G Ho E k Hk b)) as [H|H]; unfold stores_after in H; rewrite H; [reflexivity|exact Ev].
Qed.

(* ---------- the image as a function: Rep W s says s = image W ---------- *)
Lemma put_all_atomic l s : put_all l s = apply_atomic s (map (fun e : entry => WPut (fst e) (snd e)) l).
Proof.
  revert s. induction l as [|e l IH]; intro s; [reflexivity|].
  unfold put_all, apply_atomic in *. cbn [map fold_left apply_wr]. apply IH.
Qed.
Lemma Rep_image W : wsorted W -> Rep W (image W).
Proof.
  induction W as [|[id c] W IH]; intro S.
  - apply good_empty.
  - destruct S as [L S]. cbn [fst] in L. destruct (IH S) as [[S1 C1] P1].
    cbn [image fold_right fst snd]. fold (image W). rewrite put_all_atomic.
    set (a := map (fun e : entry => WPut (fst e) (snd e)) (chan_kvs id c ++ peer_kvs id c)).
    assert (Ha : forall w, In w a -> exists k v, w = WPut k v /\ In (k, v) (chan_kvs id c ++ peer_kvs id c)).
    { intros w Hw. apply in_map_iff in Hw as [[k v] [<- H]]. eauto. }
    split; [split; [apply sorted_apply_atomic, S1|]|].
    + intros id' f. rewrite find_apply_atomic by exact S1. rewrite C1. unfold spec_chan at 2. rewrite wfind_cons.
      destruct (bytes_eqb id' id) eqn:E.
      * apply bytes_eqb_eq in E. subst id'. unfold spec_chan. rewrite (wlb_notfound _ _ L).
        destruct (field_spec c f) as [v|] eqn:Ef.
        -- apply eff_in.
           ++ exists (WPut (KChan id f) v). split; [|reflexivity]. apply in_map_iff. exists (KChan id f, v).
              split; [reflexivity|]. apply in_or_app. left.
              apply (sfind_in key_cmp key_ord _ _ _ (sorted_chan_kvs id c)). rewrite sfind_chan_kvs. exact Ef.
           ++ intros w Hw Hk. destruct (Ha w Hw) as [k [v' [-> Hin]]]. cbn [wr_key wr_res] in *. subst k.
              apply in_app_or in Hin as [Hin|Hin].
              ** apply (sfind_in key_cmp key_ord _ _ _ (sorted_chan_kvs id c)) in Hin.
                 rewrite sfind_chan_kvs in Hin. congruence.
              ** unfold peer_kvs in Hin. apply in_map_iff in Hin as [p [X _]]. discriminate X.
        -- apply eff_notin. intros w Hw Hk. destruct (Ha w Hw) as [k [v' [-> Hin]]]. cbn [wr_key] in Hk. subst k.
           apply in_app_or in Hin as [Hin|Hin].
           ** apply (sfind_in key_cmp key_ord _ _ _ (sorted_chan_kvs id c)) in Hin.
              rewrite sfind_chan_kvs in Hin. congruence.
           ** unfold peer_kvs in Hin. apply in_map_iff in Hin as [p [X _]]. discriminate X.
      * apply eff_notin. intros w Hw Hk. destruct (Ha w Hw) as [k [v' [-> Hin]]]. cbn [wr_key] in Hk. subst k.
        assert (id' = id); [|subst id'; rewrite bytes_eqb_refl in E; discriminate].
        apply in_app_or in Hin as [Hin|Hin].
        -- apply chan_kvs_keys in Hin as [f' X]. cbn [fst] in X. congruence.
        -- unfold peer_kvs in Hin. apply in_map_iff in Hin as [p [X _]]. discriminate X.
    + intros p id'. rewrite find_apply_atomic by exact S1. rewrite P1. unfold spec_peer at 2. rewrite wfind_cons.
      destruct (bytes_eqb id' id) eqn:E.
      * apply bytes_eqb_eq in E. subst id'. unfold spec_peer. rewrite (wlb_notfound _ _ L).
        destruct (bytes_mem p (c_peers c)) eqn:M.
        -- apply eff_in.
           ++ exists (WPut (KPeer p id) VEmpty). split; [|reflexivity]. apply in_map_iff. exists (KPeer p id, VEmpty).
              split; [reflexivity|]. apply in_or_app. right. unfold peer_kvs. apply in_map_iff.
              exists p. split; [reflexivity|apply bytes_mem_In, M].
           ++ intros w Hw Hk. destruct (Ha w Hw) as [k [v' [-> Hin]]]. cbn [wr_key wr_res] in *. subst k.
              apply in_app_or in Hin as [Hin|Hin].
              ** apply chan_kvs_keys in Hin as [f' X]. discriminate X.
              ** unfold peer_kvs in Hin. apply in_map_iff in Hin as [q [X _]]. congruence.
        -- apply eff_notin. intros w Hw Hk. destruct (Ha w Hw) as [k [v' [-> Hin]]]. cbn [wr_key] in Hk. subst k.
           apply in_app_or in Hin as [Hin|Hin].
           ** apply chan_kvs_keys in Hin as [f' X]. discriminate X.
           ** unfold peer_kvs in Hin. apply in_map_iff in Hin as [q [X Hq]]. injection X as ->.
              apply bytes_mem_In in Hq. congruence.
      * apply eff_notin. intros w Hw Hk. destruct (Ha w Hw) as [k [v' [-> Hin]]]. cbn [wr_key] in Hk. subst k.
        assert (id' = id); [|subst id'; rewrite bytes_eqb_refl in E; discriminate].
        apply in_app_or in Hin as [Hin|Hin].
        -- apply chan_kvs_keys in Hin as [f' X]. discriminate X.
        -- unfold peer_kvs in Hin. apply in_map_iff in Hin as [q [X _]]. congruence.
Qed.
Lemma C10_store_eq_image_l : forall h, forallb wop_ok h = true -> snd (wrun h) = image (fst (wrun h)).
Proof.
  intros h Hh. destruct (good_run h Hh) as [HW R]. apply (Rep_unique (fst (wrun h))); [exact R|].
  apply Rep_image, HW.
Qed.
