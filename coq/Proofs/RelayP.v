(* Proofs about Model/Relay.v (property C18). *)
From Coq Require Import List Bool Arith PeanoNat Lia Permutation.
From V Require Import Model.Relay.
Import ListNotations.

(* ------------------------------------------------------------------ basics *)

Definition env_dec : forall a b : env, {a = b} + {a <> b}.
Proof. decide equality; apply Nat.eq_dec. Defined.

Definition pe_dec : forall a b : cid * env, {a = b} + {a <> b}.
Proof. decide equality; [apply env_dec | apply Nat.eq_dec]. Defined.

Definition cnt (e : env) (l : list env) : nat := count_occ env_dec l e.
Definition cntp (x : cid * env) (l : list (cid * env)) : nat := count_occ pe_dec l x.

Lemma memn_In : forall c l, memn c l = true <-> In c l.
Proof.
  intros c l. unfold memn. rewrite existsb_exists. split.
  - intros [x [Hx He]]. apply Nat.eqb_eq in He. subst. exact Hx.
  - intros H. exists c. split; [exact H | apply Nat.eqb_refl].
Qed.

Lemma memn_false : forall c l, memn c l = false <-> ~ In c l.
Proof.
  intros c l. rewrite <- memn_In. destruct (memn c l); split; intros; congruence.
Qed.

Lemma cnt_app : forall e l1 l2, cnt e (l1 ++ l2) = cnt e l1 + cnt e l2.
Proof. intros. unfold cnt. apply count_occ_app. Qed.

Lemma cntp_app : forall x l1 l2, cntp x (l1 ++ l2) = cntp x l1 + cntp x l2.
Proof. intros. unfold cntp. apply count_occ_app. Qed.

Lemma cnt_filter_split : forall e (p : pred) l,
  cnt e l = cnt e (filter p l) + cnt e (filter (fun m => negb (p m)) l).
Proof.
  intros e p l. unfold cnt. induction l as [|x l IH]; [reflexivity|].
  cbn [filter]. destruct (p x) eqn:Hp; cbn [negb].
  - cbn [count_occ]. destruct (env_dec x e); lia.
  - cbn [count_occ]. destruct (env_dec x e); lia.
Qed.

Lemma map_snd_pair : forall (c : cid) (l : list env), map snd (map (fun m => (c, m)) l) = l.
Proof. intros. rewrite map_map. cbn [snd]. apply map_id. Qed.

Lemma map_snd_pair' : forall (e : env) (l : list cid), map fst (map (fun c => (c, e)) l) = l.
Proof. intros. rewrite map_map. cbn [fst]. apply map_id. Qed.

Lemma cnt_zero_not_in : forall e l, cnt e l = 0 <-> ~ In e l.
Proof. intros. unfold cnt. symmetry. apply count_occ_not_In. Qed.

Lemma cntp_zero_not_in : forall x l, cntp x l = 0 <-> ~ In x l.
Proof. intros. unfold cntp. symmetry. apply count_occ_not_In. Qed.

Lemma take_first_split : forall c l e r,
  take_first c l = Some (e, r) -> exists l1 l2, l = l1 ++ (c, e) :: l2 /\ r = l1 ++ l2.
Proof.
  intros c l. induction l as [|x l IH]; intros e r H; [discriminate|].
  cbn [take_first] in H. destruct (Nat.eqb (fst x) c) eqn:Hc.
  - apply Nat.eqb_eq in Hc. injection H as He Hr. subst e r. exists [], l. destruct x as [c0 e0]. cbn [fst snd] in *. subst c0. split; reflexivity.
  - destruct (take_first c l) as [[e' r']|] eqn:Ht; [|discriminate].
    injection H as He Hr. subst e' r. destruct (IH e r' eq_refl) as [l1 [l2 [H1 H2]]].
    exists (x :: l1), l2. subst l r'. split; reflexivity.
Qed.

Lemma remove_first_In : forall c x l, In x (remove_first c l) -> In x l.
Proof.
  intros c x l. induction l as [|y l IH]; cbn [remove_first]; [tauto|].
  destruct (Nat.eqb y c); cbn [In]; tauto.
Qed.

Lemma remove_first_NoDup : forall c l, NoDup l -> NoDup (remove_first c l) /\ ~ In c (remove_first c l).
Proof.
  intros c l. induction l as [|y l IH]; cbn [remove_first]; intros H.
  - split; [constructor | intros []].
  - inversion H; subst. destruct (Nat.eqb y c) eqn:Hc.
    + apply Nat.eqb_eq in Hc. subst. split; assumption.
    + apply Nat.eqb_neq in Hc. destruct (IH H3) as [Ha Hb]. split.
      * constructor; [|exact Ha]. intros Hin. apply H2. eapply remove_first_In; eauto.
      * cbn [In]. intros [He|Hin]; [congruence | tauto].
Qed.

(* Relay.delete's swap-remove removes exactly the first subscription of c *)
Lemma last_removelast_perm : forall {A} (r : list A) (d : A), r <> [] -> Permutation (last r d :: removelast r) r.
Proof.
  intros A r d Hr. rewrite (app_removelast_last d Hr) at 3.
  apply Permutation_cons_append.
Qed.

Lemma del_sub_spec : forall c l l', del_sub c l = Some l' ->
  exists l1 x l2, l = l1 ++ x :: l2 /\ fst x = c /\ Permutation l' (l1 ++ l2).
Proof.
  intros c l. induction l as [|x l IH]; intros l' H; [discriminate|].
  cbn [del_sub] in H. destruct (Nat.eqb (fst x) c) eqn:Hc.
  - apply Nat.eqb_eq in Hc. inversion H; subst. exists [], x, l. split; [reflexivity|]. split; [reflexivity|].
    cbn [app]. destruct l as [|y l]; [constructor|]. apply last_removelast_perm. discriminate.
  - destruct (del_sub c l) as [l0|] eqn:Hd; [|discriminate]. cbn [option_map] in H. inversion H; subst.
    destruct (IH l0 eq_refl) as [l1 [y [l2 [H1 [H2 H3]]]]].
    exists (x :: l1), y, l2. subst. split; [reflexivity|]. split; [reflexivity|].
    cbn [app]. constructor. exact H3.
Qed.

Lemma del_sub_some : forall c l, In c (map fst l) -> del_sub c l <> None.
Proof.
  intros c l. induction l as [|x l IH]; cbn [map In del_sub]; [tauto|].
  intros [H|H].
  - subst. rewrite Nat.eqb_refl. discriminate.
  - destruct (Nat.eqb (fst x) c); [discriminate|]. specialize (IH H).
    destruct (del_sub c l); [discriminate | congruence].
Qed.

(* ------------------------------------------------------------------ structural invariant *)

Record Inv (s : state) : Prop := mkInv {
  i_nodup_subs : NoDup (map fst (subs s));
  i_subs_hist : incl (subs s) (shist s);
  i_nodup_hist : NoDup (map fst (shist s));
  i_hist_cases : forall c, In c (map fst (shist s)) ->
                   In c (map fst (subs s)) \/ In c (cclosed s) \/ closed s = true;
  i_pending_closed : incl (pending s) (cclosed s);
  i_nodup_pending : NoDup (pending s);
  i_closing : closing s = true -> closed s = true;
  i_pending_subs : closed s = false -> forall c, In c (pending s) -> In c (map fst (subs s));
  i_match : forall c e, In (c, e) (inflight s) \/ In (c, e) (dlog s) ->
              exists p, In (c, p) (shist s) /\ p e = true
}.

Lemma matching_in : forall s e c,
  In c (matching s e) <-> exists p, In (c, p) (subs s) /\ p e = true.
Proof.
  intros s e c. unfold matching. rewrite in_map_iff. split.
  - intros [[c' p] [Hc Hin]]. cbn [fst] in Hc. subst c'. apply filter_In in Hin. cbn [snd] in Hin.
    exists p. exact Hin.
  - intros [p [Hin Hp]]. exists (c, p). split; [reflexivity|]. apply filter_In. split; assumption.
Qed.

Lemma inv_init : Inv init.
Proof.
  constructor; cbn; try constructor; try tauto; try discriminate.
  all: try (intros x []).
  all: try (intros c e [[]|[]]).
Qed.

Lemma inv_put : forall s e, Inv s -> Inv (fst (put s e)).
Proof.
  intros s e HI. unfold put.
  destruct (closed s) eqn:Hcl; [exact HI|].
  destruct HI as [H1 H2 H3 H4 H5 H6 H7 H8 H9].
  destruct (matching s e) as [|c0 tos] eqn:Hm.
  - destruct (cache_matches s e); constructor; simpl; assumption.
  - constructor; simpl; try assumption.
    intros c e0 [Hin|Hin]; [apply H9; left; exact Hin|].
    apply in_app_or in Hin. destruct Hin as [Hin|Hin]; [apply H9; right; exact Hin|].
    change ((c0, e) :: map (fun c : cid => (c, e)) tos) with (map (fun c : cid => (c, e)) (c0 :: tos)) in Hin.
    apply in_map_iff in Hin. destruct Hin as [c' [Heq Hin]]. inversion Heq; subst c' e0.
    rewrite <- Hm in Hin. apply matching_in in Hin. destruct Hin as [p [Hp1 Hp2]].
    exists p. split; [apply H2; exact Hp1 | exact Hp2].
Qed.

Lemma in_map_fst_app : forall (c : cid) (l : list (cid * pred)) x,
  In c (map fst (l ++ [x])) <-> In c (map fst l) \/ c = fst x.
Proof.
  intros. rewrite map_app, in_app_iff. cbn [map In]. intuition.
Qed.

Lemma NoDup_snoc : forall {A} (l : list A) x, NoDup l -> ~ In x l -> NoDup (l ++ [x]).
Proof.
  intros A l x Hn Hx. apply Permutation_NoDup with (x :: l).
  - apply Permutation_cons_append.
  - constructor; assumption.
Qed.

Lemma inv_subscribe : forall s c p, Inv s -> Inv (fst (subscribe s c p)).
Proof.
  intros s c p HI. unfold subscribe.
  destruct (closed s) eqn:Hcl; [exact HI|].
  destruct (memn c (map fst (subs s))) eqn:Hm; [exact HI|].
  destruct (memn c (cclosed s)) eqn:Hc; [exact HI|].
  apply memn_false in Hm. apply memn_false in Hc.
  destruct HI as [H1 H2 H3 H4 H5 H6 H7 H8 H9].
  assert (Hfresh : ~ In c (map fst (shist s))).
  { intros Hin. destruct (H4 c Hin) as [Ha|[Ha|Ha]]; [tauto | tauto | congruence]. }
  constructor; simpl; try assumption.
  - rewrite map_app. cbn [map fst]. apply NoDup_snoc; assumption.
  - intros x Hx. apply in_app_or in Hx. apply in_or_app. destruct Hx as [Hx|Hx]; [left; apply H2; exact Hx | right; exact Hx].
  - rewrite map_app. cbn [map fst]. apply NoDup_snoc; assumption.
  - intros c1 Hin. apply in_map_fst_app in Hin. cbn [fst] in Hin.
    destruct Hin as [Hin|Hin].
    + destruct (H4 c1 Hin) as [Ha|[Ha|Ha]]; [left; apply in_map_fst_app; left; exact Ha | right; left; exact Ha | congruence].
    + left. apply in_map_fst_app. right. exact Hin.
  - intros Hcl' c1 Hin. apply in_map_fst_app. left. apply H8; assumption.
  - intros c1 e [Hin|Hin].
    + apply in_app_or in Hin. destruct Hin as [Hin|Hin].
      * destruct (H9 c1 e (or_introl Hin)) as [q [Hq1 Hq2]]. exists q. split; [apply in_or_app; left; exact Hq1 | exact Hq2].
      * apply in_map_iff in Hin. destruct Hin as [m [Heq Hin]]. inversion Heq; subst c1 m.
        apply filter_In in Hin. exists p. split; [apply in_or_app; right; left; reflexivity | apply Hin].
    + destruct (H9 c1 e (or_intror Hin)) as [q [Hq1 Hq2]]. exists q. split; [apply in_or_app; left; exact Hq1 | exact Hq2].
Qed.

Lemma inv_cache_pred : forall s k p, Inv s -> Inv (fst (cache_pred s k p)).
Proof.
  intros s k p HI. unfold cache_pred.
  destruct (closed s); [exact HI|]. destruct (memn k (map fst (cpreds s))); [exact HI|].
  destruct HI. constructor; simpl; assumption.
Qed.

Lemma inv_release : forall s k, Inv s -> Inv (fst (release s k)).
Proof. intros s k HI. unfold release. destruct HI. constructor; simpl; assumption. Qed.

Lemma inv_close_consumer : forall s c, Inv s -> Inv (fst (close_consumer s c)).
Proof.
  intros s c HI. unfold close_consumer.
  destruct (memn c (cclosed s)) eqn:Hc; [exact HI|]. apply memn_false in Hc.
  destruct HI as [H1 H2 H3 H4 H5 H6 H7 H8 H9].
  destruct (memn c (map fst (shist s))) eqn:Hh.
  - apply memn_In in Hh. constructor; simpl; try assumption.
    + intros c1 Hin. destruct (H4 c1 Hin) as [Ha|[Ha|Ha]]; [left; exact Ha | right; left; right; exact Ha | right; right; exact Ha].
    + intros x Hx. apply in_app_or in Hx. destruct Hx as [Hx|[Hx|[]]]; [right; apply H5; exact Hx | left; exact Hx].
    + apply NoDup_snoc; [exact H6|]. intros Hin. apply Hc. apply H5. exact Hin.
    + intros Hcl c1 Hin. apply in_app_or in Hin. destruct Hin as [Hin|[Hin|[]]]; [apply H8; assumption|].
      subst c1. destruct (H4 c Hh) as [Ha|[Ha|Ha]]; [exact Ha | tauto | congruence].
  - constructor; simpl; try assumption.
    + intros c1 Hin. destruct (H4 c1 Hin) as [Ha|[Ha|Ha]]; [left; exact Ha | right; left; right; exact Ha | right; right; exact Ha].
    + intros x Hx. right. apply H5. exact Hx.
Qed.

Lemma inv_deliver : forall s c, Inv s -> Inv (fst (deliver s c)).
Proof.
  intros s c HI. unfold deliver.
  destruct (take_first c (inflight s)) as [[e r]|] eqn:Ht; [|exact HI].
  destruct (take_first_split _ _ _ _ Ht) as [l1 [l2 [Hl Hr]]].
  destruct HI as [H1 H2 H3 H4 H5 H6 H7 H8 H9].
  constructor; simpl; try assumption.
  intros c1 e1 [Hin|Hin].
  - apply H9. left. rewrite Hl. subst r. apply in_app_or in Hin. apply in_or_app.
    destruct Hin as [Hin|Hin]; [left; exact Hin | right; right; exact Hin].
  - apply in_app_or in Hin. destruct Hin as [Hin|[Hin|[]]].
    + apply H9. right. exact Hin.
    + inversion Hin; subst c1 e1. apply H9. left. rewrite Hl. apply in_or_app. right. left. reflexivity.
Qed.

Lemma inv_close_flag : forall s, Inv s -> Inv (fst (close_flag s)).
Proof.
  intros s HI. unfold close_flag. destruct (closed s) eqn:Hcl; [exact HI|].
  destruct HI as [H1 H2 H3 H4 H5 H6 H7 H8 H9].
  constructor; simpl; try assumption.
  - intros c Hin. right. right. reflexivity.
  - reflexivity.
  - discriminate.
Qed.

Lemma inv_close_clear : forall s, Inv s -> Inv (fst (close_clear s)).
Proof.
  intros s HI. unfold close_clear. destruct (closing s) eqn:Hcg; [|exact HI]. cbn [negb].
  destruct HI as [H1 H2 H3 H4 H5 H6 H7 H8 H9].
  assert (Hcl : closed s = true) by (apply H7; exact Hcg).
  destruct (cache s) eqn:Hca; constructor; simpl; try assumption;
    try (intros; right; right; exact Hcl); try discriminate;
    try (intros Hf; congruence); try (intros x []); try constructor.
Qed.

Lemma del_sub_props : forall c l l', del_sub c l = Some l' -> NoDup (map fst l) ->
  NoDup (map fst l') /\ incl l' l /\ (forall c1, c1 <> c -> In c1 (map fst l) -> In c1 (map fst l')).
Proof.
  intros c l l' Hd Hn. destruct (del_sub_spec _ _ _ Hd) as [l1 [x [l2 [Hl [Hx Hp]]]]]. subst l.
  split; [|split].
  - apply Permutation_NoDup with (map fst (l1 ++ l2)).
    + apply Permutation_map. apply Permutation_sym. exact Hp.
    + rewrite map_app in *. cbn [map] in Hn. eapply NoDup_remove_1. exact Hn.
  - intros y Hy. apply (Permutation_in _ Hp) in Hy. apply in_app_or in Hy. apply in_or_app.
    destruct Hy as [Hy|Hy]; [left; exact Hy | right; right; exact Hy].
  - intros c1 Hne Hin. apply (Permutation_in _ (Permutation_map fst (Permutation_sym Hp))).
    rewrite map_app in *. cbn [map] in Hin. apply in_app_or in Hin. apply in_or_app.
    destruct Hin as [Hin|[Hin|Hin]]; [left; exact Hin | congruence | right; exact Hin].
Qed.

Lemma inv_delete : forall s c, Inv s -> Inv (fst (delete s c)).
Proof.
  intros s c HI. unfold delete.
  destruct (memn c (pending s)) eqn:Hp; [|exact HI]. cbn [negb]. apply memn_In in Hp.
  destruct HI as [H1 H2 H3 H4 H5 H6 H7 H8 H9].
  destruct (remove_first_NoDup c _ H6) as [Hn1 Hn2].
  assert (Hs1 : Inv (set_pending s (remove_first c (pending s)))).
  { constructor; simpl; try assumption.
    - intros x Hx. apply H5. eapply remove_first_In. exact Hx.
    - intros Hcl c1 Hin. apply H8; [exact Hcl|]. eapply remove_first_In. exact Hin. }
  destruct (closed s) eqn:Hcl; [exact Hs1|].
  destruct (del_sub c (subs s)) as [l|] eqn:Hd; [|exact Hs1].
  destruct (del_sub_props _ _ _ Hd H1) as [Ha [Hb Hc]].
  constructor; simpl; rewrite ?Hcl; try assumption.
  - intros x Hx. apply H2. apply Hb. exact Hx.
  - intros c1 Hin. destruct (Nat.eq_dec c1 c) as [He|He].
    + subst c1. right. left. apply H5. exact Hp.
    + destruct (H4 c1 Hin) as [Hx|[Hx|Hx]]; [left; apply Hc; assumption | right; left; exact Hx | right; right; exact Hx].
  - intros x Hx. apply H5. eapply remove_first_In. exact Hx.
  - intros _ c1 Hin. apply Hc.
    + intros He. subst c1. tauto.
    + apply H8; [reflexivity|]. eapply remove_first_In. exact Hin.
Qed.

Lemma inv_step : forall s a, Inv s -> Inv (fst (step s a)).
Proof.
  intros s a HI. destruct a; cbn [step].
  - apply inv_put; exact HI.
  - apply inv_subscribe; exact HI.
  - apply inv_cache_pred; exact HI.
  - apply inv_release; exact HI.
  - apply inv_close_consumer; exact HI.
  - apply inv_delete; exact HI.
  - apply inv_deliver; exact HI.
  - apply inv_close_flag; exact HI.
  - apply inv_close_clear; exact HI.
Qed.

Lemma run_app : forall tr1 tr2 s, run s (tr1 ++ tr2) = run (run s tr1) tr2.
Proof. intros. unfold run. apply fold_left_app. Qed.

Lemma run_cons : forall a tr s, run s (a :: tr) = run (fst (step s a)) tr.
Proof. reflexivity. Qed.

Lemma inv_run : forall tr s, Inv s -> Inv (run s tr).
Proof.
  induction tr as [|a tr IH]; intros s HI; [exact HI|].
  rewrite run_cons. apply IH. apply inv_step. exact HI.
Qed.

Lemma inv_reach : forall tr, Inv (run init tr).
Proof. intros. apply inv_run. apply inv_init. Qed.

(* the delete goroutine never hits log.Panic("deleted consumer that was not subscribed") *)
Lemma delete_no_panic : forall tr c, snd (step (run init tr) (ADelete c)) <> OPanic.
Proof.
  intros tr c. pose proof (inv_reach tr) as HI. set (s := run init tr) in *.
  cbn [step]. unfold delete.
  destruct (memn c (pending s)) eqn:Hp; cbn [negb snd]; [|discriminate]. apply memn_In in Hp.
  destruct (closed s) eqn:Hcl; [cbn [snd]; discriminate|].
  pose proof (i_pending_subs _ HI Hcl c Hp) as Hin.
  pose proof (del_sub_some _ _ Hin) as Hd.
  destruct (del_sub c (subs s)); [cbn [snd]; discriminate | congruence].
Qed.

(* ------------------------------------------------------------------ where an envelope is *)

Definition inC (e : env) (s : state) := cnt e (cache s).
Definition inF (e : env) (s : state) := cnt e (map snd (inflight s)).
Definition inD (e : env) (s : state) := cnt e (map snd (dlog s)).
Definition inH (e : env) (s : state) := cnt e (hlog s).
Definition inX (e : env) (s : state) := cnt e (flushed s).

Lemma cnt_cons : forall e x l, cnt e (x :: l) = (if env_dec x e then 1 else 0) + cnt e l.
Proof. intros. unfold cnt. cbn [count_occ]. destruct (env_dec x e); reflexivity. Qed.

Lemma cntp_cons : forall y x l, cntp y (x :: l) = (if pe_dec x y then 1 else 0) + cntp y l.
Proof. intros. unfold cntp. cbn [count_occ]. destruct (pe_dec x y); reflexivity. Qed.

Lemma cntp_le : forall c e l, cntp (c, e) l <= cnt e (map snd l).
Proof.
  intros c e l. induction l as [|[c1 e1] l IH]; [apply Nat.le_refl|].
  cbn [map snd]. rewrite cntp_cons, cnt_cons.
  destruct (pe_dec (c1, e1) (c, e)) as [H|H]; destruct (env_dec e1 e) as [H'|H']; try lia.
  inversion H. congruence.
Qed.

Lemma cntp_pair_map : forall c e l, cntp (c, e) (map (fun m => (c, m)) l) = cnt e l.
Proof.
  intros c e l. induction l as [|x l IH]; [reflexivity|].
  cbn [map]. rewrite cntp_cons, cnt_cons, IH.
  destruct (pe_dec (c, x) (c, e)) as [H|H]; destruct (env_dec x e) as [H'|H']; try reflexivity.
  - inversion H. congruence.
  - subst. congruence.
Qed.

Lemma cnt_all_other : forall e e' l, (forall x, In x l -> x = e') -> e' <> e -> cnt e l = 0.
Proof.
  intros e e' l H Hne. apply cnt_zero_not_in. intros Hin. apply H in Hin. congruence.
Qed.

Lemma cnt_snd_all_other : forall e e' (l : list (cid * env)),
  (forall x, In x l -> snd x = e') -> e' <> e -> cnt e (map snd l) = 0.
Proof.
  intros e e' l H Hne. apply cnt_zero_not_in. intros Hin. apply in_map_iff in Hin.
  destruct Hin as [x [Hx Hin]]. apply H in Hin. congruence.
Qed.

Lemma cnt_filter_true : forall e (p : pred) l, p e = true -> cnt e (filter (fun m => negb (p m)) l) = 0.
Proof.
  intros e p l Hp. apply cnt_zero_not_in. intros Hin. apply filter_In in Hin. destruct Hin as [_ Hn].
  rewrite Hp in Hn. discriminate.
Qed.

Lemma cnt_filter_false : forall e (p : pred) l, p e = false -> cnt e (filter p l) = 0.
Proof.
  intros e p l Hp. apply cnt_zero_not_in. intros Hin. apply filter_In in Hin. destruct Hin as [_ Hn].
  congruence.
Qed.

(* ------------------------------------------------------------------ effect of one action on the logs *)

Inductive eff (s s' : state) : action -> Prop :=
| EffSame a :
    cache s' = cache s -> inflight s' = inflight s -> dlog s' = dlog s -> hlog s' = hlog s ->
    flushed s' = flushed s -> shist s' = shist s -> eff s s' a
| EffPut e c1 d1 h1 :
    cache s' = cache s ++ c1 -> inflight s' = inflight s -> dlog s' = dlog s ++ d1 -> hlog s' = hlog s ++ h1 ->
    flushed s' = flushed s -> shist s' = shist s ->
    (forall x, In x c1 -> x = e) -> (forall x, In x d1 -> snd x = e) -> (forall x, In x h1 -> x = e) ->
    eff s s' (APut e)
| EffSub c p :
    cache s' = filter (fun m => negb (p m)) (cache s) ->
    inflight s' = inflight s ++ map (fun m => (c, m)) (filter p (cache s)) ->
    dlog s' = dlog s -> hlog s' = hlog s -> flushed s' = flushed s -> shist s' = shist s ++ [(c, p)] ->
    eff s s' (ASubscribe c p)
| EffDeliver c e l1 l2 :
    cache s' = cache s -> inflight s = l1 ++ (c, e) :: l2 -> inflight s' = l1 ++ l2 ->
    dlog s' = dlog s ++ [(c, e)] -> hlog s' = hlog s -> flushed s' = flushed s -> shist s' = shist s ->
    eff s s' (ADeliver c)
| EffFlush :
    cache s' = [] -> inflight s' = inflight s -> dlog s' = dlog s -> hlog s' = hlog s ->
    flushed s' = flushed s ++ cache s -> shist s' = shist s -> eff s s' ACloseClear.

Lemma step_eff : forall s a, eff s (fst (step s a)) a.
Proof.
  intros s a. destruct a; cbn [step].
  - unfold put. destruct (closed s); [apply EffSame; reflexivity|].
    destruct (matching s e) as [|c0 tos] eqn:Hm.
    + destruct (cache_matches s e).
      * apply EffPut with (c1 := [e]) (d1 := []) (h1 := []); simpl; try reflexivity;
          try (symmetry; apply app_nil_r); try (intros ? Hf; simpl in Hf; contradiction); intros x [Hx|[]]; congruence.
      * apply EffPut with (c1 := []) (d1 := []) (h1 := [e]); simpl; try reflexivity;
          try (symmetry; apply app_nil_r); try (intros ? Hf; simpl in Hf; contradiction); intros x [Hx|[]]; congruence.
    + apply EffPut with (c1 := []) (d1 := map (fun c => (c, e)) (c0 :: tos)) (h1 := []); simpl; try reflexivity;
        try (symmetry; apply app_nil_r); try (intros ? Hf; simpl in Hf; contradiction).
      intros x Hx. destruct Hx as [Hx|Hx]; [subst x; reflexivity|].
      apply in_map_iff in Hx. destruct Hx as [y [Hy _]]. subst x. reflexivity.
  - unfold subscribe. destruct (closed s); [apply EffSame; reflexivity|].
    destruct (memn c (map fst (subs s))); [apply EffSame; reflexivity|].
    destruct (memn c (cclosed s)); [apply EffSame; reflexivity|].
    apply EffSub; reflexivity.
  - unfold cache_pred. destruct (closed s); [apply EffSame; reflexivity|].
    destruct (memn k (map fst (cpreds s))); apply EffSame; reflexivity.
  - apply EffSame; reflexivity.
  - unfold close_consumer. destruct (memn c (cclosed s)); [apply EffSame; reflexivity|].
    destruct (memn c (map fst (shist s))); apply EffSame; reflexivity.
  - unfold delete. destruct (negb (memn c (pending s))); [apply EffSame; reflexivity|].
    destruct (closed s); [apply EffSame; reflexivity|].
    destruct (del_sub c (subs s)); apply EffSame; reflexivity.
  - unfold deliver. destruct (take_first c (inflight s)) as [[e r]|] eqn:Ht; [|apply EffSame; reflexivity].
    destruct (take_first_split _ _ _ _ Ht) as [l1 [l2 [Hl Hr]]].
    apply EffDeliver with (e := e) (l1 := l1) (l2 := l2); simpl; try reflexivity; assumption.
  - unfold close_flag. destruct (closed s); apply EffSame; reflexivity.
  - unfold close_clear. destruct (negb (closing s)); [apply EffSame; reflexivity|].
    destruct (cache s) eqn:Hc.
    + apply EffSame; reflexivity.
    + apply EffFlush; simpl; try reflexivity. rewrite Hc. reflexivity.
Qed.

(* ------------------------------------------------------------------ an envelope that is neither cached nor in flight stays where it is *)

Definition quiet (e : env) (s : state) : Prop := inC e s = 0 /\ inF e s = 0.

Definition same_logs (e : env) (s s' : state) : Prop :=
  (forall c, cntp (c, e) (dlog s') = cntp (c, e) (dlog s)) /\ inD e s' = inD e s /\
  inH e s' = inH e s /\ inX e s' = inX e s.

Lemma eff_quiet : forall e s s' a, eff s s' a -> a <> APut e -> quiet e s -> quiet e s' /\ same_logs e s s'.
Proof.
  intros e s s' a He Hne [Hc Hf]. unfold quiet, same_logs, inC, inF, inD, inH, inX in *.
  destruct He as [a H1 H2 H3 H4 H5 H6 | e' c1 d1 h1 H1 H2 H3 H4 H5 H6 Hc1 Hd1 Hh1 | c p H1 H2 H3 H4 H5 H6
                 | c e1 l1 l2 H1 H2 H2' H3 H4 H5 H6 | H1 H2 H3 H4 H5 H6].
  - rewrite H1, H2, H3, H4, H5. repeat split; auto.
  - assert (Hee : e' <> e) by congruence.
    rewrite H1, H2, H3, H4, H5. rewrite !map_app, !cnt_app.
    rewrite (cnt_all_other e e' c1 Hc1 Hee), (cnt_all_other e e' h1 Hh1 Hee), (cnt_snd_all_other e e' d1 Hd1 Hee).
    repeat split; try lia. intros c. rewrite cntp_app.
    pose proof (cntp_le c e d1). rewrite (cnt_snd_all_other e e' d1 Hd1 Hee) in H. lia.
  - rewrite H1, H2, H3, H4, H5. rewrite map_app, cnt_app, map_snd_pair.
    pose proof (cnt_filter_split e p (cache s)). repeat split; try lia; auto.
  - rewrite H1, H2', H3, H4, H5. rewrite H2 in Hf. rewrite !map_app, !cnt_app in *. cbn [map snd] in *.
    rewrite cnt_cons in Hf. destruct (env_dec e1 e) as [Heq|Heq]; [lia|].
    repeat split; try lia.
    + intros c0. rewrite cntp_app, cntp_cons. destruct (pe_dec (c, e1) (c0, e)) as [Hq|Hq]; [inversion Hq; congruence|].
      change (cntp (c0, e) []) with 0. lia.
    + rewrite cnt_cons. destruct (env_dec e1 e); [congruence|]. change (cnt e []) with 0. lia.
  - rewrite H1, H2, H3, H4, H5. rewrite cnt_app. repeat split; try lia; auto.
Qed.

Lemma run_quiet : forall e tr s, ~ In (APut e) tr -> quiet e s -> quiet e (run s tr) /\ same_logs e s (run s tr).
Proof.
  intros e tr. induction tr as [|a tr IH]; intros s Hn Hq.
  - split; [exact Hq|]. unfold same_logs. repeat split; reflexivity.
  - rewrite run_cons. cbn [In] in Hn.
    assert (Hne : a <> APut e) by (intros Heq; apply Hn; left; exact Heq).
    destruct (eff_quiet e s _ a (step_eff s a) Hne Hq) as [Hq' Hs'].
    assert (Hn' : ~ In (APut e) tr) by tauto.
    destruct (IH (fst (step s a)) Hn' Hq') as [Hq'' Hs''].
    split; [exact Hq''|]. destruct Hs' as [A1 [A2 [A3 A4]]]. destruct Hs'' as [B1 [B2 [B3 B4]]].
    unfold same_logs. repeat split; try congruence.
Qed.

(* ------------------------------------------------------------------ following a cached envelope *)

Definition rejects (e : env) (l : list (cid * pred)) : Prop := forall c p, In (c, p) l -> p e = false.

(* h0 = the successful subscriptions before the put *)
Inductive tracked (e : env) (h0 : list (cid * pred)) (s : state) : Prop :=
| TrCached mid :
    shist s = h0 ++ mid -> rejects e mid ->
    inC e s = 1 -> inF e s = 0 -> inD e s = 0 -> inH e s = 0 -> inX e s = 0 -> tracked e h0 s
| TrTaken mid c p rest :
    shist s = h0 ++ mid ++ (c, p) :: rest -> rejects e mid -> p e = true ->
    inC e s = 0 -> inH e s = 0 -> inX e s = 0 ->
    inF e s + inD e s = 1 -> cntp (c, e) (inflight s) + cntp (c, e) (dlog s) = 1 -> tracked e h0 s
| TrFlushed :
    inC e s = 0 -> inF e s = 0 -> inD e s = 0 -> inH e s = 0 -> inX e s = 1 -> tracked e h0 s.

Lemma rejects_snoc : forall e mid c (p : pred), rejects e mid -> p e = false -> rejects e (mid ++ [(c, p)]).
Proof.
  intros e mid c p Hr Hp c1 p1 Hin. apply in_app_or in Hin. destruct Hin as [Hin|[Hin|[]]].
  - eapply Hr; exact Hin.
  - inversion Hin; subst. exact Hp.
Qed.

Lemma eff_tracked : forall e h0 s s' a, eff s s' a -> a <> APut e -> tracked e h0 s -> tracked e h0 s'.
Proof.
  intros e h0 s s' a He Hne Ht.
  destruct Ht as [mid Hh Hrej HC HF HD HH HX | mid c p rest Hh Hrej Hp HC HH HX HFD Hcp | HC HF HD HH HX].
  - (* still in the cache *)
    unfold inC, inF, inD, inH, inX in *.
    destruct He as [a H1 H2 H3 H4 H5 H6 | e' c1 d1 h1 H1 H2 H3 H4 H5 H6 Hc1 Hd1 Hh1 | c p H1 H2 H3 H4 H5 H6
                   | c e1 l1 l2 H1 H2 H2' H3 H4 H5 H6 | H1 H2 H3 H4 H5 H6].
    + apply TrCached with mid; unfold inC, inF, inD, inH, inX; rewrite ?H1, ?H2, ?H3, ?H4, ?H5, ?H6; assumption.
    + assert (Hee : e' <> e) by congruence.
      apply TrCached with mid; unfold inC, inF, inD, inH, inX; rewrite ?H1, ?H2, ?H3, ?H4, ?H5, ?H6; try assumption;
        rewrite ?map_app, ?cnt_app, ?(cnt_all_other e e' c1 Hc1 Hee), ?(cnt_all_other e e' h1 Hh1 Hee), ?(cnt_snd_all_other e e' d1 Hd1 Hee); lia.
    + pose proof (cnt_filter_split e p (cache s)) as Hsp. destruct (p e) eqn:Hpe.
      * pose proof (cnt_filter_true e p (cache s) Hpe) as Hz.
        apply TrTaken with mid c p []; unfold inC, inF, inD, inH, inX; rewrite ?H1, ?H2, ?H3, ?H4, ?H5, ?H6; try assumption.
        -- rewrite Hh. rewrite <- app_assoc. reflexivity.
        -- rewrite map_app, cnt_app, map_snd_pair. lia.
        -- rewrite cntp_app, cntp_pair_map.
           pose proof (cntp_le c e (inflight s)). pose proof (cntp_le c e (dlog s)). lia.
      * pose proof (cnt_filter_false e p (cache s) Hpe) as Hz.
        apply TrCached with (mid ++ [(c, p)]); unfold inC, inF, inD, inH, inX; rewrite ?H1, ?H2, ?H3, ?H4, ?H5, ?H6; try assumption.
        -- rewrite Hh. rewrite <- app_assoc. reflexivity.
        -- apply rejects_snoc; assumption.
        -- lia.
        -- rewrite map_app, cnt_app, map_snd_pair. lia.
    + rewrite H2 in HF. rewrite map_app, cnt_app in HF. cbn [map snd] in HF. rewrite cnt_cons in HF.
      destruct (env_dec e1 e) as [Heq|Heq]; [lia|].
      apply TrCached with mid; unfold inC, inF, inD, inH, inX; rewrite ?H1, ?H2', ?H3, ?H4, ?H5, ?H6; try assumption.
      * rewrite map_app, cnt_app. lia.
      * rewrite map_app, cnt_app. cbn [map snd]. rewrite cnt_cons. destruct (env_dec e1 e); [congruence|].
        change (cnt e []) with 0. lia.
    + apply TrFlushed; unfold inC, inF, inD, inH, inX; rewrite ?H1, ?H2, ?H3, ?H4, ?H5, ?H6; try assumption.
      * reflexivity.
      * rewrite cnt_app. lia.
  - (* taken by the subscription of c *)
    unfold inC, inF, inD, inH, inX in *.
    destruct He as [a H1 H2 H3 H4 H5 H6 | e' c1 d1 h1 H1 H2 H3 H4 H5 H6 Hc1 Hd1 Hh1 | c' p' H1 H2 H3 H4 H5 H6
                   | c' e1 l1 l2 H1 H2 H2' H3 H4 H5 H6 | H1 H2 H3 H4 H5 H6].
    + apply TrTaken with mid c p rest; unfold inC, inF, inD, inH, inX; rewrite ?H1, ?H2, ?H3, ?H4, ?H5, ?H6; assumption.
    + assert (Hee : e' <> e) by congruence.
      pose proof (cntp_le c e d1) as Hle. rewrite (cnt_snd_all_other e e' d1 Hd1 Hee) in Hle.
      apply TrTaken with mid c p rest; unfold inC, inF, inD, inH, inX; rewrite ?H1, ?H2, ?H3, ?H4, ?H5, ?H6; try assumption;
        rewrite ?map_app, ?cnt_app, ?cntp_app, ?(cnt_all_other e e' c1 Hc1 Hee), ?(cnt_all_other e e' h1 Hh1 Hee), ?(cnt_snd_all_other e e' d1 Hd1 Hee); lia.
    + pose proof (cnt_filter_split e p' (cache s)) as Hsp.
      pose proof (cntp_le c e (map (fun m => (c', m)) (filter p' (cache s)))) as Hle. rewrite map_snd_pair in Hle.
      apply TrTaken with mid c p (rest ++ [(c', p')]); unfold inC, inF, inD, inH, inX; rewrite ?H1, ?H2, ?H3, ?H4, ?H5, ?H6; try assumption.
      * rewrite Hh. rewrite <- !app_assoc. reflexivity.
      * lia.
      * rewrite map_app, cnt_app, map_snd_pair. lia.
      * rewrite cntp_app. lia.
    + rewrite H2 in HFD, Hcp. rewrite map_app, cnt_app in HFD. cbn [map snd] in HFD. rewrite cnt_cons in HFD.
      rewrite cntp_app, cntp_cons in Hcp.
      apply TrTaken with mid c p rest; unfold inC, inF, inD, inH, inX; rewrite ?H1, ?H2', ?H3, ?H4, ?H5, ?H6; try assumption.
      * rewrite !map_app, !cnt_app. cbn [map snd]. rewrite cnt_cons. change (cnt e []) with 0. lia.
      * rewrite !cntp_app, cntp_cons. change (cntp (c, e) []) with 0. lia.
    + apply TrTaken with mid c p rest; unfold inC, inF, inD, inH, inX; rewrite ?H1, ?H2, ?H3, ?H4, ?H5, ?H6; try assumption.
      * reflexivity.
      * rewrite cnt_app. lia.
  - (* flushed by Close *)
    destruct (eff_quiet e s s' a He Hne (conj HC HF)) as [[Q1 Q2] [_ [Q3 [Q4 Q5]]]].
    apply TrFlushed; congruence.
Qed.

Lemma run_tracked : forall e h0 tr s, ~ In (APut e) tr -> tracked e h0 s -> tracked e h0 (run s tr).
Proof.
  intros e h0 tr. induction tr as [|a tr IH]; intros s Hn Ht; [exact Ht|].
  rewrite run_cons. cbn [In] in Hn. apply IH; [tauto|].
  apply eff_tracked with s a; [apply step_eff | intros Heq; apply Hn; left; exact Heq | exact Ht].
Qed.
