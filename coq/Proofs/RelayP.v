(* Proofs about Model/Relay.v (property C18). *)
From Coq Require Import List Bool Arith PeanoNat Lia Permutation.
From V Require Import Model.Relay.
Import ListNotations.

(* ------------------------------------------------------------------ basics *)

Definition env_dec : forall a b : env, {a = b} + {a <> b}.
Proof. decide equality; apply Nat.eq_dec. Defined.

Definition pe_dec : forall a b : cid * env, {a = b} + {a <> b}.
Proof. decide equality; [apply env_dec | apply Nat.eq_dec]. Defined.

Definition cnt (e : env) (l : list env) : nat := count_occ env_dec l e.
Definition cntp (x : cid * env) (l : list (cid * env)) : nat := count_occ pe_dec l x.

Lemma memn_In : forall c l, memn c l = true <-> In c l.
Proof.
  intros c l. unfold memn. rewrite existsb_exists. split.
  - intros [x [Hx He]]. apply Nat.eqb_eq in He. subst. exact Hx.
  - intros H. exists c. split; [exact H | apply Nat.eqb_refl].
Qed.

Lemma memn_false : forall c l, memn c l = false <-> ~ In c l.
Proof.
  intros c l. rewrite <- memn_In. destruct (memn c l); split; intros; congruence.
Qed.

Lemma cnt_app : forall e l1 l2, cnt e (l1 ++ l2) = cnt e l1 + cnt e l2.
Proof. intros. unfold cnt. apply count_occ_app. Qed.

Lemma cntp_app : forall x l1 l2, cntp x (l1 ++ l2) = cntp x l1 + cntp x l2.
Proof. intros. unfold cntp. apply count_occ_app. Qed.

Lemma cnt_filter_split : forall e (p : pred) l,
  cnt e l = cnt e (filter p l) + cnt e (filter (fun m => negb (p m)) l).
Proof.
  intros e p l. unfold cnt. induction l as [|x l IH]; [reflexivity|].
  cbn [filter]. destruct (p x) eqn:Hp; cbn [negb].
  - cbn [count_occ]. destruct (env_dec x e); lia.
  - cbn [count_occ]. destruct (env_dec x e); lia.
Qed.

Lemma map_snd_pair : forall (c : cid) (l : list env), map snd (map (fun m => (c, m)) l) = l.
Proof. intros. rewrite map_map. cbn [snd]. apply map_id. Qed.

Lemma map_snd_pair' : forall (e : env) (l : list cid), map fst (map (fun c => (c, e)) l) = l.
Proof. intros. rewrite map_map. cbn [fst]. apply map_id. Qed.

Lemma cnt_zero_not_in : forall e l, cnt e l = 0 <-> ~ In e l.
Proof. intros. unfold cnt. symmetry. apply count_occ_not_In. Qed.

Lemma cntp_zero_not_in : forall x l, cntp x l = 0 <-> ~ In x l.
Proof. intros. unfold cntp. symmetry. apply count_occ_not_In. Qed.

Lemma take_first_split : forall c l e r,
  take_first c l = Some (e, r) -> exists l1 l2, l = l1 ++ (c, e) :: l2 /\ r = l1 ++ l2.
Proof.
  intros c l. induction l as [|x l IH]; intros e r H; [discriminate|].
  cbn [take_first] in H. destruct (Nat.eqb (fst x) c) eqn:Hc.
  - apply Nat.eqb_eq in Hc. injection H as He Hr. subst e r. exists [], l. destruct x as [c0 e0]. cbn [fst snd] in *. subst c0. split; reflexivity.
  - destruct (take_first c l) as [[e' r']|] eqn:Ht; [|discriminate].
    injection H as He Hr. subst e' r. destruct (IH e r' eq_refl) as [l1 [l2 [H1 H2]]].
    exists (x :: l1), l2. subst l r'. split; reflexivity.
Qed.

Lemma remove_first_In : forall c x l, In x (remove_first c l) -> In x l.
Proof.
  intros c x l. induction l as [|y l IH]; cbn [remove_first]; [tauto|].
  destruct (Nat.eqb y c); cbn [In]; tauto.
Qed.

Lemma remove_first_NoDup : forall c l, NoDup l -> NoDup (remove_first c l) /\ ~ In c (remove_first c l).
Proof.
  intros c l. induction l as [|y l IH]; cbn [remove_first]; intros H.
  - split; [constructor | intros []].
  - inversion H; subst. destruct (Nat.eqb y c) eqn:Hc.
    + apply Nat.eqb_eq in Hc. subst. split; assumption.
    + apply Nat.eqb_neq in Hc. destruct (IH H3) as [Ha Hb]. split.
      * constructor; [|exact Ha]. intros Hin. apply H2. eapply remove_first_In; eauto.
      * cbn [In]. intros [He|Hin]; [congruence | tauto].
Qed.

(* Relay.delete's swap-remove removes exactly the first subscription of c *)
Lemma last_removelast_perm : forall {A} (r : list A) (d : A), r <> [] -> Permutation (last r d :: removelast r) r.
Proof.
  intros A r d Hr. rewrite (app_removelast_last d Hr) at 3.
  apply Permutation_cons_append.
Qed.

Lemma del_sub_spec : forall c l l', del_sub c l = Some l' ->
  exists l1 x l2, l = l1 ++ x :: l2 /\ fst x = c /\ Permutation l' (l1 ++ l2).
Proof.
  intros c l. induction l as [|x l IH]; intros l' H; [discriminate|].
  cbn [del_sub] in H. destruct (Nat.eqb (fst x) c) eqn:Hc.
  - apply Nat.eqb_eq in Hc. inversion H; subst. exists [], x, l. split; [reflexivity|]. split; [reflexivity|].
    cbn [app]. destruct l as [|y l]; [constructor|]. apply last_removelast_perm. discriminate.
  - destruct (del_sub c l) as [l0|] eqn:Hd; [|discriminate]. cbn [option_map] in H. inversion H; subst.
    destruct (IH l0 eq_refl) as [l1 [y [l2 [H1 [H2 H3]]]]].
    exists (x :: l1), y, l2. subst. split; [reflexivity|]. split; [reflexivity|].
    cbn [app]. constructor. exact H3.
Qed.

Lemma del_sub_some : forall c l, In c (map fst l) -> del_sub c l <> None.
Proof.
  intros c l. induction l as [|x l IH]; cbn [map In del_sub]; [tauto|].
  intros [H|H].
  - subst. rewrite Nat.eqb_refl. discriminate.
  - destruct (Nat.eqb (fst x) c); [discriminate|]. specialize (IH H).
    destruct (del_sub c l); [discriminate | congruence].
Qed.
