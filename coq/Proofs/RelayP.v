(* Proofs about Model/Relay.v (property C18). *)
From Coq Require Import List Bool Arith PeanoNat Lia Permutation.
From V Require Import Model.Relay.
Import ListNotations.

(* ------------------------------------------------------------------ basics *)

Definition env_dec : forall a b : env, {a = b} + {a <> b}.
Proof. decide equality; apply Nat.eq_dec. Defined.

Definition pe_dec : forall a b : cid * env, {a = b} + {a <> b}.
Proof. decide equality; [apply env_dec | apply Nat.eq_dec]. Defined.

Definition cnt (e : env) (l : list env) : nat := count_occ env_dec l e.
Definition cntp (x : cid * env) (l : list (cid * env)) : nat := count_occ pe_dec l x.

Lemma memn_In : forall c l, memn c l = true <-> In c l.
Proof.
  intros c l. unfold memn. rewrite existsb_exists. split.
  - intros [x [Hx He]]. apply Nat.eqb_eq in He. subst. exact Hx.
  - intros H. exists c. split; [exact H | apply Nat.eqb_refl].
Qed.

Lemma memn_false : forall c l, memn c l = false <-> ~ In c l.
Proof.
  intros c l. rewrite <- memn_In. destruct (memn c l); split; intros; congruence.
Qed.

Lemma cnt_app : forall e l1 l2, cnt e (l1 ++ l2) = cnt e l1 + cnt e l2.
Proof. intros. unfold cnt. apply count_occ_app. Qed.

Lemma cntp_app : forall x l1 l2, cntp x (l1 ++ l2) = cntp x l1 + cntp x l2.
Proof. intros. unfold cntp. apply count_occ_app. Qed.

Lemma cnt_filter_split : forall e (p : pred) l,
  cnt e l = cnt e (filter p l) + cnt e (filter (fun m => negb (p m)) l).
Proof.
  intros e p l. unfold cnt. induction l as [|x l IH]; [reflexivity|].
  cbn [filter]. destruct (p x) eqn:Hp; cbn [negb].
  - cbn [count_occ]. destruct (env_dec x e); lia.
  - cbn [count_occ]. destruct (env_dec x e); lia.
Qed.

Lemma map_snd_pair : forall (c : cid) (l : list env), map snd (map (fun m => (c, m)) l) = l.
Proof. intros. rewrite map_map. cbn [snd]. apply map_id. Qed.

Lemma map_snd_pair' : forall (e : env) (l : list cid), map fst (map (fun c => (c, e)) l) = l.
Proof. intros. rewrite map_map. cbn [fst]. apply map_id. Qed.

Lemma cnt_zero_not_in : forall e l, cnt e l = 0 <-> ~ In e l.
Proof. intros. unfold cnt. symmetry. apply count_occ_not_In. Qed.

Lemma cntp_zero_not_in : forall x l, cntp x l = 0 <-> ~ In x l.
Proof. intros. unfold cntp. symmetry. apply count_occ_not_In. Qed.

Lemma take_first_split : forall c l e r,
  take_first c l = Some (e, r) -> exists l1 l2, l = l1 ++ (c, e) :: l2 /\ r = l1 ++ l2.
Proof.
  intros c l. induction l as [|x l IH]; intros e r H; [discriminate|].
  cbn [take_first] in H. destruct (Nat.eqb (fst x) c) eqn:Hc.
  - apply Nat.eqb_eq in Hc. injection H as He Hr. subst e r. exists [], l. destruct x as [c0 e0]. cbn [fst snd] in *. subst c0. split; reflexivity.
  - destruct (take_first c l) as [[e' r']|] eqn:Ht; [|discriminate].
    injection H as He Hr. subst e' r. destruct (IH e r' eq_refl) as [l1 [l2 [H1 H2]]].
    exists (x :: l1), l2. subst l r'. split; reflexivity.
Qed.

Lemma remove_first_In : forall c x l, In x (remove_first c l) -> In x l.
Proof.
  intros c x l. induction l as [|y l IH]; cbn [remove_first]; [tauto|].
  destruct (Nat.eqb y c); cbn [In]; tauto.
Qed.

Lemma remove_first_NoDup : forall c l, NoDup l -> NoDup (remove_first c l) /\ ~ In c (remove_first c l).
Proof.
  intros c l. induction l as [|y l IH]; cbn [remove_first]; intros H.
  - split; [constructor | intros []].
  - inversion H; subst. destruct (Nat.eqb y c) eqn:Hc.
    + apply Nat.eqb_eq in Hc. subst. split; assumption.
    + apply Nat.eqb_neq in Hc. destruct (IH H3) as [Ha Hb]. split.
      * constructor; [|exact Ha]. intros Hin. apply H2. eapply remove_first_In; eauto.
      * cbn [In]. intros [He|Hin]; [congruence | tauto].
Qed.

(* Relay.delete's swap-remove removes exactly the first subscription of c *)
Lemma last_removelast_perm : forall {A} (r : list A) (d : A), r <> [] -> Permutation (last r d :: removelast r) r.
Proof.
  intros A r d Hr. rewrite (app_removelast_last d Hr) at 3.
  apply Permutation_cons_append.
Qed.

Lemma del_sub_spec : forall c l l', del_sub c l = Some l' ->
  exists l1 x l2, l = l1 ++ x :: l2 /\ fst x = c /\ Permutation l' (l1 ++ l2).
Proof.
  intros c l. induction l as [|x l IH]; intros l' H; [discriminate|].
  cbn [del_sub] in H. destruct (Nat.eqb (fst x) c) eqn:Hc.
  - apply Nat.eqb_eq in Hc. inversion H; subst. exists [], x, l. split; [reflexivity|]. split; [reflexivity|].
    cbn [app]. destruct l as [|y l]; [constructor|]. apply last_removelast_perm. discriminate.
  - destruct (del_sub c l) as [l0|] eqn:Hd; [|discriminate]. cbn [option_map] in H. inversion H; subst.
    destruct (IH l0 eq_refl) as [l1 [y [l2 [H1 [H2 H3]]]]].
    exists (x :: l1), y, l2. subst. split; [reflexivity|]. split; [reflexivity|].
    cbn [app]. constructor. exact H3.
Qed.

Lemma del_sub_some : forall c l, In c (map fst l) -> del_sub c l <> None.
Proof.
  intros c l. induction l as [|x l IH]; cbn [map In del_sub]; [tauto|].
  intros [H|H].
  - subst. rewrite Nat.eqb_refl. discriminate.
  - destruct (Nat.eqb (fst x) c); [discriminate|]. specialize (IH H).
    destruct (del_sub c l); [discriminate | congruence].
Qed.

(* ------------------------------------------------------------------ structural invariant *)

Record Inv (s : state) : Prop := mkInv {
  i_nodup_subs : NoDup (map fst (subs s));
  i_subs_hist : incl (subs s) (shist s);
  i_nodup_hist : NoDup (map fst (shist s));
  i_hist_cases : forall c, In c (map fst (shist s)) ->
                   In c (map fst (subs s)) \/ In c (cclosed s) \/ closed s = true;
  i_pending_closed : incl (pending s) (cclosed s);
  i_nodup_pending : NoDup (pending s);
  i_closing : closing s = true -> closed s = true;
  i_pending_subs : closed s = false -> forall c, In c (pending s) -> In c (map fst (subs s));
  i_match : forall c e, In (c, e) (inflight s) \/ In (c, e) (dlog s) ->
              exists p, In (c, p) (shist s) /\ p e = true
}.

Lemma matching_in : forall s e c,
  In c (matching s e) <-> exists p, In (c, p) (subs s) /\ p e = true.
Proof.
  intros s e c. unfold matching. rewrite in_map_iff. split.
  - intros [[c' p] [Hc Hin]]. cbn [fst] in Hc. subst c'. apply filter_In in Hin. cbn [snd] in Hin.
    exists p. exact Hin.
  - intros [p [Hin Hp]]. exists (c, p). split; [reflexivity|]. apply filter_In. split; assumption.
Qed.

Lemma inv_init : Inv init.
Proof.
  constructor; cbn; try constructor; try tauto; try discriminate.
  all: try (intros x []).
  all: try (intros c e [[]|[]]).
Qed.

Lemma inv_put : forall s e, Inv s -> Inv (fst (put s e)).
Proof.
  intros s e HI. unfold put.
  destruct (closed s) eqn:Hcl; [exact HI|].
  destruct HI as [H1 H2 H3 H4 H5 H6 H7 H8 H9].
  destruct (matching s e) as [|c0 tos] eqn:Hm.
  - destruct (cache_matches s e); constructor; simpl; assumption.
  - constructor; simpl; try assumption.
    intros c e0 [Hin|Hin]; [apply H9; left; exact Hin|].
    apply in_app_or in Hin. destruct Hin as [Hin|Hin]; [apply H9; right; exact Hin|].
    change ((c0, e) :: map (fun c : cid => (c, e)) tos) with (map (fun c : cid => (c, e)) (c0 :: tos)) in Hin.
    apply in_map_iff in Hin. destruct Hin as [c' [Heq Hin]]. inversion Heq; subst c' e0.
    rewrite <- Hm in Hin. apply matching_in in Hin. destruct Hin as [p [Hp1 Hp2]].
    exists p. split; [apply H2; exact Hp1 | exact Hp2].
Qed.

Lemma in_map_fst_app : forall (c : cid) (l : list (cid * pred)) x,
  In c (map fst (l ++ [x])) <-> In c (map fst l) \/ c = fst x.
Proof.
  intros. rewrite map_app, in_app_iff. cbn [map In]. intuition.
Qed.

Lemma NoDup_snoc : forall {A} (l : list A) x, NoDup l -> ~ In x l -> NoDup (l ++ [x]).
Proof.
  intros A l x Hn Hx. apply Permutation_NoDup with (x :: l).
  - apply Permutation_cons_append.
  - constructor; assumption.
Qed.

Lemma inv_subscribe : forall s c p, Inv s -> Inv (fst (subscribe s c p)).
Proof.
  intros s c p HI. unfold subscribe.
  destruct (closed s) eqn:Hcl; [exact HI|].
  destruct (memn c (map fst (subs s))) eqn:Hm; [exact HI|].
  destruct (memn c (cclosed s)) eqn:Hc; [exact HI|].
  apply memn_false in Hm. apply memn_false in Hc.
  destruct HI as [H1 H2 H3 H4 H5 H6 H7 H8 H9].
  assert (Hfresh : ~ In c (map fst (shist s))).
  { intros Hin. destruct (H4 c Hin) as [Ha|[Ha|Ha]]; [tauto | tauto | congruence]. }
  constructor; simpl; try assumption.
  - rewrite map_app. cbn [map fst]. apply NoDup_snoc; assumption.
  - intros x Hx. apply in_app_or in Hx. apply in_or_app. destruct Hx as [Hx|Hx]; [left; apply H2; exact Hx | right; exact Hx].
  - rewrite map_app. cbn [map fst]. apply NoDup_snoc; assumption.
  - intros c1 Hin. apply in_map_fst_app in Hin. cbn [fst] in Hin.
    destruct Hin as [Hin|Hin].
    + destruct (H4 c1 Hin) as [Ha|[Ha|Ha]]; [left; apply in_map_fst_app; left; exact Ha | right; left; exact Ha | congruence].
    + left. apply in_map_fst_app. right. exact Hin.
  - intros Hcl' c1 Hin. apply in_map_fst_app. left. apply H8; assumption.
  - intros c1 e [Hin|Hin].
    + apply in_app_or in Hin. destruct Hin as [Hin|Hin].
      * destruct (H9 c1 e (or_introl Hin)) as [q [Hq1 Hq2]]. exists q. split; [apply in_or_app; left; exact Hq1 | exact Hq2].
      * apply in_map_iff in Hin. destruct Hin as [m [Heq Hin]]. inversion Heq; subst c1 m.
        apply filter_In in Hin. exists p. split; [apply in_or_app; right; left; reflexivity | apply Hin].
    + destruct (H9 c1 e (or_intror Hin)) as [q [Hq1 Hq2]]. exists q. split; [apply in_or_app; left; exact Hq1 | exact Hq2].
Qed.

Lemma inv_cache_pred : forall s k p, Inv s -> Inv (fst (cache_pred s k p)).
Proof.
  intros s k p HI. unfold cache_pred.
  destruct (closed s); [exact HI|]. destruct (memn k (map fst (cpreds s))); [exact HI|].
  destruct HI. constructor; simpl; assumption.
Qed.

Lemma inv_release : forall s k, Inv s -> Inv (fst (release s k)).
Proof. intros s k HI. unfold release. destruct HI. constructor; simpl; assumption. Qed.

Lemma inv_close_consumer : forall s c, Inv s -> Inv (fst (close_consumer s c)).
Proof.
  intros s c HI. unfold close_consumer.
  destruct (memn c (cclosed s)) eqn:Hc; [exact HI|]. apply memn_false in Hc.
  destruct HI as [H1 H2 H3 H4 H5 H6 H7 H8 H9].
  destruct (memn c (map fst (shist s))) eqn:Hh.
  - apply memn_In in Hh. constructor; simpl; try assumption.
    + intros c1 Hin. destruct (H4 c1 Hin) as [Ha|[Ha|Ha]]; [left; exact Ha | right; left; right; exact Ha | right; right; exact Ha].
    + intros x Hx. apply in_app_or in Hx. destruct Hx as [Hx|[Hx|[]]]; [right; apply H5; exact Hx | left; exact Hx].
    + apply NoDup_snoc; [exact H6|]. intros Hin. apply Hc. apply H5. exact Hin.
    + intros Hcl c1 Hin. apply in_app_or in Hin. destruct Hin as [Hin|[Hin|[]]]; [apply H8; assumption|].
      subst c1. destruct (H4 c Hh) as [Ha|[Ha|Ha]]; [exact Ha | tauto | congruence].
  - constructor; simpl; try assumption.
    + intros c1 Hin. destruct (H4 c1 Hin) as [Ha|[Ha|Ha]]; [left; exact Ha | right; left; right; exact Ha | right; right; exact Ha].
    + intros x Hx. right. apply H5. exact Hx.
Qed.

Lemma inv_deliver : forall s c, Inv s -> Inv (fst (deliver s c)).
Proof.
  intros s c HI. unfold deliver.
  destruct (take_first c (inflight s)) as [[e r]|] eqn:Ht; [|exact HI].
  destruct (take_first_split _ _ _ _ Ht) as [l1 [l2 [Hl Hr]]].
  destruct HI as [H1 H2 H3 H4 H5 H6 H7 H8 H9].
  constructor; simpl; try assumption.
  intros c1 e1 [Hin|Hin].
  - apply H9. left. rewrite Hl. subst r. apply in_app_or in Hin. apply in_or_app.
    destruct Hin as [Hin|Hin]; [left; exact Hin | right; right; exact Hin].
  - apply in_app_or in Hin. destruct Hin as [Hin|[Hin|[]]].
    + apply H9. right. exact Hin.
    + inversion Hin; subst c1 e1. apply H9. left. rewrite Hl. apply in_or_app. right. left. reflexivity.
Qed.

Lemma inv_close_flag : forall s, Inv s -> Inv (fst (close_flag s)).
Proof.
  intros s HI. unfold close_flag. destruct (closed s) eqn:Hcl; [exact HI|].
  destruct HI as [H1 H2 H3 H4 H5 H6 H7 H8 H9].
  constructor; simpl; try assumption.
  - intros c Hin. right. right. reflexivity.
  - reflexivity.
  - discriminate.
Qed.

Lemma inv_close_clear : forall s, Inv s -> Inv (fst (close_clear s)).
Proof.
  intros s HI. unfold close_clear. destruct (closing s) eqn:Hcg; [|exact HI]. cbn [negb].
  destruct HI as [H1 H2 H3 H4 H5 H6 H7 H8 H9].
  assert (Hcl : closed s = true) by (apply H7; exact Hcg).
  destruct (cache s) eqn:Hca; constructor; simpl; try assumption;
    try (intros; right; right; exact Hcl); try discriminate;
    try (intros Hf; congruence); try (intros x []); try constructor.
Qed.

Lemma del_sub_props : forall c l l', del_sub c l = Some l' -> NoDup (map fst l) ->
  NoDup (map fst l') /\ incl l' l /\ (forall c1, c1 <> c -> In c1 (map fst l) -> In c1 (map fst l')).
Proof.
  intros c l l' Hd Hn. destruct (del_sub_spec _ _ _ Hd) as [l1 [x [l2 [Hl [Hx Hp]]]]]. subst l.
  split; [|split].
  - apply Permutation_NoDup with (map fst (l1 ++ l2)).
    + apply Permutation_map. apply Permutation_sym. exact Hp.
    + rewrite map_app in *. cbn [map] in Hn. eapply NoDup_remove_1. exact Hn.
  - intros y Hy. apply (Permutation_in _ Hp) in Hy. apply in_app_or in Hy. apply in_or_app.
    destruct Hy as [Hy|Hy]; [left; exact Hy | right; right; exact Hy].
  - intros c1 Hne Hin. apply (Permutation_in _ (Permutation_map fst (Permutation_sym Hp))).
    rewrite map_app in *. cbn [map] in Hin. apply in_app_or in Hin. apply in_or_app.
    destruct Hin as [Hin|[Hin|Hin]]; [left; exact Hin | congruence | right; exact Hin].
Qed.

Lemma inv_delete : forall s c, Inv s -> Inv (fst (delete s c)).
Proof.
  intros s c HI. unfold delete.
  destruct (memn c (pending s)) eqn:Hp; [|exact HI]. cbn [negb]. apply memn_In in Hp.
  destruct HI as [H1 H2 H3 H4 H5 H6 H7 H8 H9].
  destruct (remove_first_NoDup c _ H6) as [Hn1 Hn2].
  assert (Hs1 : Inv (set_pending s (remove_first c (pending s)))).
  { constructor; simpl; try assumption.
    - intros x Hx. apply H5. eapply remove_first_In. exact Hx.
    - intros Hcl c1 Hin. apply H8; [exact Hcl|]. eapply remove_first_In. exact Hin. }
  destruct (closed s) eqn:Hcl; [exact Hs1|].
  destruct (del_sub c (subs s)) as [l|] eqn:Hd; [|exact Hs1].
  destruct (del_sub_props _ _ _ Hd H1) as [Ha [Hb Hc]].
  constructor; simpl; rewrite ?Hcl; try assumption.
  - intros x Hx. apply H2. apply Hb. exact Hx.
  - intros c1 Hin. destruct (Nat.eq_dec c1 c) as [He|He].
    + subst c1. right. left. apply H5. exact Hp.
    + destruct (H4 c1 Hin) as [Hx|[Hx|Hx]]; [left; apply Hc; assumption | right; left; exact Hx | right; right; exact Hx].
  - intros x Hx. apply H5. eapply remove_first_In. exact Hx.
  - intros _ c1 Hin. apply Hc.
    + intros He. subst c1. tauto.
    + apply H8; [reflexivity|]. eapply remove_first_In. exact Hin.
Qed.

Lemma inv_step : forall s a, Inv s -> Inv (fst (step s a)).
Proof.
  intros s a HI. destruct a; cbn [step].
  - apply inv_put; exact HI.
  - apply inv_subscribe; exact HI.
  - apply inv_cache_pred; exact HI.
  - apply inv_release; exact HI.
  - apply inv_close_consumer; exact HI.
  - apply inv_delete; exact HI.
  - apply inv_deliver; exact HI.
  - apply inv_close_flag; exact HI.
  - apply inv_close_clear; exact HI.
Qed.

Lemma run_app : forall tr1 tr2 s, run s (tr1 ++ tr2) = run (run s tr1) tr2.
Proof. intros. unfold run. apply fold_left_app. Qed.

Lemma run_cons : forall a tr s, run s (a :: tr) = run (fst (step s a)) tr.
Proof. reflexivity. Qed.

Lemma inv_run : forall tr s, Inv s -> Inv (run s tr).
Proof.
  induction tr as [|a tr IH]; intros s HI; [exact HI|].
  rewrite run_cons. apply IH. apply inv_step. exact HI.
Qed.

Lemma inv_reach : forall tr, Inv (run init tr).
Proof. intros. apply inv_run. apply inv_init. Qed.

(* the delete goroutine never hits log.Panic("deleted consumer that was not subscribed") *)
Lemma delete_no_panic : forall tr c, snd (step (run init tr) (ADelete c)) <> OPanic.
Proof.
  intros tr c. pose proof (inv_reach tr) as HI. set (s := run init tr) in *.
  cbn [step]. unfold delete.
  destruct (memn c (pending s)) eqn:Hp; cbn [negb snd]; [|discriminate]. apply memn_In in Hp.
  destruct (closed s) eqn:Hcl; [cbn [snd]; discriminate|].
  pose proof (i_pending_subs _ HI Hcl c Hp) as Hin.
  pose proof (del_sub_some _ _ Hin) as Hd.
  destruct (del_sub c (subs s)); [cbn [snd]; discriminate | congruence].
Qed.

(* ------------------------------------------------------------------ where an envelope is *)

Definition inC (e : env) (s : state) := cnt e (cache s).
Definition inF (e : env) (s : state) := cnt e (map snd (inflight s)).
Definition inD (e : env) (s : state) := cnt e (map snd (dlog s)).
Definition inH (e : env) (s : state) := cnt e (hlog s).
Definition inX (e : env) (s : state) := cnt e (flushed s).

Lemma cnt_cons : forall e x l, cnt e (x :: l) = (if env_dec x e then 1 else 0) + cnt e l.
Proof. intros. unfold cnt. cbn [count_occ]. destruct (env_dec x e); reflexivity. Qed.

Lemma cntp_cons : forall y x l, cntp y (x :: l) = (if pe_dec x y then 1 else 0) + cntp y l.
Proof. intros. unfold cntp. cbn [count_occ]. destruct (pe_dec x y); reflexivity. Qed.

Lemma cntp_le : forall c e l, cntp (c, e) l <= cnt e (map snd l).
Proof.
  intros c e l. induction l as [|[c1 e1] l IH]; [apply Nat.le_refl|].
  cbn [map snd]. rewrite cntp_cons, cnt_cons.
  destruct (pe_dec (c1, e1) (c, e)) as [H|H]; destruct (env_dec e1 e) as [H'|H']; try lia.
  inversion H. congruence.
Qed.

Lemma cntp_pair_map : forall c e l, cntp (c, e) (map (fun m => (c, m)) l) = cnt e l.
Proof.
  intros c e l. induction l as [|x l IH]; [reflexivity|].
  cbn [map]. rewrite cntp_cons, cnt_cons, IH.
  destruct (pe_dec (c, x) (c, e)) as [H|H]; destruct (env_dec x e) as [H'|H']; try reflexivity.
  - inversion H. congruence.
  - subst. congruence.
Qed.

Lemma cnt_all_other : forall e e' l, (forall x, In x l -> x = e') -> e' <> e -> cnt e l = 0.
Proof.
  intros e e' l H Hne. apply cnt_zero_not_in. intros Hin. apply H in Hin. congruence.
Qed.

Lemma cnt_snd_all_other : forall e e' (l : list (cid * env)),
  (forall x, In x l -> snd x = e') -> e' <> e -> cnt e (map snd l) = 0.
Proof.
  intros e e' l H Hne. apply cnt_zero_not_in. intros Hin. apply in_map_iff in Hin.
  destruct Hin as [x [Hx Hin]]. apply H in Hin. congruence.
Qed.

Lemma cnt_filter_true : forall e (p : pred) l, p e = true -> cnt e (filter (fun m => negb (p m)) l) = 0.
Proof.
  intros e p l Hp. apply cnt_zero_not_in. intros Hin. apply filter_In in Hin. destruct Hin as [_ Hn].
  rewrite Hp in Hn. discriminate.
Qed.

Lemma cnt_filter_false : forall e (p : pred) l, p e = false -> cnt e (filter p l) = 0.
Proof.
  intros e p l Hp. apply cnt_zero_not_in. intros Hin. apply filter_In in Hin. destruct Hin as [_ Hn].
  congruence.
Qed.

(* ------------------------------------------------------------------ effect of one action on the logs *)

Inductive eff (s s' : state) : action -> Prop :=
| EffSame a :
    cache s' = cache s -> inflight s' = inflight s -> dlog s' = dlog s -> hlog s' = hlog s ->
    flushed s' = flushed s -> shist s' = shist s -> eff s s' a
| EffPut e c1 d1 h1 :
    cache s' = cache s ++ c1 -> inflight s' = inflight s -> dlog s' = dlog s ++ d1 -> hlog s' = hlog s ++ h1 ->
    flushed s' = flushed s -> shist s' = shist s ->
    (forall x, In x c1 -> x = e) -> (forall x, In x d1 -> snd x = e) -> (forall x, In x h1 -> x = e) ->
    eff s s' (APut e)
| EffSub c p :
    cache s' = filter (fun m => negb (p m)) (cache s) ->
    inflight s' = inflight s ++ map (fun m => (c, m)) (filter p (cache s)) ->
    dlog s' = dlog s -> hlog s' = hlog s -> flushed s' = flushed s -> shist s' = shist s ++ [(c, p)] ->
    eff s s' (ASubscribe c p)
| EffDeliver c e l1 l2 :
    cache s' = cache s -> inflight s = l1 ++ (c, e) :: l2 -> inflight s' = l1 ++ l2 ->
    dlog s' = dlog s ++ [(c, e)] -> hlog s' = hlog s -> flushed s' = flushed s -> shist s' = shist s ->
    eff s s' (ADeliver c)
| EffFlush :
    cache s' = [] -> inflight s' = inflight s -> dlog s' = dlog s -> hlog s' = hlog s ->
    flushed s' = flushed s ++ cache s -> shist s' = shist s -> eff s s' ACloseClear.

Lemma step_eff : forall s a, eff s (fst (step s a)) a.
Proof.
  intros s a. destruct a; cbn [step].
  - unfold put. destruct (closed s); [apply EffSame; reflexivity|].
    destruct (matching s e) as [|c0 tos] eqn:Hm.
    + destruct (cache_matches s e).
      * apply EffPut with (c1 := [e]) (d1 := []) (h1 := []); simpl; try reflexivity;
          try (symmetry; apply app_nil_r); try (intros ? Hf; simpl in Hf; contradiction); intros x [Hx|[]]; congruence.
      * apply EffPut with (c1 := []) (d1 := []) (h1 := [e]); simpl; try reflexivity;
          try (symmetry; apply app_nil_r); try (intros ? Hf; simpl in Hf; contradiction); intros x [Hx|[]]; congruence.
    + apply EffPut with (c1 := []) (d1 := map (fun c => (c, e)) (c0 :: tos)) (h1 := []); simpl; try reflexivity;
        try (symmetry; apply app_nil_r); try (intros ? Hf; simpl in Hf; contradiction).
      intros x Hx. destruct Hx as [Hx|Hx]; [subst x; reflexivity|].
      apply in_map_iff in Hx. destruct Hx as [y [Hy _]]. subst x. reflexivity.
  - unfold subscribe. destruct (closed s); [apply EffSame; reflexivity|].
    destruct (memn c (map fst (subs s))); [apply EffSame; reflexivity|].
    destruct (memn c (cclosed s)); [apply EffSame; reflexivity|].
    apply EffSub; reflexivity.
  - unfold cache_pred. destruct (closed s); [apply EffSame; reflexivity|].
    destruct (memn k (map fst (cpreds s))); apply EffSame; reflexivity.
  - apply EffSame; reflexivity.
  - unfold close_consumer. destruct (memn c (cclosed s)); [apply EffSame; reflexivity|].
    destruct (memn c (map fst (shist s))); apply EffSame; reflexivity.
  - unfold delete. destruct (negb (memn c (pending s))); [apply EffSame; reflexivity|].
    destruct (closed s); [apply EffSame; reflexivity|].
    destruct (del_sub c (subs s)); apply EffSame; reflexivity.
  - unfold deliver. destruct (take_first c (inflight s)) as [[e r]|] eqn:Ht; [|apply EffSame; reflexivity].
    destruct (take_first_split _ _ _ _ Ht) as [l1 [l2 [Hl Hr]]].
    apply EffDeliver with (e := e) (l1 := l1) (l2 := l2); simpl; try reflexivity; assumption.
  - unfold close_flag. destruct (closed s); apply EffSame; reflexivity.
  - unfold close_clear. destruct (negb (closing s)); [apply EffSame; reflexivity|].
    destruct (cache s) eqn:Hc.
    + apply EffSame; reflexivity.
    + apply EffFlush; simpl; try reflexivity. rewrite Hc. reflexivity.
Qed.

(* ------------------------------------------------------------------ an envelope that is neither cached nor in flight stays where it is *)

Definition quiet (e : env) (s : state) : Prop := inC e s = 0 /\ inF e s = 0.

Definition same_logs (e : env) (s s' : state) : Prop :=
  (forall c, cntp (c, e) (dlog s') = cntp (c, e) (dlog s)) /\ inD e s' = inD e s /\
  inH e s' = inH e s /\ inX e s' = inX e s.

Lemma eff_quiet : forall e s s' a, eff s s' a -> a <> APut e -> quiet e s -> quiet e s' /\ same_logs e s s'.
Proof.
  intros e s s' a He Hne [Hc Hf]. unfold quiet, same_logs, inC, inF, inD, inH, inX in *.
  destruct He as [a H1 H2 H3 H4 H5 H6 | e' c1 d1 h1 H1 H2 H3 H4 H5 H6 Hc1 Hd1 Hh1 | c p H1 H2 H3 H4 H5 H6
                 | c e1 l1 l2 H1 H2 H2' H3 H4 H5 H6 | H1 H2 H3 H4 H5 H6].
  - rewrite H1, H2, H3, H4, H5. repeat split; auto.
  - assert (Hee : e' <> e) by congruence.
    rewrite H1, H2, H3, H4, H5. rewrite !map_app, !cnt_app.
    rewrite (cnt_all_other e e' c1 Hc1 Hee), (cnt_all_other e e' h1 Hh1 Hee), (cnt_snd_all_other e e' d1 Hd1 Hee).
    repeat split; try lia. intros c. rewrite cntp_app.
    pose proof (cntp_le c e d1). rewrite (cnt_snd_all_other e e' d1 Hd1 Hee) in H. lia.
  - rewrite H1, H2, H3, H4, H5. rewrite map_app, cnt_app, map_snd_pair.
    pose proof (cnt_filter_split e p (cache s)). repeat split; try lia; auto.
  - rewrite H1, H2', H3, H4, H5. rewrite H2 in Hf. rewrite !map_app, !cnt_app in *. cbn [map snd] in *.
    rewrite cnt_cons in Hf. destruct (env_dec e1 e) as [Heq|Heq]; [lia|].
    repeat split; try lia.
    + intros c0. rewrite cntp_app, cntp_cons. destruct (pe_dec (c, e1) (c0, e)) as [Hq|Hq]; [inversion Hq; congruence|].
      change (cntp (c0, e) []) with 0. lia.
    + rewrite cnt_cons. destruct (env_dec e1 e); [congruence|]. change (cnt e []) with 0. lia.
  - rewrite H1, H2, H3, H4, H5. rewrite cnt_app. repeat split; try lia; auto.
Qed.

Lemma run_quiet : forall e tr s, ~ In (APut e) tr -> quiet e s -> quiet e (run s tr) /\ same_logs e s (run s tr).
Proof.
  intros e tr. induction tr as [|a tr IH]; intros s Hn Hq.
  - split; [exact Hq|]. unfold same_logs. repeat split; reflexivity.
  - rewrite run_cons. cbn [In] in Hn.
    assert (Hne : a <> APut e) by (intros Heq; apply Hn; left; exact Heq).
    destruct (eff_quiet e s _ a (step_eff s a) Hne Hq) as [Hq' Hs'].
    assert (Hn' : ~ In (APut e) tr) by tauto.
    destruct (IH (fst (step s a)) Hn' Hq') as [Hq'' Hs''].
    split; [exact Hq''|]. destruct Hs' as [A1 [A2 [A3 A4]]]. destruct Hs'' as [B1 [B2 [B3 B4]]].
    unfold same_logs. repeat split; try congruence.
Qed.

(* ------------------------------------------------------------------ following a cached envelope *)

Definition rejects (e : env) (l : list (cid * pred)) : Prop := forall c p, In (c, p) l -> p e = false.

(* h0 = the successful subscriptions before the put *)
Inductive tracked (e : env) (h0 : list (cid * pred)) (s : state) : Prop :=
| TrCached mid :
    shist s = h0 ++ mid -> rejects e mid ->
    inC e s = 1 -> inF e s = 0 -> inD e s = 0 -> inH e s = 0 -> inX e s = 0 -> tracked e h0 s
| TrTaken mid c p rest :
    shist s = h0 ++ mid ++ (c, p) :: rest -> rejects e mid -> p e = true ->
    inC e s = 0 -> inH e s = 0 -> inX e s = 0 ->
    inF e s + inD e s = 1 -> cntp (c, e) (inflight s) + cntp (c, e) (dlog s) = 1 -> tracked e h0 s
| TrFlushed :
    inC e s = 0 -> inF e s = 0 -> inD e s = 0 -> inH e s = 0 -> inX e s = 1 -> tracked e h0 s.

Lemma rejects_snoc : forall e mid c (p : pred), rejects e mid -> p e = false -> rejects e (mid ++ [(c, p)]).
Proof.
  intros e mid c p Hr Hp c1 p1 Hin. apply in_app_or in Hin. destruct Hin as [Hin|[Hin|[]]].
  - eapply Hr; exact Hin.
  - inversion Hin; subst. exact Hp.
Qed.

Lemma eff_tracked : forall e h0 s s' a, eff s s' a -> a <> APut e -> tracked e h0 s -> tracked e h0 s'.
Proof.
  intros e h0 s s' a He Hne Ht.
  destruct Ht as [mid Hh Hrej HC HF HD HH HX | mid c p rest Hh Hrej Hp HC HH HX HFD Hcp | HC HF HD HH HX].
  - (* still in the cache *)
    unfold inC, inF, inD, inH, inX in *.
    destruct He as [a H1 H2 H3 H4 H5 H6 | e' c1 d1 h1 H1 H2 H3 H4 H5 H6 Hc1 Hd1 Hh1 | c p H1 H2 H3 H4 H5 H6
                   | c e1 l1 l2 H1 H2 H2' H3 H4 H5 H6 | H1 H2 H3 H4 H5 H6].
    + apply TrCached with mid; unfold inC, inF, inD, inH, inX; rewrite ?H1, ?H2, ?H3, ?H4, ?H5, ?H6; assumption.
    + assert (Hee : e' <> e) by congruence.
      apply TrCached with mid; unfold inC, inF, inD, inH, inX; rewrite ?H1, ?H2, ?H3, ?H4, ?H5, ?H6; try assumption;
        rewrite ?map_app, ?cnt_app, ?(cnt_all_other e e' c1 Hc1 Hee), ?(cnt_all_other e e' h1 Hh1 Hee), ?(cnt_snd_all_other e e' d1 Hd1 Hee); lia.
    + pose proof (cnt_filter_split e p (cache s)) as Hsp. destruct (p e) eqn:Hpe.
      * pose proof (cnt_filter_true e p (cache s) Hpe) as Hz.
        apply TrTaken with mid c p []; unfold inC, inF, inD, inH, inX; rewrite ?H1, ?H2, ?H3, ?H4, ?H5, ?H6; try assumption.
        -- rewrite Hh. rewrite <- app_assoc. reflexivity.
        -- rewrite map_app, cnt_app, map_snd_pair. lia.
        -- rewrite cntp_app, cntp_pair_map.
           pose proof (cntp_le c e (inflight s)). pose proof (cntp_le c e (dlog s)). lia.
      * pose proof (cnt_filter_false e p (cache s) Hpe) as Hz.
        apply TrCached with (mid ++ [(c, p)]); unfold inC, inF, inD, inH, inX; rewrite ?H1, ?H2, ?H3, ?H4, ?H5, ?H6; try assumption.
        -- rewrite Hh. rewrite <- app_assoc. reflexivity.
        -- apply rejects_snoc; assumption.
        -- lia.
        -- rewrite map_app, cnt_app, map_snd_pair. lia.
    + rewrite H2 in HF. rewrite map_app, cnt_app in HF. cbn [map snd] in HF. rewrite cnt_cons in HF.
      destruct (env_dec e1 e) as [Heq|Heq]; [lia|].
      apply TrCached with mid; unfold inC, inF, inD, inH, inX; rewrite ?H1, ?H2', ?H3, ?H4, ?H5, ?H6; try assumption.
      * rewrite map_app, cnt_app. lia.
      * rewrite map_app, cnt_app. cbn [map snd]. rewrite cnt_cons. destruct (env_dec e1 e); [congruence|].
        change (cnt e []) with 0. lia.
    + apply TrFlushed; unfold inC, inF, inD, inH, inX; rewrite ?H1, ?H2, ?H3, ?H4, ?H5, ?H6; try assumption.
      * reflexivity.
      * rewrite cnt_app. lia.
  - (* taken by the subscription of c *)
    unfold inC, inF, inD, inH, inX in *.
    destruct He as [a H1 H2 H3 H4 H5 H6 | e' c1 d1 h1 H1 H2 H3 H4 H5 H6 Hc1 Hd1 Hh1 | c' p' H1 H2 H3 H4 H5 H6
                   | c' e1 l1 l2 H1 H2 H2' H3 H4 H5 H6 | H1 H2 H3 H4 H5 H6].
    + apply TrTaken with mid c p rest; unfold inC, inF, inD, inH, inX; rewrite ?H1, ?H2, ?H3, ?H4, ?H5, ?H6; assumption.
    + assert (Hee : e' <> e) by congruence.
      pose proof (cntp_le c e d1) as Hle. rewrite (cnt_snd_all_other e e' d1 Hd1 Hee) in Hle.
      apply TrTaken with mid c p rest; unfold inC, inF, inD, inH, inX; rewrite ?H1, ?H2, ?H3, ?H4, ?H5, ?H6; try assumption;
        rewrite ?map_app, ?cnt_app, ?cntp_app, ?(cnt_all_other e e' c1 Hc1 Hee), ?(cnt_all_other e e' h1 Hh1 Hee), ?(cnt_snd_all_other e e' d1 Hd1 Hee); lia.
    + pose proof (cnt_filter_split e p' (cache s)) as Hsp.
      pose proof (cntp_le c e (map (fun m => (c', m)) (filter p' (cache s)))) as Hle. rewrite map_snd_pair in Hle.
      apply TrTaken with mid c p (rest ++ [(c', p')]); unfold inC, inF, inD, inH, inX; rewrite ?H1, ?H2, ?H3, ?H4, ?H5, ?H6; try assumption.
      * rewrite Hh. rewrite <- !app_assoc. reflexivity.
      * lia.
      * rewrite map_app, cnt_app, map_snd_pair. lia.
      * rewrite cntp_app. lia.
    + rewrite H2 in HFD, Hcp. rewrite map_app, cnt_app in HFD. cbn [map snd] in HFD. rewrite cnt_cons in HFD.
      rewrite cntp_app, cntp_cons in Hcp.
      apply TrTaken with mid c p rest; unfold inC, inF, inD, inH, inX; rewrite ?H1, ?H2', ?H3, ?H4, ?H5, ?H6; try assumption.
      * rewrite !map_app, !cnt_app. cbn [map snd]. rewrite cnt_cons. change (cnt e []) with 0. lia.
      * rewrite !cntp_app, cntp_cons. change (cntp (c, e) []) with 0. lia.
    + apply TrTaken with mid c p rest; unfold inC, inF, inD, inH, inX; rewrite ?H1, ?H2, ?H3, ?H4, ?H5, ?H6; try assumption.
      * reflexivity.
      * rewrite cnt_app. lia.
  - (* flushed by Close *)
    destruct (eff_quiet e s s' a He Hne (conj HC HF)) as [[Q1 Q2] [_ [Q3 [Q4 Q5]]]].
    apply TrFlushed; congruence.
Qed.

Lemma run_tracked : forall e h0 tr s, ~ In (APut e) tr -> tracked e h0 s -> tracked e h0 (run s tr).
Proof.
  intros e h0 tr. induction tr as [|a tr IH]; intros s Hn Ht; [exact Ht|].
  rewrite run_cons. cbn [In] in Hn. apply IH; [tauto|].
  apply eff_tracked with s a; [apply step_eff | intros Heq; apply Hn; left; exact Heq | exact Ht].
Qed.

(* ------------------------------------------------------------------ the property *)

Definition fresh (e : env) (tr : list action) : Prop := ~ In (APut e) tr.

Definition nowhere (e : env) (s : state) : Prop :=
  inC e s = 0 /\ inF e s = 0 /\ inD e s = 0 /\ inH e s = 0 /\ inX e s = 0.

Lemma inD_zero_cntp : forall e s, inD e s = 0 -> forall c, cntp (c, e) (dlog s) = 0.
Proof. intros e s H c. pose proof (cntp_le c e (dlog s)). unfold inD in H. lia. Qed.

Lemma fresh_nowhere : forall e tr, fresh e tr -> nowhere e (run init tr).
Proof.
  intros e tr Hf.
  destruct (run_quiet e tr init Hf) as [[Q1 Q2] [_ [Q3 [Q4 Q5]]]]; [split; reflexivity|].
  unfold nowhere. repeat split; assumption.
Qed.

Lemma NoDup_map_filter : forall {A B} (f : A -> B) (p : A -> bool) l, NoDup (map f l) -> NoDup (map f (filter p l)).
Proof.
  intros A B f p l. induction l as [|x l IH]; intros H; [constructor|].
  cbn [map] in H. inversion H; subst. cbn [filter]. destruct (p x).
  - cbn [map]. constructor; [|apply IH; assumption].
    intros Hin. apply H2. apply in_map_iff in Hin. destruct Hin as [y [Hy Hin]]. apply filter_In in Hin.
    apply in_map_iff. exists y. tauto.
  - apply IH; assumption.
Qed.

Lemma cntp_fan : forall c e l, NoDup l ->
  cntp (c, e) (map (fun c' => (c', e)) l) = if memn c l then 1 else 0.
Proof.
  intros c e l. induction l as [|x l IH]; intros Hn; [reflexivity|].
  inversion Hn; subst. cbn [map]. rewrite cntp_cons, (IH H2).
  unfold memn. cbn [existsb]. fold (memn c l).
  destruct (pe_dec (x, e) (c, e)) as [Heq|Hne].
  - inversion Heq; subst x. rewrite Nat.eqb_refl. cbn [orb].
    destruct (memn c l) eqn:Hm; [apply memn_In in Hm; tauto | reflexivity].
  - destruct (Nat.eqb c x) eqn:Hcx; [apply Nat.eqb_eq in Hcx; subst; congruence|]. reflexivity.
Qed.

Lemma run_put_split : forall tr1 e tr2, run init (tr1 ++ APut e :: tr2) = run (fst (put (run init tr1) e)) tr2.
Proof. intros. rewrite run_app. reflexivity. Qed.

(* fan-out: exactly once to each consumer subscribed with a matching predicate at that moment,
   to nobody else, neither cached nor handled by default *)
Lemma put_fanout : forall tr1 e tr2,
  fresh e tr1 -> fresh e tr2 ->
  let s1 := run init tr1 in
  let s2 := run init (tr1 ++ APut e :: tr2) in
  closed s1 = false -> matching s1 e <> [] ->
  (forall c, cntp (c, e) (dlog s2) = if memn c (matching s1 e) then 1 else 0) /\
  inC e s2 = 0 /\ inF e s2 = 0 /\ inH e s2 = 0 /\ inX e s2 = 0.
Proof.
  intros tr1 e tr2 Hf1 Hf2 s1 s2 Hcl Hm. subst s2. rewrite run_put_split. fold s1.
  destruct (fresh_nowhere e tr1 Hf1) as [N1 [N2 [N3 [N4 N5]]]]. fold s1 in N1, N2, N3, N4, N5.
  pose proof (inv_reach tr1) as HI. fold s1 in HI.
  assert (Hnd : NoDup (matching s1 e)) by (unfold matching; apply NoDup_map_filter; apply (i_nodup_subs _ HI)).
  set (s1' := fst (put s1 e)).
  assert (Hs1' : cache s1' = cache s1 /\ inflight s1' = inflight s1 /\ hlog s1' = hlog s1 /\ flushed s1' = flushed s1 /\
                 dlog s1' = dlog s1 ++ map (fun c => (c, e)) (matching s1 e)).
  { subst s1'. unfold put. rewrite Hcl. destruct (matching s1 e) eqn:Hmm; [congruence|]. simpl. repeat split; reflexivity. }
  destruct Hs1' as [E1 [E2 [E3 [E4 E5]]]].
  assert (Hq : quiet e s1') by (unfold quiet, inC, inF; rewrite E1, E2; split; assumption).
  destruct (run_quiet e tr2 s1' Hf2 Hq) as [[Q1 Q2] [Q3 [_ [Q4 Q5]]]].
  repeat split; try assumption.
  - intros c. rewrite Q3, E5, cntp_app, (cntp_fan c e _ Hnd), (inD_zero_cntp e s1 N3 c). reflexivity.
  - rewrite Q4. unfold inH. rewrite E3. exact N4.
  - rewrite Q5. unfold inX. rewrite E4. exact N5.
Qed.

(* default handler: exactly once, nowhere else *)
Lemma put_default : forall tr1 e tr2,
  fresh e tr1 -> fresh e tr2 ->
  let s1 := run init tr1 in
  let s2 := run init (tr1 ++ APut e :: tr2) in
  closed s1 = false -> matching s1 e = [] -> cache_matches s1 e = false ->
  inH e s2 = 1 /\ inC e s2 = 0 /\ inF e s2 = 0 /\ inX e s2 = 0 /\ (forall c, cntp (c, e) (dlog s2) = 0).
Proof.
  intros tr1 e tr2 Hf1 Hf2 s1 s2 Hcl Hm Hc. subst s2. rewrite run_put_split. fold s1.
  destruct (fresh_nowhere e tr1 Hf1) as [N1 [N2 [N3 [N4 N5]]]]. fold s1 in N1, N2, N3, N4, N5.
  set (s1' := fst (put s1 e)).
  assert (Hs1' : cache s1' = cache s1 /\ inflight s1' = inflight s1 /\ hlog s1' = hlog s1 ++ [e] /\ flushed s1' = flushed s1 /\
                 dlog s1' = dlog s1).
  { subst s1'. unfold put. rewrite Hcl, Hm, Hc. simpl. repeat split; reflexivity. }
  destruct Hs1' as [E1 [E2 [E3 [E4 E5]]]].
  assert (Hq : quiet e s1') by (unfold quiet, inC, inF; rewrite E1, E2; split; assumption).
  destruct (run_quiet e tr2 s1' Hf2 Hq) as [[Q1 Q2] [Q3 [_ [Q4 Q5]]]].
  repeat split; try assumption.
  - rewrite Q4. unfold inH in *. rewrite E3, cnt_app, cnt_cons, N4. destruct (env_dec e e); [reflexivity | congruence].
  - rewrite Q5. unfold inX. rewrite E4. exact N5.
  - intros c. rewrite Q3, E5. apply inD_zero_cntp. exact N3.
Qed.

(* put into a closed relay: dropped *)
Lemma put_closed : forall tr1 e tr2,
  fresh e tr1 -> fresh e tr2 ->
  let s1 := run init tr1 in
  let s2 := run init (tr1 ++ APut e :: tr2) in
  closed s1 = true -> nowhere e s2.
Proof.
  intros tr1 e tr2 Hf1 Hf2 s1 s2 Hcl. subst s2. rewrite run_put_split. fold s1.
  destruct (fresh_nowhere e tr1 Hf1) as [N1 [N2 [N3 [N4 N5]]]]. fold s1 in N1, N2, N3, N4, N5.
  assert (Hp : fst (put s1 e) = s1) by (unfold put; rewrite Hcl; reflexivity). rewrite Hp.
  destruct (run_quiet e tr2 s1 Hf2 (conj N1 N2)) as [[Q1 Q2] [_ [Q3 [Q4 Q5]]]].
  unfold nowhere. repeat split; congruence.
Qed.

(* cache: kept, then handed exactly once to the first later subscriber with a matching predicate *)
Lemma put_cached_tracked : forall tr1 e tr2,
  fresh e tr1 -> fresh e tr2 ->
  let s1 := run init tr1 in
  let s2 := run init (tr1 ++ APut e :: tr2) in
  closed s1 = false -> matching s1 e = [] -> cache_matches s1 e = true ->
  tracked e (shist s1) s2.
Proof.
  intros tr1 e tr2 Hf1 Hf2 s1 s2 Hcl Hm Hc. subst s2. rewrite run_put_split. fold s1.
  destruct (fresh_nowhere e tr1 Hf1) as [N1 [N2 [N3 [N4 N5]]]]. fold s1 in N1, N2, N3, N4, N5.
  apply run_tracked; [exact Hf2|].
  unfold put. rewrite Hcl, Hm, Hc. cbn [fst].
  apply TrCached with (mid := []); unfold inC, inF, inD, inH, inX in *; simpl; try assumption.
  - symmetry. apply app_nil_r.
  - intros c p [].
  - rewrite cnt_app, cnt_cons, N1. destruct (env_dec e e); [reflexivity | congruence].
Qed.

Lemma cntp_two : forall c c' e l, c <> c' -> cntp (c, e) l + cntp (c', e) l <= cnt e (map snd l).
Proof.
  intros c c' e l Hne. induction l as [|[c1 e1] l IH]; [apply Nat.le_refl|].
  cbn [map snd]. rewrite !cntp_cons, cnt_cons.
  destruct (pe_dec (c1, e1) (c, e)) as [H|H]; destruct (pe_dec (c1, e1) (c', e)) as [H'|H'];
    destruct (env_dec e1 e) as [H''|H'']; try lia; exfalso;
    repeat match goal with Hq : (_, _) = (_, _) |- _ => inversion Hq; clear Hq end; congruence.
Qed.

Definition cached_outcome (e : env) (h0 : list (cid * pred)) (s : state) : Prop :=
  inH e s = 0 /\
  ( (* still in the cache, every subscription since the put rejected it *)
    (inC e s = 1 /\ inF e s = 0 /\ inD e s = 0 /\ inX e s = 0 /\
     exists mid, shist s = h0 ++ mid /\ rejects e mid)
    \/ (* taken by the first later subscription with a matching predicate: in flight or handed over, once, to it alone *)
    (exists mid c p rest, shist s = h0 ++ mid ++ (c, p) :: rest /\ rejects e mid /\ p e = true /\
       inC e s = 0 /\ inX e s = 0 /\
       forall c', cntp (c', e) (inflight s) + cntp (c', e) (dlog s) = if Nat.eqb c' c then 1 else 0)
    \/ (* still cached when the relay was closed: dropped by Close, which reports it *)
    (inX e s = 1 /\ inC e s = 0 /\ inF e s = 0 /\ inD e s = 0) ).

Lemma tracked_outcome : forall e h0 s, tracked e h0 s -> cached_outcome e h0 s.
Proof.
  intros e h0 s Ht. unfold cached_outcome.
  destruct Ht as [mid Hh Hrej HC HF HD HH HX | mid c p rest Hh Hrej Hp HC HH HX HFD Hcp | HC HF HD HH HX].
  - split; [exact HH|]. left. repeat split; try assumption. exists mid. split; assumption.
  - split; [exact HH|]. right. left. exists mid, c, p, rest. repeat split; try assumption.
    intros c'. destruct (Nat.eqb c' c) eqn:Hcc.
    + apply Nat.eqb_eq in Hcc. subst c'. exact Hcp.
    + apply Nat.eqb_neq in Hcc.
      pose proof (cntp_two c' c e (inflight s) Hcc). pose proof (cntp_two c' c e (dlog s) Hcc).
      unfold inF, inD in HFD. lia.
  - split; [exact HH|]. right. right. repeat split; assumption.
Qed.

Lemma put_cached : forall tr1 e tr2,
  fresh e tr1 -> fresh e tr2 ->
  let s1 := run init tr1 in
  let s2 := run init (tr1 ++ APut e :: tr2) in
  closed s1 = false -> matching s1 e = [] -> cache_matches s1 e = true ->
  cached_outcome e (shist s1) s2.
Proof. intros. apply tracked_outcome. apply put_cached_tracked; assumption. Qed.

(* never to a consumer whose predicate rejects it; only to consumers that subscribed *)
Lemma never_rejecting : forall tr c p e,
  let s := run init tr in
  In (c, p) (shist s) -> p e = false -> ~ In (c, e) (dlog s) /\ ~ In (c, e) (inflight s).
Proof.
  intros tr c p e s Hin Hp. pose proof (inv_reach tr) as HI. fold s in HI.
  assert (H : forall q, In (c, q) (shist s) -> q = p).
  { intros q Hq. pose proof (i_nodup_hist _ HI) as Hn.
    clear - Hq Hin Hn. induction (shist s) as [|[c1 p1] l IH]; [destruct Hin|].
    cbn [map fst] in Hn. inversion Hn; subst. destruct Hin as [Hin|Hin]; destruct Hq as [Hq|Hq].
    - congruence.
    - inversion Hin; subst. exfalso. apply H1. apply in_map_iff. exists (c, q). split; [reflexivity | exact Hq].
    - inversion Hq; subst. exfalso. apply H1. apply in_map_iff. exists (c, p). split; [reflexivity | exact Hin].
    - apply IH; assumption. }
  split; intros Hd.
  - destruct (i_match _ HI c e (or_intror Hd)) as [q [Hq1 Hq2]]. rewrite (H q Hq1) in Hq2. congruence.
  - destruct (i_match _ HI c e (or_introl Hd)) as [q [Hq1 Hq2]]. rewrite (H q Hq1) in Hq2. congruence.
Qed.

Lemma only_subscribers : forall tr c e,
  let s := run init tr in In (c, e) (dlog s) -> exists p, In (c, p) (shist s) /\ p e = true.
Proof.
  intros tr c e s Hd. apply (i_match _ (inv_reach tr)). right. exact Hd.
Qed.

(* ------------------------------------------------------------------ no duplicates, for every trace that puts each envelope once *)

Definition puts (tr : list action) : list env :=
  flat_map (fun a => match a with APut e => [e] | _ => [] end) tr.

Lemma puts_app : forall t1 t2, puts (t1 ++ t2) = puts t1 ++ puts t2.
Proof. intros. unfold puts. apply flat_map_app. Qed.

Lemma puts_in : forall e tr, In (APut e) tr <-> In e (puts tr).
Proof.
  intros e tr. unfold puts. rewrite in_flat_map. split.
  - intros H. exists (APut e). split; [exact H | left; reflexivity].
  - intros [a [Ha Hin]]. destruct a; cbn [In] in Hin; try contradiction.
    destruct Hin as [Hin|[]]. subst. exact Ha.
Qed.

Lemma puts_split : forall tr e, NoDup (puts tr) -> In (APut e) tr ->
  exists tr1 tr2, tr = tr1 ++ APut e :: tr2 /\ fresh e tr1 /\ fresh e tr2.
Proof.
  intros tr e Hn Hin. destruct (in_split _ _ Hin) as [tr1 [tr2 Ht]]. exists tr1, tr2. split; [exact Ht|].
  subst tr. rewrite puts_app in Hn. cbn [puts flat_map] in Hn. fold (puts tr2) in Hn. cbn [app] in Hn.
  apply NoDup_remove_2 in Hn. unfold fresh. rewrite !puts_in. split; intros H; apply Hn; apply in_or_app; tauto.
Qed.

Lemma at_most_once : forall tr e, NoDup (puts tr) ->
  let s := run init tr in
  (forall c, cntp (c, e) (dlog s) <= 1) /\ inH e s <= 1 /\
  (inH e s = 1 -> forall c, cntp (c, e) (dlog s) = 0).
Proof.
  intros tr e Hn s.
  destruct (in_dec env_dec e (puts tr)) as [Hin|Hnin].
  - apply puts_in in Hin. destruct (puts_split tr e Hn Hin) as [tr1 [tr2 [Ht [Hf1 Hf2]]]].
    subst s. rewrite Ht. set (s1 := run init tr1). set (s2 := run init (tr1 ++ APut e :: tr2)).
    destruct (closed s1) eqn:Hcl.
    + destruct (put_closed tr1 e tr2 Hf1 Hf2 Hcl) as [N1 [N2 [N3 [N4 N5]]]]. fold s2 in N1, N2, N3, N4, N5.
      pose proof (inD_zero_cntp e s2 N3) as Hz. repeat split.
      * intros c. rewrite Hz. lia.
      * lia.
      * intros _. exact Hz.
    + destruct (matching s1 e) as [|c0 tos] eqn:Hm.
      * destruct (cache_matches s1 e) eqn:Hc.
        -- destruct (put_cached tr1 e tr2 Hf1 Hf2 Hcl Hm Hc) as [HH Hd]. fold s1 s2 in HH, Hd.
           repeat split; [| lia | intros; lia].
           intros c. destruct Hd as [[_ [_ [HD _]]] | [[mid [c1 [p [rest [_ [_ [_ [_ [_ Hc1]]]]]]]]] | [_ [_ [_ HD]]]]].
           ++ rewrite (inD_zero_cntp e s2 HD). lia.
           ++ specialize (Hc1 c). destruct (Nat.eqb c c1); lia.
           ++ rewrite (inD_zero_cntp e s2 HD). lia.
        -- destruct (put_default tr1 e tr2 Hf1 Hf2 Hcl Hm Hc) as [HH [_ [_ [_ Hz]]]]. fold s2 in HH, Hz.
           repeat split; [intros c; rewrite Hz; lia | lia | intros _; exact Hz].
      * assert (Hne : matching s1 e <> []) by (rewrite Hm; discriminate).
        destruct (put_fanout tr1 e tr2 Hf1 Hf2 Hcl Hne) as [Hz [_ [_ [HH _]]]]. fold s1 s2 in Hz, HH.
        repeat split; [| lia | intros; lia].
        intros c. rewrite Hz. destruct (memn c (matching s1 e)); lia.
  - assert (Hf : fresh e tr) by (unfold fresh; rewrite puts_in; exact Hnin).
    destruct (fresh_nowhere e tr Hf) as [N1 [N2 [N3 [N4 N5]]]]. fold s in N1, N2, N3, N4, N5.
    pose proof (inD_zero_cntp e s N3) as Hz.
    repeat split; [intros c; rewrite Hz; lia | lia | intros _; exact Hz].
Qed.

(* ------------------------------------------------------------------ the finer model *)

Definition lost_update_schedule : list faction :=
  [ FWriter (ACache 0 (tagset [4]));
    FBegin 1 (4, 1); FBegin 2 (4, 2);     (* two producers, both hold the read lock *)
    FRead 1; FRead 2;                     (* both read the same slice *)
    FWrite 1; FWrite 2;                   (* the second write overwrites the first *)
    FRead 2; FWrite 2 ].                  (* (only enabled under the cache mutex: thread 2 had to wait) *)

(* the code before the repair: append under the read lock only *)
Lemma finer_refuted :
  let f := frun false finit lost_update_schedule in
  threads f = [] /\ closed (base f) = false /\ cache (base f) = [(4, 2)] /\ nowhere (4, 1) (base f).
Proof. vm_compute. repeat split; reflexivity. Qed.

(* the repaired code on the same schedule *)
Lemma finer_mutex_keeps_both :
  let f := frun true finit lost_update_schedule in
  threads f = [] /\ cache (base f) = [(4, 1); (4, 2)].
Proof. vm_compute. split; reflexivity. Qed.

(* ------------------------------------------------------------------ examples (non-vacuity) *)

Definition ex_tr1 : list action :=
  [ ASubscribe 0 (tagset [1; 2]); ASubscribe 1 (tagset [2; 3]); ACache 0 (tagset [4; 5]); APut (4, 100);
    ASubscribe 2 (tagset [1]); ACloseConsumer 2; ADelete 2 ].
Definition ex_tr2 : list action :=
  [ APut (1, 101); ACloseConsumer 0; APut (2, 102); ADelete 0; APut (2, 103);
    ASubscribe 3 (tagset [0]); ASubscribe 4 (tagset [4; 2]); ASubscribe 5 (tagset [4]); ADeliver 4;
    ARelease 0; APut (5, 104); ACloseFlag; ACloseClear ].

Lemma ex_fanout :
  fresh (2, 7) ex_tr1 /\ fresh (2, 7) ex_tr2 /\ closed (run init ex_tr1) = false /\
  matching (run init ex_tr1) (2, 7) = [0; 1] /\
  dlog (run init (ex_tr1 ++ APut (2, 7) :: ex_tr2)) =
    [(0, (2, 7)); (1, (2, 7)); (0, (1, 101)); (0, (2, 102)); (1, (2, 102)); (1, (2, 103)); (4, (4, 100))].
Proof.
  unfold fresh. repeat split; try (vm_compute; reflexivity);
    intros H; cbn [ex_tr1 ex_tr2 In] in H; repeat (destruct H as [H|H]; try discriminate); exact H.
Qed.

Lemma ex_cached :
  fresh (5, 7) ex_tr1 /\ fresh (5, 7) ex_tr2 /\ closed (run init ex_tr1) = false /\
  matching (run init ex_tr1) (5, 7) = [] /\ cache_matches (run init ex_tr1) (5, 7) = true /\
  flushed (run init (ex_tr1 ++ APut (5, 7) :: ex_tr2)) = [(5, 7)].
Proof.
  unfold fresh. repeat split; try (vm_compute; reflexivity);
    intros H; cbn [ex_tr1 ex_tr2 In] in H; repeat (destruct H as [H|H]; try discriminate); exact H.
Qed.

(* the envelope (4,100) of ex_tr1 itself: cached, rejected by consumers 2 and 3, handed to 4, not to 5 *)
Lemma ex_cached_handed :
  let tr1 := firstn 3 ex_tr1 in let tr2 := skipn 4 ex_tr1 ++ ex_tr2 in
  fresh (4, 100) tr1 /\ fresh (4, 100) tr2 /\ closed (run init tr1) = false /\
  matching (run init tr1) (4, 100) = [] /\ cache_matches (run init tr1) (4, 100) = true /\
  map fst (shist (run init (tr1 ++ APut (4, 100) :: tr2))) = [0; 1; 2; 3; 4; 5] /\
  filter (fun x => env_eqb (snd x) (4, 100)) (dlog (run init (tr1 ++ APut (4, 100) :: tr2))) = [(4, (4, 100))].
Proof.
  unfold fresh. repeat split; try (vm_compute; reflexivity);
    intros H; vm_compute in H; repeat (destruct H as [H|H]; try discriminate); exact H.
Qed.

Lemma ex_default :
  fresh (0, 7) ex_tr1 /\ fresh (0, 7) ex_tr2 /\ closed (run init ex_tr1) = false /\
  matching (run init ex_tr1) (0, 7) = [] /\ cache_matches (run init ex_tr1) (0, 7) = false /\
  hlog (run init (ex_tr1 ++ APut (0, 7) :: ex_tr2)) = [(0, 7); (5, 104)].
Proof.
  unfold fresh. repeat split; try (vm_compute; reflexivity);
    intros H; cbn [ex_tr1 ex_tr2 In] in H; repeat (destruct H as [H|H]; try discriminate); exact H.
Qed.

Lemma ex_nodup_puts : NoDup (puts (ex_tr1 ++ APut (2, 7) :: ex_tr2)) /\ length (puts (ex_tr1 ++ APut (2, 7) :: ex_tr2)) = 6.
Proof.
  split; [|reflexivity]. vm_compute.
  repeat (constructor; [cbn [In]; intros H; repeat (destruct H as [H|H]; try discriminate); exact H|]). constructor.
Qed.

Lemma ex_delete_enabled :
  snd (step (run init (firstn 6 ex_tr1)) (ADelete 2)) = OD /\
  length (subs (run init (firstn 6 ex_tr1))) = 3 /\ length (subs (run init ex_tr1)) = 2.
Proof. vm_compute. repeat split; reflexivity. Qed.

Lemma ex_never_rejecting :
  In (0, tagset [1; 2]) (shist (run init ex_tr1)) /\ tagset [1; 2] (4, 100) = false.
Proof. split; [left; reflexivity | reflexivity]. Qed.

(* ------------------------------------------------------------------ the finer model with the cache mutex (repaired code) *)

Definition tid (x : nat * env * phase) : nat := fst (fst x).
Definition tenv (x : nat * env * phase) : env := snd (fst x).

Lemma find_thread_in : forall t l e ph, find_thread t l = Some (e, ph) -> In (t, e, ph) l.
Proof.
  intros t l. induction l as [|[[t' e'] ph'] l IH]; intros e ph H; [discriminate|].
  cbn [find_thread] in H. destruct (Nat.eqb t' t) eqn:Ht.
  - apply Nat.eqb_eq in Ht. inversion H; subst. left. reflexivity.
  - right. apply IH. exact H.
Qed.

Lemma find_thread_none : forall t l, find_thread t l = None -> ~ In t (map tid l).
Proof.
  intros t l. induction l as [|[[t' e'] ph'] l IH]; intros H; [intros []|].
  cbn [find_thread] in H. destruct (Nat.eqb t' t) eqn:Ht; [discriminate|]. apply Nat.eqb_neq in Ht.
  cbn [map In tid fst]. intros [Hx|Hx]; [congruence | apply IH; assumption].
Qed.

Lemma find_thread_nodup : forall t l e ph, NoDup (map tid l) -> In (t, e, ph) l -> find_thread t l = Some (e, ph).
Proof.
  intros t l. induction l as [|[[t' e'] ph'] l IH]; intros e ph Hn Hin; [destruct Hin|].
  cbn [map tid fst] in Hn. inversion Hn; subst. cbn [find_thread]. destruct Hin as [Hin|Hin].
  - inversion Hin; subst. rewrite Nat.eqb_refl. reflexivity.
  - destruct (Nat.eqb t' t) eqn:Ht.
    + apply Nat.eqb_eq in Ht. subst t'. exfalso. apply H1. apply in_map_iff. exists (t, e, ph). split; [reflexivity | exact Hin].
    + apply IH; assumption.
Qed.

Lemma drop_thread_in : forall t l x, In x (drop_thread t l) <-> In x l /\ tid x <> t.
Proof.
  intros t l x. unfold drop_thread. rewrite filter_In. unfold tid.
  destruct (Nat.eqb (fst (fst x)) t) eqn:H; cbn [negb].
  - apply Nat.eqb_eq in H. split; [intros [_ Hf]; discriminate | intros [_ Hf]; congruence].
  - apply Nat.eqb_neq in H. tauto.
Qed.

Lemma drop_thread_nodup : forall t l, NoDup (map tid l) -> NoDup (map tid (drop_thread t l)) /\ ~ In t (map tid (drop_thread t l)).
Proof.
  intros t l Hn. split.
  - unfold drop_thread. apply NoDup_map_filter. exact Hn.
  - intros Hin. apply in_map_iff in Hin. destruct Hin as [x [Hx Hin]]. apply drop_thread_in in Hin. tauto.
Qed.

Record FInv (f : fstate) : Prop := mkFInv {
  fi_nodup : NoDup (map tid (threads f));
  fi_seen : forall t e seen, In (t, e, PhRead seen) (threads f) -> seen = cache (base f);
  fi_one : forall x y, In x (threads f) -> In y (threads f) ->
             holds_cache_mutex x = true -> holds_cache_mutex y = true -> x = y
}.

Lemma finv_init : FInv finit.
Proof. constructor; cbn; [constructor | intros ? ? ? [] | intros ? ? []]. Qed.

(* actions that do not take the write lock leave the cache alone *)
Lemma lockfree_cache : forall s a, needs_write_lock a = false -> (forall e, a <> APut e) ->
  cache (fst (step s a)) = cache s.
Proof.
  intros s a Hn Hp. destruct a; try discriminate; cbn [step].
  - exfalso. eapply Hp. reflexivity.
  - unfold close_consumer. destruct (memn c (cclosed s)); [reflexivity|].
    destruct (memn c (map fst (shist s))); reflexivity.
  - unfold deliver. destruct (take_first c (inflight s)) as [[e r]|]; reflexivity.
  - unfold close_flag. destruct (closed s); reflexivity.
Qed.

Lemma put_cache_unchanged : forall s e, (matching s e <> [] \/ cache_matches s e = false) ->
  cache (fst (put s e)) = cache s.
Proof.
  intros s e H. unfold put. destruct (closed s); [reflexivity|].
  destruct (matching s e) eqn:Hm.
  - destruct H as [H|H]; [congruence|]. rewrite H. reflexivity.
  - reflexivity.
Qed.

Lemma holds_false_of_none : forall l, existsb holds_cache_mutex l = false -> forall x, In x l -> holds_cache_mutex x = false.
Proof.
  intros l H x Hin. destruct (holds_cache_mutex x) eqn:Hx; [|reflexivity].
  assert (existsb holds_cache_mutex l = true) by (apply existsb_exists; exists x; split; assumption). congruence.
Qed.

Lemma finv_step : forall f a, FInv f -> FInv (fstep true f a).
Proof.
  intros f a [H1 H2 H3]. destruct a as [t e | t | t | a]; cbn [fstep].
  - (* FBegin *)
    destruct (find_thread t (threads f)) eqn:Hft; [constructor; assumption|].
    destruct (closed (base f)) eqn:Hcl; [constructor; assumption|].
    destruct (matching (base f) e) eqn:Hm.
    + destruct (cache_matches (base f) e) eqn:Hc.
      * constructor; cbn [threads base].
        -- rewrite map_app. cbn [map tid fst]. apply NoDup_snoc; [exact H1 | apply find_thread_none; exact Hft].
        -- intros t0 e0 seen Hin. apply in_app_or in Hin. destruct Hin as [Hin|[Hin|[]]]; [eapply H2; exact Hin | discriminate].
        -- intros x y Hx Hy Hhx Hhy. apply in_app_or in Hx. apply in_app_or in Hy.
           destruct Hx as [Hx|[Hx|[]]]; [|subst x; discriminate].
           destruct Hy as [Hy|[Hy|[]]]; [|subst y; discriminate]. apply H3; assumption.
      * assert (Hca : cache (fst (put (base f) e)) = cache (base f)) by (apply put_cache_unchanged; right; exact Hc).
        constructor; cbn [threads base]; try assumption. intros t0 e0 seen Hin. rewrite Hca. eapply H2; exact Hin.
    + assert (Hca : cache (fst (put (base f) e)) = cache (base f)) by (apply put_cache_unchanged; left; rewrite Hm; discriminate).
      constructor; cbn [threads base]; try assumption. intros t0 e0 seen Hin. rewrite Hca. eapply H2; exact Hin.
  - (* FRead *)
    destruct (find_thread t (threads f)) as [[e [|seen]]|] eqn:Hft; try (constructor; assumption).
    cbn [andb]. destruct (existsb holds_cache_mutex (threads f)) eqn:Hex; [constructor; assumption|].
    pose proof (holds_false_of_none _ Hex) as Hnone.
    destruct (drop_thread_nodup t _ H1) as [Hd1 Hd2].
    constructor; cbn [threads base].
    + rewrite map_app. cbn [map tid fst]. apply NoDup_snoc; assumption.
    + intros t0 e0 seen Hin. apply in_app_or in Hin. destruct Hin as [Hin|[Hin|[]]].
      * apply drop_thread_in in Hin. eapply H2. apply Hin.
      * inversion Hin; subst. reflexivity.
    + intros x y Hx Hy Hhx Hhy. apply in_app_or in Hx. apply in_app_or in Hy.
      destruct Hx as [Hx|[Hx|[]]]; [apply drop_thread_in in Hx; rewrite (Hnone x) in Hhx; [discriminate | tauto]|].
      destruct Hy as [Hy|[Hy|[]]]; [apply drop_thread_in in Hy; rewrite (Hnone y) in Hhy; [discriminate | tauto]|].
      congruence.
  - (* FWrite *)
    destruct (find_thread t (threads f)) as [[e [|seen]]|] eqn:Hft; try (constructor; assumption).
    apply find_thread_in in Hft.
    destruct (drop_thread_nodup t _ H1) as [Hd1 Hd2].
    assert (Hno : forall y, In y (drop_thread t (threads f)) -> holds_cache_mutex y = false).
    { intros y Hy. apply drop_thread_in in Hy. destruct Hy as [Hy Hne].
      destruct (holds_cache_mutex y) eqn:Hh; [|reflexivity]. exfalso. apply Hne.
      rewrite <- (H3 (t, e, PhRead seen) y Hft Hy eq_refl Hh). reflexivity. }
    constructor; cbn [threads base].
    + exact Hd1.
    + intros t0 e0 seen0 Hin. apply Hno in Hin. discriminate.
    + intros x y Hx Hy Hhx Hhy. apply Hno in Hx. congruence.
  - (* FWriter *)
    destruct a; try (constructor; assumption);
    match goal with
    | |- FInv (if ?b then _ else _) => destruct b eqn:Hb; [constructor; assumption|]
    end.
    all: destruct (threads f) as [|x l] eqn:Hth;
      [ constructor; cbn [threads base]; rewrite ?Hth; [constructor | intros ? ? ? [] | intros ? ? []] | ].
    all: cbn [needs_write_lock andb negb] in Hb; try discriminate.
    all: constructor; cbn [threads base]; rewrite ?Hth; try assumption.
    all: intros t0 e0 seen Hin; rewrite lockfree_cache; [eapply H2; exact Hin | reflexivity | intros; discriminate].
Qed.

Lemma eff_nowhere : forall e s s' a, eff s s' a -> a <> APut e -> nowhere e s -> nowhere e s'.
Proof.
  intros e s s' a He Hne [N1 [N2 [N3 [N4 N5]]]].
  destruct (eff_quiet e s s' a He Hne (conj N1 N2)) as [[Q1 Q2] [_ [Q3 [Q4 Q5]]]].
  unfold nowhere. repeat split; congruence.
Qed.

Lemma eff_shist : forall s s' a, eff s s' a -> (forall c p, a <> ASubscribe c p) -> shist s' = shist s.
Proof.
  intros s s' a He Hn. destruct He; try assumption. exfalso. eapply Hn. reflexivity.
Qed.

(* every step of the finer model (with the mutex) acts on the relay state like one coarse action;
   it is a put of e only if it is the FBegin of e or the FWrite of a thread carrying e *)
Lemma fstep_eff : forall f a, FInv f ->
  exists a', eff (base f) (base (fstep true f a)) a' /\
    (forall c p, a' = ASubscribe c p -> threads f = []) /\
    (forall e, a' = APut e -> (exists t, a = FBegin t e) \/ (exists t ph, a = FWrite t /\ In (t, e, ph) (threads f))).
Proof.
  intros f a HF.
  assert (Hsame : forall s, exists a', eff s s a' /\ (forall c p, a' = ASubscribe c p -> threads f = []) /\
            (forall e, a' = APut e -> (exists t, a = FBegin t e) \/ (exists t ph, a = FWrite t /\ In (t, e, ph) (threads f)))).
  { intros s. exists ACloseFlag. split; [apply EffSame; reflexivity|]. split; intros; discriminate. }
  destruct a as [t e | t | t | a]; cbn [fstep].
  - destruct (find_thread t (threads f)); [apply Hsame|].
    destruct (closed (base f)); [apply Hsame|].
    assert (Hput : exists a', eff (base f) (fst (put (base f) e)) a' /\ (forall c p, a' = ASubscribe c p -> threads f = []) /\
            (forall e0, a' = APut e0 -> (exists t0, FBegin t e = FBegin t0 e0) \/ (exists t0 ph, FBegin t e = FWrite t0 /\ In (t0, e0, ph) (threads f)))).
    { exists (APut e). split; [apply (step_eff (base f) (APut e))|]. split; [intros; discriminate|].
      intros e0 Heq. inversion Heq; subst. left. exists t. reflexivity. }
    destruct (matching (base f) e); [|exact Hput].
    destruct (cache_matches (base f) e); [apply Hsame | exact Hput].
  - destruct (find_thread t (threads f)) as [[e [|seen]]|]; try apply Hsame.
    destruct (true && existsb holds_cache_mutex (threads f)); apply Hsame.
  - destruct (find_thread t (threads f)) as [[e [|seen]]|] eqn:Hft; try apply Hsame.
    apply find_thread_in in Hft. pose proof (fi_seen _ HF _ _ _ Hft) as Hseen. subst seen.
    exists (APut e). split; [|split; [intros; discriminate|]].
    + apply EffPut with (c1 := [e]) (d1 := []) (h1 := []); simpl; try reflexivity;
        try (symmetry; apply app_nil_r); try (intros ? Hf; simpl in Hf; contradiction).
      intros x [Hx|[]]. congruence.
    + intros e0 Heq. inversion Heq; subst. right. exists t, (PhRead (cache (base f))). split; [reflexivity | exact Hft].
  - destruct a; try apply Hsame;
    match goal with
    | |- context [if ?b then _ else _] => destruct b eqn:Hb; [apply Hsame|]
    end; cbn [base].
    all: match goal with
         | |- context [step (base ?g) ?a0] => exists a0; split; [apply step_eff|]; split; [|intros; discriminate]
         end.
    all: intros c0 p0 Heq; try discriminate.
    cbn [needs_write_lock andb] in Hb. destruct (threads f); [reflexivity | discriminate].
Qed.

(* following the envelope of thread t through the finer model *)
Definition in_progress (e : env) (t : nat) (h0 : list (cid * pred)) (f : fstate) : Prop :=
  (exists ph, In (t, e, ph) (threads f)) /\ nowhere e (base f) /\ shist (base f) = h0 /\
  (forall x, In x (threads f) -> tid x <> t -> tenv x <> e).

Definition completed (e : env) (h0 : list (cid * pred)) (f : fstate) : Prop :=
  (forall x, In x (threads f) -> tenv x <> e) /\ tracked e h0 (base f).

Lemma threads_fstep_env : forall f a e, FInv f -> (forall t, a <> FBegin t e) ->
  forall x, In x (threads (fstep true f a)) -> tenv x = e -> exists y, In y (threads f) /\ tid y = tid x /\ tenv y = e.
Proof.
  intros f a e HF Hne x Hin Hx. destruct a as [t e1 | t | t | a]; cbn [fstep] in Hin.
  - destruct (find_thread t (threads f)); [exists x; auto|].
    destruct (closed (base f)); [exists x; auto|].
    destruct (matching (base f) e1); [|exists x; auto].
    destruct (cache_matches (base f) e1); [|exists x; auto].
    cbn [threads] in Hin. apply in_app_or in Hin. destruct Hin as [Hin|[Hin|[]]]; [exists x; auto|].
    subst x. cbn [tenv fst snd] in Hx. subst e1. exfalso. eapply Hne. reflexivity.
  - destruct (find_thread t (threads f)) as [[e1 [|seen]]|] eqn:Hft; try (exists x; auto; fail).
    destruct (true && existsb holds_cache_mutex (threads f)); [exists x; auto|].
    cbn [threads] in Hin. apply in_app_or in Hin. destruct Hin as [Hin|[Hin|[]]].
    + apply drop_thread_in in Hin. exists x. tauto.
    + subst x. apply find_thread_in in Hft. exists (t, e1, PhWantCache). auto.
  - destruct (find_thread t (threads f)) as [[e1 [|seen]]|] eqn:Hft; try (exists x; auto; fail).
    cbn [threads] in Hin. apply drop_thread_in in Hin. exists x. tauto.
  - destruct a; try (exists x; auto; fail);
    match type of Hin with
    | context [if ?b then _ else _] => destruct b; exists x; auto
    end.
Qed.

Lemma completed_step : forall e h0 f a, FInv f -> (forall t, a <> FBegin t e) ->
  completed e h0 f -> completed e h0 (fstep true f a).
Proof.
  intros e h0 f a HF Hne [Hth Htr]. split.
  - intros x Hin Hx. destruct (threads_fstep_env f a e HF Hne x Hin Hx) as [y [Hy [_ Hye]]].
    apply (Hth y Hy Hye).
  - destruct (fstep_eff f a HF) as [a' [He [_ Hlab]]].
    apply eff_tracked with (base f) a'; [exact He | | exact Htr].
    intros Heq. destruct (Hlab e Heq) as [[t Ht]|[t [ph [_ Hin]]]].
    + eapply Hne. exact Ht.
    + apply (Hth _ Hin). reflexivity.
Qed.

Lemma absent_step : forall e f a, FInv f -> (forall t, a <> FBegin t e) ->
  (forall x, In x (threads f) -> tenv x <> e) /\ nowhere e (base f) ->
  (forall x, In x (threads (fstep true f a)) -> tenv x <> e) /\ nowhere e (base (fstep true f a)).
Proof.
  intros e f a HF Hne [Hth Hno]. split.
  - intros x Hin Hx. destruct (threads_fstep_env f a e HF Hne x Hin Hx) as [y [Hy [_ Hye]]].
    apply (Hth y Hy Hye).
  - destruct (fstep_eff f a HF) as [a' [He [_ Hlab]]].
    apply eff_nowhere with (base f) a'; [exact He | | exact Hno].
    intros Heq. destruct (Hlab e Heq) as [[t Ht]|[t [ph [_ Hin]]]].
    + eapply Hne. exact Ht.
    + apply (Hth _ Hin). reflexivity.
Qed.

Lemma in_progress_step : forall e t h0 f a, FInv f -> (forall t', a <> FBegin t' e) ->
  in_progress e t h0 f -> in_progress e t h0 (fstep true f a) \/ completed e h0 (fstep true f a).
Proof.
  intros e t h0 f a HF Hne [[ph Hin] [Hno [Hsh Hoth]]].
  pose proof (fi_nodup _ HF) as Hnd.
  pose proof (find_thread_nodup _ _ _ _ Hnd Hin) as Hft.
  (* is this the write of thread t itself? *)
  destruct (match a with FWrite t' => Nat.eqb t' t | _ => false end) eqn:Hw.
  - destruct a as [| | t' |]; try discriminate. apply Nat.eqb_eq in Hw. subst t'.
    cbn [fstep]. rewrite Hft. destruct ph as [|seen].
    + left. split; [exists PhWantCache; exact Hin|]. split; [exact Hno|]. split; [exact Hsh | exact Hoth].
    + right. pose proof (fi_seen _ HF _ _ _ Hin) as Hs. subst seen. split.
      * cbn [threads]. intros x Hx Hxe. apply drop_thread_in in Hx. destruct Hx as [Hx Hxt]. apply (Hoth x Hx Hxt Hxe).
      * cbn [base]. destruct Hno as [N1 [N2 [N3 [N4 N5]]]].
        apply TrCached with (mid := []); unfold inC, inF, inD, inH, inX in *; simpl; try assumption.
        -- rewrite app_nil_r. exact Hsh.
        -- intros c p [].
        -- rewrite cnt_app, cnt_cons, N1. destruct (env_dec e e); [reflexivity | congruence].
  - (* any other step: thread t stays, e stays nowhere, no subscription can happen *)
    left.
    destruct (fstep_eff f a HF) as [a' [He [Hsub Hlab]]].
    assert (Ha' : a' <> APut e).
    { intros Heq. destruct (Hlab e Heq) as [[t0 Ht0]|[t0 [ph0 [Ha Hin0]]]].
      - eapply Hne. exact Ht0.
      - subst a. destruct (Nat.eq_dec t0 t) as [Htt|Htt]; [subst; rewrite Nat.eqb_refl in Hw; discriminate|].
        apply (Hoth _ Hin0 Htt). reflexivity. }
    assert (Hth : (exists ph', In (t, e, ph') (threads (fstep true f a))) /\
                  (forall x, In x (threads (fstep true f a)) -> tid x <> t -> tenv x <> e)).
    { split.
      - destruct a as [t1 e1 | t1 | t1 | a1]; cbn [fstep].
        + destruct (find_thread t1 (threads f)); [exists ph; exact Hin|].
          destruct (closed (base f)); [exists ph; exact Hin|].
          destruct (matching (base f) e1); [|exists ph; exact Hin].
          destruct (cache_matches (base f) e1); [|exists ph; exact Hin].
          exists ph. cbn [threads]. apply in_or_app. left. exact Hin.
        + destruct (find_thread t1 (threads f)) as [[e1 [|seen]]|] eqn:Hft1; try (exists ph; exact Hin).
          destruct (true && existsb holds_cache_mutex (threads f)); [exists ph; exact Hin|].
          cbn [threads]. destruct (Nat.eq_dec t1 t) as [Htt|Htt].
          * subst t1. rewrite Hft in Hft1. inversion Hft1; subst. exists (PhRead (cache (base f))).
            apply in_or_app. right. left. reflexivity.
          * exists ph. apply in_or_app. left. apply drop_thread_in. split; [exact Hin | cbn [tid fst]; congruence].
        + destruct (find_thread t1 (threads f)) as [[e1 [|seen]]|] eqn:Hft1; try (exists ph; exact Hin).
          cbn [threads]. exists ph. apply drop_thread_in. split; [exact Hin|]. cbn [tid fst].
          intros Heq. subst t1. rewrite Nat.eqb_refl in Hw. discriminate.
        + destruct a1; try (exists ph; exact Hin);
          match goal with
          | |- context [if ?b then _ else _] => destruct b; exists ph; exact Hin
          end.
      - intros x Hx Hxt Hxe. destruct (threads_fstep_env f a e HF Hne x Hx Hxe) as [y [Hy [Hyt Hye]]].
        apply (Hoth y Hy); congruence. }
    destruct Hth as [Hth1 Hth2].
    split; [exact Hth1|]. split; [apply eff_nowhere with (base f) a'; assumption|]. split; [|exact Hth2].
    rewrite <- Hsh. apply eff_shist with a'; [exact He|].
    intros c p Heq. pose proof (Hsub c p Heq) as Hnil. rewrite Hnil in Hin. destruct Hin.
Qed.

Definition no_begin (e : env) (tr : list faction) : Prop := forall t, ~ In (FBegin t e) tr.

Lemma finv_run : forall tr f, FInv f -> FInv (frun true f tr).
Proof.
  induction tr as [|a tr IH]; intros f HF; [exact HF|]. cbn [frun fold_left]. apply IH. apply finv_step. exact HF.
Qed.

Lemma absent_run : forall e tr f, FInv f -> no_begin e tr ->
  (forall x, In x (threads f) -> tenv x <> e) /\ nowhere e (base f) ->
  (forall x, In x (threads (frun true f tr)) -> tenv x <> e) /\ nowhere e (base (frun true f tr)).
Proof.
  intros e tr. induction tr as [|a tr IH]; intros f HF Hn H; [exact H|].
  cbn [frun fold_left]. apply IH.
  - apply finv_step. exact HF.
  - intros t Hin. apply (Hn t). right. exact Hin.
  - apply absent_step; [exact HF | | exact H]. intros t Heq. apply (Hn t). left. exact Heq.
Qed.

Lemma completed_run : forall e h0 tr f, FInv f -> no_begin e tr -> completed e h0 f -> completed e h0 (frun true f tr).
Proof.
  intros e h0 tr. induction tr as [|a tr IH]; intros f HF Hn H; [exact H|].
  cbn [frun fold_left]. apply IH.
  - apply finv_step. exact HF.
  - intros t Hin. apply (Hn t). right. exact Hin.
  - apply completed_step; [exact HF | | exact H]. intros t Heq. apply (Hn t). left. exact Heq.
Qed.

Lemma in_progress_run : forall e t h0 tr f, FInv f -> no_begin e tr -> in_progress e t h0 f ->
  in_progress e t h0 (frun true f tr) \/ completed e h0 (frun true f tr).
Proof.
  intros e t h0 tr. induction tr as [|a tr IH]; intros f HF Hn H; [left; exact H|].
  cbn [frun fold_left].
  assert (Hn' : no_begin e tr) by (intros t0 Hin; apply (Hn t0); right; exact Hin).
  assert (Hne : forall t', a <> FBegin t' e) by (intros t' Heq; apply (Hn t'); left; exact Heq).
  destruct (in_progress_step e t h0 f a HF Hne H) as [Hp|Hc].
  - apply IH; [apply finv_step; exact HF | exact Hn' | exact Hp].
  - right. apply completed_run; [apply finv_step; exact HF | exact Hn' | exact Hc].
Qed.

(* The repaired code at the finer granularity: for every schedule of the finer model with the cache
   mutex, an envelope whose Put found the relay open, no matching subscriber and a matching cache
   predicate is either still being put (its thread has not returned, the envelope is nowhere yet), or it
   has exactly the outcome of the coarse theorem: nothing is lost, whatever the other producers do. *)
Lemma finer_mutex_cached : forall tr1 t e tr2,
  no_begin e tr1 -> no_begin e tr2 ->
  let f1 := frun true finit tr1 in
  let f2 := frun true f1 (FBegin t e :: tr2) in
  find_thread t (threads f1) = None ->
  closed (base f1) = false -> matching (base f1) e = [] -> cache_matches (base f1) e = true ->
  ((exists ph, In (t, e, ph) (threads f2)) /\ nowhere e (base f2)) \/
  cached_outcome e (shist (base f1)) (base f2).
Proof.
  intros tr1 t e tr2 Hn1 Hn2 f1 f2 Hft Hcl Hm Hc.
  pose proof (finv_run tr1 finit finv_init) as HF1. fold f1 in HF1.
  destruct (absent_run e tr1 finit finv_init Hn1) as [Hth Hno].
  { split; [intros x []|]. unfold nowhere. repeat split; reflexivity. }
  fold f1 in Hth, Hno.
  subst f2. cbn [frun fold_left]. fold (frun true (fstep true f1 (FBegin t e)) tr2).
  assert (Hstep : fstep true f1 (FBegin t e) = mkF (base f1) (threads f1 ++ [(t, e, PhWantCache)])).
  { cbn [fstep]. rewrite Hft, Hcl, Hm, Hc. reflexivity. }
  assert (HF1' : FInv (fstep true f1 (FBegin t e))) by (apply finv_step; exact HF1).
  assert (Hip : in_progress e t (shist (base f1)) (fstep true f1 (FBegin t e))).
  { rewrite Hstep. split; [exists PhWantCache; cbn [threads]; apply in_or_app; right; left; reflexivity|].
    cbn [base threads]. split; [exact Hno|]. split; [reflexivity|].
    intros x Hx Hxt Hxe. apply in_app_or in Hx. destruct Hx as [Hx|[Hx|[]]]; [apply (Hth x Hx Hxe)|].
    subst x. apply Hxt. reflexivity. }
  destruct (in_progress_run e t _ tr2 _ HF1' Hn2 Hip) as [[Hp [Hno2 _]]|[_ Htr]].
  - left. split; assumption.
  - right. apply tracked_outcome. exact Htr.
Qed.

Lemma ex_finer_mutex :
  let tr1 := [FWriter (ACache 0 (tagset [4])); FBegin 1 (4, 1); FRead 1] in
  let tr2 := [FBegin 3 (4, 3); FRead 2; FWrite 1; FRead 2; FWriter (ASubscribe 0 (tagset [4])); FWrite 2;
              FRead 3; FWrite 3; FWriter (ASubscribe 0 (tagset [4]));
              FWriter (ADeliver 0); FWriter (ADeliver 0); FWriter (ADeliver 0)] in
  no_begin (4, 2) tr1 /\ no_begin (4, 2) tr2 /\
  find_thread 2 (threads (frun true finit tr1)) = None /\ closed (base (frun true finit tr1)) = false /\
  matching (base (frun true finit tr1)) (4, 2) = [] /\ cache_matches (base (frun true finit tr1)) (4, 2) = true /\
  dlog (base (frun true finit (tr1 ++ FBegin 2 (4, 2) :: tr2))) = [(0, (4, 1)); (0, (4, 2)); (0, (4, 3))] /\
  threads (frun true finit (tr1 ++ FBegin 2 (4, 2) :: tr2)) = [].
Proof.
  unfold no_begin. repeat split; try (vm_compute; reflexivity);
    intros t H; cbn [In] in H; repeat (destruct H as [H|H]; try discriminate); exact H.
Qed.
