(* C17: a channel ID commits to the channel parameters (through its SHA-256 pre-image). *)
From Coq Require Import Arith PeanoNat ZifyN ZifyNat ZifyBool.
From V Require Import Model.Msgs Model.Machine Model.MachineSpec Proofs.WireP Proofs.ChannelP Proofs.CodecP
  Proofs.MachineP Proofs.C02P.
Open Scope N_scope.

(* the fields the ID depends on *)
Record idfields := mkIF { if_parts : list amap; if_nonce : Z; if_cd : N; if_app : option bytes;
                          if_ledger : bool; if_virtual : bool }.
Definition fields_of (p : params) : idfields :=
  mkIF (p_parts p) (p_nonce p) (p_cd p) (p_app p) (p_ledger p) (p_virtual p).
Definition enc_fields (f : idfields) : bytes :=
  enc_wamaps (if_parts f) ++ enc_bigint (if_nonce f) ++ enc_u64 (if_cd f) ++ enc_optapp (if_app f)
  ++ enc_bool (if_ledger f) ++ enc_bool (if_virtual f).
Lemma id_preimage_fields p : id_preimage p = enc_fields (fields_of p).
Proof. reflexivity. Qed.

(* a decoder for the pre-image (only used to derive injectivity) *)
Definition any_app : resolver := fun _ => Some KPay.
Definition dec_fields : prog idfields :=
  parts <- dec_wamaps ;; nonce <- dec_bigint ;; cd <- dec_u64 ;; app <- dec_optapp any_app ;;
  l <- dec_bool ;; v <- dec_bool ;; Ret (mkIF parts nonce cd (option_map fst app) l v).
Definition fields_wf (f : idfields) : bool :=
  forallb wamap_wf (if_parts f) && (len (if_parts f) <=? many_cap) && bigint_encodable (if_nonce f)
  && (if_cd f <? 18446744073709551616)
  && match if_app f with None => true | Some d => (length d =? addr_len)%nat end.

Lemma dec_fields_rt f rest : fields_wf f = true ->
  run_flat dec_fields (enc_fields f ++ rest) = Ok (f, rest).
Proof.
  unfold fields_wf. intro H. split_and.
  match goal with H : (_ <=? many_cap) = true |- _ => apply N.leb_le in H end.
  match goal with H : (if_cd f <? _) = true |- _ => apply N.ltb_lt in H end.
  unfold dec_fields, enc_fields. rewrite <- !app_assoc.
  rewrite run_flat_bind, dec_wamaps_rt by assumption.
  rewrite run_flat_bind, dec_bigint_rt by assumption.
  rewrite run_flat_bind, dec_u64_rt by assumption.
  rewrite run_flat_bind, dec_optapp_rt.
  2:{ destruct (if_app f) as [d|]; [|reflexivity]. apply andb_true_iff. split; [assumption|reflexivity]. }
  rewrite run_flat_bind, dec_bool_rt. rewrite run_flat_bind, dec_bool_rt.
  destruct f as [pa no cd ap le vi]; cbn [if_parts if_nonce if_cd if_app if_ledger if_virtual] in *.
  destruct ap; reflexivity.
Qed.

Lemma params_fields_wf rs p : params_wf rs p = true -> fields_wf (fields_of p) = true.
Proof.
  unfold params_wf, fields_wf, fields_of. cbn [if_parts if_nonce if_cd if_app]. intro H. split_and.
  match goal with H : new_params_ok p = true |- _ => unfold new_params_ok in H end. split_and.
  match goal with H : nonce_ok _ = true |- _ => apply nonce_ok_encodable in H; rename H into Hno end.
  match goal with H : (len (p_parts p) <=? MaxNumParts) = true |- _ => apply N.leb_le in H;
      unfold MaxNumParts, Generated.MaxNumParts in H; rename H into Hlen end.
  rewrite Hno. repeat (apply andb_true_iff; split); try assumption; try reflexivity.
  - apply N.leb_le. unfold many_cap. lia.
  - destruct (p_app p) as [d|]; [|reflexivity]. split_and. assumption.
Qed.

(* equal pre-images => equal challenge duration, participants (order included), app, nonce, flags *)
Lemma preimage_injective rs p q : params_wf rs p = true -> params_wf rs q = true ->
  id_preimage p = id_preimage q -> fields_of p = fields_of q.
Proof.
  intros Hp Hq E. rewrite !id_preimage_fields in E.
  apply (rt_injective dec_fields enc_fields (fun f => fields_wf f = true)); try assumption.
  - intros a r Ha. apply dec_fields_rt. exact Ha.
  - eapply params_fields_wf; exact Hp.
  - eapply params_fields_wf; exact Hq.
Qed.

(* the constraints NewParams enforces, spelled out *)
Lemma new_params_ok_iff p : new_params_ok p = true <->
  p_cd p <> 0 /\ MinNumParts <= len (p_parts p) /\ len (p_parts p) <= MaxNumParts
  /\ nonce_ok (p_nonce p) = true
  /\ Forall (fun m => m <> [] /\ Forall (fun e => fst e = 0%Z) m) (p_parts p).
Proof.
  unfold new_params_ok. rewrite !andb_true_iff, negb_true_iff, N.eqb_neq, !N.leb_le. split.
  - intros [[[[H1 H2] H3] H4] H5]. repeat split; auto.
    apply Forall_forall. intros m Hm. rewrite forallb_forall in H5. specialize (H5 m Hm).
    apply andb_true_iff in H5 as [H5 H6]. split.
    + intro E. subst m. discriminate H5.
    + apply Forall_forall. intros e He. rewrite forallb_forall in H6. specialize (H6 e He).
      unfold known_backend_z in H6. apply Z.eqb_eq. exact H6.
  - intros (H1 & H2 & H3 & H4 & H5). repeat split; auto.
    apply forallb_forall. intros m Hm. rewrite Forall_forall in H5. destruct (H5 m Hm) as [H6 H7].
    apply andb_true_iff. split.
    + destruct m; [elim H6; reflexivity|reflexivity].
    + apply forallb_forall. intros e He. rewrite Forall_forall in H7. unfold known_backend_z.
      apply Z.eqb_eq. apply H7. exact He.
Qed.

(* states created by a machine carry the ID of its parameters *)
Lemma machine_states_carry_id m o : is_success (snd (step m o)) = true ->
  match o with
  | OInit _ _ | OUpdate _ _ =>
      exists t, staging (fst (step m o)) = Some t /\ st_id (tx_st t) = mp_id (ps m)
  | _ => True
  end.
Proof.
  destruct o; try (intros; exact I); cbn [step]; break_match; cbn [snd fst is_success]; intro H;
    try discriminate H; try (exfalso; first [eapply vt_no_sig; eassumption | eapply avi_no_sig; eassumption]).
  - eexists. split; [reflexivity|]. cbn [new_tx tx_st].
    match goal with H : new_state m a d = Some _ |- _ => unfold new_state in H end.
    match goal with H : (if ?b then _ else _) = Some _ |- _ => destruct b; [|discriminate H]; injection H as <- end.
    reflexivity.
  - eexists. split; [reflexivity|]. cbn [new_tx tx_st].
    match goal with H : valid_transition m s actor = OK |- _ => unfold valid_transition in H; rename H into VT end.
    destruct (nparts m <=? actor); [discriminate VT|].
    destruct (current m) as [c|].
    + destruct (generic_valid m (tx_st c) s) eqn:G; [|discriminate VT].
      unfold generic_valid in G. split_and. apply bytes_eqb_eq. assumption.
    + destruct (bytes_eqb (st_id s) (mp_id (ps m)) && app_should_equal (mp_app (ps m)) (st_app s)); discriminate VT.
Qed.
