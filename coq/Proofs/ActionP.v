(* Theorems about the ActionMachine model (C09, C01 for channel/actionmachine.go). *)
From Coq Require Import Arith PeanoNat ZifyN ZifyNat ZifyBool.
From V Require Import Model.Machine Model.MachineSpec Model.ActionMachine Proofs.ChannelP Proofs.MachineP.
Open Scope N_scope.

(* ---------- an operation that fails changes nothing (machine AND staging actions) ---------- *)
Lemma astep_fail_noop s o : snd (astep s o) = ERR \/ snd (astep s o) = PANIC -> fst (astep s o) = s.
Proof.
  destruct s as [m a]. destruct o as [i c r | r | r | o]; unfold astep; cbn [am acts].
  - destruct (negb (phase_in (ph m) action_phases)); [reflexivity|].
    destruct (nth_error a (N.to_nat i)) as [[x|]|]; try reflexivity.
    destruct r; cbn [fst snd]; intros [H|H]; try reflexivity; discriminate H.
  - destruct (negb (expect m InitActing InitSigning)); [reflexivity|].
    destruct r as [[al d]| |]; try reflexivity.
    destruct (new_state m al d); cbn [fst snd]; intros [H|H]; try reflexivity; discriminate H.
  - destruct (negb (expect m Acting Signing)); [reflexivity|].
    destruct r; cbn [fst snd]; intros [H|H]; try reflexivity; discriminate H.
  - pose proof (step_fail_noop m (sop_op o)) as F.
    destruct (step m (sop_op o)) as [m' x]. cbn [fst snd] in *. intro H. rewrite (F H). reflexivity.
Qed.

(* ---------- success exactly under the documented precondition, and the documented effect ---------- *)
Lemma expect_IA m : expect m InitActing InitSigning = phase_eqb (ph m) InitActing.
Proof.
  unfold expect. destruct (phase_eqb (ph m) InitActing) eqn:E; [|reflexivity].
  assert (ph m = InitActing) as -> by (destruct (ph m); try reflexivity; discriminate E).
  rewrite tbl_doc. reflexivity.
Qed.
Lemma expect_AS m : expect m Acting Signing = phase_eqb (ph m) Acting.
Proof.
  unfold expect. destruct (phase_eqb (ph m) Acting) eqn:E; [|reflexivity].
  assert (ph m = Acting) as -> by (destruct (ph m); try reflexivity; discriminate E).
  rewrite tbl_doc. reflexivity.
Qed.
Lemma phase_eqb_eq p q : phase_eqb p q = true <-> p = q.
Proof. split; [destruct p, q; intro H; try reflexivity; discriminate H | intros ->; destruct q; reflexivity]. Qed.

Lemma ainit_ok_iff s r :
  snd (astep s (AInit r)) = OK <->
  ph (am s) = InitActing /\ exists a d st, r = ARet (a, d) /\ new_state (am s) a d = Some st.
Proof.
  unfold astep. rewrite expect_IA. split.
  - destruct (phase_eqb (ph (am s)) InitActing) eqn:E; cbn [negb]; [|intro H; discriminate H].
    apply phase_eqb_eq in E. destruct r as [[a d]| |]; try (intro H; discriminate H).
    destruct (new_state (am s) a d) as [st|] eqn:N; [|intro H; discriminate H].
    intros _. split; [exact E|]. exists a, d, st. split; [reflexivity|exact N].
  - intros [E (a & d & st & -> & N)]. apply phase_eqb_eq in E. rewrite E. cbn [negb]. rewrite N. reflexivity.
Qed.
Lemma ainit_effect s r : snd (astep s (AInit r)) = OK ->
  exists a d st, r = ARet (a, d) /\ new_state (am s) a d = Some st /\
    fst (astep s (AInit r)) = mkAM (set_staging (am s) InitSigning st) (no_acts (am s)).
Proof.
  unfold astep. destruct (negb (expect (am s) InitActing InitSigning)); [intro H; discriminate H|].
  destruct r as [[a d]| |]; try (intro H; discriminate H).
  destruct (new_state (am s) a d) as [st|] eqn:N; [|intro H; discriminate H].
  intros _. exists a, d, st. repeat split. exact N.
Qed.

Lemma aupdate_ok_iff s r :
  snd (astep s (AUpdate r)) = OK <-> ph (am s) = Acting /\ exists st, r = ARet st.
Proof.
  unfold astep. rewrite expect_AS. split.
  - destruct (phase_eqb (ph (am s)) Acting) eqn:E; cbn [negb]; [|intro H; discriminate H].
    apply phase_eqb_eq in E. destruct r as [st| |]; try (intro H; discriminate H).
    intros _. split; [exact E|]. exists st. reflexivity.
  - intros [E (st & ->)]. apply phase_eqb_eq in E. rewrite E. reflexivity.
Qed.
Lemma aupdate_effect s st : snd (astep s (AUpdate (ARet st))) = OK ->
  fst (astep s (AUpdate (ARet st))) = mkAM (set_staging (am s) Signing st) (no_acts (am s)).
Proof.
  unfold astep. destruct (negb (expect (am s) Acting Signing)); [intro H; discriminate H|]. reflexivity.
Qed.

Lemma aadd_ok_iff s i a r :
  snd (astep s (AAdd i a r)) = OK <->
  (ph (am s) = InitActing \/ ph (am s) = Acting) /\ nth_error (acts s) (N.to_nat i) = Some None
  /\ exists u, r = ARet u.
Proof.
  unfold astep, action_phases, phase_in. cbn [existsb]. rewrite Bool.orb_false_r. split.
  - destruct (phase_eqb (ph (am s)) InitActing) eqn:E1; destruct (phase_eqb (ph (am s)) Acting) eqn:E2;
      cbn [orb negb]; try (intro H; discriminate H);
      (destruct (nth_error (acts s) (N.to_nat i)) as [[x|]|]; try (intro H; discriminate H);
       destruct r as [u| |]; try (intro H; discriminate H); intros _;
       split; [|split; [reflexivity|exists u; reflexivity]]).
    + left. apply phase_eqb_eq. exact E1.
    + left. apply phase_eqb_eq. exact E1.
    + right. apply phase_eqb_eq. exact E2.
  - intros [[E|E] [Hn (u & ->)]]; rewrite E; cbn [phase_eqb phase_num N.eqb Pos.eqb orb negb]; rewrite Hn; reflexivity.
Qed.
Lemma aadd_effect s i a r : snd (astep s (AAdd i a r)) = OK ->
  fst (astep s (AAdd i a r)) = mkAM (am s) (set_nth (N.to_nat i) (Some a) (acts s)).
Proof.
  unfold astep. destruct (negb (phase_in (ph (am s)) action_phases)); [intro H; discriminate H|].
  destruct (nth_error (acts s) (N.to_nat i)) as [[x|]|]; try (intro H; discriminate H).
  destruct r; try (intro H; discriminate H). reflexivity.
Qed.

(* the app is consulted only when the call can still succeed, and a call that does not consult it
   never depends on its answer *)
Lemma ainit_ignores_app s r r' : calls_app s (AInit r) = false -> astep s (AInit r) = astep s (AInit r').
Proof. unfold calls_app, astep. intros ->. reflexivity. Qed.
Lemma aupdate_ignores_app s r r' : calls_app s (AUpdate r) = false -> astep s (AUpdate r) = astep s (AUpdate r').
Proof. unfold calls_app, astep. intros ->. reflexivity. Qed.
Lemma aadd_ignores_app s i a r r' : calls_app s (AAdd i a r) = false ->
  snd (astep s (AAdd i a r)) = snd (astep s (AAdd i a r')) /\ fst (astep s (AAdd i a r)) = s.
Proof.
  unfold calls_app, astep. destruct (phase_in (ph (am s)) action_phases); cbn [andb negb]; [|split; reflexivity].
  destruct (nth_error (acts s) (N.to_nat i)) as [[x|]|]; try (intro H; discriminate H); split; reflexivity.
Qed.

(* inherited operations act on the embedded machine exactly as on a StateMachine and never touch
   the staging actions *)
Lemma ashared_spec s o :
  astep s (AShared o) = (mkAM (fst (step (am s) (sop_op o))) (acts s), snd (step (am s) (sop_op o))).
Proof. unfold astep. destruct (step (am s) (sop_op o)); reflexivity. Qed.

(* ---------- invariants over all operation sequences ---------- *)
Lemma ps_step m o : ps (fst (step m o)) = ps m.
Proof.
  destruct o; cbn [step]; unfold enable_staged, simple_transition, set_staging, add_tx, set_phase;
    break_match; reflexivity.
Qed.

Record AInv (s : amach) : Prop := mkAInv {
  ainv_m : Inv (am s);
  ainv_len : length (acts s) = N.to_nat (nparts (am s)) }.

Lemma nparts_ps m m' : ps m' = ps m -> nparts m' = nparts m.
Proof. unfold nparts. intros ->. reflexivity. Qed.

Lemma AInv_step s o : AInv s -> AInv (fst (astep s o)).
Proof.
  intros [I L]. destruct (snd (astep s o)) eqn:R.
  - destruct o as [i c r | r | r | o].
    + rewrite (aadd_effect _ _ _ _ R). split; cbn [am acts]; [exact I|]. rewrite set_nth_length. exact L.
    + destruct (ainit_effect _ _ R) as (a & d & st & _ & _ & ->). split; cbn [am acts].
      * apply Inv_set_staging. exact I.
      * unfold no_acts. rewrite repeat_length. reflexivity.
    + apply aupdate_ok_iff in R as R'. destruct R' as [_ (st & ->)]. rewrite (aupdate_effect _ _ R).
      split; cbn [am acts]; [apply Inv_set_staging; exact I|]. unfold no_acts. rewrite repeat_length. reflexivity.
    + rewrite ashared_spec. cbn [fst]. split; cbn [am acts]; [apply Inv_step; exact I|].
      rewrite (nparts_ps _ _ (ps_step (am s) (sop_op o))). exact L.
  - (* OKSig: only the inherited Sig *)
    destruct o as [i c r | r | r | o].
    + exfalso. revert R. unfold astep. break_match; intro H; discriminate H.
    + exfalso. revert R. unfold astep. break_match; intro H; discriminate H.
    + exfalso. revert R. unfold astep. break_match; intro H; discriminate H.
    + rewrite ashared_spec. cbn [fst]. split; cbn [am acts]; [apply Inv_step; exact I|].
      rewrite (nparts_ps _ _ (ps_step (am s) (sop_op o))). exact L.
  - rewrite (astep_fail_noop s o (or_introl R)). split; assumption.
  - rewrite (astep_fail_noop s o (or_intror R)). split; assumption.
Qed.

Lemma AInv_new p idx : AInv (new_amachine p idx).
Proof. split; cbn [am acts new_amachine]; [apply Inv_new|]. unfold no_acts. rewrite repeat_length. reflexivity. Qed.

Lemma AInv_run s ops : AInv s -> AInv (arun s ops).
Proof.
  revert s. induction ops as [|o ops IH]; intros s H; [exact H|].
  cbn [arun fold_left]. apply IH. apply AInv_step. exact H.
Qed.

(* C01 for the action machine: whatever the app answers, over every operation sequence the current
   transaction is fully signed (every slot verified over the current state) or is the unsigned state
   adopted by SetProgressed *)
Lemma action_current_signed p idx ops t :
  current (am (arun (new_amachine p idx) ops)) = Some t ->
  fully_signed (am (arun (new_amachine p idx) ops)) t \/ unsigned t.
Proof. intro H. exact (inv_current _ (ainv_m _ (AInv_run _ ops (AInv_new p idx))) t H). Qed.

(* the action operations never change the current transaction *)
Lemma action_ops_keep_current s o :
  (forall so, o <> AShared so) -> current (am (fst (astep s o))) = current (am s).
Proof.
  intro NS. destruct (snd (astep s o)) eqn:R.
  - destruct o as [i c r | r | r | so].
    + rewrite (aadd_effect _ _ _ _ R). reflexivity.
    + destruct (ainit_effect _ _ R) as (a & d & st & _ & _ & ->). reflexivity.
    + apply aupdate_ok_iff in R as R'. destruct R' as [_ (st & ->)]. rewrite (aupdate_effect _ _ R). reflexivity.
    + exfalso. exact (NS so eq_refl).
  - destruct o as [i c r | r | r | so]; [| | |exfalso; exact (NS so eq_refl)];
      exfalso; revert R; unfold astep; break_match; intro H; discriminate H.
  - rewrite (astep_fail_noop s o (or_introl R)). reflexivity.
  - rewrite (astep_fail_noop s o (or_intror R)). reflexivity.
Qed.

(* a slot index below the participant count never panics in AddAction on a reachable machine *)
Lemma aadd_no_panic s i a r : AInv s -> i < nparts (am s) -> r <> APanic -> snd (astep s (AAdd i a r)) <> PANIC.
Proof.
  intros [_ L] Hi Hr. unfold astep. destruct (negb (phase_in (ph (am s)) action_phases)); [intro H; discriminate H|].
  destruct (nth_error (acts s) (N.to_nat i)) as [[x|]|] eqn:E.
  - intro H; discriminate H.
  - destruct r; try (intro H; discriminate H). exfalso. apply Hr. reflexivity.
  - exfalso. apply nth_error_None in E. lia.
Qed.

(* Init and Update panic only when the app does; with the documented domain of AddAction (slot index
   below the participant count) the action operations of a reachable machine panic only inside the app *)
Lemma ainit_no_panic s r : r <> APanic -> snd (astep s (AInit r)) <> PANIC.
Proof.
  intro Hr. unfold astep. destruct (negb (expect (am s) InitActing InitSigning)); [intro H; discriminate H|].
  destruct r as [[a d]| |]; try (intro H; discriminate H); [|exfalso; apply Hr; reflexivity].
  destruct (new_state (am s) a d); intro H; discriminate H.
Qed.
Lemma aupdate_no_panic s r : r <> APanic -> snd (astep s (AUpdate r)) <> PANIC.
Proof.
  intro Hr. unfold astep. destruct (negb (expect (am s) Acting Signing)); [intro H; discriminate H|].
  destruct r; try (intro H; discriminate H). exfalso. apply Hr. reflexivity.
Qed.

(* the observation recorded in DESIGN: Update stages whatever the app returns (no ValidTransition);
   witness: a "successor" with another channel id and a version jump *)
Definition exAP : mparams := mkMP (repeat Byte.x07 32) [1; 2] None None.
Definition exAA : alloc := mkAlloc [0] [5] [[60; 40]%Z] [].
Definition exAS0 : state := mkState (repeat Byte.x07 32) 0 exAA None [] false.
Definition exBad : state := mkState (repeat Byte.x09 32) 7 exAA None [] false.
Definition exAOps : list aop :=
  [AAdd 0 3 (ARet tt); AAdd 1 4 (ARet tt); AInit (ARet (exAA, [])); AShared SSig;
   AShared (SAddSig 1 (SigOf 2 (enc_state exAS0))); AShared SEnableInit; AShared SSetFunded].
