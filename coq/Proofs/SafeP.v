(* C13 / C16: every native decoder is panic-free on every input (safe), uses only full reads apart from
   single-byte reads (full_only, hence chunking-invariant), bounds its allocations, and accepts nothing
   beyond the documented limits. *)
From Coq Require Import Arith PeanoNat ZifyN ZifyNat ZifyBool.
From V Require Import Model.Msgs Proofs.WireP.
Open Scope N_scope.

Ltac sf_step lemma_db :=
  match goal with
  | |- safe (bind _ _) => apply safe_bind; [|intro]
  | |- safe (Alloc _ _) => apply safe_alloc
  | |- safe (Ret _) => constructor
  | |- safe Fail => constructor
  | |- safe (Read _ _ _) => constructor; intro
  | |- safe (dec_n _ _) => apply safe_dec_n
  | |- safe (if ?c then _ else _) => destruct c
  | |- safe (match ?x with _ => _ end) => destruct x
  | |- safe _ => solve [auto with safe]
  end.
Ltac sf := repeat sf_step idtac.

#[export] Hint Resolve safe_dec_uint safe_dec_i32 safe_dec_u32be safe_dec_bool safe_dec_fixed
  safe_dec_bigint safe_dec_marsh safe_dec_string : safe.
Lemma safe_u8 : safe dec_u8. Proof. apply safe_dec_uint. Qed.
Lemma safe_u16 : safe dec_u16. Proof. apply safe_dec_uint. Qed.
Lemma safe_u32 : safe dec_u32. Proof. apply safe_dec_uint. Qed.
Lemma safe_u64 : safe dec_u64. Proof. apply safe_dec_uint. Qed.
#[export] Hint Resolve safe_u8 safe_u16 safe_u32 safe_u64 : safe.

Lemma safe_dec_many {A} l (d : prog A) : safe d -> safe (dec_many l d).
Proof. intro H. unfold dec_many. sf. Qed.

Lemma safe_dec_asset : safe dec_asset. Proof. unfold dec_asset. sf. Qed.
#[export] Hint Resolve safe_dec_asset : safe.
Lemma safe_dec_suballoc : safe dec_suballoc. Proof. unfold dec_suballoc. sf. Qed.
#[export] Hint Resolve safe_dec_suballoc : safe.
Lemma safe_dec_balances : safe dec_balances. Proof. unfold dec_balances. sf. Qed.
#[export] Hint Resolve safe_dec_balances : safe.
Lemma safe_dec_alloc : safe dec_alloc. Proof. unfold dec_alloc. sf. Qed.
#[export] Hint Resolve safe_dec_alloc : safe.
Lemma safe_dec_optapp rs : safe (dec_optapp rs). Proof. unfold dec_optapp. sf. Qed.
Lemma safe_dec_data k : safe (dec_data k). Proof. unfold dec_data. sf. Qed.
#[export] Hint Resolve safe_dec_optapp safe_dec_data : safe.
Lemma safe_dec_state rs : safe (dec_state rs). Proof. unfold dec_state. sf. Qed.
#[export] Hint Resolve safe_dec_state : safe.
Lemma safe_dec_waddr_entry : safe dec_waddr_entry. Proof. unfold dec_waddr_entry. sf. Qed.
Lemma safe_dec_raddr_entry : safe dec_raddr_entry. Proof. unfold dec_raddr_entry. sf. Qed.
#[export] Hint Resolve safe_dec_waddr_entry safe_dec_raddr_entry : safe.
Lemma safe_dec_wamap : safe dec_wamap.
Proof. unfold dec_wamap. sf. apply safe_dec_many. auto with safe. Qed.
Lemma safe_dec_ramap : safe dec_ramap.
Proof. unfold dec_ramap. sf. apply safe_dec_many. auto with safe. Qed.
#[export] Hint Resolve safe_dec_wamap safe_dec_ramap : safe.
Lemma safe_dec_wamaps : safe dec_wamaps.
Proof. unfold dec_wamaps. sf. apply safe_dec_many. auto with safe. Qed.
Lemma safe_dec_ramaps : safe dec_ramaps.
Proof. unfold dec_ramaps. sf. apply safe_dec_many. auto with safe. Qed.
#[export] Hint Resolve safe_dec_wamaps safe_dec_ramaps : safe.
Lemma safe_dec_sig_slots bits : safe (dec_sig_slots bits).
Proof. induction bits as [|[|] r IH]; cbn [dec_sig_slots]; sf; exact IH. Qed.
#[export] Hint Resolve safe_dec_sig_slots : safe.
Lemma safe_dec_sigs n : safe (dec_sigs n). Proof. unfold dec_sigs. sf. Qed.
#[export] Hint Resolve safe_dec_sigs : safe.
Lemma safe_dec_tx rs : safe (dec_tx rs). Proof. unfold dec_tx. sf. Qed.
Lemma safe_dec_params rs : safe (dec_params rs). Proof. unfold dec_params. sf. Qed.
#[export] Hint Resolve safe_dec_tx safe_dec_params : safe.
Lemma safe_dec_ids : safe dec_ids. Proof. unfold dec_ids. sf. Qed.
Lemma safe_dec_imap : safe dec_imap. Proof. unfold dec_imap. sf. Qed.
#[export] Hint Resolve safe_dec_ids safe_dec_imap : safe.
Lemma safe_dec_imaps : safe dec_imaps. Proof. unfold dec_imaps. sf. Qed.
Lemma safe_dec_baseprop rs : safe (dec_baseprop rs). Proof. unfold dec_baseprop. sf. Qed.
Lemma safe_dec_update rs : safe (dec_update rs). Proof. unfold dec_update. sf. Qed.
#[export] Hint Resolve safe_dec_imaps safe_dec_baseprop safe_dec_update : safe.
Lemma safe_dec_msg_body rs t : safe (dec_msg_body rs t).
Proof. unfold dec_msg_body. sf. Qed.
#[export] Hint Resolve safe_dec_msg_body : safe.
Lemma safe_dec_msg rs : safe (dec_msg rs). Proof. unfold dec_msg. sf. Qed.
#[export] Hint Resolve safe_dec_msg : safe.
Lemma safe_dec_envelope rs : safe (dec_envelope rs). Proof. unfold dec_envelope. sf. Qed.

(* ---- full reads only (C16) ---- *)
Ltac fo_step :=
  match goal with
  | |- full_only (bind _ _) => apply full_only_bind; [|intro]
  | |- full_only (Alloc _ _) => apply fo_alloc
  | |- full_only (Ret _) => constructor
  | |- full_only Fail => constructor
  | |- full_only (Read true _ _) => apply fo_full; intro
  | |- full_only (dec_n _ _) => apply fo_dec_n
  | |- full_only (if ?c then _ else _) => destruct c
  | |- full_only (match ?x with _ => _ end) => destruct x
  | |- full_only _ => solve [auto with fo]
  end.
Ltac fo := repeat fo_step.
#[export] Hint Resolve fo_dec_uint fo_dec_i32 fo_dec_u32be fo_dec_bool fo_dec_fixed
  fo_dec_bigint fo_dec_marsh fo_dec_string : fo.
Lemma fo_u8 : full_only dec_u8. Proof. apply fo_dec_uint. Qed.
Lemma fo_u16 : full_only dec_u16. Proof. apply fo_dec_uint. Qed.
Lemma fo_u32 : full_only dec_u32. Proof. apply fo_dec_uint. Qed.
Lemma fo_u64 : full_only dec_u64. Proof. apply fo_dec_uint. Qed.
#[export] Hint Resolve fo_u8 fo_u16 fo_u32 fo_u64 : fo.
Lemma fo_dec_many {A} l (d : prog A) : full_only d -> full_only (dec_many l d).
Proof. intro H. unfold dec_many. fo. Qed.
Lemma fo_dec_asset : full_only dec_asset. Proof. unfold dec_asset. fo. Qed.
#[export] Hint Resolve fo_dec_asset : fo.
Lemma fo_dec_suballoc : full_only dec_suballoc. Proof. unfold dec_suballoc. fo. Qed.
Lemma fo_dec_balances : full_only dec_balances. Proof. unfold dec_balances. fo. Qed.
#[export] Hint Resolve fo_dec_suballoc fo_dec_balances : fo.
Lemma fo_dec_alloc : full_only dec_alloc. Proof. unfold dec_alloc. fo. Qed.
Lemma fo_dec_optapp rs : full_only (dec_optapp rs). Proof. unfold dec_optapp. fo. Qed.
Lemma fo_dec_data k : full_only (dec_data k). Proof. unfold dec_data. fo. Qed.
#[export] Hint Resolve fo_dec_alloc fo_dec_optapp fo_dec_data : fo.
Lemma fo_dec_state rs : full_only (dec_state rs). Proof. unfold dec_state. fo. Qed.
Lemma fo_dec_waddr_entry : full_only dec_waddr_entry. Proof. unfold dec_waddr_entry. fo. Qed.
Lemma fo_dec_raddr_entry : full_only dec_raddr_entry. Proof. unfold dec_raddr_entry. fo. Qed.
#[export] Hint Resolve fo_dec_state fo_dec_waddr_entry fo_dec_raddr_entry : fo.
Lemma fo_dec_wamap : full_only dec_wamap.
Proof. unfold dec_wamap. fo. apply fo_dec_many. auto with fo. Qed.
Lemma fo_dec_ramap : full_only dec_ramap.
Proof. unfold dec_ramap. fo. apply fo_dec_many. auto with fo. Qed.
#[export] Hint Resolve fo_dec_wamap fo_dec_ramap : fo.
Lemma fo_dec_wamaps : full_only dec_wamaps.
Proof. unfold dec_wamaps. fo. apply fo_dec_many. auto with fo. Qed.
Lemma fo_dec_ramaps : full_only dec_ramaps.
Proof. unfold dec_ramaps. fo. apply fo_dec_many. auto with fo. Qed.
#[export] Hint Resolve fo_dec_wamaps fo_dec_ramaps : fo.
Lemma fo_dec_sig_slots bits : full_only (dec_sig_slots bits).
Proof. induction bits as [|[|] r IH]; cbn [dec_sig_slots]; fo; exact IH. Qed.
#[export] Hint Resolve fo_dec_sig_slots : fo.
Lemma fo_dec_sigs n : full_only (dec_sigs n). Proof. unfold dec_sigs. fo. Qed.
#[export] Hint Resolve fo_dec_sigs : fo.
Lemma fo_dec_tx rs : full_only (dec_tx rs). Proof. unfold dec_tx. fo. Qed.
Lemma fo_dec_params rs : full_only (dec_params rs). Proof. unfold dec_params. fo. Qed.
#[export] Hint Resolve fo_dec_tx fo_dec_params : fo.
Lemma fo_dec_ids : full_only dec_ids. Proof. unfold dec_ids. fo. Qed.
Lemma fo_dec_imap : full_only dec_imap. Proof. unfold dec_imap. fo. Qed.
#[export] Hint Resolve fo_dec_ids fo_dec_imap : fo.
Lemma fo_dec_imaps : full_only dec_imaps. Proof. unfold dec_imaps. fo. Qed.
Lemma fo_dec_baseprop rs : full_only (dec_baseprop rs). Proof. unfold dec_baseprop. fo. Qed.
Lemma fo_dec_update rs : full_only (dec_update rs). Proof. unfold dec_update. fo. Qed.
#[export] Hint Resolve fo_dec_imaps fo_dec_baseprop fo_dec_update : fo.
Lemma fo_dec_msg_body rs t : full_only (dec_msg_body rs t). Proof. unfold dec_msg_body. fo. Qed.
#[export] Hint Resolve fo_dec_msg_body : fo.
Lemma fo_dec_msg rs : full_only (dec_msg rs). Proof. unfold dec_msg. fo. Qed.
#[export] Hint Resolve fo_dec_msg : fo.
Lemma fo_dec_envelope rs : full_only (dec_envelope rs). Proof. unfold dec_envelope. fo. Qed.

(* ---- limits: what is accepted is within the documented limits; larger declarations are rejected ---- *)
Lemma bind_ok {A B} (p : prog A) (f : A -> prog B) bs b r :
  run_flat (bind p f) bs = Ok (b, r) ->
  exists a r', run_flat p bs = Ok (a, r') /\ run_flat (f a) r' = Ok (b, r).
Proof.
  rewrite run_flat_bind. destruct (run_flat p bs) as [[a r']| |]; try discriminate. eauto.
Qed.

Lemma dec_alloc_accepts_valid bs a r : run_flat dec_alloc bs = Ok (a, r) -> alloc_valid a = true.
Proof.
  unfold dec_alloc. intro H.
  apply bind_ok in H as (na & r1 & _ & H). apply bind_ok in H as (np & r2 & _ & H).
  apply bind_ok in H as (nl & r3 & _ & H).
  destruct ((MaxNumAssets <? na) || (MaxNumParts <? np) || (MaxNumSubAllocations <? nl)); [discriminate H|].
  cbn [run_flat] in H. apply bind_ok in H as (pairs & r4 & _ & H).
  apply bind_ok in H as (bals & r5 & _ & H). cbn [run_flat] in H.
  apply bind_ok in H as (locked & r6 & _ & H).
  cbv zeta in H. destruct (alloc_valid _) eqn:V; [|discriminate H].
  cbn [run_flat] in H. injection H as <- _. exact V.
Qed.

Lemma alloc_header_rejected na np nl rest :
  na < 65536 -> np < 65536 -> nl < 65536 ->
  MaxNumAssets < na \/ MaxNumParts < np \/ MaxNumSubAllocations < nl ->
  run_flat dec_alloc (enc_u16 na ++ enc_u16 np ++ enc_u16 nl ++ rest) = Err.
Proof.
  intros H1 H2 H3 L. unfold dec_alloc.
  rewrite run_flat_bind, dec_u16_rt by exact H1. rewrite run_flat_bind, dec_u16_rt by exact H2.
  rewrite run_flat_bind, dec_u16_rt by exact H3.
  destruct (N.ltb_spec MaxNumAssets na), (N.ltb_spec MaxNumParts np), (N.ltb_spec MaxNumSubAllocations nl);
    cbn [orb]; try reflexivity. lia.
Qed.

Lemma balances_header_rejected na np rest :
  na < 65536 -> np < 65536 -> MaxNumAssets < na \/ MaxNumParts < np ->
  run_flat dec_balances (enc_u16 na ++ enc_u16 np ++ rest) = Err.
Proof.
  intros H1 H2 L. unfold dec_balances.
  rewrite run_flat_bind, dec_u16_rt by exact H1. rewrite run_flat_bind, dec_u16_rt by exact H2.
  destruct (N.ltb_spec MaxNumAssets na); [reflexivity|].
  destruct (N.ltb_spec MaxNumParts np); [reflexivity|lia].
Qed.

Lemma suballoc_header_rejected id n rest :
  length id = 32%nat -> n < 65536 -> MaxNumAssets < n ->
  run_flat dec_suballoc (id ++ enc_u16 n ++ rest) = Err.
Proof.
  intros Hi H1 L. unfold dec_suballoc.
  rewrite run_flat_bind, dec_fixed_rt by exact Hi. rewrite run_flat_bind, dec_u16_rt by exact H1.
  destruct (N.ltb_spec MaxNumAssets n); [reflexivity|lia].
Qed.

Lemma bigint_length_rejected l rest : l < 256 -> MaxBigIntLength < l ->
  run_flat dec_bigint (enc_u8 l ++ rest) = Err.
Proof.
  intros H1 L. unfold dec_bigint, enc_u8. cbn [enc_le app]. rewrite read_once_1.
  cbn [dec_le]. rewrite to_of_N, N.mul_0_r, N.add_0_r, N.mod_small by exact H1.
  destruct (N.ltb_spec MaxBigIntLength l); [reflexivity|lia].
Qed.

Lemma dec_params_accepts_valid rs bs p r : run_flat (dec_params rs) bs = Ok (p, r) -> new_params_ok p = true.
Proof.
  unfold dec_params. intro H.
  repeat (apply bind_ok in H as (? & ? & _ & H)).
  cbv zeta in H. destruct (new_params_ok _) eqn:V; [|discriminate H].
  cbn [run_flat] in H. injection H as <- _. exact V.
Qed.
Lemma new_params_ok_limits p : new_params_ok p = true ->
  p_cd p <> 0 /\ MinNumParts <= len (p_parts p) <= MaxNumParts /\ nonce_ok (p_nonce p) = true.
Proof.
  unfold new_params_ok. intro H.
  repeat match goal with H : _ && _ = true |- _ => apply andb_true_iff in H; destruct H end.
  repeat match goal with
         | H : negb _ = true |- _ => apply negb_true_iff in H
         | H : (_ <=? _) = true |- _ => apply N.leb_le in H
         | H : (_ =? _) = false |- _ => apply N.eqb_neq in H
         end. auto.
Qed.

Lemma dec_state_accepts_valid rs bs s r : run_flat (dec_state rs) bs = Ok (s, r) ->
  alloc_valid (st_alloc s) = true.
Proof.
  unfold dec_state. intro H.
  apply bind_ok in H as (id & r1 & _ & H). apply bind_ok in H as (v & r2 & _ & H).
  apply bind_ok in H as (a & r3 & Ha & H). apply bind_ok in H as (f & r4 & _ & H).
  apply bind_ok in H as (app & r5 & _ & H). apply bind_ok in H as (d & r6 & _ & H).
  cbn [run_flat] in H. injection H as <- _. cbn [st_alloc]. eapply dec_alloc_accepts_valid; exact Ha.
Qed.

(* ---- allocations requested before the next validation are bounded ---- *)
(* a decoder whose result is bounded: lets a count read from the wire bound a later allocation *)
Definition alloc_limit : N := 1048576.   (* MaxNumAssets * MaxNumParts *)
Notation ab := (alloc_bounded alloc_limit).

Lemma ab_uint_then {B} k (f : N -> prog B) : (k <= 2)%nat ->
  (forall n, n < 65536 -> ab (f n)) -> ab (bind (dec_uint k) f).
Proof.
  intros Hk Hf. unfold dec_uint. cbn [bind]. constructor. intros bs Hl. apply Hf.
  pose proof (dec_le_bound bs) as Bd. rewrite Hl in Bd.
  eapply N.lt_le_trans; [exact Bd|]. destruct k as [|[|[|k]]]; cbn; lia.
Qed.
Lemma ab_any_uint_then {B} k (f : N -> prog B) : (forall n, ab (f n)) -> ab (bind (dec_uint k) f).
Proof. intros Hf. unfold dec_uint. cbn [bind]. constructor. intros bs _. apply Hf. Qed.
Lemma ab_fixed_then {B} n (f : bytes -> prog B) : (forall b, ab (f b)) -> ab (bind (dec_fixed n) f).
Proof. intros Hf. unfold dec_fixed. cbn [bind]. constructor. intros bs _. apply Hf. Qed.
Lemma ab_dec_bigint : ab dec_bigint.
Proof.
  constructor; intros bs _. cbv zeta. destruct (MaxBigIntLength <? dec_le bs); constructor. intros; constructor.
Qed.
Lemma ab_dec_n {A} n (d : prog A) : ab d -> ab (dec_n n d).
Proof.
  intro H; induction n as [|n IH]; cbn [dec_n]; [constructor|].
  apply alloc_bounded_bind; [exact H|]. intro x. apply alloc_bounded_bind; [exact IH|]. intro xs. constructor.
Qed.
Lemma ab_dec_u16 : ab dec_u16. Proof. constructor. intros; constructor. Qed.

Lemma ab_dec_suballoc : ab dec_suballoc.
Proof.
  unfold dec_suballoc. apply ab_fixed_then. intro id.
  apply ab_uint_then; [lia|]. intros n Hn.
  destruct (MaxNumAssets <? n); [constructor|].
  constructor; [unfold alloc_limit; lia|].
  apply alloc_bounded_bind; [apply ab_dec_n, ab_dec_bigint|]. intro bals.
  apply ab_uint_then; [lia|]. intros l Hl.
  constructor; [unfold alloc_limit; lia|].
  apply alloc_bounded_bind; [apply ab_dec_n, ab_dec_u16|]. intro im.
  cbv zeta. destruct (suballoc_valid _); constructor.
Qed.

Lemma ab_dec_balances : ab dec_balances.
Proof.
  unfold dec_balances. apply ab_uint_then; [lia|]. intros na Hna.
  apply ab_uint_then; [lia|]. intros np Hnp.
  destruct (N.ltb_spec MaxNumAssets na); [constructor|].
  destruct (N.ltb_spec MaxNumParts np); [constructor|].
  constructor.
  - unfold alloc_limit, MaxNumAssets, MaxNumParts, Generated.MaxNumAssets, Generated.MaxNumParts in *. nia.
  - apply ab_dec_n, ab_dec_n, ab_dec_bigint.
Qed.

Lemma ab_dec_marsh : ab dec_marsh.
Proof.
  unfold dec_marsh. apply ab_uint_then; [lia|]. intros l Hl.
  constructor; [unfold alloc_limit; lia|]. constructor. intros; constructor.
Qed.
Lemma ab_dec_asset : ab dec_asset.
Proof.
  unfold dec_asset. apply alloc_bounded_bind; [apply ab_dec_marsh|]. intro bs.
  destruct (length bs =? asset_len)%nat; constructor.
Qed.

Lemma ab_dec_alloc : ab dec_alloc.
Proof.
  unfold dec_alloc. apply ab_uint_then; [lia|]. intros na Hna.
  apply ab_uint_then; [lia|]. intros np Hnp. apply ab_uint_then; [lia|]. intros nl Hnl.
  destruct ((MaxNumAssets <? na) || (MaxNumParts <? np) || (MaxNumSubAllocations <? nl)); [constructor|].
  constructor; [unfold alloc_limit; lia|].
  apply alloc_bounded_bind.
  { apply ab_dec_n. apply ab_any_uint_then. intro b. destruct (known_backend b); [|constructor].
    apply alloc_bounded_bind; [apply ab_dec_asset|]. intro a. constructor. }
  intro pairs. apply alloc_bounded_bind; [apply ab_dec_balances|]. intro bals.
  constructor; [unfold alloc_limit; lia|].
  apply alloc_bounded_bind; [apply ab_dec_n, ab_dec_suballoc|]. intro locked.
  cbv zeta. destruct (alloc_valid _); constructor.
Qed.

(* ---- allocation bounds for the remaining decoders ---- *)
Ltac abt :=
  repeat match goal with
         | |- alloc_bounded _ (bind (dec_uint _) _) => apply ab_any_uint_then; intro
         | |- alloc_bounded _ (bind (dec_fixed _) _) => apply ab_fixed_then; intro
         | |- alloc_bounded _ (bind _ _) => apply alloc_bounded_bind; [|intro]
         | |- alloc_bounded _ (Ret _) => constructor
         | |- alloc_bounded _ Fail => constructor
         | |- alloc_bounded _ (if ?c then _ else _) => destruct c
         | |- alloc_bounded _ (match ?x with _ => _ end) => destruct x
         | |- alloc_bounded _ (dec_n _ _) => apply ab_dec_n
         | |- alloc_bounded _ _ => solve [auto with ab]
         end.
#[export] Hint Resolve ab_dec_bigint ab_dec_u16 ab_dec_suballoc ab_dec_balances ab_dec_marsh ab_dec_asset ab_dec_alloc : ab.
Lemma ab_dec_uint k : ab (dec_uint k). Proof. constructor. intros; constructor. Qed.
Lemma ab_dec_fixed n : ab (dec_fixed n). Proof. constructor. intros; constructor. Qed.
Lemma ab_dec_bool : ab dec_bool. Proof. constructor. intros; constructor. Qed.
Lemma ab_dec_i32 : ab dec_i32. Proof. constructor. intros; constructor. Qed.
Lemma ab_dec_u8 : ab dec_u8. Proof. apply ab_dec_uint. Qed.
Lemma ab_dec_u32 : ab dec_u32. Proof. apply ab_dec_uint. Qed.
Lemma ab_dec_u64 : ab dec_u64. Proof. apply ab_dec_uint. Qed.
#[export] Hint Resolve ab_dec_uint ab_dec_fixed ab_dec_bool ab_dec_i32 ab_dec_u8 ab_dec_u32 ab_dec_u64 : ab.
Lemma ab_dec_string : ab dec_string.
Proof.
  unfold dec_string. apply ab_uint_then; [lia|]. intros l Hl.
  constructor; [unfold alloc_limit; lia|]. constructor. intros; constructor.
Qed.
#[export] Hint Resolve ab_dec_string : ab.
Lemma ab_dec_many {A} l (d : prog A) : ab d -> ab (dec_many l d).
Proof. intro H. unfold dec_many. abt. Qed.
Lemma ab_dec_optapp rs : ab (dec_optapp rs). Proof. unfold dec_optapp. abt. Qed.
Lemma ab_dec_data k : ab (dec_data k). Proof. unfold dec_data. abt. Qed.
#[export] Hint Resolve ab_dec_optapp ab_dec_data : ab.
Lemma ab_dec_state rs : ab (dec_state rs). Proof. unfold dec_state. abt. Qed.
#[export] Hint Resolve ab_dec_state : ab.
Lemma ab_dec_waddr_entry : ab dec_waddr_entry. Proof. unfold dec_waddr_entry. abt. Qed.
Lemma ab_dec_raddr_entry : ab dec_raddr_entry. Proof. unfold dec_raddr_entry. abt. Qed.
#[export] Hint Resolve ab_dec_waddr_entry ab_dec_raddr_entry : ab.
Lemma ab_dec_wamap : ab dec_wamap. Proof. unfold dec_wamap. abt. apply ab_dec_many. auto with ab. Qed.
Lemma ab_dec_ramap : ab dec_ramap. Proof. unfold dec_ramap. abt. apply ab_dec_many. auto with ab. Qed.
#[export] Hint Resolve ab_dec_wamap ab_dec_ramap : ab.
Lemma ab_dec_wamaps : ab dec_wamaps. Proof. unfold dec_wamaps. abt. apply ab_dec_many. auto with ab. Qed.
Lemma ab_dec_ramaps : ab dec_ramaps. Proof. unfold dec_ramaps. abt. apply ab_dec_many. auto with ab. Qed.
#[export] Hint Resolve ab_dec_wamaps ab_dec_ramaps : ab.
Lemma ab_dec_sig_slots bits : ab (dec_sig_slots bits).
Proof. induction bits as [|[|] r IH]; cbn [dec_sig_slots]; abt; exact IH. Qed.
#[export] Hint Resolve ab_dec_sig_slots : ab.
Lemma ab_dec_sigs n : ab (dec_sigs n). Proof. unfold dec_sigs. abt. Qed.
#[export] Hint Resolve ab_dec_sigs : ab.
Lemma ab_dec_tx rs : ab (dec_tx rs). Proof. unfold dec_tx. abt. Qed.
Lemma ab_dec_params rs : ab (dec_params rs). Proof. unfold dec_params. abt. Qed.
#[export] Hint Resolve ab_dec_tx ab_dec_params : ab.
Lemma ab_u16_counted {A} (d : prog A) : ab d ->
  ab (l <- dec_u16 ;; Alloc l (dec_n (N.to_nat l) d)).
Proof.
  intro H. apply ab_uint_then; [lia|]. intros l Hl.
  constructor; [unfold alloc_limit; lia|]. apply ab_dec_n. exact H.
Qed.
Lemma ab_dec_ids : ab dec_ids. Proof. unfold dec_ids. apply ab_u16_counted. auto with ab. Qed.
Lemma ab_dec_imap : ab dec_imap. Proof. unfold dec_imap. apply ab_u16_counted. auto with ab. Qed.
#[export] Hint Resolve ab_dec_ids ab_dec_imap : ab.
Lemma ab_dec_imaps : ab dec_imaps. Proof. unfold dec_imaps. apply ab_u16_counted. auto with ab. Qed.
Lemma ab_dec_baseprop rs : ab (dec_baseprop rs). Proof. unfold dec_baseprop. abt. Qed.
Lemma ab_dec_update rs : ab (dec_update rs). Proof. unfold dec_update. abt. Qed.
#[export] Hint Resolve ab_dec_imaps ab_dec_baseprop ab_dec_update : ab.

(* every message type except AuthResponse (type 3, whose signature length is a uint32 without a
   documented limit) requests only bounded allocations *)
Lemma ab_dec_msg_body rs t : t <> 3 -> ab (dec_msg_body rs t).
Proof.
  intro Ht. unfold dec_msg_body.
  destruct (N.eqb_spec t 3) as [E|_]; [contradiction|].
  abt.
Qed.
