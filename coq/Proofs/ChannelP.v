(* Round trips and equality lemmas for channel values. *)
From Coq Require Import Arith PeanoNat ZifyN ZifyNat ZifyBool.
From V Require Import Model.Channel Proofs.WireP.
Open Scope N_scope.

Lemma forallb_Forall {A} (p : A -> bool) l : forallb p l = true -> Forall (fun x => p x = true) l.
Proof. intro H. apply Forall_forall. apply forallb_forall. exact H. Qed.

Lemma len_to_nat {A} (l : list A) : N.to_nat (len l) = length l.
Proof. unfold len. apply Nat2N.id. Qed.

Ltac split_and :=
  repeat match goal with
         | H : _ && _ = true |- _ => apply andb_true_iff in H; destruct H
         end.

(* ---- equality functions decide Leibniz equality of model values ---- *)
Lemma zlist_eqb_eq a b : zlist_eqb a b = true <-> a = b.
Proof. apply list_eqb_eq. intros; apply Z.eqb_eq. Qed.
Lemma nlist_eqb_eq a b : nlist_eqb a b = true <-> a = b.
Proof. apply list_eqb_eq. intros; apply N.eqb_eq. Qed.
Lemma balances_equal_eq a b : balances_equal a b = true <-> a = b.
Proof. apply list_eqb_eq. exact zlist_eqb_eq. Qed.

Lemma suballoc_equal_eq s t : suballoc_equal s t = true <-> s = t.
Proof.
  unfold suballoc_equal. destruct s as [i b m], t as [i' b' m']; cbn [sa_id sa_bals sa_imap].
  rewrite !andb_true_iff, bytes_eqb_eq, zlist_eqb_eq, nlist_eqb_eq.
  split; [intros [[-> ->] ->]; reflexivity|intro H; injection H; auto].
Qed.
Lemma suballocs_equal_eq a b : suballocs_equal a b = true <-> a = b.
Proof. apply list_eqb_eq. exact suballoc_equal_eq. Qed.

Lemma alloc_equal_eq a b : alloc_equal a b = true <-> a = b.
Proof.
  unfold alloc_equal. destruct a as [k s bl l], b as [k' s' bl' l'];
    cbn [al_backends al_assets al_bals al_locked].
  rewrite !andb_true_iff, !nlist_eqb_eq, balances_equal_eq, suballocs_equal_eq.
  split; [intros [[[-> ->] ->] ->]; reflexivity|intro H; injection H; auto].
Qed.

Lemma app_should_equal_eq a b : app_should_equal a b = true <-> a = b.
Proof.
  destruct a as [x|], b as [y|]; cbn [app_should_equal]; split; intro H;
    try reflexivity; try discriminate.
  - apply bytes_eqb_eq in H. congruence.
  - injection H as ->. apply bytes_eqb_eq. reflexivity.
Qed.

Lemma state_equal_eq s t : state_equal s t = true <-> s = t.
Proof.
  unfold state_equal. destruct s as [i v a p d f], t as [i' v' a' p' d' f'];
    cbn [st_id st_ver st_alloc st_app st_data st_final].
  rewrite !andb_true_iff, !bytes_eqb_eq, N.eqb_eq, app_should_equal_eq, alloc_equal_eq, Bool.eqb_true_iff.
  split; [intros [[[[[-> ->] ->] ->] ->] ->]; reflexivity|intro H; injection H; intros; subst; auto 10].
Qed.

(* ---- round trips ---- *)
Lemma dec_u16_list_rt l rest :
  Forall (fun x => (x <? 65536) = true) l ->
  run_flat (dec_n (length l) dec_u16) (cat enc_u16 l ++ rest) = Ok (l, rest).
Proof.
  intro H. unfold cat. apply (dec_n_rt dec_u16 enc_u16 (fun x => (x <? 65536) = true)); [|exact H].
  intros a r Ha. apply dec_u16_rt. apply N.ltb_lt. exact Ha.
Qed.

Lemma dec_bigint_list_rt l rest :
  bigints_ok l = true ->
  run_flat (dec_n (length l) dec_bigint) (cat enc_bigint l ++ rest) = Ok (l, rest).
Proof.
  intro H. unfold cat. apply (dec_n_rt dec_bigint enc_bigint (fun z => bigint_encodable z = true)).
  - intros a r Ha. apply dec_bigint_rt. exact Ha.
  - apply forallb_Forall. exact H.
Qed.

Lemma bigints_ok_nonneg l : bigints_ok l = true -> nonneg l = true.
Proof.
  unfold bigints_ok, nonneg. intro H. apply forallb_forall. intros z Hz.
  rewrite forallb_forall in H. specialize (H z Hz). unfold bigint_encodable in H.
  apply andb_true_iff in H as [H _]. exact H.
Qed.

Lemma dec_suballoc_rt s rest : suballoc_wf s = true ->
  run_flat dec_suballoc (enc_suballoc s ++ rest) = Ok (s, rest).
Proof.
  unfold suballoc_wf. intro H. split_and.
  match goal with H : (length _ =? 32)%nat = true |- _ => apply Nat.eqb_eq in H; rename H into Hid end.
  match goal with H : (len (sa_bals s) <=? _) = true |- _ => apply N.leb_le in H; rename H into Hn end.
  match goal with H : (len (sa_imap s) <? _) = true |- _ => apply N.ltb_lt in H; rename H into Hl end.
  unfold dec_suballoc, enc_suballoc. rewrite <- !app_assoc.
  rewrite run_flat_bind, dec_fixed_rt by exact Hid.
  assert (B : len (sa_bals s) < 65536) by (unfold MaxNumAssets, Generated.MaxNumAssets in Hn; lia).
  rewrite run_flat_bind, dec_u16_rt by exact B.
  destruct (N.ltb_spec MaxNumAssets (len (sa_bals s))) as [C|_]; [lia|].
  cbn [run_flat]. rewrite len_to_nat.
  rewrite run_flat_bind, dec_bigint_list_rt by assumption.
  rewrite run_flat_bind, dec_u16_rt by exact Hl.
  cbn [run_flat]. rewrite len_to_nat.
  rewrite run_flat_bind, dec_u16_list_rt by (apply forallb_Forall; assumption).
  assert (V : suballoc_valid (mkSA (sa_id s) (sa_bals s) (sa_imap s)) = true).
  { unfold suballoc_valid. cbn [sa_bals]. apply andb_true_iff. split.
    - apply N.leb_le. exact Hn.
    - apply bigints_ok_nonneg. assumption. }
  rewrite V. destruct s; reflexivity.
Qed.

Lemma dec_row_rt np row rest :
  (len row =? np) && bigints_ok row = true ->
  run_flat (dec_n (N.to_nat np) dec_bigint) (cat enc_bigint row ++ rest) = Ok (row, rest).
Proof.
  intro H. split_and.
  match goal with H : (len row =? np) = true |- _ => apply N.eqb_eq in H; subst np end.
  rewrite len_to_nat. apply dec_bigint_list_rt. assumption.
Qed.

Lemma dec_balances_rt b rest : balances_wf b = true ->
  run_flat dec_balances (enc_balances b ++ rest) = Ok (b, rest).
Proof.
  unfold balances_wf. intro H. split_and.
  match goal with H : (len b <=? _) = true |- _ => apply N.leb_le in H; rename H into Hna end.
  match goal with H : (num_parts b <=? _) = true |- _ => apply N.leb_le in H; rename H into Hnp end.
  unfold dec_balances, enc_balances. rewrite <- !app_assoc.
  unfold MaxNumAssets, MaxNumParts, Generated.MaxNumAssets, Generated.MaxNumParts in *.
  rewrite run_flat_bind, dec_u16_rt by lia.
  rewrite run_flat_bind, dec_u16_rt by lia.
  destruct (N.ltb_spec 1024 (len b)) as [C|_]; [lia|].
  destruct (N.ltb_spec 1024 (num_parts b)) as [C|_]; [lia|].
  cbn [run_flat]. rewrite len_to_nat. unfold cat at 1.
  apply (dec_n_rt _ (cat enc_bigint)
           (fun r => (len r =? num_parts b) && bigints_ok r = true)).
  - intros r rest' Hr. apply dec_row_rt. exact Hr.
  - apply forallb_Forall. assumption.
Qed.

Lemma dec_asset_rt a rest : a < 18446744073709551616 ->
  run_flat dec_asset (enc_asset a ++ rest) = Ok (a, rest).
Proof.
  intro H. unfold dec_asset, enc_asset.
  rewrite run_flat_bind, dec_marsh_rt by (unfold enc_u64be; rewrite enc_be_length; cbn; lia).
  unfold enc_u64be. rewrite enc_be_length. cbn [Nat.eqb asset_len run_flat].
  rewrite dec_enc_be by exact H. reflexivity.
Qed.

Lemma combine_fst {A B} (l : list A) (m : list B) : length l = length m -> map fst (combine l m) = l.
Proof. revert m; induction l as [|x l IH]; intros [|y m] H; cbn in *; try discriminate; [reflexivity|].
  f_equal. apply IH. lia. Qed.
Lemma combine_snd {A B} (l : list A) (m : list B) : length l = length m -> map snd (combine l m) = m.
Proof. revert m; induction l as [|x l IH]; intros [|y m] H; cbn in *; try discriminate; [reflexivity|].
  f_equal. apply IH. lia. Qed.

Lemma Forall_combine {A B} (P : A -> Prop) (Q : B -> Prop) l m :
  Forall P l -> Forall Q m -> Forall (fun p => P (fst p) /\ Q (snd p)) (combine l m).
Proof.
  intros Hl; revert m; induction Hl as [|x l Hx Hl IH]; intros m Hm; cbn [combine]; [constructor|].
  destruct Hm as [|y m Hy Hm]; constructor; [split; assumption|apply IH; exact Hm].
Qed.

Lemma alloc_valid_limits a : alloc_valid a = true ->
  len (al_assets a) <= MaxNumAssets /\ num_parts (al_bals a) <= MaxNumParts
  /\ len (al_locked a) <= MaxNumSubAllocations.
Proof.
  unfold alloc_valid. intro H. split_and.
  repeat match goal with H : (_ <=? _) = true |- _ => apply N.leb_le in H end.
  auto.
Qed.

Lemma dec_alloc_rt a rest : alloc_wf a = true ->
  run_flat dec_alloc (enc_alloc a ++ rest) = Ok (a, rest).
Proof.
  unfold alloc_wf. intro H. split_and.
  match goal with H : alloc_valid a = true |- _ => rename H into Hv end.
  match goal with H : (len (al_backends a) =? _) = true |- _ => apply N.eqb_eq in H; rename H into Hlen end.
  destruct (alloc_valid_limits a Hv) as (L1 & L2 & L3).
  unfold dec_alloc, enc_alloc. rewrite <- !app_assoc.
  unfold MaxNumAssets, MaxNumParts, MaxNumSubAllocations,
    Generated.MaxNumAssets, Generated.MaxNumParts, Generated.MaxNumSubAllocations in *.
  rewrite run_flat_bind, dec_u16_rt by lia.
  rewrite run_flat_bind, dec_u16_rt by lia.
  rewrite run_flat_bind, dec_u16_rt by lia.
  destruct (N.ltb_spec 1024 (len (al_assets a))) as [C|_]; [lia|].
  destruct (N.ltb_spec 1024 (num_parts (al_bals a))) as [C|_]; [lia|].
  destruct (N.ltb_spec 1024 (len (al_locked a))) as [C|_]; [lia|].
  cbn [orb run_flat].
  assert (Hl : length (al_backends a) = length (al_assets a)) by (unfold len in Hlen; lia).
  assert (Hc : N.to_nat (len (al_assets a)) = length (combine (al_backends a) (al_assets a))).
  { rewrite combine_length, len_to_nat. lia. }
  rewrite Hc. unfold cat at 1.
  rewrite run_flat_bind.
  rewrite (dec_n_rt _ (fun p => enc_u32 (fst p) ++ enc_asset (snd p))
             (fun p => known_backend (fst p) = true /\ (snd p <? 18446744073709551616) = true)).
  2:{ intros [b x] r [Hb Hx]. cbn [fst snd] in *. rewrite <- app_assoc.
      unfold known_backend in Hb. apply N.eqb_eq in Hb. subst b.
      rewrite run_flat_bind, dec_u32_rt by lia. cbn [known_backend N.eqb].
      rewrite run_flat_bind, dec_asset_rt by (apply N.ltb_lt; exact Hx). reflexivity. }
  2:{ apply (Forall_combine (fun b => known_backend b = true)
                (fun x => (x <? 18446744073709551616) = true)); apply forallb_Forall; assumption. }
  rewrite run_flat_bind, dec_balances_rt by assumption.
  cbn [run_flat]. rewrite len_to_nat. unfold cat.
  rewrite run_flat_bind.
  rewrite (dec_n_rt _ enc_suballoc (fun s => suballoc_wf s = true)).
  2:{ intros s r Hs. apply dec_suballoc_rt. exact Hs. }
  2:{ apply forallb_Forall. assumption. }
  rewrite combine_fst, combine_snd by exact Hl.
  destruct a as [bk ass bl lk]; cbn [al_backends al_assets al_bals al_locked] in *.
  rewrite Hv. reflexivity.
Qed.

Lemma dec_state_rt rs s rest : state_wf_rs rs s = true ->
  run_flat (dec_state rs) (enc_state s ++ rest) = Ok (s, rest).
Proof.
  unfold state_wf_rs, state_wf. intro H. split_and.
  match goal with H : (length (st_id s) =? 32)%nat = true |- _ => apply Nat.eqb_eq in H; rename H into Hid end.
  match goal with H : (st_ver s <? _) = true |- _ => apply N.ltb_lt in H; rename H into Hver end.
  match goal with H : (len (st_data s) <? _) = true |- _ => apply N.ltb_lt in H; rename H into Hd end.
  match goal with H : data_ok _ _ _ = true |- _ => rename H into Hok end.
  unfold dec_state, enc_state. rewrite <- !app_assoc.
  rewrite run_flat_bind, dec_fixed_rt by exact Hid.
  rewrite run_flat_bind, dec_u64_rt by exact Hver.
  rewrite run_flat_bind, dec_alloc_rt by assumption.
  rewrite run_flat_bind, dec_bool_rt.
  destruct s as [id v a app d f]; cbn [st_id st_ver st_alloc st_app st_data st_final] in *.
  unfold data_ok in Hok. unfold dec_optapp, enc_optapp.
  destruct app as [def|].
  - split_and.
    match goal with H : (length def =? addr_len)%nat = true |- _ => rename H into Hdef end.
    rewrite <- !app_assoc. rewrite !run_flat_bind, dec_bool_rt. cbn [negb].
    assert (Ld : N.of_nat (length def) < 65536).
    { apply Nat.eqb_eq in Hdef. rewrite Hdef. cbn. lia. }
    rewrite !run_flat_bind, dec_marsh_rt by exact Ld.
    rewrite Hdef. cbn [negb].
    destruct (rs def) as [[|]|] eqn:Ers; try discriminate; cbn [run_flat option_map snd fst];
      unfold dec_data; rewrite !run_flat_bind, dec_marsh_rt by exact Hd.
    + destruct d; [reflexivity|discriminate].
    + match goal with H : (length d =? 8)%nat = true |- _ => rewrite H end. reflexivity.
  - rewrite !run_flat_bind, dec_bool_rt. cbn [negb run_flat option_map].
    unfold dec_data. rewrite !run_flat_bind, dec_marsh_rt by exact Hd.
    destruct d; [reflexivity|discriminate].
Qed.

(* injectivity of the encoders on well-formed values, from the round trips *)
Lemma rt_injective {A} (d : prog A) (e : A -> bytes) (wf : A -> Prop) :
  (forall a rest, wf a -> run_flat d (e a ++ rest) = Ok (a, rest)) ->
  forall a b, wf a -> wf b -> e a = e b -> a = b.
Proof.
  intros Hrt a b Ha Hb E.
  pose proof (Hrt a [] Ha) as Ra. pose proof (Hrt b [] Hb) as Rb.
  rewrite E in Ra. rewrite Ra in Rb. injection Rb as ->. reflexivity.
Qed.

Lemma enc_suballoc_inj a b : suballoc_wf a = true -> suballoc_wf b = true ->
  enc_suballoc a = enc_suballoc b -> a = b.
Proof. apply (rt_injective dec_suballoc enc_suballoc (fun s => suballoc_wf s = true)).
  intros; apply dec_suballoc_rt; assumption. Qed.
Lemma enc_balances_inj a b : balances_wf a = true -> balances_wf b = true ->
  enc_balances a = enc_balances b -> a = b.
Proof. apply (rt_injective dec_balances enc_balances (fun s => balances_wf s = true)).
  intros; apply dec_balances_rt; assumption. Qed.
Lemma enc_alloc_inj a b : alloc_wf a = true -> alloc_wf b = true ->
  enc_alloc a = enc_alloc b -> a = b.
Proof. apply (rt_injective dec_alloc enc_alloc (fun s => alloc_wf s = true)).
  intros; apply dec_alloc_rt; assumption. Qed.
Lemma enc_state_inj rs a b : state_wf_rs rs a = true -> state_wf_rs rs b = true ->
  enc_state a = enc_state b -> a = b.
Proof. apply (rt_injective (dec_state rs) enc_state (fun s => state_wf_rs rs s = true)).
  intros; apply dec_state_rt; assumption. Qed.

(* ---- C15: equal exactly when the encodings are identical ---- *)
Lemma suballoc_equal_iff_enc a b : suballoc_wf a = true -> suballoc_wf b = true ->
  (suballoc_equal a b = true <-> enc_suballoc a = enc_suballoc b).
Proof. intros Ha Hb. rewrite suballoc_equal_eq. split; [intros ->; reflexivity|apply enc_suballoc_inj; assumption]. Qed.
Lemma balances_equal_iff_enc a b : balances_wf a = true -> balances_wf b = true ->
  (balances_equal a b = true <-> enc_balances a = enc_balances b).
Proof. intros Ha Hb. rewrite balances_equal_eq. split; [intros ->; reflexivity|apply enc_balances_inj; assumption]. Qed.
Lemma alloc_equal_iff_enc a b : alloc_wf a = true -> alloc_wf b = true ->
  (alloc_equal a b = true <-> enc_alloc a = enc_alloc b).
Proof. intros Ha Hb. rewrite alloc_equal_eq. split; [intros ->; reflexivity|apply enc_alloc_inj; assumption]. Qed.
Lemma state_equal_iff_enc rs a b : state_wf_rs rs a = true -> state_wf_rs rs b = true ->
  (state_equal a b = true <-> enc_state a = enc_state b).
Proof. intros Ha Hb. rewrite state_equal_eq. split; [intros ->; reflexivity|apply (enc_state_inj rs); assumption]. Qed.
