(* C06: the global invariant of the update protocol LTS and the property theorems. *)
From Coq Require Import Arith PeanoNat ZifyN ZifyNat ZifyBool Lia.
From V Require Import Model.Update Proofs.ChannelP Proofs.MachineP Proofs.UpdateLocalP.
Open Scope N_scope.

Definition two64 : N := 18446744073709551616.

Section Channel.
  Variable P : mparams.
  Variables k0 k1 : N.
  Hypothesis HP : mp_parts P = [k0; k1].

  Notation key := (key k0 k1).
  Notation sigof := (sigof k0 k1).
  Notation sig_ok := (sig_ok k0 k1).
  Notation mkm := (mkm P).
  Notation fs2 := (fs2 k0 k1).
  Notation vtc := (vtc P).

  (* ---------- local invariant: control state vs. machine ---------- *)
  Definition rest (p : pid) (m : mach) (c : tx) : Prop :=
    (m = mkm p Acting None c /\ st_final (tx_st c) = false) \/
    (m = mkm p Final None c /\ st_final (tx_st c) = true).
  Definition propok (p : pid) (c : tx) (st : state) : Prop := vtc c st (pidx p) = OK /\ locked_same c st.

  Definition LIc (p : pid) (x : party) (c : tx) : Prop :=
    match ctl x with
    | Idle | RGot _ _ _ | RReject _ | Crashed => rest p (mc x) c
    | RChecked st a g | RAccept st a g =>
        mc x = mkm p Acting None c /\ a = pidx (other p) /\ vtc c st a = OK /\ sig_ok (other p) st g
    | PStaged st => mc x = mkm p Signing (stx p st None None) c /\ propok p c st
    | PSigned st g =>
        mc x = mkm p Signing (stx p st (Some g) None) c /\ propok p c st /\ g = sigof p st
        /\ state_encodable st = true
    | PWait st | PAcc st _ =>
        mc x = mkm p Signing (stx p st (Some (sigof p st)) None) c /\ propok p c st
        /\ state_encodable st = true
    | PAdded st =>
        exists g, mc x = mkm p Signing (stx p st (Some (sigof p st)) (Some g)) c /\ succ c st
                  /\ state_encodable st = true /\ sig_ok (other p) st g /\ In st (flog x)
    | PFail st r => r <> RSuccess /\ exists o1, mc x = mkm p Signing (stx p st o1 None) c /\ st_final (tx_st c) = false
    | RStaged st g => mc x = mkm p Signing (stx p st None None) c /\ succ c st /\ sig_ok (other p) st g
    | RAdded st => exists g, mc x = mkm p Signing (stx p st None (Some g)) c /\ succ c st /\ sig_ok (other p) st g
    | RSigned st g' =>
        exists g, mc x = mkm p Signing (stx p st (Some (sigof p st)) (Some g)) c /\ g' = sigof p st
                  /\ succ c st /\ sig_ok (other p) st g /\ In st (flog x)
    | RSent st =>
        exists g, mc x = mkm p Signing (stx p st (Some (sigof p st)) (Some g)) c
                  /\ succ c st /\ sig_ok (other p) st g /\ In st (flog x)
    | RFail => False
    end.
  Definition LI (p : pid) (x : party) : Prop :=
    exists c, fs2 c /\ st_ver (tx_st c) < two64 /\ In (tx_st c) (flog x) /\ LIc p x c.

  (* ---------- the messages of one direction (Y proposes, X = other Y responds) ---------- *)
  Definition in_dir (Y : pid) (m : msg) : bool :=
    match m with
    | MReq f _ _ _ => pid_eqb f Y
    | MAcc f _ _ | MRej f _ => pid_eqb f (other Y)
    end.
  Definition dmsgs (Y : pid) (n : list msg) : list msg := filter (in_dir Y) n.

  Definition is_resp (c : pc) : bool :=
    match c with
    | RGot _ _ _ | RChecked _ _ _ | RAccept _ _ _ | RReject _ | RStaged _ _ | RAdded _ | RSigned _ _
    | RSent _ | RFail => true
    | _ => false
    end.
  (* a responder run that has not yet sent its acceptance *)
  Definition resp_busy (c : pc) : bool :=
    match c with RSent _ => false | _ => is_resp c end.
  Definition handling (c : pc) (st : state) (Y : pid) : Prop :=
    match c with
    | RGot s a g | RChecked s a g | RAccept s a g => s = st /\ a = pidx Y /\ g = sigof Y st
    | RStaged s g => s = st /\ g = sigof Y st
    | RReject s | RAdded s | RSigned s _ => s = st
    | _ => False
    end.
  (* X has sent its acceptance of st: its enable is pending or done *)
  Definition committed (x : party) (st : state) : Prop :=
    In st (flog x) /\
    (ctl x = RSent st \/ (is_resp (ctl x) = false /\ option_map tx_st (current (mc x)) = Some st)).

  Definition Dir (s : sys) (Y : pid) : Prop :=
    let X := other Y in
    let cX := ctl (getp s X) in
    let d := dmsgs Y (net s) in
    match ctl (getp s Y) with
    | PWait st =>
           (d = [MReq Y st (pidx Y) (sigof Y st)] /\ resp_busy cX = false)
        \/ (d = [] /\ handling cX st Y)
        \/ (d = [MAcc X (st_ver st) (sigof X st)] /\ committed (getp s X) st)
        \/ (d = [MRej X (st_ver st)] /\ resp_busy cX = false)
    | PAcc st g => d = [] /\ g = sigof X st /\ committed (getp s X) st
    | PAdded st => d = [] /\ committed (getp s X) st
    | _ => d = [] /\ resp_busy cX = false
    end.

  (* the state a party has or is bound to have: its current state, or the state of the run that its
     peer has already accepted / that it has accepted itself *)
  Definition has_acc (d : list msg) : bool :=
    existsb (fun m => match m with MAcc _ _ _ => true | _ => false end) d.
  Definition eff (s : sys) (X : pid) : option state :=
    match ctl (getp s X) with
    | RSent st | PAcc st _ | PAdded st => Some st
    | PWait st => if has_acc (dmsgs X (net s)) then Some st else cur_state s X
    | _ => cur_state s X
    end.

  (* ---------- agreement ---------- *)
  Definition flogs (s : sys) : list state := flog (pa s) ++ flog (pb s).
  Definition nowrap (s : sys) : Prop := forall x, In x (flogs s) -> st_ver x < two64 - 1.
  Definition pending (s : sys) (x : state) : Prop := exists X g, ctl (getp s X) = RSigned x g.
  Definition AG (s : sys) : Prop :=
    nowrap s ->
    exists E, eff s PA = Some E /\ In E (flogs s)
      /\ (forall x, In x (flogs s) -> st_ver x <= st_ver E \/ (pending s x /\ st_ver x = st_ver E + 1))
      /\ (forall x y, In x (flogs s) -> In y (flogs s) -> st_ver x = st_ver y -> x = y).

  Record GI (s : sys) : Prop := mkGI {
    gi_li : forall p, LI p (getp s p);
    gi_dir : forall Y, Dir s Y;
    gi_sync : eff s PA = eff s PB;
    gi_ag : AG s }.

  (* ---------- basic consequences ---------- *)
  Lemma LIc_current p x c : LIc p x c -> current (mc x) = Some c.
  Proof.
    unfold LIc, rest. destruct (ctl x); intro H;
      repeat match goal with
             | H : exists _, _ |- _ => destruct H as [? H]
             | H : _ /\ _ |- _ => destruct H as [H ?]
             | H : _ \/ _ |- _ => destruct H as [H|H]
             | H : False |- _ => elim H
             | H : mc x = _ |- _ => rewrite H; reflexivity
             end.
  Qed.
  Lemma LI_current p x : LI p x -> exists c, current (mc x) = Some c /\ fs2 c /\ st_ver (tx_st c) < two64.
  Proof. intros (c & F & V & _ & L). exists c. split; [eapply LIc_current; exact L|]. auto. Qed.

  Lemma sync_sym s p : eff s PA = eff s PB -> eff s p = eff s (other p).
  Proof. destruct p; cbn [other]; auto. Qed.

  (* ---------- how the LTS updates the system ---------- *)
  Lemma getp_upd_same s p m c : getp (upd s p m c) p = mkParty m c (flog (getp s p)).
  Proof. unfold upd. apply getp_setp_same. Qed.
  Lemma getp_upd_other s p m c : getp (upd s p m c) (other p) = getp s (other p).
  Proof. unfold upd. apply getp_setp_other. Qed.
  Lemma net_upd s p m c : net (upd s p m c) = net s.
  Proof. destruct p; reflexivity. Qed.
  Lemma getp_updf_same s p m c : getp (upd_full s p m c) p = mkParty m c (note_full m (flog (getp s p))).
  Proof. unfold upd_full. apply getp_setp_same. Qed.
  Lemma getp_updf_other s p m c : getp (upd_full s p m c) (other p) = getp s (other p).
  Proof. unfold upd_full. apply getp_setp_other. Qed.
  Lemma net_updf s p m c : net (upd_full s p m c) = net s.
  Proof. destruct p; reflexivity. Qed.
  Lemma getp_with_net s n q : getp (with_net s n) q = getp s q.
  Proof. destruct q; reflexivity. Qed.
  Lemma net_with_net s n : net (with_net s n) = n.
  Proof. reflexivity. Qed.
  Lemma getp_finish s p st r q : getp (finish s p st r) q = getp s q.
  Proof. destruct q; reflexivity. Qed.
  Lemma net_finish s p st r : net (finish s p st r) = net s.
  Proof. reflexivity. Qed.

  (* what the invariant observes of a control state as proposer / as responder *)
  Definition pview (c : pc) : pc :=
    match c with PWait st => PWait st | PAcc st g => PAcc st g | PAdded st => PAdded st | _ => Idle end.
  Record same_resp (Y : pid) (c c' : pc) : Prop := {
    sr_busy : resp_busy c' = resp_busy c;
    sr_resp : is_resp c' = is_resp c;
    sr_hand : forall st, handling c' st Y <-> handling c st Y;
    sr_sent : forall st, c' = RSent st <-> c = RSent st;
    sr_signed : forall st g, c' = RSigned st g <-> c = RSigned st g }.

  Definition rview (c : pc) : pc :=
    match c with
    | RGot s a g | RChecked s a g | RAccept s a g => RGot s a g
    | RStaged s g => RStaged s g | RReject s => RReject s | RAdded s => RAdded s
    | RSigned s g => RSigned s g | RSent s => RSent s | RFail => RFail
    | _ => Idle
    end.
  Lemma rview_same Y c c' : rview c' = rview c -> same_resp Y c c'.
  Proof.
    intro H. split.
    - destruct c, c'; cbn in H; try discriminate H; reflexivity.
    - destruct c, c'; cbn in H; try discriminate H; reflexivity.
    - intros st. destruct c, c'; cbn in H; try discriminate H; cbn [handling]; try tauto;
        inversion H; subst; tauto.
    - intro st. destruct c, c'; cbn in H; try discriminate H; split; intro E; try discriminate E; congruence.
    - intros st g. destruct c, c'; cbn in H; try discriminate H; split; intro E; try discriminate E; congruence.
  Qed.

  (* frame: party p moves from x to x' without touching network, logs or its current transaction *)
  Section Frame.
    Variables (s s' : sys) (p : pid).
    Hypothesis Hoth : getp s' (other p) = getp s (other p).
    Hypothesis Hnet : net s' = net s.
    Hypothesis Hflog : flog (getp s' p) = flog (getp s p).
    Hypothesis Hcur : current (mc (getp s' p)) = current (mc (getp s p)).
    Hypothesis Hpv : pview (ctl (getp s' p)) = pview (ctl (getp s p)).
    Hypothesis Hrv : same_resp (other p) (ctl (getp s p)) (ctl (getp s' p)).

    Lemma frame_committed st : committed (getp s p) st -> committed (getp s' p) st.
    Proof.
      unfold committed. rewrite Hflog, Hcur, (sr_resp _ _ _ Hrv). intros [I [E|E]]; split; auto.
      left. apply (sr_sent _ _ _ Hrv). exact E.
    Qed.
    Lemma frame_committed' st : committed (getp s' p) st -> committed (getp s p) st.
    Proof.
      unfold committed. rewrite Hflog, Hcur, (sr_resp _ _ _ Hrv). intros [I [E|E]]; split; auto.
      left. apply (sr_sent _ _ _ Hrv). exact E.
    Qed.

    Lemma frame_dir_self : Dir s p -> Dir s' p.
    Proof.
      unfold Dir. rewrite Hoth, Hnet.
      destruct (ctl (getp s p)) eqn:C, (ctl (getp s' p)) eqn:C'; cbn in Hpv; try discriminate Hpv;
        try (injection Hpv as ?; subst); try (intro H; exact H);
        try (injection Hpv as ? ?; subst; intro H; exact H).
    Qed.
    Lemma frame_dir_other : Dir s (other p) -> Dir s' (other p).
    Proof.
      unfold Dir. rewrite other_other, Hoth, Hnet. rewrite (sr_busy _ _ _ Hrv).
      destruct (ctl (getp s (other p))); try (intro H; exact H).
      - intros [H|[H|[H|H]]]; [left; exact H|right; left|right; right; left|right; right; right; exact H].
        + destruct H as [D H]. split; [exact D|]. apply (sr_hand _ _ _ Hrv). exact H.
        + destruct H as [D H]. split; [exact D|]. apply frame_committed. exact H.
      - intros (D & G & H). split; [exact D|]. split; [exact G|]. apply frame_committed. exact H.
      - intros (D & H). split; [exact D|]. apply frame_committed. exact H.
    Qed.
    Lemma frame_cur q : cur_state s' q = cur_state s q.
    Proof.
      unfold cur_state. destruct (pid_cases p q) as [->| ->]; [rewrite Hcur|rewrite Hoth]; reflexivity.
    Qed.
    Lemma frame_eff q : eff s' q = eff s q.
    Proof.
      unfold eff. rewrite frame_cur, Hnet. destruct (pid_cases p q) as [->| ->]; [|rewrite Hoth; reflexivity].
      pose proof Hpv as Hpv'. pose proof Hrv as Hrv'. revert Hpv' Hrv'.
      generalize (ctl (getp s p)) (ctl (getp s' p)). intros c c' Hpv' Hrv'.
      destruct c, c'; cbn in Hpv'; try discriminate Hpv'; try reflexivity;
        try (inversion Hpv'; subst; reflexivity);
        match type of Hrv' with
        | same_resp _ (RSent ?st) _ => pose proof (proj2 (sr_sent _ _ _ Hrv' st) eq_refl) as X
        | same_resp _ _ (RSent ?st) => pose proof (proj1 (sr_sent _ _ _ Hrv' st) eq_refl) as X
        end; try discriminate X; inversion X; subst; reflexivity.
    Qed.
    Lemma frame_flogs : flogs s' = flogs s.
    Proof.
      unfold flogs. destruct p; cbn [getp other] in *; rewrite Hflog, Hoth; reflexivity.
    Qed.
    Lemma frame_pending x : pending s' x <-> pending s x.
    Proof.
      unfold pending. split; intros (X & g & E); exists X, g;
        (destruct (pid_cases p X) as [->| ->]; [apply (sr_signed _ _ _ Hrv); exact E|]).
      - rewrite Hoth in E. exact E.
      - rewrite Hoth. exact E.
    Qed.
    Lemma frame_AG : AG s -> AG s'.
    Proof.
      unfold AG, nowrap. rewrite frame_flogs, frame_eff. intros H N. destruct (H N) as (E & HE & IE & B & U).
      exists E. split; [exact HE|]. split; [exact IE|]. split; [|exact U].
      intros x Hx. destruct (B x Hx) as [L|[Pn V]]; [left; exact L|right]. split; [|exact V].
      apply frame_pending. exact Pn.
    Qed.

    Lemma frame_GI : GI s -> LI p (getp s' p) -> GI s'.
    Proof.
      intros [L D Sy A] L'. split.
      - intro q. destruct (pid_cases p q) as [->| ->]; [exact L'|]. rewrite Hoth. apply L.
      - intro Y. destruct (pid_cases p Y) as [->| ->]; [apply frame_dir_self|apply frame_dir_other]; apply D.
      - rewrite !frame_eff. exact Sy.
      - apply frame_AG. exact A.
    Qed.
  End Frame.

  Lemma same_resp_refl Y c : same_resp Y c c.
  Proof. split; intros; tauto || reflexivity. Qed.

  Lemma frame_upd s p m' c' :
    GI s -> current m' = current (mc (getp s p)) -> pview c' = pview (ctl (getp s p)) ->
    same_resp (other p) (ctl (getp s p)) c' -> LI p (mkParty m' c' (flog (getp s p))) -> GI (upd s p m' c').
  Proof.
    intros G Hc Hp Hr L. apply (frame_GI s _ p); rewrite ?getp_upd_same, ?getp_upd_other, ?net_upd; auto.
  Qed.
  Lemma GI_finish s p st r : GI s -> GI (finish s p st r).
  Proof.
    intro G. apply (frame_GI s _ PA); rewrite ?getp_finish, ?net_finish; auto.
    - apply same_resp_refl.
    - apply (gi_li s G).
  Qed.

  Ltac li_open G p c F V I L C :=
    destruct (gi_li _ G p) as (c & F & V & I & L); unfold LIc in L; rewrite C in L.

  (* ---------- Channel.Update: staging ---------- *)
  Lemma stage_out_idle p m c st :
    rest p m c ->
    stage_out m p st =
    match (if suballocs_equal (al_locked (st_alloc (tx_st c))) (al_locked (st_alloc st)) then OK else ERR) with
    | OK => if phase_eqb (ph m) Acting
            then match vtc c st (pidx p) with
                 | OK => (mkm p Signing (stx p st None None) c, OK)
                 | r => (m, r)
                 end
            else (m, ERR)
    | r => (m, r)
    end.
  Proof.
    intros [[-> Fin]|[-> Fin]]; unfold stage_out; rewrite two_party_mkm, N.eqb_refl; cbn [andb];
      destruct (suballocs_equal _ _); try reflexivity.
    rewrite (op_update_gen P k0 k1 HP). reflexivity.
  Qed.

  Lemma gi_LStage s p st s' : GI s -> lstep s (LStage p st) = Some s' -> GI s'.
  Proof.
    intros G H. unfold lstep in H. cbn [label_party] in H.
    destruct (ctl (getp s p)) eqn:C; try discriminate H.
    li_open G p c F V Hin L C.
    rewrite (stage_out_idle p _ c st L) in H.
    destruct (suballocs_equal _ _) eqn:SE; [|discriminate H].
    destruct L as [[M Fin]|[M Fin]]; rewrite M in H; cbn [ph mkm phase_eqb phase_num N.eqb Pos.eqb] in H;
      [|discriminate H].
    destruct (vtc c st (pidx p)) eqn:VT; try discriminate H.
    injection H as <-.
    apply frame_upd; auto.
    - rewrite M. reflexivity.
    - rewrite C. reflexivity.
    - rewrite C. apply rview_same. reflexivity.
    - exists c. split; [exact F|]. split; [exact V|]. split; [exact Hin|].
      unfold LIc. cbn [ctl mc]. split; [reflexivity|]. split; [exact VT|exact SE].
  Qed.

  Lemma gi_LStageBad s p st s' : GI s -> lstep s (LStageBad p st) = Some s' -> GI s'.
  Proof.
    intros G H. unfold lstep in H. cbn [label_party] in H.
    destruct (ctl (getp s p)) eqn:C; try discriminate H.
    li_open G p c F V Hin L C.
    assert (X : (exists m', stage_out (mc (getp s p)) p st = (m', OK)) \/
                exists o, stage_out (mc (getp s p)) p st = (mc (getp s p), o) /\ (o = ERR \/ o = PANIC)).
    { rewrite (stage_out_idle p _ c st L).
      destruct (suballocs_equal _ _); [|eauto].
      destruct (phase_eqb _ _); [|eauto].
      destruct (vtc c st (pidx p)) eqn:VT; eauto. exfalso. eapply vtc_no_sig. exact VT. }
    destruct X as [(m' & E)|(o & E & Ho)]; rewrite E in H; [discriminate H|].
    assert (H' : s' = finish (upd s p (mc (getp s p)) (on_out o Idle Idle)) p st RError).
    { destruct Ho as [->| ->]; injection H as <-; reflexivity. }
    subst s'. apply GI_finish. apply frame_upd; auto.
    - rewrite C. destruct Ho as [->| ->]; reflexivity.
    - rewrite C. apply rview_same. destruct Ho as [->| ->]; reflexivity.
    - exists c. split; [exact F|]. split; [exact V|]. split; [exact Hin|].
      unfold LIc. cbn [ctl mc]. destruct Ho as [->| ->]; exact L.
  Qed.

  Lemma note_full_partial p m st a b l :
    staging m = stx p st a b -> (a = None \/ b = None) -> note_full m l = l.
  Proof.
    intros E H. unfold note_full. rewrite E. unfold stx. cbn [tx_sigs].
    rewrite all_some_sigs2. destruct H as [->| ->]; [reflexivity|destruct a; reflexivity].
  Qed.
  Lemma upd_full_partial s p m c st a b :
    staging m = stx p st a b -> (a = None \/ b = None) -> upd_full s p m c = upd s p m c.
  Proof. intros E H. unfold upd_full, upd. rewrite (note_full_partial p m st a b _ E H). reflexivity. Qed.

  Lemma propok_succ p c st : propok p c st -> succ c st.
  Proof. intros [V _]. eapply vtc_ok_succ. exact V. Qed.

  (* ---------- proposer: sign ---------- *)
  Lemma gi_LSign s p s' : GI s -> lstep s (LSign p) = Some s' -> GI s'.
  Proof.
    intros G H. unfold lstep in H. cbn [label_party] in H.
    destruct (ctl (getp s p)) eqn:C; try discriminate H.
    li_open G p c F V Hin L C. destruct L as [M PO]. rewrite M in H.
    destruct (state_encodable s0) eqn:E.
    - rewrite (op_sig P k0 k1 HP) in H by exact E. injection H as <-.
      rewrite (upd_full_partial _ p _ _ s0 (Some (sigof p s0)) None) by (auto; reflexivity).
      apply frame_upd; auto.
      + rewrite M. reflexivity.
      + rewrite C. reflexivity.
      + rewrite C. apply rview_same. reflexivity.
      + exists c. split; [exact F|]. split; [exact V|]. split; [exact Hin|].
        unfold LIc. cbn [ctl mc]. auto.
    - rewrite (op_sig_unencodable P k0 k1 HP) in H by exact E. injection H as <-. cbn [on_out].
      apply frame_upd; auto.
      + rewrite M. reflexivity.
      + rewrite C. reflexivity.
      + rewrite C. apply rview_same. reflexivity.
      + exists c. split; [exact F|]. split; [exact V|]. split; [exact Hin|].
        unfold LIc. cbn [ctl mc]. split; [discriminate|]. exists None. split; [reflexivity|]. apply (propok_succ p c s0 PO).
  Qed.

  (* ---------- discard ---------- *)
  Lemma gi_LDiscard s p s' : GI s -> lstep s (LDiscard p) = Some s' -> GI s'.
  Proof.
    intros G H. unfold lstep in H. cbn [label_party] in H.
    destruct (ctl (getp s p)) eqn:C; try discriminate H.
    - li_open G p c F V Hin L C. destruct L as (_ & o1 & M & Fin). rewrite M in H.
      rewrite op_discard in H. cbn [fst] in H. injection H as <-.
      apply GI_finish. apply frame_upd; auto.
      + rewrite M. reflexivity.
      + rewrite C. reflexivity.
      + rewrite C. apply rview_same. reflexivity.
      + exists c. split; [exact F|]. split; [exact V|]. split; [exact Hin|].
        unfold LIc. cbn [ctl mc]. left. auto.
    - li_open G p c F V Hin L C. elim L.
  Qed.

  (* a busy responder is handling the pending request of its peer *)
  Lemma resp_handling s p :
    GI s -> resp_busy (ctl (getp s p)) = true ->
    exists st, ctl (getp s (other p)) = PWait st /\ dmsgs (other p) (net s) = []
               /\ handling (ctl (getp s p)) st (other p).
  Proof.
    intros G B. pose proof (gi_dir s G (other p)) as D. unfold Dir in D. rewrite other_other in D.
    assert (NC : forall st, ~ committed (getp s p) st).
    { intros st [_ [E|[E _]]].
      - rewrite E in B. discriminate B.
      - destruct (ctl (getp s p)); cbn in B, E; congruence. }
    destruct (ctl (getp s (other p))) eqn:C;
      try (destruct D as [_ D]; rewrite B in D; discriminate D).
    - destruct D as [[_ D]|[[D1 D2]|[[_ D]|[_ D]]]].
      + rewrite B in D. discriminate D.
      + exists s0. auto.
      + elim (NC _ D).
      + rewrite B in D. discriminate D.
    - destruct D as (_ & _ & D). elim (NC _ D).
    - destruct D as (_ & D). elim (NC _ D).
  Qed.

  (* ---------- responder: user decision, stage, add the proposer's signature ---------- *)
  Lemma gi_LDecide s p b s' : GI s -> lstep s (LDecide p b) = Some s' -> GI s'.
  Proof.
    intros G H. unfold lstep in H. cbn [label_party] in H.
    destruct (ctl (getp s p)) eqn:C; try discriminate H.
    injection H as <-.
    destruct (resp_handling s p G) as (st & CY & DY & HY); [rewrite C; reflexivity|].
    rewrite C in HY. cbn [handling] in HY. destruct HY as (-> & -> & ->).
    li_open G p c F V Hin L C.
    apply frame_upd; auto.
    - rewrite C. destruct b; reflexivity.
    - rewrite C. destruct b; [apply rview_same; reflexivity|].
      split; try reflexivity.
      + intro st'. cbn [handling]. split; [intros ->; auto|intros [E _]; exact E].
      + intro st'. split; discriminate.
      + intros st' g'. split; discriminate.
    - exists c. split; [exact F|]. split; [exact V|]. split; [exact Hin|].
      unfold LIc. cbn [ctl mc]. destruct b; [exact L|]. left.
      destruct L as (M & _ & VT & _). split; [exact M|]. apply (vtc_ok_succ P c st _ VT).
  Qed.

  Lemma gi_LRStage s p s' : GI s -> lstep s (LRStage p) = Some s' -> GI s'.
  Proof.
    intros G H. unfold lstep in H. cbn [label_party] in H.
    destruct (ctl (getp s p)) eqn:C; try discriminate H.
    li_open G p c F V Hin L C. destruct L as (M & A & VT & SO). rewrite M in H.
    rewrite (op_update P k0 k1 HP) in H by exact VT. injection H as <-. cbn [on_out].
    apply frame_upd; auto.
    - rewrite M. reflexivity.
    - rewrite C. reflexivity.
    - rewrite C. split; try reflexivity.
      + intro st'. cbn [handling]. rewrite A. tauto.
      + intro st'. split; discriminate.
      + intros st' g'. split; discriminate.
    - exists c. split; [exact F|]. split; [exact V|]. split; [exact Hin|].
      unfold LIc. cbn [ctl mc]. split; [reflexivity|]. split; [apply (vtc_ok_succ P c s0 _ VT)|exact SO].
  Qed.

  Lemma gi_LRAddSig s p s' : GI s -> lstep s (LRAddSig p) = Some s' -> GI s'.
  Proof.
    intros G H. unfold lstep in H. cbn [label_party] in H.
    destruct (ctl (getp s p)) eqn:C; try discriminate H.
    destruct (resp_handling s p G) as (st & CY & DY & HY); [rewrite C; reflexivity|].
    rewrite C in HY. cbn [handling] in HY. destruct HY as (-> & ->).
    li_open G p c F V Hin L C. destruct L as (M & SU & SO). rewrite M in H.
    rewrite (op_addsig P k0 k1 HP) in H by exact SO. injection H as <-. cbn [on_out].
    rewrite (upd_full_partial _ p _ _ st None (Some (sigof (other p) st))) by (auto; reflexivity).
    apply frame_upd; auto.
    - rewrite M. reflexivity.
    - rewrite C. reflexivity.
    - rewrite C. split; try reflexivity.
      + intro st'. cbn [handling]. split; [intros ->; auto|intros [E _]; exact E].
      + intro st'. split; discriminate.
      + intros st' g'. split; discriminate.
    - exists c. split; [exact F|]. split; [exact V|]. split; [exact Hin|].
      unfold LIc. cbn [ctl mc]. exists (sigof (other p) st). auto.
  Qed.

  (* while a request is pending and not yet accepted, both parties have the same current state *)
  Lemma cur_of_LI p x c : LI p x -> current (mc x) = Some c -> option_map tx_st (current (mc x)) = Some (tx_st c).
  Proof. intros _ ->. reflexivity. Qed.

  Lemma gi_LCheck s p s' : GI s -> lstep s (LCheck p) = Some s' -> GI s'.
  Proof.
    intros G H. unfold lstep in H. cbn [label_party] in H.
    destruct (ctl (getp s p)) eqn:C; try discriminate H.
    destruct (resp_handling s p G) as (st & CY & DY & HY); [rewrite C; reflexivity|].
    rewrite C in HY. cbn [handling] in HY. destruct HY as (-> & -> & ->).
    li_open G p c F V Hin L C.
    destruct (gi_li s G (other p)) as (cY & FY & VY & HinY & LY). unfold LIc in LY. rewrite CY in LY.
    destruct LY as (MY & [VTY LSY] & EY).
    (* same current state on both sides *)
    pose proof (sync_sym s p (gi_sync s G)) as Sy. unfold eff in Sy. rewrite C, CY, DY in Sy. cbn [has_acc existsb] in Sy.
    unfold cur_state in Sy. rewrite MY in Sy. cbn [mkm current option_map] in Sy.
    assert (TE : tx_st c = tx_st cY).
    { destruct L as [[M _]|[M _]]; rewrite M in Sy; cbn [mkm current option_map] in Sy; congruence. }
    pose proof (vtc_ok_succ P cY st _ VTY) as [FinY _].
    assert (M : mc (getp s p) = mkm p Acting None c).
    { destruct L as [[M _]|[M Fin]]; [exact M|]. rewrite TE in Fin. congruence. }
    assert (VT : vtc c st (pidx (other p)) = OK) by (rewrite (vtc_ext P c cY) by exact TE; exact VTY).
    assert (SO : sig_ok (other p) st (sigof (other p) st)) by (apply sigof_ok; exact EY).
    rewrite M in H. rewrite (op_check P k0 k1 HP p c Acting st _ _ VT SO) in H.
    rewrite two_party_mkm, N.eqb_refl in H. cbn [andb] in H.
    unfold locked_same in LSY. rewrite TE, LSY in H. cbn [on_out] in H. injection H as <-.
    apply frame_upd; auto.
    - rewrite M. reflexivity.
    - rewrite C. reflexivity.
    - rewrite C. apply rview_same. reflexivity.
    - exists c. split; [exact F|]. split; [exact V|]. split; [exact Hin|].
      unfold LIc. cbn [ctl mc]. auto.
  Qed.

  (* ---------- steps that touch the network, the logs or the current transaction ---------- *)
  Lemma GI_intro s s' p :
    GI s -> getp s' (other p) = getp s (other p) -> LI p (getp s' p) ->
    Dir s' p -> Dir s' (other p) -> eff s' p = eff s' (other p) -> AG s' -> GI s'.
  Proof.
    intros G Ho L Dp Dq Sy A. split.
    - intro q. destruct (pid_cases p q) as [->| ->]; [exact L|]. rewrite Ho. apply (gi_li s G).
    - intro Y. destruct (pid_cases p Y) as [->| ->]; assumption.
    - destruct p; cbn [other] in Sy; congruence.
    - exact A.
  Qed.

  Lemma in_dir_flip Y m : in_dir (other Y) m = negb (in_dir Y m).
  Proof. destruct m, Y, from; reflexivity. Qed.
  Lemma dmsgs_cons Y m n : dmsgs Y (m :: n) = if in_dir Y m then m :: dmsgs Y n else dmsgs Y n.
  Proof. reflexivity. Qed.
  Lemma dmsgs_remove f n m n' Y x :
    remove_first f n = Some (m, n') -> in_dir Y m = true -> dmsgs Y n = [x] ->
    m = x /\ dmsgs Y n' = [] /\ dmsgs (other Y) n' = dmsgs (other Y) n.
  Proof.
    intros R D E. destruct (remove_first_spec f n m n' R) as (_ & l1 & l2 & -> & ->).
    unfold dmsgs in *. destruct (filter_app_singleton _ l1 m l2 x E D) as [-> E'].
    split; [reflexivity|]. split; [exact E'|].
    symmetry. apply filter_app_skip. rewrite in_dir_flip, D. reflexivity.
  Qed.
  Lemma remove_first_in f n m n' : remove_first f n = Some (m, n') -> In m n.
  Proof.
    intro R. destruct (remove_first_spec f n m n' R) as (_ & l1 & l2 & -> & _).
    apply in_or_app. right. left. reflexivity.
  Qed.
  Lemma dmsgs_in Y m n : In m n -> in_dir Y m = true -> In m (dmsgs Y n).
  Proof. intros I D. apply filter_In. auto. Qed.

  Lemma dir_other_frame s s' p :
    getp s' (other p) = getp s (other p) ->
    dmsgs (other p) (net s') = dmsgs (other p) (net s) ->
    resp_busy (ctl (getp s' p)) = resp_busy (ctl (getp s p)) ->
    (forall st, handling (ctl (getp s p)) st (other p) -> handling (ctl (getp s' p)) st (other p)) ->
    (forall st, committed (getp s p) st -> committed (getp s' p) st) ->
    Dir s (other p) -> Dir s' (other p).
  Proof.
    intros Ho Hd Hb Hh Hc. unfold Dir. rewrite other_other, Ho, Hd, Hb.
    destruct (ctl (getp s (other p))); try (intro H; exact H).
    - intros [H|[H|[H|H]]]; [left; exact H|right; left|right; right; left|right; right; right; exact H].
      + destruct H as [D H]. split; [exact D|]. apply Hh. exact H.
      + destruct H as [D H]. split; [exact D|]. apply Hc. exact H.
    - intros (D & G & H). split; [exact D|]. split; [exact G|]. apply Hc. exact H.
    - intros (D & H). split; [exact D|]. apply Hc. exact H.
  Qed.
  Lemma dir_other_rview s s' p :
    getp s' (other p) = getp s (other p) ->
    dmsgs (other p) (net s') = dmsgs (other p) (net s) ->
    rview (ctl (getp s' p)) = rview (ctl (getp s p)) ->
    (forall st, committed (getp s p) st -> committed (getp s' p) st) ->
    Dir s (other p) -> Dir s' (other p).
  Proof.
    intros Ho Hd Hr Hc. pose proof (rview_same (other p) _ _ Hr) as R.
    apply dir_other_frame; auto; [apply (sr_busy _ _ _ R)|intros st; apply (sr_hand _ _ _ R)].
  Qed.

  Lemma committed_keep x x' st :
    flog x' = flog x -> current (mc x') = current (mc x) ->
    is_resp (ctl x) = false -> is_resp (ctl x') = false ->
    committed x st -> committed x' st.
  Proof.
    intros Hf Hc R R'. unfold committed. rewrite Hf, Hc, R'. intros [I [E|[_ E]]]; split; auto.
    rewrite E in R. discriminate R.
  Qed.

  Lemma AG_same s s' :
    (forall x, In x (flogs s') <-> In x (flogs s)) -> eff s' PA = eff s PA ->
    (forall x, pending s x -> pending s' x) -> AG s -> AG s'.
  Proof.
    intros Hf He Hp A N.
    assert (N0 : nowrap s) by (intros x Hx; apply N, Hf, Hx).
    destruct (A N0) as (E & HE & IE & B & U).
    exists E. rewrite He. split; [exact HE|]. split; [apply Hf; exact IE|]. split.
    - intros x Hx. apply Hf in Hx. destruct (B x Hx) as [L|[Pn V]]; auto.
    - intros x y Hx Hy. apply U; apply Hf; assumption.
  Qed.
  Lemma flogs_same s s' p :
    getp s' (other p) = getp s (other p) -> flog (getp s' p) = flog (getp s p) ->
    forall x, In x (flogs s') <-> In x (flogs s).
  Proof. unfold flogs. destruct p; cbn [getp other]; intros -> ->; tauto. Qed.
  Lemma flogs_set s s' p :
    getp s' (other p) = getp s (other p) -> flog (getp s' p) = flog (getp s p) -> flogs s' = flogs s.
  Proof. unfold flogs. destruct p; cbn [getp other]; intros -> ->; reflexivity. Qed.
  Lemma pending_keep s s' p :
    getp s' (other p) = getp s (other p) ->
    (forall st g, ctl (getp s p) = RSigned st g -> ctl (getp s' p) = RSigned st g) ->
    forall x, pending s x -> pending s' x.
  Proof.
    intros Ho Hs x (X & g & E). exists X, g. destruct (pid_cases p X) as [->| ->]; [auto|].
    rewrite Ho. exact E.
  Qed.
  Lemma eff_other s s' p :
    getp s' (other p) = getp s (other p) ->
    has_acc (dmsgs (other p) (net s')) = has_acc (dmsgs (other p) (net s)) ->
    eff s' (other p) = eff s (other p).
  Proof. intros Ho Hd. unfold eff, cur_state. rewrite Ho, Hd. reflexivity. Qed.

  (* ---------- proposer: send the request ---------- *)
  Lemma gi_LSendReq s p s' : GI s -> lstep s (LSendReq p) = Some s' -> GI s'.
  Proof.
    intros G H. unfold lstep in H. cbn [label_party] in H.
    destruct (ctl (getp s p)) eqn:C; try discriminate H. injection H as <-.
    li_open G p c F V Hin L C. destruct L as (M & PO & -> & E).
    pose proof (gi_dir s G p) as D. unfold Dir in D. rewrite C in D. destruct D as [D0 NB].
    set (s' := with_net _ _).
    assert (Ho : getp s' (other p) = getp s (other p)) by (unfold s'; rewrite getp_with_net; apply getp_upd_other).
    assert (Hp : getp s' p = mkParty (mc (getp s p)) (PWait s0) (flog (getp s p)))
      by (unfold s'; rewrite getp_with_net; apply getp_upd_same).
    assert (Hn : net s' = MReq p s0 (pidx p) (sigof p s0) :: net s) by reflexivity.
    assert (Dp : dmsgs p (net s') = [MReq p s0 (pidx p) (sigof p s0)]).
    { rewrite Hn, dmsgs_cons. cbn [in_dir]. rewrite pid_eqb_refl, D0. reflexivity. }
    assert (Dq : dmsgs (other p) (net s') = dmsgs (other p) (net s)).
    { rewrite Hn, dmsgs_cons. cbn [in_dir]. rewrite pid_eqb_other. reflexivity. }
    assert (Hep : eff s' p = eff s p) by (unfold eff, cur_state; rewrite Hp, Dp, C; reflexivity).
    assert (Heq : eff s' (other p) = eff s (other p)) by (apply (eff_other s s' p Ho); rewrite Dq; reflexivity).
    apply (GI_intro s s' p G Ho).
    - rewrite Hp. exists c. split; [exact F|]. split; [exact V|]. split; [exact Hin|].
      unfold LIc. cbn [ctl mc]. auto.
    - unfold Dir. rewrite Hp, Ho, Dp. cbn [ctl]. left. auto.
    - apply (dir_other_rview s s' p Ho Dq); [| |apply (gi_dir s G)].
      + rewrite Hp, C. reflexivity.
      + intro st. rewrite Hp. apply committed_keep; cbn [flog mc ctl]; auto. rewrite C. reflexivity.
    - rewrite Heq, Hep. apply (sync_sym s p (gi_sync s G)).
    - apply (AG_same s s'); [apply (flogs_same s s' p Ho); rewrite Hp; reflexivity| |
                             apply (pending_keep s s' p Ho); rewrite C; discriminate|apply (gi_ag s G)].
      destruct p; [exact Hep|exact Heq].
  Qed.

  (* ---------- responder: take the mutex for the pending request ---------- *)
  Lemma req_in_flight s q m :
    GI s -> In m (net s) -> is_req_from q m = true ->
    exists st, ctl (getp s q) = PWait st /\ m = MReq q st (pidx q) (sigof q st)
               /\ dmsgs q (net s) = [m] /\ resp_busy (ctl (getp s (other q))) = false.
  Proof.
    intros G I R. destruct m as [f st a g| |]; try discriminate R. cbn in R. apply pid_eqb_eq in R. subst f.
    assert (I' : In (MReq q st a g) (dmsgs q (net s))) by (apply dmsgs_in; [exact I|cbn; apply pid_eqb_refl]).
    pose proof (gi_dir s G q) as D. unfold Dir in D.
    destruct (ctl (getp s q)) eqn:C;
      try (destruct D as [D _]; rewrite D in I'; elim I').
    destruct D as [[D B]|[[D _]|[[D _]|[D _]]]]; rewrite D in I'.
    - destruct I' as [I'|[]]. injection I' as <- <- <-. exists s0. rewrite D. auto.
    - elim I'.
    - destruct I' as [I'|[]]. discriminate I'.
    - destruct I' as [I'|[]]. discriminate I'.
  Qed.

  Lemma gi_LDeliver s p s' : GI s -> lstep s (LDeliver p) = Some s' -> GI s'.
  Proof.
    intros G H. unfold lstep in H. cbn [label_party] in H.
    destruct (ctl (getp s p)) eqn:C; try discriminate H.
    destruct (remove_first _ _) as [[m n']|] eqn:R; [|discriminate H].
    destruct (remove_first_spec _ _ _ _ R) as [Rf _].
    destruct (req_in_flight s (other p) m G (remove_first_in _ _ _ _ R) Rf) as (st & CY & -> & DY & _).
    injection H as <-.
    assert (Din : in_dir (other p) (MReq (other p) st (pidx (other p)) (sigof (other p) st)) = true)
      by (cbn; apply pid_eqb_refl).
    destruct (dmsgs_remove _ _ _ _ (other p) _ R Din DY) as (_ & DY' & DP'). rewrite other_other in DP'.
    li_open G p c F V Hin L C.
    pose proof (gi_dir s G p) as D. unfold Dir in D. rewrite C in D. destruct D as [D0 _].
    set (s' := with_net _ _).
    assert (Ho : getp s' (other p) = getp s (other p)) by (unfold s'; rewrite getp_with_net; apply getp_upd_other).
    assert (Hp : getp s' p = mkParty (mc (getp s p)) (RGot st (pidx (other p)) (sigof (other p) st)) (flog (getp s p)))
      by (unfold s'; rewrite getp_with_net; apply getp_upd_same).
    assert (Hn : net s' = n') by reflexivity.
    assert (Hep : eff s' p = eff s p) by (unfold eff, cur_state; rewrite Hp, C; reflexivity).
    assert (Heq : eff s' (other p) = eff s (other p)).
    { apply (eff_other s s' p Ho). rewrite Hn, DY', DY. reflexivity. }
    apply (GI_intro s s' p G Ho).
    - rewrite Hp. exists c. split; [exact F|]. split; [exact V|]. split; [exact Hin|].
      unfold LIc. cbn [ctl mc]. exact L.
    - unfold Dir. rewrite Hp, Ho, Hn, DP', D0, CY. cbn [ctl]. auto.
    - unfold Dir. rewrite other_other, Hp, Ho, Hn, DY', CY. cbn [ctl]. right. left. cbn [handling]. auto.
    - rewrite Heq, Hep. apply (sync_sym s p (gi_sync s G)).
    - apply (AG_same s s'); [apply (flogs_same s s' p Ho); rewrite Hp; reflexivity| |
                             apply (pending_keep s s' p Ho); rewrite C; discriminate|apply (gi_ag s G)].
      destruct p; [exact Hep|exact Heq].
  Qed.

  (* ---------- responder: reject ---------- *)
  Lemma gi_LRSendRej s p s' : GI s -> lstep s (LRSendRej p) = Some s' -> GI s'.
  Proof.
    intros G H. unfold lstep in H. cbn [label_party] in H.
    destruct (ctl (getp s p)) eqn:C; try discriminate H. injection H as <-.
    destruct (resp_handling s p G) as (st & CY & DY & HY); [rewrite C; reflexivity|].
    rewrite C in HY. cbn [handling] in HY. subst s0.
    li_open G p c F V Hin L C.
    pose proof (gi_dir s G p) as D. unfold Dir in D. rewrite C in D. destruct D as [D0 _].
    set (s' := with_net _ _).
    assert (Ho : getp s' (other p) = getp s (other p)) by (unfold s'; rewrite getp_with_net; apply getp_upd_other).
    assert (Hp : getp s' p = mkParty (mc (getp s p)) Idle (flog (getp s p)))
      by (unfold s'; rewrite getp_with_net; apply getp_upd_same).
    assert (Hn : net s' = MRej p (st_ver st) :: net s) by reflexivity.
    assert (Dp : dmsgs p (net s') = []).
    { rewrite Hn, dmsgs_cons. cbn [in_dir]. rewrite pid_eqb_other. exact D0. }
    assert (Dq : dmsgs (other p) (net s') = [MRej p (st_ver st)]).
    { rewrite Hn, dmsgs_cons. cbn [in_dir]. rewrite other_other, pid_eqb_refl, DY. reflexivity. }
    assert (Hep : eff s' p = eff s p) by (unfold eff, cur_state; rewrite Hp, C; reflexivity).
    assert (Heq : eff s' (other p) = eff s (other p)).
    { apply (eff_other s s' p Ho). rewrite Dq, DY. reflexivity. }
    apply (GI_intro s s' p G Ho).
    - rewrite Hp. exists c. split; [exact F|]. split; [exact V|]. split; [exact Hin|].
      unfold LIc. cbn [ctl mc]. exact L.
    - unfold Dir. rewrite Hp, Ho, Dp, CY. cbn [ctl]. auto.
    - unfold Dir. rewrite other_other, Hp, Ho, Dq, CY. cbn [ctl]. right. right. right. auto.
    - rewrite Heq, Hep. apply (sync_sym s p (gi_sync s G)).
    - apply (AG_same s s'); [apply (flogs_same s s' p Ho); rewrite Hp; reflexivity| |
                             apply (pending_keep s s' p Ho); rewrite C; discriminate|apply (gi_ag s G)].
      destruct p; [exact Hep|exact Heq].
  Qed.

  (* ---------- proposer: the response arrives ---------- *)
  Lemma resp_in_flight s p m :
    GI s -> In m (net s) -> in_dir p m = true -> (forall f st a g, m <> MReq f st a g) ->
    exists st, ctl (getp s p) = PWait st /\ dmsgs p (net s) = [m] /\
      ((m = MAcc (other p) (st_ver st) (sigof (other p) st) /\ committed (getp s (other p)) st) \/
       (m = MRej (other p) (st_ver st) /\ resp_busy (ctl (getp s (other p))) = false)).
  Proof.
    intros G I Din NR.
    assert (I' : In m (dmsgs p (net s))) by (apply dmsgs_in; assumption).
    pose proof (gi_dir s G p) as D. unfold Dir in D.
    destruct (ctl (getp s p)) eqn:C;
      try (destruct D as [D _]; rewrite D in I'; elim I').
    destruct D as [[D B]|[[D _]|[[D B]|[D B]]]]; rewrite D in I'.
    - destruct I' as [I'|[]]. elim (NR _ _ _ _ (eq_sym I')).
    - elim I'.
    - destruct I' as [I'|[]]. subst m. exists s0. rewrite D. auto.
    - destruct I' as [I'|[]]. subst m. exists s0. rewrite D. auto.
  Qed.

  Lemma gi_LRecvRej s p s' : GI s -> lstep s (LRecvRej p) = Some s' -> GI s'.
  Proof.
    intros G H. unfold lstep in H. cbn [label_party] in H.
    destruct (ctl (getp s p)) eqn:C; try discriminate H.
    destruct (remove_first _ _) as [[m n']|] eqn:R; [|discriminate H]. injection H as <-.
    destruct (remove_first_spec _ _ _ _ R) as [Rf _].
    assert (Din : in_dir p m = true).
    { destruct m; try discriminate Rf. cbn in Rf. apply andb_true_iff in Rf as [Rf _]. apply pid_eqb_eq in Rf.
      subst from. cbn. apply pid_eqb_refl. }
    destruct (resp_in_flight s p m G (remove_first_in _ _ _ _ R) Din) as (st & CP & DP & Hm).
    { intros f st a g E. subst m. discriminate Rf. }
    rewrite C in CP. injection CP as <-.
    destruct Hm as [[-> _]|[-> NB]]; [discriminate Rf|].
    destruct (dmsgs_remove _ _ _ _ p _ R Din DP) as (_ & DP' & DQ').
    li_open G p c F V Hin L C. destruct L as (M & PO & E).
    set (s' := with_net _ _).
    assert (Ho : getp s' (other p) = getp s (other p)) by (unfold s'; rewrite getp_with_net; apply getp_upd_other).
    assert (Hp : getp s' p = mkParty (mc (getp s p)) (PFail s0 RRejected) (flog (getp s p)))
      by (unfold s'; rewrite getp_with_net; apply getp_upd_same).
    assert (Hn : net s' = n') by reflexivity.
    assert (Hep : eff s' p = eff s p) by (unfold eff, cur_state; rewrite Hp, C, DP; reflexivity).
    assert (Heq : eff s' (other p) = eff s (other p)).
    { apply (eff_other s s' p Ho). rewrite Hn, DQ'. reflexivity. }
    apply (GI_intro s s' p G Ho).
    - rewrite Hp. exists c. split; [exact F|]. split; [exact V|]. split; [exact Hin|].
      unfold LIc. cbn [ctl mc]. split; [discriminate|]. eexists. split; [exact M|]. apply (propok_succ p c s0 PO).
    - unfold Dir. rewrite Hp, Ho, Hn, DP'. cbn [ctl]. auto.
    - apply (dir_other_rview s s' p Ho); [rewrite Hn; exact DQ'| | |apply (gi_dir s G)].
      + rewrite Hp, C. reflexivity.
      + intro st. rewrite Hp. apply committed_keep; cbn [flog mc ctl]; auto. rewrite C. reflexivity.
    - rewrite Heq, Hep. apply (sync_sym s p (gi_sync s G)).
    - apply (AG_same s s'); [apply (flogs_same s s' p Ho); rewrite Hp; reflexivity| |
                             apply (pending_keep s s' p Ho); rewrite C; discriminate|apply (gi_ag s G)].
      destruct p; [exact Hep|exact Heq].
  Qed.

  Lemma gi_LRecvAcc s p s' : GI s -> lstep s (LRecvAcc p) = Some s' -> GI s'.
  Proof.
    intros G H. unfold lstep in H. cbn [label_party] in H.
    destruct (ctl (getp s p)) eqn:C; try discriminate H.
    destruct (remove_first _ _) as [[m n']|] eqn:R; [|discriminate H].
    destruct (remove_first_spec _ _ _ _ R) as [Rf _].
    assert (Din : in_dir p m = true).
    { destruct m; try discriminate Rf. cbn in Rf. apply andb_true_iff in Rf as [Rf _]. apply pid_eqb_eq in Rf.
      subst from. cbn. apply pid_eqb_refl. }
    destruct (resp_in_flight s p m G (remove_first_in _ _ _ _ R) Din) as (st & CP & DP & Hm).
    { intros f st a g E. subst m. discriminate Rf. }
    rewrite C in CP. injection CP as <-.
    destruct Hm as [[-> CM]|[-> _]]; [|discriminate Rf]. injection H as <-.
    destruct (dmsgs_remove _ _ _ _ p _ R Din DP) as (_ & DP' & DQ').
    li_open G p c F V Hin L C.
    set (s' := with_net _ _).
    assert (Ho : getp s' (other p) = getp s (other p)) by (unfold s'; rewrite getp_with_net; apply getp_upd_other).
    assert (Hp : getp s' p = mkParty (mc (getp s p)) (PAcc s0 (sigof (other p) s0)) (flog (getp s p)))
      by (unfold s'; rewrite getp_with_net; apply getp_upd_same).
    assert (Hn : net s' = n') by reflexivity.
    assert (Hep : eff s' p = eff s p) by (unfold eff, cur_state; rewrite Hp, C, DP; reflexivity).
    assert (Heq : eff s' (other p) = eff s (other p)).
    { apply (eff_other s s' p Ho). rewrite Hn, DQ'. reflexivity. }
    apply (GI_intro s s' p G Ho).
    - rewrite Hp. exists c. split; [exact F|]. split; [exact V|]. split; [exact Hin|].
      unfold LIc. cbn [ctl mc]. exact L.
    - unfold Dir. rewrite Hp, Ho, Hn, DP'. cbn [ctl]. auto.
    - apply (dir_other_rview s s' p Ho); [rewrite Hn; exact DQ'| | |apply (gi_dir s G)].
      + rewrite Hp, C. reflexivity.
      + intro st. rewrite Hp. apply committed_keep; cbn [flog mc ctl]; auto. rewrite C. reflexivity.
    - rewrite Heq, Hep. apply (sync_sym s p (gi_sync s G)).
    - apply (AG_same s s'); [apply (flogs_same s s' p Ho); rewrite Hp; reflexivity| |
                             apply (pending_keep s s' p Ho); rewrite C; discriminate|apply (gi_ag s G)].
      destruct p; [exact Hep|exact Heq].
  Qed.

  Lemma wrap_succ v : v < two64 - 1 -> wrap64 (v + 1) = v + 1.
  Proof. intro H. unfold wrap64. apply N.mod_small. unfold two64 in H. lia. Qed.
  Lemma no_self_succ c st : succ c st -> tx_st c = st -> st_ver st < two64 -> False.
  Proof.
    intros [_ E] T B. rewrite T in E. unfold wrap64 in E. unfold two64 in B.
    destruct (N.eq_dec (st_ver st + 1) 18446744073709551616) as [Q|Q].
    - rewrite Q, N.mod_same in E by discriminate. lia.
    - rewrite N.mod_small in E by lia. lia.
  Qed.

  Lemma in_flogs s p x : In x (flog (getp s p)) -> In x (flogs s).
  Proof. unfold flogs. intro H. apply in_or_app. destruct p; auto. Qed.
  Lemma flogs_add s s' p st :
    getp s' (other p) = getp s (other p) -> flog (getp s' p) = st :: flog (getp s p) ->
    forall x, In x (flogs s') <-> x = st \/ In x (flogs s).
  Proof.
    unfold flogs. destruct p; cbn [getp other]; intros -> -> x; rewrite !in_app_iff; cbn [In]; intuition congruence.
  Qed.

  (* ---------- responder: sign (the staged transaction becomes fully signed) ---------- *)
  Lemma gi_LRSign s p s' : GI s -> lstep s (LRSign p) = Some s' -> GI s'.
  Proof.
    intros G H. unfold lstep in H. cbn [label_party] in H.
    destruct (ctl (getp s p)) eqn:C; try discriminate H.
    destruct (resp_handling s p G) as (st & CY & DY & HY); [rewrite C; reflexivity|].
    rewrite C in HY. cbn [handling] in HY. subst s0.
    li_open G p c F V Hin L C. destruct L as (g & M & SU & SO).
    pose proof (sig_ok_encodable k0 k1 _ _ _ SO) as E.
    rewrite M in H. rewrite (op_sig P k0 k1 HP) in H by exact E. injection H as <-.
    pose proof (gi_dir s G p) as D. unfold Dir in D. rewrite C in D. destruct D as [D0 NB].
    set (m' := mkm p Signing (stx p st (Some (sigof p st)) (Some g)) c).
    set (s' := upd_full s p m' (RSigned st (sigof p st))).
    assert (Ho : getp s' (other p) = getp s (other p)) by apply getp_updf_other.
    assert (Hp : getp s' p = mkParty m' (RSigned st (sigof p st)) (st :: flog (getp s p))).
    { unfold s'. rewrite getp_updf_same. unfold note_full, m'. cbn [staging mkm stx tx_sigs tx_st].
      rewrite all_some_sigs2. reflexivity. }
    assert (Hn : net s' = net s) by apply net_updf.
    assert (Hep : eff s' p = eff s p) by (unfold eff, cur_state; rewrite Hp, C, M; reflexivity).
    assert (Heq : eff s' (other p) = eff s (other p)) by (apply (eff_other s s' p Ho); rewrite Hn; reflexivity).
    apply (GI_intro s s' p G Ho).
    - rewrite Hp. exists c. split; [exact F|]. split; [exact V|]. split; [right; exact Hin|].
      unfold LIc. cbn [ctl mc flog]. exists g. split; [reflexivity|]. split; [reflexivity|].
      split; [exact SU|]. split; [exact SO|left; reflexivity].
    - unfold Dir. rewrite Hp, Ho, Hn. cbn [ctl]. auto.
    - apply (dir_other_frame s s' p Ho); [rewrite Hn; reflexivity| | | |apply (gi_dir s G)].
      + rewrite Hp, C. reflexivity.
      + intro st'. rewrite Hp, C. cbn [ctl handling]. auto.
      + intros st' [_ [CM|[CM _]]]; rewrite C in CM; discriminate CM.
    - rewrite Heq, Hep. apply (sync_sym s p (gi_sync s G)).
    - (* agreement: the new fully signed state has the next version, which no logged state has *)
      intro N.
      pose proof (flogs_add s s' p st Ho (f_equal flog Hp)) as FA. cbn [flog] in FA.
      assert (N0 : nowrap s) by (intros x Hx; apply N, FA; auto).
      destruct (gi_ag s G N0) as (E0 & HE & IE & B & U).
      assert (EP : eff s' PA = Some E0) by (rewrite <- HE; destruct p; [exact Hep|exact Heq]).
      assert (CE : tx_st c = E0).
      { pose proof (sync_sym s p (gi_sync s G)) as Sy.
        assert (X : eff s p = Some (tx_st c)) by (unfold eff, cur_state; rewrite C, M; reflexivity).
        assert (Y : eff s p = Some E0) by (destruct p; [exact HE|rewrite Sy; exact HE]).
        congruence. }
      assert (VS : st_ver st = st_ver E0 + 1).
      { destruct SU as [_ VS]. rewrite VS, CE. apply wrap_succ. apply N, FA. auto. }
      assert (NP : forall x, ~ pending s x).
      { intros x (X & gx & EX). destruct (pid_cases p X) as [->| ->]; congruence. }
      exists E0. split; [exact EP|]. split; [apply FA; auto|]. split.
      + intros x Hx. apply FA in Hx. destruct Hx as [->|Hx].
        * right. split; [|exact VS]. exists p, (sigof p st). rewrite Hp. reflexivity.
        * destruct (B x Hx) as [Lx|[Px _]]; [left; exact Lx|elim (NP _ Px)].
      + assert (Old : forall x, In x (flogs s) -> st_ver x <= st_ver E0).
        { intros x Hx. destruct (B x Hx) as [Lx|[Px _]]; [exact Lx|elim (NP _ Px)]. }
        intros x y Hx Hy EV. apply FA in Hx. apply FA in Hy.
        destruct Hx as [->|Hx], Hy as [->|Hy]; auto.
        * pose proof (Old _ Hy). lia.
        * pose proof (Old _ Hx). lia.
  Qed.

  (* ---------- responder: send the acceptance (both parties are now bound to the new state) ---------- *)
  Lemma gi_LRSendAcc s p s' : GI s -> lstep s (LRSendAcc p) = Some s' -> GI s'.
  Proof.
    intros G H. unfold lstep in H. cbn [label_party] in H.
    destruct (ctl (getp s p)) eqn:C; try discriminate H. injection H as <-.
    destruct (resp_handling s p G) as (st & CY & DY & HY); [rewrite C; reflexivity|].
    rewrite C in HY. cbn [handling] in HY. subst s0.
    li_open G p c F V Hin L C. destruct L as (g0 & M & -> & SU & SO & Hst).
    pose proof (gi_dir s G p) as D. unfold Dir in D. rewrite C in D. destruct D as [D0 _].
    set (s' := with_net _ _).
    assert (Ho : getp s' (other p) = getp s (other p)) by (unfold s'; rewrite getp_with_net; apply getp_upd_other).
    assert (Hp : getp s' p = mkParty (mc (getp s p)) (RSent st) (flog (getp s p)))
      by (unfold s'; rewrite getp_with_net; apply getp_upd_same).
    assert (Hn : net s' = MAcc p (st_ver st) (sigof p st) :: net s) by reflexivity.
    assert (Dp : dmsgs p (net s') = []).
    { rewrite Hn, dmsgs_cons. cbn [in_dir]. rewrite pid_eqb_other. exact D0. }
    assert (Dq : dmsgs (other p) (net s') = [MAcc p (st_ver st) (sigof p st)]).
    { rewrite Hn, dmsgs_cons. cbn [in_dir]. rewrite other_other, pid_eqb_refl, DY. reflexivity. }
    assert (Hep : eff s' p = Some st) by (unfold eff; rewrite Hp; reflexivity).
    assert (Heq : eff s' (other p) = Some st).
    { unfold eff. rewrite Ho, CY, Dq. reflexivity. }
    apply (GI_intro s s' p G Ho).
    - rewrite Hp. exists c. split; [exact F|]. split; [exact V|]. split; [exact Hin|].
      unfold LIc. cbn [ctl mc flog]. exists g0. auto.
    - unfold Dir. rewrite Hp, Ho, Dp, CY. cbn [ctl]. auto.
    - unfold Dir. rewrite other_other, Hp, Ho, Dq, CY. cbn [ctl]. right. right. left.
      split; [reflexivity|]. split; [exact Hst|left; reflexivity].
    - rewrite Heq, Hep. reflexivity.
    - intro N.
      pose proof (flogs_same s s' p Ho (f_equal flog Hp)) as FS.
      assert (N0 : nowrap s) by (intros x Hx; apply N, FS, Hx).
      destruct (gi_ag s G N0) as (E0 & HE & IE & B & U).
      assert (CE : tx_st c = E0).
      { pose proof (sync_sym s p (gi_sync s G)) as Sy.
        assert (X : eff s p = Some (tx_st c)) by (unfold eff, cur_state; rewrite C, M; reflexivity).
        assert (Y : eff s p = Some E0) by (destruct p; [exact HE|rewrite Sy; exact HE]).
        congruence. }
      assert (VS : st_ver st = st_ver E0 + 1).
      { destruct SU as [_ VS]. rewrite VS, CE. apply wrap_succ. apply N0. exact IE. }
      exists st. split; [destruct p; [exact Hep|exact Heq]|]. split; [apply FS, (in_flogs s p), Hst|]. split.
      + intros x Hx. apply FS in Hx. left. destruct (B x Hx) as [Lx|[_ Vx]]; lia.
      + intros x y Hx Hy. apply U; apply FS; assumption.
  Qed.

  (* ---------- enabling ---------- *)
  Lemma enabled_LI p c st g fl :
    succ c st -> sig_ok (other p) st g -> In st fl -> st_ver (tx_st c) < two64 ->
    LI p (mkParty (mkm p (after st) None (mkTx st (sigs2 p (Some (sigof p st)) (Some g)))) Idle fl).
  Proof.
    intros SU SO I V. exists (mkTx st (sigs2 p (Some (sigof p st)) (Some g))).
    split; [apply fs2_enabled; [eapply sig_ok_encodable; exact SO|exact SO]|].
    split; [apply (succ_ver_lt _ _ SU)|]. split; [exact I|].
    unfold LIc, rest. cbn [ctl mc tx_st]. unfold after. destruct (st_final st); auto.
  Qed.

  Lemma gi_LREnable s p s' : GI s -> lstep s (LREnable p) = Some s' -> GI s'.
  Proof.
    intros G H. unfold lstep in H. cbn [label_party] in H.
    destruct (ctl (getp s p)) eqn:C; try discriminate H.
    li_open G p c F V Hin L C. destruct L as (g & M & SU & SO & Hst).
    rewrite M in H. rewrite (op_enable P) in H. injection H as <-. cbn [on_out].
    pose proof (gi_dir s G p) as D. unfold Dir in D. rewrite C in D. destruct D as [D0 NB].
    set (m' := mkm p (after s0) None _).
    set (s' := upd s p m' Idle).
    assert (Ho : getp s' (other p) = getp s (other p)) by apply getp_upd_other.
    assert (Hp : getp s' p = mkParty m' Idle (flog (getp s p))) by apply getp_upd_same.
    assert (Hn : net s' = net s) by apply net_upd.
    assert (Hep : eff s' p = eff s p) by (unfold eff, cur_state; rewrite Hp, C; reflexivity).
    assert (Heq : eff s' (other p) = eff s (other p)) by (apply (eff_other s s' p Ho); rewrite Hn; reflexivity).
    apply (GI_intro s s' p G Ho).
    - rewrite Hp. apply (enabled_LI p c); auto.
    - unfold Dir. rewrite Hp, Ho, Hn. cbn [ctl]. auto.
    - apply (dir_other_frame s s' p Ho); [rewrite Hn; reflexivity| | | |apply (gi_dir s G)].
      + rewrite Hp, C. reflexivity.
      + intro st'. rewrite C. cbn [handling]. tauto.
      + intros st' [I [CM|[CM _]]]; rewrite C in CM; [|discriminate CM]. injection CM as <-.
        rewrite Hp. split; [exact I|]. right. split; reflexivity.
    - rewrite Heq, Hep. apply (sync_sym s p (gi_sync s G)).
    - apply (AG_same s s'); [apply (flogs_same s s' p Ho); rewrite Hp; reflexivity| |
                             apply (pending_keep s s' p Ho); rewrite C; discriminate|apply (gi_ag s G)].
      destruct p; [exact Hep|exact Heq].
  Qed.

  (* ---------- proposer: add the peer's signature ---------- *)
  Lemma gi_LPAddSig s p s' : GI s -> lstep s (LPAddSig p) = Some s' -> GI s'.
  Proof.
    intros G H. unfold lstep in H. cbn [label_party] in H.
    destruct (ctl (getp s p)) eqn:C; try discriminate H.
    li_open G p c F V Hin L C. destruct L as (M & PO & E).
    pose proof (gi_dir s G p) as D. unfold Dir in D. rewrite C in D. destruct D as (D0 & -> & CM).
    assert (SO : sig_ok (other p) s0 (sigof (other p) s0)) by (apply sigof_ok; exact E).
    rewrite M in H. rewrite (op_addsig P k0 k1 HP) in H by exact SO. injection H as <-. cbn [on_out].
    set (m' := mkm p Signing (stx p s0 (Some (sigof p s0)) (Some (sigof (other p) s0))) c).
    set (s' := upd_full s p m' (PAdded s0)).
    assert (Ho : getp s' (other p) = getp s (other p)) by apply getp_updf_other.
    assert (Hp : getp s' p = mkParty m' (PAdded s0) (s0 :: flog (getp s p))).
    { unfold s'. rewrite getp_updf_same. unfold note_full, m'. cbn [staging mkm stx tx_sigs tx_st].
      rewrite all_some_sigs2. reflexivity. }
    assert (Hn : net s' = net s) by apply net_updf.
    assert (Hep : eff s' p = eff s p) by (unfold eff, cur_state; rewrite Hp, C; reflexivity).
    assert (Heq : eff s' (other p) = eff s (other p)) by (apply (eff_other s s' p Ho); rewrite Hn; reflexivity).
    apply (GI_intro s s' p G Ho).
    - rewrite Hp. exists c. split; [exact F|]. split; [exact V|]. split; [right; exact Hin|].
      unfold LIc. cbn [ctl mc flog]. exists (sigof (other p) s0). split; [reflexivity|].
      split; [apply (propok_succ p c s0 PO)|]. split; [exact E|]. split; [exact SO|left; reflexivity].
    - unfold Dir. rewrite Hp, Ho, Hn. cbn [ctl]. auto.
    - apply (dir_other_frame s s' p Ho); [rewrite Hn; reflexivity| | | |apply (gi_dir s G)].
      + rewrite Hp, C. reflexivity.
      + intro st'. rewrite C. cbn [handling]. tauto.
      + intros st' [I [CM'|[_ CM']]]; rewrite ?C in CM'; [discriminate CM'|].
        rewrite Hp. split; [right; exact I|]. right. split; [reflexivity|]. cbn [mc]. unfold m'.
        rewrite M in CM'. exact CM'.
    - rewrite Heq, Hep. apply (sync_sym s p (gi_sync s G)).
    - apply (AG_same s s'); [| |apply (pending_keep s s' p Ho); rewrite C; discriminate|apply (gi_ag s G)].
      + intro x. rewrite (flogs_add s s' p s0 Ho (f_equal flog Hp)). split; [|auto].
        intros [->|Hx]; [|exact Hx]. apply (in_flogs s (other p)). apply CM.
      + destruct p; [exact Hep|exact Heq].
  Qed.

  (* ---------- proposer: enable (Channel.Update returns nil) ---------- *)
  Lemma gi_LPEnable s p s' : GI s -> lstep s (LPEnable p) = Some s' -> GI s'.
  Proof.
    intros G H. unfold lstep in H. cbn [label_party] in H.
    destruct (ctl (getp s p)) eqn:C; try discriminate H.
    li_open G p c F V Hin L C. destruct L as (g & M & SU & E & SO & Hst).
    rewrite M in H. rewrite (op_enable P) in H. injection H as <-.
    pose proof (gi_dir s G p) as D. unfold Dir in D. rewrite C in D. destruct D as [D0 CM].
    apply GI_finish.
    set (m' := mkm p (after s0) None _).
    set (s' := upd s p m' Idle).
    assert (Ho : getp s' (other p) = getp s (other p)) by apply getp_upd_other.
    assert (Hp : getp s' p = mkParty m' Idle (flog (getp s p))) by apply getp_upd_same.
    assert (Hn : net s' = net s) by apply net_upd.
    assert (Hep : eff s' p = eff s p) by (unfold eff, cur_state; rewrite Hp, C; reflexivity).
    assert (Heq : eff s' (other p) = eff s (other p)) by (apply (eff_other s s' p Ho); rewrite Hn; reflexivity).
    assert (EP : eff s p = Some s0) by (unfold eff; rewrite C; reflexivity).
    pose proof (sync_sym s p (gi_sync s G)) as Sy. rewrite EP in Sy.
    assert (NB : resp_busy (ctl (getp s (other p))) = false).
    { destruct CM as [_ [CQ|[CQ _]]]; [rewrite CQ; reflexivity|].
      destruct (ctl (getp s (other p))); cbn in CQ |- *; congruence. }
    apply (GI_intro s s' p G Ho).
    - rewrite Hp. apply (enabled_LI p c); auto.
    - unfold Dir. rewrite Hp, Ho, Hn. cbn [ctl]. auto.
    - (* the peer cannot be waiting for a response of p: it holds or awaits p's state s0 *)
      pose proof (gi_dir s G (other p)) as DQ. unfold Dir in DQ |- *.
      rewrite other_other in DQ |- *. rewrite Ho, Hp, Hn. cbn [ctl resp_busy is_resp].
      rewrite C in DQ. cbn [resp_busy is_resp handling] in DQ.
      destruct (gi_li s G (other p)) as (cq & Fq & Vq & Hinq & Lq). unfold LIc in Lq.
      assert (CQ : cur_state s (other p) = Some (tx_st cq)).
      { unfold cur_state. rewrite (LIc_current _ _ _ Lq). reflexivity. }
      unfold eff in Sy. rewrite CQ in Sy.
      destruct (ctl (getp s (other p))) eqn:CQ'; try exact DQ.
      + (* PWait st': an acceptance from p cannot be in flight *)
        destruct DQ as [DQ|[[_ []]|[[DQ _]|DQ]]]; [left; exact DQ| |right; right; right; exact DQ].
        rewrite DQ in Sy. cbn [has_acc existsb] in Sy. injection Sy as <-.
        destruct Lq as (_ & PO & _). exfalso.
        destruct CM as [_ [CQ2|[_ CQ2]]]; [congruence|].
        apply (no_self_succ cq s0 (propok_succ _ _ _ PO)).
        * unfold cur_state in CQ. congruence.
        * apply (succ_ver_lt _ _ (propok_succ _ _ _ PO)).
      + exfalso. injection Sy as <-. destruct Lq as (_ & PO & _).
        destruct CM as [_ [CQ2|[_ CQ2]]]; [congruence|].
        apply (no_self_succ cq s0 (propok_succ _ _ _ PO)).
        * unfold cur_state in CQ. congruence.
        * apply (succ_ver_lt _ _ (propok_succ _ _ _ PO)).
      + exfalso. injection Sy as <-. destruct Lq as (gq & Mq & SUq & _).
        destruct CM as [_ [CQ2|[_ CQ2]]]; [congruence|].
        apply (no_self_succ cq s0 SUq).
        * unfold cur_state in CQ. congruence.
        * apply (succ_ver_lt _ _ SUq).
    - rewrite Heq, Hep. apply (sync_sym s p (gi_sync s G)).
    - apply (AG_same s s'); [apply (flogs_same s s' p Ho); rewrite Hp; reflexivity| |
                             apply (pending_keep s s' p Ho); rewrite C; discriminate|apply (gi_ag s G)].
      destruct p; [exact Hep|exact Heq].
  Qed.

  (* ---------- every step preserves the invariant ---------- *)
  Theorem GI_step s l s' : GI s -> lstep s l = Some s' -> GI s'.
  Proof.
    destruct l.
    - apply gi_LStage.
    - apply gi_LStageBad.
    - apply gi_LSign.
    - apply gi_LSendReq.
    - apply gi_LDeliver.
    - apply gi_LCheck.
    - apply gi_LDecide.
    - apply gi_LRStage.
    - apply gi_LRAddSig.
    - apply gi_LRSign.
    - apply gi_LRSendAcc.
    - apply gi_LREnable.
    - apply gi_LRSendRej.
    - apply gi_LRecvAcc.
    - apply gi_LRecvRej.
    - apply gi_LPAddSig.
    - apply gi_LPEnable.
    - apply gi_LDiscard.
  Qed.

  (* ---------- initial state and reachability ---------- *)
  Definition good_init (t : tx) : Prop :=
    fs2 t /\ st_ver (tx_st t) < two64 /\ st_final (tx_st t) = false.
  Definition reachable (t : tx) (s : sys) : Prop := exists ls, lrun (init_sys P t) ls = Some s.

  Lemma GI_init t : good_init t -> GI (init_sys P t).
  Proof.
    intros (F & V & Fin). split.
    - intro p. exists t. split; [exact F|]. split; [exact V|]. split; [destruct p; left; reflexivity|].
      unfold LIc, rest. destruct p; cbn; left; auto.
    - intro Y. unfold Dir. destruct Y; cbn; auto.
    - reflexivity.
    - intros _. exists (tx_st t). split; [reflexivity|]. split; [left; reflexivity|]. split.
      + intros x Hx. left. destruct Hx as [<-|[<-|[]]]; lia.
      + intros x y Hx Hy _. destruct Hx as [<-|[<-|[]]], Hy as [<-|[<-|[]]]; reflexivity.
  Qed.
  Lemma GI_run s ls s' : GI s -> lrun s ls = Some s' -> GI s'.
  Proof.
    revert s; induction ls as [|l ls IH]; intros s G H; cbn in H.
    - injection H as <-. exact G.
    - destruct (lstep s l) as [s1|] eqn:E; [|discriminate H]. apply (IH s1); [|exact H].
      apply (GI_step s l s1 G E).
  Qed.
  Lemma GI_reachable t s : good_init t -> reachable t s -> GI s.
  Proof. intros I (ls & R). apply (GI_run _ ls s (GI_init t I) R). Qed.

  (* ---------- C06: the current transaction of both parties is always fully signed ---------- *)
  Lemma LIc_shape p x c : LIc p x c -> exists f stg, mc x = mkm p f stg c.
  Proof.
    unfold LIc, rest. destruct (ctl x); intro H;
      repeat match goal with
             | H : exists _, _ |- _ => destruct H as [? H]
             | H : _ /\ _ |- _ => destruct H as [H ?]
             | H : _ \/ _ |- _ => destruct H as [H|H]
             | H : False |- _ => elim H
             | H : mc x = _ |- _ => rewrite H; eexists; eexists; reflexivity
             end.
  Qed.
  Lemma fully_signed_reachable t s p :
    good_init t -> reachable t s ->
    exists c, current (mc (getp s p)) = Some c /\ fully_signed (mc (getp s p)) c.
  Proof.
    intros I R. destruct (gi_li s (GI_reachable t s I R) p) as (c & F & _ & _ & L).
    exists c. split; [apply (LIc_current p _ c L)|].
    destruct (LIc_shape p _ c L) as (f & stg & ->). apply (fs2_fully_signed P k0 k1 HP). exact F.
  Qed.

  (* ---------- C06: versions differ by at most one ---------- *)
  Lemma eff_cur s p :
    GI s -> exists c, current (mc (getp s p)) = Some c /\ st_ver (tx_st c) < two64 /\
                      (eff s p = Some (tx_st c) \/ exists st, eff s p = Some st /\ succ c st).
  Proof.
    intro G. destruct (gi_li s G p) as (c & _ & V & _ & L). exists c.
    pose proof (LIc_current p _ c L) as Cur. split; [exact Cur|]. split; [exact V|].
    unfold eff, cur_state. rewrite Cur. cbn [option_map]. unfold LIc in L.
    destruct (ctl (getp s p)); auto.
    - destruct (has_acc _); auto. right. exists s0. split; [reflexivity|]. apply (propok_succ p c s0). apply L.
    - right. exists s0. split; [reflexivity|]. apply (propok_succ p c s0). apply L.
    - right. exists s0. split; [reflexivity|]. destruct L as (g & _ & SU & _). exact SU.
    - right. exists s0. split; [reflexivity|]. destruct L as (g & _ & SU & _). exact SU.
  Qed.
  Lemma wrap_inj a b : a < two64 -> b < two64 -> wrap64 (a + 1) = wrap64 (b + 1) -> a = b.
  Proof.
    unfold wrap64, two64. intros A B E.
    destruct (N.eq_dec (a + 1) 18446744073709551616) as [Qa|Qa], (N.eq_dec (b + 1) 18446744073709551616) as [Qb|Qb].
    - lia.
    - rewrite Qa, N.mod_same in E by discriminate. rewrite N.mod_small in E by lia. lia.
    - rewrite Qb, N.mod_same in E by discriminate. rewrite N.mod_small in E by lia. lia.
    - rewrite !N.mod_small in E by lia. lia.
  Qed.
  Lemma versions_close_GI s :
    GI s ->
    cur_ver s PA = cur_ver s PB \/ cur_ver s PA = wrap64 (cur_ver s PB + 1)
    \/ cur_ver s PB = wrap64 (cur_ver s PA + 1).
  Proof.
    intro G. destruct (eff_cur s PA G) as (ca & Ca & Va & Ea), (eff_cur s PB G) as (cb & Cb & Vb & Eb).
    pose proof (gi_sync s G) as Sy.
    unfold cur_ver, cur_state. cbn [getp] in *. rewrite Ca, Cb. cbn [option_map].
    destruct Ea as [Ea|(sa & Ea & [_ Sa])], Eb as [Eb|(sb & Eb & [_ Sb])]; rewrite Ea, Eb in Sy; injection Sy as Sy.
    - left. congruence.
    - right. left. rewrite Sy. exact Sb.
    - right. right. rewrite <- Sy. exact Sa.
    - left. subst sb. rewrite Sa in Sb. apply wrap_inj; assumption.
  Qed.

  (* ---------- C06: at most one fully signed state per version ---------- *)
  Lemma agreement_GI s : GI s -> nowrap s ->
    forall x y, In x (flogs s) -> In y (flogs s) -> st_ver x = st_ver y -> x = y.
  Proof. intros G N. destruct (gi_ag s G N) as (_ & _ & _ & _ & U). exact U. Qed.

  (* the ghost log is what it claims to be: every fully signed transaction a machine holds is logged *)
  Lemma full_logged_GI s p t :
    GI s ->
    (staging (mc (getp s p)) = Some t \/ current (mc (getp s p)) = Some t) ->
    all_some (tx_sigs t) = true -> In (tx_st t) (flog (getp s p)).
  Proof.
    intros G H A. destruct (gi_li s G p) as (c & _ & _ & Hin & L).
    destruct H as [H|H].
    - unfold LIc, rest in L. destruct (ctl (getp s p));
        repeat match goal with
               | H : exists _, _ |- _ => destruct H as [? H]
               | H : _ /\ _ |- _ => destruct H as [H ?]
               | H : _ \/ _ |- _ => destruct H as [H|H]
               | H : False |- _ => elim H
               end;
        match goal with M : mc _ = _ |- _ => rewrite M in H; cbn [mkm staging stx] in H end;
        try discriminate H; injection H as <-; cbn [tx_sigs tx_st] in A |- *;
        rewrite all_some_sigs2 in A;
        first [ discriminate A | assumption
              | repeat match goal with o : option sigtok |- _ => destruct o end; discriminate A ].
    - rewrite (LIc_current p _ c L) in H. injection H as <-. exact Hin.
  Qed.

  (* a responder signs only the successor of its current state, and what it signed is logged *)
  Lemma resp_signed_GI s p st :
    GI s -> (ctl (getp s p) = RSent st \/ exists g, ctl (getp s p) = RSigned st g) ->
    exists c, current (mc (getp s p)) = Some c /\ st_final (tx_st c) = false
              /\ st_ver st = wrap64 (st_ver (tx_st c) + 1) /\ In st (flog (getp s p)).
  Proof.
    intros G H. destruct (gi_li s G p) as (c & _ & _ & _ & L). exists c.
    split; [apply (LIc_current p _ c L)|]. unfold LIc in L.
    destruct H as [C|[g C]]; rewrite C in L.
    - destruct L as (g0 & _ & [F V] & _ & I). auto.
    - destruct L as (g0 & _ & _ & [F V] & _ & I). auto.
  Qed.

  Lemma versions_close_nowrap_GI s :
    GI s -> cur_ver s PA < two64 - 1 -> cur_ver s PB < two64 - 1 ->
    cur_ver s PA = cur_ver s PB \/ cur_ver s PA = cur_ver s PB + 1 \/ cur_ver s PB = cur_ver s PA + 1.
  Proof.
    intros G A B. destruct (versions_close_GI s G) as [H|[H|H]]; auto.
    - right. left. rewrite H. apply wrap_succ. exact B.
    - right. right. rewrite H. apply wrap_succ. exact A.
  Qed.
End Channel.
