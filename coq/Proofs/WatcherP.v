(* Proofs about the watcher model (property C05).

   Main result: WatcherP.inv -- after every history, the watcher's bookkeeping equals the functions of the
   observable history defined in Model/WatcherSpec.v. The property theorems follow from it by one more
   step of the model. *)
From Coq Require Import Arith PeanoNat ZifyN ZifyNat ZifyBool List Bool NArith Lia Sorting.Sorted.
From V Require Import Model.Watcher Model.WatcherSpec.
Import ListNotations.
Open Scope N_scope.

(* ---------- registry ---------- *)

Lemma set_same r x o : set r x o x = o.
Proof. unfold set. now rewrite N.eqb_refl. Qed.

Lemma set_other r x o y : y <> x -> set r x o y = r y.
Proof. intros H. unfold set. apply N.eqb_neq in H. now rewrite H. Qed.

Lemma set_spec r x o y : set r x o y = if N.eqb y x then o else r y.
Proof. reflexivity. Qed.

Lemma upd_spec r x f y : upd r x f y = if N.eqb y x then option_map f (r y) else r y.
Proof.
  unfold upd. destruct (r x) eqn:E.
  - rewrite set_spec. destruct (N.eqb_spec y x); [subst; now rewrite E|reflexivity].
  - destruct (N.eqb_spec y x); [subst; now rewrite E|reflexivity].
Qed.

Lemma memid_In x l : memid x l = true <-> In x l.
Proof.
  unfold memid. rewrite existsb_exists. split.
  - intros [y [Hy He]]. apply N.eqb_eq in He. now subst.
  - intros H. exists x. split; [assumption|apply N.eqb_refl].
Qed.

Lemma mark_subs_spec ls : forall r y,
  mark_subs r ls y =
  option_map (fun c => if memid y ls then with_regver (tx_ver (c_cur c)) c else c) (r y).
Proof.
  induction ls as [|l ls IH]; intros r y; cbn [mark_subs memid existsb].
  - now destruct (r y).
  - rewrite IH. fold (memid y ls). destruct (r l) as [sc|] eqn:El.
    + rewrite set_spec. destruct (N.eqb_spec y l) as [->|Hn].
      * rewrite El. cbn [option_map orb]. destruct (memid l ls); reflexivity.
      * cbn [orb]. reflexivity.
    + destruct (N.eqb_spec y l) as [->|Hn]; [rewrite El; reflexivity|reflexivity].
Qed.

(* ---------- the invariant ---------- *)

Definition regver_ok (o : option N) (n : N) : Prop :=
  n = match o with Some m => m | None => 0 end.

Definition desc (l : list N) : Prop := StronglySorted (fun a b => b < a) l.

Definition relay_ok (l : list N) (pub : bool) (pv : N) : Prop :=
  desc l /\ (pub = false -> l = []) /\ (pub = true -> exists rest, l = pv :: rest).

Definition is_ledger (s : wstate) (p : id) : Prop :=
  exists pc, w_reg s p = Some pc /\ c_parent pc = None.

Record chan_ok (tr : trace) (s : wstate) (ch : id) (c : chan) : Prop := {
  ok_newest : newest tr ch = Some (c_cur c);
  ok_parent : parent_of tr ch = c_parent c;
  ok_done : c_done c = false;
  ok_regver : regver_ok (last_registered tr ch) (c_regver c);
  ok_arch : forall l, archived tr ch l = c_arch c l;
  ok_subs : forall x, In x (c_subs c) <-> (watched tr x = true /\ parent_of tr x = Some ch);
  ok_par : forall p, c_parent c = Some p -> is_ledger s p;
  ok_relay : relay_ok (relayed tr ch) (c_published c) (c_pubver c);
  ok_multi : single_ledger tr -> c_multi c = false
}.

Definition inv (tr : trace) (s : wstate) : Prop :=
  (forall ch, match w_reg s ch with
              | Some c => watched tr ch = true /\ chan_ok tr s ch c
              | None => watched tr ch = false
              end)
  /\ w_fail s = reg_fails tr.

Lemma single_ledger_tail x tr : single_ledger (x :: tr) -> single_ledger tr.
Proof. intros H y c p m t Hin. apply H. now right. Qed.

Lemma inv_live tr s ch c : inv tr s -> w_reg s ch = Some c -> watched tr ch = true /\ chan_ok tr s ch c.
Proof. intros [H _] E. specialize (H ch). now rewrite E in H. Qed.

Lemma inv_dead tr s ch : inv tr s -> w_reg s ch = None -> watched tr ch = false.
Proof. intros [H _] E. specialize (H ch). now rewrite E in H. Qed.

Lemma inv_watched tr s ch : inv tr s -> watched tr ch = true -> exists c, w_reg s ch = Some c.
Proof.
  intros I W. destruct (w_reg s ch) eqn:E; [eauto|].
  rewrite (inv_dead _ _ _ I E) in W. discriminate.
Qed.

(* ---------- entries that neither start nor stop a channel ---------- *)

Section Frame.
  Variables (x : entry) (tr : trace).
  Hypothesis Hs : started x = None.
  Hypothesis Ht : stopped x = None.

  Lemma watched_frame ch : watched (x :: tr) ch = watched tr ch.
  Proof. cbn [watched]. now rewrite Hs, Ht. Qed.
  Lemma parent_frame ch : parent_of (x :: tr) ch = parent_of tr ch.
  Proof. cbn [parent_of]. now rewrite Hs, Ht. Qed.
  Lemma archived_frame p ch : archived (x :: tr) p ch = archived tr p ch.
  Proof. cbn [archived]. now rewrite Hs, Ht. Qed.
  Lemma newest_frame ch :
    newest (x :: tr) ch = match published x with
                          | Some (c, t) => if N.eqb c ch && watched tr ch then Some t else newest tr ch
                          | None => newest tr ch
                          end.
  Proof. cbn [newest]. now rewrite Hs, Ht. Qed.
  Lemma relayed_frame ch : relayed (x :: tr) ch = relays x ch ++ relayed tr ch.
  Proof. cbn [relayed]. now rewrite Hs, Ht. Qed.
  Lemma last_registered_frame ch :
    last_registered (x :: tr) ch =
    match regcall x with
    | Some (p, t, subs) =>
        if negb (reg_fails tr) && watched tr ch
        then match call_version p t subs ch with Some n => Some n | None => last_registered tr ch end
        else last_registered tr ch
    | None => last_registered tr ch
    end.
  Proof. cbn [last_registered]. now rewrite Hs, Ht. Qed.
End Frame.

Lemma inv_frame tr s x s' (g : id -> chan -> chan) :
  inv tr s ->
  started x = None -> stopped x = None ->
  (forall y, w_reg s' y = option_map (g y) (w_reg s y)) ->
  (forall y c, c_parent (g y c) = c_parent c /\ c_subs (g y c) = c_subs c /\
               c_arch (g y c) = c_arch c /\ c_done (g y c) = c_done c /\ c_multi (g y c) = c_multi c) ->
  w_fail s' = reg_fails (x :: tr) ->
  (forall y c, w_reg s y = Some c -> chan_ok tr s y c ->
      newest (x :: tr) y = Some (c_cur (g y c)) /\
      regver_ok (last_registered (x :: tr) y) (c_regver (g y c)) /\
      relay_ok (relayed (x :: tr) y) (c_published (g y c)) (c_pubver (g y c))) ->
  inv (x :: tr) s'.
Proof.
  intros I Hs Ht Hreg Hg Hf Hupd. split; [|assumption].
  intros ch. rewrite Hreg, watched_frame by assumption.
  destruct (w_reg s ch) as [c|] eqn:E; cbn [option_map].
  - destruct (inv_live _ _ _ _ I E) as [W K]. split; [assumption|].
    destruct (Hg ch c) as (Gp & Gs & Ga & Gd & Gm).
    destruct (Hupd ch c E K) as (Un & Ur & Ul).
    constructor.
    + assumption.
    + rewrite parent_frame, Gp by assumption. apply K.
    + rewrite Gd. apply K.
    + assumption.
    + intros l. rewrite archived_frame, Ga by assumption. apply K.
    + intros z. rewrite Gs, watched_frame, parent_frame by assumption. apply K.
    + intros p Hp. rewrite Gp in Hp. destruct (ok_par _ _ _ _ K p Hp) as (pc & Ep & Pp).
      exists (g p pc). rewrite Hreg, Ep. split; [reflexivity|].
      destruct (Hg p pc) as (Gp' & _). now rewrite Gp'.
    + assumption.
    + intros SL. rewrite Gm. apply K. eapply single_ledger_tail; eassumption.
  - now apply inv_dead with (s := s).
Qed.

(* an entry that changes nothing the specification looks at *)
Lemma inv_noop tr s x s' :
  inv tr s ->
  started x = None -> stopped x = None -> published x = None -> failset x = None ->
  (regcall x = None \/ reg_fails tr = true) ->
  (forall y, relays x y = []) ->
  (forall y, w_reg s' y = w_reg s y) -> w_fail s' = w_fail s ->
  inv (x :: tr) s'.
Proof.
  intros I Hs Ht Hp Hf Hr Hl Hreg Hw.
  apply inv_frame with (s := s) (g := fun _ c => c); try assumption.
  - intros y. rewrite Hreg. now destruct (w_reg s y).
  - intros; repeat split; reflexivity.
  - rewrite Hw. cbn [reg_fails]. rewrite Hf. apply I.
  - intros y c E K. repeat split.
    + rewrite newest_frame, Hp by assumption. apply K.
    + rewrite last_registered_frame by assumption.
      destruct Hr as [Hr|Hr].
      * rewrite Hr. apply K.
      * destruct (regcall x) as [[[p t] subs]|]; [|apply K]. rewrite Hr. cbn [negb andb]. apply K.
    + rewrite relayed_frame, Hl by assumption. apply K.
    + rewrite relayed_frame, Hl by assumption. apply K.
    + rewrite relayed_frame, Hl by assumption. apply K.
Qed.

(* ---------- publish, register-fails, progressed, concluded ---------- *)

Lemma inv_publish tr s ch t :
  inv tr s -> inv ((Publish ch t, snd (publish s ch t)) :: tr) (fst (publish s ch t)).
Proof.
  intros I. cbn [publish fst snd].
  apply inv_frame with (s := s) (g := fun y c => if N.eqb y ch then with_cur t c else c);
    try assumption; try reflexivity.
  - intros y. cbn [w_reg]. rewrite upd_spec. destruct (N.eqb y ch); now destruct (w_reg s y).
  - intros y c. destruct (N.eqb y ch); repeat split; reflexivity.
  - cbn [w_fail reg_fails failset fst]. apply I.
  - intros y c E K. repeat split.
    + rewrite newest_frame by reflexivity. cbn [published fst].
      rewrite (N.eqb_sym ch y). destruct (N.eqb y ch) eqn:Ey.
      * destruct (inv_live _ _ _ _ I E) as [W _]. now rewrite W.
      * apply K.
    + rewrite last_registered_frame by reflexivity. cbn [regcall].
      replace (c_regver (if N.eqb y ch then with_cur t c else c)) with (c_regver c)
        by (now destruct (N.eqb y ch)).
      apply K.
    + rewrite relayed_frame by reflexivity. cbn [relays snd relay_versions app]. apply K.
    + rewrite relayed_frame by reflexivity. cbn [relays snd relay_versions app].
      replace (c_published (if N.eqb y ch then with_cur t c else c)) with (c_published c)
        by (now destruct (N.eqb y ch)). apply K.
    + rewrite relayed_frame by reflexivity. cbn [relays snd relay_versions app].
      replace (c_published (if N.eqb y ch then with_cur t c else c)) with (c_published c)
        by (now destruct (N.eqb y ch)).
      replace (c_pubver (if N.eqb y ch then with_cur t c else c)) with (c_pubver c)
        by (now destruct (N.eqb y ch)). apply K.
Qed.

Lemma inv_fails tr s b : inv tr s -> inv ((RegisterFails b, []) :: tr) (mkW (w_reg s) b).
Proof.
  intros I.
  apply inv_frame with (s := s) (g := fun _ c => c); try assumption; try reflexivity.
  - intros y. cbn [w_reg]. now destruct (w_reg s y).
  - intros; repeat split; reflexivity.
  - intros y c E K. repeat split.
    + rewrite newest_frame by reflexivity. apply K.
    + rewrite last_registered_frame by reflexivity. apply K.
    + rewrite relayed_frame by reflexivity. apply K.
    + rewrite relayed_frame by reflexivity. apply K.
    + rewrite relayed_frame by reflexivity. apply K.
Qed.

Lemma inv_other tr s e ch k v :
  k <> KRegistered ->
  (e = ChainProgressed ch v \/ e = ChainConcluded ch v) ->
  inv tr s -> inv ((e, snd (handle_other s ch k v)) :: tr) (fst (handle_other s ch k v)).
Proof.
  intros Hk He I. unfold handle_other.
  destruct (w_reg s ch); cbn [fst snd]; apply inv_noop with (s := s); try assumption;
    try (destruct He; subst e; reflexivity); try reflexivity;
    try (left; destruct He; subst e; reflexivity).
  intros y. cbn [relays snd relay_versions]. destruct k; try reflexivity. congruence.
Qed.

(* ---------- registered events ---------- *)

Definition relay_cond (v : N) (c : chan) : bool := negb (c_published c) || (c_pubver c <? v).

Definition g_relay (ch : id) (v : N) (y : id) (c : chan) : chan :=
  if N.eqb y ch && relay_cond v c then with_published v c else c.

Definition g_reg (ch p : id) (ptx : tx) (y : id) (c : chan) : chan :=
  let c1 := if N.eqb y p then with_regver (tx_ver ptx) c else c in
  let c2 := if memid y (tx_locked ptx) then with_regver (tx_ver (c_cur c1)) c1 else c1 in
  if N.eqb y ch then with_registered c2 else c2.

Ltac crush_g :=
  unfold g_reg, g_relay;
  repeat match goal with |- context [if ?b then _ else _] => destruct b end;
  repeat split; reflexivity.

Lemma g_relay_keeps ch v y c :
  c_parent (g_relay ch v y c) = c_parent c /\ c_subs (g_relay ch v y c) = c_subs c /\
  c_arch (g_relay ch v y c) = c_arch c /\ c_done (g_relay ch v y c) = c_done c /\
  c_multi (g_relay ch v y c) = c_multi c.
Proof. crush_g. Qed.
Lemma g_reg_keeps ch p ptx y c :
  c_parent (g_reg ch p ptx y c) = c_parent c /\ c_subs (g_reg ch p ptx y c) = c_subs c /\
  c_arch (g_reg ch p ptx y c) = c_arch c /\ c_done (g_reg ch p ptx y c) = c_done c /\
  c_multi (g_reg ch p ptx y c) = c_multi c.
Proof. crush_g. Qed.
Lemma g_relay_cur ch v y c : c_cur (g_relay ch v y c) = c_cur c.
Proof. crush_g. Qed.
Lemma g_reg_cur ch p ptx y c : c_cur (g_reg ch p ptx y c) = c_cur c.
Proof. crush_g. Qed.
Lemma g_relay_regver ch v y c : c_regver (g_relay ch v y c) = c_regver c.
Proof. crush_g. Qed.
Lemma g_reg_pub ch p ptx y c :
  c_published (g_reg ch p ptx y c) = c_published c /\ c_pubver (g_reg ch p ptx y c) = c_pubver c.
Proof. crush_g. Qed.
Lemma g_reg_regver ch p ptx y c :
  c_regver (g_reg ch p ptx y c) =
  if memid y (tx_locked ptx) then tx_ver (c_cur c) else if N.eqb y p then tx_ver ptx else c_regver c.
Proof. crush_g. Qed.

Lemma relay_registered_spec s ch v pre c :
  w_reg s ch = Some c ->
  exists s',
    relay_registered s ch v pre =
      (s', pre ++ if relay_cond v c then [ORelay ch KRegistered v] else []) /\
    (forall y, w_reg s' y = option_map (g_relay ch v y) (w_reg s y)) /\ w_fail s' = w_fail s.
Proof.
  intros E. unfold relay_registered. rewrite E. fold (relay_cond v c).
  destruct (relay_cond v c) eqn:Ec.
  - eexists. split; [reflexivity|]. split; [|reflexivity].
    intros y. cbn [w_reg]. rewrite set_spec. unfold g_relay.
    destruct (N.eqb_spec y ch) as [->|Hn].
    + rewrite E. cbn [option_map andb]. now rewrite Ec.
    + cbn [andb]. now destruct (w_reg s y).
  - exists s. rewrite app_nil_r. split; [reflexivity|]. split; [|reflexivity].
    intros y. unfold g_relay. destruct (N.eqb_spec y ch) as [->|Hn].
    + rewrite E. cbn [option_map andb]. now rewrite Ec.
    + cbn [andb]. now destruct (w_reg s y).
Qed.

Lemma desc_cons v l : desc l -> (forall z, In z l -> z < v) -> desc (v :: l).
Proof.
  intros D H. constructor; [assumption|]. apply Forall_forall. intros z Hz. now apply H.
Qed.

Lemma relay_ok_push l pub pv v :
  relay_ok l pub pv -> (negb pub || (pv <? v)) = true -> relay_ok (v :: l) true v.
Proof.
  intros (D & Hf & Ht) Hc. split; [|split; [discriminate|intros _; eauto]].
  apply desc_cons; [assumption|]. intros z Hz.
  destruct pub; cbn [negb orb] in Hc.
  - destruct (Ht eq_refl) as [rest ->]. apply N.ltb_lt in Hc.
    destruct Hz as [<-|Hz]; [assumption|].
    inversion D as [|a b D' Hall]; subst. rewrite Forall_forall in Hall.
    specialize (Hall z Hz). cbn beta in Hall. lia.
  - rewrite (Hf eq_refl) in Hz. destruct Hz.
Qed.

Lemma assoc_map {A} (f : id -> A) ls y :
  assoc y (map (fun l => (l, f l)) ls) = if memid y ls then Some (f y) else None.
Proof.
  induction ls as [|a ls IH]; cbn [map assoc memid existsb]; [reflexivity|].
  destruct (N.eqb_spec y a) as [->|Hn]; [reflexivity|]. cbn [orb]. exact IH.
Qed.

Lemma relay_versions_app a b y : relay_versions (a ++ b) y = relay_versions a y ++ relay_versions b y.
Proof.
  induction a as [|o a IH]; [reflexivity|]. cbn [app relay_versions].
  destruct o as [| c k w | | |]; try exact IH. destruct k; try exact IH.
  destruct (N.eqb c y); [cbn [app]; now rewrite IH|exact IH].
Qed.

Lemma relay_ok_g ch v y cy l :
  relay_ok l (c_published cy) (c_pubver cy) ->
  relay_ok ((if N.eqb y ch && relay_cond v cy then [v] else []) ++ l)
           (c_published (g_relay ch v y cy)) (c_pubver (g_relay ch v y cy)).
Proof.
  intros R. unfold g_relay. destruct (N.eqb y ch && relay_cond v cy) eqn:E; [|exact R].
  cbn [app with_published c_published c_pubver]. apply andb_prop in E. destruct E as [_ E].
  eapply relay_ok_push; eassumption.
Qed.

Lemma inv_registered tr s ch v :
  inv tr s ->
  inv ((ChainRegistered ch v, snd (handle_registered s ch v)) :: tr) (fst (handle_registered s ch v)).
Proof.
  intros I. unfold handle_registered.
  destruct (w_reg s ch) as [c|] eqn:Ec.
  2:{ cbn [fst snd]. apply inv_noop with (s := s); auto. }
  destruct (inv_live _ _ _ _ I Ec) as [W K].
  rewrite (ok_done _ _ _ _ K).
  set (p := root_of c ch).
  assert (exists pc, w_reg s p = Some pc) as [pc Ep].
  { unfold p, root_of. destruct (c_parent c) as [q|] eqn:Epar; [|eauto].
    destruct (ok_par _ _ _ _ K _ Epar) as (pc & E & _). eauto. }
  rewrite Ep.
  match goal with |- context [if ?b then _ else _] => destruct b eqn:Er end.
  - destruct (w_fail s) eqn:Ef.
    + cbn [fst snd]. apply inv_noop with (s := s); auto.
      right. rewrite <- (proj2 I). exact Ef.
    + set (ptx := c_cur pc).
      set (subs := map (fun l => (l, sub_state (w_reg s) pc l)) (tx_locked ptx)).
      set (r3 := upd (mark_subs (upd (w_reg s) p (with_regver (tx_ver ptx))) (tx_locked ptx)) ch with_registered).
      assert (Hr3 : forall y, r3 y = option_map (g_reg ch p ptx y) (w_reg s y)).
      { intros y. unfold r3. rewrite upd_spec, mark_subs_spec, upd_spec. unfold g_reg.
        destruct (w_reg s y) as [cy|]; cbn [option_map].
        - destruct (N.eqb y p); cbn [option_map]; destruct (memid y (tx_locked ptx)); destruct (N.eqb y ch); reflexivity.
        - destruct (N.eqb y p); cbn [option_map]; destruct (N.eqb y ch); reflexivity. }
      destruct (relay_registered_spec (mkW r3 false) ch v [ORegister p ptx subs] (g_reg ch p ptx ch c))
        as (s' & Es' & Hs' & Hf').
      { cbn [w_reg]. rewrite Hr3, Ec. reflexivity. }
      rewrite Es'. cbn [fst snd].
      apply inv_frame with (s := s) (g := fun y cy => g_relay ch v y (g_reg ch p ptx y cy));
        try assumption; try reflexivity.
      * intros y. rewrite Hs'. cbn [w_reg]. rewrite Hr3. now destruct (w_reg s y).
      * intros y cy. destruct (g_relay_keeps ch v y (g_reg ch p ptx y cy)) as (A1 & A2 & A3 & A4 & A5).
        destruct (g_reg_keeps ch p ptx y cy) as (B1 & B2 & B3 & B4 & B5).
        rewrite A1, A2, A3, A4, A5. auto.
      * rewrite Hf'. cbn [w_fail reg_fails failset fst]. rewrite <- (proj2 I). symmetry. exact Ef.
      * intros y cy Ey Ky. destruct (inv_live _ _ _ _ I Ey) as [Wy _].
        split; [|split].
        -- rewrite newest_frame by reflexivity. cbn [published fst].
           rewrite g_relay_cur, g_reg_cur. apply Ky.
        -- rewrite last_registered_frame by reflexivity. cbn [regcall app].
           rewrite <- (proj2 I), Ef, Wy. cbn [negb andb].
           rewrite g_relay_regver, g_reg_regver.
           unfold call_version. unfold subs. rewrite assoc_map.
           destruct (N.eqb_spec y p) as [->|Hn].
           ++ assert (cy = pc) by congruence. subst cy.
              destruct (memid p (tx_locked ptx)); reflexivity.
           ++ destruct (memid y (tx_locked ptx)).
              ** unfold sub_state. rewrite Ey. reflexivity.
              ** apply Ky.
        -- rewrite relayed_frame by reflexivity. unfold relays. cbn [snd].
           rewrite relay_versions_app. cbn [relay_versions app].
           destruct (g_reg_pub ch p ptx y cy) as [P1 P2].
           assert (R : relay_ok (relayed tr y) (c_published (g_reg ch p ptx y cy)) (c_pubver (g_reg ch p ptx y cy))).
           { rewrite P1, P2. apply Ky. }
           apply (relay_ok_g ch v y _ _) in R.
           destruct (N.eqb_spec y ch) as [->|Hn].
           ++ assert (cy = c) by congruence. subst cy. cbn [andb] in R.
              destruct (relay_cond v (g_reg ch p ptx ch c)); cbn [relay_versions]; [rewrite N.eqb_refl|]; exact R.
           ++ cbn [andb app] in R.
              destruct (relay_cond v (g_reg ch p ptx ch c)); cbn [relay_versions]; [|exact R].
              apply not_eq_sym in Hn. apply N.eqb_neq in Hn. rewrite Hn. exact R.
  - destruct (relay_registered_spec s ch v [] c Ec) as (s' & Es' & Hs' & Hf').
    rewrite Es'. cbn [fst snd app].
    apply inv_frame with (s := s) (g := g_relay ch v); try assumption; try reflexivity.
    + apply g_relay_keeps.
    + rewrite Hf'. cbn [reg_fails failset fst]. apply I.
    + intros y cy Ey Ky. split; [|split].
      * rewrite newest_frame by reflexivity. cbn [published fst]. rewrite g_relay_cur. apply Ky.
      * rewrite last_registered_frame by reflexivity.
        replace (regcall _) with (@None (id * tx * list (id * option tx)))
          by (destruct (relay_cond v c); reflexivity).
        rewrite g_relay_regver. apply Ky.
      * rewrite relayed_frame by reflexivity. unfold relays. cbn [snd].
        pose proof (relay_ok_g ch v y cy _ (ok_relay _ _ _ _ Ky)) as R.
        destruct (N.eqb_spec y ch) as [->|Hn].
        -- assert (cy = c) by congruence. subst cy. cbn [andb] in R.
           destruct (relay_cond v c); cbn [relay_versions]; [rewrite N.eqb_refl|]; exact R.
        -- cbn [andb app] in R. destruct (relay_cond v c); cbn [relay_versions]; [|exact R].
           apply not_eq_sym in Hn. apply N.eqb_neq in Hn. rewrite Hn. exact R.
Qed.

(* ---------- entries that start or stop a channel ---------- *)

Section StartFrame.
  Variables (x : entry) (tr : trace) (c : id) (pp : option id) (m : bool) (t : tx).
  Hypothesis Hs : started x = Some (c, pp, m, t).

  Lemma watched_start y : watched (x :: tr) y = if N.eqb c y then true else watched tr y.
  Proof. cbn [watched]. now rewrite Hs. Qed.
  Lemma parent_start y : parent_of (x :: tr) y = if N.eqb c y then pp else parent_of tr y.
  Proof. cbn [parent_of]. now rewrite Hs. Qed.
  Lemma newest_start y : newest (x :: tr) y = if N.eqb c y then Some t else newest tr y.
  Proof. cbn [newest]. now rewrite Hs. Qed.
  Lemma archived_start p l : archived (x :: tr) p l = if N.eqb c p then None else archived tr p l.
  Proof. cbn [archived]. now rewrite Hs. Qed.
  Lemma last_registered_start y :
    last_registered (x :: tr) y = if N.eqb c y then None else last_registered tr y.
  Proof. cbn [last_registered]. now rewrite Hs. Qed.
  Lemma relayed_start y : relayed (x :: tr) y = if N.eqb c y then [] else relayed tr y.
  Proof. cbn [relayed]. now rewrite Hs. Qed.
End StartFrame.

Section StopFrame.
  Variables (x : entry) (tr : trace) (c : id).
  Hypothesis Hs : started x = None.
  Hypothesis Ht : stopped x = Some c.

  Lemma watched_stop y : watched (x :: tr) y = if N.eqb c y then false else watched tr y.
  Proof. cbn [watched]. now rewrite Hs, Ht. Qed.
  Lemma parent_stop y : parent_of (x :: tr) y = if N.eqb c y then None else parent_of tr y.
  Proof. cbn [parent_of]. now rewrite Hs, Ht. Qed.
  Lemma newest_stop y : newest (x :: tr) y = if N.eqb c y then None else newest tr y.
  Proof. cbn [newest]. now rewrite Hs, Ht. Qed.
  Lemma archived_stop p l :
    archived (x :: tr) p l =
    if N.eqb c p then None
    else if N.eqb c l && opt_id_eqb (parent_of tr l) (Some p) && locked_in l (newest tr p)
         then newest tr l else archived tr p l.
  Proof. cbn [archived]. now rewrite Hs, Ht. Qed.
  Lemma last_registered_stop y :
    last_registered (x :: tr) y = if N.eqb c y then None else last_registered tr y.
  Proof. cbn [last_registered]. now rewrite Hs, Ht. Qed.
  Lemma relayed_stop y : relayed (x :: tr) y = if N.eqb c y then [] else relayed tr y.
  Proof. cbn [relayed]. now rewrite Hs, Ht. Qed.
End StopFrame.

Lemma is_ledger_live s p : is_ledger s p -> exists pc, w_reg s p = Some pc.
Proof. intros (pc & E & _). eauto. Qed.

(* a live sub-channel and its parent are different channels; nothing is a sub-channel of a dead channel *)
Lemma sub_parent_neq tr s ch c p :
  inv tr s -> w_reg s ch = Some c -> c_parent c = Some p -> p <> ch.
Proof.
  intros I E Hp ->. destruct (inv_live _ _ _ _ I E) as [_ K].
  destruct (ok_par _ _ _ _ K _ Hp) as (pc & E' & Hn). congruence.
Qed.

Lemma no_child_of_dead tr s ch z :
  inv tr s -> w_reg s ch = None -> watched tr z = true -> parent_of tr z = Some ch -> False.
Proof.
  intros I E W P. destruct (inv_watched _ _ _ I W) as [cz Ez].
  destruct (inv_live _ _ _ _ I Ez) as [_ K].
  rewrite (ok_parent _ _ _ _ K) in P.
  destruct (ok_par _ _ _ _ K _ P) as (pc & E' & _). congruence.
Qed.

Lemma inv_start_ledger tr s ch m t :
  inv tr s ->
  inv ((StartLedger ch m t, snd (start_ledger s ch m t)) :: tr) (fst (start_ledger s ch m t)).
Proof.
  intros I. unfold start_ledger. destruct (w_reg s ch) as [c0|] eqn:Ec; cbn [fst snd].
  { apply inv_noop with (s := s); auto. }
  set (x := (StartLedger ch m t, [OStart StartOK])).
  assert (Hs : started x = Some (ch, None, m, t)) by reflexivity.
  split; [|cbn [w_fail reg_fails failset fst]; apply I].
  intros y. cbn [w_reg]. rewrite set_spec, (watched_start _ _ _ _ _ _ Hs), (N.eqb_sym ch y).
  destruct (N.eqb_spec y ch) as [->|Hn].
  - split; [reflexivity|]. constructor; cbn [new_chan c_cur c_parent c_done c_regver c_arch c_subs c_published c_pubver].
    + rewrite (newest_start _ _ _ _ _ _ Hs), N.eqb_refl. reflexivity.
    + rewrite (parent_start _ _ _ _ _ _ Hs), N.eqb_refl. reflexivity.
    + reflexivity.
    + rewrite (last_registered_start _ _ _ _ _ _ Hs), N.eqb_refl. reflexivity.
    + intros l. rewrite (archived_start _ _ _ _ _ _ Hs), N.eqb_refl. reflexivity.
    + intros z. split; [intros []|]. intros [Wz Pz].
      rewrite (watched_start _ _ _ _ _ _ Hs) in Wz. rewrite (parent_start _ _ _ _ _ _ Hs) in Pz.
      destruct (N.eqb ch z); [discriminate|]. eapply no_child_of_dead; eassumption.
    + discriminate.
    + rewrite (relayed_start _ _ _ _ _ _ Hs), N.eqb_refl. split; [constructor|split; [reflexivity|discriminate]].
    + intros SL. exact (SL x _ _ _ _ (or_introl eq_refl) Hs).
  - destruct (w_reg s y) as [cy|] eqn:Ey; [|now apply inv_dead with (s := s)].
    destruct (inv_live _ _ _ _ I Ey) as [Wy Ky]. split; [assumption|].
    assert (Hn' : N.eqb ch y = false) by (apply N.eqb_neq; congruence).
    constructor.
    + rewrite (newest_start _ _ _ _ _ _ Hs), Hn'. apply Ky.
    + rewrite (parent_start _ _ _ _ _ _ Hs), Hn'. apply Ky.
    + apply Ky.
    + rewrite (last_registered_start _ _ _ _ _ _ Hs), Hn'. apply Ky.
    + intros l. rewrite (archived_start _ _ _ _ _ _ Hs), Hn'. apply Ky.
    + intros z. rewrite (watched_start _ _ _ _ _ _ Hs), (parent_start _ _ _ _ _ _ Hs).
      destruct (N.eqb_spec ch z) as [<-|Hz]; [|apply Ky].
      split; [|intros [_ ?]; discriminate].
      intros Hin. apply (ok_subs _ _ _ _ Ky) in Hin. destruct Hin as [Wc _].
      rewrite (inv_dead _ _ _ I Ec) in Wc. discriminate.
    + intros p Hp. destruct (ok_par _ _ _ _ Ky _ Hp) as (pc & Ep & Pn).
      exists pc. split; [|assumption]. cbn [w_reg]. rewrite set_other; [assumption|congruence].
    + rewrite (relayed_start _ _ _ _ _ _ Hs), Hn'. apply Ky.
    + intros SL. apply Ky. eapply single_ledger_tail; eassumption.
Qed.

Lemma inv_start_sub tr s ch p m t :
  inv tr s ->
  inv ((StartSub ch p m t, snd (start_sub s ch p m t)) :: tr) (fst (start_sub s ch p m t)).
Proof.
  intros I. unfold start_sub. destruct (w_reg s p) as [pc|] eqn:Ep; cbn [fst snd].
  2:{ apply inv_noop with (s := s); auto. }
  unfold is_sub. destruct (c_parent pc) as [q|] eqn:Epp; cbn [fst snd].
  { apply inv_noop with (s := s); auto. }
  destruct (w_reg s ch) as [c0|] eqn:Ec; cbn [fst snd].
  { apply inv_noop with (s := s); auto. }
  assert (Hpc : p <> ch) by congruence.
  set (x := (StartSub ch p m t, [OStart StartOK])).
  assert (Hs : started x = Some (ch, Some p, m, t)) by reflexivity.
  split; [|cbn [w_fail reg_fails failset fst]; apply I].
  intros y. cbn [w_reg]. rewrite upd_spec, !set_spec, (watched_start _ _ _ _ _ _ Hs), (N.eqb_sym ch y).
  assert (Lp : is_ledger (mkW (upd (set (w_reg s) ch (Some (new_chan (Some p) m t))) p
                                   (fun pc0 => with_subs (ch :: c_subs pc0) pc0)) (w_fail s)) p).
  { eexists. cbn [w_reg]. rewrite upd_spec, N.eqb_refl, set_spec.
    replace (N.eqb p ch) with false by (symmetry; now apply N.eqb_neq).
    rewrite Ep. cbn [option_map]. split; [reflexivity|exact Epp]. }
  assert (Lq : forall q, q <> ch -> is_ledger s q ->
     is_ledger (mkW (upd (set (w_reg s) ch (Some (new_chan (Some p) m t))) p
                         (fun pc0 => with_subs (ch :: c_subs pc0) pc0)) (w_fail s)) q).
  { intros q Hq (qc & Eq & Pq). destruct (N.eq_dec q p) as [->|Hqp]; [exact Lp|].
    exists qc. cbn [w_reg]. rewrite upd_spec, set_spec.
    replace (N.eqb q p) with false by (symmetry; now apply N.eqb_neq).
    replace (N.eqb q ch) with false by (symmetry; now apply N.eqb_neq). auto. }
  destruct (N.eqb_spec y ch) as [->|Hn].
  - replace (N.eqb ch p) with false by (symmetry; apply N.eqb_neq; congruence).
    split; [reflexivity|].
    constructor; cbn [new_chan c_cur c_parent c_done c_regver c_arch c_subs c_published c_pubver].
    + rewrite (newest_start _ _ _ _ _ _ Hs), N.eqb_refl. reflexivity.
    + rewrite (parent_start _ _ _ _ _ _ Hs), N.eqb_refl. reflexivity.
    + reflexivity.
    + rewrite (last_registered_start _ _ _ _ _ _ Hs), N.eqb_refl. reflexivity.
    + intros l. rewrite (archived_start _ _ _ _ _ _ Hs), N.eqb_refl. reflexivity.
    + intros z. split; [intros []|]. intros [Wz Pz].
      rewrite (watched_start _ _ _ _ _ _ Hs) in Wz. rewrite (parent_start _ _ _ _ _ _ Hs) in Pz.
      destruct (N.eqb ch z); [congruence|]. eapply no_child_of_dead; eassumption.
    + intros p0 Hp0. injection Hp0 as <-. exact Lp.
    + rewrite (relayed_start _ _ _ _ _ _ Hs), N.eqb_refl. split; [constructor|split; [reflexivity|discriminate]].
    + intros SL. exact (SL x _ _ _ _ (or_introl eq_refl) Hs).
  - assert (Hn' : N.eqb ch y = false) by (apply N.eqb_neq; congruence).
    destruct (N.eqb_spec y p) as [->|Hyp].
    + rewrite Ep. cbn [option_map].
      destruct (inv_live _ _ _ _ I Ep) as [Wy Ky]. split; [assumption|].
      constructor; cbn [with_subs c_cur c_parent c_done c_regver c_arch c_subs c_published c_pubver].
      * rewrite (newest_start _ _ _ _ _ _ Hs), Hn'. apply Ky.
      * rewrite (parent_start _ _ _ _ _ _ Hs), Hn'. apply Ky.
      * apply Ky.
      * rewrite (last_registered_start _ _ _ _ _ _ Hs), Hn'. apply Ky.
      * intros l. rewrite (archived_start _ _ _ _ _ _ Hs), Hn'. apply Ky.
      * intros z. rewrite (watched_start _ _ _ _ _ _ Hs), (parent_start _ _ _ _ _ _ Hs).
        destruct (N.eqb_spec ch z) as [<-|Hz].
        -- split; auto. intros _. now left.
        -- rewrite <- (ok_subs _ _ _ _ Ky z). split; [intros [?|?]; [congruence|assumption]|now right].
      * intros p0 Hp0. congruence.
      * rewrite (relayed_start _ _ _ _ _ _ Hs), Hn'. apply Ky.
      * intros SL. apply Ky. eapply single_ledger_tail; eassumption.
    + destruct (w_reg s y) as [cy|] eqn:Ey; [|now apply inv_dead with (s := s)].
      destruct (inv_live _ _ _ _ I Ey) as [Wy Ky]. split; [assumption|].
      constructor.
      * rewrite (newest_start _ _ _ _ _ _ Hs), Hn'. apply Ky.
      * rewrite (parent_start _ _ _ _ _ _ Hs), Hn'. apply Ky.
      * apply Ky.
      * rewrite (last_registered_start _ _ _ _ _ _ Hs), Hn'. apply Ky.
      * intros l. rewrite (archived_start _ _ _ _ _ _ Hs), Hn'. apply Ky.
      * intros z. rewrite (watched_start _ _ _ _ _ _ Hs), (parent_start _ _ _ _ _ _ Hs).
        destruct (N.eqb_spec ch z) as [<-|Hz]; [|apply Ky].
        split; [|intros [_ ?]; congruence].
        intros Hin. apply (ok_subs _ _ _ _ Ky) in Hin. destruct Hin as [Wc _].
        rewrite (inv_dead _ _ _ I Ec) in Wc. discriminate.
      * intros p0 Hp0. apply Lq; [|exact (ok_par _ _ _ _ Ky _ Hp0)].
        destruct (ok_par _ _ _ _ Ky _ Hp0) as (qc & Eq & _). congruence.
      * rewrite (relayed_start _ _ _ _ _ _ Hs), Hn'. apply Ky.
      * intros SL. apply Ky. eapply single_ledger_tail; eassumption.
Qed.

Lemma remove_id_In x z l : In z (remove_id x l) <-> In z l /\ z <> x.
Proof.
  unfold remove_id. rewrite filter_In. split; intros [A B]; split; auto.
  - apply negb_true_iff in B. now apply N.eqb_neq in B.
  - apply negb_true_iff. now apply N.eqb_neq.
Qed.

Lemma refuses_false c : refuses c = false -> c_parent c = None -> c_subs c = [].
Proof.
  unfold refuses, is_sub. intros H Hp. rewrite Hp in H. cbn [negb andb] in H.
  destruct (c_subs c); [reflexivity|discriminate].
Qed.

Lemma inv_stop tr s ch :
  inv tr s ->
  inv ((Stop ch, snd (stop_gen false s ch)) :: tr) (fst (stop_gen false s ch)).
Proof.
  intros I. unfold stop_gen. destruct (w_reg s ch) as [c|] eqn:Ec; cbn [fst snd].
  2:{ apply inv_noop with (s := s); auto. }
  destruct (refuses c) eqn:Er; cbn [fst snd].
  { apply inv_noop with (s := s); auto. }
  destruct (inv_live _ _ _ _ I Ec) as [W K].
  rewrite (ok_done _ _ _ _ K). unfold stop_finish.
  set (x := (Stop ch, [OStop StopOK])).
  assert (Hs : started x = None) by reflexivity.
  assert (Ht : stopped x = Some ch) by reflexivity.
  destruct (c_parent c) as [p|] eqn:Epar.
  - (* a sub-channel: archive, delete from the parent's subChs, remove *)
    destruct (ok_par _ _ _ _ K _ Epar) as (pc & Ep & Ppn). rewrite Ep. cbn [fst snd].
    assert (Hpc : p <> ch) by (eapply sub_parent_neq; eassumption).
    destruct (inv_live _ _ _ _ I Ep) as [Wp Kp].
    set (arch := if memid ch (tx_locked (c_cur pc))
                 then (fun y => if N.eqb y ch then Some (c_cur c) else c_arch pc y) else c_arch pc).
    set (pc' := with_subs (remove_id ch (c_subs pc)) (with_arch arch pc)).
    fold x.
    assert (Lq : forall q, is_ledger s q ->
       is_ledger (mkW (set (set (w_reg s) p (Some pc')) ch None) (w_fail s)) q).
    { intros q (qc & Eq & Pq). assert (q <> ch) by congruence.
      cbn [w_reg]. unfold is_ledger. cbn [w_reg]. rewrite set_other by assumption. rewrite set_spec.
      destruct (N.eqb_spec q p) as [->|Hqp]; [exists pc'; split; [reflexivity|exact Ppn]|eauto]. }
    split; [|cbn [w_fail reg_fails failset fst]; apply I].
    intros y. cbn [w_reg]. rewrite !set_spec, (watched_stop _ _ _ Hs Ht), (N.eqb_sym ch y).
    destruct (N.eqb_spec y ch) as [->|Hn]; [reflexivity|].
    assert (Hn' : N.eqb ch y = false) by (apply N.eqb_neq; congruence).
    destruct (N.eqb_spec y p) as [->|Hyp].
    + split; [assumption|].
      constructor; unfold pc'; cbn [with_subs with_arch c_cur c_parent c_done c_regver c_arch c_subs c_published c_pubver].
      * rewrite (newest_stop _ _ _ Hs Ht), Hn'. apply Kp.
      * rewrite (parent_stop _ _ _ Hs Ht), Hn'. apply Kp.
      * apply Kp.
      * rewrite (last_registered_stop _ _ _ Hs Ht), Hn'. apply Kp.
      * intros l. rewrite (archived_stop _ _ _ Hs Ht), Hn'. unfold arch.
        destruct (N.eqb_spec ch l) as [<-|Hl].
        -- rewrite (ok_parent _ _ _ _ K), Epar. cbn [opt_id_eqb andb]. rewrite N.eqb_refl.
           rewrite (ok_newest _ _ _ _ Kp). cbn [andb locked_in].
           destruct (memid ch (tx_locked (c_cur pc))).
           ++ rewrite N.eqb_refl. apply K.
           ++ apply Kp.
        -- cbn [andb]. rewrite (ok_arch _ _ _ _ Kp).
           destruct (memid ch (tx_locked (c_cur pc))); [|reflexivity].
           replace (N.eqb l ch) with false by (symmetry; apply N.eqb_neq; congruence). reflexivity.
      * intros z. rewrite remove_id_In, (watched_stop _ _ _ Hs Ht), (parent_stop _ _ _ Hs Ht).
        destruct (N.eqb_spec ch z) as [<-|Hz].
        -- split; [intros [_ ?]; congruence|intros [? _]; discriminate].
        -- rewrite (ok_subs _ _ _ _ Kp z). split; [tauto|]. intros ?. split; [assumption|congruence].
      * intros q Hq. congruence.
      * rewrite (relayed_stop _ _ _ Hs Ht), Hn'. apply Kp.
      * intros SL. apply Kp. eapply single_ledger_tail; eassumption.
    + destruct (w_reg s y) as [cy|] eqn:Ey; [|now apply inv_dead with (s := s)].
      destruct (inv_live _ _ _ _ I Ey) as [Wy Ky]. split; [assumption|].
      constructor.
      * rewrite (newest_stop _ _ _ Hs Ht), Hn'. apply Ky.
      * rewrite (parent_stop _ _ _ Hs Ht), Hn'. apply Ky.
      * apply Ky.
      * rewrite (last_registered_stop _ _ _ Hs Ht), Hn'. apply Ky.
      * intros l. rewrite (archived_stop _ _ _ Hs Ht), Hn'.
        destruct (N.eqb_spec ch l) as [<-|Hl]; [|apply Ky].
        rewrite (ok_parent _ _ _ _ K), Epar. cbn [opt_id_eqb andb].
        replace (N.eqb p y) with false by (symmetry; apply N.eqb_neq; congruence).
        cbn [andb]. apply Ky.
      * intros z. rewrite (watched_stop _ _ _ Hs Ht), (parent_stop _ _ _ Hs Ht).
        destruct (N.eqb_spec ch z) as [<-|Hz]; [|apply Ky].
        split; [|intros [? _]; discriminate].
        intros Hin. apply (ok_subs _ _ _ _ Ky) in Hin. destruct Hin as [_ Pc].
        rewrite (ok_parent _ _ _ _ K), Epar in Pc. congruence.
      * intros q Hq. apply Lq. exact (ok_par _ _ _ _ Ky _ Hq).
      * rewrite (relayed_stop _ _ _ Hs Ht), Hn'. apply Ky.
      * intros SL. apply Ky. eapply single_ledger_tail; eassumption.
  - (* a ledger channel without sub-channels: remove *)
    cbn [fst snd]. fold x.
    pose proof (refuses_false _ Er Epar) as Hsubs.
    split; [|cbn [w_fail reg_fails failset fst]; apply I].
    intros y. cbn [w_reg]. rewrite set_spec, (watched_stop _ _ _ Hs Ht), (N.eqb_sym ch y).
    destruct (N.eqb_spec y ch) as [->|Hn]; [reflexivity|].
    assert (Hn' : N.eqb ch y = false) by (apply N.eqb_neq; congruence).
    destruct (w_reg s y) as [cy|] eqn:Ey; [|now apply inv_dead with (s := s)].
    destruct (inv_live _ _ _ _ I Ey) as [Wy Ky]. split; [assumption|].
    constructor.
    + rewrite (newest_stop _ _ _ Hs Ht), Hn'. apply Ky.
    + rewrite (parent_stop _ _ _ Hs Ht), Hn'. apply Ky.
    + apply Ky.
    + rewrite (last_registered_stop _ _ _ Hs Ht), Hn'. apply Ky.
    + intros l. rewrite (archived_stop _ _ _ Hs Ht), Hn'.
      destruct (N.eqb_spec ch l) as [<-|Hl]; [|apply Ky].
      rewrite (ok_parent _ _ _ _ K), Epar. cbn [opt_id_eqb andb]. apply Ky.
    + intros z. rewrite (watched_stop _ _ _ Hs Ht), (parent_stop _ _ _ Hs Ht).
      destruct (N.eqb_spec ch z) as [<-|Hz]; [|apply Ky].
      split; [|intros [? _]; discriminate].
      intros Hin. apply (ok_subs _ _ _ _ Ky) in Hin. destruct Hin as [_ Pc].
      rewrite (ok_parent _ _ _ _ K), Epar in Pc. discriminate.
    + intros q Hq. destruct (ok_par _ _ _ _ Ky _ Hq) as (qc & Eq & Pq).
      assert (q <> ch).
      { intros ->. assert (In y (c_subs c)).
        { apply (ok_subs _ _ _ _ K). split; [assumption|]. rewrite (ok_parent _ _ _ _ Ky). exact Hq. }
        rewrite Hsubs in H. destruct H. }
      exists qc. cbn [w_reg]. rewrite set_other by assumption. auto.
    + rewrite (relayed_stop _ _ _ Hs Ht), Hn'. apply Ky.
    + intros SL. apply Ky. eapply single_ledger_tail; eassumption.
Qed.

(* ---------- every history ---------- *)

Lemma inv_init : inv [] init.
Proof. split; [intros ch; reflexivity|reflexivity]. Qed.

Lemma inv_step tr s e : inv tr s -> inv ((e, snd (step s e)) :: tr) (fst (step s e)).
Proof.
  intros I. destruct e; unfold step, step_gen.
  - now apply inv_publish.
  - now apply inv_registered.
  - apply inv_other; [discriminate|now left|assumption].
  - apply inv_other; [discriminate|now right|assumption].
  - now apply inv_start_ledger.
  - now apply inv_start_sub.
  - now apply inv_stop.
  - cbn [fst snd]. now apply inv_fails.
Qed.

Theorem reach_inv tr s : reach tr s -> inv tr s.
Proof. induction 1; [apply inv_init|now apply inv_step]. Qed.

(* ---------- what a registered event produces ---------- *)

Definition refutes (v : N) (c : chan) : bool :=
  ((v <? tx_ver (c_cur c)) && (c_regver c <=? v))
  || (c_multi c && (negb (c_registered c) || (c_regver c <? v))).

Definition the_call (s : wstate) (p : id) (pc : chan) : out :=
  ORegister p (c_cur pc) (map (fun l => (l, sub_state (w_reg s) pc l)) (tx_locked (c_cur pc))).

Lemma registered_outs tr s ch v c :
  inv tr s -> w_reg s ch = Some c ->
  exists pc, w_reg s (root_of c ch) = Some pc /\
    snd (handle_registered s ch v) =
      (if refutes v c then [the_call s (root_of c ch) pc] else [])
      ++ (if refutes v c && w_fail s then []
          else if relay_cond v c then [ORelay ch KRegistered v] else []).
Proof.
  intros I Ec. destruct (inv_live _ _ _ _ I Ec) as [W K].
  assert (exists pc, w_reg s (root_of c ch) = Some pc) as [pc Ep].
  { unfold root_of. destruct (c_parent c) as [q|] eqn:Epar; [|eauto].
    destruct (ok_par _ _ _ _ K _ Epar) as (pc & E & _). eauto. }
  exists pc. split; [assumption|].
  unfold handle_registered. rewrite Ec, (ok_done _ _ _ _ K), Ep. fold (refutes v c).
  destruct (refutes v c); cbn [andb].
  - destruct (w_fail s) eqn:Ef; [reflexivity|].
    match goal with |- context [relay_registered ?s0 ch v ?pre] =>
      destruct (relay_registered_spec s0 ch v pre (g_reg ch (root_of c ch) (c_cur pc) ch c)) as (s' & Es' & _) end.
    { cbn [w_reg]. rewrite upd_spec, N.eqb_refl, mark_subs_spec, upd_spec, Ec. unfold g_reg.
      rewrite N.eqb_refl. cbn [option_map]. destruct (N.eqb ch (root_of c ch)); cbn [option_map];
        destruct (memid ch (tx_locked (c_cur pc))); reflexivity. }
    rewrite Es'. cbn [snd]. unfold the_call.
    replace (relay_cond v (g_reg ch (root_of c ch) (c_cur pc) ch c)) with (relay_cond v c); [reflexivity|].
    unfold relay_cond. destruct (g_reg_pub ch (root_of c ch) (c_cur pc) ch c) as [-> ->]. reflexivity.
  - destruct (relay_registered_spec s ch v [] c Ec) as (s' & Es' & _). rewrite Es'. reflexivity.
Qed.

Lemma registered_outs_dead s ch v : w_reg s ch = None -> handle_registered s ch v = (s, []).
Proof. intros E. unfold handle_registered. now rewrite E. Qed.

Lemma root_agrees tr s ch c : chan_ok tr s ch c -> root_of c ch = root tr ch.
Proof. intros K. unfold root_of, root. now rewrite (ok_parent _ _ _ _ K). Qed.

Lemma the_call_wanted tr s p pc :
  inv tr s -> w_reg s p = Some pc ->
  the_call s p pc = ORegister p (c_cur pc) (wanted_subs tr p (c_cur pc)).
Proof.
  intros I Ep. destruct (inv_live _ _ _ _ I Ep) as [_ Kp].
  unfold the_call, wanted_subs. f_equal. apply map_ext. intros l. f_equal.
  unfold sub_state. destruct (w_reg s l) as [sc|] eqn:El.
  - destruct (inv_live _ _ _ _ I El) as [Wl Kl]. rewrite Wl. symmetry. apply Kl.
  - rewrite (inv_dead _ _ _ I El). symmetry. apply Kp.
Qed.

(* which outputs a registered event for a watched channel has: at most the one call, at most the one relay *)
Lemma registered_outs_in tr s ch v c o :
  inv tr s -> w_reg s ch = Some c ->
  In o (snd (handle_registered s ch v)) ->
  (refutes v c = true /\ exists pc, w_reg s (root_of c ch) = Some pc /\ o = the_call s (root_of c ch) pc)
  \/ (o = ORelay ch KRegistered v /\ relay_cond v c = true).
Proof.
  intros I Ec Hin. destruct (registered_outs _ _ _ v _ I Ec) as (pc & Ep & Eo).
  rewrite Eo in Hin. apply in_app_or in Hin. destruct Hin as [Hin|Hin].
  - left. destruct (refutes v c); [|destruct Hin]. destruct Hin as [<-|[]]. eauto.
  - right. destruct (refutes v c && w_fail s); [destruct Hin|].
    destruct (relay_cond v c); [|destruct Hin]. destruct Hin as [<-|[]]. auto.
Qed.

Lemma refutes_single tr s ch c v :
  chan_ok tr s ch c -> single_ledger tr ->
  refutes v c = true <->
  ((exists t, newest tr ch = Some t /\ v < tx_ver t) /\
   (forall n, last_registered tr ch = Some n -> n <= v)).
Proof.
  intros K SL. unfold refutes. rewrite (ok_multi _ _ _ _ K SL). cbn [andb]. rewrite orb_false_r.
  rewrite andb_true_iff, N.ltb_lt, N.leb_le, (ok_newest _ _ _ _ K).
  pose proof (ok_regver _ _ _ _ K) as R. unfold regver_ok in R.
  split.
  - intros [A B]. split; [eauto|]. intros n En. rewrite En in R. lia.
  - intros [(t & Et & A) B]. injection Et as <-. split; [assumption|].
    destruct (last_registered tr ch) as [n|]; [specialize (B n eq_refl)|]; lia.
Qed.

(* ---------- the property lemmas (stated for every reachable history) ---------- *)

Theorem refute_iff tr s ch v :
  reach tr s -> single_ledger tr -> watched tr ch = true ->
  (exists p t subs, In (ORegister p t subs) (snd (step s (ChainRegistered ch v)))) <->
  ((exists t, newest tr ch = Some t /\ v < tx_ver t) /\
   (forall n, last_registered tr ch = Some n -> n <= v)).
Proof.
  intros R SL W. pose proof (reach_inv _ _ R) as I.
  destruct (inv_watched _ _ _ I W) as [c Ec]. destruct (inv_live _ _ _ _ I Ec) as [_ K].
  rewrite <- (refutes_single _ _ _ _ v K SL). cbn [step step_gen].
  destruct (registered_outs _ _ _ v _ I Ec) as (pc & Ep & Eo). split.
  - intros (p & t & subs & Hin). destruct (registered_outs_in _ _ _ _ _ _ I Ec Hin) as [[? _]|[? _]];
      [assumption|discriminate].
  - intros Hr. rewrite Eo, Hr. unfold the_call. do 3 eexists. now left.
Qed.

Theorem refute_args tr s ch v p t subs :
  reach tr s -> watched tr ch = true ->
  In (ORegister p t subs) (snd (step s (ChainRegistered ch v))) ->
  p = root tr ch /\ newest tr p = Some t /\ subs = wanted_subs tr p t.
Proof.
  intros R W Hin. pose proof (reach_inv _ _ R) as I.
  destruct (inv_watched _ _ _ I W) as [c Ec]. destruct (inv_live _ _ _ _ I Ec) as [_ K].
  cbn [step step_gen] in Hin.
  destruct (registered_outs_in _ _ _ _ _ _ I Ec Hin) as [(_ & pc & Ep & Eo)|[? _]]; [|discriminate].
  rewrite (the_call_wanted _ _ _ _ I Ep) in Eo. injection Eo as -> -> ->.
  destruct (inv_live _ _ _ _ I Ep) as [_ Kp].
  split; [apply (root_agrees _ _ _ _ K)|]. split; [apply Kp|reflexivity].
Qed.

Theorem nothing_newer_no_call tr s ch v t :
  reach tr s -> single_ledger tr -> newest tr ch = Some t -> tx_ver t <= v ->
  forall o, In o (snd (step s (ChainRegistered ch v))) -> is_register o = false.
Proof.
  intros R SL En Hle o Hin. destruct o as [p t' subs| | | |]; try reflexivity. exfalso.
  pose proof (reach_inv _ _ R) as I.
  destruct (watched tr ch) eqn:W.
  - assert (Hex : exists p t subs, In (ORegister p t subs) (snd (step s (ChainRegistered ch v)))) by eauto.
    apply (refute_iff _ _ _ _ R SL W) in Hex. destruct Hex as [(t0 & Et0 & Hlt) _].
    rewrite En in Et0. injection Et0 as <-. lia.
  - cbn [step step_gen] in Hin. destruct (w_reg s ch) as [c|] eqn:Ec.
    + destruct (inv_live _ _ _ _ I Ec) as [W' _]. congruence.
    + rewrite (registered_outs_dead _ _ _ Ec) in Hin. destruct Hin.
Qed.

(* Register is only ever called while a registered event of a watched channel is handled, once *)
Theorem register_only_for_registered tr s e o :
  reach tr s -> In o (snd (step s e)) -> is_register o = true ->
  exists ch v, e = ChainRegistered ch v /\ watched tr ch = true /\
               length (filter is_register (snd (step s e))) = 1%nat.
Proof.
  intros R Hin Ho. pose proof (reach_inv _ _ R) as I.
  destruct e; cbn [step step_gen] in *.
  - destruct Hin.
  - destruct (w_reg s ch) as [c|] eqn:Ec.
    + destruct (inv_live _ _ _ _ I Ec) as [W _]. exists ch, v. split; [reflexivity|]. split; [assumption|].
      destruct (registered_outs_in _ _ _ _ _ _ I Ec Hin) as [(Hr & _)|[-> _]]; [|discriminate].
      destruct (registered_outs _ _ _ v _ I Ec) as (pc & Ep & Eo). rewrite Eo, Hr.
      cbn [andb app filter is_register the_call]. unfold the_call. cbn [filter is_register].
      destruct (w_fail s); [reflexivity|]. destruct (relay_cond v c); reflexivity.
    + rewrite (registered_outs_dead _ _ _ Ec) in Hin. destruct Hin.
  - unfold handle_other in Hin. destruct (w_reg s ch); [destruct Hin as [<-|[]]; discriminate|destruct Hin].
  - unfold handle_other in Hin. destruct (w_reg s ch); [destruct Hin as [<-|[]]; discriminate|destruct Hin].
  - unfold start_ledger in Hin. destruct (w_reg s ch); destruct Hin as [<-|[]]; discriminate.
  - unfold start_sub in Hin. destruct (w_reg s parent) as [pc|]; [|destruct Hin as [<-|[]]; discriminate].
    destruct (is_sub pc); [destruct Hin as [<-|[]]; discriminate|].
    destruct (w_reg s ch); destruct Hin as [<-|[]]; discriminate.
  - unfold stop_gen, stop_finish in Hin.
    destruct (w_reg s ch) as [c|]; [|destruct Hin as [<-|[]]; discriminate].
    destruct (refuses c); [destruct Hin as [<-|[]]; discriminate|].
    destruct (c_done c); [destruct Hin as [<-|[]]; discriminate|].
    destruct (c_parent c) as [q|]; [|destruct Hin as [<-|[]]; discriminate].
    destruct (w_reg s q); destruct Hin as [<-|[]]; discriminate.
  - destruct Hin.
Qed.

(* ---------- relays ---------- *)

(* an event relayed to a client is the event that was just reported for that (watched) channel *)
Theorem relay_faithful tr s e c k v :
  reach tr s -> In (ORelay c k v) (snd (step s e)) ->
  watched tr c = true /\
  match k with
  | KRegistered => e = ChainRegistered c v
  | KProgressed => e = ChainProgressed c v
  | KConcluded => e = ChainConcluded c v
  end /\ length (filter is_relay (snd (step s e))) = 1%nat.
Proof.
  intros R Hin. pose proof (reach_inv _ _ R) as I.
  destruct e; cbn [step step_gen] in *.
  - destruct Hin.
  - destruct (w_reg s ch) as [c0|] eqn:Ec.
    + destruct (inv_live _ _ _ _ I Ec) as [W _].
      destruct (registered_outs_in _ _ _ _ _ _ I Ec Hin) as [(_ & pc & _ & Eo)|[Eo Hc]]; [discriminate|].
      injection Eo as -> -> ->. split; [assumption|]. split; [reflexivity|].
      destruct (registered_outs _ _ _ v0 _ I Ec) as (pc & Ep & Eo). rewrite Eo in Hin |- *.
      rewrite Hc in Hin |- *. unfold the_call in *.
      destruct (refutes v0 c0); destruct (w_fail s); cbn [andb app filter is_relay length] in *;
        try reflexivity.
      destruct Hin as [Hin|[]]. discriminate Hin.
    + rewrite (registered_outs_dead _ _ _ Ec) in Hin. destruct Hin.
  - unfold handle_other in *. destruct (w_reg s ch) as [c0|] eqn:Ec; [|destruct Hin].
    destruct Hin as [Hin|[]]. injection Hin as -> <- ->.
    destruct (inv_live _ _ _ _ I Ec) as [W _]. auto.
  - unfold handle_other in *. destruct (w_reg s ch) as [c0|] eqn:Ec; [|destruct Hin].
    destruct Hin as [Hin|[]]. injection Hin as -> <- ->.
    destruct (inv_live _ _ _ _ I Ec) as [W _]. auto.
  - unfold start_ledger in Hin. destruct (w_reg s ch); destruct Hin as [?|[]]; discriminate.
  - unfold start_sub in Hin. destruct (w_reg s parent) as [pc|]; [|destruct Hin as [?|[]]; discriminate].
    destruct (is_sub pc); [destruct Hin as [?|[]]; discriminate|].
    destruct (w_reg s ch); destruct Hin as [?|[]]; discriminate.
  - unfold stop_gen, stop_finish in Hin.
    destruct (w_reg s ch) as [c0|]; [|destruct Hin as [?|[]]; discriminate].
    destruct (refuses c0); [destruct Hin as [?|[]]; discriminate|].
    destruct (c_done c0); [destruct Hin as [?|[]]; discriminate|].
    destruct (c_parent c0) as [q|]; [|destruct Hin as [?|[]]; discriminate].
    destruct (w_reg s q); destruct Hin as [?|[]]; discriminate.
  - destruct Hin.
Qed.

Lemma relay_versions_in os ch v : In v (relay_versions os ch) -> In (ORelay ch KRegistered v) os.
Proof.
  induction os as [|o os IH]; [intros []|]. cbn [relay_versions].
  destruct o as [| c k w | | |]; try (intros H; right; now apply IH).
  destruct k; try (intros H; right; now apply IH).
  destruct (N.eqb_spec c ch) as [->|Hn]; [|intros H; right; now apply IH].
  intros [<-|H]; [now left|right; now apply IH].
Qed.

Lemma relayed_unwatched tr s ch : reach tr s -> watched tr ch = false -> relayed tr ch = [].
Proof.
  induction 1 as [|tr s e R IH]; [reflexivity|]. intros W.
  set (x := (e, snd (step s e))) in *.
  cbn [watched relayed] in *.
  destruct (started x) as [[[[c p] m] t]|] eqn:Hs.
  - destruct (N.eqb c ch); [discriminate|auto].
  - destruct (stopped x) as [c|] eqn:Ht.
    + destruct (N.eqb c ch); [reflexivity|auto].
    + rewrite (IH W), app_nil_r.
      destruct (relays x ch) as [|v l] eqn:El; [reflexivity|exfalso].
      assert (Hin : In v (relays x ch)) by (rewrite El; now left).
      apply relay_versions_in in Hin. cbn [snd x] in Hin.
      destruct (relay_faithful _ _ _ _ _ _ R Hin) as [W' _]. congruence.
Qed.

(* registered events reach a client at most once each and in strictly increasing version order:
   the versions relayed since the channel was started, newest first, are strictly decreasing *)
Theorem relay_monotone tr s ch : reach tr s -> desc (relayed tr ch).
Proof.
  intros R. pose proof (reach_inv _ _ R) as I.
  destruct (w_reg s ch) as [c|] eqn:Ec.
  - destruct (inv_live _ _ _ _ I Ec) as [_ K]. apply (ok_relay _ _ _ _ K).
  - rewrite (relayed_unwatched _ _ _ R (inv_dead _ _ _ I Ec)). constructor.
Qed.

Lemma desc_nodup l : desc l -> NoDup l.
Proof.
  induction 1 as [|a l D IH Hall]; constructor; [|assumption].
  intros Hin. rewrite Forall_forall in Hall. specialize (Hall a Hin). cbn beta in Hall. lia.
Qed.

Theorem relay_once tr s ch : reach tr s -> NoDup (relayed tr ch).
Proof. intros R. apply desc_nodup. now apply relay_monotone with (s := s). Qed.

(* progressed and concluded events are always relayed, and change nothing *)
Theorem relay_progress tr s ch v :
  reach tr s -> watched tr ch = true ->
  step s (ChainProgressed ch v) = (s, [ORelay ch KProgressed v]) /\
  step s (ChainConcluded ch v) = (s, [ORelay ch KConcluded v]).
Proof.
  intros R W. destruct (inv_watched _ _ _ (reach_inv _ _ R) W) as [c Ec].
  cbn [step step_gen]. unfold handle_other. now rewrite Ec.
Qed.

(* ---------- stop ---------- *)

(* a refused stop returns the very same state: everything the watcher does afterwards is what it would
   have done without the call; in particular the call can be repeated with the same result *)
Theorem refused_stop_is_noop s ch :
  snd (step s (Stop ch)) = [OStop StopRefused] -> step s (Stop ch) = (s, [OStop StopRefused]).
Proof.
  cbn [step step_gen]. unfold stop_gen, stop_finish.
  destruct (w_reg s ch) as [c|]; [|discriminate].
  destruct (refuses c); [reflexivity|].
  destruct (c_done c); [discriminate|].
  destruct (c_parent c) as [q|]; [|discriminate].
  destruct (w_reg s q); discriminate.
Qed.

(* it is refused exactly for a watched ledger channel that still has a watched sub-channel *)
Theorem stop_refused_iff tr s ch :
  reach tr s ->
  snd (step s (Stop ch)) = [OStop StopRefused] <->
  (watched tr ch = true /\ exists z, watched tr z = true /\ parent_of tr z = Some ch).
Proof.
  intros R. pose proof (reach_inv _ _ R) as I.
  cbn [step step_gen]. unfold stop_gen, stop_finish.
  destruct (w_reg s ch) as [c|] eqn:Ec.
  - destruct (inv_live _ _ _ _ I Ec) as [W K].
    destruct (refuses c) eqn:Er.
    + split; [intros _|reflexivity]. split; [assumption|].
      unfold refuses in Er. apply andb_prop in Er. destruct Er as [_ Er].
      destruct (c_subs c) as [|z l] eqn:Es; [discriminate|].
      exists z. apply (ok_subs _ _ _ _ K). rewrite Es. now left.
    + rewrite (ok_done _ _ _ _ K). split.
      * destruct (c_parent c) as [q|]; [|discriminate]. destruct (w_reg s q); discriminate.
      * intros (_ & z & Wz & Pz). exfalso.
        assert (Hin : In z (c_subs c)) by (apply (ok_subs _ _ _ _ K); auto).
        destruct (inv_watched _ _ _ I Wz) as [cz Ez]. destruct (inv_live _ _ _ _ I Ez) as [_ Kz].
        rewrite (ok_parent _ _ _ _ Kz) in Pz. destruct (ok_par _ _ _ _ Kz _ Pz) as (pc & Ep & Pn).
        assert (pc = c) by congruence. subst pc.
        rewrite (refuses_false _ Er Pn) in Hin. destruct Hin.
  - split; [discriminate|]. intros [W _]. rewrite (inv_dead _ _ _ I Ec) in W. discriminate.
Qed.

(* the modelled Go panic (close of a closed channel) and the model's own gap marker never occur *)
Theorem no_panic tr s e :
  reach tr s -> ~ In (OStop StopPanic) (snd (step s e)) /\ ~ In OUnreachable (snd (step s e)).
Proof.
  intros R. pose proof (reach_inv _ _ R) as I.
  assert (G : forall o, In o (snd (step s e)) -> o <> OStop StopPanic /\ o <> OUnreachable).
  2:{ split; intros H; destruct (G _ H); congruence. }
  intros o Hin. destruct e; cbn [step step_gen] in Hin.
  - destruct Hin.
  - destruct (w_reg s ch) as [c|] eqn:Ec.
    + destruct (registered_outs_in _ _ _ _ _ _ I Ec Hin) as [(_ & pc & _ & ->)|[-> _]];
        split; discriminate.
    + rewrite (registered_outs_dead _ _ _ Ec) in Hin. destruct Hin.
  - unfold handle_other in Hin. destruct (w_reg s ch); [destruct Hin as [<-|[]]; split; discriminate|destruct Hin].
  - unfold handle_other in Hin. destruct (w_reg s ch); [destruct Hin as [<-|[]]; split; discriminate|destruct Hin].
  - unfold start_ledger in Hin. destruct (w_reg s ch); destruct Hin as [<-|[]]; split; discriminate.
  - unfold start_sub in Hin. destruct (w_reg s parent) as [pc|]; [|destruct Hin as [<-|[]]; split; discriminate].
    destruct (is_sub pc); [destruct Hin as [<-|[]]; split; discriminate|].
    destruct (w_reg s ch); destruct Hin as [<-|[]]; split; discriminate.
  - unfold stop_gen, stop_finish in Hin.
    destruct (w_reg s ch) as [c|] eqn:Ec; [|destruct Hin as [<-|[]]; split; discriminate].
    destruct (inv_live _ _ _ _ I Ec) as [W K].
    destruct (refuses c); [destruct Hin as [<-|[]]; split; discriminate|].
    rewrite (ok_done _ _ _ _ K) in Hin.
    destruct (c_parent c) as [q|] eqn:Epar; [|destruct Hin as [<-|[]]; split; discriminate].
    destruct (ok_par _ _ _ _ K _ Epar) as (pc & Ep & _). rewrite Ep in Hin.
    destruct Hin as [<-|[]]; split; discriminate.
  - destruct Hin.
Qed.

(* ---------- histories as lists of events ---------- *)

Lemma run_reach es : forall tr s,
  reach tr s ->
  reach (rev (combine es (snd (run s es))) ++ tr) (fst (run s es)).
Proof.
  induction es as [|e es IH]; intros tr s R; [exact R|].
  unfold run in *. cbn [run_gen].
  change (step_gen false s e) with (step s e).
  destruct (step s e) as [s1 o] eqn:E1.
  specialize (IH ((e, o) :: tr) s1).
  destruct (run_gen false s1 es) as [s2 os] eqn:E2. cbn [fst snd combine rev] in *.
  rewrite <- app_assoc. cbn [app]. apply IH.
  pose proof (reach_cons _ _ e R) as R'. now rewrite E1 in R'.
Qed.

Definition trace_of (es : list event) : trace := rev (combine es (snd (run init es))).

Lemma trace_of_reach es : reach (trace_of es) (fst (run init es)).
Proof.
  unfold trace_of. pose proof (run_reach es [] init reach_nil) as H. now rewrite app_nil_r in H.
Qed.

Definition single_ledgerb (tr : trace) : bool :=
  forallb (fun x => match started x with Some (_, _, m, _) => negb m | None => true end) tr.

Lemma single_ledgerb_ok tr : single_ledgerb tr = true -> single_ledger tr.
Proof.
  unfold single_ledgerb, single_ledger. rewrite forallb_forall. intros H x c p m t Hin Hs.
  specialize (H x Hin). rewrite Hs in H. now destruct m.
Qed.
