(* Correspondence for the protobuf serializer (C13, C14, C16): the Go conversions From*/To*, the frame
   decoder over chunked streams and the agreement with the native serializer vs. Model/Proto.v.
   proto.Marshal/Unmarshal are not modelled: wherever the decoder unmarshals a payload the case carries
   the table  payload bytes -> tree that the real proto.Unmarshal produced (None: it returned an error). *)
From V Require Export Run.Compare_Codec Model.Proto.
Open Scope N_scope.

(* ---------- the conversions by kind ---------- *)
Inductive ptree :=
| TWaddr (o : option pAddress) | TRaddr (o : option pAddress)
| TBals (o : option pBalances) | TSub (o : option pSubAlloc) | TAlloc (o : option pAllocation)
| TState (o : option pState) | TParams (o : option pParams)
| TMsg (m : pmsg) | TEnv (e : penv).
Definition ptree_eqb (a b : ptree) : bool :=
  match a, b with
  | TWaddr x, TWaddr y | TRaddr x, TRaddr y => opt_eqb paddr_eqb x y
  | TBals x, TBals y => opt_eqb pbals_eqb x y
  | TSub x, TSub y => opt_eqb psa_eqb x y
  | TAlloc x, TAlloc y => opt_eqb pal_eqb x y
  | TState x, TState y => opt_eqb pst_eqb x y
  | TParams x, TParams y => opt_eqb pp_eqb x y
  | TMsg x, TMsg y => pmsg_eqb x y
  | TEnv x, TEnv y => penv_eqb x y
  | _, _ => false
  end.
Definition to_tree (rs : resolver) (t : ptree) : res wval :=
  match t with
  | TWaddr o => res_map VWamap (to_wamap o)
  | TRaddr o => res_map VRamap (to_ramap o)
  | TBals o => Ok (VBals (to_balances o))
  | TSub o => res_map VSub (to_suballoc o)
  | TAlloc o => res_map VAlloc (to_alloc o)
  | TState o => res_map VState (to_state rs o)
  | TParams o => res_map VParams (to_params rs o)
  | TMsg m => res_map VMsg (to_msg rs m)
  | TEnv e => res_map VEnv (to_envelope rs e)
  end.
(* VWamap and VRamap are converted by the same code *)
Definition from_val (v : wval) : res ptree :=
  match v with
  | VWamap m => res_map (fun a => TWaddr (Some a)) (from_amap m)
  | VRamap m => res_map (fun a => TRaddr (Some a)) (from_amap m)
  | VBals b => res_map (fun x => TBals (Some x)) (from_balances b)
  | VSub s => res_map (fun x => TSub (Some x)) (from_suballoc s)
  | VAlloc a => res_map (fun x => TAlloc (Some x)) (from_alloc a)
  | VState s => res_map (fun x => TState (Some x)) (from_state s)
  | VParams p => res_map (fun x => TParams (Some x)) (from_params p)
  | VMsg m => res_map TMsg (from_msg m)
  | VEnv e => res_map TEnv (from_envelope e)
  | _ => Err
  end.

Inductive pobs (A : Type) := POk (a : A) | PErr | PPanic.
Arguments POk {A} a. Arguments PErr {A}. Arguments PPanic {A}.
Definition obs_agrees {A} (eqb : A -> A -> bool) (r : res A) (o : pobs A) : bool :=
  match r, o with
  | Ok a, POk b => eqb a b
  | Err, PErr => true
  | Panic, PPanic => true
  | _, _ => false
  end.

Inductive pcase :=
(* Go ran the To* conversion of this kind on the tree (TEnv: marshalled, framed and fed to Decode) *)
| PTo (t : ptree) (o : pobs wval)
(* Go ran the From* conversion on the value (VEnv: Encode, then the frame's payload unmarshalled) *)
| PFrom (v : wval) (o : pobs ptree)
(* Go marshalled and unmarshalled the tree *)
| PNorm (t t' : penv)
(* Go decoded this stream, delivered in these chunks, with Serializer().Decode until the stream was
   used up (fin = POk tt), a Decode failed (PErr) or panicked (PPanic); envs = what was decoded before *)
| PStream (tbl : list (bytes * option penv)) (chunks : list bytes) (envs : list envelope) (fin : pobs unit)
(* Go encoded the envelope with the protobuf serializer (frame; tree = proto.Unmarshal of its payload)
   and with the native one (native) *)
| PAgree (e : envelope) (tree : penv) (frame native : bytes).

(* a payload the harness did not foresee decodes to a tree no real case produces *)
Definition poison : penv := mkPEnv None None (Some (PPing (Some 424242%Z))).
Fixpoint lookup (tbl : list (bytes * option penv)) (b : bytes) : option penv :=
  match tbl with
  | [] => Some poison
  | (k, v) :: r => if bytes_eqb k b then v else lookup r b
  end.

Section WithResolver.
  Variable rs : resolver.
  Definition env_eqb (x y : envelope) : bool := wval_eqb (VEnv x) (VEnv y).
  Fixpoint pdec_chunks (tbl : list (bytes * option penv)) (fuel : nat) (cs : list bytes)
    : list envelope * pobs unit :=
    match fuel with
    | O => ([], PErr)
    | S f => match cs with
             | [] => ([], POk tt)
             | _ => match run_chunked (dec_pframe (lookup tbl) rs) cs with
                    | Ok (e, cs') => let (l, c) := pdec_chunks tbl f cs' in (e :: l, c)
                    | Err => ([], PErr)
                    | Panic => ([], PPanic)
                    end
             end
    end.
  Definition fin_eqb (a b : pobs unit) : bool :=
    match a, b with POk _, POk _ => true | PErr, PErr => true | PPanic, PPanic => true | _, _ => false end.
  Definition pgood (c : pcase) : bool :=
    match c with
    | PTo t o => obs_agrees wval_eqb (to_tree rs t) o
    | PFrom v o => obs_agrees ptree_eqb (from_val v) o
    | PNorm t t' => penv_eqb (norm_env t) t'
    | PStream tbl chunks envs fin =>
        let (l, c) := pdec_chunks tbl (S (S (length envs))) chunks in
        list_eqb env_eqb l envs && fin_eqb c fin
    | PAgree e tree frame native =>
        obs_agrees penv_eqb (from_envelope e) (POk tree)
        && match run_flat (dec_pframe (lookup [(skipn 2 frame, Some tree)]) rs) frame,
                 run_flat (dec_envelope rs) native with
           | Ok (e1, []), Ok (e2, []) => env_eqb e1 e2 && env_eqb e1 e
           | _, _ => false
           end
    end.
  Fixpoint pmismatches_from (i : nat) (cs : list pcase) : list nat :=
    match cs with
    | [] => []
    | c :: r => if pgood c then pmismatches_from (S i) r else i :: pmismatches_from (S i) r
    end.
End WithResolver.
Definition pmismatches (rs : resolver) (base : nat) (cs : list pcase) : list nat := pmismatches_from rs base cs.
