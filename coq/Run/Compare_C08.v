(* Correspondence for C08: outcomes of handleChannelProposal on a real client, accept/complete verdicts,
   and the channels two real clients obtained from one (proposal, accept). *)
From V Require Export Run.Compare_Codec Model.Open.
Open Scope N_scope.

Definition aux0 : bytes := repeat Byte.x00 256.

(* what one side's channel looked like after the opening: Params(), ID(), the bytes whose SHA-256 is
   the ID and the bytes whose SHA3-256 is the nonce (both hashes checked in Go), Idx(), Peers(),
   State() *)
Record obs := mkObs {
  ob_params : params; ob_id : bytes; ob_idpre : bytes; ob_npre : bytes;
  ob_idx : N; ob_peers : list amap; ob_state : state }.

Inductive verdict := VdOk | VdErr | VdPanic.

Inductive c8case :=
(* a proposal delivered to the client under test: handler called | dropped | panic *)
| CHandle (ctx : octx) (sender : amap) (p : proposal) (observed : outcome)
(* a proposal that arrived (situation ctx0) while an update held the parent's mutex and was handled
   when the mutex was obtained (situation ctx1) *)
| CLocked (ctx0 ctx1 : octx) (sender : amap) (p : proposal) (observed : outcome)
(* Accept(acc) on a delivered proposal that cannot complete: error | panic (ok never observed here) *)
| CAccept (ctx : octx) (p : proposal) (a : accept) (idx : nat)
          (ntbl : list (bytes * Z)) (itbl : list (bytes * bytes))   (* known hash values: nonce and ID pre-images *)
          (observed : verdict)
(* a complete opening between two real clients *)
| COpen (ctxP ctxR : octx) (p : proposal)
        (a : accept)          (* the accept message as observed on the bus *)
        (rshare : bytes)      (* the nonce share the responder chose (client.WithNonce) *)
        (oP oR : obs).

Definition outcome_eqb (a b : outcome) : bool :=
  match a, b with Dropped, Dropped | HandlerCalled, HandlerCalled | Panic, Panic => true | _, _ => false end.
Definition verdict_eqb (a b : verdict) : bool :=
  match a, b with VdOk, VdOk | VdErr, VdErr | VdPanic, VdPanic => true | _, _ => false end.

Definition tbl_get {V} (d : V) (t : list (bytes * V)) (k : bytes) : V :=
  match find (fun e => bytes_eqb (fst e) k) t with Some e => snd e | None => d end.

Section WithResolver.
Variable rs : resolver.

Definition accept_verdict (hn : bytes -> Z) (hid : bytes -> bytes) (ctx : octx) (p : proposal) (a : accept) (idx : nat) : verdict :=
  if negb (valid_acc p a) then VdErr else
  match complete_cpp hn hid (fun _ => 0) rs repaired ctx p a idx with
  | COk _ => VdOk | CErr => VdErr | CPanic => VdPanic
  end.

(* the staged state after ch.init *)
Definition staged_init (s : setup) (p : proposal) : option state :=
  match pb_bals (base p) with
  | None => None
  | Some al =>
      match step (s_mach s) (OInit al (pb_data (base p))) with
      | (m, OK) => option_map tx_st (staging m)
      | _ => None
      end
  end.

Definition check_side (hn : bytes -> Z) (s : setup) (p : proposal) (o : obs) : bool :=
  params_eqb (params_of hn (s_params s)) (ob_params o)
  && bytes_eqb (cp_nonce_pre (s_params s)) (ob_npre o)
  && bytes_eqb (chan_id_preimage hn (s_params s)) (ob_idpre o)
  && bytes_eqb (s_id s) (ob_id o)
  && (s_me s =? ob_idx o)
  && amaps_eqb (s_peers s) (ob_peers o)
  && match staged_init s p with Some st => state_equal st (ob_state o) | None => false end.

Definition good (c : c8case) : bool :=
  match c with
  | CHandle ctx sender p o => outcome_eqb (handle_proposal ctx sender p) o
  | CLocked ctx0 ctx1 sender p o => outcome_eqb (handle_proposal_locked repaired ctx0 ctx1 sender p) o
  | CAccept ctx p a idx ntbl itbl v =>
      (* the hashes only matter for "channel already exists": the harness lists the hash values it
         knows (pre-images of the channels opened so far), every other input hashes to a fresh value *)
      verdict_eqb (accept_verdict (tbl_get 0%Z ntbl) (tbl_get [] itbl) ctx p a idx) v
  | COpen ctxP ctxR p a rshare oP oR =>
      let hn := fun _ : bytes => p_nonce (ob_params oP) in
      let hid := fun _ : bytes => ob_id oP in
      valid_acc p a
      (* the observed accept carries the responder's share; the observed pre-image (hashed in Go to
         the observed nonce) is the proposer's share followed by it *)
      && bytes_eqb (acc_nonce a) rshare
      && bytes_eqb (ob_npre oP) (nonce_preimage (pb_nonce (base p)) rshare)
      && match complete_cpp hn hid (fun _ => 0) rs repaired ctxP p a 0,
               complete_cpp hn hid (fun _ => 0) rs repaired ctxR p a 1 with
         | COk sP, COk sR => check_side hn sP p oP && check_side hn sR p oR
         | _, _ => false
         end
  end.

Fixpoint mismatches_from (i : nat) (cs : list c8case) : list nat :=
  match cs with
  | [] => []
  | c :: r => if good c then mismatches_from (S i) r else i :: mismatches_from (S i) r
  end.
Definition mismatches (base : nat) (cs : list c8case) : list nat := mismatches_from base cs.
End WithResolver.
