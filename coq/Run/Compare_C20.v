(* Correspondence for C20: the real multi.Adjudicator / multi.Funder (driven by the harness with
   scripted per-ledger adjudicators/funders) vs. Model/Multi.v.

   Controlled cases (ctl = true): every scripted sub-call blocks until the harness releases it; the
   harness waits until all expected sub-calls of the phase have begun, then lets them return one by
   one in `order`, waiting after a failing one for the multi-ledger call to return.  That is the
   schedule canon_sched / canon_fsched of the model.  The only thing the harness cannot fix is the
   order of the log entries between two EEnd entries (goroutines reach their sub-calls in scheduler
   order, the return is logged by yet another goroutine), so traces are compared as sequences of
   multisets separated by the EEnd events.  The returned value is compared exactly (which `not
   found` error was returned is not observable).
   Free cases (ctl = false): nothing blocks, the Go scheduler decides; only what the theorems show to
   be schedule-independent is compared: ok / kind of error, and the multiset of sub-call events. *)
From V Require Export Model.Multi.
Open Scope N_scope.

(* short names used in the generated case files *)
Definition K (b : N) (s : string) : key := (b, s).
Definition mR := MRegister.
Definition mP := MProgress.
Definition mW := MWithdraw.
Definition mF := MFund.
Definition S_ := EStart.
Definition E_ := EEnd.
Definition R_ := ERet.
Definition ONF : outcome := OErr (ENotFound (0, ""%string)).     (* some "not found" error *)
Definition OC (h : hid) : outcome := OErr (ECall h).               (* the scripted error of handler h *)
Definition OUnknown : outcome := OErr (ECall 4294967295).          (* an error the harness cannot classify *)
Definition A_ (b : N) (s : string) : asset := AMulti (b, s).
Definition Ego (z : Z) : option Z := Some z.

Inductive c20case :=
| CIds (a : list asset) (ids : res (list key)) (ml : res bool)
| CAdj (ctl : bool) (m : method) (ops : list (key * hid)) (a : list asset) (fails : list hid)
       (order : list key) (out : outcome) (tr : list event)
| CFund (ctl : bool) (ego : option Z) (too_long : bool) (ops : list (key * hid)) (a : list asset)
        (fails : list hid) (order : list key) (out : outcome) (tr : list event).

Definition method_eqb (a b : method) : bool :=
  match a, b with
  | MRegister, MRegister | MProgress, MProgress | MWithdraw, MWithdraw | MFund, MFund => true
  | _, _ => false
  end.
Definition merr_eqb (a b : merr) : bool :=
  match a, b with
  | ENotFound _, ENotFound _ => true       (* which unregistered ledger is reported is not observable *)
  | ECall h, ECall h' => N.eqb h h'
  | _, _ => false
  end.
(* errors that the harness can only recognise by their text (no registered ledger, wrong asset type,
   challenge duration): the property says that the call fails, not which message it carries, so an error
   the harness could not classify (OUnknown) agrees with each of them; scripted call errors are
   recognised structurally (errors.As) and stay exact *)
Definition plain_refusal (o : outcome) : bool :=
  match o with OErr (ENotFound _) | OErrAsset | OErrDuration => true | _ => false end.
Definition unclassified (o : outcome) : bool :=
  match o with OErr (ECall h) => N.eqb h 4294967295 | _ => false end.
Definition outcome_eqb (a b : outcome) : bool :=
  match a, b with
  | OOk, OOk | OErrAsset, OErrAsset | OErrDuration, OErrDuration | OPanic, OPanic => true
  | OErr e, OErr e' => merr_eqb e e'
  | _, _ => false
  end
  || (plain_refusal a && (unclassified b || plain_refusal b))
  || (plain_refusal b && unclassified a).
Definition outcome_class_eqb (a b : outcome) : bool :=
  match a, b with
  | OErr _, OErr _ => true
  | _, _ => outcome_eqb a b
  end.
Definition event_eqb (a b : event) : bool :=
  match a, b with
  | EStart m k h, EStart m' k' h' => method_eqb m m' && key_eqb k k' && N.eqb h h'
  | EEnd m k h ok, EEnd m' k' h' ok' => method_eqb m m' && key_eqb k k' && N.eqb h h' && Bool.eqb ok ok'
  | ERet o, ERet o' => outcome_eqb o o'
  | _, _ => false
  end.
Definition event_class_eqb (a b : event) : bool :=
  match a, b with
  | ERet o, ERet o' => outcome_class_eqb o o'
  | _, _ => event_eqb a b
  end.

Fixpoint remove_one (eqb : event -> event -> bool) (x : event) (l : list event) : option (list event) :=
  match l with
  | [] => None
  | y :: r => if eqb x y then Some r
              else match remove_one eqb x r with Some r' => Some (y :: r') | None => None end
  end.
Fixpoint perm_eqb (eqb : event -> event -> bool) (l1 l2 : list event) : bool :=
  match l1 with
  | [] => match l2 with [] => true | _ => false end
  | x :: r => match remove_one eqb x l2 with Some l2' => perm_eqb eqb r l2' | None => false end
  end.

(* maximal prefix without EEnd, and the rest *)
Fixpoint split_block (tr : list event) : list event * list event :=
  match tr with
  | [] => ([], [])
  | EEnd _ _ _ _ :: _ => ([], tr)
  | x :: r => let (b, rest) := split_block r in (x :: b, rest)
  end.
Fixpoint trace_equiv_fuel (n : nat) (t1 t2 : list event) : bool :=
  match n with
  | O => false
  | S n' =>
      let (b1, r1) := split_block t1 in
      let (b2, r2) := split_block t2 in
      perm_eqb event_eqb b1 b2 &&
      match r1, r2 with
      | [], [] => true
      | e1 :: r1', e2 :: r2' => event_eqb e1 e2 && trace_equiv_fuel n' r1' r2'
      | _, _ => false
      end
  end.
Definition trace_equiv (t1 t2 : list event) : bool := trace_equiv_fuel (S (length t1)) t1 t2.

Definition key_list_eqb (a b : list key) : bool :=
  (length a =? length b)%nat && forallb (fun p => key_eqb (fst p) (snd p)) (combine a b).
Definition res_ids_eqb (a b : res (list key)) : bool :=
  match a, b with
  | Ok x, Ok y => key_list_eqb x y
  | Err, Err | Panic, Panic => true
  | _, _ => false
  end.
Definition res_bool_eqb (a b : res bool) : bool :=
  match a, b with
  | Ok x, Ok y => Bool.eqb x y
  | Err, Err | Panic, Panic => true
  | _, _ => false
  end.

Definition verdict (fails : list hid) (h : hid) : bool := negb (existsb (N.eqb h) fails).
Definition ids_or_nil (a : list asset) : list key := match ledger_ids a with Ok ids => ids | _ => [] end.

Definition agree (ctl : bool) (model : list event * option outcome) (out : outcome) (tr : list event) : bool :=
  match model with
  | (mtr, Some mo) =>
      if ctl then outcome_eqb mo out && trace_equiv mtr tr
      else outcome_class_eqb mo out && perm_eqb event_class_eqb mtr tr
  | (_, None) => false       (* the canonical schedule always lets the call return *)
  end.

Definition good (c : c20case) : bool :=
  match c with
  | CIds a ids ml => res_ids_eqb (ledger_ids a) ids && res_bool_eqb (is_multi_ledger a) ml
  | CAdj ctl m ops a fails order out tr =>
      let ids := ids_or_nil a in
      agree ctl (adj_call m (reg_of_ops ops) (verdict fails) a (canon_sched ids (if ctl then order else ids))) out tr
  | CFund ctl ego too_long ops a fails order out tr =>
      let ids := ids_or_nil a in
      agree ctl (fund_call (reg_of_ops ops) ego too_long (verdict fails) a
                   (canon_fsched ids (if ctl then order else ids))) out tr
  end.

Fixpoint mismatches_from {A} (good : A -> bool) (i : nat) (cs : list A) : list nat :=
  match cs with
  | [] => []
  | c :: r => if good c then mismatches_from good (S i) r else i :: mismatches_from good (S i) r
  end.
Definition mismatches (base : nat) (cs : list c20case) : list nat := mismatches_from good base cs.
