(* Correspondence for the request handlers of the client (C07, C12): the outcome of the REAL
   handleChannelUpdate / handleSyncMsg on a real client vs. Model.Handlers. *)
From V Require Export Run.Compare_Mach Model.Handlers.
Open Scope N_scope.

Record rupd := mkRU { ru_st : nat; ru_actor : N; ru_sig : tokref }.
(* a signed state of a virtual channel: Params.ID(), participant address tokens, virtual flag, state, sigs *)
Record rsigned := mkRSg { rg_id : bytes; rg_parts : list N; rg_virtual : bool; rg_st : nat;
                          rg_sigs : list (option tokref) }.
Inductive rreq :=
| RRUpdate (u : rupd)
| RRVFund (u : rupd) (i : rsigned) (imap : list N)
| RRVSettle (u : rupd) (f : rsigned).
Record rctx := mkRC { rc_me : N; rc_snap : rsnap; rc_fund : list icept; rc_settle : list icept;
                      rc_vmatch : bool; rc_busy : bool; rc_stuck : bool }.
(* observed: decision class (0 Drop 1 AskUser 2 AutoAccept 3 Reject 4 Reply 5 Panic 6 Block), responses
   on the bus (0 = ChannelUpdateAcc, 1 = ChannelUpdateRej), machine mutex free afterwards, machine
   afterwards, the own signature carried by the ChannelUpdateAcc *)
Record robs := mkObs { o_dec : N; o_sent : list N; o_free : bool;
                       o_after : option rsnap (* None: as before *); o_sig : option tokref;
                       o_waited : bool (* the handler took as long as the state watcher's timeout *) }.
Inductive hcase :=
| HUpd (c : rctx) (known : bool) (r : rreq) (accept : bool) (o : robs)
| HSync (c : rctx) (known : bool) (reach : bool) (phase : N) (tx : option nat) (o : robs)
(* a validator of the virtual-channel proposals on its own: 0 accepted, 1 error, 2 panic *)
| HVal (c : rctx) (r : rreq) (o : N)
(* the UpdateResponder of a request used several times (true = Accept, false = Reject), as the
   virtual-channel handlers and the settlement watcher do: number of calls that returned, responses *)
| HResp (c : rctx) (u : rupd) (calls : list bool) (returned : nat) (sent : list N)
(* proposals with parents: the client's channels, the arrivals (handler entered) and returns in the
   order they happened, the channels whose machine mutex is held when every handler has returned *)
| HProp (known : list bytes) (evs : list pev) (locked : list bytes).

(* short form of the states of the file's channel *)
Definition mkS (id : bytes) (bk ass : list N) (app : option bytes) (v : N) (b : list (list Z))
    (l : list suballoc) (fin : bool) : state := mkState id v (mkAlloc bk ass b l) app [] fin.

Definition RC (me : N) (s : rsnap) (f st : list icept) (busy : bool) : rctx := mkRC me s f st false busy false.
Definition after_of (c : rctx) (o : robs) : rsnap := match o_after o with Some s => s | None => rc_snap c end.

Definition dec_code (d : decision) : N :=
  match d with Drop => 0 | AskUser => 1 | AutoAccept => 2 | Reject => 3 | Reply => 4 | Panic => 5 | Block => 6 end.
Definition vres_code (v : vres) : N := match v with VOk => 0 | VErr => 1 | VPanic => 2 end.
Definition resp_code (r : resp) : N := match r with SentAcc => 0 | SentRej => 1 end.

Section WithTable.
  Variable V : variant.
  Variable P : mparams.
  Variable sts : list state.
  Definition cupd (u : rupd) : upd := mkUpd (st sts (ru_st u)) (ru_actor u) (tok sts (ru_sig u)).
  Definition csigned (g : rsigned) : signed :=
    mkSigned (mkVP (rg_id g) (rg_parts g) (rg_virtual g)) (st sts (rg_st g)) (map (option_map (tok sts)) (rg_sigs g)).
  Definition creq (r : rreq) : req :=
    match r with
    | RRUpdate u => RUpdate (cupd u)
    | RRVFund u i m => RVFund (cupd u) (csigned i) m
    | RRVSettle u f => RVSettle (cupd u) (csigned f)
    end.
  Definition cctx (c : rctx) : chanctx :=
    mkCtx (conv_snap P sts (rc_me c) (rc_snap c)) (rc_fund c) (rc_settle c) (rc_vmatch c) (rc_busy c) (rc_stuck c).

  Definition sig_agrees (a : option sigtok) (b : option tokref) : bool :=
    match a, b with
    | Some x, Some y => sigtok_eqb x (tok sts y)
    | None, None => true
    | _, _ => false
    end.
  Definition nl_eqb := list_eqb N.eqb.

  Fixpoint run_resp (m : mach) (u : upd) (calls : list bool) (s : rstate) : nat * list resp :=
    match calls with
    | [] => (0%nat, rs_sent s)
    | acc :: rest =>
        let send := if acc then match accept_update m u (peer_idx m) with (_, AccSigned _) => true | _ => false end
                    else true in
        match respond V (if acc then SentAcc else SentRej) send s with
        | None => (0%nat, rs_sent s)
        | Some s' => let '(n, sn) := run_resp m u rest s' in (S n, sn)
        end
    end.

  Definition good (h : hcase) : bool :=
    match h with
    | HUpd c known r accept o =>
        let cc := cctx c in
        let rq := creq r in
        let res := if known then handle_update_req V cc rq else res_simple Drop (cx_mach cc) in
        match r_dec res with
        | AskUser =>
            let '(m', sent, sg) := user_answer (cx_mach cc) (req_upd rq) accept in
            (o_dec o =? 1) && nl_eqb (map resp_code (r_sent res ++ sent)) (o_sent o) && o_free o
            && mach_eqb m' (conv_snap P sts (rc_me c) (after_of c o)) && sig_agrees sg (o_sig o)
        | Panic => (o_dec o =? 5)
        | Block => (o_dec o =? 6) && negb (o_free o) && nl_eqb (map resp_code (r_sent res)) (o_sent o)
        | d =>
            (o_dec o =? dec_code d) && nl_eqb (map resp_code (r_sent res)) (o_sent o)
            && Bool.eqb (if known then waits V cc rq else false) (o_waited o)
            && Bool.eqb (r_unlocked res) (o_free o)
            && mach_eqb (r_mach res) (conv_snap P sts (rc_me c) (after_of c o))
            && sig_agrees (match d with AutoAccept => countersigns V cc rq | _ => None end) (o_sig o)
        end
    | HSync c known reach ph tx o =>
        let cc := cctx c in
        let msg := mkSync ph (option_map (fun i => (st sts i, [])) tx) in
        let res := handle_sync V (if known then [cc] else []) reach msg in
        match r_dec res with
        | Panic => (o_dec o =? 5)
        | d => (o_dec o =? dec_code d)
               && (if known then mach_eqb (r_mach res) (conv_snap P sts (rc_me c) (after_of c o)) else true)
        end
    | HResp c u calls returned sent =>
        let cc := cctx c in
        let '(n, sn) := run_resp (cx_mach cc) (cupd u) calls rs0 in
        (n =? returned)%nat && nl_eqb (map resp_code sn) sent
    | HProp known evs locked =>
        match prun known [] evs with
        | PLocks l => forallb (fun x => id_in x locked) l && forallb (fun x => id_in x l) locked
        | _ => false
        end
    | HVal c r o =>
        let cc := cctx c in
        match current (cx_mach cc), creq r with
        | Some ct, RVFund u i m => vres_code (validate_vfund V (tx_st ct) u i m) =? o
        | Some ct, RVSettle u f => vres_code (validate_vsettle V (tx_st ct) u f) =? o
        | _, _ => false
        end
    end.

  Fixpoint hmismatches_from (i : nat) (cs : list hcase) : list nat :=
    match cs with
    | [] => []
    | c :: r => if good c then hmismatches_from (S i) r else i :: hmismatches_from (S i) r
    end.
End WithTable.
Definition hmismatches (V : variant) (P : mparams) (sts : list state) (base : nat) (cs : list hcase) : list nat :=
  hmismatches_from V P sts base cs.
