(* Correspondence for channel.ActionMachine (C09): the real machine's outcome, snapshot and staging
   actions after every operation, and whether the app was consulted, vs. Model.ActionMachine.astep.
   The answers of the harness's ActionApp are part of the recorded operations. *)
From V Require Export Model.ActionMachine Run.Compare_Mach.
Open Scope N_scope.

Inductive rsop :=
| RSSig
| RSAddSig (i : N) (sg : tokref)
| RSEnableInit | RSEnableUpdate | RSEnableFinal | RSDiscard
| RSSetFunded | RSSetRegistering | RSSetRegistered
| RSSetProgressing (s : nat) | RSSetProgressed (s : nat)
| RSSetWithdrawing | RSSetWithdrawn.
Inductive raop :=
| RAAdd (i : N) (a : N) (resp : ares unit)
| RAInit (resp : ares (alloc * bytes))
| RAUpdate (resp : ares nat)
| RAShared (o : rsop).
(* outcome, app consulted?, snapshot of the embedded machine, staging actions *)
Definition raobs : Type := rout * bool * rsnap * list (option N).
Record acase := mkACase { ac_me : N; ac_ops : list raop; ac_obs : list raobs }.

Section WithTable.
  Variable P : mparams.
  Variable sts : list state.
  Definition conv_sop (o : rsop) : sop :=
    match o with
    | RSSig => SSig | RSAddSig i g => SAddSig i (tok sts g)
    | RSEnableInit => SEnableInit | RSEnableUpdate => SEnableUpdate | RSEnableFinal => SEnableFinal
    | RSDiscard => SDiscard | RSSetFunded => SSetFunded | RSSetRegistering => SSetRegistering
    | RSSetRegistered => SSetRegistered
    | RSSetProgressing s => SSetProgressing (st sts s) | RSSetProgressed s => SSetProgressed (st sts s)
    | RSSetWithdrawing => SSetWithdrawing | RSSetWithdrawn => SSetWithdrawn
    end.
  Definition conv_aop (o : raop) : aop :=
    match o with
    | RAAdd i a r => AAdd i a r
    | RAInit r => AInit r
    | RAUpdate r => AUpdate (match r with ARet i => ARet (st sts i) | AErr => AErr | APanic => APanic end)
    | RAShared o => AShared (conv_sop o)
    end.
  Definition oN_eqb (a b : option N) : bool :=
    match a, b with Some x, Some y => x =? y | None, None => true | _, _ => false end.

  Fixpoint aagree (s : amach) (ops : list raop) (obs : list raobs) : bool :=
    match ops, obs with
    | [], [] => true
    | o :: ops', (r, called, sn, ac) :: obs' =>
        let o' := conv_aop o in
        let (s', x) := astep s o' in
        out_agrees sts x r && Bool.eqb (calls_app s o') called
        && mach_eqb (am s') (conv_snap P sts (me (am s)) sn)
        && list_eqb oN_eqb (acts s') ac && aagree s' ops' obs'
    | _, _ => false
    end.
  Definition agood (c : acase) : bool := aagree (new_amachine P (ac_me c)) (ac_ops c) (ac_obs c).
  Fixpoint amismatches_from (i : nat) (cs : list acase) : list nat :=
    match cs with
    | [] => []
    | c :: r => if agood c then amismatches_from (S i) r else i :: amismatches_from (S i) r
    end.
End WithTable.
Definition amismatches (P : mparams) (sts : list state) (base : nat) (cs : list acase) : list nat :=
  amismatches_from P sts base cs.
