(* T3 trace acceptance for C03 / C04: the linearised log of a run of two real clients (ledger calls with
   their results, Enabled events of the recording persister, publications to the watcher, machine
   freezes, clock ticks) is replayed through the LTS of Model/Settle.v. Every entry must be an enabled
   step; for ledger calls the call the LTS derives from its own state must be the observed call and
   the result of Model/Ledger.v must be the observed result; at the end the ledger state must agree. *)
From V Require Export Model.Settle Run.Compare_Ledger.
Open Scope N_scope.

Inductive slog :=
| GCall (tag : N) (op : rlop) (out : rlout)   (* tag 0,1: client i; 10,11: watcher i; 20: adversary; 30: clock *)
| GEnabled (i : N) (p : nat) (s : nat)
| GPub (i : N) (p : nat) (ver : N)
| GFrozen (i : N) (p : nat).

Record scase := mkSCase {
  sc_params : list lparams; sc_sts : list state;
  sc_root : nat; sc_assets : list N; sc_agree : list (list Z); sc_accts : list N; sc_acc : accounts;
  sc_honest : N;                 (* 2: both participants honest (C03); 0/1: the honest one (C04) *)
  sc_log : list slog; sc_final : rsnap;
  sc_settled : list bool }.      (* [concluded 0; withdrawn 0; concluded 1; withdrawn 1] as observed *)

Section Accept.
  Variable PS : list lparams.
  Variable STS : list state.
  Variable H : N.
  Notation pr := (pr PS).
  Notation stt := (st STS).
  Definition is_honest (i : N) : bool := (H =? 2) || (i =? H).

  Definition tx_like (p : lparams) (a b : tx) : bool :=      (* a: derived by the LTS, b: observed *)
    state_equal (tx_st a) (tx_st b) && tx_signed p b.
  Definition lop_match (e o : lop) : bool :=
    match e, o with
    | LDeposit p a i f m, LDeposit p' a' i' f' m' =>
        bytes_eqb (lp_id p) (lp_id p') && nlist_eqb a a' && (i =? i') && (f =? f') && zlist_eqb m m'
    | LRegister p t subs, LRegister p' t' subs' =>
        bytes_eqb (lp_id p) (lp_id p') && tx_like p' t t'
        && list_agree (fun x y => bytes_eqb (lp_id (fst x)) (lp_id (fst y)) && tx_like (fst y) (snd x) (snd y))
                      subs subs'
    | LConclude p s subs, LConclude p' s' subs' =>
        bytes_eqb (lp_id p) (lp_id p') && state_equal s s' && list_agree state_equal subs subs'
    | LConcludeFinal p t, LConcludeFinal p' t' => bytes_eqb (lp_id p) (lp_id p') && tx_like p' t t'
    | LWithdraw p i s t, LWithdraw p' i' s' t' =>
        bytes_eqb (lp_id p) (lp_id p') && (i =? i') && (s =? s') && (t =? t')
    | LTick n, LTick n' => n =? n'
    | _, _ => false
    end.

  (* a step whose ledger call and result must be the observed ones *)
  Definition do_call (s : sstate) (e : sevent) (o : lop) (out : rlout) : option sstate :=
    match sstep s e with
    | Some (s', Some (o', out')) =>
        if lop_match o' o && out_agrees PS out' out then Some s' else None
    | _ => None
    end.
  Definition do_plain (s : sstate) (e : sevent) : option sstate :=
    match sstep s e with Some (s', _) => Some s' | None => None end.

  Definition accept_entry (s : sstate) (g : slog) : option sstate :=
    match g with
    | GEnabled i p x =>
        if negb (is_honest i) then Some s else
        let X := stt x in
        match bfind (pt_nodes (get_party s i)) (st_id X) with
        | None => do_plain s (SOpen i (pr p) X)
        | Some n =>
            match newest n with
            | Some t => if state_equal t X then Some s else do_plain s (SEnable i X)
            | None => None
            end
        end
    | GPub i p v =>
        if negb (is_honest i) then Some s else
        match bfind (pt_nodes (get_party s i)) (lp_id (pr p)) with
        | Some n => match newest n with
                    | Some t => if v <=? st_ver t then Some s else None
                    | None => None
                    end
        | None => None
        end
    | GFrozen i p => if negb (is_honest i) then Some s else do_plain s (SFreeze i (lp_id (pr p)))
    | GCall tag op out =>
        let o := conv_op PS STS op in
        if tag =? 30 then do_call s STick o out
        else
          let i := tag mod 10 in
          let watcher := (10 <=? tag) && (tag <? 20) in
          if (tag <? 20) && is_honest i then
            match o with
            | LDeposit _ _ _ _ _ => if watcher then None else do_call s (SFund i) o out
            | LRegister _ t subs =>
                if watcher then do_call s (SReact i (tx_st t) (map (fun e => (fst e, tx_st (snd e))) subs)) o out
                else do_call s (SRegister i) o out
            | LConclude _ _ _ | LConcludeFinal _ _ => if watcher then None else do_call s (SConclude i) o out
            | LWithdraw _ _ _ _ => if watcher then None else do_call s (SWithdraw i) o out
            | _ => None
            end
          else
            (* the adversary (its own handle, or the client of the dishonest participant) *)
            if H =? 2 then None else
            match o with
            | LDeposit _ _ _ _ _ => do_call s (SFund (1 - H)) o out
            | LRegister _ t subs => do_call s (SAdvRegister H t subs) o out
            | LConclude _ x subs => do_call s (SAdvConclude x subs) o out
            | LConcludeFinal _ t => do_call s (SAdvConcludeFinal H t) o out
            | LWithdraw _ _ _ _ => do_call s (SAdvWithdraw H) o out
            | _ => None
            end
    end.

  Fixpoint accept (s : sstate) (l : list slog) : option sstate :=
    match l with
    | [] => Some s
    | g :: r => match accept_entry s g with Some s' => accept s' r | None => None end
    end.
  (* index of the first rejected entry, for reports *)
  Fixpoint first_reject (k : nat) (s : sstate) (l : list slog) : option nat :=
    match l with
    | [] => None
    | g :: r => match accept_entry s g with Some s' => first_reject (S k) s' r | None => Some k end
    end.
End Accept.

Definition case_init (c : scase) : sstate :=
  sinit (nth (sc_root c) (sc_params c) dummy_params) (sc_assets c) (sc_agree c) (sc_accts c) (sc_acc c).
Definition flags_of (s : sstate) : list bool :=
  [pt_concl (s_p0 s); pt_wd (s_p0 s); pt_concl (s_p1 s); pt_wd (s_p1 s)].
(* flags are only tracked for honest participants *)
Definition flags_agree (h : N) (a b : list bool) : bool :=
  match a, b with
  | [c0; w0; c1; w1], [c0'; w0'; c1'; w1'] =>
      (if (h =? 2) || (h =? 0) then Bool.eqb c0 c0' && Bool.eqb w0 w0' else true)
      && (if (h =? 2) || (h =? 1) then Bool.eqb c1 c1' && Bool.eqb w1 w1' else true)
  | _, _ => false
  end.
Definition good_run (c : scase) : bool :=
  match accept (sc_params c) (sc_sts c) (sc_honest c) (case_init c) (sc_log c) with
  | Some s => snap_agrees (sc_params c) (sc_sts c) (s_L s) (sc_final c)
              && flags_agree (sc_honest c) (flags_of s) (sc_settled c)
  | None => false
  end.
Definition where_rejected (c : scase) : option nat :=
  first_reject (sc_params c) (sc_sts c) (sc_honest c) O (case_init c) (sc_log c).
Fixpoint smismatches_from (i : nat) (cs : list scase) : list nat :=
  match cs with
  | [] => []
  | c :: r => if good_run c then smismatches_from (S i) r else i :: smismatches_from (S i) r
  end.
