(* Correspondence for the persistence layer (C10, C11): what the real keyvalue.PersistRestorer restores
   (RestoreChannel / RestorePeer / RestoreAll / ActivePeers) and the raw key list of the real store at
   every write boundary (C10) / after every step (C11) vs. Model.Persist. *)
From V Require Export Model.Persist Run.Compare_Mach.
Open Scope N_scope.

Definition obytes_eqb (a b : option bytes) : bool :=
  match a, b with Some x, Some y => bytes_eqb x y | None, None => true | _, _ => false end.
Definition okind_eqb (a b : option appkind) : bool :=
  match a, b with
  | Some KPay, Some KPay | Some KMock, Some KMock | None, None => true
  | _, _ => false
  end.
Definition mparams_eqb (p q : mparams) : bool :=
  bytes_eqb (mp_id p) (mp_id q) && nlist_eqb (mp_parts p) (mp_parts q)
  && obytes_eqb (mp_app p) (mp_app q) && okind_eqb (mp_kind p) (mp_kind q).
Fixpoint all2 {A B} (f : A -> B -> bool) (a : list A) (b : list B) : bool :=
  match a, b with
  | [], [] => true
  | x :: a', y :: b' => f x y && all2 f a' b'
  | _, _ => false
  end.
Definition keys_eqb (s : store) (raw : list bytes) : bool :=
  list_eqb bytes_eqb (map (fun e => render_key (fst e)) s) raw.

(* a restored channel as the harness observed it: states and signatures through the file's tables;
   meta = restored index, parameters, peers and parent are byte-identical to those the channel was
   created with *)
Record oview := OV {
  ov_ph : N; ov_cur : rtx; ov_stg : option nat; ov_sigs : list (option tokref); ov_meta : bool }.

Section WithTable.
  Variable sts : list state.
  (* the encodings of the table's states, computed once per file (a signature token is compared
     through the encoding of the state it signs) *)
  Variable encs : list bytes.
  Definition tok' (t : tokref) : sigtok :=
    match t with TSig k i => SigOf k (nth i encs []) | TJunk n => Junk n end.
  Definition conv_tx' (t : rtx) : option tx :=
    option_map (fun p => mkTx (st sts (fst p)) (map (option_map tok') (snd p))) t.
  Definition out_agrees' (o : out) (r : rout) : bool :=
    match o, r with
    | OK, ROK => true | ERR, RERR => true | PANIC, RPANIC => true
    | OKSig g, ROKSig t => sigtok_eqb g (tok' t)
    | _, _ => false
    end.

  Definition ostate_eqb (a : option state) (b : option nat) : bool :=
    match a, b with
    | Some x, Some i => state_equal x (st sts i)
    | None, None => true
    | _, _ => false
    end.
  (* does the model's restored channel agree with the observed view of the channel created as
     (p, me, peers, parent)? *)
  Definition rc_agrees (p : mparams) (me0 : N) (peers : list bytes) (parent : option bytes)
             (c : rchan) (v : oview) : bool :=
    (phase_num (rc_phase c) =? ov_ph v)
    && tx_eqb (rc_cur c) (conv_tx' (ov_cur v))
    && ostate_eqb (rc_stg c) (ov_stg v)
    && list_eqb osig_eqb (rc_sigs c) (map (option_map tok') (ov_sigs v))
    && ov_meta v
    && (rc_idx c =? me0) && mparams_eqb (rc_params c) p
    && list_eqb bytes_eqb (rc_peers c) peers && obytes_eqb (rc_parent c) parent.

  (* ================= C10: one channel, every write boundary ================= *)
  (* view of RestoreChannel at a boundary + code of RestorePeer(probe): 0 = no channel, 1 = exactly
     the channel RestoreChannel returned, 2 = anything else *)
  (* an operation of the history, or a restart: new PersistRestorer on the same database, the machine
     rebuilt from what RestoreChannel returns (observed as the single view of that step) *)
  Inductive pop := PO (o : rop) | PRestart.
  Inductive bview := BOk (v : oview) (pv : N) | BNotFound (pv : N) | BErr | BPanic.
  Record c10case := mkC10 {
    x_p : mparams; x_me : N; x_peers : list bytes; x_parent : option bytes; x_probe : bytes;
    x_create : list bview;                   (* boundaries of ChannelCreated *)
    x_keys : list bytes;                     (* raw keys after creation *)
    x_ops : list pop;
    x_obs : list (rout * list bview);        (* outcome and one view per atomic write *)
    x_keys_end : option (list bytes) }.   (* None = as after creation *)

  Definition rchan_eqb (a b : rchan) : bool :=
    (rc_idx a =? rc_idx b) && mparams_eqb (rc_params a) (rc_params b)
    && (phase_num (rc_phase a) =? phase_num (rc_phase b)) && tx_eqb (rc_cur a) (rc_cur b)
    && match rc_stg a, rc_stg b with
       | Some x, Some y => state_equal x y | None, None => true | _, _ => false end
    && list_eqb osig_eqb (rc_sigs a) (rc_sigs b)
    && list_eqb bytes_eqb (rc_peers a) (rc_peers b) && obytes_eqb (rc_parent a) (rc_parent b).

  Definition peer_code (s : store) (probe : bytes) (r : rres) : N :=
    match restore_peer s probe, r with
    | ([], EOk), _ => 0
    | ([c], EOk), ROk c' => if rchan_eqb c c' then 1 else 2
    | _, _ => 2
    end.
  Definition bview_ok (x : c10case) (s : store) (b : bview) : bool :=
    let r := restore_chan s (mp_id (x_p x)) in
    match r, b with
    | ROk c, BOk v pv =>
        rc_agrees (x_p x) (x_me x) (x_peers x) (x_parent x) c v && (peer_code s (x_probe x) r =? pv)
    | RNotFound, BNotFound pv => peer_code s (x_probe x) r =? pv
    | RErr, BErr => true
    | RPanic, BPanic => true
    | _, _ => false
    end.
  (* one view per prefix of the atomic writes *)
  Fixpoint boundaries_ok (x : c10case) (s : store) (ws : list atomic) (bs : list bview) : bool :=
    match ws, bs with
    | [], [] => true
    | a :: ws', b :: bs' =>
        let s' := apply_atomic s a in bview_ok x s' b && boundaries_ok x s' ws' bs'
    | _, _ => false
    end.
  Fixpoint c10_run (x : c10case) (W : world) (s : store) (ops : list pop)
           (obs : list (rout * list bview)) : option store :=
    match ops, obs with
    | [], [] => Some s
    | PO o :: ops', (r, bs) :: obs' =>
        let '(W', out, ws) := wstep W s (WOp (mp_id (x_p x)) (conv_op sts o)) in
        if out_agrees' out r && boundaries_ok x s ws bs
        then c10_run x W' (apply_atomics s ws) ops' obs' else None
    | PRestart :: ops', (r, [b]) :: obs' =>
        let '(W', out, ws) := wstep W s WRestart in
        if out_agrees' out r && bview_ok x s b && match ws with [] => true | _ => false end
        then c10_run x W' s ops' obs' else None
    | _, _ => None
    end.
  Definition c10_good (x : c10case) : bool :=
    let '(W, out, ws) := wstep [] [] (WCreate (x_p x) (x_me x) (x_peers x) (x_parent x)) in
    match out with
    | OK =>
        let s := apply_atomics [] ws in
        boundaries_ok x [] ws (x_create x) && keys_eqb s (x_keys x)
        && match c10_run x W s (x_ops x) (x_obs x) with
           | Some s' => keys_eqb s' (match x_keys_end x with Some l => l | None => x_keys x end)
           | None => false
           end
    | _ => false
    end.

  (* ================= C11: several channels, every step ================= *)
  Record chspec := mkCS { cs_p : mparams; cs_me : N; cs_peers : list nat; cs_parent : option bytes }.
  Inductive mop := MCreate (c : nat) | MOp (c : nat) (o : rop) | MRestart.
  Inductive cres := CR (v : nat) | CNotFound | CErr | CPanic.
  Record mobs := mkMO {
    mo_out : rout;
    mo_all : list nat * N;                  (* RestoreAll: views (indices into y_views), end code *)
    mo_peer : list (list nat * N);          (* RestorePeer for every peer of the pool *)
    mo_active : list nat;                   (* ActivePeers as pool indices, sorted by encoded bytes *)
    mo_chan : list cres;                    (* RestoreChannel for every channel of the table *)
    mo_keys : option (list bytes) }.        (* raw key list; None = unchanged since the last step *)
  Record c11case := mkC11 {
    y_pool : list bytes; y_chans : list chspec; y_views : list (nat * oview);
    y_ops : list mop; y_obs : list mobs }.

  Definition dummy_spec : chspec := mkCS (mkMP [] [] None None) 0 [] None.
  Definition spec_of (y : c11case) (c : nat) : chspec := nth c (y_chans y) dummy_spec.
  Definition pool_peer (y : c11case) (i : nat) : bytes := nth i (y_pool y) [].
  Definition spec_peers (y : c11case) (cs : chspec) : list bytes := map (pool_peer y) (cs_peers cs).
  Definition dummy_view : nat * oview := (0%nat, OV 99 None None [] false).
  (* the model's restored channel vs. the interned observed view number j *)
  Definition view_agrees (y : c11case) (c : rchan) (j : nat) : bool :=
    let '(ci, v) := nth j (y_views y) dummy_view in
    let cs := spec_of y ci in
    rc_agrees (cs_p cs) (cs_me cs) (spec_peers y cs) (cs_parent cs) c v.
  Definition end_code (e : rend) : N := match e with EOk => 0 | EErr => 1 | EPanic => 2 | EFuel => 3 end.
  Definition list_agrees (y : c11case) (r : list rchan * rend) (o : list nat * N) : bool :=
    all2 (view_agrees y) (fst r) (fst o) && (end_code (snd r) =? snd o).
  Definition cres_agrees (y : c11case) (r : rres) (o : cres) : bool :=
    match r, o with
    | ROk c, CR j => view_agrees y c j
    | RNotFound, CNotFound | RErr, CErr | RPanic, CPanic => true
    | _, _ => false
    end.
  Definition conv_mop (y : c11case) (o : mop) : wop :=
    match o with
    | MCreate c => let cs := spec_of y c in WCreate (cs_p cs) (cs_me cs) (spec_peers y cs) (cs_parent cs)
    | MOp c o => WOp (mp_id (cs_p (spec_of y c))) (conv_op sts o)
    | MRestart => WRestart
    end.
  Definition step_agrees (y : c11case) (s : store) (last : list bytes) (o : mobs) : bool * list bytes :=
    let keys := match mo_keys o with Some l => l | None => last end in
    (list_agrees y (restore_all s) (mo_all o)
     && all2 (fun p o => list_agrees y (restore_peer s p) o) (y_pool y) (mo_peer o)
     && list_eqb bytes_eqb (active_peers s) (map (pool_peer y) (mo_active o))
     && all2 (fun cs o => cres_agrees y (restore_chan s (mp_id (cs_p cs))) o) (y_chans y) (mo_chan o)
     && keys_eqb s keys, keys).
  Fixpoint c11_run (y : c11case) (W : world) (s : store) (last : list bytes)
           (ops : list mop) (obs : list mobs) : bool :=
    match ops, obs with
    | [], [] => true
    | o :: ops', b :: obs' =>
        let '(W', out, ws) := wstep W s (conv_mop y o) in
        let s' := apply_atomics s ws in
        let (ok, last') := step_agrees y s' last b in
        out_agrees' out (mo_out b) && ok && c11_run y W' s' last' ops' obs'
    | _, _ => false
    end.
  Definition c11_good (y : c11case) : bool := c11_run y [] [] [] (y_ops y) (y_obs y).

  Fixpoint mism_from {A} (good : A -> bool) (i : nat) (cs : list A) : list nat :=
    match cs with
    | [] => []
    | c :: r => if good c then mism_from good (S i) r else i :: mism_from good (S i) r
    end.
End WithTable.
Definition mismatches10 (sts : list state) (base : nat) (cs : list c10case) : list nat :=
  let encs := map enc_state sts in mism_from (c10_good sts encs) base cs.
Definition mismatches11 (sts : list state) (base : nat) (cs : list c11case) : list nat :=
  let encs := map enc_state sts in mism_from (c11_good sts encs) base cs.
