(* Correspondence for C05: histories of the real local.Watcher (over a scripted RegisterSubscriber)
   vs. Model/Watcher.v. A case is one history: every event with what the harness observed for it
   (Register calls received by the scripted Registerer, events relayed to the clients, result of
   Start/Stop), and at the end the bookkeeping of every watched channel as read through
   watcher/local/verif_export.go. *)
From Coq Require Export List Bool NArith.
From V Require Export Model.Watcher.
Export ListNotations.
Open Scope N_scope.

(* short names: the case files are parsed at ~80 us per byte *)
Definition Pb := Publish.
Definition Rg := ChainRegistered.
Definition Pg := ChainProgressed.
Definition Cn := ChainConcluded.
Definition SL := StartLedger.
Definition SS := StartSub.
Definition St := Stop.
Definition RF := RegisterFails.
Definition OR := ORegister.
Definition Rl := ORelay.
Definition KR := KRegistered.
Definition KP := KProgressed.
Definition KC := KConcluded.
Definition Os := OStart.
Definition Ot := OStop.
Definition SOK := StartOK.
Definition SAL := StartAlready.
Definition SNP := StartNoParent.
Definition SPS := StartParentIsSub.
Definition TOK := StopOK.
Definition TRF := StopRefused.
Definition TNW := StopNotWatched.
Definition TPN := StopPanic.

(* bookkeeping of one watched channel as exported by the verif hook *)
Inductive snap :=
  Sn (ch : id) (parent : option id) (multi : bool) (subs : list id) (arch : list (id * tx))
     (registered : bool) (regver : N) (published : bool) (pubver : N) (done : bool).

Inductive hist := H (n : N) (steps : list (event * list out)) (final : list snap).

(* a case is a group of histories (the thorough tier groups the exhaustive words that differ only in their
   last letter, to keep case indices small) *)
Definition ccase := list hist.

(* the two set-up prefixes of the exhaustive classes with their observations *)
Definition p0 : list (event * list out) :=
  [(SL 0 false (T 0 1 []),[Os SOK]); (SS 1 0 false (T 0 2 []),[Os SOK]); (SS 2 0 false (T 0 3 []),[Os SOK])].
Definition p1 : list (event * list out) :=
  p0 ++ [(Pb 0 (T 1 4 [1; 2]),[]); (Pb 1 (T 1 5 []),[]); (Pb 2 (T 2 6 []),[])].
Definition p2 : list (event * list out) :=
  p1 ++ [(St 1,[Ot TOK]); (SS 1 0 false (T 2 7 []),[Os SOK])].

Fixpoint list_eqb {A} (eqb : A -> A -> bool) (a b : list A) : bool :=
  match a, b with
  | [], [] => true
  | x :: a', y :: b' => eqb x y && list_eqb eqb a' b'
  | _, _ => false
  end.

Definition opt_eqb {A} (eqb : A -> A -> bool) (a b : option A) : bool :=
  match a, b with
  | None, None => true
  | Some x, Some y => eqb x y
  | _, _ => false
  end.

Definition tx_eqb (a b : tx) : bool :=
  N.eqb (tx_ver a) (tx_ver b) && N.eqb (tx_tok a) (tx_tok b) && list_eqb N.eqb (tx_locked a) (tx_locked b).

Definition kind_eqb (a b : kind) : bool :=
  match a, b with
  | KRegistered, KRegistered | KProgressed, KProgressed | KConcluded, KConcluded => true
  | _, _ => false
  end.

Definition start_res_eqb (a b : start_res) : bool :=
  match a, b with
  | StartOK, StartOK => true
  | StartOK, _ | _, StartOK => false
  | _, _ => true      (* a refusal is a refusal: the reasons are told apart by message text only *)
  end.

Definition stop_res_eqb (a b : stop_res) : bool :=
  match a, b with
  | StopOK, StopOK | StopRefused, StopRefused | StopNotWatched, StopNotWatched | StopPanic, StopPanic => true
  | _, _ => false
  end.

Definition out_eqb (a b : out) : bool :=
  match a, b with
  | ORegister p t s, ORegister p' t' s' =>
      N.eqb p p' && tx_eqb t t'
      && list_eqb (fun x y => N.eqb (fst x) (fst y) && opt_eqb tx_eqb (snd x) (snd y)) s s'
  | ORelay c k v, ORelay c' k' v' => N.eqb c c' && kind_eqb k k' && N.eqb v v'
  | OStart r, OStart r' => start_res_eqb r r'
  | OStop r, OStop r' => stop_res_eqb r r'
  | _, _ => false        (* OUnreachable never matches an observation *)
  end.

Fixpoint assoc {A} (x : id) (l : list (id * A)) : option A :=
  match l with
  | [] => None
  | (y, a) :: r => if N.eqb x y then Some a else assoc x r
  end.

Definition same_set (a b : list id) : bool :=
  Nat.eqb (length a) (length b) && forallb (fun x => memid x b) a && forallb (fun x => memid x a) b.

Definition snap_id (x : snap) : id := match x with Sn ch _ _ _ _ _ _ _ _ _ => ch end.

Fixpoint find_snap (ch : id) (l : list snap) : option snap :=
  match l with
  | [] => None
  | x :: r => if N.eqb (snap_id x) ch then Some x else find_snap ch r
  end.

Definition ids_upto (n : N) : list id := map N.of_nat (seq 0 (N.to_nat n)).

Definition snap_ok (n : N) (c : chan) (x : snap) : bool :=
  match x with
  | Sn _ parent multi subs arch registered regver published pubver done =>
      opt_eqb N.eqb (c_parent c) parent && Bool.eqb (c_multi c) multi && same_set (c_subs c) subs
      && forallb (fun l => opt_eqb tx_eqb (c_arch c l) (assoc l arch)) (ids_upto n)
      && Bool.eqb (c_registered c) registered && N.eqb (c_regver c) regver
      && Bool.eqb (c_published c) published && N.eqb (c_pubver c) pubver && Bool.eqb (c_done c) done
  end.

Definition final_ok (n : N) (s : wstate) (final : list snap) : bool :=
  forallb (fun ch => match w_reg s ch, find_snap ch final with
                     | None, None => true
                     | Some c, Some x => snap_ok n c x
                     | _, _ => false
                     end) (ids_upto n)
  && forallb (fun x => snap_id x <? n) final.

Fixpoint replay (s : wstate) (steps : list (event * list out)) : option wstate :=
  match steps with
  | [] => Some s
  | (e, o) :: r =>
      let '(s1, o1) := step s e in
      if list_eqb out_eqb o1 o then replay s1 r else None
  end.

Definition good_hist (c : hist) : bool :=
  match c with
  | H n steps final =>
      match replay init steps with
      | Some s => final_ok n s final
      | None => false
      end
  end.

Definition good (c : ccase) : bool := forallb good_hist c.

Fixpoint mismatches_from {A} (good : A -> bool) (i : nat) (cs : list A) : list nat :=
  match cs with
  | [] => []
  | c :: r => if good c then mismatches_from good (S i) r else i :: mismatches_from good (S i) r
  end.
Definition mismatches (base : nat) (cs : list ccase) : list nat := mismatches_from good base cs.
