(* Correspondence for C15: the Go Equal verdicts and encodings vs. the model. *)
From V Require Export Model.Channel.
Open Scope N_scope.

Definition zbe (s : string) : Z := Z.of_N (dec_be (unhex s)).
Definition znegbe (s : string) : Z := (- Z.of_N (dec_be (unhex s)))%Z.

Inductive ccase :=
| CState (a b : state) (eq oka : bool) (ea : bytes) (okb : bool) (eb : bytes)
| CAlloc (a b : alloc) (eq oka : bool) (ea : bytes) (okb : bool) (eb : bytes)
| CBals (a b : list (list Z)) (eq oka : bool) (ea : bytes) (okb : bool) (eb : bytes)
| CSub (a b : suballoc) (eq oka : bool) (ea : bytes) (okb : bool) (eb : bytes).

(* Go's Encode succeeded <-> the model's encodability predicate; then the bytes agree *)
Definition enc_agrees {A} (wf : A -> bool) (enc : A -> bytes) (a : A) (ok : bool) (e : bytes) : bool :=
  Bool.eqb (wf a) ok && (negb ok || bytes_eqb (enc a) e).

Definition suballoc_encodable (s : suballoc) : bool := suballoc_valid s && bigints_ok (sa_bals s).
Definition balances_encodable (b : list (list Z)) : bool :=
  (len b <=? MaxNumAssets) && (num_parts b <=? MaxNumParts) && forallb bigints_ok b.
Definition alloc_encodable (a : alloc) : bool :=
  alloc_valid a && forallb bigints_ok (al_bals a)
  && forallb (fun l => bigints_ok (sa_bals l)) (al_locked a).

Definition good (c : ccase) : bool :=
  match c with
  | CState a b eq oka ea okb eb =>
      Bool.eqb (state_equal a b) eq
      && enc_agrees (fun s => alloc_encodable (st_alloc s)) enc_state a oka ea
      && enc_agrees (fun s => alloc_encodable (st_alloc s)) enc_state b okb eb
  | CAlloc a b eq oka ea okb eb =>
      Bool.eqb (alloc_equal a b) eq
      && enc_agrees alloc_encodable enc_alloc a oka ea && enc_agrees alloc_encodable enc_alloc b okb eb
  | CBals a b eq oka ea okb eb =>
      Bool.eqb (balances_equal a b) eq
      && enc_agrees balances_encodable enc_balances a oka ea
      && enc_agrees balances_encodable enc_balances b okb eb
  | CSub a b eq oka ea okb eb =>
      Bool.eqb (suballoc_equal a b) eq
      && enc_agrees suballoc_encodable enc_suballoc a oka ea
      && enc_agrees suballoc_encodable enc_suballoc b okb eb
  end.

Fixpoint mismatches_from {A} (good : A -> bool) (i : nat) (cs : list A) : list nat :=
  match cs with
  | [] => []
  | c :: r => if good c then mismatches_from good (S i) r else i :: mismatches_from good (S i) r
  end.
Definition mismatches (base : nat) (cs : list ccase) : list nat := mismatches_from good base cs.
