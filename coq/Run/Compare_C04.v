(* C04: trace acceptance of runs of an honest client against a peer that registers outdated states
   (see Run/Compare_Settle.v). *)
From V Require Export Run.Compare_Settle.
Definition mismatches (base : nat) (cs : list scase) : list nat := smismatches_from base cs.
