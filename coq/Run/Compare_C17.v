(* Correspondence for C17: NewParams verdicts, ID pre-images. *)
From V Require Export Run.Compare_Codec.
Open Scope N_scope.
Inductive pcase :=
| CPre (p : params) (pre : bytes)        (* the bytes whose SHA-256 is Params.ID() (checked in Go) *)
| CNew (p : params) (accepted : bool).   (* channel.NewParams verdict *)
Definition pgood (c : pcase) : bool :=
  match c with
  | CPre p pre => bytes_eqb (id_preimage p) pre
  | CNew p acc => Bool.eqb (new_params_ok p) acc
  end.
Fixpoint pmismatches_from (i : nat) (cs : list pcase) : list nat :=
  match cs with
  | [] => []
  | c :: r => if pgood c then pmismatches_from (S i) r else i :: pmismatches_from (S i) r
  end.
Definition pmismatches (base : nat) (cs : list pcase) : list nat := pmismatches_from base cs.
