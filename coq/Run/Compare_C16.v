(* Correspondence for C16: the real serializers over chunking readers vs. run_chunked. *)
From V Require Export Run.Compare_Codec.
Open Scope N_scope.

Inductive kcase := CChunks (cs : list bytes) (envs : list envelope) (clean : bool).

Section WithResolver.
  Variable rs : resolver.
  Fixpoint dec_chunks (fuel : nat) (cs : list bytes) : list envelope * bool :=
    match fuel with
    | O => ([], false)
    | S f => match cs with
             | [] => ([], true)
             | _ => match run_chunked (dec_envelope rs) cs with
                    | Ok (e, cs') => let (l, c) := dec_chunks f cs' in (e :: l, c)
                    | _ => ([], false)
                    end
             end
    end.
  Definition kgood (c : kcase) : bool :=
    match c with
    | CChunks cs envs clean =>
        let (l, c') := dec_chunks (S (length envs)) cs in
        envs_eqb l envs && Bool.eqb c' clean
    end.
  Fixpoint kmismatches_from (i : nat) (cs : list kcase) : list nat :=
    match cs with
    | [] => []
    | c :: r => if kgood c then kmismatches_from (S i) r else i :: kmismatches_from (S i) r
    end.
End WithResolver.
Definition kmismatches (rs : resolver) (base : nat) (cs : list kcase) : list nat := kmismatches_from rs base cs.
