(* Correspondence for the native codecs (C13, C14): Go decoders/encoders vs. the model's. *)
From V Require Export Model.Msgs.
Open Scope N_scope.

Definition zbe (s : string) : Z := Z.of_N (dec_be (unhex s)).
Definition znegbe (s : string) : Z := (- Z.of_N (dec_be (unhex s)))%Z.

Definition mk_resolver (pay mock : bytes) : resolver :=
  fun d => if bytes_eqb d pay then Some KPay else if bytes_eqb d mock then Some KMock else None.

Inductive wval :=
| VSub (s : suballoc) | VBals (b : list (list Z)) | VAlloc (a : alloc) | VState (s : state)
| VParams (p : params) | VTx (t : txv) | VWamap (m : amap) | VWamaps (l : list amap)
| VRamap (m : amap) | VRamaps (l : list amap) | VMsg (m : msg) | VEnv (e : envelope).
Inductive kind := KSub | KBals | KAlloc | KState | KParams | KTx | KWamap | KWamaps | KRamap | KRamaps | KMsg | KEnv.

Definition dec_kind (rs : resolver) (k : kind) : prog wval :=
  match k with
  | KSub => x <- dec_suballoc ;; Ret (VSub x)
  | KBals => x <- dec_balances ;; Ret (VBals x)
  | KAlloc => x <- dec_alloc ;; Ret (VAlloc x)
  | KState => x <- dec_state rs ;; Ret (VState x)
  | KParams => x <- dec_params rs ;; Ret (VParams x)
  | KTx => x <- dec_tx rs ;; Ret (VTx x)
  | KWamap => x <- dec_wamap ;; Ret (VWamap x)
  | KWamaps => x <- dec_wamaps ;; Ret (VWamaps x)
  | KRamap => x <- dec_ramap ;; Ret (VRamap x)
  | KRamaps => x <- dec_ramaps ;; Ret (VRamaps x)
  | KMsg => x <- dec_msg rs ;; Ret (VMsg x)
  | KEnv => x <- dec_envelope rs ;; Ret (VEnv x)
  end.
Definition enc_val (v : wval) : bytes :=
  match v with
  | VSub x => enc_suballoc x | VBals x => enc_balances x | VAlloc x => enc_alloc x
  | VState x => enc_state x | VParams x => enc_params x | VTx x => enc_tx x
  | VWamap x => enc_amap x | VWamaps x => enc_wamaps x | VRamap x => enc_amap x
  | VRamaps x => enc_ramaps x | VMsg x => enc_msg x | VEnv x => enc_envelope x
  end.

(* structural equality of values: compare through the model encoder where the encoder is injective
   on everything the decoder can return, and field-wise otherwise *)
Definition amap_eqb (a b : amap) : bool :=
  list_eqb (fun x y => (fst x =? fst y)%Z && bytes_eqb (snd x) (snd y)) a b.
Definition amaps_eqb := list_eqb amap_eqb.
Definition osig_eqb (a b : option bytes) : bool :=
  match a, b with Some x, Some y => bytes_eqb x y | None, None => true | _, _ => false end.
Definition sigs_eqb := list_eqb osig_eqb.
Definition oapp_eqb := app_should_equal.
Definition params_eqb (p q : params) : bool :=
  (p_cd p =? p_cd q) && amaps_eqb (p_parts p) (p_parts q) && oapp_eqb (p_app p) (p_app q)
  && (p_nonce p =? p_nonce q)%Z && Bool.eqb (p_ledger p) (p_ledger q)
  && Bool.eqb (p_virtual p) (p_virtual q) && bytes_eqb (p_aux p) (p_aux q).
Definition tx_eqb (a b : txv) : bool :=
  match a, b with
  | Some (s, g), Some (s', g') => state_equal s s' && sigs_eqb g g'
  | None, None => true
  | _, _ => false
  end.
Definition bp_eqb (a b : baseprop) : bool :=
  bytes_eqb (bp_id a) (bp_id b) && (bp_cd a =? bp_cd b) && bytes_eqb (bp_nonce a) (bp_nonce b)
  && oapp_eqb (bp_app a) (bp_app b) && bytes_eqb (bp_data a) (bp_data b)
  && alloc_equal (bp_bals a) (bp_bals b) && balances_equal (bp_fa a) (bp_fa b)
  && bytes_eqb (bp_aux a) (bp_aux b).
Definition msg_eqb (a b : msg) : bool :=
  match a, b with
  | MPing x, MPing y | MPong x, MPong y => x =? y
  | MShutdown x, MShutdown y | MAuthResponse x, MAuthResponse y => bytes_eqb x y
  | MLedgerProp b1 p1 q1, MLedgerProp b2 p2 q2 => bp_eqb b1 b2 && amap_eqb p1 p2 && amaps_eqb q1 q2
  | MLedgerAcc a1 n1 p1, MLedgerAcc a2 n2 p2 | MVirtAcc a1 n1 p1, MVirtAcc a2 n2 p2 =>
      bytes_eqb a1 a2 && bytes_eqb n1 n2 && amap_eqb p1 p2
  | MSubProp b1 p1, MSubProp b2 p2 => bp_eqb b1 b2 && bytes_eqb p1 p2
  | MSubAcc a1 n1, MSubAcc a2 n2 | MPropRej a1 n1, MPropRej a2 n2 => bytes_eqb a1 a2 && bytes_eqb n1 n2
  | MVirtProp b1 p1 q1 r1 i1, MVirtProp b2 p2 q2 r2 i2 =>
      bp_eqb b1 b2 && amap_eqb p1 p2 && amaps_eqb q1 q2 && list_eqb bytes_eqb r1 r2
      && list_eqb nlist_eqb i1 i2
  | MUpdate s1 a1 g1, MUpdate s2 a2 g2 => state_equal s1 s2 && (a1 =? a2) && bytes_eqb g1 g2
  | MVFund s1 a1 g1 p1 t1 m1 i1, MVFund s2 a2 g2 p2 t2 m2 i2 =>
      state_equal s1 s2 && (a1 =? a2) && bytes_eqb g1 g2 && params_eqb p1 p2 && state_equal t1 t2
      && nlist_eqb m1 m2 && sigs_eqb i1 i2
  | MVSettle s1 a1 g1 p1 t1 i1, MVSettle s2 a2 g2 p2 t2 i2 =>
      state_equal s1 s2 && (a1 =? a2) && bytes_eqb g1 g2 && params_eqb p1 p2 && state_equal t1 t2
      && sigs_eqb i1 i2
  | MUpdateAcc i1 v1 g1, MUpdateAcc i2 v2 g2 | MUpdateRej i1 v1 g1, MUpdateRej i2 v2 g2 =>
      bytes_eqb i1 i2 && (v1 =? v2) && bytes_eqb g1 g2
  | MSync p1 t1, MSync p2 t2 => (p1 =? p2) && tx_eqb t1 t2
  | _, _ => false
  end.
Definition wval_eqb (a b : wval) : bool :=
  match a, b with
  | VSub x, VSub y => suballoc_equal x y
  | VBals x, VBals y => balances_equal x y
  | VAlloc x, VAlloc y => alloc_equal x y
  | VState x, VState y => state_equal x y
  | VParams x, VParams y => params_eqb x y
  | VTx x, VTx y => tx_eqb x y
  | VWamap x, VWamap y | VRamap x, VRamap y => amap_eqb x y
  | VWamaps x, VWamaps y | VRamaps x, VRamaps y => amaps_eqb x y
  | VMsg x, VMsg y => msg_eqb x y
  | VEnv x, VEnv y => amap_eqb (e_sender x) (e_sender y) && amap_eqb (e_recipient x) (e_recipient y)
                      && msg_eqb (e_msg x) (e_msg y)
  | _, _ => false
  end.

(* observed outcome of a Go decoder on bytes: value and number of unread bytes, error, or panic *)
Inductive dobs := DOk (v : wval) (rest : nat) | DErr | DPanic.
Inductive ccase :=
| CDec (k : kind) (bs : bytes) (o : dobs)                (* Go decoded these bytes *)
| CEnc (v : wval) (ok : bool) (bs : bytes)               (* Go encoded this value *)
| CStream (bs : bytes) (envs : list envelope).           (* Go decoded consecutive envelopes until EOF *)

Section WithResolver.
  Variable rs : resolver.
  Definition dec_agrees (k : kind) (bs : bytes) (o : dobs) : bool :=
    match run_flat (dec_kind rs k) bs, o with
    | Ok (v, r), DOk v' n => wval_eqb v v' && (length r =? n)%nat
    | Err, DErr => true
    | Panic, DPanic => true
    | _, _ => false
    end.
  Fixpoint dec_stream (fuel : nat) (bs : bytes) : option (list envelope) :=
    match fuel with
    | O => None
    | S f => match bs with
             | [] => Some []
             | _ => match run_flat (dec_envelope rs) bs with
                    | Ok (e, r) => option_map (cons e) (dec_stream f r)
                    | _ => None
                    end
             end
    end.
  Definition envs_eqb := list_eqb (fun x y => wval_eqb (VEnv x) (VEnv y)).
  Definition good (c : ccase) : bool :=
    match c with
    | CDec k bs o => dec_agrees k bs o
    | CEnc v ok bs => negb ok || bytes_eqb (enc_val v) bs
    | CStream bs envs =>
        match dec_stream (S (length envs)) bs with Some l => envs_eqb l envs | None => false end
    end.
  Fixpoint mismatches_from (i : nat) (cs : list ccase) : list nat :=
    match cs with
    | [] => []
    | c :: r => if good c then mismatches_from (S i) r else i :: mismatches_from (S i) r
    end.
End WithResolver.
Definition mismatches (rs : resolver) (base : nat) (cs : list ccase) : list nat := mismatches_from rs base cs.
