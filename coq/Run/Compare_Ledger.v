(* Correspondence of the Go strict ledger (harness/internal/strictledger/core.go) with Model/Ledger.v:
   random operation sequences; per operation the result (events or error code) and, at the end, the
   whole ledger state are compared. *)
From V Require Export Model.Ledger.
Open Scope N_scope.

Definition zbe (s : string) : Z := Z.of_N (dec_be (unhex s)).
Definition znegbe (s : string) : Z := (- Z.of_N (dec_be (unhex s)))%Z.

Inductive tokref := TSig (signer : N) (st : nat) | TJunk (n : N).
Definition rtx := (nat * list (option tokref))%type.
Inductive rlop :=
| RDeposit (p : nat) (assets : list N) (idx from : N) (amts : list Z)
| RRegister (p : nat) (t : rtx) (subs : list (nat * rtx))
| RProgress (p : nat) (old new : nat) (actor : N) (sg : tokref)
| RConclude (p : nat) (s : nat) (subs : list nat)
| RConcludeFinal (p : nat) (t : rtx)
| RWithdraw (p : nat) (idx signer to : N)
| RTick (n : N).
Inductive rev := RvReg (p : nat) (ver to : N) | RvProg (p : nat) (ver to : N) | RvConc (p : nat) (ver : N).
Inductive rlout := RLOk (evs : list rev) | RLErr (code : N).
Record rfund := mkRF { rf_p : nat; rf_assets : list N; rf_hold : list (list Z); rf_dep : list bool;
                       rf_settled : bool; rf_wd : list bool }.
Record rdisp := mkRD { rd_p : nat; rd_s : nat; rd_timeout : N; rd_phase : N }.
Record rsnap := mkRS { rs_clock : N; rs_acc : accounts; rs_funds : list rfund; rs_disp : list rdisp }.
Record lcase := mkLCase {
  lc_params : list lparams; lc_sts : list state; lc_acc : accounts;
  lc_ops : list rlop; lc_obs : list rlout; lc_final : rsnap }.

Definition dummy_state : state := mkState [] 0 (mkAlloc [] [] [] []) None [] false.
Definition dummy_params : lparams := mkLP [] [] 0 None false.

Section WithTables.
  Variable PS : list lparams.
  Variable STS : list state.
  Definition pr (i : nat) : lparams := nth i PS dummy_params.
  Definition st (i : nat) : state := nth i STS dummy_state.
  Definition tok (t : tokref) : sigtok :=
    match t with TSig k i => SigOf k (enc_state (st i)) | TJunk n => Junk n end.
  Definition conv_tx (t : rtx) : tx := mkTx (st (fst t)) (map (option_map tok) (snd t)).
  Definition conv_op (o : rlop) : lop :=
    match o with
    | RDeposit p assets idx from amts => LDeposit (pr p) assets idx from amts
    | RRegister p t subs => LRegister (pr p) (conv_tx t) (map (fun e => (pr (fst e), conv_tx (snd e))) subs)
    | RProgress p old new actor sg => LProgress (pr p) (st old) (st new) actor (tok sg)
    | RConclude p s subs => LConclude (pr p) (st s) (map st subs)
    | RConcludeFinal p t => LConcludeFinal (pr p) (conv_tx t)
    | RWithdraw p idx signer to => LWithdraw (pr p) idx signer to
    | RTick n => LTick n
    end.
  Definition ev_agrees (e : levent) (r : rev) : bool :=
    match e, r with
    | EvRegistered id v t, RvReg p v' t' => bytes_eqb id (lp_id (pr p)) && (v =? v') && (t =? t')
    | EvProgressed id v t, RvProg p v' t' => bytes_eqb id (lp_id (pr p)) && (v =? v') && (t =? t')
    | EvConcluded id v, RvConc p v' => bytes_eqb id (lp_id (pr p)) && (v =? v')
    | _, _ => false
    end.
  Fixpoint list_agree {A B} (f : A -> B -> bool) (a : list A) (b : list B) : bool :=
    match a, b with
    | [], [] => true
    | x :: a', y :: b' => f x y && list_agree f a' b'
    | _, _ => false
    end.
  Definition out_agrees (o : lout) (r : rlout) : bool :=
    match o, r with
    | LOk evs, RLOk revs => list_agree ev_agrees evs revs
    | LErr e, RLErr c => lerr_num e =? c
    | _, _ => false
    end.
  Definition acc_entry_eqb (a b : akey * Z) : bool := key_eqb (fst a) (fst b) && (snd a =? snd b)%Z.
  Definition blist_eqb := list_eqb Bool.eqb.
  Definition fund_agrees (e : bytes * fund) (r : rfund) : bool :=
    let f := snd e in
    bytes_eqb (fst e) (lp_id (pr (rf_p r))) && nlist_eqb (f_assets f) (rf_assets r)
    && balances_equal (f_hold f) (rf_hold r) && blist_eqb (f_dep f) (rf_dep r)
    && Bool.eqb (f_settled f) (rf_settled r) && blist_eqb (f_wd f) (rf_wd r).
  Definition disp_agrees (e : bytes * dispute) (r : rdisp) : bool :=
    let d := snd e in
    bytes_eqb (fst e) (lp_id (pr (rd_p r))) && bytes_eqb (lp_id (d_params d)) (lp_id (pr (rd_p r)))
    && state_equal (d_state d) (st (rd_s r)) && (d_timeout d =? rd_timeout r)
    && (dphase_num (d_phase d) =? rd_phase r).
  Definition snap_agrees (L : lstate) (s : rsnap) : bool :=
    (l_clock L =? rs_clock s) && list_eqb acc_entry_eqb (l_acc L) (rs_acc s)
    && list_agree fund_agrees (l_funds L) (rs_funds s) && list_agree disp_agrees (l_disp L) (rs_disp s).

  Fixpoint agree (L : lstate) (ops : list rlop) (obs : list rlout) (fin : rsnap) : bool :=
    match ops, obs with
    | [], [] => snap_agrees L fin
    | o :: ops', r :: obs' =>
        let (L', x) := step L (conv_op o) in out_agrees x r && agree L' ops' obs' fin
    | _, _ => false
    end.
End WithTables.

Definition good (c : lcase) : bool :=
  agree (lc_params c) (lc_sts c) (init_ledger (lc_acc c)) (lc_ops c) (lc_obs c) (lc_final c).
Fixpoint mismatches_from (i : nat) (cs : list lcase) : list nat :=
  match cs with
  | [] => []
  | c :: r => if good c then mismatches_from (S i) r else i :: mismatches_from (S i) r
  end.
Definition mismatches (base : nat) (cs : list lcase) : list nat := mismatches_from base cs.
