(* C06 trace acceptance (T3): the linearised event log of two real clients running the update protocol
   on one channel is replayed through the LTS of Model/Update.v.  Every event must be an enabled step
   (or a fixed short sequence of steps) whose data agree with what was observed; at quiescence the
   machines of both parties, the control states, the network and the results of all Channel.Update
   calls are compared.  Enabledness depends only on the acting party's control state (its mutex run)
   and on messages already sent, i.e. on causal prerequisites, so every legal linearisation of a run
   is accepted.

   A log in which a proposer gave up waiting (request timeout) is replayed through the LTS up to that
   event (the LTS has no timeout step); from there on only the machine operations of each party are
   replayed through Model/Machine.step (each must succeed as observed) and the final machines are
   compared: the fully-signed invariant is all the property claims for such runs. *)
From V Require Export Model.Update Run.Compare_Mach.
Open Scope N_scope.

Inductive role := AsProp | AsResp.
Inductive cause := CRej | CTimeout | CErr.
Inductive rmsg := RMReq (s : nat) (actor : N) (g : tokref) | RMAcc (ver : N) (g : tokref) | RMRej (ver : N).
Inductive ev :=
| EStage (p : pid) (r : role) (s : nat) (actor : N)   (* Persister.Staged with a staged state *)
| EBad (p : pid) (s : nat)                            (* updater callback of a call that returned an error without staging *)
| ESig (p : pid) (r : role) (g : tokref)              (* Persister.SigAdded(own index) *)
| EAddSig (p : pid) (r : role) (i : N) (g : tokref)   (* Persister.SigAdded(peer index) *)
| ESend (p : pid) (m : rmsg)                          (* bus wrapper, before Publish *)
| EHandle (p : pid) (s : nat) (actor : N)             (* UpdateHandler.HandleUpdate entered *)
| EDecide (p : pid) (b : bool)                        (* handler calls Accept / Reject *)
| EEnable (p : pid) (r : role) (s : nat)              (* Persister.Enabled *)
| EDiscard (p : pid) (r : role) (c : cause).          (* Persister.Staged without staged state *)

Record ccase := mkCCase {
  c_P : mparams;
  c_init : rtx;                         (* the fully signed transaction both parties start from *)
  c_evs : list ev;
  c_finA : rsnap; c_finB : rsnap;       (* quiescent phase / staging / current of both channels *)
  c_res : list (pid * nat * result) }.  (* completed Channel.Update calls in completion order *)

Definition pc_tag (c : pc) : N :=
  match c with
  | Idle => 0 | PStaged _ => 1 | PSigned _ _ => 2 | PWait _ => 3 | PAcc _ _ => 4 | PAdded _ => 5
  | PFail _ _ => 6 | RGot _ _ _ => 7 | RChecked _ _ _ => 8 | RAccept _ _ _ => 9 | RReject _ => 10
  | RStaged _ _ => 11 | RAdded _ => 12 | RSigned _ _ => 13 | RSent _ => 14 | RFail => 15 | Crashed => 16
  end.
Definition result_eqb (a b : result) : bool :=
  match a, b with RSuccess, RSuccess | RRejected, RRejected | RError, RError => true | _, _ => false end.

Section WithTable.
  Variable sts : list state.
  Notation st := (st sts).
  Notation tok := (tok sts).

  (* option-monad helpers *)
  Definition guard (b : bool) (s : sys) : option sys := if b then Some s else None.
  Definition andthen (o : option sys) (f : sys -> option sys) : option sys :=
    match o with Some s => f s | None => None end.
  Notation "o >>= f" := (andthen o f) (at level 50, left associativity).

  Definition ctl_of (s : sys) (p : pid) : pc := ctl (getp s p).
  Definition tag_is (p : pid) (n : N) (s : sys) : option sys := guard (pc_tag (ctl_of s p) =? n) s.

  (* one observed event as LTS steps, with the observed data checked against the model's *)
  Definition accept_ev (s : sys) (e : ev) : option sys :=
    match e with
    | EStage p AsProp i a =>
        guard (a =? pidx p) s >>= fun s => lstep s (LStage p (st i))
    | EStage p AsResp i a =>
        match ctl_of s p with
        | RAccept st' a' _ => guard (state_equal st' (st i) && (a' =? a)) s
        | _ => None
        end >>= fun s => lstep s (LRStage p) >>= tag_is p 11
    | EBad p i => lstep s (LStageBad p (st i)) >>= tag_is p 0
    | ESig p AsProp g =>
        lstep s (LSign p) >>= fun s =>
        match ctl_of s p with PSigned _ g' => guard (sigtok_eqb g' (tok g)) s | _ => None end
    | ESig p AsResp g =>
        lstep s (LRSign p) >>= fun s =>
        match ctl_of s p with RSigned _ g' => guard (sigtok_eqb g' (tok g)) s | _ => None end
    | EAddSig p AsProp i g =>
        guard (i =? pidx (other p)) s >>= fun s => lstep s (LRecvAcc p) >>= fun s =>
        match ctl_of s p with PAcc _ g' => guard (sigtok_eqb g' (tok g)) s | _ => None end
        >>= fun s => lstep s (LPAddSig p) >>= tag_is p 5
    | EAddSig p AsResp i g =>
        match ctl_of s p with
        | RStaged _ g' => guard (sigtok_eqb g' (tok g) && (i =? pidx (other p))) s
        | _ => None
        end >>= fun s => lstep s (LRAddSig p) >>= tag_is p 12
    | ESend p (RMReq i a g) =>
        match ctl_of s p with
        | PSigned st' g' => guard (state_equal st' (st i) && (a =? pidx p) && sigtok_eqb g' (tok g)) s
        | _ => None
        end >>= fun s => lstep s (LSendReq p)
    | ESend p (RMAcc v g) =>
        match ctl_of s p with
        | RSigned st' g' => guard ((st_ver st' =? v) && sigtok_eqb g' (tok g)) s
        | _ => None
        end >>= fun s => lstep s (LRSendAcc p)
    | ESend p (RMRej v) =>
        match ctl_of s p with
        | RReject st' => guard (st_ver st' =? v) s
        | _ => None
        end >>= fun s => lstep s (LRSendRej p)
    | EHandle p i a =>
        lstep s (LDeliver p) >>= fun s =>
        match ctl_of s p with
        | RGot st' a' _ => guard (state_equal st' (st i) && (a' =? a)) s
        | _ => None
        end >>= fun s => lstep s (LCheck p) >>= tag_is p 8
    | EDecide p b => lstep s (LDecide p b)
    | EEnable p AsProp i =>
        match ctl_of s p with PAdded st' => guard (state_equal st' (st i)) s | _ => None end
        >>= fun s => lstep s (LPEnable p) >>= tag_is p 0
    | EEnable p AsResp i =>
        match ctl_of s p with RSent st' => guard (state_equal st' (st i)) s | _ => None end
        >>= fun s => lstep s (LREnable p) >>= tag_is p 0
    | EDiscard p AsProp CRej =>
        lstep s (LRecvRej p) >>= fun s => lstep s (LDiscard p) >>= tag_is p 0
    | EDiscard p _ CErr => lstep s (LDiscard p) >>= tag_is p 0
    | EDiscard _ _ _ => None
    end.

  (* machine-only replay after a timeout *)
  Definition mstate : Type := mach * mach.
  Definition mget (ms : mstate) (p : pid) : mach := match p with PA => fst ms | PB => snd ms end.
  Definition mset (ms : mstate) (p : pid) (m : mach) : mstate :=
    match p with PA => (m, snd ms) | PB => (fst ms, m) end.
  Definition mop (ms : mstate) (p : pid) (o : op) (chk : out -> bool) : option mstate :=
    let (m', x) := step (mget ms p) o in if chk x then Some (mset ms p m') else None.
  Definition is_ok (o : out) : bool := match o with OK => true | _ => false end.
  Definition cur_is (m : mach) (s : state) : bool :=
    match current m with Some t => state_equal (tx_st t) s | None => false end.
  Definition accept_mach (ms : mstate) (e : ev) : option mstate :=
    match e with
    | EStage p _ i a => mop ms p (OUpdate (st i) a) is_ok
    | ESig p _ g => mop ms p OSig (fun x => match x with OKSig g' => sigtok_eqb g' (tok g) | _ => false end)
    | EAddSig p _ i g => mop ms p (OAddSig i (tok g)) is_ok
    | EEnable p _ i =>
        match mop ms p (enable_op (mget ms p)) is_ok with
        | Some ms' => if cur_is (mget ms' p) (st i) then Some ms' else None
        | None => None
        end
    | EDiscard p _ _ => mop ms p ODiscard is_ok
    | EHandle p i a =>
        (* the user handler runs only after CheckUpdate and validTwoPartyUpdate passed (signature not recorded here) *)
        match valid_transition (mget ms p) (st i) a, two_party_ok (mget ms p) (st i) a (pidx (other p)) with
        | OK, OK => Some ms
        | _, _ => None
        end
    | _ => Some ms
    end.
  Fixpoint run_mach (ms : mstate) (es : list ev) : option mstate :=
    match es with
    | [] => Some ms
    | e :: r => match accept_mach ms e with Some ms' => run_mach ms' r | None => None end
    end.

  Definition is_timeout (e : ev) : bool := match e with EDiscard _ _ CTimeout => true | _ => false end.

  (* LTS mode until the first timeout, machine mode from there *)
  Fixpoint run_lts (s : sys) (es : list ev) : option (sys + mstate) :=
    match es with
    | [] => Some (inl s)
    | e :: r =>
        if is_timeout e then option_map inr (run_mach (mc (pa s), mc (pb s)) es)
        else match accept_ev s e with Some s' => run_lts s' r | None => None end
    end.

  Definition res_eqb (a b : pid * state * result) : bool :=
    let '(p, s, r) := a in let '(q, s', r') := b in
    pid_eqb p q && state_equal s s' && result_eqb r r'.
  Definition conv_res (b : pid * nat * result) : pid * state * result :=
    let '(q, i, r) := b in (q, st i, r).

  Definition good (c : ccase) : bool :=
    match conv_tx sts (c_init c) with
    | None => false
    | Some t =>
        match run_lts (init_sys (c_P c) t) (c_evs c) with
        | Some (inl s) =>
            mach_eqb (mc (pa s)) (conv_snap (c_P c) sts 0 (c_finA c))
            && mach_eqb (mc (pb s)) (conv_snap (c_P c) sts 1 (c_finB c))
            && (pc_tag (ctl (pa s)) =? 0) && (pc_tag (ctl (pb s)) =? 0)
            && match net s with [] => true | _ => false end
            && list_eqb res_eqb (rev (done s)) (map conv_res (c_res c))
        | Some (inr ms) =>
            mach_eqb (fst ms) (conv_snap (c_P c) sts 0 (c_finA c))
            && mach_eqb (snd ms) (conv_snap (c_P c) sts 1 (c_finB c))
        | None => false
        end
    end.

  (* index of the first event that is not accepted (diagnostics) *)
  Fixpoint first_bad (s : sys) (es : list ev) (i : nat) : option nat :=
    match es with
    | [] => None
    | e :: r =>
        if is_timeout e then None
        else match accept_ev s e with Some s' => first_bad s' r (S i) | None => Some i end
    end.

  Fixpoint mismatches_from (i : nat) (cs : list ccase) : list nat :=
    match cs with
    | [] => []
    | c :: r => if good c then mismatches_from (S i) r else i :: mismatches_from (S i) r
    end.
End WithTable.

Definition mismatches_sts (sts : list state) (base : nat) (cs : list ccase) : list nat :=
  mismatches_from sts base cs.
Definition where_bad (sts : list state) (c : ccase) : option nat :=
  match conv_tx sts (c_init c) with
  | Some t => first_bad sts (init_sys (c_P c) t) (c_evs c) 0
  | None => Some 0%nat
  end.

(* ---------- compact input syntax written by the harness (parsing literal data is what costs time) ----------
   A file carries a table of channels (id, app, assets) and a table of states given relative to their
   channel (version, balances, locked funds, final flag); events refer to states by index and to
   signatures by (signer key, state index); key 0 = a signature the harness could not attribute. *)
Record chdesc := mkCh {
  cd_id : string; cd_app : option string; cd_kind : option appkind;
  cd_backends : list Z; cd_assets : list string }.
Definition dummy_ch : chdesc := mkCh "" None None [] [].
Definition cst : Type := N * N * list (list Z) * list suballoc * bool.
Definition cs (c v : N) (b : list (list Z)) (l : list suballoc) (f : bool) : cst := (c, v, b, l, f).
Definition expand (chs : list chdesc) (c : cst) : state :=
  let '(ci, v, bals, locked, fin) := c in
  let d := nth (N.to_nat ci) chs dummy_ch in
  mkState (unhex (cd_id d)) v
    (mkAlloc (map Z.to_N (cd_backends d)) (map (fun a => dec_be (unhex a)) (cd_assets d)) bals locked)
    (option_map unhex (cd_app d)) [] fin.
Definition chP (chs : list chdesc) (ci : N) : mparams :=
  let d := nth (N.to_nat ci) chs dummy_ch in mkMP (unhex (cd_id d)) [1; 2] (option_map unhex (cd_app d)) (cd_kind d).

(* numerals are binary (N): unary nat literals of the size of a state index are slow to elaborate *)
Definition tk (k s : N) : tokref := if k =? 0 then TJunk 0 else TSig k (N.to_nat s).
Definition pA := PA.  Definition pB := PB.  Definition rP := AsProp.  Definition rR := AsResp.
Definition eSt p r (s a : N) := EStage p r (N.to_nat s) a.
Definition eBad p (s : N) := EBad p (N.to_nat s).
Definition eSig p r (k s : N) := ESig p r (tk k s).
Definition eAdd p r (i k s : N) := EAddSig p r i (tk k s).
Definition eReq p (s a k s' : N) := ESend p (RMReq (N.to_nat s) a (tk k s')).
Definition eAcc p (v k s : N) := ESend p (RMAcc v (tk k s)).
Definition eRej p (v : N) := ESend p (RMRej v).
Definition eH p (s a : N) := EHandle p (N.to_nat s) a.
Definition eD p (b : bool) := EDecide p b.
Definition eEn p r (s : N) := EEnable p r (N.to_nat s).
Definition eDi p r c := EDiscard p r c.
Definition t2 (s ka sa kb sb : N) : rtx := Some (N.to_nat s, [Some (tk ka sa); Some (tk kb sb)]).
Definition t1 (s : N) (l : list (option tokref)) : rtx := Some (N.to_nat s, l).
Definition sn (ph : N) (stg cur : rtx) : rsnap := (ph, stg, cur).
Definition rs (p : pid) (s : N) (r : result) : pid * nat * result := (p, N.to_nat s, r).
Definition oS := RSuccess.  Definition oR := RRejected.  Definition oE := RError.
Record kcase := mkK { k_ch : N; k_init : rtx; k_evs : list ev; k_finA : rsnap; k_finB : rsnap;
                      k_res : list (pid * nat * result) }.
Definition unk (chs : list chdesc) (k : kcase) : ccase :=
  mkCCase (chP chs (k_ch k)) (k_init k) (k_evs k) (k_finA k) (k_finB k) (k_res k).
Definition mismatches (chs : list chdesc) (csts : list cst) (base : nat) (ks : list kcase) : list nat :=
  mismatches_from (map (expand chs) csts) base (map (unk chs) ks).
Definition where_bad_k (chs : list chdesc) (csts : list cst) (k : kcase) : option nat :=
  where_bad (map (expand chs) csts) (unk chs k).
