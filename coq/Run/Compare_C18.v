(* Correspondence for C18: sequential histories of the real wire.Relay vs. Model/Relay.v.
   A case is one history: every action with what the harness observed (who was handed the envelope,
   result of Subscribe/Close, ...) and the relay's subscription and cache counts after the action
   (read through wire/verif_export.go), plus the number of deliveries nobody was owed. *)
From Coq Require Import List Bool PeanoNat.
From V Require Export Model.Relay.
Export ListNotations.

(* short names: the case files are parsed at ~80 us per byte *)
Definition ts := tagset.
Definition P (tag uid : nat) := APut (tag, uid).
Definition S := ASubscribe.
Definition C := ACache.
Definition R := ARelease.
Definition X := ACloseConsumer.
Definition D := ADelete.
Definition V := ADeliver.
Definition F := ACloseFlag.
Definition G := ACloseClear.

Inductive ccase := H (ops : list (action * obs * nat * nat)) (extra : nat).

Definition list_eqb (a b : list nat) : bool :=
  Nat.eqb (length a) (length b) && forallb (fun xy => Nat.eqb (fst xy) (snd xy)) (combine a b).

Definition count_nat (x : nat) (l : list nat) : nat := length (filter (Nat.eqb x) l).
Definition perm_eqb (a b : list nat) : bool :=
  Nat.eqb (length a) (length b) && forallb (fun x => Nat.eqb (count_nat x a) (count_nat x b)) a.

Definition obs_eqb (a b : obs) : bool :=
  match a, b with
  (* the consumers one Put reaches are compared as a multiset: the property says who gets the envelope
     (exactly once each), not in which order the relay walks its subscriptions *)
  | OP t1 n1, OP t2 n2 => perm_eqb t1 t2 && Nat.eqb n1 n2
  | OSok, OSok | OSrc, OSrc | OScc, OScc | OPanic, OPanic | OU, OU | OD, OD => true
  | OX b1, OX b2 => Bool.eqb b1 b2
  | OV t1 u1, OV t2 u2 => Nat.eqb t1 t2 && Nat.eqb u1 u2
  | OFok, OFok | OFalready, OFalready => true
  | OG n1, OG n2 => Nat.eqb n1 n2
  (* refusals of Subscribe are told apart (relay closed / consumer closed) by message text only, and the
     count in Close's error is read from its text: an observation the harness could not read (OSother)
     agrees with every refusal, resp. with every non-zero count *)
  | OSrc, OScc | OScc, OSrc | OSrc, OSother | OScc, OSother | OSother, OSrc | OSother, OScc => true
  | OG (Datatypes.S _), OSother | OSother, OG (Datatypes.S _) => true
  | _, _ => false    (* ODis / OSother are never matched: a disabled action was not observable *)
  end.

Fixpoint replay (s : state) (ops : list (action * obs * nat * nat)) : option state :=
  match ops with
  | [] => Some s
  | (a, o, ns, nc) :: r =>
      let (s', o') := step s a in
      if obs_eqb o' o && Nat.eqb (length (subs s')) ns && Nat.eqb (length (cache s')) nc
      then replay s' r else None
  end.

Definition good (c : ccase) : bool :=
  match c with
  | H ops extra =>
      match replay init ops with
      | Some s => Nat.eqb extra 0 && match inflight s with [] => true | _ => false end
      | None => false
      end
  end.

Fixpoint mismatches_from {A} (good : A -> bool) (i : nat) (cs : list A) : list nat :=
  match cs with
  | [] => []
  | c :: r => if good c then mismatches_from good (Datatypes.S i) r else i :: mismatches_from good (Datatypes.S i) r
  end.
Definition mismatches (base : nat) (cs : list ccase) : list nat := mismatches_from good base cs.
