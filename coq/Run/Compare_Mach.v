(* Correspondence for the channel state machine (C01, C02, C09): the real StateMachine's outcome and
   snapshot after every operation vs. Model.Machine.step. *)
From V Require Export Model.Machine.
Open Scope N_scope.

Definition zbe (s : string) : Z := Z.of_N (dec_be (unhex s)).
Definition znegbe (s : string) : Z := (- Z.of_N (dec_be (unhex s)))%Z.

Inductive tokref := TSig (signer : N) (st : nat) | TJunk (n : N).
Inductive rop :=
| ROInit (a : alloc) (d : bytes)
| ROUpdate (s : nat) (actor : N)
| ROForceUpdate (s : nat) (actor : N)
| ROCheckUpdate (s : nat) (actor : N) (sg : tokref) (i : N)
| ROSig
| ROAddSig (i : N) (sg : tokref)
| ROEnableInit | ROEnableUpdate | ROEnableFinal | RODiscard
| ROSetFunded | ROSetRegistering | ROSetRegistered
| ROSetProgressing (s : nat) | ROSetProgressed (s : nat)
| ROSetWithdrawing | ROSetWithdrawn.
Inductive rout := ROK | ROKSig (t : tokref) | RERR | RPANIC.
Definition rtx := option (nat * list (option tokref)).
Definition rsnap : Type := N * rtx * rtx.
Record mcase := mkCase { c_me : N; c_init : rsnap; c_ops : list rop; c_obs : list (rout * rsnap) }.

Definition dummy_state : state := mkState [] 0 (mkAlloc [] [] [] []) None [] false.

Section WithTable.
  Variable P : mparams.
  Variable sts : list state.
  Definition st (i : nat) : state := nth i sts dummy_state.
  Definition tok (t : tokref) : sigtok :=
    match t with TSig k i => SigOf k (enc_state (st i)) | TJunk n => Junk n end.
  Definition conv_op (o : rop) : op :=
    match o with
    | ROInit a d => OInit a d
    | ROUpdate s a => OUpdate (st s) a
    | ROForceUpdate s a => OForceUpdate (st s) a
    | ROCheckUpdate s a g i => OCheckUpdate (st s) a (tok g) i
    | ROSig => OSig
    | ROAddSig i g => OAddSig i (tok g)
    | ROEnableInit => OEnableInit | ROEnableUpdate => OEnableUpdate | ROEnableFinal => OEnableFinal
    | RODiscard => ODiscard | ROSetFunded => OSetFunded | ROSetRegistering => OSetRegistering
    | ROSetRegistered => OSetRegistered
    | ROSetProgressing s => OSetProgressing (st s) | ROSetProgressed s => OSetProgressed (st s)
    | ROSetWithdrawing => OSetWithdrawing | ROSetWithdrawn => OSetWithdrawn
    end.
  Definition phase_of_N (n : N) : phase :=
    nth (N.to_nat n) all_phases Withdrawn.
  Definition conv_tx (t : rtx) : option tx :=
    option_map (fun p => mkTx (st (fst p)) (map (option_map tok) (snd p))) t.
  Definition conv_snap (me : N) (s : rsnap) : mach :=
    let '(p, sg, cu) := s in mkMach (phase_of_N p) me P (conv_tx sg) (conv_tx cu).

  Definition sigtok_eqb (a b : sigtok) : bool :=
    match a, b with
    | SigOf k m, SigOf k' m' => (k =? k') && bytes_eqb m m'
    | Junk _, Junk _ => true
    | _, _ => false
    end.
  Definition osig_eqb (a b : option sigtok) : bool :=
    match a, b with Some x, Some y => sigtok_eqb x y | None, None => true | _, _ => false end.
  Definition tx_eqb (a b : option tx) : bool :=
    match a, b with
    | Some x, Some y => state_equal (tx_st x) (tx_st y) && list_eqb osig_eqb (tx_sigs x) (tx_sigs y)
    | None, None => true
    | _, _ => false
    end.
  Definition mach_eqb (a b : mach) : bool :=
    phase_eqb (ph a) (ph b) && tx_eqb (staging a) (staging b) && tx_eqb (current a) (current b).
  Definition out_agrees (o : out) (r : rout) : bool :=
    match o, r with
    | OK, ROK => true | ERR, RERR => true | PANIC, RPANIC => true
    (* the model's PANIC marks calls outside the documented domain (index beyond the participants,
       forced update without a current state, an app that panics by design); code that refuses such
       a call with an error instead satisfies every property just as well (no success, and the
       snapshot comparison below still demands that nothing changed), so it is not a disagreement *)
    | PANIC, RERR => true
    | OKSig g, ROKSig t => sigtok_eqb g (tok t)
    | _, _ => false
    end.

  Fixpoint agree (m : mach) (ops : list rop) (obs : list (rout * rsnap)) : bool :=
    match ops, obs with
    | [], [] => true
    | o :: ops', (r, s) :: obs' =>
        let (m', x) := step m (conv_op o) in
        out_agrees x r && mach_eqb m' (conv_snap (me m) s) && agree m' ops' obs'
    | _, _ => false
    end.
  Definition good (c : mcase) : bool := agree (conv_snap (c_me c) (c_init c)) (c_ops c) (c_obs c).

  Fixpoint mismatches_from (i : nat) (cs : list mcase) : list nat :=
    match cs with
    | [] => []
    | c :: r => if good c then mismatches_from (S i) r else i :: mismatches_from (S i) r
    end.
End WithTable.
Definition mismatches (P : mparams) (sts : list state) (base : nat) (cs : list mcase) : list nat :=
  mismatches_from P sts base cs.
