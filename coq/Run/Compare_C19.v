(* Correspondence for C19: the pointer graphs of original and clone observed in the real code
   vs. the code-shaped Clone models of Model/Heap.v. *)
From Coq Require Import Arith PeanoNat.
From V Require Export Model.Heap.
Local Open Scope nat_scope.

Definition zbe (s : string) : Z := Z.of_N (dec_be (unhex s)).
Definition znegbe (s : string) : Z := (- Z.of_N (dec_be (unhex s)))%Z.
Definition zs (n : nat) : bytes := repeat Byte.x00 n.

Inductive kind :=
| KBalRow | KIndexMap | KBals | KAlloc | KState | KSigs | KTx | KAddr | KAddrs | KAddrMap | KParts
| KParams | KSM | KAM | KSource | KFromSource.

(* original, location counter after walking the original, observed clone (None: Clone panicked) *)
Inductive ccase := mkCase (k : kind) (orig : gv) (next : nat) (obs : option gv).

(* ---------------------------------------------------------------- canonical location numbers
   The renderer numbers locations in first-visit order, the original first. The model allocates in
   execution order. Renumber what the model allocated (everything >= keep) in first-visit order. *)
Fixpoint lookup (l : nat) (m : list (nat * nat)) : option nat :=
  match m with [] => None | (a, b) :: r => if a =? l then Some b else lookup l r end.
Definition cst := (list (nat * nat) * nat)%type.
Definition ren (keep l : nat) (st : cst) : nat * cst :=
  if l <? keep then (l, st)
  else match lookup l (fst st) with
       | Some k => (k, st)
       | None => (snd st, ((l, snd st) :: fst st, S (snd st)))
       end.
Fixpoint canon_go (keep : nat) (v : gv) (st : cst) : gv * cst :=
  match v with
  | GNil | GNum _ | GLit _ | GShared _ => (v, st)
  | GInt l z => let (k, s1) := ren keep l st in (GInt k z, s1)
  | GBytes l b => let (k, s1) := ren keep l st in (GBytes k b, s1)
  | GPtr l x => let (k, s1) := ren keep l st in let (x', s2) := canon_go keep x s1 in (GPtr k x', s2)
  | GSlice l xs => let (k, s1) := ren keep l st in let (xs', s2) := mapS (canon_go keep) xs s1 in (GSlice k xs', s2)
  | GMap l ks vs => let (k, s1) := ren keep l st in let (vs', s2) := mapS (canon_go keep) vs s1 in (GMap k ks vs', s2)
  | GStruct fs => let (fs', s2) := mapS (canon_go keep) fs st in (GStruct fs', s2)
  end.
Definition canon (keep : nat) (v : gv) : gv := fst (canon_go keep v ([], keep)).

(* ---------------------------------------------------------------- reading trees as typed values *)
Definition obind {A B} (o : option A) (k : A -> option B) : option B :=
  match o with Some a => k a | None => None end.
Notation "x <~ c ;; k" := (obind c (fun x => k)) (at level 61, c at next level, right associativity).

Fixpoint p_list {A} (p : gv -> option A) (xs : list gv) : option (list A) :=
  match xs with
  | [] => Some []
  | x :: r => a <~ p x ;; l <~ p_list p r ;; Some (a :: l)
  end.
Definition p_slice {A} (p : gv -> option A) (v : gv) : option (hslice A) :=
  match v with
  | GNil => Some None
  | GSlice l xs => ys <~ p_list p xs ;; Some (Some (l, ys))
  | _ => None
  end.
Definition p_num (v : gv) : option Z := match v with GNum z => Some z | _ => None end.
Definition p_shared (v : gv) : option (option nat) :=
  match v with GNil => Some None | GShared i => Some (Some i) | _ => None end.
Definition p_int (v : gv) : option bal :=
  match v with
  | GNil => Some None
  | GPtr p (GInt w z) => Some (Some (mkInt p w z))
  | _ => None
  end.
Definition p_bals := p_slice p_int.
Definition p_sub (v : gv) : option hsub :=
  match v with
  | GStruct [GLit id; b; im] => b' <~ p_bals b ;; im' <~ p_slice p_num im ;; Some (mkSub id b' im')
  | _ => None
  end.
Definition p_alloc (v : gv) : option halloc :=
  match v with
  | GStruct [bs; be; ass; lk] =>
      bs' <~ p_slice p_bals bs ;; be' <~ p_slice p_num be ;; ass' <~ p_slice p_shared ass ;;
      lk' <~ p_slice p_sub lk ;; Some (mkAlloc bs' be' ass' lk')
  | _ => None
  end.
Definition p_data (v : gv) : option hdata :=
  match v with
  | GNil => Some DNil
  | GPtr l (GStruct []) => Some (DNoData l)
  | GPtr l (GNum op) => Some (DMock l op)
  | _ => None
  end.
Definition p_state (v : gv) : option hstate :=
  match v with
  | GStruct [a; GLit id; GNum ver; app; d; GNum fin] =>
      a' <~ p_alloc a ;; app' <~ p_shared app ;; d' <~ p_data d ;; Some (mkState a' id ver app' d' fin)
  | _ => None
  end.
Definition p_stateptr (v : gv) : option hstateptr :=
  match v with
  | GNil => Some None
  | GPtr l s => s' <~ p_state s ;; Some (Some (l, s'))
  | _ => None
  end.
Definition p_sig (v : gv) : option hsig :=
  match v with GNil => Some None | GBytes l b => Some (Some (l, b)) | _ => None end.
Definition p_tx (v : gv) : option htx :=
  match v with
  | GStruct [s; g] => s' <~ p_stateptr s ;; g' <~ p_slice p_sig g ;; Some (mkTx s' g')
  | _ => None
  end.
Definition p_addr (v : gv) : option (option haddr) :=
  match v with
  | GNil => Some None
  | GPtr p (GStruct [c; x; y]) => c' <~ p_shared c ;; x' <~ p_int x ;; y' <~ p_int y ;; Some (Some (mkAddr p c' x' y'))
  | _ => None
  end.
Fixpoint zip_entries (ks : list Z) (vs : list (option haddr)) : option (list (Z * option haddr)) :=
  match ks, vs with
  | [], [] => Some []
  | k :: kr, v :: vr => r <~ zip_entries kr vr ;; Some ((k, v) :: r)
  | _, _ => None
  end.
Definition p_addrmap (v : gv) : option haddrmap :=
  match v with
  | GNil => Some None
  | GMap l ks vs => vs' <~ p_list p_addr vs ;; es <~ zip_entries ks vs' ;; Some (Some (l, es))
  | _ => None
  end.
Definition p_params (v : gv) : option hparams :=
  match v with
  | GStruct [GLit id; GNum cd; parts; app; nonce; GNum ledger; GNum virt; GLit aux] =>
      parts' <~ p_slice p_addrmap parts ;; app' <~ p_shared app ;; nonce' <~ p_int nonce ;;
      Some (mkParams id cd parts' app' nonce' ledger virt aux)
  | _ => None
  end.
Definition p_paramsptr (v : gv) : option (option (nat * hparams)) :=
  match v with
  | GNil => Some None
  | GPtr l p => p' <~ p_params p ;; Some (Some (l, p'))
  | _ => None
  end.
Definition p_machine (v : gv) : option hmachine :=
  match v with
  | GStruct [GStruct [lg]; GNum ph; acc; GNum idx; ps; stg; cur; prev] =>
      lg' <~ p_shared lg ;; acc' <~ p_shared acc ;; ps' <~ p_params ps ;; stg' <~ p_tx stg ;; cur' <~ p_tx cur ;;
      prev' <~ p_slice p_tx prev ;; Some (mkMach lg' ph acc' idx ps' stg' cur' prev')
  | _ => None
  end.
Definition p_sm (v : gv) : option hsm :=
  match v with
  | GPtr p (GStruct [GPtr mp m; app]) => m' <~ p_machine m ;; app' <~ p_shared app ;; Some (mkSM p mp m' app')
  | _ => None
  end.
Definition p_am (v : gv) : option ham :=
  match v with
  | GPtr p (GStruct [GPtr mp m; app; acts]) =>
      m' <~ p_machine m ;; app' <~ p_shared app ;; acts' <~ p_slice p_data acts ;; Some (mkAM p mp m' app' acts')
  | _ => None
  end.
Definition p_source (v : gv) : option hsource :=
  match v with
  | GStruct [GNum idx; pp; stg; cur; GNum ph] =>
      pp' <~ p_paramsptr pp ;; stg' <~ p_tx stg ;; cur' <~ p_tx cur ;; Some (mkSource idx pp' stg' cur' ph)
  | _ => None
  end.

(* ---------------------------------------------------------------- the model's prediction
   outer None: the observed original is not a value of the type (renderer or parser defect);
   inner None: the model says Clone panics *)
Definition predict {A B} (p : gv -> option A) (tg : A -> gv) (c : A -> M B) (tgB : B -> gv)
  (orig : gv) (next : nat) : option (option gv) :=
  match p orig with
  | None => None
  | Some a =>
      if gv_eqb (tg a) orig
      then Some (match c a next with None => None | Some (b, _) => Some (canon next (tgB b)) end)
      else None
  end.

Definition expected (k : kind) (orig : gv) (next : nat) : option (option gv) :=
  match k with
  | KBalRow => predict p_bals bals_gv clone_bals bals_gv orig next
  | KIndexMap => predict (p_slice p_num) imap_gv clone_index_map imap_gv orig next
  | KBals => predict (p_slice p_bals) balances_gv clone_balances balances_gv orig next
  | KAlloc => predict p_alloc alloc_gv clone_alloc alloc_gv orig next
  | KState => predict p_stateptr stateptr_gv clone_stateptr stateptr_gv orig next
  | KSigs => predict (p_slice p_sig) sigs_gv clone_sigs sigs_gv orig next
  | KTx => predict p_tx tx_gv clone_tx tx_gv orig next
  | KAddr => predict p_addr addr_gv clone_addr addr_gv orig next
  | KAddrs => predict (p_slice p_addr) (slice_gv addr_gv) clone_addrs (slice_gv addr_gv) orig next
  | KAddrMap => predict p_addrmap addrmap_gv clone_addrmap addrmap_gv orig next
  | KParts => predict (p_slice p_addrmap) parts_gv clone_parts parts_gv orig next
  | KParams =>
      predict (fun v => match p_paramsptr v with Some (Some q) => Some q | _ => None end)
              (fun q => paramsptr_gv (Some q)) (fun q => clone_params (snd q)) (fun q => paramsptr_gv (Some q)) orig next
  | KSM => predict p_sm sm_gv clone_sm sm_gv orig next
  | KAM => predict p_am am_gv clone_am am_gv orig next
  | KSource => predict p_source source_gv clone_source (fun r => GPtr (fst r) (source_gv (snd r))) orig next
  | KFromSource =>
      match orig with
      | GStruct [sv; peers; parent] =>
          predict (fun _ => p_source sv) (fun s => GStruct [source_gv s; peers; parent])
                  (fun s => from_source s peers parent) channel_gv orig next
      | _ => None
      end
  end.

(* the part of original / clone that must be a deep copy by the generic criterion *)
Definition deep_part (k : kind) (orig cl : gv) : option (gv * gv) :=
  match k, orig, cl with
  | KSource, _, GPtr _ inner => Some (orig, inner)
  | KSource, _, _ => None
  | KFromSource, GStruct [sv; _; _], GPtr _ (GStruct [inner; _; _]) => Some (sv, inner)
  | KFromSource, _, _ => None
  | _, _, _ => Some (orig, cl)
  end.

Definition good (c : ccase) : bool :=
  match c with
  | mkCase k orig next obs =>
      match expected k orig next, obs with
      | Some None, None => true
      | Some (Some e), Some o =>
          gv_eqb e o &&
          match deep_part k orig o with
          | Some (a, b) => deepb a b next
          | None => false
          end
      | _, _ => false
      end
  end.

Fixpoint mismatches_from {A} (good : A -> bool) (i : nat) (cs : list A) : list nat :=
  match cs with
  | [] => []
  | c :: r => if good c then mismatches_from good (S i) r else i :: mismatches_from good (S i) r
  end.
Definition mismatches (base : nat) (cs : list ccase) : list nat := mismatches_from good base cs.
