#!/bin/sh
# usage: seedconfirm.sh <worktree> <outdir/k> <pkgdir> <run-regexp>
# confirms: change applies, builds, existing tests pass, demo fails with change and passes without
export GOFLAGS=-mod=mod GOPROXY=off GOSUMDB=off GOTOOLCHAIN=local
wt=$1; d=$2; pkg=$3; re=$4
cd $wt || exit 1
git checkout -q -- . && git clean -fdq
git apply $d/patch.diff || { echo "APPLY FAILED"; exit 1; }
go build ./... || { echo "BUILD FAILED"; exit 1; }
echo "--- suite with change:"
go test -vet=off -count=1 ./channel/... ./client/... ./wire/perunio/... ./wire/protobuf/... ./wallet/... ./apps/... ./backend/... ./watcher/... 2>&1 | grep -v "^ok\|no test files" | head -8
go test -vet=off -count=1 ./wire/ 2>&1 | grep -v "^ok\|no test files" | head -4
cp $d/demo_test.go $pkg/zz_seed_demo_test.go
echo "--- demo with change (expect FAIL):"
go test -vet=off -count=1 -run "$re" ./$pkg/ 2>&1 | tail -2
git checkout -q -- . ; git clean -fdq
cp $d/demo_test.go $pkg/zz_seed_demo_test.go
echo "--- demo pristine (expect ok):"
go test -vet=off -count=1 -run "$re" ./$pkg/ 2>&1 | tail -2
git clean -fdq
