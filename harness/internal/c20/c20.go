// Package c20: multi-ledger calls reach exactly the ledgers whose assets are in the channel
// (property C20; code under test: /repo/channel/multi).
//
// The real multi.Adjudicator / multi.Funder are driven with scripted per-ledger adjudicators and
// funders that log the begin and the end of every sub-call and succeed or fail as scripted.
// In controlled cases every sub-call blocks until the driver releases it, so the driver chooses the
// completion order of the concurrent sub-calls; in free cases nothing blocks and the Go scheduler
// decides.  Inputs and canonicalised observations go to cases_*.v (model: coq/Run/Compare_C20.v);
// an oracle written from the property text checks every run.
package c20

import (
	"context"
	"errors"
	"fmt"
	"math"
	"math/rand"
	"runtime"
	"sort"
	"strings"
	"sync"
	"time"

	"perun.network/go-perun/channel"
	"perun.network/go-perun/channel/multi"
	"perun.network/go-perun/wallet"
	"verif/harness/internal/hx"
)

// ---------- concrete ledger ids and assets ----------

type keyT struct {
	B uint32
	L string
}

func (k keyT) coq() string { return fmt.Sprintf(`(K %d "%s")`, k.B, k.L) }

type lid string

func (l lid) MapKey() multi.LedgerIDMapKey { return multi.LedgerIDMapKey(l) }

// two implementations of multi.LedgerBackendID (a value and a pointer type): the code under test
// must identify ledgers by (BackendID, LedgerID.MapKey) only.
type lbidVal struct {
	b uint32
	l lid
}

func (x lbidVal) BackendID() uint32        { return x.b }
func (x lbidVal) LedgerID() multi.LedgerID { return x.l }

type lbidPtr struct {
	b    uint32
	l    string
	salt int
}

func (x *lbidPtr) BackendID() uint32        { return x.b }
func (x *lbidPtr) LedgerID() multi.LedgerID { return lid(x.l) }

func mkLBID(r *rand.Rand, k keyT) multi.LedgerBackendID {
	if r.Intn(2) == 0 {
		return lbidVal{k.B, lid(k.L)}
	}
	return &lbidPtr{k.B, k.L, r.Int()}
}

type baseAsset struct{ addr []byte }

func (a *baseAsset) MarshalBinary() ([]byte, error) { return a.addr, nil }
func (a *baseAsset) UnmarshalBinary(b []byte) error { a.addr = b; return nil }
func (a *baseAsset) Address() []byte                { return a.addr }

// mAsset is a multi-ledger asset.
type mAsset struct {
	baseAsset
	id multi.LedgerBackendID
}

func (a *mAsset) Equal(b channel.Asset) bool             { return a == b }
func (a *mAsset) LedgerBackendID() multi.LedgerBackendID { return a.id }

// pAsset is an asset that does not implement multi.Asset.
type pAsset struct{ baseAsset }

func (a *pAsset) Equal(b channel.Asset) bool { return a == b }

var (
	_ multi.Asset   = (*mAsset)(nil)
	_ channel.Asset = (*pAsset)(nil)
)

// ---------- abstract cases ----------

type akind int

const (
	aMulti akind = iota
	aPlain       // not a multi.Asset
	aNil         // nil interface value in the asset list
	aNilID       // multi.Asset whose LedgerBackendID() is nil
)

type aspec struct {
	Kind akind `json:"kind"`
	Key  keyT  `json:"key"`
}

func (a aspec) coq() string {
	switch a.Kind {
	case aMulti:
		return fmt.Sprintf(`A_ %d "%s"`, a.Key.B, a.Key.L)
	case aNilID:
		return "ANilId"
	default:
		return "APlain"
	}
}

type regop struct {
	Key keyT `json:"key"`
	Hid int  `json:"hid"`
}

type spec struct {
	Class   string  `json:"class"`
	Method  string  `json:"method"` // register | progress | withdraw | fund
	Ctl     bool    `json:"controlled"`
	Ops     []regop `json:"registrations"`
	Assets  []aspec `json:"assets"`
	Fails   []int   `json:"failing_handlers"`
	Ego     *int    `json:"egoistic_index"`
	TooLong bool    `json:"duration_too_long"`
	Dur     uint64  `json:"challenge_duration"`
	Order   []keyT  `json:"release_order"` // filled in by exec for controlled cases
	permSrc int64
}

// ---------- event log and scripted handlers ----------

type logEntry struct {
	Kind   string `json:"kind"` // start | end | ret
	Method string `json:"method,omitempty"`
	Hid    int    `json:"hid,omitempty"`
	Ok     bool   `json:"ok,omitempty"`
	ArgsOK bool   `json:"args_ok,omitempty"`
}

type rtx struct {
	mu  sync.Mutex
	log []logEntry
	// the request as handed to the multi-ledger object
	ctxKey    *int
	params    *channel.Params
	state     *channel.State
	newState  *channel.State
	subStates []channel.SignedState
	stateMap  channel.StateMap
	agreement channel.Balances
	idx       channel.Index
}

func (rt *rtx) add(e logEntry) {
	rt.mu.Lock()
	rt.log = append(rt.log, e)
	rt.mu.Unlock()
}

type ctxKeyT struct{}

type scriptErr struct{ hid int }

func (e *scriptErr) Error() string { return fmt.Sprintf("scripted failure of handler %d", e.hid) }

type handler struct {
	id       int
	key      keyT
	fail     bool
	rt       *rtx
	release  chan struct{}
	released bool
	started  chan struct{}
	ended    chan struct{}
}

func newHandler(rt *rtx, id int, key keyT, fail bool) *handler {
	return &handler{id: id, key: key, fail: fail, rt: rt, release: make(chan struct{}),
		started: make(chan struct{}, 64), ended: make(chan struct{}, 64)}
}

func (h *handler) open() {
	if !h.released {
		h.released = true
		close(h.release)
	}
}

func (h *handler) call(ctx context.Context, method string, argsOK bool) error {
	argsOK = argsOK && ctx.Value(ctxKeyT{}) == h.rt.ctxKey
	h.rt.add(logEntry{Kind: "start", Method: method, Hid: h.id, ArgsOK: argsOK})
	select {
	case h.started <- struct{}{}:
	default:
	}
	<-h.release
	h.rt.add(logEntry{Kind: "end", Method: method, Hid: h.id, Ok: !h.fail})
	select {
	case h.ended <- struct{}{}:
	default:
	}
	if h.fail {
		return &scriptErr{h.id}
	}
	return nil
}

func (h *handler) reqOK(req channel.AdjudicatorReq) bool {
	return req.Params == h.rt.params && req.Tx.State == h.rt.state && req.Idx == h.rt.idx
}

func (h *handler) Register(ctx context.Context, req channel.AdjudicatorReq, sub []channel.SignedState) error {
	ok := h.reqOK(req) && len(sub) == len(h.rt.subStates) && (len(sub) == 0 || &sub[0] == &h.rt.subStates[0])
	return h.call(ctx, "register", ok)
}

func (h *handler) Progress(ctx context.Context, req channel.ProgressReq) error {
	return h.call(ctx, "progress", h.reqOK(req.AdjudicatorReq) && req.NewState == h.rt.newState)
}

func (h *handler) Withdraw(ctx context.Context, req channel.AdjudicatorReq, sm channel.StateMap) error {
	ok := h.reqOK(req) && len(sm) == len(h.rt.stateMap)
	for id, s := range h.rt.stateMap {
		ok = ok && sm[id] == s
	}
	return h.call(ctx, "withdraw", ok)
}

func (h *handler) Subscribe(context.Context, channel.ID) (channel.AdjudicatorSubscription, error) {
	return nil, errors.New("not used")
}

func (h *handler) Fund(ctx context.Context, req channel.FundingReq) error {
	ok := req.Params == h.rt.params && req.State == h.rt.state && req.Idx == h.rt.idx &&
		len(req.Agreement) == len(h.rt.agreement)
	return h.call(ctx, "fund", ok)
}

var (
	_ channel.Adjudicator = (*handler)(nil)
	_ channel.Funder      = (*handler)(nil)
)

// ---------- running one case against the real code ----------

type observation struct {
	Log      []logEntry `json:"log"`
	Outcome  string     `json:"outcome"` // ok | asset | duration | notfound | call:<hid> | panic | unknown:<msg> | hang
	Returned bool       `json:"returned"`
	Timeouts int        `json:"timeouts"`
}

type driver struct {
	timeouts int
}

func (d *driver) patience() time.Duration {
	if d.timeouts >= 5 {
		return 3 * time.Millisecond
	}
	return time.Second
}

// wait receives from ch or gives up after the driver's patience.
func (d *driver) wait(ch <-chan struct{}) bool {
	select {
	case <-ch:
		return true
	default:
	}
	t := time.NewTimer(d.patience())
	defer t.Stop()
	select {
	case <-ch:
		return true
	case <-t.C:
		d.timeouts++
		return false
	}
}

// expectation is what the property text says about a case (computed from the inputs only).
type expectation struct {
	distinct   []keyT       // distinct ledgers among the assets, first-occurrence order
	assetErr   bool         // some asset is not a multi-ledger asset
	nilID      bool         // some asset has no ledger id at all (nil): a panic is expected
	regOf      map[keyT]int // ledger -> currently registered handler
	unregs     []keyT       // distinct ledgers without registered handler
	egoKey     *keyT        // the selected ledger of an egoistic funder
	phase1     []keyT       // registered distinct ledgers other than the selected one
	phase1OK   bool         // every ledger other than the selected one is registered and scripted to succeed
	allOK      bool         // every distinct ledger is registered and scripted to succeed
	earlyError bool         // the call is expected to fail before any scripted sub-call returns
}

func expect(s *spec) expectation {
	var e expectation
	seen := map[keyT]bool{}
	for _, a := range s.Assets {
		switch a.Kind {
		case aMulti:
			if !seen[a.Key] {
				seen[a.Key] = true
				e.distinct = append(e.distinct, a.Key)
			}
		case aNilID:
			e.nilID = true
		default:
			e.assetErr = true
		}
	}
	e.regOf = map[keyT]int{}
	for _, op := range s.Ops {
		e.regOf[op.Key] = op.Hid
	}
	fails := map[int]bool{}
	for _, h := range s.Fails {
		fails[h] = true
	}
	if s.Method == "fund" && s.Ego != nil && *s.Ego >= 0 && *s.Ego < len(e.distinct) {
		k := e.distinct[*s.Ego]
		e.egoKey = &k
	}
	e.phase1OK, e.allOK = true, true
	for _, k := range e.distinct {
		h, reg := e.regOf[k]
		ok := reg && !fails[h]
		if !reg {
			e.unregs = append(e.unregs, k)
		}
		e.allOK = e.allOK && ok
		if e.egoKey != nil && k == *e.egoKey {
			continue
		}
		e.phase1OK = e.phase1OK && ok
		if reg {
			e.phase1 = append(e.phase1, k)
		}
	}
	phase1Unreg := false
	for _, k := range e.unregs {
		if e.egoKey == nil || k != *e.egoKey {
			phase1Unreg = true
		}
	}
	e.earlyError = e.assetErr || e.nilID || (s.Method == "fund" && s.TooLong) || phase1Unreg
	return e
}

func classify(err error, panicked bool) string {
	var se *scriptErr
	switch {
	case panicked:
		return "panic"
	case err == nil:
		return "ok"
	case errors.As(err, &se):
		return fmt.Sprintf("call:%d", se.hid)
	case strings.HasPrefix(err.Error(), "adjudicator not found"), strings.HasPrefix(err.Error(), "funder map not found"):
		return "notfound"
	case strings.HasPrefix(err.Error(), "wrong asset type"):
		return "asset"
	case strings.HasPrefix(err.Error(), "challenge duration"):
		return "duration"
	}
	return "unknown:" + err.Error()
}

func (d *driver) exec(r *rand.Rand, s *spec, e expectation) observation {
	rt := &rtx{ctxKey: new(int)}
	fails := map[int]bool{}
	for _, h := range s.Fails {
		fails[h] = true
	}
	handlers := map[int]*handler{}
	adj := multi.NewAdjudicator()
	fnd := multi.NewFunder()
	for _, op := range s.Ops {
		h := newHandler(rt, op.Hid, op.Key, fails[op.Hid])
		handlers[op.Hid] = h
		if s.Method == "fund" {
			fnd.RegisterFunder(mkLBID(r, op.Key), h)
		} else {
			adj.RegisterAdjudicator(mkLBID(r, op.Key), h)
		}
	}
	if s.Ego != nil {
		fnd.SetEgoisticPart(*s.Ego)
	}
	// the request
	assets := make([]channel.Asset, len(s.Assets))
	for i, a := range s.Assets {
		addr := make([]byte, 1+r.Intn(20))
		r.Read(addr)
		switch a.Kind {
		case aMulti:
			assets[i] = &mAsset{baseAsset{addr}, mkLBID(r, a.Key)}
		case aPlain:
			assets[i] = &pAsset{baseAsset{addr}}
		case aNil:
			assets[i] = nil
		case aNilID:
			assets[i] = &mAsset{baseAsset{addr}, nil}
		}
	}
	rt.params = &channel.Params{ChallengeDuration: s.Dur}
	rt.state = &channel.State{Allocation: channel.Allocation{Assets: assets}}
	rt.newState = &channel.State{}
	rt.idx = channel.Index(r.Intn(2))
	rt.subStates = make([]channel.SignedState, r.Intn(3))
	rt.stateMap = channel.StateMap{}
	for i := r.Intn(3); i > 0; i-- {
		var id channel.ID
		r.Read(id[:])
		rt.stateMap[id] = &channel.State{}
	}
	rt.agreement = make(channel.Balances, r.Intn(3))
	areq := channel.AdjudicatorReq{Params: rt.params, Acc: map[wallet.BackendID]wallet.Account{}, Tx: channel.Transaction{State: rt.state}, Idx: rt.idx}
	ctx := context.WithValue(context.Background(), ctxKeyT{}, rt.ctxKey)

	// which sub-calls the driver steers
	var phase1 []*handler
	var ego *handler
	if s.Ctl {
		for _, k := range e.phase1 {
			phase1 = append(phase1, handlers[e.regOf[k]])
		}
		if e.egoKey != nil && e.phase1OK {
			if h, ok := e.regOf[*e.egoKey]; ok {
				ego = handlers[h]
			}
		}
		if e.assetErr || e.nilID || (s.Method == "fund" && s.TooLong) {
			phase1, ego = nil, nil
		}
		pr := rand.New(rand.NewSource(s.permSrc))
		pr.Shuffle(len(phase1), func(i, j int) { phase1[i], phase1[j] = phase1[j], phase1[i] })
	}
	steered := map[int]bool{}
	s.Order = nil
	for _, h := range phase1 {
		steered[h.id] = true
		s.Order = append(s.Order, h.key)
	}
	if ego != nil {
		steered[ego.id] = true
		s.Order = append(s.Order, ego.key)
	}
	for _, h := range handlers {
		if !steered[h.id] {
			h.open() // a call on this handler, expected or not, returns at once
		}
	}

	base := runtime.NumGoroutine()
	done := make(chan struct{})
	var err error
	panicked := false
	go func() {
		defer func() {
			if p := recover(); p != nil {
				panicked = true
			}
			out := classify(err, panicked)
			if i := strings.IndexByte(out, ':'); i >= 0 && strings.HasPrefix(out, "unknown") {
				out = out[:i]
			}
			rt.add(logEntry{Kind: "ret", Method: out})
			close(done)
		}()
		switch s.Method {
		case "register":
			err = adj.Register(ctx, areq, rt.subStates)
		case "progress":
			err = adj.Progress(ctx, channel.ProgressReq{AdjudicatorReq: areq, NewState: rt.newState})
		case "withdraw":
			err = adj.Withdraw(ctx, areq, rt.stateMap)
		case "fund":
			err = fnd.Fund(ctx, channel.FundingReq{Params: rt.params, State: rt.state, Idx: rt.idx, Agreement: rt.agreement})
		}
	}()

	t0 := d.timeouts
	returned := false
	waitDone := func() {
		if !returned {
			returned = d.wait(done)
		}
	}
	if s.Ctl {
		if e.earlyError {
			waitDone()
		}
		for _, h := range phase1 {
			d.wait(h.started)
		}
		for _, h := range phase1 {
			h.open()
			d.wait(h.ended)
			if h.fail {
				waitDone()
			}
		}
		if ego != nil {
			d.wait(ego.started)
			ego.open()
			d.wait(ego.ended)
		}
	}
	waitDone()
	for _, h := range handlers {
		h.open()
	}
	// quiescence: every goroutine started by the call has finished
	deadline := time.Now().Add(d.patience())
	for runtime.NumGoroutine() > base {
		if time.Now().After(deadline) {
			d.timeouts++
			break
		}
		runtime.Gosched()
	}
	rt.mu.Lock()
	log := append([]logEntry(nil), rt.log...)
	rt.mu.Unlock()
	out := "hang"
	if returned {
		out = classify(err, panicked)
	}
	return observation{Log: log, Outcome: out, Returned: returned, Timeouts: d.timeouts - t0}
}

// ---------- oracle (from the property text) ----------

func site(method string) string {
	switch method {
	case "register":
		return "multi.Adjudicator.Register"
	case "progress":
		return "multi.Adjudicator.Progress"
	case "withdraw":
		return "multi.Adjudicator.Withdraw"
	}
	return "multi.Funder.Fund"
}

// oracle returns the violations of the property text on one observed run.
func oracle(s *spec, e expectation, o observation) []string {
	var bad []string
	if !o.Returned {
		return []string{"the call did not return although every sub-call was allowed to return"}
	}
	current := map[int]keyT{} // handlers that are the registered handler of their ledger
	for k, h := range e.regOf {
		current[h] = k
	}
	inAssets := map[keyT]bool{}
	for _, k := range e.distinct {
		inAssets[k] = true
	}
	fails := map[int]bool{}
	for _, h := range s.Fails {
		fails[h] = true
	}
	starts, ends := map[keyT]int{}, map[keyT]int{}
	firstStart, lastOKEnd := map[keyT]int{}, map[keyT]int{}
	for i, ev := range o.Log {
		if ev.Kind == "ret" {
			continue
		}
		k, cur := current[ev.Hid]
		if !cur {
			bad = append(bad, fmt.Sprintf("handler %d was called although another handler is registered for its ledger", ev.Hid))
			continue
		}
		if !inAssets[k] {
			bad = append(bad, fmt.Sprintf("ledger %v was called although none of the channel's assets is on it", k))
			continue
		}
		if ev.Method != s.Method {
			bad = append(bad, fmt.Sprintf("a %s request was forwarded as %s to ledger %v", s.Method, ev.Method, k))
		}
		if ev.Kind == "start" {
			if !ev.ArgsOK {
				bad = append(bad, fmt.Sprintf("the request forwarded to ledger %v is not the request that was made", k))
			}
			if starts[k] == 0 {
				firstStart[k] = i
			}
			starts[k]++
		} else {
			ends[k]++
			if ev.Ok {
				lastOKEnd[k] = i
			}
		}
	}
	for k, n := range starts {
		if n > 1 {
			bad = append(bad, fmt.Sprintf("ledger %v was called %d times", k, n))
		}
	}
	if e.assetErr || e.nilID || (s.Method == "fund" && s.TooLong) {
		return bad // the text says nothing more about requests that are not for a multi-ledger channel
	}
	for _, k := range e.distinct {
		if _, reg := e.regOf[k]; !reg {
			continue
		}
		if e.egoKey != nil && k == *e.egoKey {
			switch {
			case e.phase1OK && starts[k] != 1:
				bad = append(bad, fmt.Sprintf("the selected ledger %v was funded %d times although funding on all other ledgers succeeded", k, starts[k]))
			case !e.phase1OK && starts[k] != 0:
				bad = append(bad, fmt.Sprintf("the selected ledger %v was funded although funding on another ledger did not succeed", k))
			}
			if starts[k] > 0 {
				for _, k2 := range e.distinct {
					if k2 == k {
						continue
					}
					if i, ok := lastOKEnd[k2]; !ok || i > firstStart[k] {
						bad = append(bad, fmt.Sprintf("the selected ledger %v was funded before funding on ledger %v had succeeded", k, k2))
					}
				}
			}
			continue
		}
		if starts[k] != 1 || ends[k] != 1 {
			bad = append(bad, fmt.Sprintf("ledger %v (registered, among the assets) received %d calls, %d returned", k, starts[k], ends[k]))
		}
	}
	if o.Outcome == "ok" {
		if len(e.unregs) > 0 {
			bad = append(bad, fmt.Sprintf("the call succeeded although ledger %v has no registered handler", e.unregs[0]))
		}
		for _, ev := range o.Log {
			if ev.Kind == "end" && !ev.Ok {
				bad = append(bad, fmt.Sprintf("the call succeeded although the forwarded call on handler %d failed", ev.Hid))
			}
		}
		if !e.allOK && len(bad) == 0 {
			bad = append(bad, "the call succeeded although not every ledger succeeded")
		}
	}
	if o.Outcome == "panic" {
		bad = append(bad, "the call panicked")
	}
	return bad
}

// ---------- rendering ----------

func methodCoq(m string) string {
	switch m {
	case "register":
		return "mR"
	case "progress":
		return "mP"
	case "withdraw":
		return "mW"
	}
	return "mF"
}

func outcomeCoq(o string, ctl bool) string {
	switch {
	case o == "ok":
		return "OOk"
	case o == "asset":
		return "OErrAsset"
	case o == "duration":
		return "OErrDuration"
	case o == "panic":
		return "OPanic"
	case o == "notfound":
		if !ctl {
			return "(OC 0)" // free runs: which error wins the race is not compared
		}
		return "ONF"
	case strings.HasPrefix(o, "call:"):
		if !ctl {
			return "(OC 0)"
		}
		return "(OC " + o[5:] + ")"
	}
	return "OUnknown"
}

// canonical order of log entries that the driver cannot order: begins by handler id, the return last
func entryLess(a, b logEntry) bool {
	rank := func(e logEntry) int {
		switch e.Kind {
		case "start":
			return 0
		case "end":
			return 1
		}
		return 2
	}
	if rank(a) != rank(b) {
		return rank(a) < rank(b)
	}
	if a.Hid != b.Hid {
		return a.Hid < b.Hid
	}
	return a.Method < b.Method
}

func canonLog(log []logEntry, ctl bool) []logEntry {
	out := append([]logEntry(nil), log...)
	if !ctl {
		sort.SliceStable(out, func(i, j int) bool { return entryLess(out[i], out[j]) })
		return out
	}
	i := 0
	for i <= len(out) {
		j := i
		for j < len(out) && out[j].Kind != "end" {
			j++
		}
		blk := out[i:j]
		sort.SliceStable(blk, func(a, b int) bool { return entryLess(blk[a], blk[b]) })
		i = j + 1
	}
	return out
}

func traceCoq(s *spec, log []logEntry, keyOf map[int]keyT, ctl bool) string {
	items := make([]string, 0, len(log))
	for _, ev := range canonLog(log, ctl) {
		switch ev.Kind {
		case "start":
			items = append(items, fmt.Sprintf("S_ %s %s %d", methodCoq(ev.Method), keyOf[ev.Hid].coq(), ev.Hid))
		case "end":
			items = append(items, fmt.Sprintf("E_ %s %s %d %s", methodCoq(ev.Method), keyOf[ev.Hid].coq(), ev.Hid, hx.Bool(ev.Ok)))
		case "ret":
			items = append(items, "R_ "+outcomeCoq(ev.Method, ctl))
		}
	}
	return hx.List(items)
}

func caseTerm(s *spec, o observation) string {
	keyOf := map[int]keyT{}
	for _, op := range s.Ops {
		keyOf[op.Hid] = op.Key
	}
	log := append([]logEntry(nil), o.Log...)
	for i := range log {
		if log[i].Kind == "ret" {
			log[i].Method = o.Outcome
		}
	}
	ops := hx.ListOf(s.Ops, func(op regop) string { return fmt.Sprintf("(%s, %d)", op.Key.coq(), op.Hid) })
	assets := hx.ListOf(s.Assets, func(a aspec) string { return a.coq() })
	fails := hx.ListOf(s.Fails, func(h int) string { return fmt.Sprint(h) })
	order := hx.ListOf(s.Order, func(k keyT) string { return k.coq() })
	out := outcomeCoq(o.Outcome, s.Ctl)
	tr := traceCoq(s, log, keyOf, s.Ctl)
	if s.Method == "fund" {
		ego := "None"
		if s.Ego != nil {
			ego = fmt.Sprintf("(Ego (%d))", *s.Ego)
		}
		return hx.App("CFund", hx.Bool(s.Ctl), ego, hx.Bool(s.TooLong), ops, assets, fails, order, out, tr)
	}
	return hx.App("CAdj", hx.Bool(s.Ctl), methodCoq(s.Method), ops, assets, fails, order, out, tr)
}

// ---------- generators ----------

var ledgerNames = []string{"", "a", "b", "ab", "eth", "1", "A", "ledger-2"}
var backendIDs = []uint32{0, 1, 2, 3, math.MaxUint32}

// keys returns n distinct ledger keys; some share the ledger string and differ in the backend only.
func genKeys(r *rand.Rand, n int) []keyT {
	seen := map[keyT]bool{}
	var out []keyT
	for len(out) < n {
		k := keyT{backendIDs[r.Intn(len(backendIDs))], ledgerNames[r.Intn(len(ledgerNames))]}
		if len(out) > 0 && r.Intn(3) == 0 {
			k.L = out[r.Intn(len(out))].L
		}
		if !seen[k] {
			seen[k] = true
			out = append(out, k)
		}
	}
	return out
}

var durations = []uint64{1, 3600, 10_000_000_000, math.MaxInt64}

func genDur(r *rand.Rand, tooLong bool) uint64 {
	if tooLong {
		return uint64(math.MaxInt64) + 1 + uint64(r.Int63())
	}
	return durations[r.Intn(len(durations))]
}

var adjMethods = []string{"register", "progress", "withdraw"}

// shapes of asset lists over ledgers 0..n-1: each ledger occurs; repeated ledgers in any order
func shapes(n int, thorough bool) [][]int {
	id := make([]int, n)
	for i := range id {
		id[i] = i
	}
	var rev []int // the last ledger first, then all in order, then the others again in reverse
	rev = append(rev, n-1)
	for i := 0; i < n; i++ {
		rev = append(rev, i)
	}
	for i := n - 2; i >= 0; i-- {
		rev = append(rev, i)
	}
	out := [][]int{id, rev}
	if thorough {
		var tri []int // 0 0 1 0 1 2 ...
		for i := 0; i < n; i++ {
			for j := i; j >= 0; j-- {
				tri = append(tri, j)
			}
		}
		if len(tri) > 8 {
			tri = tri[len(tri)-8:]
		}
		out = append(out, tri)
	}
	for _, s := range out {
		if len(s) > 8 {
			panic("asset list longer than 8")
		}
	}
	return out
}

func permutations(n int) [][]int {
	if n == 0 {
		return [][]int{{}}
	}
	var out [][]int
	for _, p := range permutations(n - 1) {
		for i := 0; i <= len(p); i++ {
			q := append(append(append([]int{}, p[:i]...), n-1), p[i:]...)
			out = append(out, q)
		}
	}
	return out
}

// Run generates the cases, runs the real multi.Adjudicator / multi.Funder, checks the oracle and
// writes the cases for the model.
func Run(seed int64, tier, out string) {
	hx.Seed(seed)
	R := hx.Rng
	res := hx.NewResult("C20", seed, tier)
	res.Rule = "multi-ledger Register/Progress/Withdraw/Fund calls over asset lists of 0-8 assets (repeated ledgers in any order, " +
		"ledgers differing in the backend id only, unregistered ledgers, registered ledgers that are not among the assets, re-registered " +
		"ledgers, non-multi / nil assets, egoistic index in and out of range) with scripted failing sub-calls and a driver-chosen completion " +
		"order; exhaustive over (registered subset, failing subset) for up to 3 (quick) / 4 (thorough) ledgers; a case is distinct by " +
		"(class, method, asset shape, registered set, failing set, egoistic index, release order, outcome) and non-trivial if at least one ledger id was extracted"
	const perFile = 64
	w := hx.NewCaseWriter(out, "Run.Compare_C20", perFile)
	res.PerFile = perFile
	thorough := tier == "thorough"
	d := &driver{}
	hidBase := 10

	record := func(s *spec) {
		e := expect(s)
		sub := rand.New(rand.NewSource(R.Int63()))
		o := d.exec(sub, s, e)
		idx := w.Add(caseTerm(s, o))
		res.CaseIndex = append(res.CaseIndex, s.Class+"/"+s.Method)
		oc := o.Outcome
		if i := strings.IndexByte(oc, ':'); i >= 0 {
			oc = oc[:i]
		}
		if !s.Ctl && (oc == "call" || oc == "notfound") {
			oc = "err" // which failing ledger wins the race is up to the scheduler
		}
		egoS := "-"
		if s.Ego != nil {
			egoS = fmt.Sprint(*s.Ego)
		}
		key := fmt.Sprintf("%s|%s|%v|%v|%v|%s|%v|%v|%s", s.Class, s.Method, s.Assets, s.Ops, s.Fails, egoS, s.Order, s.Ctl, oc)
		res.Count(s.Class+"/"+s.Method, oc, key, len(e.distinct) == 0)
		if s.Ctl {
			res.Sample(map[string]interface{}{"case": s, "observed_outcome": o.Outcome, "observed_log": canonLog(o.Log, true)})
		}
		for _, what := range oracle(s, e, o) {
			res.Fail(hx.Failure{Site: site(s.Method), InputClass: s.Class, What: what, Case: idx,
				Replay: map[string]interface{}{"case": s, "observed": o}})
		}
		if o.Timeouts > 0 {
			res.Warnings = append(res.Warnings, fmt.Sprintf("case %d: %d waits of the driver timed out", idx, o.Timeouts))
		}
	}

	// --- LedgerIDs / IsMultiLedgerAssets directly
	nIds := 60
	if thorough {
		nIds = 600
	}
	for i := 0; i < nIds; i++ {
		keys := genKeys(R, 1+R.Intn(5))
		n := R.Intn(9)
		as := make([]aspec, n)
		for j := range as {
			as[j] = aspec{aMulti, keys[R.Intn(len(keys))]}
			if i%3 == 2 && R.Intn(6) == 0 {
				as[j] = aspec{Kind: akind(1 + R.Intn(3))}
			}
		}
		recordIDs(R, w, res, as)
	}

	// --- exhaustive over registered / failing subsets
	maxL := 3
	if thorough {
		maxL = 4
	}
	for L := 1; L <= maxL; L++ {
		for si, shape := range shapes(L, thorough) {
			perms := [][]int{nil}
			if thorough && L <= 3 {
				perms = permutations(L)
			} else if thorough {
				perms = [][]int{nil, nil}
			}
			for regMask := 0; regMask < 1<<L; regMask++ {
				for failMask := 0; failMask < 1<<L; failMask++ {
					if failMask&^regMask != 0 {
						continue
					}
					type mv struct {
						m   string
						ego *int
					}
					var ms []mv
					for _, m := range adjMethods {
						ms = append(ms, mv{m, nil})
					}
					ms = append(ms, mv{"fund", nil})
					for x := -1; x <= L; x++ {
						x := x
						ms = append(ms, mv{"fund", &x})
					}
					for _, m := range ms {
						for range perms {
							keys := genKeys(R, L+1)
							s := &spec{Class: fmt.Sprintf("exh%d.%d", L, si), Method: m.m, Ctl: true, Ego: m.ego,
								Dur: genDur(R, false), permSrc: R.Int63()}
							for _, i := range shape {
								s.Assets = append(s.Assets, aspec{aMulti, keys[i]})
							}
							// registrations in random order; sometimes a stale registration first and an
							// extra ledger that is not among the assets
							var ops []regop
							for i := 0; i < L; i++ {
								if regMask>>i&1 == 1 {
									hid := hidBase + i
									if failMask>>i&1 == 1 {
										s.Fails = append(s.Fails, hid)
									}
									ops = append(ops, regop{keys[i], hid})
								}
							}
							R.Shuffle(len(ops), func(i, j int) { ops[i], ops[j] = ops[j], ops[i] })
							if len(ops) > 0 && R.Intn(3) == 0 {
								stale := regop{ops[R.Intn(len(ops))].Key, hidBase + L + 1}
								ops = append([]regop{stale}, ops...)
								if R.Intn(2) == 0 {
									s.Fails = append(s.Fails, stale.Hid)
								}
							}
							if R.Intn(3) == 0 {
								ops = append(ops, regop{keys[L], hidBase + L})
							}
							s.Ops = ops
							record(s)
							hidBase = 10 + R.Intn(90)
						}
					}
				}
			}
		}
	}

	// --- random cases, controlled and free
	nRand := 260
	if thorough {
		nRand = 3000
	}
	for i := 0; i < nRand; i++ {
		L := 1 + R.Intn(6)
		keys := genKeys(R, L+1)
		s := &spec{Class: "rand", Ctl: R.Intn(3) != 0, permSrc: R.Int63()}
		if !s.Ctl {
			s.Class = "free"
		}
		if R.Intn(2) == 0 {
			s.Method = "fund"
			if R.Intn(4) != 0 {
				x := R.Intn(L+3) - 1
				s.Ego = &x
			}
			s.TooLong = R.Intn(25) == 0
		} else {
			s.Method = adjMethods[R.Intn(3)]
		}
		s.Dur = genDur(R, s.TooLong)
		n := R.Intn(9)
		for j := 0; j < n; j++ {
			a := aspec{aMulti, keys[R.Intn(L)]}
			if i%5 == 4 && R.Intn(8) == 0 {
				a = aspec{Kind: akind(1 + R.Intn(3))}
			}
			s.Assets = append(s.Assets, a)
		}
		hid := 10 + R.Intn(90)
		for j := 0; j <= L; j++ {
			if R.Intn(5) == 0 {
				continue // not registered
			}
			for rep := R.Intn(4) / 3; rep >= 0; rep-- { // sometimes registered twice
				if R.Intn(4) == 0 {
					s.Fails = append(s.Fails, hid)
				}
				s.Ops = append(s.Ops, regop{keys[j], hid})
				hid++
			}
		}
		R.Shuffle(len(s.Ops), func(i, j int) { s.Ops[i], s.Ops[j] = s.Ops[j], s.Ops[i] })
		record(s)
	}
	res.Exhaustive = false
	w.Close()
	res.Write(out)
}

// recordIDs compares assets.LedgerIDs and IsMultiLedgerAssets directly.
func recordIDs(r *rand.Rand, w *hx.CaseWriter, res *hx.Result, as []aspec) {
	assets := make([]channel.Asset, len(as))
	for i, a := range as {
		switch a.Kind {
		case aMulti:
			assets[i] = &mAsset{baseAsset{[]byte{byte(i)}}, mkLBID(r, a.Key)}
		case aPlain:
			assets[i] = &pAsset{baseAsset{[]byte{byte(i)}}}
		case aNil:
			assets[i] = nil
		case aNilID:
			assets[i] = &mAsset{baseAsset{[]byte{byte(i)}}, nil}
		}
	}
	idsTerm, idsOut := "Err", "err"
	var got []keyT
	func() {
		defer func() {
			if recover() != nil {
				idsTerm, idsOut = "Panic", "panic"
			}
		}()
		ids, err := multi.VerifLedgerIDs(assets)
		if err == nil {
			for _, id := range ids {
				got = append(got, keyT{id.BackendID(), string(id.LedgerID().MapKey())})
			}
			idsTerm = "(Ok " + hx.ListOf(got, func(k keyT) string { return k.coq() }) + ")"
			idsOut = "ok"
		}
	}()
	mlTerm := "Panic"
	func() {
		defer func() { recover() }()
		mlTerm = "(Ok " + hx.Bool(multi.IsMultiLedgerAssets(assets)) + ")"
	}()
	idx := w.Add(hx.App("CIds", hx.ListOf(as, func(a aspec) string { return a.coq() }), idsTerm, mlTerm))
	res.CaseIndex = append(res.CaseIndex, "ids")
	res.Count("ids", idsOut, fmt.Sprintf("ids|%v|%s", as, idsTerm), len(as) == 0)
	res.Sample(map[string]interface{}{"assets": as, "ledger_ids": idsTerm, "is_multi_ledger": mlTerm})
	// oracle: distinct, same set, first-occurrence order
	if idsOut != "ok" {
		return
	}
	var want []keyT
	seen := map[keyT]bool{}
	for _, a := range as {
		if a.Kind == aMulti && !seen[a.Key] {
			seen[a.Key] = true
			want = append(want, a.Key)
		}
	}
	if fmt.Sprint(want) != fmt.Sprint(got) {
		res.Fail(hx.Failure{Site: "multi.assets.LedgerIDs", InputClass: "ids", Case: idx,
			What:   fmt.Sprintf("ledger ids %v are not the distinct ledgers of the assets in first-occurrence order %v", got, want),
			Replay: map[string]interface{}{"assets": as}})
	}
}
