package mach

import "perun.network/go-perun/channel"

// Exported entry points for other drivers (C19 drives real machines through the same random
// operation sequences and abstract states).

// RandomOp picks the next operation of a random sequence for machine m.
func (c *Ctx) RandomOp(m *channel.StateMachine) Op { return c.randomOp(m) }

// Restore builds a real machine in the given abstract state.
func (c *Ctx) Restore(ph channel.Phase, staging, current channel.Transaction) *channel.StateMachine {
	return c.restore(ph, staging, current)
}

// SignedTx returns a transaction over s signed by the participants in mask.
func (c *Ctx) SignedTx(s *channel.State, mask int) channel.Transaction { return c.signedTx(s, mask) }
