// Package mach drives the real channel.StateMachine (C01, C02, C09): exhaustive one-step cases on all
// abstract machine states built with RestoreStateMachine (T2) and random operation sequences (T1).
package mach

import (
	"bytes"
	"fmt"
	"math/big"
	"math/rand"
	"os"
	"path/filepath"
	"sort"
	"strings"

	simwallet "perun.network/go-perun/backend/sim/wallet"
	"perun.network/go-perun/channel"
	"perun.network/go-perun/wallet"
	"verif/harness/internal/cv"
	"verif/harness/internal/hx"
)

// ---------- a channel context: keys, params, app ----------

type Ctx struct {
	G        *cv.Gen
	N        int
	Me       int
	Accs     []*simwallet.Account
	Foreign  *simwallet.Account
	Params   *channel.Params
	Kind     string            // "none", "pay", "mock"
	sigs     map[string]string // signature bytes -> token term
	sts      []string          // state table (Coq terms)
	stIdx    map[string]int
	Assets   []channel.Asset
	restores int
}

func NewCtx(g *cv.Gen, n, me int, kind string) *Ctx {
	c := &Ctx{G: g, N: n, Me: me, Kind: kind, sigs: map[string]string{}, stIdx: map[string]int{}}
	parts := make([]map[wallet.BackendID]wallet.Address, n)
	for i := 0; i < n; i++ {
		a := g.Account()
		c.Accs = append(c.Accs, a)
		parts[i] = map[wallet.BackendID]wallet.Address{0: a.Address()}
	}
	c.Foreign = g.Account()
	var app channel.App
	switch kind {
	case "none":
		app = channel.NoApp()
	case "pay":
		app = cv.PayApp
	case "action":
		app = &actApp{MockApp: *cv.MockApp}
	default:
		app = cv.MockApp
	}
	nonce := new(big.Int).SetUint64(g.R.Uint64())
	p, err := channel.NewParams(uint64(1+g.R.Intn(100)), parts, app, nonce, true, false, channel.Aux{})
	if err != nil {
		panic(err)
	}
	c.Params = p
	na := 1 + g.R.Intn(2)
	for i := 0; i < na; i++ {
		c.Assets = append(c.Assets, g.Asset())
	}
	return c
}

func (c *Ctx) AccMap(i int) map[wallet.BackendID]wallet.Account {
	return map[wallet.BackendID]wallet.Account{0: c.Accs[i]}
}

// token address of participant i in the model
func partTok(i int) string { return hx.N(uint64(i + 1)) }

func (c *Ctx) ParamsTerm() string {
	id := c.Params.ID()
	parts := make([]string, c.N)
	for i := range parts {
		parts[i] = partTok(i)
	}
	kind := "None"
	switch c.Kind {
	case "pay":
		kind = "(Some KPay)"
	case "mock":
		kind = "(Some KMock)"
	}
	return hx.App("mkMP", hx.Hex(id[:]), hx.List(parts), cv.AppDef(c.Params.App), kind)
}

// St interns a state in the per-file table and returns its index.
func (c *Ctx) St(s *channel.State) int {
	t := cv.State(s)
	if i, ok := c.stIdx[t]; ok {
		return i
	}
	c.stIdx[t] = len(c.sts)
	c.sts = append(c.sts, t)
	return len(c.sts) - 1
}

// Sign produces a real signature of signer (index into Accs, or -1 for the foreign key) over s and
// registers its token.
func (c *Ctx) Sign(signer int, s *channel.State) wallet.Sig {
	acc := c.Foreign
	tok := hx.N(100)
	if signer >= 0 {
		acc = c.Accs[signer]
		tok = partTok(signer)
	}
	sig, err := channel.Sign(acc, s, 0)
	if err != nil {
		return nil
	}
	c.sigs[string(sig)] = hx.App("TSig", tok, hx.Nat(c.St(s)))
	return sig
}

func (c *Ctx) Tok(sig wallet.Sig) string {
	if sig == nil {
		return "None"
	}
	if t, ok := c.sigs[string(sig)]; ok {
		return "(Some " + t + ")"
	}
	return "(Some (TJunk 0))"
}

func (c *Ctx) regOwn(sig wallet.Sig, signer int, s *channel.State) {
	if sig != nil && s != nil {
		if _, ok := c.sigs[string(sig)]; !ok {
			c.sigs[string(sig)] = hx.App("TSig", partTok(signer), hx.Nat(c.St(s)))
		}
	}
}

// ---------- state generation ----------

// total picks the per-asset total of a channel: mostly small, sometimes around the 64-bit word
// boundary or far beyond it (carries in big-integer arithmetic).
func (c *Ctx) total(base int64) *big.Int {
	switch c.G.R.Intn(8) {
	case 0:
		return new(big.Int).Add(new(big.Int).Lsh(big.NewInt(1), 63), big.NewInt(base))
	case 1:
		return new(big.Int).Add(new(big.Int).Lsh(big.NewInt(1), 64), big.NewInt(base))
	case 2:
		return new(big.Int).Add(new(big.Int).Lsh(big.NewInt(1), 100), big.NewInt(base))
	default:
		return big.NewInt(base)
	}
}

func (c *Ctx) alloc(base int64) channel.Allocation {
	a := channel.Allocation{Assets: c.Assets, Backends: make([]wallet.BackendID, len(c.Assets))}
	a.Balances = make(channel.Balances, len(c.Assets))
	for i := range a.Balances {
		a.Balances[i] = make([]channel.Bal, c.N)
		rem := c.total(base)
		for j := 0; j < c.N; j++ {
			v := new(big.Int).Set(rem)
			if j < c.N-1 {
				v = new(big.Int).Rand(c.G.R, new(big.Int).Add(rem, big.NewInt(1)))
			}
			rem = new(big.Int).Sub(rem, v)
			a.Balances[i][j] = v
		}
	}
	return a
}

func (c *Ctx) data() channel.Data {
	if c.Kind == "mock" || c.Kind == "action" {
		return channel.NewMockOp(channel.OpValid)
	}
	return channel.NoData()
}

// Base returns a valid state of the channel with the given version/final flag.
func (c *Ctx) Base(version uint64, final bool) *channel.State {
	s := &channel.State{ID: c.Params.ID(), Version: version, App: c.Params.App, Data: c.data(),
		Allocation: c.alloc(100), IsFinal: final}
	if c.G.R.Intn(2) == 0 { // every other base state carries locked funds
		bals := make([]channel.Bal, len(s.Assets))
		for i := range bals {
			bals[i] = big.NewInt(int64(c.G.R.Intn(50)))
		}
		s.Locked = []channel.SubAlloc{*channel.NewSubAlloc(c.G.ID(), bals, nil)}
	}
	return s
}

// Succ returns a valid successor of cur in which `actor` pays (valid for the payment app too).
func (c *Ctx) Succ(cur *channel.State, actor int, final bool) *channel.State {
	s := cur.Clone()
	s.Version = cur.Version + 1
	s.IsFinal = final
	s.Data = c.data()
	for i := range s.Balances {
		if actor < len(s.Balances[i]) && s.Balances[i][actor].Sign() > 0 {
			amt := new(big.Int).Add(big.NewInt(1), new(big.Int).Rand(c.G.R, s.Balances[i][actor]))
			np := len(s.Balances[i])
			if np < 2 || actor >= np {
				continue
			}
			to := (actor + 1 + c.G.R.Intn(np-1)) % np
			s.Balances[i][actor] = new(big.Int).Sub(s.Balances[i][actor], amt)
			s.Balances[i][to] = new(big.Int).Add(s.Balances[i][to], amt)
		}
	}
	return s
}

type candidate struct {
	name  string
	s     *channel.State
	actor int
}

// Candidates: a valid successor and one candidate per violated condition of the property text.
func (c *Ctx) Candidates(cur *channel.State) []candidate {
	actor := c.G.R.Intn(c.N)
	ok := func() *channel.State { return c.Succ(cur, actor, false) }
	var out []candidate
	add := func(name string, s *channel.State, a int) { out = append(out, candidate{name, s, a}) }
	add("valid", ok(), actor)
	add("valid-final", c.Succ(cur, actor, true), actor)
	{
		s := ok()
		s.ID[3] ^= 1
		add("other-id", s, actor)
	}
	{
		s := ok()
		s.Version = cur.Version
		add("version+0", s, actor)
	}
	{
		s := ok()
		s.Version = cur.Version + 2
		add("version+2", s, actor)
	}
	{
		s := ok()
		if channel.IsNoApp(s.App) {
			s.App, s.Data = cv.PayApp, channel.NoData()
		} else {
			s.App, s.Data = channel.NoApp(), channel.NoData()
		}
		add("other-app", s, actor)
	}
	{
		s := ok()
		s.Assets = append([]channel.Asset{}, s.Assets...)
		s.Assets[0] = c.G.Asset()
		add("other-asset", s, actor)
	}
	{
		s := ok()
		s.Balances[0][actor] = new(big.Int).Add(s.Balances[0][actor], big.NewInt(1))
		add("sum+1", s, actor)
	}
	{
		s := ok()
		j := (actor + 1) % c.N
		s.Balances[0][j] = new(big.Int).Sub(s.Balances[0][j], big.NewInt(1))
		add("sum-1", s, actor)
	}
	{
		// totals that differ by exactly one machine word / two machine words
		s := ok()
		j := (actor + 1) % c.N
		if j < len(s.Balances[0]) {
			s.Balances[0][j] = new(big.Int).Add(s.Balances[0][j], new(big.Int).Lsh(big.NewInt(1), 64))
		}
		add("sum+2^64", s, actor)
		t := ok()
		for j := range t.Balances[0] {
			if j < 2 {
				t.Balances[0][j] = new(big.Int).Add(t.Balances[0][j], new(big.Int).Lsh(big.NewInt(1), 63))
			}
		}
		add("sum+2^63+2^63", t, actor)
		u := ok()
		if j < len(u.Balances[0]) {
			u.Balances[0][j] = new(big.Int).Add(u.Balances[0][j], new(big.Int).Lsh(big.NewInt(1), 128))
		}
		add("sum+2^128", u, actor)
	}
	{
		s := ok()
		for i := range s.Balances {
			s.Balances[i] = append(s.Balances[i], big.NewInt(0))
		}
		add("extra-participant", s, actor)
	}
	{
		s := ok()
		// move one unit from the last column into a new column: sums unchanged
		for i := range s.Balances {
			last := len(s.Balances[i]) - 1
			if s.Balances[i][last].Sign() > 0 {
				s.Balances[i][last] = new(big.Int).Sub(s.Balances[i][last], big.NewInt(1))
				s.Balances[i] = append(s.Balances[i], big.NewInt(1))
			} else {
				s.Balances[i] = append(s.Balances[i], big.NewInt(0))
			}
		}
		add("extra-participant-funded", s, actor)
	}
	{
		s := ok()
		for i := range s.Balances {
			l := len(s.Balances[i])
			if l >= 2 {
				s.Balances[i][l-2] = new(big.Int).Add(s.Balances[i][l-2], s.Balances[i][l-1])
				s.Balances[i] = s.Balances[i][:l-1]
			}
		}
		add("missing-participant", s, actor)
	}
	{
		s := ok()
		j := (actor + 1) % c.N
		d := new(big.Int).Add(s.Balances[0][j], big.NewInt(5))
		s.Balances[0][j] = big.NewInt(-5)
		s.Balances[0][actor] = new(big.Int).Add(s.Balances[0][actor], d)
		add("negative-balance", s, actor)
	}
	{
		s := ok()
		s.Balances = s.Balances[:0]
		s.Assets = nil
		s.Backends = nil
		add("empty-allocation", s, actor)
	}
	if len(cur.Assets) > 1 {
		s := ok()
		s.Balances[1] = s.Balances[1][:1]
		add("ragged", s, actor)
	}
	add("actor=n", ok(), c.N)
	{
		// actor's balance rises: violates the payment rule only
		s := cur.Clone()
		s.Version++
		s.Data = c.data()
		j := (actor + 1) % c.N
		if s.Balances[0][j].Sign() > 0 {
			s.Balances[0][j] = new(big.Int).Sub(s.Balances[0][j], big.NewInt(1))
			s.Balances[0][actor] = new(big.Int).Add(s.Balances[0][actor], big.NewInt(1))
		}
		add("actor-gains", s, actor)
	}
	{
		// locked funds: part of the actor's balance moves into a sub-allocation (sum preserved)
		s := cur.Clone()
		s.Version++
		s.Data = c.data()
		bals := make([]channel.Bal, len(s.Assets))
		for i := range bals {
			bals[i] = big.NewInt(0)
			if s.Balances[i][actor].Sign() > 0 {
				bals[i] = big.NewInt(1)
				s.Balances[i][actor] = new(big.Int).Sub(s.Balances[i][actor], big.NewInt(1))
			}
		}
		s.Locked = append(s.Locked, *channel.NewSubAlloc(c.G.ID(), bals, nil))
		add("lock-funds", s, actor)
		t := s.Clone()
		t.Locked[len(t.Locked)-1].Bals = t.Locked[len(t.Locked)-1].Bals[:0]
		add("locked-wrong-dim", t, actor)
	}
	{
		// a participant other than the actor pays (sums unchanged): into a new sub-allocation ...
		s := cur.Clone()
		s.Version++
		s.Data = c.data()
		j := (actor + 1) % c.N
		bals := make([]channel.Bal, len(s.Assets))
		for i := range bals {
			bals[i] = big.NewInt(0)
			if j < len(s.Balances[i]) && s.Balances[i][j].Sign() > 0 {
				bals[i] = big.NewInt(1)
				s.Balances[i][j] = new(big.Int).Sub(s.Balances[i][j], big.NewInt(1))
			}
		}
		s.Locked = append(s.Locked, *channel.NewSubAlloc(c.G.ID(), bals, nil))
		add("peer-funds-locked", s, actor)
	}
	if c.N > 2 {
		// ... or to a third participant
		s := cur.Clone()
		s.Version++
		s.Data = c.data()
		j, k := (actor+1)%c.N, (actor+2)%c.N
		for i := range s.Balances {
			if j < len(s.Balances[i]) && k < len(s.Balances[i]) && s.Balances[i][j].Sign() > 0 {
				s.Balances[i][j] = new(big.Int).Sub(s.Balances[i][j], big.NewInt(1))
				s.Balances[i][k] = new(big.Int).Add(s.Balances[i][k], big.NewInt(1))
			}
		}
		add("peer-pays-third", s, actor)
	}
	{
		// participant balances untouched, locked funds created from nothing
		s := cur.Clone()
		s.Version++
		s.Data = c.data()
		bals := make([]channel.Bal, len(s.Assets))
		for i := range bals {
			bals[i] = big.NewInt(int64(1 + c.G.R.Intn(1000)))
		}
		s.Locked = append(s.Locked, *channel.NewSubAlloc(c.G.ID(), bals, nil))
		add("locked-from-nothing", s, actor)
	}
	if len(cur.Locked) > 0 {
		s := cur.Clone()
		s.Version++
		s.Data = c.data()
		l := &s.Locked[c.G.R.Intn(len(s.Locked))]
		if len(l.Bals) > 0 {
			i := c.G.R.Intn(len(l.Bals))
			l.Bals[i] = new(big.Int).Add(l.Bals[i], big.NewInt(500))
		}
		add("locked-inflated", s, actor)
		t := cur.Clone()
		t.Version++
		t.Data = c.data()
		t.Locked = t.Locked[:len(t.Locked)-1]
		add("locked-dropped", t, actor)
		u := cur.Clone()
		u.Version++
		u.Data = c.data()
		// locked funds released to the actor's peer: sums unchanged, valid for NoApp, payment: actor unchanged
		last := u.Locked[len(u.Locked)-1]
		u.Locked = u.Locked[:len(u.Locked)-1]
		j := (actor + 1) % c.N
		for i := range u.Balances {
			if i < len(last.Bals) && j < len(u.Balances[i]) {
				u.Balances[i][j] = new(big.Int).Add(u.Balances[i][j], last.Bals[i])
			}
		}
		add("locked-released", u, actor)
	}
	if c.Kind == "mock" {
		s := ok()
		s.Data = channel.NewMockOp(channel.OpErr)
		add("mock-data-err-next", s, actor)
	}
	return out
}

// ---------- machine construction ----------

type source struct {
	idx     channel.Index
	params  *channel.Params
	staging channel.Transaction
	current channel.Transaction
	phase   channel.Phase
}

func (s *source) ID() channel.ID                 { return s.params.ID() }
func (s *source) Idx() channel.Index             { return s.idx }
func (s *source) Params() *channel.Params        { return s.params }
func (s *source) StagingTX() channel.Transaction { return s.staging }
func (s *source) CurrentTX() channel.Transaction { return s.current }
func (s *source) Phase() channel.Phase           { return s.phase }

// ---------- operations ----------

type Op struct {
	Kind  string
	S     *channel.State
	Alloc *channel.Allocation
	Data  channel.Data
	Actor int
	Idx   int
	Sig   wallet.Sig
	Class string // generator class (for evidence / findings)
}

func (c *Ctx) opTerm(o Op) string {
	switch o.Kind {
	case "Init":
		return hx.App("ROInit", cv.Alloc(*o.Alloc), cv.Data(o.Data))
	case "Update":
		return hx.App("ROUpdate", hx.Nat(c.St(o.S)), hx.N(uint64(o.Actor)))
	case "ForceUpdate":
		return hx.App("ROForceUpdate", hx.Nat(c.St(o.S)), hx.N(uint64(o.Actor)))
	case "CheckUpdate":
		return hx.App("ROCheckUpdate", hx.Nat(c.St(o.S)), hx.N(uint64(o.Actor)), c.tokPlain(o.Sig), hx.N(uint64(o.Idx)))
	case "AddSig":
		return hx.App("ROAddSig", hx.N(uint64(o.Idx)), c.tokPlain(o.Sig))
	case "SetProgressing":
		return hx.App("ROSetProgressing", hx.Nat(c.St(o.S)))
	case "SetProgressed":
		return hx.App("ROSetProgressed", hx.Nat(c.St(o.S)))
	default:
		return "RO" + o.Kind
	}
}

func (c *Ctx) tokPlain(sig wallet.Sig) string {
	if t, ok := c.sigs[string(sig)]; ok {
		return t
	}
	return "(TJunk 0)"
}

type Snap struct {
	Phase   channel.Phase
	Staging channel.Transaction
	Current channel.Transaction
}

func snap(m *channel.StateMachine) Snap {
	return Snap{m.Phase(), m.StagingTX().Clone(), m.CurrentTX().Clone()}
}

func (c *Ctx) txTerm(t channel.Transaction) string {
	if t.State == nil {
		return "None"
	}
	sigs := make([]string, len(t.Sigs))
	for i, s := range t.Sigs {
		sigs[i] = c.Tok(s)
	}
	return "(Some (" + hx.Nat(c.St(t.State)) + ", " + hx.List(sigs) + "))"
}

func (c *Ctx) snapTerm(s Snap) string {
	return "(" + hx.N(uint64(s.Phase)) + ", " + c.txTerm(s.Staging) + ", " + c.txTerm(s.Current) + ")"
}

// Apply runs one operation on the real machine. out: "OK", "OKSig", "ERR", "PANIC".
func (c *Ctx) Apply(m *channel.StateMachine, o Op) (out string, sig wallet.Sig) {
	defer func() {
		if r := recover(); r != nil {
			out = "PANIC"
		}
	}()
	var err error
	switch o.Kind {
	case "Init":
		err = m.Init(*o.Alloc, o.Data)
	case "Update":
		err = m.Update(o.S, channel.Index(o.Actor))
	case "ForceUpdate":
		err = m.ForceUpdate(o.S, channel.Index(o.Actor))
	case "CheckUpdate":
		err = m.CheckUpdate(o.S, channel.Index(o.Actor), o.Sig, channel.Index(o.Idx))
	case "Sig":
		staged := m.StagingState()
		sig, err = m.Sig()
		if err == nil {
			c.regOwn(sig, c.Me, staged)
			return "OKSig", sig
		}
	case "AddSig":
		err = m.AddSig(channel.Index(o.Idx), o.Sig)
	case "EnableInit":
		err = m.EnableInit()
	case "EnableUpdate":
		err = m.EnableUpdate()
	case "EnableFinal":
		err = m.EnableFinal()
	case "Discard":
		err = m.DiscardUpdate()
	case "SetFunded":
		err = m.SetFunded()
	case "SetRegistering":
		err = m.SetRegistering()
	case "SetRegistered":
		err = m.SetRegistered()
	case "SetProgressing":
		err = m.SetProgressing(o.S)
	case "SetProgressed":
		err = m.SetProgressed(&channel.ProgressedEvent{State: o.S})
	case "SetWithdrawing":
		err = m.SetWithdrawing()
	case "SetWithdrawn":
		err = m.SetWithdrawn()
	default:
		panic("unknown op " + o.Kind)
	}
	if err != nil {
		return "ERR", nil
	}
	return "OK", nil
}

// ---------- oracles (written from the property text, independent of the model) ----------

var signingPhases = map[channel.Phase]bool{channel.InitSigning: true, channel.Signing: true, channel.Progressing: true}

func txEqual(a, b channel.Transaction) bool {
	if (a.State == nil) != (b.State == nil) {
		return false
	}
	if a.State != nil {
		var x, y bytes.Buffer
		ex, ey := a.State.Encode(&x), b.State.Encode(&y)
		if (ex == nil) != (ey == nil) || !bytes.Equal(x.Bytes(), y.Bytes()) {
			return false
		}
		if ex != nil && cv.State(a.State) != cv.State(b.State) {
			return false
		}
	}
	if len(a.Sigs) != len(b.Sigs) {
		return false
	}
	for i := range a.Sigs {
		if !bytes.Equal(a.Sigs[i], b.Sigs[i]) || (a.Sigs[i] == nil) != (b.Sigs[i] == nil) {
			return false
		}
	}
	return true
}

func allSigned(t channel.Transaction, n int) bool {
	if len(t.Sigs) != n {
		return false
	}
	for _, s := range t.Sigs {
		if s == nil {
			return false
		}
	}
	return true
}

// docPre: the documented precondition of each operation (phase, signatures, final flag).
// ok=false means "not decided by the phase protocol" (validity of the candidate etc.).
func docPre(o Op, before Snap, n int) (allowed bool, target channel.Phase, decided bool) {
	p := before.Phase
	st := before.Staging
	switch o.Kind {
	case "Init":
		return p == channel.InitActing, channel.InitSigning, p != channel.InitActing
	case "Update":
		return p == channel.Acting, channel.Signing, p != channel.Acting
	case "EnableInit":
		return p == channel.InitSigning && st.State != nil && !st.IsFinal && allSigned(st, n), channel.Funding, true
	case "EnableUpdate":
		return p == channel.Signing && st.State != nil && !st.IsFinal && allSigned(st, n), channel.Acting, true
	case "EnableFinal":
		return p == channel.Signing && st.State != nil && st.IsFinal && allSigned(st, n), channel.Final, true
	case "Discard":
		return p == channel.Signing, channel.Acting, true
	case "SetFunded":
		return p == channel.Funding, channel.Acting, true
	case "SetRegistering":
		return p >= channel.Funding, channel.Registering, true
	case "SetRegistered":
		return p >= channel.Funding, channel.Registered, true
	case "SetProgressing":
		return p == channel.Registered || p == channel.Progressing || p == channel.Progressed, channel.Progressing, true
	case "SetProgressed":
		return true, channel.Progressed, true
	case "SetWithdrawing":
		return p == channel.Final || p == channel.Registered || p == channel.Progressed || p == channel.Withdrawing, channel.Withdrawing, true
	case "SetWithdrawn":
		return p == channel.Withdrawing, channel.Withdrawn, true
	case "ForceUpdate":
		return true, channel.Signing, true
	case "Sig":
		return signingPhases[p], p, true
	case "AddSig":
		return signingPhases[p], p, !signingPhases[p]
	}
	return false, p, false
}

// goodSuccessor: the conjunction of the property text of C02.
func (c *Ctx) goodSuccessor(cur, to *channel.State, actor int) bool {
	if to.ID != c.Params.ID() || channel.AppShouldEqual(c.Params.App, to.App) != nil {
		return false
	}
	if cur.IsFinal || to.Version != cur.Version+1 {
		return false
	}
	if len(to.Assets) == 0 || len(to.Assets) != len(cur.Assets) || len(to.Balances) != len(to.Assets) {
		return false
	}
	for i := range to.Assets {
		if !to.Assets[i].Equal(cur.Assets[i]) {
			return false
		}
	}
	for i := range to.Balances {
		if len(to.Balances[i]) != c.N { // one balance per participant of the channel
			return false
		}
		for _, b := range to.Balances[i] {
			if b.Sign() < 0 {
				return false
			}
		}
	}
	for _, l := range to.Locked {
		if len(l.Bals) != len(to.Assets) {
			return false
		}
		for _, b := range l.Bals {
			if b.Sign() < 0 {
				return false
			}
		}
	}
	if len(to.Assets) > channel.MaxNumAssets || len(to.Locked) > channel.MaxNumSubAllocations {
		return false
	}
	total := func(s *channel.State, i int) *big.Int {
		t := new(big.Int)
		for _, b := range s.Balances[i] {
			t.Add(t, b)
		}
		for _, l := range s.Locked {
			t.Add(t, l.Bals[i])
		}
		return t
	}
	for i := range to.Assets {
		if total(cur, i).Cmp(total(to, i)) != 0 {
			return false
		}
	}
	if actor < 0 || actor >= c.N {
		return false
	}
	switch c.Kind {
	case "pay":
		if !channel.IsNoData(to.Data) {
			return false
		}
		for i := range cur.Balances {
			for j := range cur.Balances[i] {
				if j == actor && to.Balances[i][j].Cmp(cur.Balances[i][j]) > 0 {
					return false
				}
				if j != actor && to.Balances[i][j].Cmp(cur.Balances[i][j]) < 0 {
					return false
				}
			}
		}
	case "mock":
		op, ok := cur.Data.(*channel.MockOp)
		if !ok || *op != channel.OpValid {
			return false
		}
	}
	return true
}

// ---------- case files ----------

type fileWriter struct {
	dir    string
	nfiles int
	total  int
}

func (w *fileWriter) write(c *Ctx, cases []string) {
	if len(cases) == 0 {
		return
	}
	var sb strings.Builder
	sb.WriteString("From V Require Import Run.Compare_Mach.\nOpen Scope list_scope.\n")
	fmt.Fprintf(&sb, "Definition P := %s.\n", c.ParamsTerm())
	fmt.Fprintf(&sb, "Definition sts := [\n%s\n].\n", strings.Join(c.sts, ";\n"))
	fmt.Fprintf(&sb, "Definition cases := [\n%s\n].\n", strings.Join(cases, ";\n"))
	fmt.Fprintf(&sb, "Definition M := Eval vm_compute in mismatches P sts %d%%nat cases.\nPrint M.\n", w.total)
	name := filepath.Join(w.dir, fmt.Sprintf("cases_%03d.v", w.nfiles))
	if err := os.WriteFile(name, []byte(sb.String()), 0o644); err != nil {
		panic(err)
	}
	w.nfiles++
	w.total += len(cases)
}

// ---------- drivers ----------

type runner struct {
	prop string
	res  *hx.Result
	w    *fileWriter
	g    *cv.Gen
}

// execCase runs ops on machine m (already in its initial state), records everything and checks oracles.
func (r *runner) execCase(c *Ctx, m *channel.StateMachine, init Snap, ops []Op, class string, progressed bool) string {
	obs := make([]string, 0, len(ops))
	opTerms := make([]string, 0, len(ops))
	caseIdx := len(r.res.CaseIndex) // global index = number of cases so far
	initTerm := c.snapTerm(init)
	curProgressed := progressed
	for _, o := range ops {
		before := snap(m)
		opT := c.opTerm(o)
		out, sig := c.Apply(m, o)
		after := snap(m)
		outT := out
		if out == "OKSig" {
			outT = "(ROKSig " + c.tokPlain(sig) + ")"
		} else {
			outT = "R" + out
		}
		opTerms = append(opTerms, opT)
		obs = append(obs, "("+outT+", "+c.snapTerm(after)+")")
		key := fmt.Sprintf("%s/%s/%d/%v/%v/%s/%d", o.Kind, o.Class, before.Phase, before.Staging.State != nil, before.Current.State != nil, out, after.Phase)
		r.res.Count(class+"/"+o.Kind, out, key, false)
		// --- C09 oracle
		allowed, target, decided := docPre(o, before, c.N)
		fail := func(what string) {
			r.res.Fail(hx.Failure{Site: "channel.StateMachine." + o.Kind, InputClass: o.Class + "@" + before.Phase.String(), What: what, Case: caseIdx,
				Replay: map[string]interface{}{"params": c.ParamsTerm(), "init": initTerm, "ops": opTerms}})
		}
		if r.prop == "C09" || r.prop == "C01" || r.prop == "C02" {
			if out == "ERR" && !(after.Phase == before.Phase && txEqual(after.Staging, before.Staging) && txEqual(after.Current, before.Current)) {
				fail("operation returned an error but changed phase, staged or current transaction")
			}
			if decided {
				if allowed && (out == "ERR") && o.Kind != "Sig" {
					fail("documented precondition holds but the operation failed")
				}
				if !allowed && (out == "OK" || out == "OKSig") {
					fail("operation succeeded although its documented precondition does not hold")
				}
			}
			if (out == "OK" || out == "OKSig") && o.Kind != "CheckUpdate" && o.Kind != "AddSig" && o.Kind != "Sig" && after.Phase != target {
				fail(fmt.Sprintf("operation succeeded but left the machine in phase %v instead of %v", after.Phase, target))
			}
			if out == "OKSig" {
				ok, _ := channel.Verify(c.Accs[c.Me].Address(), before.Staging.State, sig)
				if !signingPhases[before.Phase] || before.Staging.State == nil || !ok {
					fail("own signature produced outside a signing phase or not over the staged state")
				}
			}
			// a panic is a failure unless the machine is in a shape no operation sequence reaches (signing
			// phase without staged state, no current state after the init phases) or the app panics by design
			unreachable := (signingPhases[before.Phase] && before.Staging.State == nil) ||
				(before.Phase >= channel.Funding && before.Current.State == nil) ||
				(before.Phase < channel.Funding && (o.Kind == "CheckUpdate" || o.Kind == "Update"))
			// ... or the current state has another participant dimension than the channel, which only
			// the unchecked ForceUpdate / SetProgressed can bring about (the payment app then indexes the
			// new balances with the old dimensions)
			oddCurrent := before.Current.State != nil && before.Current.State.NumParts() != c.N
			byDesign := c.Kind == "mock" || (c.Kind == "pay" && (oddCurrent || o.S != nil && !channel.IsNoData(o.S.Data) || o.Data != nil && !channel.IsNoData(o.Data)))
			if out == "PANIC" && !unreachable && !byDesign && o.Idx < c.N {
				fail("operation panicked")
			}
		}
		// --- C01 oracle: current tx fully signed by every participant unless adopted from a progression
		if o.Kind == "SetProgressed" && out == "OK" {
			curProgressed = true
		} else if !txEqual(after.Current, before.Current) {
			curProgressed = false
		}
		if after.Current.State != nil && !curProgressed {
			good := len(after.Current.Sigs) == c.N
			for i := 0; good && i < c.N; i++ {
				ok, err := channel.Verify(c.Accs[i].Address(), after.Current.State, after.Current.Sigs[i])
				good = err == nil && ok
			}
			if !good {
				fail("current transaction is not signed by every participant over exactly the current state")
			}
		}
		// --- C02 oracle
		if (o.Kind == "Update" && before.Phase == channel.Acting || o.Kind == "CheckUpdate") && before.Current.State != nil && out != "PANIC" {
			good := c.goodSuccessor(before.Current.State, o.S, o.Actor)
			if o.Kind == "CheckUpdate" {
				v, err := channel.Verify(c.Accs[o.Idx%c.N].Address(), o.S, o.Sig)
				good = good && err == nil && v && o.Idx < c.N
			}
			if good != (out == "OK") {
				fail(fmt.Sprintf("candidate is a good successor = %v but the machine answered %s", good, out))
			}
		}
		if o.Kind == "Init" && out == "OK" {
			s := after.Staging.State
			if s == nil || s.Version != 0 || s.ID != c.Params.ID() || s.NumParts() != c.N || s.Valid() != nil {
				fail("accepted initial state is not version 0 / channel id / one balance per participant")
			}
		}
	}
	r.res.CaseIndex = append(r.res.CaseIndex, class)
	return hx.App("mkCase", hx.N(uint64(c.Me)), initTerm, hx.List(opTerms), hx.List(obs))
}

// restore builds a real machine in the given abstract state.
func (c *Ctx) restore(ph channel.Phase, staging, current channel.Transaction) *channel.StateMachine {
	// RestoreStateMachine derives the own index from the account's position in the participant list;
	// the index the source reports is not authoritative: every other restore reports a wrong one.
	idx := c.Me
	c.restores++
	if c.restores%2 == 0 {
		idx = (c.Me + 1) % c.N
	}
	src := &source{idx: channel.Index(idx), params: c.Params, staging: staging, current: current, phase: ph}
	m, err := channel.RestoreStateMachine(c.AccMap(c.Me), src)
	if err != nil {
		panic(err)
	}
	return m
}

func (c *Ctx) signedTx(s *channel.State, mask int) channel.Transaction {
	t := channel.Transaction{State: s, Sigs: make([]wallet.Sig, c.N)}
	for i := 0; i < c.N; i++ {
		if mask&(1<<uint(i)) != 0 {
			t.Sigs[i] = c.Sign(i, s)
		}
	}
	return t
}

// opClasses builds the one-step operation alphabet for a machine in state (staging, current).
func (c *Ctx) opClasses(ph channel.Phase, staging, current channel.Transaction) []Op {
	var ops []Op
	add := func(o Op) { ops = append(ops, o) }
	al := c.alloc(50)
	add(Op{Kind: "Init", Alloc: &al, Data: c.data(), Class: "valid"})
	bad := c.alloc(50)
	bad.Balances[0] = append(bad.Balances[0], big.NewInt(1))
	add(Op{Kind: "Init", Alloc: &bad, Data: c.data(), Class: "extra-participant"})
	if c.Kind != "pay" {
		add(Op{Kind: "Init", Alloc: &al, Data: channel.NewMockOp(channel.OpErr), Class: "bad-data"})
	}
	cur := current.State
	if cur == nil {
		cur = c.Base(3, false)
	}
	cands := c.Candidates(cur)
	for i, cd := range cands {
		// outside Acting every candidate is refused by the phase check alone: keep a few
		if ph == channel.Acting || i == 0 || i == 2 || i == 7 {
			add(Op{Kind: "Update", S: cd.s, Actor: cd.actor, Class: cd.name})
		}
	}
	add(Op{Kind: "ForceUpdate", S: cands[0].s, Actor: 0, Class: "valid"})
	for _, cd := range cands {
		if (cd.name == "missing-participant" || cd.name == "extra-participant") && cd.s.Valid() == nil {
			add(Op{Kind: "ForceUpdate", S: cd.s, Actor: 0, Class: cd.name})
		}
	}
	peer := (c.Me + 1) % c.N
	add(Op{Kind: "CheckUpdate", S: cands[0].s, Actor: cands[0].actor, Sig: c.Sign(peer, cands[0].s), Idx: peer, Class: "valid-sig"})
	add(Op{Kind: "CheckUpdate", S: cands[0].s, Actor: cands[0].actor, Sig: c.Sign(peer, cands[1].s), Idx: peer, Class: "sig-other-state"})
	add(Op{Kind: "CheckUpdate", S: cands[7].s, Actor: cands[7].actor, Sig: c.Sign(peer, cands[7].s), Idx: peer, Class: "bad-state-valid-sig"})
	add(Op{Kind: "Sig", Class: "-"})
	for i := 0; i < c.N; i++ {
		if !signingPhases[ph] {
			if staging.State != nil {
				add(Op{Kind: "AddSig", Idx: i, Sig: c.Sign(i, staging.State), Class: "valid"})
			}
			add(Op{Kind: "AddSig", Idx: i, Sig: c.Sign(i, cands[0].s), Class: "other-state"})
			continue
		}
		if staging.State != nil {
			add(Op{Kind: "AddSig", Idx: i, Sig: c.Sign(i, staging.State), Class: "valid"})
			add(Op{Kind: "AddSig", Idx: i, Sig: c.Sign((i+1)%c.N, staging.State), Class: "other-signer"})
			add(Op{Kind: "AddSig", Idx: i, Sig: c.Sign(-1, staging.State), Class: "foreign-signer"})
		}
		add(Op{Kind: "AddSig", Idx: i, Sig: c.Sign(i, cands[0].s), Class: "other-state"})
		junk := make([]byte, 64)
		c.G.R.Read(junk)
		add(Op{Kind: "AddSig", Idx: i, Sig: junk, Class: "junk"})
		add(Op{Kind: "AddSig", Idx: i, Sig: junk[:10], Class: "short"})
	}
	for _, k := range []string{"EnableInit", "EnableUpdate", "EnableFinal", "Discard", "SetFunded", "SetRegistering", "SetRegistered", "SetWithdrawing", "SetWithdrawn"} {
		add(Op{Kind: k, Class: "-"})
	}
	add(Op{Kind: "SetProgressing", S: cands[0].s, Class: "-"})
	add(Op{Kind: "SetProgressed", S: cands[0].s, Class: "-"})
	return ops
}

// Exhaustive: every abstract state (phase x staging shape x current shape) x every op class, one step.
// acting offers every candidate successor (one violation each, and the valid ones) to Update and
// CheckUpdate of a machine restored in the Acting phase with a fully signed current state: one step
// per candidate, for the given app kind and participant count.
func (r *runner) acting(n, me int, kind string, perFile int) (transitions int) {
	c := NewCtx(r.g, n, me, kind)
	var cases []string
	flush := func() {
		r.w.write(c, cases)
		cases = nil
		c.sts, c.stIdx = nil, map[string]int{}
		c.sigs = map[string]string{}
	}
	for _, final := range []bool{false, true} {
		cur0 := c.signedTx(c.Base(3, final), 1<<uint(n)-1)
		peer := (me + 1) % n
		var ops []Op
		for _, cd := range c.Candidates(cur0.State) {
			ops = append(ops, Op{Kind: "Update", S: cd.s, Actor: cd.actor, Class: cd.name})
			ops = append(ops, Op{Kind: "CheckUpdate", S: cd.s, Actor: cd.actor, Sig: c.Sign(peer, cd.s), Idx: peer, Class: cd.name + "/valid-sig"})
		}
		for _, o := range ops {
			transitions++
			m := c.restore(channel.Acting, channel.Transaction{}, cur0.Clone())
			init := snap(m)
			cases = append(cases, r.execCase(c, m, init, []Op{o}, fmt.Sprintf("T2a/n%d/me%d/%s", n, me, kind), false))
			if len(cases) >= perFile {
				flush()
			}
		}
	}
	flush()
	return
}

// replays runs scripted histories in which a signature that was valid for ONE state of a version is
// offered again after ANOTHER state of the same version has been staged: after a successful CheckUpdate,
// after a discarded update, after a replaced (forced) staging.  Whatever the machine remembered about
// the first signature must not let it pass for the second state.
func (r *runner) replays(n, me int, kind string, perFile int) {
	c := NewCtx(r.g, n, me, kind)
	var cases []string
	cur0 := c.signedTx(c.Base(3, false), 1<<uint(n)-1)
	cands := c.Candidates(cur0.State)
	a, b := cands[0], cands[1] // valid, valid-final: same version, different states
	b2 := candidate{}
	for _, cd := range cands {
		if cd.name == "lock-funds" || cd.name == "locked-released" {
			b2 = cd
		}
	}
	peer := (me + 1) % n
	others := func(st *channel.State) (ops []Op) {
		for i := 0; i < n; i++ {
			if i != me && i != peer {
				ops = append(ops, Op{Kind: "AddSig", Idx: i, Sig: c.Sign(i, st), Class: "valid"})
			}
		}
		return
	}
	sigA := c.Sign(peer, a.s)
	scripts := map[string][]Op{
		"after-checkupdate": append(append([]Op{
			{Kind: "CheckUpdate", S: a.s, Actor: a.actor, Sig: sigA, Idx: peer, Class: "valid"},
			{Kind: "Update", S: b.s, Actor: b.actor, Class: "other-state-same-version"},
			{Kind: "AddSig", Idx: peer, Sig: sigA, Class: "replayed-checkupdate"},
			{Kind: "Sig", Class: "-"}}, others(b.s)...),
			Op{Kind: "EnableFinal", Class: "-"}, Op{Kind: "EnableUpdate", Class: "-"}),
		"after-discard": append(append([]Op{
			{Kind: "Update", S: a.s, Actor: a.actor, Class: "valid"},
			{Kind: "AddSig", Idx: peer, Sig: sigA, Class: "valid"},
			{Kind: "Discard", Class: "-"},
			{Kind: "Update", S: b.s, Actor: b.actor, Class: "other-state-same-version"},
			{Kind: "AddSig", Idx: peer, Sig: sigA, Class: "replayed-discarded"},
			{Kind: "Sig", Class: "-"}}, others(b.s)...),
			Op{Kind: "EnableFinal", Class: "-"}, Op{Kind: "EnableUpdate", Class: "-"}),
		"after-force": append(append([]Op{
			{Kind: "Update", S: a.s, Actor: a.actor, Class: "valid"},
			{Kind: "AddSig", Idx: peer, Sig: sigA, Class: "valid"},
			{Kind: "ForceUpdate", S: b.s, Actor: b.actor, Class: "other-state-same-version"},
			{Kind: "AddSig", Idx: peer, Sig: sigA, Class: "replayed-forced"},
			{Kind: "Sig", Class: "-"}}, others(b.s)...),
			Op{Kind: "EnableFinal", Class: "-"}, Op{Kind: "EnableUpdate", Class: "-"}),
	}
	// the same (state, actor) offered again after it was validated AND enabled: by then it is the current
	// state, not a successor (C02: no rollback / replay), whatever was validated before
	scripts["resubmit-after-enable"] = append(append([]Op{
		{Kind: "Update", S: a.s, Actor: a.actor, Class: "valid"},
		{Kind: "AddSig", Idx: peer, Sig: sigA, Class: "valid"},
		{Kind: "Sig", Class: "-"}}, others(a.s)...),
		Op{Kind: "EnableUpdate", Class: "-"},
		Op{Kind: "Update", S: a.s, Actor: a.actor, Class: "resubmitted-enabled"},
		Op{Kind: "CheckUpdate", S: a.s, Actor: a.actor, Sig: sigA, Idx: peer, Class: "resubmitted-enabled"},
		Op{Kind: "Update", S: a.s.Clone(), Actor: a.actor, Class: "resubmitted-enabled-clone"})
	scripts["resubmit-after-checkupdate-enable"] = append(append([]Op{
		{Kind: "CheckUpdate", S: a.s, Actor: a.actor, Sig: sigA, Idx: peer, Class: "valid"},
		{Kind: "Update", S: a.s, Actor: a.actor, Class: "valid"},
		{Kind: "AddSig", Idx: peer, Sig: sigA, Class: "valid"},
		{Kind: "Sig", Class: "-"}}, others(a.s)...),
		Op{Kind: "EnableUpdate", Class: "-"},
		Op{Kind: "CheckUpdate", S: a.s, Actor: a.actor, Sig: sigA, Idx: peer, Class: "resubmitted-enabled"},
		Op{Kind: "Update", S: a.s, Actor: a.actor, Class: "resubmitted-enabled"})
	if b2.s != nil {
		scripts["after-checkupdate-2"] = append(append([]Op{
			{Kind: "CheckUpdate", S: a.s, Actor: a.actor, Sig: sigA, Idx: peer, Class: "valid"},
			{Kind: "CheckUpdate", S: b2.s, Actor: b2.actor, Sig: c.Sign(peer, b2.s), Idx: peer, Class: "valid"},
			{Kind: "Update", S: b2.s, Actor: b2.actor, Class: "other-state-same-version"},
			{Kind: "AddSig", Idx: peer, Sig: sigA, Class: "replayed-checkupdate"},
			{Kind: "AddSig", Idx: peer, Sig: c.Sign(peer, b2.s), Class: "valid"},
			{Kind: "Sig", Class: "-"}}, others(b2.s)...),
			Op{Kind: "EnableUpdate", Class: "-"})
	}
	names := make([]string, 0, len(scripts))
	for k := range scripts {
		names = append(names, k)
	}
	sort.Strings(names)
	for _, name := range names {
		m := c.restore(channel.Acting, channel.Transaction{}, cur0.Clone())
		init := snap(m)
		cases = append(cases, r.execCase(c, m, init, scripts[name], fmt.Sprintf("T1r/%s/n%d/%s", name, n, kind), false))
	}
	r.w.write(c, cases)
}

func (r *runner) exhaustive(n, me int, kind string, perFile int) (states, transitions int) {
	phases := []channel.Phase{channel.InitActing, channel.InitSigning, channel.Funding, channel.Acting, channel.Signing, channel.Final,
		channel.Registering, channel.Registered, channel.Progressing, channel.Progressed, channel.Withdrawing, channel.Withdrawn}
	type shape struct {
		present, final bool
		mask           int
		progressed     bool
	}
	var stagings, currents []shape
	stagings = append(stagings, shape{})
	for _, f := range []bool{false, true} {
		for mask := 0; mask < 1<<uint(n); mask++ {
			stagings = append(stagings, shape{present: true, final: f, mask: mask})
		}
	}
	currents = []shape{{}, {present: true, mask: 1<<uint(n) - 1}, {present: true, final: true, mask: 1<<uint(n) - 1}, {present: true, progressed: true}}
	c := NewCtx(r.g, n, me, kind)
	var cases []string
	flush := func() {
		r.w.write(c, cases)
		cases = nil
		c.sts, c.stIdx = nil, map[string]int{}
		// signatures registered so far refer to state indices of the flushed table: re-register lazily
		c.sigs = map[string]string{}
	}
	for _, ph := range phases {
		for _, cs := range currents {
			for _, ss := range stagings {
				states++
				mk := func() (channel.Transaction, channel.Transaction) {
					var cur, stg channel.Transaction
					if cs.present {
						cur = c.signedTx(c.Base(3, cs.final), cs.mask)
						if cs.progressed {
							cur = channel.Transaction{State: c.Base(3, false), Sigs: make([]wallet.Sig, n)}
						}
					}
					if ss.present {
						base := c.Base(3, false)
						if cur.State != nil {
							base = cur.State
						}
						var st *channel.State
						if ph == channel.InitSigning {
							st = c.Base(0, false)
							st.IsFinal = ss.final
						} else {
							st = c.Succ(base, 0, ss.final)
						}
						stg = c.signedTx(st, ss.mask)
					}
					return stg, cur
				}
				stg0, cur0 := mk()
				for _, o := range c.opClasses(ph, stg0, cur0) {
					transitions++
					m := c.restore(ph, stg0.Clone(), cur0.Clone())
					init := snap(m)
					cases = append(cases, r.execCase(c, m, init, []Op{o}, fmt.Sprintf("T2/n%d/me%d/%s", n, me, kind), cs.progressed))
				}
				if len(cases) >= perFile {
					flush()
				}
			}
		}
	}
	flush()
	return
}

// randomOp picks the next operation of a random sequence, biased towards operations that make progress.
func (c *Ctx) randomOp(m machView) Op {
	g := c.G
	ph := m.Phase()
	cur := m.CurrentTX()
	pick := func(xs ...string) string { return xs[g.R.Intn(len(xs))] }
	var kind string
	if g.R.Intn(100) < 65 { // phase-appropriate
		switch ph {
		case channel.InitActing:
			kind = "Init"
		case channel.InitSigning:
			kind = pick("Sig", "AddSig", "AddSig", "EnableInit")
		case channel.Funding:
			kind = pick("SetFunded", "SetFunded", "SetRegistering")
		case channel.Acting:
			kind = pick("Update", "Update", "Update", "CheckUpdate", "SetRegistering", "ForceUpdate")
		case channel.Signing:
			kind = pick("Sig", "AddSig", "AddSig", "AddSig", "EnableUpdate", "EnableFinal", "Discard")
		case channel.Final:
			kind = pick("SetRegistering", "SetRegistered", "SetWithdrawing")
		case channel.Registering:
			kind = pick("SetRegistered")
		case channel.Registered:
			kind = pick("SetProgressing", "SetProgressed", "SetWithdrawing")
		case channel.Progressing:
			kind = pick("Sig", "AddSig", "SetProgressed")
		case channel.Progressed:
			kind = pick("SetProgressing", "SetWithdrawing")
		case channel.Withdrawing:
			kind = pick("SetWithdrawn")
		default:
			kind = pick("SetRegistered", "Sig")
		}
	} else {
		kind = pick("Init", "Update", "ForceUpdate", "CheckUpdate", "Sig", "AddSig", "EnableInit", "EnableUpdate", "EnableFinal", "Discard",
			"SetFunded", "SetRegistering", "SetRegistered", "SetProgressing", "SetProgressed", "SetWithdrawing", "SetWithdrawn")
		if kind == "ForceUpdate" && cur.State == nil {
			kind = "Update" // the forced update is applied only to machines that already have a current state
		}
	}
	return c.fillOp(kind, m)
}

// machView is what the generators look at (StateMachine and ActionMachine both provide it).
type machView interface {
	Phase() channel.Phase
	StagingTX() channel.Transaction
	CurrentTX() channel.Transaction
}

// fillOp chooses the arguments of an operation of the given kind.
func (c *Ctx) fillOp(kind string, m machView) Op {
	g := c.G
	stg, cur := m.StagingTX(), m.CurrentTX()
	curS := cur.State
	if curS == nil {
		curS = c.Base(0, false)
	}
	if curS.Valid() != nil || curS.NumParts() != c.N {
		curS = c.Base(curS.Version, false)
	}
	o := Op{Kind: kind, Class: "-"}
	switch kind {
	case "Init":
		al := c.alloc(100)
		o.Alloc, o.Data, o.Class = &al, c.data(), "valid"
		if g.R.Intn(5) == 0 {
			al.Balances[0] = al.Balances[0][:c.N-1]
			o.Class = "missing-participant"
		}
	case "Update", "ForceUpdate", "CheckUpdate", "SetProgressing", "SetProgressed":
		cands := c.Candidates(curS)
		cd := cands[0]
		if g.R.Intn(3) == 0 {
			cd = cands[g.R.Intn(len(cands))]
		} else if g.R.Intn(4) == 0 {
			cd = cands[1]
		}
		if kind != "Update" && kind != "CheckUpdate" && cd.s.Valid() != nil {
			cd = cands[0] // forced/progressed states are taken from valid states (model assumption)
		}
		o.S, o.Actor, o.Class = cd.s, cd.actor, cd.name
		if kind == "CheckUpdate" {
			o.Idx = (c.Me + 1) % c.N
			switch g.R.Intn(4) {
			case 0:
				o.Sig = c.Sign(o.Idx, cands[1].s)
				o.Class += "/sig-other-state"
			case 1:
				o.Sig = c.Sign(-1, cd.s)
				o.Class += "/foreign"
			default:
				o.Sig = c.Sign(o.Idx, cd.s)
			}
		}
	case "AddSig":
		o.Idx = g.R.Intn(c.N)
		target := stg.State
		if target == nil {
			target = curS
		}
		switch g.R.Intn(8) {
		case 0:
			o.Sig, o.Class = c.Sign((o.Idx+1)%c.N, target), "other-signer"
		case 1:
			o.Sig, o.Class = c.Sign(o.Idx, curS), "replayed-current"
		case 2:
			o.Sig, o.Class = c.Sign(-1, target), "foreign"
		case 3:
			junk := make([]byte, 64)
			g.R.Read(junk)
			o.Sig, o.Class = junk, "junk"
		default:
			o.Sig, o.Class = c.Sign(o.Idx, target), "valid"
		}
	}
	return o
}

func (r *runner) sequences(count, maxLen, perFile int) {
	kinds := []string{"none", "pay", "mock"}
	var c *Ctx
	var cases []string
	for k := 0; k < count; k++ {
		if c == nil {
			n := 2 + r.g.R.Intn(2)
			c = NewCtx(r.g, n, r.g.R.Intn(n), kinds[r.g.R.Intn(3)])
		}
		m, err := channel.NewStateMachine(c.AccMap(c.Me), *c.Params)
		if err != nil {
			panic(err)
		}
		init := snap(m)
		L := 5 + r.g.R.Intn(maxLen-4)
		// the generator looks at a twin machine that executes the same operations
		ops := make([]Op, 0, L)
		twin, _ := channel.NewStateMachine(c.AccMap(c.Me), *c.Params)
		for i := 0; i < L; i++ {
			o := c.randomOp(twin)
			ops = append(ops, o)
			c.Apply(twin, o)
		}
		cases = append(cases, r.execCase(c, m, init, ops, fmt.Sprintf("T1/n%d/%s", c.N, c.Kind), false))
		if len(cases) >= perFile {
			r.w.write(c, cases)
			cases = nil
			c = nil
		}
	}
	if c != nil {
		r.w.write(c, cases)
	}
}

// Run is shared by C01, C02 and C09: the same machinery with different emphasis.
func Run(prop string) func(seed int64, tier, out string) {
	return func(seed int64, tier, out string) {
		hx.Seed(seed)
		g := &cv.Gen{R: rand.New(rand.NewSource(hx.Rng.Int63()))}
		res := hx.NewResult(prop, seed, tier)
		r := &runner{prop: prop, res: res, w: &fileWriter{dir: out}, g: g}
		res.PerFile = 0
		perFile := 400
		states, transitions := 0, 0
		switch {
		case prop == "C09" && tier == "quick":
			s, t := r.exhaustive(2, 0, "none", perFile)
			states, transitions = s, t
			for _, kind := range []string{"none", "pay", "mock"} {
				r.replays(2, r.g.R.Intn(2), kind, perFile)
			}
			r.sequences(100, 40, 25)
			r.actionSequences(100, 40, 25)
		case prop == "C09":
			for _, cfg := range []struct {
				n, me int
				kind  string
			}{{2, 0, "none"}, {2, 1, "pay"}, {3, 0, "pay"}, {3, 2, "mock"}, {2, 1, "mock"}, {3, 1, "none"}} {
				s, t := r.exhaustive(cfg.n, cfg.me, cfg.kind, perFile)
				states += s
				transitions += t
			}
			r.sequences(1200, 300, 25)
			r.actionSequences(600, 120, 25)
		case tier == "quick":
			for _, kind := range []string{"none", "pay", "mock"} {
				r.acting(2, r.g.R.Intn(2), kind, perFile)
				r.acting(3, r.g.R.Intn(3), kind, perFile)
				r.replays(2, r.g.R.Intn(2), kind, perFile)
				r.replays(3, r.g.R.Intn(3), kind, perFile)
			}
			r.sequences(400, 60, 25)
		default:
			for _, kind := range []string{"none", "pay", "mock"} {
				for n := 2; n <= 4; n++ {
					r.acting(n, r.g.R.Intn(n), kind, perFile)
					r.replays(n, r.g.R.Intn(n), kind, perFile)
				}
			}
			s, t := r.exhaustive(2, 1, "pay", perFile)
			states, transitions = s, t
			r.sequences(1500, 300, 25)
		}
		res.Rule = "T2: every abstract machine state (12 phases x staging {none, (final?, signature mask)} x current {none, signed, signed final, progressed}) built in the real code with RestoreStateMachine, one step of every operation class; " +
			"T1: random operation sequences from fresh machines (65% phase-appropriate, 35% arbitrary operations; signatures valid / other signer / other state / replayed / foreign key / junk; candidates violating exactly one condition). " +
			"TA (C09): random operation sequences on fresh ActionMachines over AddAction/Init/Update and every inherited operation, with an ActionApp answering value / ActionError / runtime error / panic / unusable allocations / invalid successors as chosen by the action codes; outcome, app consulted, snapshot and staging actions compared with Model/ActionMachine.v after every step. " +
			"distinct = distinct (operation, argument class, phase before, staging/current presence, outcome, phase after)"
		if states > 0 {
			res.Exhaustive = false
		}
		res.Samples = append(res.Samples, map[string]interface{}{"abstract_states": states, "one_step_cases": transitions})
		res.Write(out)
	}
}
