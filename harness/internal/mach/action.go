package mach

// channel.ActionMachine against Model/ActionMachine.v (C09): random operation sequences over the
// complete alphabet of the action machine (AddAction, Init, Update and every operation inherited
// from the embedded machine), an ActionApp whose answers (value / ActionError / runtime error /
// panic / unusable values) are chosen by the action codes, oracles written from the property text.

import (
	"fmt"
	"math/big"
	"os"
	"path/filepath"
	"strings"

	"github.com/pkg/errors"

	"perun.network/go-perun/channel"
	"perun.network/go-perun/wallet"
	"verif/harness/internal/cv"
	"verif/harness/internal/hx"
)

type vAction struct{ code byte }

func (a *vAction) MarshalBinary() ([]byte, error) { return []byte{a.code}, nil }
func (a *vAction) UnmarshalBinary(b []byte) error {
	if len(b) != 1 {
		return errors.New("bad action")
	}
	a.code = b[0]
	return nil
}

// actApp is the harness's ActionApp. Def/NewData come from the mock app (registered with the
// resolver); every answer is recorded as the Coq term the model is fed with.
type actApp struct {
	channel.MockApp
	c      *Ctx
	called bool
	resp   string
}

func (a *actApp) NewAction() channel.Action { return &vAction{} }

func (a *actApp) ValidAction(p *channel.Params, s *channel.State, idx channel.Index, act channel.Action) error {
	a.called = true
	switch act.(*vAction).code {
	case 0xE0:
		a.resp = "AErr"
		return channel.NewActionError(p.ID(), "refused")
	case 0xE1:
		a.resp = "AErr"
		return errors.New("runtime error")
	case 0xE2:
		a.resp = "APanic"
		panic("app panics in ValidAction")
	}
	a.resp = "(ARet tt)"
	return nil
}

func (a *actApp) InitState(p *channel.Params, acts []channel.Action) (channel.Allocation, channel.Data, error) {
	a.called = true
	c := a.c
	al := channel.Allocation{Assets: c.Assets, Backends: make([]wallet.BackendID, len(c.Assets))}
	al.Balances = make(channel.Balances, len(c.Assets))
	short, negative := false, false
	for _, x := range acts {
		if x == nil {
			a.resp = "AErr"
			return channel.Allocation{}, nil, channel.NewActionError(p.ID(), "missing action")
		}
		switch x.(*vAction).code {
		case 0xD0:
			a.resp = "AErr"
			return channel.Allocation{}, nil, errors.New("runtime error")
		case 0xD1:
			short = true
		case 0xD2:
			a.resp = "APanic"
			panic("app panics in InitState")
		case 0xD3:
			negative = true
		}
	}
	for i := range al.Balances {
		al.Balances[i] = make([]channel.Bal, len(acts))
		for j, x := range acts {
			al.Balances[i][j] = big.NewInt(int64(x.(*vAction).code) + int64(i))
		}
	}
	if short {
		al.Balances[len(al.Balances)-1] = al.Balances[len(al.Balances)-1][:len(acts)-1]
	}
	if negative {
		al.Balances[0][0] = big.NewInt(-3)
	}
	d := channel.NewMockOp(channel.OpValid)
	a.resp = "(ARet (" + cv.Alloc(al) + ", " + cv.Data(d) + "))"
	return al, d, nil
}

func (a *actApp) ApplyActions(p *channel.Params, s *channel.State, acts []channel.Action) (*channel.State, error) {
	a.called = true
	if s == nil {
		a.resp = "APanic"
		panic("no current state")
	}
	n := s.Clone()
	n.Version++
	for i, x := range acts {
		if x == nil {
			continue
		}
		code := x.(*vAction).code
		switch {
		case code == 0xC0:
			a.resp = "AErr"
			return nil, channel.NewActionError(p.ID(), "refused")
		case code == 0xC1:
			n.IsFinal = true
		case code == 0xC2:
			n.Version += 5 // not a valid successor: the action machine does not check
		case code == 0xC3:
			a.resp = "APanic"
			panic("app panics in ApplyActions")
		case code < 0x80 && len(n.Balances) > 0 && len(n.Balances[0]) == len(acts):
			amt := big.NewInt(int64(code))
			if n.Balances[0][i].Cmp(amt) < 0 {
				amt = new(big.Int).Set(n.Balances[0][i])
			}
			j := (i + 1) % len(acts)
			n.Balances[0][i] = new(big.Int).Sub(n.Balances[0][i], amt)
			n.Balances[0][j] = new(big.Int).Add(n.Balances[0][j], amt)
		}
	}
	a.resp = "(ARet " + hx.Nat(a.c.St(n)) + ")"
	return n, nil
}

// ---------- operations ----------

var sharedKinds = map[string]bool{"Sig": true, "AddSig": true, "EnableInit": true, "EnableUpdate": true, "EnableFinal": true,
	"Discard": true, "SetFunded": true, "SetRegistering": true, "SetRegistered": true, "SetProgressing": true,
	"SetProgressed": true, "SetWithdrawing": true, "SetWithdrawn": true}

type aOp struct {
	Kind string // "Add", "AInit", "AUpdate" or a shared kind
	Idx  int
	Code byte
	Sh   Op
}

func (c *Ctx) applyAction(m *channel.ActionMachine, o aOp) (out string, sig wallet.Sig) {
	defer func() {
		if r := recover(); r != nil {
			out = "PANIC"
		}
	}()
	var err error
	switch o.Kind {
	case "Add":
		err = m.AddAction(channel.Index(o.Idx), &vAction{o.Code})
	case "AInit":
		err = m.Init()
	case "AUpdate":
		err = m.Update()
	case "Sig":
		staged := m.StagingState()
		sig, err = m.Sig()
		if err == nil {
			c.regOwn(sig, c.Me, staged)
			return "OKSig", sig
		}
	case "AddSig":
		err = m.AddSig(channel.Index(o.Sh.Idx), o.Sh.Sig)
	case "EnableInit":
		err = m.EnableInit()
	case "EnableUpdate":
		err = m.EnableUpdate()
	case "EnableFinal":
		err = m.EnableFinal()
	case "Discard":
		err = m.DiscardUpdate()
	case "SetFunded":
		err = m.SetFunded()
	case "SetRegistering":
		err = m.SetRegistering()
	case "SetRegistered":
		err = m.SetRegistered()
	case "SetProgressing":
		err = m.SetProgressing(o.Sh.S)
	case "SetProgressed":
		err = m.SetProgressed(&channel.ProgressedEvent{State: o.Sh.S})
	case "SetWithdrawing":
		err = m.SetWithdrawing()
	case "SetWithdrawn":
		err = m.SetWithdrawn()
	default:
		panic("unknown op " + o.Kind)
	}
	if err != nil {
		return "ERR", nil
	}
	return "OK", nil
}

func (c *Ctx) aopTerm(o aOp, resp string) string {
	switch o.Kind {
	case "Add":
		return hx.App("RAAdd", hx.N(uint64(o.Idx)), hx.N(uint64(o.Code)), resp)
	case "AInit":
		return hx.App("RAInit", resp)
	case "AUpdate":
		return hx.App("RAUpdate", resp)
	case "AddSig":
		return "(RAShared " + hx.App("RSAddSig", hx.N(uint64(o.Sh.Idx)), c.tokPlain(o.Sh.Sig)) + ")"
	case "SetProgressing":
		return "(RAShared " + hx.App("RSSetProgressing", hx.Nat(c.St(o.Sh.S))) + ")"
	case "SetProgressed":
		return "(RAShared " + hx.App("RSSetProgressed", hx.Nat(c.St(o.Sh.S))) + ")"
	default:
		return "(RAShared RS" + o.Kind + ")"
	}
}

func actCodes(m *channel.ActionMachine) []int {
	as := m.VerifStagingActions()
	out := make([]int, len(as))
	for i, a := range as {
		out[i] = -1
		if a != nil {
			out[i] = int(a.(*vAction).code)
		}
	}
	return out
}

func codesTerm(cs []int) string {
	ts := make([]string, len(cs))
	for i, x := range cs {
		ts[i] = "None"
		if x >= 0 {
			ts[i] = "(Some " + hx.N(uint64(x)) + ")"
		}
	}
	return hx.List(ts)
}

func codesEqual(a, b []int) bool {
	if len(a) != len(b) {
		return false
	}
	for i := range a {
		if a[i] != b[i] {
			return false
		}
	}
	return true
}

func asnap(m *channel.ActionMachine) Snap {
	return Snap{m.Phase(), m.StagingTX().Clone(), m.CurrentTX().Clone()}
}

// randomActionOp: 65% phase-appropriate, otherwise anything from the alphabet.
func (c *Ctx) randomActionOp(m *channel.ActionMachine) aOp {
	g := c.G
	pick := func(xs ...string) string { return xs[g.R.Intn(len(xs))] }
	var kind string
	// half of the steps in a signing round work towards completing it (next missing signature, then the
	// matching enable), so that update rounds complete and histories get several rounds deep
	if stg := m.StagingTX(); (m.Phase() == channel.Signing || m.Phase() == channel.InitSigning) && stg.State != nil && g.R.Intn(2) == 0 {
		missing := -1
		for i, sg := range stg.Sigs {
			if sg == nil && (missing < 0 || i == c.Me) {
				missing = i
			}
		}
		switch {
		case missing == c.Me:
			return aOp{Kind: "Sig", Sh: Op{Kind: "Sig", Class: "-"}}
		case missing >= 0:
			return aOp{Kind: "AddSig", Sh: Op{Kind: "AddSig", Idx: missing, Sig: c.Sign(missing, stg.State), Class: "valid"}}
		case m.Phase() == channel.InitSigning:
			return aOp{Kind: "EnableInit", Sh: Op{Kind: "EnableInit", Class: "-"}}
		case stg.State.IsFinal:
			return aOp{Kind: "EnableFinal", Sh: Op{Kind: "EnableFinal", Class: "-"}}
		default:
			return aOp{Kind: "EnableUpdate", Sh: Op{Kind: "EnableUpdate", Class: "-"}}
		}
	}
	if g.R.Intn(100) < 80 {
		switch m.Phase() {
		case channel.InitActing:
			kind = "Add"
			full := true
			for _, x := range actCodes(m) {
				full = full && x >= 0
			}
			if full || g.R.Intn(6) == 0 {
				kind = "AInit"
			}
		case channel.InitSigning:
			kind = pick("Sig", "AddSig", "AddSig", "EnableInit")
		case channel.Funding:
			kind = pick("SetFunded", "SetFunded", "SetRegistering")
		case channel.Acting:
			kind = pick("Add", "Add", "AUpdate", "AUpdate", "SetRegistering")
		case channel.Signing:
			kind = pick("Sig", "AddSig", "AddSig", "AddSig", "EnableUpdate", "EnableFinal", "Discard")
		case channel.Final:
			kind = pick("SetRegistering", "SetRegistered", "SetWithdrawing")
		case channel.Registering:
			kind = "SetRegistered"
		case channel.Registered:
			kind = pick("SetProgressing", "SetProgressed", "SetWithdrawing")
		case channel.Progressing:
			kind = pick("Sig", "AddSig", "SetProgressed")
		case channel.Progressed:
			kind = pick("SetProgressing", "SetWithdrawing")
		case channel.Withdrawing:
			kind = "SetWithdrawn"
		default:
			kind = pick("SetRegistered", "Sig", "Add")
		}
	} else {
		kind = pick("Add", "Add", "AInit", "AUpdate", "Sig", "AddSig", "EnableInit", "EnableUpdate", "EnableFinal", "Discard",
			"SetFunded", "SetRegistering", "SetRegistered", "SetProgressing", "SetProgressed", "SetWithdrawing", "SetWithdrawn")
	}
	o := aOp{Kind: kind}
	switch {
	case kind == "Add":
		o.Idx = g.R.Intn(c.N)
		// answers of the app that matter in the phase the machine is in are chosen more often: unusable
		// initial allocations before Init, refusals / final / invalid successors before Update
		special := []byte{0xD0, 0xD1, 0xD2, 0xD3}
		if m.Phase() != channel.InitActing {
			special = []byte{0xC0, 0xC1, 0xC2, 0xC2, 0xC3}
		}
		switch x := g.R.Intn(12); {
		case x == 0:
			o.Code = pickByte(g, 0xE0, 0xE1, 0xE2)
		case x <= 3:
			o.Code = pickByte(g, special...)
		case x == 4:
			o.Code = pickByte(g, 0xD0, 0xD1, 0xD2, 0xD3, 0xC0, 0xC1, 0xC2, 0xC3)
		default:
			o.Code = byte(1 + g.R.Intn(0x7E))
		}
	case sharedKinds[kind]:
		o.Sh = c.fillOp(kind, m)
	}
	return o
}

func pickByte(g *cv.Gen, xs ...byte) byte { return xs[g.R.Intn(len(xs))] }

func (w *fileWriter) writeAction(c *Ctx, cases []string) {
	if len(cases) == 0 {
		return
	}
	var sb strings.Builder
	sb.WriteString("From V Require Import Run.Compare_Action.\nOpen Scope list_scope.\n")
	fmt.Fprintf(&sb, "Definition P := %s.\n", c.ParamsTerm())
	fmt.Fprintf(&sb, "Definition sts := [\n%s\n].\n", strings.Join(c.sts, ";\n"))
	fmt.Fprintf(&sb, "Definition cases := [\n%s\n].\n", strings.Join(cases, ";\n"))
	fmt.Fprintf(&sb, "Definition M := Eval vm_compute in amismatches P sts %d%%nat cases.\nPrint M.\n", w.total)
	name := filepath.Join(w.dir, fmt.Sprintf("cases_%03d.v", w.nfiles))
	if err := os.WriteFile(name, []byte(sb.String()), 0o644); err != nil {
		panic(err)
	}
	w.nfiles++
	w.total += len(cases)
}

// execActionCase runs the operations on a fresh ActionMachine, records everything, checks oracles.
func (r *runner) execActionCase(c *Ctx, app *actApp, ops []aOp, class string) string {
	m, err := channel.NewActionMachine(c.AccMap(c.Me), *c.Params)
	if err != nil {
		panic(err)
	}
	caseIdx := len(r.res.CaseIndex)
	var opTerms, obs []string
	progressed := false
	for _, o := range ops {
		before, actsBefore := asnap(m), actCodes(m)
		app.called, app.resp = false, ""
		out, sig := c.applyAction(m, o)
		after, actsAfter := asnap(m), actCodes(m)
		resp := app.resp
		if !app.called {
			resp = "AErr" // not consulted: the model must not depend on it
		}
		opTerms = append(opTerms, c.aopTerm(o, resp))
		outT := "R" + out
		if out == "OKSig" {
			outT = "(ROKSig " + c.tokPlain(sig) + ")"
		}
		obs = append(obs, "("+outT+", "+hx.Bool(app.called)+", "+c.snapTerm(after)+", "+codesTerm(actsAfter)+")")
		key := fmt.Sprintf("%s/%d/%v/%v/%s/%d", o.Kind, before.Phase, before.Staging.State != nil, app.called, out, after.Phase)
		r.res.Count(class+"/"+o.Kind, out, key, false)
		fail := func(what string) {
			r.res.Fail(hx.Failure{Site: "channel.ActionMachine." + o.Kind, InputClass: "action@" + before.Phase.String(), What: what, Case: caseIdx,
				Replay: map[string]interface{}{"params": c.ParamsTerm(), "ops": opTerms}})
		}
		machSame := after.Phase == before.Phase && txEqual(after.Staging, before.Staging) && txEqual(after.Current, before.Current)
		// --- oracle (property text): a failing call changes nothing observable
		if (out == "ERR" || out == "PANIC") && !(machSame && codesEqual(actsBefore, actsAfter)) {
			fail("operation failed but changed phase, staged/current transaction or staging actions")
		}
		ok := out == "OK" || out == "OKSig"
		switch o.Kind {
		case "Add":
			inPhase := before.Phase == channel.InitActing || before.Phase == channel.Acting
			if ok && !(inPhase && actsBefore[o.Idx] < 0) {
				fail("AddAction succeeded outside an action phase or on a slot already set")
			}
			if ok && !(machSame && actsAfter[o.Idx] == int(o.Code)) {
				fail("AddAction succeeded but changed the machine or did not store the action")
			}
			if !ok && inPhase && actsBefore[o.Idx] < 0 && o.Code < 0x80 {
				fail("AddAction failed although phase, slot and app allow it")
			}
		case "AInit":
			if ok && !(before.Phase == channel.InitActing && after.Phase == channel.InitSigning) {
				fail("Init succeeded outside InitActing or did not end in InitSigning")
			}
			if ok {
				s := after.Staging.State
				if s == nil || s.Version != 0 || s.ID != c.Params.ID() || s.NumParts() != c.N || s.Valid() != nil || !txEqual(after.Current, before.Current) {
					fail("Init staged a state that is not version 0 / channel id / one valid balance per participant, or touched the current transaction")
				}
			}
		case "AUpdate":
			if ok && !(before.Phase == channel.Acting && after.Phase == channel.Signing && txEqual(after.Current, before.Current)) {
				fail("Update succeeded outside Acting, did not end in Signing or touched the current transaction")
			}
		default:
			allowed, target, decided := docPre(o.Sh, before, c.N)
			if decided && allowed && out == "ERR" && o.Kind != "Sig" {
				fail("documented precondition holds but the operation failed")
			}
			if decided && !allowed && ok {
				fail("operation succeeded although its documented precondition does not hold")
			}
			if ok && o.Kind != "AddSig" && o.Kind != "Sig" && after.Phase != target {
				fail(fmt.Sprintf("operation succeeded but left the machine in phase %v instead of %v", after.Phase, target))
			}
			if !codesEqual(actsBefore, actsAfter) {
				fail("an inherited operation changed the staging actions")
			}
		}
		if ok && (o.Kind == "AInit" || o.Kind == "AUpdate") {
			for _, x := range actsAfter {
				if x >= 0 {
					fail("staging actions not cleared after staging a state")
				}
			}
		}
		if out == "OKSig" {
			v, _ := channel.Verify(c.Accs[c.Me].Address(), before.Staging.State, sig)
			if !signingPhases[before.Phase] || before.Staging.State == nil || !v {
				fail("own signature produced outside a signing phase or not over the staged state")
			}
		}
		// --- C01 oracle on the embedded machine
		if o.Kind == "SetProgressed" && out == "OK" {
			progressed = true
		} else if !txEqual(after.Current, before.Current) {
			progressed = false
		}
		if after.Current.State != nil && !progressed {
			good := len(after.Current.Sigs) == c.N
			for i := 0; good && i < c.N; i++ {
				v, err := channel.Verify(c.Accs[i].Address(), after.Current.State, after.Current.Sigs[i])
				good = err == nil && v
			}
			if !good {
				fail("current transaction is not signed by every participant over exactly the current state")
			}
		}
	}
	r.res.CaseIndex = append(r.res.CaseIndex, class)
	return hx.App("mkACase", hx.N(uint64(c.Me)), hx.List(opTerms), hx.List(obs))
}

// actionSequences: random operation sequences on fresh action machines.
func (r *runner) actionSequences(count, maxLen, perFile int) {
	var c *Ctx
	var app *actApp
	var cases []string
	for k := 0; k < count; k++ {
		if c == nil {
			n := 2 + r.g.R.Intn(2)
			c = NewCtx(r.g, n, r.g.R.Intn(n), "action")
			app = c.Params.App.(*actApp)
			app.c = c
		}
		L := 5 + r.g.R.Intn(maxLen-4)
		twin, err := channel.NewActionMachine(c.AccMap(c.Me), *c.Params)
		if err != nil {
			panic(err)
		}
		ops := make([]aOp, 0, L)
		push := func(o aOp) {
			ops = append(ops, o)
			c.applyAction(twin, o)
		}
		// most sequences start with the opening carried out correctly, so that the random part works on a
		// funded machine (update rounds, disputes), where random choices alone seldom arrive
		if r.g.R.Intn(10) < 7 {
			for i := 0; i < c.N; i++ {
				push(aOp{Kind: "Add", Idx: i, Code: byte(1 + r.g.R.Intn(0x7E))})
			}
			push(aOp{Kind: "AInit"})
			push(aOp{Kind: "Sig", Sh: Op{Kind: "Sig", Class: "-"}})
			for i := 0; i < c.N; i++ {
				if i != c.Me && twin.StagingState() != nil {
					push(aOp{Kind: "AddSig", Sh: Op{Kind: "AddSig", Idx: i, Sig: c.Sign(i, twin.StagingState()), Class: "valid"}})
				}
			}
			push(aOp{Kind: "EnableInit", Sh: Op{Kind: "EnableInit", Class: "-"}})
			push(aOp{Kind: "SetFunded", Sh: Op{Kind: "SetFunded", Class: "-"}})
		}
		for i := 0; i < L; i++ {
			push(c.randomActionOp(twin))
		}
		cases = append(cases, r.execActionCase(c, app, ops, fmt.Sprintf("TA/n%d/action", c.N)))
		if len(cases) >= perFile {
			r.w.writeAction(c, cases)
			cases, c = nil, nil
		}
	}
	if c != nil {
		r.w.writeAction(c, cases)
	}
}
