// Package c08: channel opening — both sides derive the same channel; bad proposals are dropped.
//
// world.go: real go-perun clients (client.New over wire.NewLocalBus(), sim wallets, in-memory
// funder/adjudicator) plus a puppet that publishes crafted envelopes on the bus.
package c08

import (
	"context"
	"fmt"
	"math/rand"
	"runtime"
	"strings"
	"sync"
	"time"

	simwallet "perun.network/go-perun/backend/sim/wallet"
	simwire "perun.network/go-perun/backend/sim/wire"
	"perun.network/go-perun/channel"
	"perun.network/go-perun/client"
	"perun.network/go-perun/wallet"
	"perun.network/go-perun/watcher"
	"perun.network/go-perun/wire"
)

// ---------- in-memory ledger stubs ----------

type memFunder struct{}

func (memFunder) Fund(context.Context, channel.FundingReq) error { return nil }

type memSub struct{ done chan struct{} }

func (s *memSub) Next() channel.AdjudicatorEvent { <-s.done; return nil }
func (s *memSub) Err() error                     { return nil }
func (s *memSub) Close() error {
	select {
	case <-s.done:
	default:
		close(s.done)
	}
	return nil
}

type memAdj struct{}

func (memAdj) Register(context.Context, channel.AdjudicatorReq, []channel.SignedState) error {
	return nil
}
func (memAdj) Withdraw(context.Context, channel.AdjudicatorReq, channel.StateMap) error { return nil }
func (memAdj) Progress(context.Context, channel.ProgressReq) error                      { return nil }
func (memAdj) Subscribe(context.Context, channel.ID) (channel.AdjudicatorSubscription, error) {
	return &memSub{done: make(chan struct{})}, nil
}

type memWatcher struct{}

func (memWatcher) StartWatchingLedgerChannel(context.Context, channel.SignedState) (watcher.StatesPub, watcher.AdjudicatorSub, error) {
	return nil, nil, fmt.Errorf("no watcher")
}
func (memWatcher) StartWatchingSubChannel(context.Context, channel.ID, channel.SignedState) (watcher.StatesPub, watcher.AdjudicatorSub, error) {
	return nil, nil, fmt.Errorf("no watcher")
}
func (memWatcher) StopWatching(context.Context, channel.ID) error { return nil }

// ---------- parties ----------

const opTimeout = 60 * time.Second // generous: the machine is shared and loaded

type doneEvt struct {
	prop     client.ChannelProposal
	panicked interface{}
}

// acceptPlan tells a party's proposal handler how to answer the next proposal with a given ID.
type acceptPlan struct {
	acc   client.ChannelProposalAccept        // nil: build the accept message with the library's Accept API
	share client.NonceShare                   // the responder's nonce share chosen by the harness (acc == nil)
	part  map[wallet.BackendID]wallet.Address // the responder's participant (nil: a fresh account)
	res   chan acceptRes
}
type acceptRes struct {
	ch       *client.Channel
	acc      client.ChannelProposalAccept
	err      error
	panicked bool
}

type party struct {
	name   string
	cl     *client.Client
	addr   map[wallet.BackendID]wire.Address
	wal    *simwallet.Wallet
	rng    *rand.Rand
	jitter bool

	mu     sync.Mutex
	gate   *updGate                          // the next update request waits here for the harness' decision
	accts  [][]byte                          // marshalled addresses the wallet can unlock
	called map[client.ProposalID]int         // recording ProposalHandler: invocations per proposal ID
	plans  map[client.ProposalID]*acceptPlan // proposals to accept (positive runs)
	done   chan doneEvt                      // VerifHandle completion events (party under test only)
}

// detReader makes ecdsa.GenerateKey deterministic: its randutil.MaybeReadByte reads a single byte
// with probability 1/2, which must not shift the stream the key is derived from.
type detReader struct{ r *rand.Rand }

func (d detReader) Read(b []byte) (int, error) {
	if len(b) == 1 {
		b[0] = 0
		return 1, nil
	}
	return d.r.Read(b)
}

func (p *party) newAccount() *simwallet.Account {
	acc := simwallet.NewRandomAccount(detReader{rand.New(rand.NewSource(p.rng.Int63()))})
	if err := p.wal.AddAccount(acc); err != nil {
		panic(err)
	}
	b, err := acc.Address().MarshalBinary()
	if err != nil {
		panic(err)
	}
	p.mu.Lock()
	p.accts = append(p.accts, b)
	p.mu.Unlock()
	return acc
}

func (p *party) accounts() [][]byte {
	p.mu.Lock()
	defer p.mu.Unlock()
	return append([][]byte{}, p.accts...)
}

func (p *party) waddr(a *simwallet.Account) map[wallet.BackendID]wallet.Address {
	return map[wallet.BackendID]wallet.Address{0: a.Address()}
}

func (p *party) share() (s client.NonceShare) { p.rng.Read(s[:]); return }

// HandleProposal is the recording ProposalHandler. A proposal for which a plan is registered is
// accepted from another goroutine (handleChannelProposal holds the parent's mutex until the handler
// returns); every other proposal is only recorded.
func (p *party) HandleProposal(prop client.ChannelProposal, r *client.ProposalResponder) {
	id := prop.Base().ProposalID
	p.mu.Lock()
	p.called[id]++
	plan := p.plans[id]
	delete(p.plans, id)
	p.mu.Unlock()
	if plan == nil {
		return
	}
	go func() {
		if p.jitter {
			for i := p.rng.Intn(4); i > 0; i-- {
				sched()
			}
		}
		acc := plan.acc
		if acc == nil {
			acc = p.libraryAccept(prop, plan.part, plan.share)
		}
		ctx, cancel := context.WithTimeout(context.Background(), opTimeout)
		defer cancel()
		defer func() { // a panic below Accept must not take the harness down
			if x := recover(); x != nil {
				plan.res <- acceptRes{acc: acc, err: fmt.Errorf("panic: %v", x), panicked: true}
			}
		}()
		ch, err := r.Accept(ctx, acc)
		plan.res <- acceptRes{ch: ch, acc: acc, err: err}
	}()
}

// libraryAccept builds the accept message the way a user does: through the proposal's Accept method,
// with an explicit nonce share (client.WithNonce) and participant chosen by the harness.
func (p *party) libraryAccept(prop client.ChannelProposal, part map[wallet.BackendID]wallet.Address, share client.NonceShare) client.ChannelProposalAccept {
	if part == nil {
		part = p.waddr(p.newAccount())
	}
	switch x := prop.(type) {
	case *client.LedgerChannelProposalMsg:
		return x.Accept(part, client.WithNonce(share))
	case *client.SubChannelProposalMsg:
		return x.Accept(client.WithNonce(share))
	case *client.VirtualChannelProposalMsg:
		return x.Accept(part, client.WithNonce(share))
	}
	panic("unknown proposal type")
}

// updGate lets the harness hold an update request in the user's update handler: the client holds the
// channel's machine mutex while it waits for the user's decision.
type updGate struct {
	entered chan struct{} // closed when the update handler runs (the mutex is held from here on)
	decide  chan bool     // true: accept, false: reject
}

func (p *party) setGate() *updGate {
	g := &updGate{entered: make(chan struct{}), decide: make(chan bool, 1)}
	p.mu.Lock()
	p.gate = g
	p.mu.Unlock()
	return g
}

func (p *party) HandleUpdate(_ *channel.State, _ client.ChannelUpdate, r *client.UpdateResponder) {
	p.mu.Lock()
	g := p.gate
	p.gate = nil
	p.mu.Unlock()
	ctx, cancel := context.WithTimeout(context.Background(), opTimeout)
	defer cancel()
	if g != nil {
		close(g.entered)
		select {
		case ok := <-g.decide:
			if !ok {
				_ = r.Reject(ctx, "rejected by the harness")
				return
			}
		case <-time.After(opTimeout):
		}
	}
	_ = r.Accept(ctx)
}

func (p *party) plan(id client.ProposalID, acc client.ChannelProposalAccept) chan acceptRes {
	return p.planWith(id, &acceptPlan{acc: acc})
}

func (p *party) planWith(id client.ProposalID, pl *acceptPlan) chan acceptRes {
	pl.res = make(chan acceptRes, 1)
	p.mu.Lock()
	p.plans[id] = pl
	p.mu.Unlock()
	return pl.res
}

func (p *party) calledCount(id client.ProposalID) int {
	p.mu.Lock()
	defer p.mu.Unlock()
	return p.called[id]
}

// recBus is the local bus with a record of the accept messages that travelled over it.
type recBus struct {
	*wire.LocalBus
	mu   sync.Mutex
	accs map[client.ProposalID][]client.ChannelProposalAccept
}

func (b *recBus) Publish(ctx context.Context, e *wire.Envelope) error {
	if a, ok := e.Msg.(client.ChannelProposalAccept); ok {
		b.mu.Lock()
		b.accs[a.Base().ProposalID] = append(b.accs[a.Base().ProposalID], a)
		b.mu.Unlock()
	}
	return b.LocalBus.Publish(ctx, e)
}

// accepts returns the accept messages published for a proposal.
func (b *recBus) accepts(id client.ProposalID) []client.ChannelProposalAccept {
	b.mu.Lock()
	defer b.mu.Unlock()
	return append([]client.ChannelProposalAccept{}, b.accs[id]...)
}

type world struct {
	bus     *recBus
	parties []*party
}

// newWorld creates n parties; party 0 runs the instrumented VerifHandle loop (panic recovery and
// completion events), the others the real Client.Handle.
func newWorld(r *rand.Rand, n int, jitter bool) *world {
	w := &world{bus: &recBus{LocalBus: wire.NewLocalBus(), accs: map[client.ProposalID][]client.ChannelProposalAccept{}}}
	for i := 0; i < n; i++ {
		p := &party{name: string(rune('A' + i)), wal: simwallet.NewWallet(), rng: rand.New(rand.NewSource(r.Int63())),
			called: map[client.ProposalID]int{}, plans: map[client.ProposalID]*acceptPlan{}, done: make(chan doneEvt, 64), jitter: jitter}
		p.addr = map[wallet.BackendID]wire.Address{0: simwire.NewRandomAddress(p.rng)}
		cl, err := client.New(p.addr, w.bus, memFunder{}, memAdj{}, map[wallet.BackendID]wallet.Wallet{0: p.wal}, memWatcher{})
		if err != nil {
			panic(err)
		}
		p.cl = cl
		if i == 0 {
			go cl.VerifHandle(p, client.UpdateHandlerFunc(p.HandleUpdate), func(prop client.ChannelProposal, pv interface{}) {
				p.done <- doneEvt{prop, pv}
			})
		} else {
			go cl.Handle(p, client.UpdateHandlerFunc(p.HandleUpdate))
		}
		w.parties = append(w.parties, p)
	}
	return w
}

func (w *world) close() {
	for _, p := range w.parties {
		_ = p.cl.Close()
	}
}

// openRes is what both sides of one opening returned.
type openRes struct {
	prop   client.ChannelProposal
	share  client.NonceShare            // the responder's share the harness chose
	acc    client.ChannelProposalAccept // the accept message the responder handed to Accept
	chP    *client.Channel
	chR    *client.Channel
	errP   error
	errR   error
	called int // handler invocations at the responder
}

// open lets `from` propose prop to `to`
// (which accepts through the library's Accept API with the given participant and nonce share).
func (w *world) open(from, to *party, prop client.ChannelProposal, part map[wallet.BackendID]wallet.Address, share client.NonceShare) openRes {
	resc := to.planWith(prop.Base().ProposalID, &acceptPlan{share: share, part: part})
	ctx, cancel := context.WithTimeout(context.Background(), opTimeout)
	defer cancel()
	out := openRes{prop: prop, share: share}
	out.chP, out.errP = from.cl.ProposeChannel(ctx, prop)
	select {
	case r := <-resc:
		out.chR, out.errR, out.acc = r.ch, r.err, r.acc
	case <-time.After(opTimeout):
		out.errR = fmt.Errorf("responder did not finish")
	}
	if to == w.parties[0] { // consume the completion event of the instrumented loop
		select {
		case <-to.done:
		case <-time.After(opTimeout):
		}
	}
	out.called = to.calledCount(prop.Base().ProposalID)
	return out
}

// deliver publishes a crafted envelope on the bus (the puppet peer) to party 0 and waits until its
// handleChannelProposal has returned.
func (w *world) deliver(sender map[wallet.BackendID]wire.Address, prop client.ChannelProposal) (outcome string, detail string) {
	a := w.parties[0]
	before := a.calledCount(prop.Base().ProposalID)
	ctx, cancel := context.WithTimeout(context.Background(), opTimeout)
	defer cancel()
	if err := w.bus.Publish(ctx, &wire.Envelope{Sender: sender, Recipient: a.addr, Msg: prop}); err != nil {
		return "timeout", "publish: " + err.Error()
	}
	select {
	case e := <-a.done:
		if e.panicked != nil {
			return "panic", fmt.Sprint(e.panicked)
		}
	case <-time.After(opTimeout):
		return "timeout", "handleChannelProposal did not return"
	}
	if a.calledCount(prop.Base().ProposalID) > before {
		return "called", ""
	}
	return "dropped", ""
}

// goroutineIn reports whether some goroutine of the process is inside the named function.
func goroutineIn(fn string) bool {
	buf := make([]byte, 1<<20)
	for {
		n := runtime.Stack(buf, true)
		if n < len(buf) {
			return strings.Contains(string(buf[:n]), fn)
		}
		buf = make([]byte, 2*len(buf))
	}
}

// busyRes is the observation of one arrival-while-locked delivery.
type busyRes struct {
	outcome  string // called | dropped | panic | timeout
	detail   string
	early    bool  // handleChannelProposal returned while the update still held the parent's mutex
	blocked  bool  // the handler goroutine was seen waiting in prepareChannelOpening
	updErr   error // result of the peer's Channel.Update
	lockFree bool  // the parent's machine mutex could be taken afterwards
	skipped  string
}

// deliverBusy: the peer's update on the parent channel is held in party 0's update handler (the
// client holds the parent's machine mutex for the user's decision, as for any update in flight);
// the puppet publishes prop; once the handler goroutine waits for the mutex (or has returned) the
// update is decided, which moves the parent to its fully signed next state (or leaves it) and
// releases the mutex; then the handler goroutine runs on.
func (w *world) deliverBusy(sender map[wallet.BackendID]wire.Address, prop client.ChannelProposal,
	peerCh, ownCh *client.Channel, upd func(*channel.State), accept bool) busyRes {
	a := w.parties[0]
	before := a.calledCount(prop.Base().ProposalID)
	g := a.setGate()
	updDone := make(chan error, 1)
	go func() {
		ctx, cancel := context.WithTimeout(context.Background(), opTimeout)
		defer cancel()
		updDone <- peerCh.Update(ctx, upd)
	}()
	select {
	case <-g.entered:
	case err := <-updDone:
		a.mu.Lock()
		a.gate = nil
		a.mu.Unlock()
		return busyRes{skipped: fmt.Sprintf("the update did not reach the update handler: %v", err)}
	case <-time.After(opTimeout):
		return busyRes{skipped: "the update did not reach the update handler in time"}
	}
	// the parent's mutex is held now
	res := busyRes{}
	ctx, cancel := context.WithTimeout(context.Background(), opTimeout)
	defer cancel()
	if err := w.bus.Publish(ctx, &wire.Envelope{Sender: sender, Recipient: a.addr, Msg: prop}); err != nil {
		g.decide <- accept
		<-updDone
		return busyRes{skipped: "publish: " + err.Error()}
	}
	var evt *doneEvt
	deadline := time.Now().Add(20 * time.Second)
	for evt == nil && !res.blocked && time.Now().Before(deadline) {
		select {
		case e := <-a.done:
			evt = &e
		default:
			if goroutineIn("client.(*Client).prepareChannelOpening") {
				res.blocked = true
			} else {
				time.Sleep(100 * time.Microsecond)
			}
		}
	}
	res.early = evt != nil
	g.decide <- accept
	select {
	case res.updErr = <-updDone:
	case <-time.After(opTimeout):
		res.updErr = fmt.Errorf("update did not return")
	}
	if evt == nil {
		select {
		case e := <-a.done:
			evt = &e
		case <-time.After(opTimeout):
			res.outcome, res.detail = "timeout", "handleChannelProposal did not return"
		}
	}
	if evt != nil {
		switch {
		case evt.panicked != nil:
			res.outcome, res.detail = "panic", fmt.Sprint(evt.panicked)
		case a.calledCount(prop.Base().ProposalID) > before:
			res.outcome = "called"
		default:
			res.outcome = "dropped"
		}
	}
	// afterwards the parent must be unlocked again
	free := make(chan struct{})
	go func() { ownCh.Phase(); close(free) }()
	select {
	case <-free:
		res.lockFree = true
	case <-time.After(20 * time.Second):
	}
	return res
}
