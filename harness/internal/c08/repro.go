package c08

import (
	"fmt"
	"math/big"
	"math/rand"
	"runtime"

	simchannel "perun.network/go-perun/backend/sim/channel"
	"perun.network/go-perun/channel"
	"perun.network/go-perun/client"
	"perun.network/go-perun/wallet"
	"perun.network/go-perun/wire"
	"perun.network/go-perun/wire/protobuf"
)

func sched() { runtime.Gosched() }

func Run(seed int64, tier, out string) {}

func bal(xs ...int64) []channel.Bal {
	o := make([]channel.Bal, len(xs))
	for i, x := range xs {
		o[i] = big.NewInt(x)
	}
	return o
}

// Repro: throw-away reproduction of the suspected defects against the real code.
func Repro() {
	r := rand.New(rand.NewSource(1))
	w := newWorld(r, 3, false)
	A, B, I := w.parties[0], w.parties[1], w.parties[2]
	asset := &simchannel.Asset{ID: 7}
	mkAlloc := func(b ...int64) *channel.Allocation {
		return &channel.Allocation{Backends: []wallet.BackendID{0}, Assets: []channel.Asset{asset}, Balances: channel.Balances{bal(b...)}}
	}
	// ledger channel B -> A, A -> I
	lp, err := client.NewLedgerChannelProposal(10, B.waddr(B.newAccount()), mkAlloc(50, 50), []map[wallet.BackendID]wire.Address{B.addr, A.addr}, client.WithNonce(B.share()))
	if err != nil {
		panic(err)
	}
	o := w.open(B, A, lp, nil)
	fmt.Println("open B->A:", o.errP, o.errR, o.called, o.chP.ID() == o.chR.ID())
	lp2, _ := client.NewLedgerChannelProposal(10, A.waddr(A.newAccount()), mkAlloc(5, 5), []map[wallet.BackendID]wire.Address{A.addr, I.addr}, client.WithNonce(A.share()))
	o2 := w.open(A, I, lp2, nil)
	fmt.Println("open A->I:", o2.errP, o2.errR, o2.called, o2.chP.ID() == o2.chR.ID())
	lp3, _ := client.NewLedgerChannelProposal(10, B.waddr(B.newAccount()), mkAlloc(5, 5), []map[wallet.BackendID]wire.Address{B.addr, I.addr}, client.WithNonce(B.share()))
	o3 := w.open(B, I, lp3, nil)
	fmt.Println("open B->I:", o3.errP, o3.errR)
	// sub channel B -> A on the first
	sp, _ := client.NewSubChannelProposal(o.chP.ID(), 10, mkAlloc(3, 4), client.WithNonce(B.share()))
	os := w.open(B, A, sp, nil)
	fmt.Println("open sub B->A:", os.errP, os.errR, os.called)
	if os.chP != nil && os.chR != nil {
		fmt.Println("  same id:", os.chP.ID() == os.chR.ID(), "parent state A:", o.chR.State().Allocation)
	}
	// virtual channel B -> A via I
	mkV := func(bals *channel.Allocation, fa channel.Balances, parents []channel.ID, imaps [][]channel.Index) *client.VirtualChannelProposalMsg {
		vp, err := client.NewVirtualChannelProposal(10, B.waddr(B.newAccount()), bals, []map[wallet.BackendID]wire.Address{B.addr, A.addr},
			parents, imaps, client.WithNonce(B.share()))
		if err != nil {
			panic(err)
		}
		if fa != nil {
			vp.FundingAgreement = fa
		}
		return vp
	}
	parents := []channel.ID{o3.chP.ID(), o2.chP.ID()}
	good := mkV(mkAlloc(2, 3), nil, parents, [][]channel.Index{{0, 1}, {1, 0}})
	ov := w.open(B, A, good, nil)
	fmt.Println("open virtual B->A:", ov.errP, ov.errR, ov.called)
	if ov.chP != nil && ov.chR != nil {
		fmt.Println("  same id:", ov.chP.ID() == ov.chR.ID())
	}
	try := func(name string, p client.ChannelProposal) {
		oc, d := w.deliver(B.addr, p)
		fmt.Printf("%-50s -> %s %s\n", name, oc, d)
	}
	try("virtual good", mkV(mkAlloc(2, 3), nil, parents, [][]channel.Index{{0, 1}, {1, 0}}))
	try("virtual funds exceed parent", mkV(mkAlloc(2, 300), nil, parents, [][]channel.Index{{0, 1}, {1, 0}}))
	try("virtual fa != bals (defect 12)", mkV(mkAlloc(2, 3), channel.Balances{bal(3, 2)}, parents, [][]channel.Index{{0, 1}, {1, 0}}))
	try("virtual fa != bals + funds exceed", mkV(mkAlloc(2, 300), channel.Balances{bal(3, 2)}, parents, [][]channel.Index{{0, 1}, {1, 0}}))
	try("virtual fa != bals + 1 index map", mkV(mkAlloc(2, 3), channel.Balances{bal(3, 2)}, parents, [][]channel.Index{{0, 1}}))
	try("virtual fa != bals + imap entry 7", mkV(mkAlloc(2, 3), channel.Balances{bal(3, 2)}, parents, [][]channel.Index{{0, 1}, {7, 0}}))
	try("virtual one parent (defect 13)", mkV(mkAlloc(2, 3), nil, parents[:1], [][]channel.Index{{0, 1}, {1, 0}}))
	try("virtual no parents", mkV(mkAlloc(2, 3), nil, nil, [][]channel.Index{{0, 1}, {1, 0}}))
	try("virtual index map of length 3", mkV(mkAlloc(2, 3), nil, parents, [][]channel.Index{{0, 1}, {1, 0, 1}}))
	try("virtual empty index map, funds exceed", mkV(mkAlloc(200, 300), nil, parents, [][]channel.Index{{0, 1}, {}}))
	try("virtual index map [0,0], proposer funds exceed", mkV(mkAlloc(200, 3), nil, parents, [][]channel.Index{{0, 1}, {0, 0}}))
	// empty balances
	lpE, _ := client.NewLedgerChannelProposal(10, B.waddr(B.newAccount()), mkAlloc(5, 5), []map[wallet.BackendID]wire.Address{B.addr, A.addr}, client.WithNonce(B.share()))
	lpE.InitBals = &channel.Allocation{Backends: []wallet.BackendID{0}, Assets: []channel.Asset{asset}, Balances: channel.Balances{}}
	lpE.FundingAgreement = channel.Balances{}
	try("ledger empty balances", lpE)
	// the same through the protobuf decoder
	lpOK, _ := client.NewLedgerChannelProposal(10, B.waddr(B.newAccount()), mkAlloc(5, 5), []map[wallet.BackendID]wire.Address{B.addr, A.addr}, client.WithNonce(B.share()))
	pm, err := protobuf.FromLedgerChannelProposalMsg(lpOK)
	fmt.Println("protobuf from:", err)
	if err == nil {
		pm.LedgerChannelProposalMsg.BaseChannelProposal.InitBals.Balances.Balances = nil
		pm.LedgerChannelProposalMsg.BaseChannelProposal.FundingAgreement.Balances = nil
		dec, err := protobuf.ToLedgerChannelProposalMsg(pm)
		fmt.Println("protobuf decode of a proposal with an empty balances list: err =", err)
		if err == nil {
			try("ledger empty balances via protobuf decoder", dec)
		}
	}
	w.close()
}
