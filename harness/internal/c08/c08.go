// c08.go: the driver. Generators of well-formed proposals and of one mutant per validity condition,
// the oracle written from the property text, rendering of inputs and observations as terms of
// coq/Model/Open.v and coq/Run/Compare_C08.v.
package c08

import (
	"bytes"
	"context"
	"crypto/sha256"
	"fmt"
	"math/big"
	"math/rand"
	"os"
	"path/filepath"
	"regexp"
	"runtime"
	"strings"
	"time"

	"golang.org/x/crypto/sha3"

	simchannel "perun.network/go-perun/backend/sim/channel"
	simwire "perun.network/go-perun/backend/sim/wire"
	"perun.network/go-perun/channel"
	"perun.network/go-perun/client"
	"perun.network/go-perun/wallet"
	"perun.network/go-perun/wire"
	"perun.network/go-perun/wire/perunio"
	"verif/harness/internal/cv"
	"verif/harness/internal/hx"
)

func sched() { runtime.Gosched() }

type wmap = map[wallet.BackendID]wire.Address
type amap = map[wallet.BackendID]wallet.Address

// ---------- rendering (terms of coq/Model/Open.v, coq/Run/Compare_C08.v) ----------

func auxTerm(a channel.Aux) string {
	if a == channel.ZeroAux {
		return "aux0"
	}
	return hx.Hex(a[:])
}

func appTerm(a channel.App) string {
	if a == nil {
		return "ANil"
	}
	if channel.IsNoApp(a) {
		return "ANoApp"
	}
	b, err := a.Def().MarshalBinary()
	if err != nil {
		panic(err)
	}
	return hx.App("ADef", hx.Hex(b))
}

func pbaseTerm(b *client.BaseChannelProposal) string {
	bals := "None"
	if b.InitBals != nil {
		bals = hx.Opt(true, cv.Alloc(*b.InitBals))
	}
	return hx.App("mkPB", hx.Hex(b.ProposalID[:]), hx.N(b.ChallengeDuration), hx.Hex(b.NonceShare[:]), appTerm(b.App),
		cv.Data(b.InitData), bals, cv.Bals(b.FundingAgreement), auxTerm(b.Aux))
}

func ids(l []channel.ID) string {
	return hx.ListOf(l, func(id channel.ID) string { return hx.Hex(id[:]) })
}

func imaps(l [][]channel.Index) string {
	return hx.ListOf(l, func(m []channel.Index) string {
		return hx.ListOf(m, func(i channel.Index) string { return hx.N(uint64(i)) })
	})
}

func propTerm(p client.ChannelProposal) string {
	switch x := p.(type) {
	case *client.LedgerChannelProposalMsg:
		part := "None"
		if x.Participant != nil {
			part = hx.Opt(true, cv.Wamap(x.Participant))
		}
		return hx.App("PLedger", pbaseTerm(&x.BaseChannelProposal), part, cv.Ramaps(x.Peers))
	case *client.SubChannelProposalMsg:
		return hx.App("PSub", pbaseTerm(&x.BaseChannelProposal), hx.Hex(x.Parent[:]))
	case *client.VirtualChannelProposalMsg:
		return hx.App("PVirt", pbaseTerm(&x.BaseChannelProposal), cv.Wamap(x.Proposer), cv.Ramaps(x.Peers), ids(x.Parents), imaps(x.IndexMaps))
	}
	panic("unknown proposal")
}

func accTerm(a client.ChannelProposalAccept) string {
	switch x := a.(type) {
	case *client.LedgerChannelProposalAccMsg:
		return hx.App("ALedger", hx.Hex(x.ProposalID[:]), hx.Hex(x.NonceShare[:]), cv.Wamap(x.Participant))
	case *client.SubChannelProposalAccMsg:
		return hx.App("ASub", hx.Hex(x.ProposalID[:]), hx.Hex(x.NonceShare[:]))
	case *client.VirtualChannelProposalAccMsg:
		return hx.App("AVirt", hx.Hex(x.ProposalID[:]), hx.Hex(x.NonceShare[:]), cv.Wamap(x.Responder))
	}
	panic("unknown accept")
}

// chanSnap is what the receiver knows about one registered channel.
type chanSnap struct {
	id    channel.ID
	parts []amap
	peers []wmap
	idx   channel.Index
	state *channel.State
}

func snapOf(ch *client.Channel) chanSnap {
	return chanSnap{id: ch.ID(), parts: ch.Params().Parts, peers: ch.Peers(), idx: ch.Idx(), state: ch.State().Clone()}
}

func (c chanSnap) term() string {
	id := c.id
	return hx.App("mkCI", hx.Hex(id[:]), cv.Wamaps(c.parts), cv.Ramaps(c.peers), hx.N(uint64(c.idx)), cv.Alloc(c.state.Allocation))
}

// ctxSnap is the situation of one client: address, wallet, registered channels.
type ctxSnap struct {
	addr   wmap
	wallet [][]byte
	chans  []chanSnap
}

func (c ctxSnap) term() string {
	return hx.App("mkCtx", cv.Ramap(c.addr), hx.ListOf(c.wallet, hx.Hex), hx.ListOf(c.chans, chanSnap.term))
}

func (c ctxSnap) find(id channel.ID) (chanSnap, bool) {
	for _, ch := range c.chans {
		if ch.id == id {
			return ch, true
		}
	}
	return chanSnap{}, false
}

// ---------- cases writer: contexts are defined once per file ----------

type writer struct {
	dir     string
	perFile int
	nfiles  int
	total   int
	cases   []string
	ctxDefs []string
	ctxName map[string]string
	res     *hx.Result
}

// def names a term once per file.
func (w *writer) def(prefix, typ, t string) string {
	if n, ok := w.ctxName[prefix+t]; ok {
		return n
	}
	n := fmt.Sprintf("%s%d", prefix, len(w.ctxDefs))
	w.ctxName[prefix+t] = n
	w.ctxDefs = append(w.ctxDefs, fmt.Sprintf("Definition %s : %s := %s.", n, typ, t))
	return n
}

// ctx renders a client's situation; the wallet only matters for completeCPP.
func (w *writer) ctx(c ctxSnap, withWallet bool) string {
	wal := "[]"
	if withWallet {
		wal = w.def("wal", "list bytes", hx.ListOf(c.wallet, hx.Hex))
	}
	chans := w.def("chans", "list chaninfo", hx.ListOf(c.chans, func(ch chanSnap) string { return w.def("ci", "chaninfo", ch.term()) }))
	return hx.App("mkCtx", cv.Ramap(c.addr), wal, chans)
}

func (w *writer) add(term, class string) int {
	idx := w.total + len(w.cases)
	w.cases = append(w.cases, term)
	w.res.CaseIndex = append(w.res.CaseIndex, class)
	if len(w.cases) >= w.perFile {
		w.flush()
	}
	return idx
}

func (w *writer) flush() {
	if len(w.cases) == 0 {
		return
	}
	w.shareLiterals()
	var sb strings.Builder
	sb.WriteString("From V Require Import Run.Compare_C08.\nOpen Scope list_scope.\n")
	pd, _ := cv.PayDef.MarshalBinary()
	md, _ := cv.MockDef.MarshalBinary()
	fmt.Fprintf(&sb, "Definition RS := mk_resolver %s %s.\n", hx.Hex(pd), hx.Hex(md))
	sb.WriteString(strings.Join(w.ctxDefs, "\n"))
	fmt.Fprintf(&sb, "\nDefinition cases := [\n%s\n].\n", strings.Join(w.cases, ";\n"))
	fmt.Fprintf(&sb, "Definition M := Eval vm_compute in mismatches RS %d%%nat cases.\nPrint M.\n", w.total)
	if err := os.WriteFile(filepath.Join(w.dir, fmt.Sprintf("cases_%03d.v", w.nfiles)), []byte(sb.String()), 0o644); err != nil {
		panic(err)
	}
	w.nfiles++
	w.total += len(w.cases)
	w.cases, w.ctxDefs, w.ctxName = nil, nil, map[string]string{}
}

var hexLit = regexp.MustCompile(`\(unhex "[0-9a-f]{32,}"\)`)

// shareLiterals names every byte string that occurs more than once in the file (addresses, channel
// IDs, proposal IDs): Coq's cost is parsing the literals.
func (w *writer) shareLiterals() {
	count := map[string]int{}
	var order []string
	scan := func(t string) {
		for _, m := range hexLit.FindAllString(t, -1) {
			if count[m] == 0 {
				order = append(order, m)
			}
			count[m]++
		}
	}
	for _, t := range w.ctxDefs {
		scan(t)
	}
	for _, t := range w.cases {
		scan(t)
	}
	var defs []string
	var repl []string
	for _, m := range order {
		if count[m] < 2 {
			continue
		}
		n := fmt.Sprintf("h%d", len(defs))
		defs = append(defs, fmt.Sprintf("Definition %s : bytes := %s.", n, m[1:len(m)-1]))
		repl = append(repl, m, n)
	}
	r := strings.NewReplacer(repl...)
	for i := range w.ctxDefs {
		w.ctxDefs[i] = r.Replace(w.ctxDefs[i])
	}
	for i := range w.cases {
		w.cases[i] = r.Replace(w.cases[i])
	}
	w.ctxDefs = append(defs, w.ctxDefs...)
}

// ---------- the oracle: GoodProposal written from the property text over the Go values ----------

func sameWire(a, b wmap) bool {
	if len(a) != len(b) {
		return false
	}
	for k, v := range a {
		w, ok := b[k]
		if !ok || w == nil || v == nil {
			return false
		}
		x, _ := v.MarshalBinary()
		y, _ := w.MarshalBinary()
		if !bytes.Equal(x, y) {
			return false
		}
	}
	return true
}

func sameAssets(a, b []channel.Asset) bool {
	if len(a) != len(b) {
		return false
	}
	for i := range a {
		if cv.AssetID(a[i]) != cv.AssetID(b[i]) {
			return false
		}
	}
	return true
}

func sameBackends(a, b []wallet.BackendID) bool {
	if len(a) != len(b) {
		return false
	}
	for i := range a {
		if a[i] != b[i] {
			return false
		}
	}
	return true
}

// oracleGood: is the proposal one the user may be shown?  Returns the first violated condition.
func oracleGood(ctx ctxSnap, sender wmap, p client.ChannelProposal) (bool, string) {
	b := p.Base()
	// valid, not pre-locked initial allocation
	if b.InitBals == nil {
		return false, "no initial allocation"
	}
	al := b.InitBals
	if len(al.Assets) == 0 || len(al.Assets) > channel.MaxNumAssets {
		return false, "number of assets"
	}
	if len(al.Balances) != len(al.Assets) {
		return false, "one balance row per asset"
	}
	n := len(al.Balances[0])
	for _, row := range al.Balances {
		if len(row) != n {
			return false, "ragged balances"
		}
		for _, x := range row {
			if x == nil || x.Sign() < 0 {
				return false, "negative balance"
			}
		}
	}
	if len(al.Locked) != 0 {
		return false, "pre-locked funds"
	}
	// at least two participants, challenge duration
	if n < 2 || n > channel.MaxNumParts {
		return false, "number of participants"
	}
	if b.ChallengeDuration == 0 {
		return false, "challenge duration 0"
	}
	if b.App == nil {
		return false, "nil app"
	}
	// peers = (sender, receiver)
	var peers []wmap
	var parent chanSnap
	switch x := p.(type) {
	case *client.LedgerChannelProposalMsg:
		peers = x.Peers
		if x.Participant == nil {
			return false, "nil participant"
		}
	case *client.SubChannelProposalMsg:
		var ok bool
		if parent, ok = ctx.find(x.Parent); !ok {
			return false, "unknown parent"
		}
		peers = parent.peers
	case *client.VirtualChannelProposalMsg:
		peers = x.Peers
	}
	if len(peers) != 2 || n != 2 {
		return false, "not two peers"
	}
	if !sameWire(peers[0], sender) {
		return false, "proposer is not the sender"
	}
	if !sameWire(peers[1], ctx.addr) {
		return false, "receiver is not peer 1"
	}
	switch x := p.(type) {
	case *client.SubChannelProposalMsg:
		ps := parent.state
		if !sameAssets(ps.Assets, al.Assets) || !sameBackends(ps.Backends, al.Backends) {
			return false, "other assets than the parent"
		}
		if len(ps.Balances) != len(al.Balances) {
			return false, "dimension"
		}
		for i := range al.Balances {
			if len(ps.Balances[i]) != len(al.Balances[i]) {
				return false, "dimension"
			}
			for j := range al.Balances[i] {
				if al.Balances[i][j].Cmp(ps.Balances[i][j]) > 0 {
					return false, "more funds than the parent holds"
				}
			}
		}
	case *client.VirtualChannelProposalMsg:
		if len(x.Parents) != n || len(x.IndexMaps) != n {
			return false, "parent list / index maps"
		}
		var ok bool
		if parent, ok = ctx.find(x.Parents[1]); !ok {
			return false, "unknown parent"
		}
		ps := parent.state
		if !sameAssets(ps.Assets, al.Assets) || !sameBackends(ps.Backends, al.Backends) {
			return false, "other assets than the parent"
		}
		if len(x.FundingAgreement) != len(al.Balances) {
			return false, "funding agreement"
		}
		for i := range al.Balances {
			if len(x.FundingAgreement[i]) != len(al.Balances[i]) {
				return false, "funding agreement"
			}
			for j := range al.Balances[i] {
				if x.FundingAgreement[i][j].Cmp(al.Balances[i][j]) != 0 {
					return false, "funding agreement"
				}
			}
		}
		im := x.IndexMaps[1]
		if len(im) != n {
			return false, "index map length"
		}
		seen := map[channel.Index]bool{}
		for _, q := range im {
			if int(q) >= n || seen[q] {
				return false, "index map entries"
			}
			seen[q] = true
		}
		if len(ps.Balances) != len(al.Balances) {
			return false, "dimension"
		}
		for i := range al.Balances {
			for pidx, q := range im {
				if int(q) >= len(ps.Balances[i]) || al.Balances[i][pidx].Cmp(ps.Balances[i][q]) > 0 {
					return false, "funds exceed the parent's"
				}
			}
		}
	}
	return true, ""
}

// ---------- observation of an opened channel ----------

func idPreimage(p *channel.Params) []byte {
	var buf bytes.Buffer
	if err := perunio.Encode(&buf, wallet.AddressMapArray{Addr: p.Parts}, p.Nonce, p.ChallengeDuration, channel.OptAppEnc{App: p.App}, p.LedgerChannel, p.VirtualChannel); err != nil {
		panic(err)
	}
	return buf.Bytes()
}

// noncePreimage: what the property says the nonce is the hash of: the proposer's share as sent in
// the proposal, then the share the responder chose.
func noncePreimage(prop client.ChannelProposal, responderShare client.NonceShare) []byte {
	a := prop.Base().NonceShare
	return append(append([]byte{}, a[:]...), responderShare[:]...)
}

func obsTerm(ch *client.Channel, npre []byte) string {
	id := ch.ID()
	return hx.App("mkObs", cv.Params(ch.Params()), hx.Hex(id[:]), hx.Hex(idPreimage(ch.Params())), hx.Hex(npre),
		hx.N(uint64(ch.Idx())), cv.Ramaps(ch.Peers()), cv.State(ch.State()))
}

// ---------- the driver ----------

type driver struct {
	g    *cv.Gen
	w    *writer
	res  *hx.Result
	tier string
	// per world
	wd       *world
	A, B, I  *party
	assets   []channel.Asset
	chans    map[*party][]*client.Channel
	accts    map[*party][][]byte
	ntbl     []string // known nonce hashes: (pre-image, nonce)
	itbl     []string // known ID hashes: (pre-image, id)
	anyPanic bool
	gmp      int
	bPart    amap // B's participant address in delivered proposals
	quick    bool
}

func (d *driver) fail(site, class, what string, idx int, replay interface{}) {
	d.res.Fail(hx.Failure{Site: site, InputClass: class, What: what, Case: idx, Replay: replay})
}

func (d *driver) snap(p *party) ctxSnap {
	c := ctxSnap{addr: p.addr}
	for _, a := range p.accounts() {
		c.wallet = append(c.wallet, a)
	}
	for _, ch := range d.chans[p] {
		c.chans = append(c.chans, snapOf(ch))
	}
	return c
}

func (d *driver) bigBal(max *big.Int) *big.Int {
	// a balance in [0, max], biased to the ends
	switch d.g.R.Intn(6) {
	case 0:
		return big.NewInt(0)
	case 1:
		return new(big.Int).Set(max)
	}
	if max.Sign() == 0 {
		return big.NewInt(0)
	}
	return new(big.Int).Rand(d.g.R, new(big.Int).Add(max, big.NewInt(1)))
}

// bal: a non-negative balance, mostly small, sometimes beyond 64 and 256 bits.
func (d *driver) bal() *big.Int {
	switch d.g.R.Intn(12) {
	case 0:
		return big.NewInt(0)
	case 1, 2:
		return new(big.Int).SetUint64(d.g.R.Uint64())
	case 3:
		b := make([]byte, 9+d.g.R.Intn(32))
		d.g.R.Read(b)
		return new(big.Int).SetBytes(b)
	}
	return big.NewInt(int64(d.g.R.Intn(100000)))
}

func (d *driver) alloc(f func(asset, part int) *big.Int) *channel.Allocation {
	a := &channel.Allocation{}
	for i, as := range d.assets {
		a.Assets = append(a.Assets, as)
		a.Backends = append(a.Backends, 0)
		row := make([]channel.Bal, 2)
		for j := range row {
			row[j] = f(i, j)
		}
		a.Balances = append(a.Balances, row)
	}
	return a
}

func (d *driver) parentAlloc() *channel.Allocation {
	return d.alloc(func(int, int) *big.Int {
		// large enough to host sub-channels and virtual channels, of varying size
		return new(big.Int).Add(d.bal(), big.NewInt(int64(1000+d.g.R.Intn(1000))))
	})
}

func (d *driver) opts(p *party, withApp bool) []client.ProposalOpts {
	return d.optsApp(p, withApp, true)
}

// optsApp: a channel that will be the parent of sub-channels must not run the payment app (funding
// a sub-channel debits both participants, which the payment app refuses).
func (d *driver) optsApp(p *party, withApp, payOK bool) []client.ProposalOpts {
	o := []client.ProposalOpts{client.WithNonce(p.share())}
	if withApp {
		app, data := d.g.AppData()
		if app == channel.App(cv.PayApp) && !payOK {
			app, data = channel.NoApp(), channel.NoData()
		}
		if app == channel.App(cv.MockApp) {
			data = channel.NewMockOp(channel.OpValid) // the app must accept the initial state
		}
		o = append(o, client.WithApp(app, data))
	}
	if d.g.R.Intn(3) == 0 {
		var aux channel.Aux
		d.g.R.Read(aux[:])
		o = append(o, client.WithAux(aux))
	}
	return o
}

// pid replaces the proposal ID (go-perun draws it from crypto/rand) by one from the run's PRNG.
func (d *driver) pid(p client.ChannelProposal) {
	d.g.R.Read(p.Base().ProposalID[:])
}

func (d *driver) cd() uint64 { return 1 + d.g.R.Uint64()>>uint(d.g.R.Intn(64)) }

// recordOpen checks the oracle for a completed opening and writes the COpen case.
func (d *driver) recordOpen(kind string, from, to *party, ctxP, ctxR ctxSnap, o openRes) bool {
	class := "open/" + kind
	if o.errP != nil || o.errR != nil || o.chP == nil || o.chR == nil {
		d.res.Count(class, "failed", class+"/failed", false)
		d.fail("client.ProposeChannel/ProposalResponder.Accept", class, fmt.Sprintf("a well-formed %s channel proposal was accepted but the channel was not opened: proposer: %v, responder: %v", kind, o.errP, o.errR), -1, propTerm(o.prop))
		return false
	}
	// the registries as they were before, the wallets as they are when completeCPP runs (the
	// responder creates its participant account while accepting)
	ctxP.wallet, ctxR.wallet = from.accounts(), to.accounts()
	// the accept message as it travelled over the bus (what the proposer completed the protocol with)
	// and the nonce pre-image the property demands: (proposer's share, the share the responder chose)
	seen := d.wd.bus.accepts(o.prop.Base().ProposalID)
	wireAcc := o.acc
	if len(seen) > 0 {
		wireAcc = seen[0]
	}
	npre := noncePreimage(o.prop, o.share)
	term := hx.App("COpen", d.w.ctx(ctxP, true), d.w.ctx(ctxR, true), propTerm(o.prop), accTerm(wireAcc), hx.Hex(o.share[:]), obsTerm(o.chP, npre), obsTerm(o.chR, npre))
	idx := d.w.add(term, class)
	d.res.Count(class, "opened", fmt.Sprintf("%s/%d/gmp%d", class, len(d.assets), d.gmp), false)
	d.res.Sample(map[string]interface{}{"class": class, "id": fmt.Sprintf("%x", o.chP.ID())})
	bad := func(what string) { d.fail("client.completeCPP", class, what, idx, propTerm(o.prop)) }
	pp, pr := o.chP.Params(), o.chR.Params()
	// a nonce contribution from each side: the accept message carries the share the responder chose
	if len(seen) != 1 {
		bad(fmt.Sprintf("%d accept messages for the proposal on the bus", len(seen)))
	}
	if wireAcc.Base().NonceShare != o.share || o.acc.Base().NonceShare != o.share {
		d.fail("client.ChannelProposal.Accept", class, "the accept message does not carry the nonce share the responder chose (WithNonce): the responder's contribution to the channel ID is lost", idx, propTerm(o.prop))
	}
	if wireAcc.Base().ProposalID != o.prop.Base().ProposalID {
		bad("the accept message answers another proposal")
	}
	// identical parameters and ID, same participant order
	if pp.ID() != pr.ID() || o.chP.ID() != o.chR.ID() {
		bad("proposer and responder obtained different channel IDs")
	}
	if pp.ChallengeDuration != pr.ChallengeDuration || pp.Nonce.Cmp(pr.Nonce) != 0 || pp.LedgerChannel != pr.LedgerChannel ||
		pp.VirtualChannel != pr.VirtualChannel || pp.Aux != pr.Aux || cv.AppDef(pp.App) != cv.AppDef(pr.App) {
		bad("proposer and responder obtained different parameters")
	}
	if cv.Wamaps(pp.Parts) != cv.Wamaps(pr.Parts) {
		bad("proposer and responder have a different participant order")
	}
	if o.chP.Idx() != 0 || o.chR.Idx() != 1 {
		bad("proposer is not participant 0 or responder not participant 1")
	}
	b := o.prop.Base()
	if pp.ChallengeDuration != b.ChallengeDuration || cv.AppDef(pp.App) != cv.AppDef(b.App) || pp.Aux != b.Aux {
		bad("the channel parameters are not the proposed ones")
	}
	// the ID is the hash of the parameters, the nonce the hash of both shares
	if sha256.Sum256(idPreimage(pp)) != pp.ID() {
		bad("the channel ID is not the SHA-256 of the parameters")
	}
	h := sha3.Sum256(npre)
	if new(big.Int).SetBytes(h[:]).Cmp(pp.Nonce) != 0 {
		d.fail("client.calcNonce", class, "the channel nonce is not the hash of (proposer's share, responder's chosen share)", idx, propTerm(o.prop))
	}
	if new(big.Int).SetBytes(h[:]).Cmp(pr.Nonce) != 0 {
		d.fail("client.calcNonce", class, "the responder's channel nonce is not the hash of (proposer's share, responder's chosen share)", idx, propTerm(o.prop))
	}
	// same fully signed version-0 state with the proposed balances and data
	sp, sr := o.chP.State(), o.chR.State()
	if cv.State(sp) != cv.State(sr) {
		bad("proposer and responder hold different states")
	}
	if sp.Version != 0 || sp.ID != pp.ID() || sp.IsFinal || cv.Alloc(sp.Allocation) != cv.Alloc(*b.InitBals) || cv.Data(sp.Data) != cv.Data(b.InitData) {
		bad("the initial state is not version 0 with the proposed balances and data")
	}
	for _, ch := range []*client.Channel{o.chP, o.chR} {
		tx := ch.VerifCurrentTX()
		if tx.State == nil || cv.State(tx.State) != cv.State(sp) || len(tx.Sigs) != len(pp.Parts) {
			bad("the current transaction is not the initial state with one signature per participant")
			continue
		}
		for i, sig := range tx.Sigs {
			okv, err := channel.Verify(pp.Parts[i][0], tx.State, sig)
			if err != nil || !okv {
				bad(fmt.Sprintf("signature %d of the initial state does not verify", i))
			}
		}
	}
	if o.called != 1 {
		bad(fmt.Sprintf("the proposal handler ran %d times", o.called))
	}
	d.chans[from] = append(d.chans[from], o.chP)
	d.chans[to] = append(d.chans[to], o.chR)
	id := pp.ID()
	d.ntbl = append(d.ntbl, "("+hx.Hex(npre)+", "+hx.Z(pp.Nonce)+")")
	d.itbl = append(d.itbl, "("+hx.Hex(idPreimage(pp))+", "+hx.Hex(id[:])+")")
	return true
}

func (d *driver) openLedger(from, to *party, withApp bool) *client.Channel {
	prop, err := client.NewLedgerChannelProposal(d.cd(), from.waddr(from.newAccount()), d.parentAlloc(), []wmap{from.addr, to.addr}, d.opts(from, withApp)...)
	if err != nil {
		panic(err)
	}
	d.pid(prop)
	cp, cr := d.snap(from), d.snap(to)
	o := d.wd.open(from, to, prop, nil, to.share())
	if !d.recordOpen("ledger", from, to, cp, cr, o) {
		return nil
	}
	d.reopen("ledger", from, to, o)
	return o.chP
}

// reopen repeats an opening with the same proposal contents (in particular the same proposer share,
// challenge duration, app and participants) and another responder share: the responder's
// contribution alone must yield another channel, so the second opening succeeds with another ID.
func (d *driver) reopen(kind string, from, to *party, o openRes) {
	var prop client.ChannelProposal
	var part amap
	switch x := o.prop.(type) {
	case *client.LedgerChannelProposalMsg:
		c := *x
		c.InitBals, c.FundingAgreement = cloneAlloc(x.InitBals), x.FundingAgreement.Clone()
		prop, part = &c, o.acc.(*client.LedgerChannelProposalAccMsg).Participant
	case *client.SubChannelProposalMsg:
		c := *x
		c.InitBals, c.FundingAgreement = cloneAlloc(x.InitBals), x.FundingAgreement.Clone()
		prop = &c
	case *client.VirtualChannelProposalMsg:
		c := *x
		c.InitBals, c.FundingAgreement = cloneAlloc(x.InitBals), x.FundingAgreement.Clone()
		prop, part = &c, o.acc.(*client.VirtualChannelProposalAccMsg).Responder
	}
	d.pid(prop)
	cp, cr := d.snap(from), d.snap(to)
	o2 := d.wd.open(from, to, prop, part, to.share())
	class := "open/" + kind + "-same-proposer-share"
	if !d.recordOpen(kind+"-same-proposer-share", from, to, cp, cr, o2) {
		return
	}
	if o2.chP.ID() == o.chP.ID() || o2.chP.Params().Nonce.Cmp(o.chP.Params().Nonce) == 0 {
		d.fail("client.calcNonce", class, "two openings that differ only in the responder's nonce share obtained the same channel ID", -1, propTerm(prop))
	}
}

// within returns balances not above the given ones.
func (d *driver) within(limit channel.Balances, col func(part int) int) func(int, int) *big.Int {
	return func(a, p int) *big.Int { return d.bigBal(limit[a][col(p)]) }
}

func (d *driver) openSub(from, to *party, parent channel.ID) {
	ps, ok := d.snap(from).find(parent)
	if !ok {
		return
	}
	// a quarter of the parent's funds at most: the opening is repeated with the same balances
	al := d.alloc(func(a, p int) *big.Int { return d.bigBal(new(big.Int).Rsh(ps.state.Balances[a][p], 2)) })
	prop, err := client.NewSubChannelProposal(parent, d.cd(), al, d.opts(from, d.g.R.Intn(3) == 0)...)
	if err != nil {
		panic(err)
	}
	d.pid(prop)
	cp, cr := d.snap(from), d.snap(to)
	o := d.wd.open(from, to, prop, nil, to.share())
	if d.recordOpen("sub", from, to, cp, cr, o) {
		d.reopen("sub", from, to, o)
	}
}

// virtualProposal builds a well-formed virtual channel proposal from -> to through the hub I.
func (d *driver) virtualProposal(from, to *party, part amap) *client.VirtualChannelProposalMsg {
	pf, pt := d.hubChannel(from), d.hubChannel(to)
	if pf == nil || pt == nil {
		return nil
	}
	sf, st := pf.State(), pt.State()
	imF := []channel.Index{pf.Idx(), 1 - pf.Idx()} // proposer -> itself, responder -> the hub
	imT := []channel.Index{1 - pt.Idx(), pt.Idx()} // proposer -> the hub, responder -> itself
	al := d.alloc(func(a, p int) *big.Int {
		// participant p must be covered in both parents at the mapped positions
		x, y := sf.Balances[a][imF[p]], st.Balances[a][imT[p]]
		if x.Cmp(y) > 0 {
			x = y
		}
		// leave room for several virtual channels
		return d.bigBal(new(big.Int).Rsh(x, 2))
	})
	prop, err := client.NewVirtualChannelProposal(d.cd(), part, al, []wmap{from.addr, to.addr},
		[]channel.ID{pf.ID(), pt.ID()}, [][]channel.Index{imF, imT}, d.opts(from, false)...)
	if err != nil {
		panic(err)
	}
	d.pid(prop)
	return prop
}

func (d *driver) hubChannel(p *party) *client.Channel {
	for _, ch := range d.chans[p] {
		if ch.Params().LedgerChannel && (sameWire(ch.Peers()[0], d.I.addr) || sameWire(ch.Peers()[1], d.I.addr)) {
			return ch
		}
	}
	return nil
}

func (d *driver) openVirtual(from, to *party) {
	prop := d.virtualProposal(from, to, from.waddr(from.newAccount()))
	if prop == nil {
		return
	}
	cp, cr := d.snap(from), d.snap(to)
	o := d.wd.open(from, to, prop, nil, to.share())
	if d.recordOpen("virtual", from, to, cp, cr, o) {
		d.reopen("virtual", from, to, o)
	}
}

// ---------- delivered proposals ----------

type mutant struct {
	name string
	p    client.ChannelProposal
	from wmap
}

func cloneAlloc(a *channel.Allocation) *channel.Allocation {
	c := a.Clone()
	return &c
}

func (d *driver) rid() (id channel.ID) { d.g.R.Read(id[:]); return }

func (d *driver) raddr() wmap { return wmap{0: simwire.NewRandomAddress(d.g.R)} }

// baseMutants: one broken generic condition each. mk returns a fresh well-formed proposal.
func (d *driver) baseMutants(kind string, mk func() client.ChannelProposal, sender wmap) []mutant {
	var out []mutant
	add := func(name string, f func(p client.ChannelProposal) wmap) {
		p := mk()
		if p == nil {
			return
		}
		from := sender
		if s := f(p); s != nil {
			from = s
		}
		out = append(out, mutant{kind + "/" + name, p, from})
	}
	setBals := func(p client.ChannelProposal, b channel.Balances) {
		p.Base().InitBals.Balances = b
		p.Base().FundingAgreement = b.Clone()
	}
	add("wellformed", func(client.ChannelProposal) wmap { return nil })
	add("cd=0", func(p client.ChannelProposal) wmap { p.Base().ChallengeDuration = 0; return nil })
	add("one-participant", func(p client.ChannelProposal) wmap {
		b := p.Base().InitBals.Balances.Clone()
		for i := range b {
			b[i] = b[i][:1]
		}
		setBals(p, b)
		return nil
	})
	add("three-participants", func(p client.ChannelProposal) wmap {
		b := p.Base().InitBals.Balances.Clone()
		for i := range b {
			b[i] = append(b[i], d.bal())
		}
		setBals(p, b)
		return nil
	})
	add("empty-balances", func(p client.ChannelProposal) wmap { setBals(p, channel.Balances{}); return nil })
	add("no-assets", func(p client.ChannelProposal) wmap {
		p.Base().InitBals.Assets, p.Base().InitBals.Backends = nil, nil
		setBals(p, channel.Balances{})
		return nil
	})
	add("empty-rows", func(p client.ChannelProposal) wmap {
		b := p.Base().InitBals.Balances.Clone()
		for i := range b {
			b[i] = []channel.Bal{}
		}
		setBals(p, b)
		return nil
	})
	add("rows!=assets", func(p client.ChannelProposal) wmap {
		b := p.Base().InitBals.Balances.Clone()
		if d.g.R.Intn(2) == 0 && len(b) > 1 {
			b = b[:len(b)-1]
		} else {
			b = append(b, []channel.Bal{d.bal(), d.bal()})
		}
		setBals(p, b)
		return nil
	})
	add("ragged", func(p client.ChannelProposal) wmap {
		if len(d.assets) < 2 {
			p.Base().InitBals.Assets = append(p.Base().InitBals.Assets, d.g.Asset())
			p.Base().InitBals.Backends = append(p.Base().InitBals.Backends, 0)
			b := append(p.Base().InitBals.Balances.Clone(), []channel.Bal{d.bal()})
			setBals(p, b)
			return nil
		}
		b := p.Base().InitBals.Balances.Clone()
		i := 1 + d.g.R.Intn(len(b)-1)
		if d.g.R.Intn(2) == 0 {
			b[i] = b[i][:1]
		} else {
			b[i] = append(b[i], d.bal())
		}
		setBals(p, b)
		return nil
	})
	add("negative", func(p client.ChannelProposal) wmap {
		b := p.Base().InitBals.Balances.Clone()
		i, j := d.g.R.Intn(len(b)), d.g.R.Intn(2)
		b[i][j] = new(big.Int).Neg(new(big.Int).Add(b[i][j], big.NewInt(1)))
		setBals(p, b)
		return nil
	})
	add("pre-locked", func(p client.ChannelProposal) wmap {
		bals := make([]channel.Bal, len(p.Base().InitBals.Assets))
		for i := range bals {
			bals[i] = big.NewInt(int64(d.g.R.Intn(3)))
		}
		p.Base().InitBals.Locked = []channel.SubAlloc{*channel.NewSubAlloc(d.rid(), bals, nil)}
		return nil
	})
	add("nil-allocation", func(p client.ChannelProposal) wmap { p.Base().InitBals = nil; return nil })
	add("nil-app", func(p client.ChannelProposal) wmap { p.Base().App = nil; return nil })
	add("sender-is-third-party", func(client.ChannelProposal) wmap { return d.I.addr })
	add("sender-is-random", func(client.ChannelProposal) wmap { return d.raddr() })
	add("sender-is-receiver", func(client.ChannelProposal) wmap { return d.A.addr })
	return out
}

func (d *driver) ledgerProposal() *client.LedgerChannelProposalMsg {
	al := d.alloc(func(int, int) *big.Int { return d.bal() })
	prop, err := client.NewLedgerChannelProposal(d.cd(), d.bPart, al, []wmap{d.B.addr, d.A.addr}, d.opts(d.B, d.g.R.Intn(2) == 0)...)
	if err != nil {
		panic(err)
	}
	d.pid(prop)
	return prop
}

func (d *driver) ledgerMutants() []mutant {
	mk := func() client.ChannelProposal { return d.ledgerProposal() }
	out := d.baseMutants("ledger", mk, d.B.addr)
	add := func(name string, f func(p *client.LedgerChannelProposalMsg)) {
		p := d.ledgerProposal()
		f(p)
		out = append(out, mutant{"ledger/" + name, p, d.B.addr})
	}
	add("receiver-is-not-peer-1", func(p *client.LedgerChannelProposalMsg) { p.Peers = []wmap{d.B.addr, d.I.addr} })
	add("peers-swapped", func(p *client.LedgerChannelProposalMsg) { p.Peers = []wmap{d.A.addr, d.B.addr} })
	add("three-peers", func(p *client.LedgerChannelProposalMsg) { p.Peers = []wmap{d.B.addr, d.A.addr, d.I.addr} })
	add("one-peer", func(p *client.LedgerChannelProposalMsg) { p.Peers = []wmap{d.B.addr} })
	add("no-peers", func(p *client.LedgerChannelProposalMsg) { p.Peers = nil })
	add("three-peers-three-participants", func(p *client.LedgerChannelProposalMsg) {
		p.Peers = []wmap{d.B.addr, d.A.addr, d.I.addr}
		b := p.InitBals.Balances.Clone()
		for i := range b {
			b[i] = append(b[i], d.bal())
		}
		p.InitBals.Balances, p.FundingAgreement = b, b.Clone()
	})
	add("nil-participant", func(p *client.LedgerChannelProposalMsg) { p.Participant = nil })
	add("peer-with-two-addresses", func(p *client.LedgerChannelProposalMsg) {
		p.Peers = []wmap{{0: d.B.addr[0], 1: simwire.NewRandomAddress(d.g.R)}, d.A.addr}
	})
	add("peer-0-empty-map", func(p *client.LedgerChannelProposalMsg) { p.Peers = []wmap{{}, d.A.addr} })
	add("peer-1-empty-map", func(p *client.LedgerChannelProposalMsg) { p.Peers = []wmap{d.B.addr, {}} })
	add("peers-empty-maps", func(p *client.LedgerChannelProposalMsg) { p.Peers = []wmap{{}, {}} })
	add("receiver-with-two-addresses", func(p *client.LedgerChannelProposalMsg) {
		p.Peers = []wmap{d.B.addr, {0: d.A.addr[0], 1: simwire.NewRandomAddress(d.g.R)}}
	})
	add("funding-agreement-differs", func(p *client.LedgerChannelProposalMsg) { // allowed for ledger channels
		fa := p.FundingAgreement.Clone()
		fa[0][0], fa[0][1] = fa[0][1], fa[0][0]
		p.FundingAgreement = fa
	})
	return out
}

func (d *driver) subProposal(parent chanSnap) *client.SubChannelProposalMsg {
	al := d.alloc(d.within(parent.state.Balances, func(p int) int { return p }))
	// the parent may have another number of assets than the world (never here), keep dimensions
	prop, err := client.NewSubChannelProposal(parent.id, d.cd(), al, d.opts(d.B, d.g.R.Intn(3) == 0)...)
	if err != nil {
		panic(err)
	}
	d.pid(prop)
	return prop
}

func (d *driver) otherAssets(al *channel.Allocation) {
	switch d.g.R.Intn(4) {
	case 0: // another asset id
		i := d.g.R.Intn(len(al.Assets))
		al.Assets = append([]channel.Asset{}, al.Assets...)
		al.Assets[i] = &simchannel.Asset{ID: cv.AssetID(al.Assets[i]) + 1}
	case 1: // an additional asset
		al.Assets = append(append([]channel.Asset{}, al.Assets...), d.g.Asset())
		al.Backends = append(append([]wallet.BackendID{}, al.Backends...), 0)
		al.Balances = append(al.Balances.Clone(), []channel.Bal{big.NewInt(0), big.NewInt(0)})
	case 2: // one asset fewer (or permuted)
		if len(al.Assets) > 1 {
			al.Assets = al.Assets[1:]
			al.Backends = al.Backends[1:]
			al.Balances = al.Balances.Clone()[1:]
		} else {
			al.Assets = []channel.Asset{&simchannel.Asset{ID: cv.AssetID(al.Assets[0]) ^ 0x10}}
		}
	default: // permuted
		if len(al.Assets) > 1 {
			as := append([]channel.Asset{}, al.Assets...)
			as[0], as[1] = as[1], as[0]
			al.Assets = as
		} else {
			al.Assets = []channel.Asset{&simchannel.Asset{ID: cv.AssetID(al.Assets[0]) + 7}}
		}
	}
}

func (d *driver) subMutants(ctx ctxSnap, full bool) []mutant {
	var out []mutant
	// parents in which the sender proposed (peer 0 = B) and parents in which we proposed
	doneKind := map[string]bool{}
	for _, par := range ctx.chans {
		par := par
		if !sameWire(par.peers[0], d.B.addr) && !sameWire(par.peers[1], d.B.addr) {
			continue
		}
		kind := "sub"
		if par.idx == 0 {
			kind = "sub-own-parent" // the parent's proposer is the receiver: peers = (receiver, sender)
		}
		if doneKind[kind] {
			continue // one parent of each kind
		}
		doneKind[kind] = true
		mk := func() client.ChannelProposal { return d.subProposal(par) }
		if kind == "sub" {
			if full {
				out = append(out, d.baseMutants(kind, mk, d.B.addr)...)
			} else {
				out = append(out, mutant{kind + "/wellformed", mk(), d.B.addr})
			}
		} else {
			out = append(out, mutant{kind + "/wellformed-otherwise", mk(), d.B.addr})
			continue
		}
		add := func(name string, f func(p *client.SubChannelProposalMsg)) {
			p := d.subProposal(par)
			f(p)
			out = append(out, mutant{kind + "/" + name, p, d.B.addr})
		}
		add("unknown-parent", func(p *client.SubChannelProposalMsg) { p.Parent = d.rid() })
		add("zero-parent", func(p *client.SubChannelProposalMsg) { p.Parent = channel.ID{} })
		add("other-assets", func(p *client.SubChannelProposalMsg) {
			d.otherAssets(p.InitBals)
			p.FundingAgreement = p.InitBals.Balances.Clone()
		})
		add("other-backends", func(p *client.SubChannelProposalMsg) {
			bs := append([]wallet.BackendID{}, p.InitBals.Backends...)
			bs[d.g.R.Intn(len(bs))] = 1
			p.InitBals.Backends = bs
		})
		add("no-backends", func(p *client.SubChannelProposalMsg) { p.InitBals.Backends = nil })
		add("more-than-parent", func(p *client.SubChannelProposalMsg) {
			b := p.InitBals.Balances.Clone()
			i, j := d.g.R.Intn(len(b)), d.g.R.Intn(2)
			b[i][j] = new(big.Int).Add(par.state.Balances[i][j], big.NewInt(1+int64(d.g.R.Intn(3))))
			p.InitBals.Balances, p.FundingAgreement = b, b.Clone()
		})
		add("exactly-parent", func(p *client.SubChannelProposalMsg) {
			b := par.state.Balances.Clone()
			p.InitBals.Balances, p.FundingAgreement = b, b.Clone()
		})
		add("more-than-parent-in-total-only", func(p *client.SubChannelProposalMsg) {
			// one participant asks for the whole channel: above its own balance
			b := p.InitBals.Balances.Clone()
			i := d.g.R.Intn(len(b))
			b[i][0] = new(big.Int).Add(new(big.Int).Add(par.state.Balances[i][0], par.state.Balances[i][1]), big.NewInt(1))
			b[i][1] = big.NewInt(0)
			p.InitBals.Balances, p.FundingAgreement = b, b.Clone()
		})
		// without a matching parent: every mutant class once more against an unknown parent
		for _, m := range d.noParent(d.baseMutants(kind+"-noparent", mk, d.B.addr), full) {
			m.p.(*client.SubChannelProposalMsg).Parent = d.rid()
			out = append(out, m)
		}
	}
	return out
}

func (d *driver) virtMutants(ctx ctxSnap, full bool) []mutant {
	var out []mutant
	if d.hubChannel(d.A) == nil || d.hubChannel(d.B) == nil {
		return nil
	}
	par, _ := ctx.find(d.hubChannel(d.A).ID())
	mkv := func() *client.VirtualChannelProposalMsg { return d.virtualProposal(d.B, d.A, d.bPart) }
	mk := func() client.ChannelProposal { return mkv() }
	if full {
		out = append(out, d.baseMutants("virtual", mk, d.B.addr)...)
	} else {
		out = append(out, mutant{"virtual/wellformed", mk(), d.B.addr})
	}
	add := func(name string, f func(p *client.VirtualChannelProposalMsg)) {
		p := mkv()
		f(p)
		out = append(out, mutant{"virtual/" + name, p, d.B.addr})
	}
	add("receiver-is-not-peer-1", func(p *client.VirtualChannelProposalMsg) { p.Peers = []wmap{d.B.addr, d.I.addr} })
	add("peers-swapped", func(p *client.VirtualChannelProposalMsg) { p.Peers = []wmap{d.A.addr, d.B.addr} })
	add("three-peers", func(p *client.VirtualChannelProposalMsg) { p.Peers = []wmap{d.B.addr, d.A.addr, d.I.addr} })
	add("peer-0-empty-map", func(p *client.VirtualChannelProposalMsg) { p.Peers = []wmap{{}, d.A.addr} })
	add("peer-1-empty-map", func(p *client.VirtualChannelProposalMsg) { p.Peers = []wmap{d.B.addr, {}} })
	add("peers-empty-maps", func(p *client.VirtualChannelProposalMsg) { p.Peers = []wmap{{}, {}} })
	add("one-parent", func(p *client.VirtualChannelProposalMsg) { p.Parents = p.Parents[:1] })
	add("only-own-parent", func(p *client.VirtualChannelProposalMsg) { p.Parents = p.Parents[1:] })
	add("no-parents", func(p *client.VirtualChannelProposalMsg) { p.Parents = nil })
	add("three-parents", func(p *client.VirtualChannelProposalMsg) { p.Parents = append(p.Parents, d.rid()) })
	add("unknown-parent", func(p *client.VirtualChannelProposalMsg) { p.Parents = []channel.ID{p.Parents[0], d.rid()} })
	add("parents-swapped", func(p *client.VirtualChannelProposalMsg) { p.Parents = []channel.ID{p.Parents[1], p.Parents[0]} })
	add("proposer-parent-unknown-to-us", func(p *client.VirtualChannelProposalMsg) { // fine: we only know our own
		p.Parents = []channel.ID{d.rid(), p.Parents[1]}
	})
	add("one-index-map", func(p *client.VirtualChannelProposalMsg) { p.IndexMaps = p.IndexMaps[:1] })
	add("only-own-index-map", func(p *client.VirtualChannelProposalMsg) { p.IndexMaps = p.IndexMaps[1:] })
	add("no-index-maps", func(p *client.VirtualChannelProposalMsg) { p.IndexMaps = nil })
	add("three-index-maps", func(p *client.VirtualChannelProposalMsg) {
		p.IndexMaps = append(p.IndexMaps, []channel.Index{0, 1})
	})
	add("index-map-entry-out-of-range", func(p *client.VirtualChannelProposalMsg) {
		im := append([]channel.Index{}, p.IndexMaps[1]...)
		im[d.g.R.Intn(2)] = []channel.Index{2, 3, 255, 65535}[d.g.R.Intn(4)]
		p.IndexMaps = [][]channel.Index{p.IndexMaps[0], im}
	})
	add("index-map-empty", func(p *client.VirtualChannelProposalMsg) {
		p.IndexMaps = [][]channel.Index{p.IndexMaps[0], {}}
	})
	add("index-map-nil", func(p *client.VirtualChannelProposalMsg) {
		p.IndexMaps = [][]channel.Index{p.IndexMaps[0], nil}
	})
	add("index-map-one-entry", func(p *client.VirtualChannelProposalMsg) {
		p.IndexMaps = [][]channel.Index{p.IndexMaps[0], p.IndexMaps[1][:1]}
	})
	add("index-map-three-entries", func(p *client.VirtualChannelProposalMsg) {
		p.IndexMaps = [][]channel.Index{p.IndexMaps[0], append(append([]channel.Index{}, p.IndexMaps[1]...), channel.Index(d.g.R.Intn(2)))}
	})
	add("index-map-duplicate", func(p *client.VirtualChannelProposalMsg) {
		q := channel.Index(d.g.R.Intn(2))
		p.IndexMaps = [][]channel.Index{p.IndexMaps[0], {q, q}}
	})
	add("index-map-duplicate-funds-exceed", func(p *client.VirtualChannelProposalMsg) {
		// the overwritten participant asks for more than the parent holds
		q := p.IndexMaps[1][1]
		p.IndexMaps = [][]channel.Index{p.IndexMaps[0], {q, q}}
		b := p.InitBals.Balances.Clone()
		i := d.g.R.Intn(len(b))
		b[i][0] = new(big.Int).Add(par.state.Balances[i][q], big.NewInt(1))
		p.InitBals.Balances, p.FundingAgreement = b, b.Clone()
	})
	add("index-map-empty-funds-exceed", func(p *client.VirtualChannelProposalMsg) {
		p.IndexMaps = [][]channel.Index{p.IndexMaps[0], {}}
		b := p.InitBals.Balances.Clone()
		for i := range b {
			for j := range b[i] {
				b[i][j] = new(big.Int).Add(par.state.Balances[i][j], big.NewInt(5))
			}
		}
		p.InitBals.Balances, p.FundingAgreement = b, b.Clone()
	})
	add("index-map-of-other-side-wrong", func(p *client.VirtualChannelProposalMsg) { // not ours to check
		p.IndexMaps = [][]channel.Index{{7, 7, 7}, p.IndexMaps[1]}
	})
	add("index-map-mirrored", func(p *client.VirtualChannelProposalMsg) { // still one-to-one: funds compared at the other positions
		im := p.IndexMaps[1]
		p.IndexMaps = [][]channel.Index{p.IndexMaps[0], {im[1], im[0]}}
	})
	add("funding-agreement-value", func(p *client.VirtualChannelProposalMsg) {
		fa := p.FundingAgreement.Clone()
		i, j := d.g.R.Intn(len(fa)), d.g.R.Intn(2)
		fa[i][j] = new(big.Int).Add(fa[i][j], big.NewInt(1))
		p.FundingAgreement = fa
	})
	add("funding-agreement-swapped-and-funds-exceed", func(p *client.VirtualChannelProposalMsg) {
		b := p.InitBals.Balances.Clone()
		i := d.g.R.Intn(len(b))
		q := p.IndexMaps[1][1]
		b[i][1] = new(big.Int).Add(par.state.Balances[i][q], big.NewInt(1))
		p.InitBals.Balances = b
	})
	add("funding-agreement-dimension", func(p *client.VirtualChannelProposalMsg) {
		p.FundingAgreement = p.FundingAgreement.Clone()[:len(p.FundingAgreement)-1]
	})
	add("funding-agreement-nil", func(p *client.VirtualChannelProposalMsg) { p.FundingAgreement = nil })
	add("funds-exceed-parent", func(p *client.VirtualChannelProposalMsg) {
		b := p.InitBals.Balances.Clone()
		i, j := d.g.R.Intn(len(b)), d.g.R.Intn(2)
		b[i][j] = new(big.Int).Add(par.state.Balances[i][p.IndexMaps[1][j]], big.NewInt(1+int64(d.g.R.Intn(3))))
		p.InitBals.Balances, p.FundingAgreement = b, b.Clone()
	})
	add("funds-exactly-parent", func(p *client.VirtualChannelProposalMsg) {
		b := p.InitBals.Balances.Clone()
		for i := range b {
			for j := range b[i] {
				b[i][j] = new(big.Int).Set(par.state.Balances[i][p.IndexMaps[1][j]])
			}
		}
		p.InitBals.Balances, p.FundingAgreement = b, b.Clone()
	})
	add("other-assets", func(p *client.VirtualChannelProposalMsg) {
		d.otherAssets(p.InitBals)
		p.FundingAgreement = p.InitBals.Balances.Clone()
	})
	add("other-backends", func(p *client.VirtualChannelProposalMsg) {
		bs := append([]wallet.BackendID{}, p.InitBals.Backends...)
		bs[d.g.R.Intn(len(bs))] = 1
		p.InitBals.Backends = bs
	})
	// without a matching parent
	for _, m := range d.noParent(d.baseMutants("virtual-noparent", mk, d.B.addr), full) {
		v := m.p.(*client.VirtualChannelProposalMsg)
		v.Parents = []channel.ID{v.Parents[0], d.rid()}
		out = append(out, m)
	}
	return out
}

// noParent thins the "without a matching parent" repetition of the generic mutants: all of them
// in the thorough tier, a rotating selection otherwise.
func (d *driver) noParent(ms []mutant, full bool) []mutant {
	if !full {
		return nil
	}
	if d.tier == "thorough" {
		return ms
	}
	var out []mutant
	for i, m := range ms {
		if i == 0 || (i+d.gmp)%4 == 0 {
			out = append(out, m)
		}
	}
	return out
}

// parentlessMutants: sub-channel and virtual channel proposals for a receiver without channels.
func (d *driver) parentlessMutants() []mutant {
	var out []mutant
	al := func() *channel.Allocation { return d.alloc(func(int, int) *big.Int { return d.bal() }) }
	sp, _ := client.NewSubChannelProposal(d.rid(), d.cd(), al(), d.opts(d.B, false)...)
	d.pid(sp)
	out = append(out, mutant{"sub-noparent/registry-empty", sp, d.B.addr})
	for _, np := range []int{0, 1, 2, 3} {
		parents := make([]channel.ID, np)
		for i := range parents {
			parents[i] = d.rid()
		}
		vp, _ := client.NewVirtualChannelProposal(d.cd(), d.bPart, al(), []wmap{d.B.addr, d.A.addr}, parents,
			[][]channel.Index{{0, 1}, {1, 0}}, d.opts(d.B, false)...)
		d.pid(vp)
		out = append(out, mutant{fmt.Sprintf("virtual-noparent/registry-empty-%d-parents", np), vp, d.B.addr})
	}
	return out
}

var outcomeTerm = map[string]string{"called": "HandlerCalled", "dropped": "Dropped", "panic": "Panic", "timeout": "Panic"}

func (d *driver) deliverAll(ms []mutant, stage string) {
	for _, m := range ms {
		ctx := d.snap(d.A)
		good, why := oracleGood(ctx, m.from, m.p)
		pt := propTerm(m.p) // before delivery: the client must not modify it, but render what was sent
		oc, detail := d.wd.deliver(m.from, m.p)
		idx := d.w.add(hx.App("CHandle", d.w.ctx(ctx, false), cv.Ramap(m.from), pt, outcomeTerm[oc]), "handle/"+m.name)
		d.res.Count("handle/"+m.name, oc, fmt.Sprintf("%s/%s/%s/%d", m.name, oc, stage, len(d.assets)), false)
		site := "client.handleChannelProposal"
		switch {
		case oc == "panic":
			d.anyPanic = true
			d.fail(site, m.name, "handling a received proposal panicked: "+detail, idx, pt)
		case oc == "timeout":
			d.fail(site, m.name, "handling a received proposal did not return: "+detail, idx, pt)
		case oc == "called" && !good:
			d.fail(site, m.name, "a proposal that must be dropped ("+why+") was passed to the proposal handler", idx, pt)
		case oc == "dropped" && good:
			d.fail(site, m.name, "a well-formed proposal was dropped", idx, pt)
		}
		if len(d.res.Samples) < 6 && d.g.R.Intn(40) == 0 {
			d.res.Sample(map[string]interface{}{"class": m.name, "outcome": oc, "proposal": pt})
		}
	}
}

// ---------- arrival while the parent is busy ----------

func (d *driver) chanOf(p *party, id channel.ID) *client.Channel {
	for _, ch := range d.chans[p] {
		if ch.ID() == id {
			return ch
		}
	}
	return nil
}

// busyCases: a sub-channel (virtual channel) proposal arrives while an update of the parent is
// waiting for the receiver's decision, i.e. while the parent's machine mutex is held. The update
// moves funds so that the proposal flips between fundable and unfundable (both directions; and the
// same with the update rejected). What counts is the parent's state when the handler obtains the
// mutex: the observation is compared with handle_proposal_locked on (situation at arrival, situation
// under the lock) and with the oracle on the situation under the lock.
func (d *driver) busyCases(first *client.Channel) {
	type scen struct {
		name   string
		flip   bool // true: unfundable on arrival, fundable after the update; false: the reverse
		accept bool
	}
	scens := []scen{
		{"fundable-then-update-takes-funds", false, true},
		{"unfundable-then-update-brings-funds", true, true},
		{"fundable-update-rejected", false, false},
		{"unfundable-update-rejected", true, false},
	}
	run := func(kind string, parentID channel.ID, peer *party, mk func() client.ChannelProposal, col func(p client.ChannelProposal, part int) int) {
		own, peerCh := d.chanOf(d.A, parentID), d.chanOf(peer, parentID)
		if own == nil || peerCh == nil {
			return
		}
		for _, sc := range scens {
			pre := own.State()
			prop := mk()
			if prop == nil {
				return
			}
			// asset i, virtual/sub participant j asks for funds of the parent's participant q
			i, j := d.g.R.Intn(len(pre.Balances)), d.g.R.Intn(2)
			q := col(prop, j)
			have, other := pre.Balances[i][q], pre.Balances[i][1-q]
			b := prop.Base().InitBals.Balances.Clone()
			post := pre.Balances.Clone()
			if !sc.flip {
				if have.Sign() == 0 {
					continue
				}
				// asks for everything q has; the update takes 1..have away from q
				delta := new(big.Int).Add(big.NewInt(1), d.bigBal(new(big.Int).Sub(have, big.NewInt(1))))
				b[i][j] = new(big.Int).Set(have)
				post[i][q] = new(big.Int).Sub(have, delta)
				post[i][1-q] = new(big.Int).Add(other, delta)
			} else {
				if other.Sign() == 0 {
					continue
				}
				// asks for k more than q has; the update brings k..other from the other participant
				k := new(big.Int).Add(big.NewInt(1), d.bigBal(new(big.Int).Sub(other, big.NewInt(1))))
				delta := new(big.Int).Add(k, d.bigBal(new(big.Int).Sub(other, k)))
				b[i][j] = new(big.Int).Add(have, k)
				b[i][1-j] = big.NewInt(0) // the other participant gives funds away: ask for nothing there
				post[i][q] = new(big.Int).Add(have, delta)
				post[i][1-q] = new(big.Int).Sub(other, delta)
			}
			prop.Base().InitBals.Balances, prop.Base().FundingAgreement = b, b.Clone()
			name := "busy/" + kind + "/" + sc.name
			ctx0 := d.snap(d.A)
			pt := propTerm(prop)
			r := d.wd.deliverBusy(d.B.addr, prop, peerCh, own, func(s *channel.State) { s.Balances = post.Clone() }, sc.accept)
			if r.skipped != "" || (r.updErr == nil) != sc.accept {
				d.res.Warnings = append(d.res.Warnings, fmt.Sprintf("%s: interleaving not established: %s %v", name, r.skipped, r.updErr))
				continue
			}
			ctx1 := d.snap(d.A) // nothing but the decided update has touched the parent
			good, why := oracleGood(ctx1, d.B.addr, prop)
			idx := d.w.add(hx.App("CLocked", d.w.ctx(ctx0, false), d.w.ctx(ctx1, false), cv.Ramap(d.B.addr), pt, outcomeTerm[r.outcome]), name)
			d.res.Count(name, r.outcome, fmt.Sprintf("%s/%s/early=%v/blocked=%v/%d", name, r.outcome, r.early, r.blocked, len(d.assets)), false)
			site := "client.handleChannelProposal"
			switch {
			case r.outcome == "panic":
				d.anyPanic = true
				d.fail(site, name, "handling a proposal that arrived while the parent was locked panicked: "+r.detail, idx, pt)
			case r.outcome == "timeout":
				d.fail(site, name, "handling a proposal that arrived while the parent was locked did not return: "+r.detail, idx, pt)
			case r.outcome == "called" && !good:
				d.fail(site, name, "a proposal that is inconsistent with the parent's state when the handler runs ("+why+") was passed to the proposal handler: it was fundable only before the update that held the parent's mutex", idx, pt)
			case r.outcome == "dropped" && good:
				d.fail(site, name, "a proposal that is well-formed for the parent's state under the lock was dropped (it was unfundable only before the update that held the parent's mutex)", idx, pt)
			}
			if !r.lockFree {
				d.fail(site, name, "the parent's machine mutex is still held after handleChannelProposal returned", idx, pt)
			}
		}
	}
	if first != nil {
		par := first.ID()
		run("sub", par, d.B, func() client.ChannelProposal {
			ps, ok := d.snap(d.A).find(par)
			if !ok {
				return nil
			}
			al := d.alloc(func(a, p int) *big.Int { return d.bigBal(new(big.Int).Rsh(ps.state.Balances[a][p], 2)) })
			prop, err := client.NewSubChannelProposal(par, d.cd(), al, d.opts(d.B, false)...)
			if err != nil {
				panic(err)
			}
			d.pid(prop)
			return prop
		}, func(_ client.ChannelProposal, part int) int { return part })
	}
	if hub := d.hubChannel(d.A); hub != nil && d.hubChannel(d.B) != nil {
		run("virtual", hub.ID(), d.I, func() client.ChannelProposal {
			if vp := d.virtualProposal(d.B, d.A, d.bPart); vp != nil {
				return vp
			}
			return nil
		}, func(p client.ChannelProposal, part int) int {
			return int(p.(*client.VirtualChannelProposalMsg).IndexMaps[1][part])
		})
	}
}

// liveSample: proposals delivered to a client running the unmodified Client.Handle loop (party B).
// Dropping is observed through a sentinel: a well-formed proposal published afterwards has reached
// the handler. Only run while nothing has panicked (a panic in the real loop kills the process).
func (d *driver) liveSample(n int) {
	if d.anyPanic {
		return
	}
	mkLedger := func() *client.LedgerChannelProposalMsg {
		al := d.alloc(func(int, int) *big.Int { return d.bal() })
		p, err := client.NewLedgerChannelProposal(d.cd(), d.A.waddr(d.A.newAccount()), al, []wmap{d.A.addr, d.B.addr}, d.opts(d.A, false)...)
		if err != nil {
			panic(err)
		}
		d.pid(p)
		return p
	}
	wait := func(id client.ProposalID, before int, long bool) bool {
		deadline := time.Now().Add(opTimeout)
		if !long {
			deadline = time.Now().Add(30 * time.Millisecond)
		}
		for {
			if d.B.calledCount(id) > before {
				return true
			}
			if time.Now().After(deadline) {
				return false
			}
			time.Sleep(200 * time.Microsecond)
		}
	}
	for i := 0; i < n; i++ {
		p := mkLedger()
		name := "live/ledger/wellformed"
		switch d.g.R.Intn(6) {
		case 0:
		case 1:
			p.ChallengeDuration, name = 0, "live/ledger/cd=0"
		case 2:
			p.Peers, name = []wmap{d.B.addr, d.A.addr}, "live/ledger/peers-swapped"
		case 3:
			p.InitBals.Locked = []channel.SubAlloc{*channel.NewSubAlloc(d.rid(), make([]channel.Bal, len(d.assets)), nil)}
			for k := range p.InitBals.Locked[0].Bals {
				p.InitBals.Locked[0].Bals[k] = big.NewInt(1)
			}
			name = "live/ledger/pre-locked"
		case 4:
			p.InitBals.Balances[0][1] = big.NewInt(-1)
			p.FundingAgreement = p.InitBals.Balances.Clone()
			name = "live/ledger/negative"
		case 5:
			p.Peers, name = []wmap{d.A.addr, d.I.addr}, "live/ledger/receiver-is-not-peer-1"
		}
		ctx := d.snap(d.B)
		good, why := oracleGood(ctx, d.A.addr, p)
		pt := propTerm(p)
		pctx, cancel := context.WithTimeout(context.Background(), opTimeout)
		_ = d.wd.bus.Publish(pctx, &wire.Envelope{Sender: d.A.addr, Recipient: d.B.addr, Msg: p})
		called := false
		if good {
			called = wait(p.ProposalID, 0, true)
		} else {
			s := mkLedger()
			_ = d.wd.bus.Publish(pctx, &wire.Envelope{Sender: d.A.addr, Recipient: d.B.addr, Msg: s})
			wait(s.ProposalID, 0, true)
			called = wait(p.ProposalID, 0, false)
		}
		cancel()
		oc := "dropped"
		if called {
			oc = "called"
		}
		idx := d.w.add(hx.App("CHandle", d.w.ctx(ctx, false), cv.Ramap(d.A.addr), pt, outcomeTerm[oc]), name)
		d.res.Count(name, oc, name+"/"+oc, false)
		if called != good {
			d.fail("client.Client.Handle", name, fmt.Sprintf("real Handle loop: handler called = %v for a proposal with: %s", called, why), idx, pt)
		}
	}
}

// acceptFailures: Accept on a delivered (well-formed) proposal with an accept message that cannot
// complete; verdict error | panic compared with valid_acc / complete_cpp.
func (d *driver) acceptFailures() {
	type acase struct {
		name string
		p    client.ChannelProposal
		acc  func(client.ChannelProposal) client.ChannelProposalAccept
	}
	foreign := d.B.waddr(d.B.newAccount()) // an address our wallet cannot unlock
	var cs []acase
	lp := func() client.ChannelProposal { return d.ledgerProposal() }
	cs = append(cs,
		acase{"accept/ledger/wrong-type-sub", lp(), func(p client.ChannelProposal) client.ChannelProposalAccept {
			return &client.SubChannelProposalAccMsg{BaseChannelProposalAcc: client.BaseChannelProposalAcc{ProposalID: p.Base().ProposalID, NonceShare: d.A.share()}}
		}},
		acase{"accept/ledger/wrong-type-virtual", lp(), func(p client.ChannelProposal) client.ChannelProposalAccept {
			return &client.VirtualChannelProposalAccMsg{BaseChannelProposalAcc: client.BaseChannelProposalAcc{ProposalID: p.Base().ProposalID, NonceShare: d.A.share()}, Responder: d.A.waddr(d.A.newAccount())}
		}},
		acase{"accept/ledger/other-proposal-id", lp(), func(p client.ChannelProposal) client.ChannelProposalAccept {
			a := p.(*client.LedgerChannelProposalMsg).Accept(d.A.waddr(d.A.newAccount()), client.WithNonce(d.A.share()))
			a.ProposalID[d.g.R.Intn(32)] ^= 1 << uint(d.g.R.Intn(8))
			return a
		}},
		acase{"accept/ledger/foreign-participant", lp(), func(p client.ChannelProposal) client.ChannelProposalAccept {
			return p.(*client.LedgerChannelProposalMsg).Accept(foreign, client.WithNonce(d.A.share()))
		}},
	)
	if par, ok := d.firstParent(); ok {
		cs = append(cs,
			acase{"accept/sub/wrong-type-ledger", d.subProposal(par), func(p client.ChannelProposal) client.ChannelProposalAccept {
				return &client.LedgerChannelProposalAccMsg{BaseChannelProposalAcc: client.BaseChannelProposalAcc{ProposalID: p.Base().ProposalID, NonceShare: d.A.share()}, Participant: d.A.waddr(d.A.newAccount())}
			}},
			acase{"accept/sub/other-proposal-id", d.subProposal(par), func(p client.ChannelProposal) client.ChannelProposalAccept {
				a := p.(*client.SubChannelProposalMsg).Accept(client.WithNonce(d.A.share()))
				a.ProposalID[0] ^= 0x80
				return a
			}},
		)
	}
	if vp := d.virtualProposal(d.B, d.A, d.bPart); vp != nil {
		cs = append(cs,
			acase{"accept/virtual/wrong-type-ledger", vp, func(p client.ChannelProposal) client.ChannelProposalAccept {
				return &client.LedgerChannelProposalAccMsg{BaseChannelProposalAcc: client.BaseChannelProposalAcc{ProposalID: p.Base().ProposalID, NonceShare: d.A.share()}, Participant: d.A.waddr(d.A.newAccount())}
			}},
			acase{"accept/virtual/foreign-responder", d.virtualProposal(d.B, d.A, d.bPart), func(p client.ChannelProposal) client.ChannelProposalAccept {
				return p.(*client.VirtualChannelProposalMsg).Accept(foreign, client.WithNonce(d.A.share()))
			}},
		)
	}
	for _, c := range cs {
		d.acceptCase(c.name, c.p, c.acc(c.p))
	}
}

func (d *driver) firstParent() (chanSnap, bool) {
	for _, ch := range d.snap(d.A).chans {
		if ch.idx == 1 && sameWire(ch.peers[0], d.B.addr) {
			return ch, true
		}
	}
	return chanSnap{}, false
}

func (d *driver) acceptCase(name string, p client.ChannelProposal, acc client.ChannelProposalAccept) {
	ctx := d.snap(d.A)
	resc := d.A.plan(p.Base().ProposalID, acc)
	pt, at := propTerm(p), accTerm(acc)
	oc, detail := d.wd.deliver(d.B.addr, p)
	if oc != "called" {
		d.fail("client.handleChannelProposal", name, "a well-formed proposal did not reach the handler: "+oc+" "+detail, -1, pt)
		return
	}
	verdict := "VdErr"
	select {
	case r := <-resc:
		if r.panicked {
			verdict = "VdPanic"
		} else if r.err == nil {
			verdict = "VdOk"
		}
	case <-time.After(opTimeout):
		verdict = "VdPanic"
	}
	term := hx.App("CAccept", d.w.ctx(ctx, true), pt, at, hx.Nat(1), d.w.def("ntbl", "list (bytes * Z)", hx.List(d.ntbl)), d.w.def("itbl", "list (bytes * bytes)", hx.List(d.itbl)), verdict)
	idx := d.w.add(term, name)
	d.res.Count(name, verdict, name+"/"+verdict, false)
	if verdict != "VdErr" {
		d.fail("client.ProposalResponder.Accept", name, "an accept message that does not fit the proposal (or cannot be completed) did not return an error: "+verdict, idx, pt)
	}
}

// repeatOpening: the same (proposal, accept) pair a second time derives the same ID: "channel
// already exists".
func (d *driver) repeatOpening(o openRes) {
	if o.chR == nil {
		return
	}
	lp, ok := o.prop.(*client.LedgerChannelProposalMsg)
	if !ok {
		return
	}
	cp := *lp
	cp.InitBals = cloneAlloc(lp.InitBals)
	d.acceptCase("accept/ledger/same-shares-again", &cp, o.acc)
}

func (d *driver) world(k int) {
	gmps := []int{16, 1, 2, 4, 8, 3}
	d.gmp = gmps[k%len(gmps)]
	runtime.GOMAXPROCS(d.gmp)
	wr := rand.New(rand.NewSource(d.g.R.Int63()))
	d.wd = newWorld(wr, 3, k%2 == 1)
	d.A, d.B, d.I = d.wd.parties[0], d.wd.parties[1], d.wd.parties[2]
	d.chans = map[*party][]*client.Channel{}
	d.bPart = d.B.waddr(d.B.newAccount())
	d.ntbl, d.itbl = nil, nil
	na := 1 + d.g.R.Intn(3)
	d.assets = nil
	seen := map[uint64]bool{}
	for len(d.assets) < na {
		a := d.g.Asset().(*simchannel.Asset)
		if !seen[a.ID] {
			seen[a.ID] = true
			d.assets = append(d.assets, a)
		}
	}
	defer d.wd.close()

	// quick tier: the first world delivers every mutant class, the others the class-specific ones
	light := d.tier != "thorough" && k > 0
	// a receiver without any channel
	if light {
		d.deliverAll(d.ledgerMutants()[16:], "empty")
	} else {
		d.deliverAll(d.ledgerMutants(), "empty")
	}
	d.deliverAll(d.parentlessMutants(), "empty")
	// ledger channels in both directions, with the hub on either side
	var first openRes
	{
		prop, err := client.NewLedgerChannelProposal(d.cd(), d.B.waddr(d.B.newAccount()), d.parentAlloc(), []wmap{d.B.addr, d.A.addr}, d.optsApp(d.B, true, false)...)
		if err != nil {
			panic(err)
		}
		d.pid(prop)
		cp, cr := d.snap(d.B), d.snap(d.A)
		first = d.wd.open(d.B, d.A, prop, nil, d.A.share())
		if d.recordOpen("ledger", d.B, d.A, cp, cr, first) {
			d.reopen("ledger", d.B, d.A, first)
		}
	}
	l2 := d.openLedger(d.A, d.B, false)
	if k%2 == 0 {
		d.openLedger(d.A, d.I, false)
		d.openLedger(d.B, d.I, false)
	} else {
		d.openLedger(d.I, d.A, false)
		d.openLedger(d.I, d.B, false)
	}
	d.repeatOpening(first)
	ctx := d.snap(d.A)
	d.deliverAll(d.ledgerMutants()[:6], "parents")
	d.deliverAll(d.subMutants(ctx, !light), "parents")
	d.deliverAll(d.virtMutants(ctx, !light), "parents")
	d.acceptFailures()
	// sub-channels and virtual channels, then again on parents with locked funds
	if first.chP != nil {
		d.openSub(d.B, d.A, first.chP.ID())
	}
	if l2 != nil {
		d.openSub(d.A, d.B, l2.ID())
	}
	d.openVirtual(d.B, d.A)
	d.openVirtual(d.A, d.B)
	if !light {
		ctx = d.snap(d.A)
		d.deliverAll(d.subMutants(ctx, d.tier == "thorough"), "locked")
		d.deliverAll(d.virtMutants(ctx, d.tier == "thorough"), "locked")
	}
	d.busyCases(first.chP)
	d.liveSample(6)
}

func Run(seed int64, tier, out string) {
	hx.Seed(seed)
	res := hx.NewResult("C08", seed, tier)
	res.PerFile = 64
	d := &driver{g: &cv.Gen{R: rand.New(rand.NewSource(hx.Rng.Int63()))}, res: res, tier: tier,
		w: &writer{dir: out, perFile: 64, ctxName: map[string]string{}, res: res}}
	defer runtime.GOMAXPROCS(runtime.GOMAXPROCS(0))
	n := 2
	if tier == "thorough" {
		n = 16
	}
	for k := 0; k < n; k++ {
		d.world(k)
	}
	d.w.flush()
	res.Rule = "real clients (client.New over wire.NewLocalBus, sim wallets, in-memory funder/adjudicator): per world one receiver with a recording ProposalHandler; well-formed ledger/sub/virtual proposals with random parameters and one mutant per validity condition, delivered by bus.Publish from a puppet peer, with/without matching parents, before and after funds are locked; outcome handler called|dropped|panic vs. handle_proposal; accept messages that cannot complete vs. valid_acc/complete_cpp; openings between two real clients (ledger both directions, sub both directions, virtual both directions through a hub) under GOMAXPROCS 1..16 and Gosched jitter: both channels' Params/ID/Idx/Peers/State vs. complete_cpp, ID and nonce pre-images hashed in Go; distinct by (class, outcome, stage, #assets)"
	res.Write(out)
}
