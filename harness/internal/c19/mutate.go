package c19

import (
	"fmt"
	"math/big"
	"reflect"
	"unsafe"
)

// mutation is one in-place write to a mutable cell reachable from a value.
type mutation struct {
	desc string
	do   func()
	undo func()
}

func setter(v reflect.Value, nv reflect.Value, desc string) mutation {
	old := reflect.New(v.Type()).Elem()
	old.Set(v)
	return mutation{desc, func() { v.Set(nv) }, func() { v.Set(old) }}
}

// cells enumerates the writes a holder of the (addressable) value v can perform: every scalar, pointer,
// slice header, slice element, map entry, big integer header and word reachable without passing through
// a documented shared object.
func cells(v reflect.Value, path string, out *[]mutation, seen map[uintptr]bool) {
	v = clean(v)
	t := v.Type()
	zero := reflect.Zero(t)
	if isSharedType(t) {
		if !v.IsNil() {
			*out = append(*out, setter(v, zero, path+"=nil"))
		}
		return
	}
	switch v.Kind() {
	case reflect.Bool:
		*out = append(*out, setter(v, reflect.ValueOf(!v.Bool()).Convert(t), path+" flipped"))
	case reflect.Int, reflect.Int8, reflect.Int16, reflect.Int32, reflect.Int64:
		*out = append(*out, setter(v, reflect.ValueOf(v.Int()+1).Convert(t), path+"+1"))
	case reflect.Uint, reflect.Uint8, reflect.Uint16, reflect.Uint32, reflect.Uint64:
		*out = append(*out, setter(v, reflect.ValueOf(v.Uint()+1).Convert(t), path+"+1"))
	case reflect.String:
		*out = append(*out, setter(v, reflect.ValueOf(v.String()+"x").Convert(t), path+"+x"))
	case reflect.Array:
		if t.Elem().Kind() == reflect.Uint8 {
			for _, i := range []int{0, v.Len() - 1} {
				if i >= 0 && i < v.Len() {
					e := v.Index(i)
					*out = append(*out, setter(e, reflect.ValueOf(uint8(e.Uint())^0x5a).Convert(e.Type()), fmt.Sprintf("%s[%d]^=0x5a", path, i)))
				}
			}
			return
		}
		for i := 0; i < v.Len(); i++ {
			cells(v.Index(i), fmt.Sprintf("%s[%d]", path, i), out, seen)
		}
	case reflect.Struct:
		for i := 0; i < v.NumField(); i++ {
			cells(v.Field(i), path+"."+t.Field(i).Name, out, seen)
		}
	case reflect.Ptr:
		if v.IsNil() {
			return
		}
		*out = append(*out, setter(v, zero, path+"=nil"))
		if seen[v.Pointer()] {
			return
		}
		seen[v.Pointer()] = true
		if t == bigIntType {
			b := (*big.Int)(unsafe.Pointer(v.Pointer()))
			saved := *b
			*out = append(*out, mutation{path + " header overwritten", func() { *b = *big.NewInt(424242) }, func() { *b = saved }})
			if bits := b.Bits(); len(bits) > 0 {
				x := big.Word(1)
				if len(bits) == 1 && bits[0] == 1 {
					x = 2 // keep the top word non-zero: big.Int requires normalised word arrays
				}
				*out = append(*out, mutation{path + " word[0] flipped in place", func() { bits[0] ^= x }, func() { bits[0] ^= x }})
			}
			return
		}
		cells(v.Elem(), "(*"+path+")", out, seen)
	case reflect.Interface:
		if v.IsNil() {
			return
		}
		*out = append(*out, setter(v, zero, path+"=nil"))
		if e := v.Elem(); e.Kind() == reflect.Ptr && !e.IsNil() {
			if seen[e.Pointer()] {
				return
			}
			seen[e.Pointer()] = true
			cells(e.Elem(), "(*"+path+")", out, seen)
		}
	case reflect.Slice:
		if v.IsNil() {
			return
		}
		*out = append(*out, setter(v, zero, path+"=nil"))
		if t.Elem().Kind() == reflect.Uint8 {
			for _, i := range []int{0, v.Len() - 1} {
				if i >= 0 && i < v.Len() {
					e := v.Index(i)
					*out = append(*out, setter(e, reflect.ValueOf(uint8(e.Uint())^0x5a).Convert(e.Type()), fmt.Sprintf("%s[%d]^=0x5a", path, i)))
				}
			}
			return
		}
		for i := 0; i < v.Len(); i++ {
			cells(v.Index(i), fmt.Sprintf("%s[%d]", path, i), out, seen)
		}
	case reflect.Map:
		if v.IsNil() {
			return
		}
		*out = append(*out, setter(v, zero, path+"=nil"))
		maxKey := int64(-1)
		for _, k := range v.MapKeys() {
			k := k
			if k.Int() > maxKey {
				maxKey = k.Int()
			}
			old := v.MapIndex(k)
			*out = append(*out, mutation{fmt.Sprintf("delete(%s, %d)", path, k.Int()),
				func() { v.SetMapIndex(k, reflect.Value{}) }, func() { v.SetMapIndex(k, old) }})
			*out = append(*out, mutation{fmt.Sprintf("%s[%d]=zero", path, k.Int()),
				func() { v.SetMapIndex(k, reflect.Zero(t.Elem())) }, func() { v.SetMapIndex(k, old) }})
			ev := old
			if ev.Kind() == reflect.Interface {
				ev = ev.Elem()
			}
			if ev.Kind() == reflect.Ptr && !ev.IsNil() && !seen[ev.Pointer()] {
				seen[ev.Pointer()] = true
				cells(ev.Elem(), fmt.Sprintf("(*%s[%d])", path, k.Int()), out, seen)
			}
		}
		nk := reflect.ValueOf(maxKey + 1).Convert(t.Key())
		*out = append(*out, mutation{fmt.Sprintf("%s[%d]=zero (new key)", path, maxKey+1),
			func() { v.SetMapIndex(nk, reflect.Zero(t.Elem())) }, func() { v.SetMapIndex(nk, reflect.Value{}) }})
	}
}

// observe applies every write to side `a` in turn and reports the writes after which the other side
// reads differently.
func observe(shared map[string]int, a, b interface{}) (n int, seenThrough []string, selfCheck bool) {
	var ms []mutation
	cells(reflect.ValueOf(a).Elem(), "v", &ms, map[uintptr]bool{})
	before := fingerprint(shared, b)
	self := fingerprint(shared, a)
	for _, m := range ms {
		m.do()
		if fingerprint(shared, b) != before {
			seenThrough = append(seenThrough, m.desc)
		}
		m.undo()
	}
	return len(ms), seenThrough, fingerprint(shared, a) == self
}
