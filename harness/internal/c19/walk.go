package c19

import (
	"crypto/elliptic"
	"encoding/hex"
	"fmt"
	"math/big"
	"reflect"
	"sort"
	"strings"
	"unsafe"

	"perun.network/go-perun/channel"
	"perun.network/go-perun/log"
	"perun.network/go-perun/wallet"
	"verif/harness/internal/hx"
)

// The kinds of objects that clones share by documentation (property text: app definitions, asset
// identifiers, signing accounts) plus the two process-wide singletons reachable from channel values
// (the logger of a machine and the elliptic curve of a sim address).
var sharedIfaces = []reflect.Type{
	reflect.TypeOf((*channel.App)(nil)).Elem(),
	reflect.TypeOf((*channel.StateApp)(nil)).Elem(),
	reflect.TypeOf((*channel.ActionApp)(nil)).Elem(),
	reflect.TypeOf((*channel.Asset)(nil)).Elem(),
	reflect.TypeOf((*wallet.Account)(nil)).Elem(),
	reflect.TypeOf((*elliptic.Curve)(nil)).Elem(),
	reflect.TypeOf((*log.Logger)(nil)).Elem(),
}

var (
	accMapType = reflect.TypeOf(map[wallet.BackendID]wallet.Account(nil))
	bigIntType = reflect.TypeOf((*big.Int)(nil))
)

func isSharedType(t reflect.Type) bool {
	if t == accMapType {
		return true
	}
	if t.Kind() != reflect.Interface {
		return false
	}
	for _, s := range sharedIfaces {
		if t == s {
			return true
		}
	}
	return false
}

// span is the memory of one located node.
type span struct {
	lo, hi uintptr
	what   string
}

// walker renders the pointer graph below a value as a gv term (coq/Model/Heap.v). Locations are small
// numbers in first-visit order, keyed by address; zero-size allocations get a number of their own.
type walker struct {
	ids    map[uintptr]int
	next   int
	shared map[string]int
	spans  []span
	plain  bool // fingerprint mode: locations are not printed
}

func newWalker() *walker {
	return &walker{ids: map[uintptr]int{}, next: 1, shared: map[string]int{}}
}

func (w *walker) loc(addr uintptr, size uintptr, what string) string {
	if w.plain {
		return "_"
	}
	if size == 0 || addr == 0 {
		n := w.next
		w.next++
		return fmt.Sprint(n)
	}
	w.spans = append(w.spans, span{addr, addr + size, what})
	if n, ok := w.ids[addr]; ok {
		return fmt.Sprint(n)
	}
	n := w.next
	w.next++
	w.ids[addr] = n
	return fmt.Sprint(n)
}

func (w *walker) sharedID(key string) string {
	n, ok := w.shared[key]
	if !ok {
		n = len(w.shared)
		w.shared[key] = n
	}
	return fmt.Sprintf("(GShared %d)", n)
}

// clean returns a settable/readable view of an addressable value (also for unexported fields).
func clean(v reflect.Value) reflect.Value {
	if v.CanAddr() {
		return reflect.NewAt(v.Type(), unsafe.Pointer(v.UnsafeAddr())).Elem()
	}
	return v
}

// boxed copies a non-addressable value (map element, interface content) into an addressable one.
func boxed(v reflect.Value) reflect.Value {
	if v.CanAddr() {
		return clean(v)
	}
	nv := reflect.New(v.Type()).Elem()
	nv.Set(v)
	return nv
}

func sharedKey(v reflect.Value) string {
	e := v
	if v.Kind() == reflect.Interface {
		e = v.Elem()
	}
	switch e.Kind() {
	case reflect.Ptr, reflect.Map, reflect.Func, reflect.Chan, reflect.UnsafePointer:
		return fmt.Sprintf("p%x", e.Pointer())
	default:
		return fmt.Sprintf("v%s:%v", e.Type(), e.Interface())
	}
}

func lit(b []byte) string {
	allZero := len(b) >= 8
	for _, x := range b {
		if x != 0 {
			allZero = false
			break
		}
	}
	if allZero {
		return fmt.Sprintf("(GLit (zs %d))", len(b))
	}
	return `(GLit (unhex "` + hex.EncodeToString(b) + `"))`
}

func num(i int64) string {
	if i < 0 {
		return fmt.Sprintf("(GNum (%d))", i)
	}
	return fmt.Sprintf("(GNum %d)", i)
}

func (w *walker) bigInt(b *big.Int) string {
	p := w.loc(uintptr(unsafe.Pointer(b)), unsafe.Sizeof(*b), "big.Int header")
	bits := b.Bits()
	var a string
	if cap(bits) > 0 {
		a = w.loc(uintptr(unsafe.Pointer(unsafe.SliceData(bits))), uintptr(cap(bits))*unsafe.Sizeof(big.Word(0)), "big.Int words")
	} else {
		a = w.loc(0, 0, "")
	}
	return fmt.Sprintf("(GPtr %s (GInt %s %s))", p, a, hx.Z(b))
}

func (w *walker) val(v reflect.Value) string {
	v = clean(v)
	t := v.Type()
	if isSharedType(t) {
		if v.IsNil() {
			return "GNil"
		}
		return w.sharedID(sharedKey(v))
	}
	switch v.Kind() {
	case reflect.Bool:
		if v.Bool() {
			return "(GNum 1)"
		}
		return "(GNum 0)"
	case reflect.Int, reflect.Int8, reflect.Int16, reflect.Int32, reflect.Int64:
		return num(v.Int())
	case reflect.Uint, reflect.Uint8, reflect.Uint16, reflect.Uint32, reflect.Uint64:
		u := v.Uint()
		if u < 1<<62 {
			return num(int64(u))
		}
		return "(GNum " + hx.Z(new(big.Int).SetUint64(u)) + ")"
	case reflect.String:
		return lit([]byte(v.String()))
	case reflect.Array:
		if t.Elem().Kind() == reflect.Uint8 {
			b := make([]byte, v.Len())
			for i := range b {
				b[i] = byte(v.Index(i).Uint())
			}
			return lit(b)
		}
		items := make([]string, v.Len())
		for i := range items {
			items[i] = w.val(v.Index(i))
		}
		return "(GStruct " + hx.List(items) + ")"
	case reflect.Struct:
		items := make([]string, v.NumField())
		for i := range items {
			items[i] = w.val(v.Field(i))
		}
		return "(GStruct " + hx.List(items) + ")"
	case reflect.Ptr:
		if v.IsNil() {
			return "GNil"
		}
		if t == bigIntType {
			return w.bigInt((*big.Int)(unsafe.Pointer(v.Pointer())))
		}
		l := w.loc(v.Pointer(), t.Elem().Size(), "*"+t.Elem().String())
		return "(GPtr " + l + " " + w.val(v.Elem()) + ")"
	case reflect.Interface:
		if v.IsNil() {
			return "GNil"
		}
		e := v.Elem()
		if e.Kind() == reflect.Ptr {
			return w.val(e)
		}
		return w.val(boxed(e))
	case reflect.Slice:
		if v.IsNil() {
			return "GNil"
		}
		l := w.loc(v.Pointer(), uintptr(v.Cap())*t.Elem().Size(), t.String())
		if t.Elem().Kind() == reflect.Uint8 {
			return "(GBytes " + l + ` (unhex "` + hex.EncodeToString(v.Bytes()) + `"))`
		}
		items := make([]string, v.Len())
		for i := range items {
			items[i] = w.val(v.Index(i))
		}
		return "(GSlice " + l + " " + hx.List(items) + ")"
	case reflect.Map:
		if v.IsNil() {
			return "GNil"
		}
		l := w.loc(v.Pointer(), 1, t.String())
		keys := v.MapKeys()
		sort.Slice(keys, func(i, j int) bool { return keys[i].Int() < keys[j].Int() })
		ks := make([]string, len(keys))
		vs := make([]string, len(keys))
		for i, k := range keys {
			ks[i] = fmt.Sprintf("(%d)%%Z", k.Int())
			vs[i] = w.val(boxed(v.MapIndex(k)))
		}
		return "(GMap " + l + " " + hx.List(ks) + " " + hx.List(vs) + ")"
	case reflect.Func, reflect.Chan, reflect.UnsafePointer:
		if v.IsNil() {
			return "GNil"
		}
		return w.sharedID(sharedKey(v))
	}
	panic("walker: unsupported kind " + v.Kind().String())
}

// render walks the value behind ptr (a pointer to the root) and returns the term and the spans seen.
func (w *walker) render(ptr interface{}) (string, []span) {
	w.spans = nil
	s := w.val(reflect.ValueOf(ptr).Elem())
	sp := w.spans
	w.spans = nil
	return s, sp
}

// fingerprint: the value without locations (strict: nil and empty are different).
func fingerprint(shared map[string]int, ptr interface{}) (s string) {
	defer func() {
		if e := recover(); e != nil {
			s = fmt.Sprint("unreadable: ", e)
		}
	}()
	w := &walker{ids: map[uintptr]int{}, next: 1, shared: shared, plain: true}
	return w.val(reflect.ValueOf(ptr).Elem())
}

// overlap returns a description of the first pair of overlapping spans of the two sides.
func overlap(a, b []span) string {
	type ev struct {
		s    span
		side int
	}
	all := make([]ev, 0, len(a)+len(b))
	for _, s := range a {
		all = append(all, ev{s, 0})
	}
	for _, s := range b {
		all = append(all, ev{s, 1})
	}
	sort.Slice(all, func(i, j int) bool { return all[i].s.lo < all[j].s.lo })
	var maxHi [2]uintptr
	var last [2]span
	for _, e := range all {
		o := 1 - e.side
		if maxHi[o] > e.s.lo {
			x, y := last[o], e.s
			if e.side == 0 {
				x, y = y, x
			}
			return fmt.Sprintf("original %s and clone %s share memory", x.what, y.what)
		}
		if e.s.hi > maxHi[e.side] {
			maxHi[e.side] = e.s.hi
			last[e.side] = e.s
		}
	}
	return ""
}

func short(s string) string {
	s = strings.ReplaceAll(s, "\n", " ")
	if len(s) > 1500 {
		return s[:1500] + "..."
	}
	return s
}
